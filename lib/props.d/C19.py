# C19 - purity and safety for concurrent readers.
#  * regen: before the Coq obligations are checked, harness/effects (go/packages + go/ssa) regenerates
#    coq/gen/Effects.v from the source of the tree under test (VERIF_REPO honoured); Properties/C19.v is compiled
#    against it, so a write introduced into a listed function makes the obligation fail.
#  * runs: the same cases in the ordinary build and in a -race build (a race report kills the harness; ./check
#    re-runs in -sync mode and reports the batch that was running).
#  * obligation_report: when an obligation fails, the translator's report (function + source position of every
#    shared write) is put first into the replay.
def _c19_root():
    import os, sys
    return os.path.dirname(os.path.dirname(os.path.abspath(sys.modules["props"].__file__)))


_C19_STUB = '''(** GENERATED stub: the effect translator FAILED on this tree; the obligations of Properties/C19.v must fail. *)
From Coq Require Import List String.
From Low Require Import Spec.EffectTypes.
Import ListNotations.
Open Scope string_scope.
Definition analysed : list string := [].
Definition missing : list string := ["the effect translator failed on this tree: %s"].
Definition reachable : list string := [].
Definition calls : list (string * list string) := [].
Definition shared_writes : list swrite := [].
Definition unclassified : list swrite := [].
Definition results_shared : list swrite := [].
Definition ambient_reads : list swrite := [].
Definition globals_read : list string := [].
Definition external_globals_read : list string := [].
Definition w_analysed : list string := [].
Definition w_missing : list string := [].
Definition w_reachable : list string := [].
Definition w_calls : list (string * list string) := [].
Definition w_shared_writes : list swrite := [].
Definition w_unclassified : list swrite := [].
Definition w_results_shared : list swrite := [].
Definition w_ambient_reads : list swrite := [].
Definition m_analysed : list string := [].
Definition m_missing : list string := [].
Definition m_reachable : list string := [].
Definition m_calls : list (string * list string) := [].
Definition m_shared_writes : list swrite := [].
Definition m_unclassified : list swrite := [].
Definition m_results_shared : list swrite := [].
Definition m_ambient_reads : list swrite := [].
Definition m_globals_read : list string := [].
Definition m_external_globals_read : list string := [].
Definition m_receiver_writes : list swrite := [].
Definition w_globals_read : list string := [].
Definition w_external_globals_read : list string := [].
Definition package_globals : list string := [].
Definition global_writers : list (string * list string) := [].
Definition writer_info : list finfo := [].
'''

_c19_state = {"report": "", "restore": False}


def _c19_regen(repo=None):
    """Regenerate coq/gen/Effects.v from the Go source of the tree under test (called under coq.lock)."""
    import os, subprocess, glob, atexit
    root = _c19_root()
    repo = repo or os.environ.get("VERIF_REPO", "/repo")
    env = dict(os.environ, VERIF_REPO=repo)
    out = os.path.join(root, "coq", "gen", "Effects.v")
    p = subprocess.run([os.path.join(root, "harness", "effects", "regen.sh"), repo], env=env, timeout=600,
                       stdout=subprocess.PIPE, stderr=subprocess.PIPE, text=True)
    if p.returncode == 3:
        # the translator itself does not build: a broken tool, not a verdict about the tree
        import sys
        err = getattr(sys.modules.get("__main__"), "ToolError", RuntimeError)
        raise err("harness/effects does not build: " + (p.stderr or p.stdout)[-1500:])
    if p.returncode != 0:
        # the tree does not load / type-check (the harness build reports that as its own violation) or the
        # toolchain is broken: the obligations must not be discharged against a stale file
        msg = (p.stderr or p.stdout)[-600:].replace('"', "'").replace("\n", " | ")
        os.makedirs(os.path.dirname(out), exist_ok=True)
        open(out, "w").write(_C19_STUB % msg)
        _c19_state["report"] = "effect translator failed: " + (p.stderr or p.stdout)[-1500:]
    else:
        rep = ""
        rf = os.path.join(root, "build", "effects", "report.txt" if repo == "/repo" else "report-scratch.txt")
        if os.path.exists(rf):
            rep = open(rf).read()
        bad = [l for l in rep.splitlines() if l.startswith(("SHARED-WRITE", "UNCLASSIFIED", "MISSING", "RESULT-ALIASES", "PANIC-VALUE-ALIASES", "AMBIENT-STATE"))] + \
              [l for l in rep.splitlines() if l.startswith("GLOBAL-WRITER")]
        _c19_state["report"] = "effect model regenerated from %s:\n%s" % (repo, "\n".join(bad)[:2400])
    if repo != "/repo" and not _c19_state["restore"]:
        # a scratch tree was analysed: put the file for /repo back when ./check exits, so that a later plain
        # `make` in coq/ is not confronted with the effect model of a mutant
        _c19_state["restore"] = True

        def _back():
            try:
                import fcntl
                _lk = open(os.path.join(root, "build", "regen-C19.lock"), "w")
                fcntl.flock(_lk, fcntl.LOCK_EX)   # not while another run is between regeneration and coqc
                subprocess.run([os.path.join(root, "harness", "effects", "regen.sh"), "/repo"], timeout=600,
                               env=dict(os.environ, VERIF_REPO="/repo"), stdout=subprocess.DEVNULL, stderr=subprocess.DEVNULL)
            except Exception:
                pass
        atexit.register(_back)


def _c19_report():
    return _c19_state["report"]


CFG = {
 'files': ['bitmap/mask.go', 'bitmap/select.go', 'bitmap/rank.go', 'bitmap/next.go', 'bitmap/slice.go', 'bitmap/toarray.go',
           'bitmap/get.go', 'bitmap/fromstr32.go', 'bitmap/fmt.go', 'bitmap/builder.go', 'bitmap/tailbitmap.go', 'bitmap/of.go', 'bmtree/index.go', 'bmtree/allpaths.go', 'bmtree/decode.go',
           'bitstr/bitstr.go', 'bitword/bitword.go', 'sigbits/sigbits.go', 'sigbits/firstdiff.go', 'sigbits/sharding.go',
           'sigbits/countprefixes.go', 'sigbits/sigbits_countprefixes.go'],
 'go': {'c19.Batch': 'a mixed batch of the listed functions run from T goroutines over shared inputs (harness/c19.go)',
        'c19.BigKeys': 'sigbits.FirstDiffBits / New / CountPrefixes over >= 2^18 shared counter keys from T goroutines vs the digest alone under GOMAXPROCS(1)'},
 'regen': _c19_regen,
 'obligation_report': _c19_report,
 'runs': [{'tags': 'verif'}, {'tags': 'verif', 'race': True}],
 'rule': 'a case is a batch: ONE set of shared inputs (bitmap words + its rank64/rank128/select32/select32R64 indexes, a bmtree '
         'bitmapSize, sorted distinct keys as strings cut from one backing array / as []byte / as bitStr / as 1,2,4,8-bit words / '
         'as a *SigBits) and 6..64 calls [function id, p1, p2, p3, ref]; the executor runs the whole batch from T = 8..16 goroutines, '
         'R = 1..3 times each, each goroutine in its own order, and reports every goroutine\'s results, the inputs afterwards, '
         'whether the derived shared inputs and the exported tables (Mask, RMask, MaskUpto, RMaskUpto, Bit, RBit, BitWord) are '
         'unchanged; ref = the same call made alone on a private copy beforehand. Cases: every function id alone x every '
         'in-domain argument over a fixed small input set (exhaustive); mixed batches over ascending then random input sizes '
         '(all functions / listed only / one package / two functions hammered; one batch in three mixes in out-of-range calls whose '
         'recovered panic values are kept and rendered after the batch); ToStr on prefix views of the shared word arrays; string-heavy '
         'batches around StrCmpUpto\'s alias; c19.BigKeys: 2^18 (thorough: up to 2^19) compact counter keys shared by the goroutines, digest of '
         'FirstDiffBits/CountPrefixes vs the digest alone under GOMAXPROCS(1) (re-run by the harness under GOMAXPROCS 3/33/97). '
         'Every case runs in the ordinary and in the -race build. Non-trivial = at least 8 goroutines and at least one listed '
         'function; shape key = goroutines / repetitions / size classes / tree height / set of function ids; distinct = distinct (op,args,build)',
 'assumptions': ['sizes as in C01-C17 (64*len(words) < 2^31, 8*len(key) < 2^31); calls are in the domain of their function, except the marked error-path '
                 'batches: there the call panics (or not) deterministically and the recovered panic VALUE, rendered after the batch, is the result',
                 'the effect model is as good as the translator (harness/effects: SSA walk, root tracing through IndexAddr/FieldAddr/'
                 'Slice/Phi/Convert/unsafe/uintptr/loads, summaries through calls and closures) and its allow-list of read-only '
                 'functions outside the module (bytes.Compare/Equal, strings.*, strconv.*, math/bits.*, fmt.Sprint*/Errorf, runtime.KeepAlive, reflect.ValueOf/TypeOf/Value.Kind/Len/Index/Interface, '
                 'github.com/openacid/must); "no shared write in the SSA form" => "the call is a read-only operation" is the trusted '
                 'reading of the model, monitored by the -race runs',
                 'not shown: that the Go compiler and runtime implement read-only functions without hidden shared state'],
 'trusted': ['harness/effects (go/packages + go/ssa v0.29.0 translator) and its allow-list', 'the Go race detector (ThreadSanitizer runtime)'],
 'explanation': 'Generic theorem: threads of read-only operations on a shared memory are schedule independent (every interleaving, any '
                'number of threads: memory unchanged, every thread gets the results of its run alone = sequential execution), and results '
                'depend only on the locations read. From the source on every run: no listed function nor anything it calls writes through '
                'a parameter, global, captured variable or unknown pointer (shared_writes = [], unclassified = []), the call graph is closed, '
                'and every package-level table is written only from init - checked by computation against the regenerated coq/gen/Effects.v.',
 # no shrinking: the refs are part of the arguments and a concurrency failure does not replay deterministically
 'shrink_s': 0,
}
