CFG = {
 'files': ['bmtree/newpath.go', 'bmtree/pathlen.go', 'bmtree/pathheight.go', 'bmtree/pathbits.go', 'bmtree/pathstr.go'],
 'go': {'bmtree.NewPath/fields': 'bmtree.NewPath + PathLen/PathHeight/PathBits/PathMask/PathStr',
        'bmtree.NewPath/order': 'bmtree.NewPath (two nodes of one height)'},
 'rule': 'a node is sent as (h, bit list) and BOTH sides build the word (Go: NewPath(bits<<(h-l), l, h)); '
         'cases = every height<=6 (thorough: 7) x every node x every ordered pair, every height 0..32 x every length x 7 '
         'extreme prefixes, random heights 7..32 (30/31/32 forced in 1/4) with the second node chosen as equal / ancestor / '
         'descendant / spine descendant / diverging after a common prefix / independent, each pair in both orders; '
         'a fields case is non-trivial when the node is not the root, an order case when both nodes are non-root and differ; '
         'distinct = distinct (op,args)',
 'assumptions': ['0 <= h <= 32 and |q| <= h (the uint64 word has 32 bits for the search prefix and 32 for the mask)',
                 'PathHeight is claimed only for |q| >= 1 (the root\'s word is 0 for every height)'],
 'trusted': ['fmt.Sprintf("%0*b") modelled definitionally as the zero-padded binary numeral (Model/BmtreePathStr.v: fmt_0b)'],
 'explanation': 'Theorems over the model: NewPath builds enc h q; PathLen/PathHeight/PathBits/PathMask/PathStr of enc h q; '
                'Z.compare (enc h q1) (enc h q2) = bits_cmp q1 q2 (pre-order), with injectivity, ancestor-first and left-before-right '
                'as corollaries. Correspondence: the six observations and the order of two real words are judged by the spec checker.',
}
