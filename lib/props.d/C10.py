CFG = {
 'files': ['bmtree/newpath.go', 'bmtree/pathlen.go', 'bmtree/pathheight.go', 'bmtree/pathbits.go', 'bmtree/pathstr.go'],
 'go': {'bmtree.NewPath/fields': 'bmtree.NewPath + PathLen/PathHeight/PathBits/PathMask/PathStr',
        'bmtree.NewPath/order': 'bmtree.NewPath (two nodes of one height)',
        'bmtree.NewPath/raw': 'bmtree.NewPath on arbitrary (searchingBits, length, height)',
        'bmtree.PathFields/raw': 'bmtree.PathLen/PathHeight/PathBits/PathMask/PathStr on an arbitrary uint64',
        'bmtree.NewPath/rebuild': 'bmtree.NewPath(PathBits(w), PathLen(w), PathHeight(w)) and ^mask&bits',
        'bmtree.NewPath/noncanon': 'bmtree.NewPath with search bits below the prefix + PathLen/PathHeight/PathStr',
        'bmtree.PathStr/order': 'strings.Compare(bmtree.PathStr(w1), bmtree.PathStr(w2)) for two path words of one height',
        'bmtree.PathStr/parse': 'bmtree.NewPath(strconv.ParseUint(bmtree.PathStr(w), 2) << (h-len), len, h)',
        'bmtree.PathStr/seq': 'bmtree.PathStr called consecutively on a list of path words (one executor)',
        'bmtree.PathStr/bulk': 'bmtree.PathStr on > 65536 distinct path words (compact segments, both sides enumerate), every stride-th text digested + the first K rendered again',
        'bmtree.PathStr/concurrent': 'bmtree.PathStr of 2-3 path words from 4-8 goroutines in tight loops; per path the set of distinct texts returned',
        'bmtree.NewPath/family': 'bmtree.NewPath for a node, its children, the next node outside its sub-tree and a second node'},
 'rule': 'a node is sent as (h, bit list) and BOTH sides build the word (Go: NewPath(bits<<(h-l), l, h)); '
         'cases = every height<=6 (thorough: 7) x every node x every ordered pair, every height 0..32 x every length x 7 '
         'extreme prefixes, random heights 7..32 (30/31/32 forced in 1/4) with the second node chosen as equal / ancestor / '
         'descendant / spine descendant / diverging after a common prefix / independent, each pair in both orders; '
         'a fields case is non-trivial when the node is not the root, an order case when both nodes are non-root and differ; '
         'WIDENING: NewPath/raw = lengths -2..66 x heights -2..66 x 3 search words, 19 extreme int32 values for both, random '
         '(documented range with arbitrary bits / length above height / heights 33..70 / anything), non-trivial when 1<=length<=64 or the call panics; '
         'PathFields/raw and NewPath/rebuild = every canonical mask (h 0..32 x l 0..h) x canonical / stray-bit / above-height / all-ones bits, '
         'the same masks with one hole or one extra bit next to the block ends, every canonical mask with ONE hole at every interior position / ONE extra bit at every lower position, all 256 8-bit mask patterns at 4 positions, random words, non-trivial when the mask half is non-zero; '
         'NewPath/noncanon = heights 0..32 x all lengths x 4 prefixes x 5 extras, non-trivial when extra != 0 and the node is not the root; '
         'NewPath/family = heights 0..5 (thorough: 6) x all ordered pairs, random heights 6..32 with r chosen as q / descendant / last leaf below q / '
         'next_out q or below it / ancestor / node just before q / independent, non-trivial unless both are the root; '
         'PathStr/order = the pairs of NewPath/family through the text of the paths; PathStr/parse = heights 0..32 x all lengths x 8 prefixes, non-trivial for non-root nodes; '
         'SESSIONS (hidden state inside PathStr): PathStr/seq = heights 1..10 x every pair of nodes of different heights with equal PathBits and PathLen '
         '(non-zero prefix) in the order A B A, random such pairs up to height 32, random mixed sessions with repeats; PathStr/concurrent = 16 (thorough 64) '
         'cases of 2-3 paths x 4/6/8 goroutines x 10^4 iterations; PathStr/bulk = 66800 distinct paths of heights 17..20 rendered (every 61st text observed through a digest) then the first 16 again '
         '(also as a corpus case = the first calls of a fresh process), followed by the fields cases of heights 1..3 (the first paths this process rendered); '
         'distinct = distinct (op,args)',
 'assumptions': ['0 <= h <= 32 and |q| <= h (the uint64 word has 32 bits for the search prefix and 32 for the mask)',
                 'PathHeight is claimed only for |q| >= 1 (the root\'s word is 0 for every height)',
                 'widening, NewPath/raw: searchingBits any uint64, length and height any int32 (a length outside 0..64 panics: bitmap.Mask is a [65]uint64)',
                 'widening, PathFields/raw and NewPath/rebuild: any uint64',
                 'sessions: the model of PathStr is a pure function; PathStr/concurrent and the ordering of calls inside a session are correspondence-only '
                 '(the theorems say what every call must return, the operations check that the implementation returns it under that schedule)'],
 'trusted': ['strings.Compare modelled as Lib/Lex.v bytes_cmp, strconv.ParseUint(s, 2, 64) on \'0\'/\'1\' strings as Spec/PathWideSpec.v parse_bin (widening ops PathStr/order, PathStr/parse)',
             'fmt.Sprintf("%0*b") modelled definitionally as the zero-padded binary numeral (Model/BmtreePathStr.v: fmt_0b)'],
 'explanation': 'Theorems over the model: NewPath builds enc h q; PathLen/PathHeight/PathBits/PathMask/PathStr of enc h q; '
                'Z.compare (enc h q1) (enc h q2) = bits_cmp q1 q2 (pre-order), with injectivity, ancestor-first and left-before-right '
                'as corollaries. Correspondence: the six observations and the order of two real words are judged by the spec checker.',
}
