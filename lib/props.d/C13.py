CFG = {'assumptions': ["64*len(bm) < 2^31 (Go's int32 positions cannot overflow; larger bitmaps are outside every statement)",
                 'every word is in [0,2^64) (words_ok)',
                 'domain of the property: 0 <= i <= end <= 64*len(bm), i < 64*len(bm); PrevOne additionally end >= 1'],
 'files': ['bitmap/next.go', 'bitmap/mask.go'],
 'go': {'bitmap.NextOne': 'bitmap.NextOne',
        'bitmap.PrevOne': 'bitmap.PrevOne',
        'bitmap.NextOne/ends': 'bitmap.NextOne (for every end in [i, 64*len])',
        'bitmap.PrevOne/starts': 'bitmap.PrevOne (for every i in [0, min(end, 64*len-1)])'},
 'rule': 'cases = exhaustive sweeps (every single-bit bitmap of 1..3 words, constant and {bit0,bit63} bitmaps x all '
         '(i,end) of the domain, one sweep line = all ends for one i / all i for one end) + structured bitmaps (1-bits '
         'separated by 0..4 all-zero words, bits at offsets 0 and 63, ranges aimed at 1-bits, word boundaries and '
         'their neighbours, empty and whole ranges) + random bitmaps of 1..12 words; a case is non-trivial when the '
         'bitmap has a 1-bit and the range is not empty; shape key = (op, where the hit is: first word / after k '
         'all-zero words / none, clipped by the range or not, bits masked off in the first word, offset classes of '
         'i, end and the hit); distinct = distinct (op,args)'}
