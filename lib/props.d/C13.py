CFG = {'assumptions': ["64*len(bm) < 2^31 (Go's int32 positions cannot overflow; larger bitmaps are outside every statement)",
                 'every word is in [0,2^64) (words_ok)',
                 'domain of the property: 0 <= i <= end <= 64*len(bm), i < 64*len(bm); PrevOne additionally end >= 1'],
 'files': ['bitmap/next.go', 'bitmap/mask.go'],
 'go': {'bitmap.Next/Get1': 'NextOne, PrevOne and bitmap.Get1 at the positions they return',
        'bitmap.Next/Select32': 'the NextOne walk of the whole bitmap; bitmap.Select32 / bitmap.Select32R64 over '
                                'bitmap.IndexSelect32 / IndexSelect32R64 for every index of the walk',
        'bitmap.Next/ToArray': 'the two walks over the whole bitmap and bitmap.ToArray',
        'bitmap.Next/count': 'rounds of the two walks of [i,end) and bitmap.Rank64(end) - bitmap.Rank64(i) over '
                             'bitmap.IndexRank64(bm, trailing)',
        'bitmap.Next/held': 'bitmap.NextOne / bitmap.PrevOne: a list of queries on ONE slice, run twice, slice '
                            'compared with a copy',
        'bitmap.Next/realloc': 'R rounds of: allocate A, query, drop, runtime.GC(), allocate B of the same length, '
                               'query, drop, GC',
        'bitmap.Next/session': 'bitmap.NextOne / bitmap.PrevOne and in-place bit sets (bm[i>>6] |= 1<<(i&63)) in order '
                               'on ONE slice',
        'bitmap.NextOne': 'bitmap.NextOne (1 case in 16 repeated by 3 callers at once next to 3 other readers of the same bitmap)',
        'bitmap.NextOne/ends': 'bitmap.NextOne (for every end in [i, 64*len])',
        'bitmap.NextOne/huge': 'bitmap.NextOne on a bitmap of 2^17+ words (model evaluated by the suffix scan '
                               'NextOneFast = NextOne)',
        'bitmap.NextOne/iter': 'loop "for i < end { p := NextOne(bm,i,end); if p < 0 {break}; out = append(out,p); i = '
                               'p+1 }"',
        'bitmap.NextOne/sparse': 'bitmap.NextOne (run-length coded bitmap argument; model = int32 model NextOne32)',
        'bitmap.NextPrev/dual': 'NextOne, PrevOne, PrevOne(bm,i,n+1), NextOne(bm,p,end), PrevOne(bm,i,n), '
                                'NextOne(bm,p+1,end)',
        'bitmap.Of/walk': 'bitmap.Of(ps[, n]) then the NextOne walk and the PrevOne walk of the whole result',
        'bitmap.PrevOne': 'bitmap.PrevOne (1 case in 16 repeated by 3 callers at once next to 3 other readers of the same bitmap)',
        'bitmap.PrevOne/iter': 'loop "for end > i { p := PrevOne(bm,i,end); if p < 0 {break}; out = append(out,p); end '
                               '= p }"',
        'bitmap.PrevOne/sparse': 'bitmap.PrevOne (run-length coded bitmap argument; model = int32 model PrevOne32)',
        'bitmap.PrevOne/starts': 'bitmap.PrevOne (for every i in [0, min(end, 64*len-1)])',
        'bitmap.Slice/walk': 'bitmap.Slice(bm, from, to) then the NextOne walk and the PrevOne walk of the whole '
                             'result'},
 'rule': 'cases = exhaustive sweeps (every single-bit bitmap of 1..3 words, constant and {bit0,bit63} bitmaps x all '
         '(i,end) of the domain, one sweep line = all ends for one i / all i for one end) + structured bitmaps (1-bits '
         'separated by 0..4 all-zero words, bits at offsets 0 and 63, ranges aimed at 1-bits, word boundaries and '
         'their neighbours, empty and whole ranges) + random bitmaps of 1..12 words; a case is non-trivial when the '
         'bitmap has a 1-bit and the range is not empty; shape key = (op, where the hit is: first word / after k '
         'all-zero words / none, clipped by the range or not, bits masked off in the first word, offset classes of i, '
         'end and the hit); widening (c13w.go): large sparse bitmaps with gaps of 100..5000 all-zero words, bitmaps '
         'and ranges crossing the bit offsets 2^8 / 2^15 / 2^16 / 2^20, held bitmaps (2..36 queries of both kinds on '
         'one slice, run twice, following the patterns of the laws: same range both ways, nested ranges, a range and '
         'its halves), walks of ranges and of the whole bitmap with NextOne / PrevOne (against ToArray), the six-call '
         'duality bundle; widening shape key = (op, hit/none, class of the number of all-zero words stepped over: 0 / '
         '1-4 / 5-99 / 100-999 / 1000+, clipped, which 2^k offsets the scanned stretch crosses, offset classes of i, '
         'end, hit) resp. (number of 1-bits walked, offset classes); a widening case is non-trivial when the range is '
         'non-empty (sparse), the bitmap has a 1-bit (held, ToArray) or the range contains a 1-bit (walks, duality); '
         'sessions (generated FIRST, both tiers): bitmap.Next/held cases on one held slice - every bitmap of 4 words '
         '(thorough: also 5) over {0,1,1<<63} with at most two non-zero words x every ordered pair of NextOne/PrevOne '
         "queries with i, end at a word boundary or next to one, run consecutively (session a b a b' a ...), and "
         'random sessions of 600 (thorough 3000) such queries on bitmaps of 5..7 words (zero-word gaps of 2..6 words); '
         'session shape key = (words, non-zero words, exhaustive or sampled); big-bitmap state (right after the '
         'sessions, both tiers): sessions WITH in-place updates on bitmaps of 1024..4100 words with zero runs >= 256 '
         'words (long-gap scan, set a bit in an empty word of a gap, queries answered by that bit) and on small '
         'bitmaps; re-allocation histories (bitmaps of > 32 KB, B has 1-bits outside the span of A); NextOne over more '
         'than 2^23 bits with the only 1-bit in the last word; distinct = distinct (op,args)'}
