CFG = {'assumptions': ["64*len(words) < 2^31 (Go's int32 positions cannot overflow; larger bitmaps are outside every "
                 'statement)',
                 'every word is in [0,2^64) (words_ok)',
                 'select queries: 0 <= i < number of 1-bits; the select index is the one IndexSelect32 / '
                 'IndexSelect32R64 built for the same words',
                 'select(rank(p)) composites: 0 <= p < 64*len(words) and some 1-bit at or after p (otherwise Select32 '
                 'is called with i = n, outside its domain)',
                 'unexported helpers (reached through the build-tag-guarded hook file bitmap/verif_export.go): '
                 'select32single with the index IndexSelect32 built for the same words, any int32 i (inside [0, number '
                 'of 1-bits) the position of the i-th 1-bit; outside it the two sentinels -1 / 64*len that the code '
                 'and its own tests state); indexSelectU64 on any uint64 word; selectU64Indexed(w, indexSelectU64(w), '
                 'k) only for 0 <= k < popcount(w) (for k >= popcount(w) the code reads the table at an unrelated '
                 'index or panics: outside every statement, never compared)'],
 'files': ['bitmap/select.go', 'bitmap/rank.go', 'bitmap/mask.go', 'bitmap/next.go', 'bitmap/toarray.go'],
 'go': {'bitmap.IndexSelect32': 'bitmap.IndexSelect32',
        'bitmap.IndexSelect32/held': 'bitmap.IndexSelect32(ws), then index builds on a decoy, then the first index is '
                                     'read out',
        'bitmap.IndexSelect32/rle': 'bitmap.IndexSelect32 on the expanded run-length encoded bitmap (index rendered as '
                                    'run-length encoded first differences)',
        'bitmap.IndexSelect32R64': 'bitmap.IndexSelect32R64',
        'bitmap.IndexSelect32R64/held': 'bitmap.IndexSelect32R64(ws), then index builds on a decoy, then the first '
                                        'indexes are read out',
        'bitmap.IndexSelect32R64/rle': 'select index of bitmap.IndexSelect32R64 on the expanded run-length encoded '
                                       'bitmap',
        'bitmap.NextOne/Rank64': 'bitmap.NextOne(ws, p, 64*len) beside bitmap.Select32 of bitmap.Rank64(ws, '
                                 'IndexRank64(ws,true), p) (or -1 when that rank is the total)',
        'bitmap.PrevOne/Select32': 'bitmap.IndexSelect32 + bitmap.Select32, then bitmap.PrevOne(ws, 0, a) up to the '
                                   'selected bit',
        'bitmap.PrevOne/Select32R64': 'bitmap.IndexSelect32R64 + bitmap.Select32R64, then bitmap.PrevOne(ws, 0, a)',
        'bitmap.Rank128/Select32R64': 'bitmap.IndexSelect32R64 + bitmap.Select32R64, then bitmap.IndexRank128 + '
                                      'bitmap.Rank128 at the selected position',
        'bitmap.Rank64/Select32': 'bitmap.IndexSelect32 + bitmap.Select32, then bitmap.IndexRank64 + bitmap.Rank64 at '
                                  'the selected position',
        'bitmap.Select32': 'bitmap.IndexSelect32 + bitmap.Select32',
        'bitmap.Select32/NextOne': 'bitmap.IndexSelect32 + bitmap.Select32, then bitmap.NextOne(ws, a+1, 64*len) from '
                                   'just after the selected bit',
        'bitmap.Select32/Rank64': 'bitmap.IndexRank64(ws,true) + bitmap.Rank64 at p, then bitmap.IndexSelect32 + '
                                  'bitmap.Select32 of that rank',
        'bitmap.Select32/ToArray': 'bitmap.ToArray + bitmap.IndexSelect32 + bitmap.Select32 for every i < len(ToArray)',
        'bitmap.Select32/held': 'bitmap.IndexSelect32(ws), index builds on a decoy, bitmap.Select32 twice',
        'bitmap.Select32/rle': 'bitmap.IndexSelect32 + bitmap.Select32 on the expanded run-length encoded bitmap',
        'bitmap.Select32R64': 'bitmap.IndexSelect32R64 + bitmap.Select32R64',
        'bitmap.Select32R64/NextOne': 'bitmap.IndexSelect32R64 + bitmap.Select32R64, then bitmap.NextOne(ws, a+1, '
                                      '64*len)',
        'bitmap.Select32R64/Rank128': 'bitmap.IndexRank128 + bitmap.Rank128 at p, then bitmap.IndexSelect32R64 + '
                                      'bitmap.Select32R64 of that rank',
        'bitmap.Select32R64/ToArray': 'bitmap.ToArray + bitmap.IndexSelect32R64 + bitmap.Select32R64 for every i < '
                                      'len(ToArray)',
        'bitmap.Select32R64/held': 'bitmap.IndexSelect32R64(ws), index builds on a decoy, bitmap.Select32R64 twice',
        'bitmap.Select32R64/rle': 'bitmap.IndexSelect32R64 + bitmap.Select32R64 on the expanded run-length encoded '
                                  'bitmap',
        'bitmap.Select32R64/session': 'ONE []uint64 buffer held for the whole case: bitmap.IndexSelect32R64 + '
                                      'bitmap.Select32R64 queries interleaved with in-place edits of the buffer each '
                                      'followed by a re-index',
        'bitmap.indexSelectU64': 'bitmap.indexSelectU64 (through bitmap.VerifIndexSelectU64)',
        'bitmap.select32single': 'bitmap.IndexSelect32 + bitmap.select32single (through bitmap.VerifSelect32Single), 0 '
                                 '<= i < number of 1-bits',
        'bitmap.select32single/Select32': 'bitmap.select32single beside bitmap.Select32 with one and the same index: '
                                          '[single, a, b]',
        'bitmap.select32single/rle': 'bitmap.IndexSelect32 + bitmap.select32single on the expanded run-length encoded '
                                     'bitmap',
        'bitmap.select32single/sentinel': 'bitmap.IndexSelect32 + bitmap.select32single for i < 0 (-1) and i >= number '
                                          'of 1-bits (64*len)',
        'bitmap.select8Lookup/row': 'row b (8 entries) of the package table select8Lookup as initSelectLookup left it '
                                    '(through bitmap.VerifSelect8Lookup)',
        'bitmap.selectU64Indexed': 'bitmap.indexSelectU64(w) + bitmap.selectU64Indexed(w, index, k) (through the Verif '
                                   'hooks): [position, second result]',
        'bitmap.selectU64Indexed/Select32': 'bitmap.selectU64Indexed(w, indexSelectU64(w), k) beside '
                                            'bitmap.Select32([w], IndexSelect32([w]), k): the two positions'},
 'rule': 'cases = corpus + held-index cases over ascending word counts 1..70 (index built, decoy indexes built, then '
         'the first index queried twice; inputs compared before/after) + exhaustive sweeps (every non-zero byte at '
         'byte positions of a one-word bitmap and as upper byte of a 16-bit quarter x all i = select8Lookup through '
         'both table-index expressions; all 1- and 2-bit words x all i; all subsets of 4 positions around every '
         'multiple of 8 in 3 words; all-ones bitmaps) + random bitmaps of 1..40 words in 6 density classes with runs '
         'of empty words and empty tails, i forced to 0, n-1, 32k-1, 32k, 32k+1, 32k+31 plus random. A select case is '
         'non-trivial when i >= 1; shape key = (words skipped from the checkpoint, checkpoint at word start or inside, '
         'byte of the word holding the answer, rank inside that byte, next 1 in same/next/later word or none, i mod 32 '
         'class). An index case is non-trivial when the bitmap has more than 32 1-bits. distinct = distinct (op,args). '
         'Large bitmaps of 64..257 words (..600 thorough) in 3 shapes: index ops, selects at i = 0, n-1, around bit '
         'positions 4096 and 32768, around the last checkpoint, random. Widened composites: rank(select(i)) through '
         'Rank64 and Rank128 (expected (i,1)) and select(rank(p)) (expected: first 1-bit at or after p and the one '
         'after it) on 1-/2-bit words x all p (a third of them in the quick tier), the straddle sets, the random and '
         'the large bitmaps with p on a 1-bit, one after, one before, at word starts/ends, 0, the last 1-bit. A '
         'select(rank(p)) case is non-trivial unless p is the first 1-bit of the bitmap; key = (p hits a 1-bit / '
         'answer in same / next / later word, p at word start / end / inside, where the 1-bit after the answer is, '
         'answer index mod 32 class). Select against NextOne: every rank(select(i)) case is also run as '
         '(a,b)=select(i) followed by NextOne(a+1, 64*len) (expected b, or -1 where b = 64*len); every select(rank(p)) '
         'case is also run as NextOne(p, 64*len) beside select(rank(p)), plus p past the last 1-bit, p = 64*len-1 and '
         'the first word boundary after the last 1-bit (expected -1, key nfrom/none). Whole-bitmap sweeps against '
         'ToArray (one case = ToArray(words) and select(i) for every i): empty / all-zero / all-ones bitmaps, every '
         'random bitmap of at most 6 words, one in 8 of the others, the sparse large bitmaps; non-trivial with at '
         'least 2 words and 33 1-bits, key = (checkpoints, words). Select against PrevOne: every rank(select(i)) case '
         'is also run as a = select(i) followed by PrevOne(0, a) (expected select(i-1), -1 for i = 0; key = distance '
         'in words to the previous 1-bit and byte of the selected bit). Exact-fit held indexes, first thing in every '
         'run and ascending: bitmaps with exactly n 1-bits for ceil(n/32) in {1,2,3,4,8,16,32,64,128,256} and one '
         'checkpoint either side (n = 32c and 32(c-1)+1; dense and strided layouts), index built, indexes of an '
         'all-ones decoy with the same number of checkpoints built, then Select32/Select32R64 at 0, n/2, n-1 with the '
         'FIRST index and both index slices read out after the decoy build. Very large bitmaps, run-length encoded '
         '[[count, word], ...]: 32767, 32768, 32769, 40000, 65535, 65536, 65537 words (+140000 thorough) x {dense, one '
         'bit per word, 1-bits behind a long empty run, islands between long empty runs}; index ops and selects at 0, '
         'the last two 1-bits, the last checkpoint, 1-bit counts 2^15 / 2^16 / 2^20 and one below, the 1-bits of words '
         '2^15+-1 and 2^16+-1, random; judged by the linear-time lin_Select / lin_IndexSelect32 proved equal to the '
         'model (C02_rle_run_is_model_*); key = (family, words). Unexported helpers (harness/c02u.go): select32single '
         '(and the relational select32single/Select32 on one case in four, all in the thorough tier) is run beside '
         'EVERY Select32 case of the generators above with the same key prefixed single/, incl. the run-length encoded '
         'very large bitmaps; its sentinels (i = -1, minint, random negative; n, n+1, n|31 inside the last 32-block so '
         'that the word loop runs off the end, with 0..3 empty tail words; the next block boundary and beyond, 64*len, '
         'maxint) on every bitmap of at most 70 words whose index is built, key = (which sentinel, tail, words). '
         'select8Lookup: all 256 rows read out of the package. indexSelectU64 / selectU64Indexed: ALL 256 byte values '
         'at every byte position of an otherwise empty word x all k (exhaustive), of an otherwise all-ones word and of '
         'a random word (a third / a quarter of them in the quick tier, k inside the byte and one either side; all in '
         'the thorough tier); all 1- and 2-bit words x all k; the empty word, all-ones, all 64 words with 63 bits, '
         'words with 62 bits; all 256 words whose bytes are each 00 or ff with k at every byte edge; random words in 9 '
         'density classes (1/16 .. 15/16, pattern mix, byte-structured) x all k. An index case is non-trivial for a '
         'non-zero word, key = (popcount class, non-empty bytes); a selectU64Indexed case is non-trivial for k >= 1, '
         'key = (popcount class, byte holding the answer, rank inside that byte, number of 1-bits below that byte). '
         'Sessions on one held buffer (bitmap.Select32R64/session): 2..9 sparse words; up to 4 rounds of [query i '
         'whose next 1-bit lies in a later word; move that 1-bit to another word in place or overwrite the whole '
         'buffer; re-index; query exactly i+1]; key = (words, moves, whole-buffer rewrites). One 2^17+3-word '
         'run-length encoded bitmap in both tiers with queries in its last three words (rank index built in parallel '
         'chunks)'}
