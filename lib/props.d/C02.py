CFG = {'assumptions': ["64*len(words) < 2^31 (Go's int32 positions cannot overflow; larger bitmaps are outside every "
                 'statement)',
                 'every word is in [0,2^64) (words_ok)',
                 'select queries: 0 <= i < number of 1-bits; the select index is the one IndexSelect32 / '
                 'IndexSelect32R64 built for the same words'],
 'files': ['bitmap/select.go', 'bitmap/rank.go', 'bitmap/mask.go'],
 'go': {'bitmap.IndexSelect32': 'bitmap.IndexSelect32',
        'bitmap.IndexSelect32R64': 'bitmap.IndexSelect32R64',
        'bitmap.Select32': 'bitmap.IndexSelect32 + bitmap.Select32',
        'bitmap.Select32R64': 'bitmap.IndexSelect32R64 + bitmap.Select32R64',
        'bitmap.Select32/held': 'bitmap.IndexSelect32(ws), index builds on a decoy, bitmap.Select32 twice',
        'bitmap.Select32R64/held': 'bitmap.IndexSelect32R64(ws), index builds on a decoy, bitmap.Select32R64 twice'},
 'rule': 'cases = corpus + held-index cases over ascending word counts 1..70 (index built, decoy indexes built, then the '
         'first index queried twice; inputs compared before/after) + exhaustive sweeps (every non-zero byte at byte positions of a one-word bitmap and as upper '
         'byte of a 16-bit quarter x all i = select8Lookup through both table-index expressions; all 1- and 2-bit '
         'words x all i; all subsets of 4 positions around every multiple of 8 in 3 words; all-ones bitmaps) + random '
         'bitmaps of 1..40 words in 6 density classes with runs of empty words and empty tails, i forced to 0, n-1, '
         '32k-1, 32k, 32k+1, 32k+31 plus random. A select case is non-trivial when i >= 1; shape key = (words '
         'skipped from the checkpoint, checkpoint at word start or inside, byte of the word holding the answer, '
         'rank inside that byte, next 1 in same/next/later word or none, i mod 32 class). An index case is '
         'non-trivial when the bitmap has more than 32 1-bits. distinct = distinct (op,args)'}
