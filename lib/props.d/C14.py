CFG = {'assumptions': ["64*len(words) < 2^31 and len(values)*w < 2^31 (Go's int32/int positions cannot overflow; larger inputs are outside every statement)",
                 'every word / value is in [0,2^64) (words_ok)',
                 'Join/Getw: w in {1,2,4,8,16,32,64}; Slice: 0 <= from <= to <= 64*len(words)'],
 'files': ['bitmap/join.go', 'bitmap/get.go', 'bitmap/slice.go', 'bitmap/mask.go'],
 'go': {'bitmap.Join': 'bitmap.Join (+ input compared before/after)',
        'bitmap.Getw': 'bitmap.Getw(bitmap.Join(values, w), i, w) for every i',
        'bitmap.Slice': 'bitmap.Slice (+ input compared before/after)'},
 'rule': 'cases = Join/Getw: all 7 widths x (every list of 0..3 values over {0,1,2^w-1,2^w,2^64-1}; list lengths '
         'around 1, 2, 3.5 and 5 words of packed bits with 6 value patterns incl. bits above w; random; long lists of '
         '31..33, 64, 100 packed words; huge lists just beyond 2^15 and 2^16 packed bits) - the '
         'observation is the returned words, their len, every Getw result and an input-unchanged flag; Slice: all '
         '(from,to) over bitmaps of 0..3 words + random bitmaps of 1..20 words with ends on/next to word boundaries '
         'and lengths 64k-1/64k/64k+1 + sparse bitmaps of 30..100 words + bitmaps of 513/1025/2049 words with ranges '
         'around bit 2^14..2^17 - the observation is the returned words (len included) and the '
         'input-unchanged flag. Non-trivial: Join with >= 2 values, a stored 1-bit and (w<64) a bit above w that '
         'must be cut off; Slice with a non-empty range containing a 1-bit. shape key = (w, packed length class) / '
         '(offset classes of from and to, span, length class, 1-bit just before / just after the range, result '
         'words); distinct = distinct (op,args)'}
