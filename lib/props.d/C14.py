CFG = {'assumptions': ["64*len(words) < 2^31 and len(values)*w < 2^31 (Go's int32/int positions cannot overflow; larger inputs are outside every statement)",
                 'every word / value is in [0,2^64) (words_ok)',
                 'Join/Getw: w in {1,2,4,8,16,32,64}; Slice: 0 <= from <= to <= 64*len(words)',
                 'Getw/any: the specification speaks only while i*w fits int32 (beyond, Go wraps the product; there the '
                 'run compares implementation and model only); Slice/Rank64|NextOne|PrevOne: 0 <= j < b-a; '
                 'Join/Slice: 0 <= k <= m <= len(values); Fmt: values inside the range of their integer type'],
 'files': ['bitmap/join.go', 'bitmap/get.go', 'bitmap/slice.go', 'bitmap/mask.go', 'bitmap/fmt.go', 'bitmap/toarray.go'],
 'go': {'bitmap.Masks': 'bitmap.Mask[j], RMask[j], MaskUpto[j], RMaskUpto[j], Bit[j], RBit[j] (each read on its own; P = index out of range)',
        'bitmap.Getw/any': 'bitmap.Getw on an arbitrary bitmap and int32 index (P = panic)',
        'bitmap.Slice/ToArray': 'bitmap.ToArray(bitmap.Slice(words, from, to))',
        'bitmap.Fmt': 'bitmap.Fmt on a scalar or slice of int8..uint64 (or of string: panics)',
        'bitmap.Slice/Slice': 'bitmap.Slice(bitmap.Slice(words, a, b), c, d)',
        'bitmap.Slice/Rank64': 'bitmap.Rank64(r, bitmap.IndexRank64(r, trailing), j) with r = bitmap.Slice(words, a, b)',
        'bitmap.Slice/NextOne': 'bitmap.NextOne(bitmap.Slice(words, a, b), j, b-a)',
        'bitmap.Slice/PrevOne': 'bitmap.PrevOne(bitmap.Slice(words, a, b), j, b-a)',
        'bitmap.Join/Slice': 'bitmap.Slice(bitmap.Join(values, w), k*w, m*w)',
        'bitmap.JoinSlice/scribble': 'a session of bitmap.Join / bitmap.Slice calls; the caller overwrites every returned bitmap with junk after rendering it',
        'bitmap.Join/split': 'bitmap.Join([Getw(bm,i,w) for i < 64*len(bm)/w], w)',
'bitmap.Join': 'bitmap.Join (+ input compared before/after)',
        'bitmap.Getw': 'bitmap.Getw(bitmap.Join(values, w), i, w) for every i',
        'bitmap.Slice': 'bitmap.Slice (+ input compared before/after; 1 case in 8 repeated by 3 callers at once next to 3 callers slicing other ranges of the same bitmap)'},
 'rule': 'cases = Join/Getw: all 7 widths x (every list of 0..3 values over {0,1,2^w-1,2^w,2^64-1}; list lengths '
         'around 1, 2, 3.5 and 5 words of packed bits with 6 value patterns incl. bits above w; random; long lists of '
         '31..33, 64, 100 packed words; huge lists just beyond 2^15 and 2^16 packed bits) - the '
         'observation is the returned words, their len, every Getw result and an input-unchanged flag; Slice: all '
         '(from,to) over bitmaps of 0..3 words + random bitmaps of 1..20 words with ends on/next to word boundaries '
         'and lengths 64k-1/64k/64k+1 + sparse bitmaps of 30..100 words + bitmaps of 513/1025/2049 words with ranges '
         'around bit 2^14..2^17 - the observation is the returned words (len included) and the '
         'input-unchanged flag. Widening: mask tables at every index -3..67; Getw on arbitrary bitmaps of 0..40 words at every '
         'element of small bitmaps, just outside, negative, and with i*w wrapping int32 (there only model = '
         'implementation is compared, the specification is silent); split+Join over bitmaps of 0..12 words x all 7 '
         'widths; ToArray(Slice) over all (from,to) of a 2-word bitmap + random ranges over 1..20 words; Slice(Slice) over a grid of (a,b,c,d) on a 2-word bitmap + '
         'random over 1..12 words; Rank64/NextOne/PrevOne of a slice over sparse and dense bitmaps of 1..8 '
         'words; Slice(Join) at element boundaries: all (k,m) of short lists x 7 widths + random; Fmt: 8 integer types x scalar/slice x boundary values, all '
         '256 int8/uint8 values, every single bit and complement of the wider types, random values and slices of '
         '0..5, the non-integer panic. Non-trivial: Join with >= 2 values, a stored 1-bit and (w<64) a bit above w that '
         'must be cut off; Slice with a non-empty range containing a 1-bit. shape key = (w, packed length class) / '
         '(offset classes of from and to, span, length class, 1-bit just before / just after the range, result '
         'words); distinct = distinct (op,args)'}
