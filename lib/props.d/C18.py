CFG = {'assumptions': ['the section is in the property domain: 0 <= off, 0 <= n, off + n <= 2^63-1 (AtToWriter(w, off): 0 <= off)',
                 'the underlying io.WriterAt is an oracle: a response (k, e) makes WriteAt(p, off) return (min(k, len(p)), e), '
                 '0 <= k; every theorem quantifies over all response scripts (short counts with or without an error included)',
                 'Seek/WriteAt offsets are int64 values; whence is any int'],
 'files': ['iohelper/iohelper.go'],
 'go': {'iohelper.SectionWriter': 'iohelper.NewSectionWriter + (*SectionWriter).Write/WriteAt/Seek/Size (one whole call sequence per case)',
        'iohelper.AtToWriter': 'iohelper.AtToWriter + Write/WriteAt/Seek/Size through the interfaces of the returned value',
        'iohelper.AtToReader': 'iohelper.AtToReader + Read (io.SectionReader of the Go library underneath) over the in-memory file of the harness',
        'iohelper.File': 'iohelper.NewSectionWriter / AtToWriter call sequence over the in-memory file of the harness, the file content afterwards, '
                         'then iohelper.AtToReader + Read over the same file',
        'iohelper.TwoSections': 'two iohelper.NewSectionWriter over ONE in-memory file, their Write/WriteAt/Seek/Size calls interleaved, '
                                'and the file content afterwards',
        'iohelper.Nested': 'sections of sections: NewSectionWriter / AtToWriter over a *SectionWriter over ... the in-memory file, calls '
                           'addressed to any level, every (offset, bytes) the file receives and the file content afterwards',
        'pbcmpl.File': 'pbcmpl.Marshal(iohelper.AtToWriter(memfile, off), msg) for several (off, msg) in one in-memory file, the file content, '
                       'then pbcmpl.Unmarshal(iohelper.AtToReader(memfile, off), blank) for every off'},
 'rule': 'one case = one whole call sequence on a fresh section over a scripted mock io.WriterAt; every return value and '
         'every (absolute offset, bytes) the mock receives is observed per call. Cases = all sequences of 1..2 calls from '
         'a 36-call alphabet followed by Write(2) on sections n in 0..3 with the first underlying call answered by '
         'full / short+error / zero+error / short+nil + random sequences of 1..60 calls (sections incl. n = 0, n = 1, '
         'reaching 2^63-1, AtToWriter; buffers empty / ending exactly at the limit / one short / crossing it; WriteAt at '
         '-1, n-1, n, n+1, +-2^63; Seek with every whence incl. invalid, targets around 0, the start, the end and '
         '2^63-1; fault streams none / occasional / heavy) + sequences of 3..6 calls with large buffers (49..5000 bytes, around every power of two up to 4096, occasionally 65535..65537) on sections ending one before / at / one after the buffer end. A sequence is non-trivial when at least two calls reached '
         'the underlying writer and a Write was issued after the cursor had moved; shape key = set of events '
         '(refused-at-end, truncated, exact-fit, empty, WriteAt refused/truncated/exact, whence error, negative target, '
         'overflow target, successful seek per whence, cursor beyond end, short count, underlying error) x (n = 0?)',
 'rule_widening': 'widening ops: iohelper.AtToReader = read sequences (1..12 Reads, lengths 0 / to the file end -1/0/+1 / 64..4096) '
                  'through AtToReader over an in-memory file of 0..1200 bytes at offsets inside / at / beyond the file end and at 2^63-1-{0..5}, the file '
                  'delivering normally / short / with errors; non-trivial when data is delivered by a Read issued after the position moved. '
                  'iohelper.File = a section-writer call sequence (1..14 calls, positions below ~10^4) over an in-memory file with 0..400 initial bytes, '
                  'the file content afterwards and a read-back through AtToReader from the section start / nearby / 0 / the file end; non-trivial when '
                  'at least one byte was stored and one read back; key = section class x store events (gap zero-filled / extends / inside) x writer '
                  'events x reader events. '
                  'iohelper.TwoSections = two section writers over one in-memory file with interleaved calls (2..24 calls, sections adjacent / '
                  'disjoint / overlapping / identical / second before first, n incl. 0 and 2^63-1-off, shared fault script); non-trivial when both '
                  'writers stored bytes and the calls switched writer at least twice; key = section configuration x store events x writer events. '
                  'pbcmpl.File (cross-package) = 1..6 pbcmpl frames (body codecs raw / BytesValue / picky raw, payload 0..2100 bytes, with and '
                  'without a version) marshalled through AtToWriter at offsets back to back / with gaps / overlapping / identical / anywhere, '
                  'in ascending or shuffled order, over an initial file of 0..300 bytes, then unmarshalled through AtToReader at every offset '
                  '(damaged frames included: invalid header size / body size, truncated body, decode error); BytesValue frames never overlap '
                  '(the modelled decoder covers intact bodies only); non-trivial when at least two frames share the file. '
                  'iohelper.Nested = 2 (occasionally 3) stacked section writers, the outer window inside / flush with / straddling / beyond '
                  'the inner one, outer n = 0, inner n = 0, AtToWriter levels; 2..14 calls mostly on the outermost writer with direct calls '
                  'on inner writers interleaved, fault scripts; exhaustive: inner (1, 0..4) x outer (0..5, {AtToWriter, 0..4}) x 5 call '
                  'patterns; non-trivial when a Write/WriteAt was issued on an outer level',
 'shrink_s': 30}
