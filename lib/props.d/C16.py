CFG = {'assumptions': ['8*len(key) < 2^31 and len(keys) < 2^31 (Go int/int32 lengths and bit positions cannot overflow; larger inputs are '
                 'outside every statement)',
                 'every byte is in [0,256) (keys_ok)',
                 'CountPrefixes: keys strictly ascending in Go string order, 0 <= s, s+2 <= e <= len(keys), m >= 1',
                 'FirstDiffBits: keys non-empty (any order, repeats allowed)',
                 'CountPrefixes/single (widening): keys non-empty in any order, 0 <= s < len(keys), m >= 1',
                 'SigBits/queries: every query in the CountPrefixes domain; the held differences are read by reflection '
                 '(read-only) and compared with FirstDiffBits(keys); a missing field counts as unchanged'],
 'files': ['sigbits/firstdiff.go', 'sigbits/countprefixes.go', 'sigbits/sigbits_countprefixes.go', 'sigbits/sigbits.go'],
 'go': {'sigbits.FirstDiffBits': 'sigbits.FirstDiffBits',
        'sigbits.CountPrefixes': 'sigbits.New(keys).CountPrefixes',
        'sigbits.CountPrefixes/single': 'sigbits.New(keys).CountPrefixes(s, s+1, m) (a range of one key)',
        'sigbits.CountPrefixes/counter': 'sigbits.New(prefix + big-endian counter keys).CountPrefixes',
        'sigbits.CountPrefixes/counter-big': 'sigbits.New(prefix + big-endian counter keys).CountPrefixes (linear oracle)',
        'sigbits.SigBits/queries': 'sb := sigbits.New(keys); a sequence of sb.CountPrefixes queries on that one object',
        'sigbits.SigBits/session': 'sb := sigbits.New(keys); sb.CountPrefixes queries interleaved with '
                                   'sigbits.ShardByPrefix(keys, n) and sigbits.FirstDiffBits(keys) on the SAME []string'},
 'rule': 'cases = exhaustive sweeps (all ordered pairs of strings of length 0..2 over {00,01,80,ff,a}; shared prefixes of '
         '0/1/7/8/9/15/16/17/23/24/25 bytes x all pairs of 9 short tails; a flip of every bit of a 20-byte key; key vs key + 0..10 '
         'NUL bytes; CountPrefixes on every 2..4-key subset of a 7-string universe x all sub-ranges x m in {1,2,8,9,40}; '
         'single-key ranges on every 1..3-key subset; 5-key sets sharing 4100 (thorough: also 4096 and 20001) bytes; '
         'every ordered pair of queries (incl. the same twice) on ONE SigBits object over every 2..3-key subset of a '
         '6-string universe; key sets of 300..4096 (thorough: up to 140000) keys = prefix + big-endian counter, so that '
         'more than 2^8 (2^16) adjacent pairs share one first-difference bit) + random query sequences of 2..7 queries '
         'on one object (repeated, same range with another m, overlapping, whole range) + cross-function sessions '
         '(query / ShardByPrefix on the same slice / FirstDiffBits / query; exhaustive over 2..4-key subsets of a 6-string '
         'universe, random 3..8 steps) + long sessions (a large-m query, the same cheap query 255 .. 131072 times, large-m '
         'neighbours of the first query) + counter key sets of 8192, 9001 and 10000 keys (the slowest cases of a quick run, '
         're-run by the harness under GOMAXPROCS 3, 33, 97) + '
         'structured random strictly ascending key sets (flat / extension chain / differing in byte 0 / trie-shaped, over '
         '{a,b}, {00,01,a}, {00,80,ff}, full bytes, shared prefixes crossing the 8-byte chunks, empty key, key + NULs), '
         'FirstDiffBits also on shuffled copies with a repeated key; a FirstDiffBits case is non-trivial when it has >= 2 keys '
         '(key = set of pair kinds: differing / prefix with the difference clipped / prefix hidden by zero padding / prefix '
         'ending on a chunk edge / equal, with the chunk index); a CountPrefixes case when m >= 2 and e-s >= 3 '
         '(key = range size, s>0, e<len, m bucket, pair kinds in range); a single-key-range case when m >= 2 and the '
         'set has >= 2 keys (key = s>0, e<len, m bucket); a query sequence when it has >= 2 queries (key = number of '
         'queries, repeated range, overlapping ranges, key-set size); every counter-key case (key = size, s>0, m)'}
