CFG = {'assumptions': ["every position, size and n stays below 2^31 - 64 (Go's int32 cannot overflow; larger values are outside every statement). The exact bounds are the hypotheses of C12_int32_Of / _OfMany / _ToArray / _Builder, which prove that the int32-wrapped model (Model/BitmapOf32.v) equals the unbounded one there",
                 'every word is in [0,2^64) (words_ok)',
                 'position lists are ascending (duplicates allowed) and non-negative; sizes and Set positions are non-negative',
                 'OfMany is compared functionally (set of shifted positions, word count) on its whole non-panic domain, positions at or past a segment size in any segment included (ofmany_dom2; the panic condition is C12_OfMany_total); where the real OfMany panics only the relation OfMany = Of(shifted, sum) is observed; direct Of on unsorted lists is not compared',
                 "Builder: 'enough words for every bit' is read as: every set position is below 64*len(Words) (implied by ones(flat Words) = the positions set so far); the exact word count is compared with the model only (correspondence), not required by the checker"],
 'files': ['bitmap/of.go', 'bitmap/ofmany.go', 'bitmap/builder.go', 'bitmap/toarray.go', 'bitmap/get.go', 'bitmap/mask.go', 'bitmap/fmt.go'],
 'go': {'bitmap.Of': 'bitmap.Of',
        'bitmap.ToArray': 'bitmap.ToArray',
        'bitmap.Of/ToArray': 'bitmap.ToArray(bitmap.Of(ps, n...))',
        'bitmap.ToArray/Of': 'bitmap.Of(bitmap.ToArray(words))',
        'bitmap.Get': 'bitmap.Get, bitmap.Get1',
        'bitmap.SafeGet': 'bitmap.SafeGet, bitmap.SafeGet1',
        'bitmap.OfMany': 'bitmap.OfMany',
        'bitmap.Mask': 'bitmap.Mask[i], bitmap.RMask[i]',
        'bitmap.Bit': 'bitmap.MaskUpto[i], bitmap.RMaskUpto[i], bitmap.Bit[i], bitmap.RBit[i]',
        'bitmap.Fmt/c12': 'bitmap.Fmt on an integer / a slice of integers of every kind (and on non-integer types)',
        'bitmap.Of/query': 'bitmap.Of, then IndexRank64+Rank64, IndexRank128+Rank128, NextOne, PrevOne on the result',
        'bitmap.Builder/query': 'a Builder history, then the same four queries on Builder.Words',
        'bitmap.OfMany/asOf': 'bitmap.OfMany(subs, sizes) compared with bitmap.Of(shifted concatenation, sum of sizes): only whether they agree',
        'bitmap.Builder/asOfMany': 'bitmap.NewBuilder + one Builder.Extend per segment compared with bitmap.OfMany: whether Words equals it word for word and Offset is the sum',
        'bitmap.Builder/mem': '&bitmap.Builder{Words: buf[:k], Offset: off} over a junk-filled caller buffer; Extend / Set / roll-back (Words = Words[:k]; Offset = 64k) history; Words and Offset after every op',
        'bitmap.Of/session': 'Of(nil, n); a Builder working in place on the result; Of([], n) and OfMany of bit-less segments again; junk written into the results; Of([], n) again',
        'bitmap.OfMany/shared': 'bitmap.OfMany twice on sub-lists that are windows of one flat buffer; the buffer must be unchanged',
        'bitmap.Builder': 'bitmap.NewBuilder + Builder.Extend / Builder.Set history, Words and Offset after every call'},
 'rule': 'cases = Of: every subset of {0,1,62,63,64,65,127,128} x 18 choices of n (absent, negative down to -2^31, smaller, last+1, '
         'larger, word-aligned) + random ascending lists in 5 styles (dense, small gaps, word boundaries, gaps > 3 '
         'words, duplicates); ToArray / Of(ToArray) on 0..15-word bitmaps with trailing zero words; Get/Get1 and '
         'SafeGet/SafeGet1 inside, SafeGet* outside (negative, just past the end, far, int32 extremes); OfMany on 0..6 '
         'segments (size 0, empty segments, position size-1, positions >= size in the last segment); Builder histories '
         'of 1..12 Extend/Set calls from NewBuilder(0|1|63|64|100|1000) (size 0, empty lists, positions >= size, Set '
         'below/at/above Offset, even and negative values), Words and Offset compared after every call; widening: every entry of Mask/RMask/MaskUpto/RMaskUpto/Bit/RBit '
         'and the first indices outside (panic); Fmt on every uint8 and int8 value, on 1/2/4/8-byte signed and unsigned '
         'integers single and in slices of 0..5 (boundaries, single bits, complements, random), on Of(...) bitmaps, on '
         'non-integer types; Rank64/Rank128/NextOne/PrevOne on Of(ps,n) and on Builder.Words (i at / next to a set position, on word '
         'edges, random; e = end, = i, i+1..i+65, random); OfMany against Of(shifted concatenation, sum of sizes) with positions >= size in any '
         'segment (non-ascending concatenations, panics): only the agreement of the two calls is observed, and where OfMany does not panic also its set of bits and its agreement with a Builder fed the same segments (overhangs of 64..200 past sizes 1..40 followed by small positions, so that words are revisited); Builder literals over a junk-filled scratch buffer with roll-backs to a word-aligned checkpoint between calls (random + every history of 1..3 ops over a 7-op alphabet), Of/Builder/Of sessions on the shared result of Of(nil, n), OfMany on sub-lists carved from one buffer (in order, out of order, overlapping, the same list twice) run twice; every bitmap returned by Of / OfMany is overwritten with junk by the caller after it has been rendered; exhaustive: Get/SafeGet at every i in [-130, 64*len+130] on 6 small bitmaps, '
         'every Builder history of 1..2 (thorough 3) calls over a 10-call alphabet, every OfMany list of 0..3 segments over a 12-segment alphabet (5 with overhang). Non-trivial: '
         'non-empty position list / bitmap with a 1-bit / probed word neither 0 nor all-ones / >1 segment with a '
         'position / >1 call; distinct = distinct (op,args)'}
