CFG = {
 'files': ['bmtree/allpaths.go', 'bmtree/decode.go'],
 'go': {'bmtree.AllPaths': 'bmtree.AllPaths',
        'bmtree.Decode': 'bmtree.Decode',
        'bmtree.AllPaths/held': 'bmtree.AllPaths twice, both results read after the second call',
        'bmtree.Decode/held': 'bmtree.Decode twice, both results read after the second call',
        'bmtree.Decode/roundtrip': 'bmtree.Decode(T, bitmap.Of(bmtree.PathToIndex of each node of a sub-list of the stored nodes))'},
 'rule': 'held variants first (two calls, then both results are read; heights 0..9 ascending). AllPaths: every level mask T < 2^5 (thorough 2^6) x every (from,to) drawn from {every stored path word, +1, -1, 0, 2^64-1} '
         '(quick: T in [2^5,2^6) with every candidate as from / as to / as both plus 6 random partners); random heights 0..30 '
         '(30 forced in 1/8) with full / leaf-only / sparse / dense / full-minus-one / leaf-plus-one / random masks and windows of at '
         'most 2^12 search values placed at 0, at the end, around search values with many trailing zeros, at 2^k and 2^k-1; from/to = '
         'a real word of the search value, +1, -1, bare search value, junk mask; from > to, to beyond the tree, from beyond the tree; '
         'the whole range of heights <= 11. Decode: every T <= 10 (thorough 14) x every T-bit bitmap (one word, all bits >= T set, '
         '3 words, nil/empty slice); random heights <= 10 (thorough 12) with ceil(T/64)-1, +0, +1, +2 words, all-ones / all-zero / '
         'pattern words, bits forced at T-1, T, T+1 and at the last bit; a few heights 13/14 with sparse bitmaps (bits in the last words). Decode/roundtrip: every T <= 10 (14) x every subset of the '
         'stored nodes; random subsets (all, 1/8, 1/2, first+last, leaves only). '
         'Non-trivial: AllPaths returns something and the window clips (from > 0 or a stored word >= to); Decode / roundtrip selects '
         'some but not all stored nodes; distinct = distinct shape key (op, mask kind, height bucket, class of from and of to '
         '(0 / max / word / word+1 / word-1 / off / beyond), bitmap length short/exact/long, bits beyond T, size bucket)',
 'assumptions': ['1 <= bitmapSize < 2^31 (int32, height <= 30)', '0 <= from, to < 2^64',
                 'the correspondence only runs windows of <= 2^13 search values and Decode on heights <= 14 (the output is 2^h words otherwise); both sides refuse anything larger',
                 'Decode/roundtrip: S is a sub-list of the stored nodes in pre-order'],
 'trusted': ['checker for AllPaths on heights > 10: the pruned enumeration win_nodes (Spec/AllPathsSpec.v); '
             'on heights <= 10 and for Decode the plain filter of the enumerated pre-order'],
 'explanation': 'Theorems over the model (AllPaths with its outer loop over search values, trailing-zero level walk, from-skip and '
                'to-early-exit; Decode with the len(bm) guard): AllPaths = the path words of the stored nodes in pre-order filtered '
                'by from <= w < to; Decode = the stored words whose pre-order position is a 1-bit of the bitmap; round trip.',
}
