CFG = {
 'files': ['bmtree/allpaths.go', 'bmtree/decode.go'],
 'go': {'bmtree.AllPaths': 'bmtree.AllPaths',
        'bmtree.Decode': 'bmtree.Decode (in 2 cases of 3 after read-only Decode calls on the same slice with the full masks of heights 0..6 and with the same mask)',
        'bmtree.AllPaths/held': 'bmtree.AllPaths twice, both results read after the second call',
        'bmtree.Decode/held': 'bmtree.Decode twice, both results read after the second call',
        'bmtree.AllPaths/split': 'bmtree.AllPaths on [a,b), [b,c) and [a,c)',
        'bmtree.AllPaths/index': 'bmtree.PathToIndex of every word of bmtree.AllPaths(T, from, to)',
        'bmtree.Decode/reencode': 'bmtree.Decode, bmtree.PathToIndex of the result, bitmap.Of of the indices',
        'bmtree.Decode/debug': 'bmtree.Decode (-tags debug build, PathToIndex contracts active)',
        'bmtree.AllPaths/index/debug': 'bmtree.PathToIndex of every word of bmtree.AllPaths (-tags debug build)',
        'bmtree.Decode/reencode/debug': 'Decode, PathToIndex, bitmap.Of (-tags debug build)',
        'bmtree.Decode/roundtrip/debug': 'Decode(T, Of(PathToIndex ...)) (-tags debug build)',
        'bmtree.Session': 'bmtree.AllPaths / bmtree.Decode calls executed in order in one process',
        'bmtree.AllPaths/subtree': 'bmtree.AllPaths(T, NewPath(q), NewPath(right-most leaf below q) + 1)',
        'bmtree.PathsOf/decode': 'bmtree.PathsOf(keys, dedup) -> PathToIndex -> bitmap.Of -> bmtree.Decode',
        'bmtree.PathsOf/decode/debug': 'the same in the -tags debug build',
        'bmtree.Decode/roundtrip': 'bmtree.Decode(T, bitmap.Of(bmtree.PathToIndex of each node of a sub-list of the stored nodes))'},
 # two harness builds; the operations that reach PathToIndex (Decode, Decode/roundtrip, Decode/reencode, AllPaths/index) also run in
 # the -tags debug build (github.com/openacid/must active): a contract panic is observed as P and rejected by the specification
 'runs': [{'tags': 'verif'}, {'tags': 'verif debug'}],
 'rule': 'first: for every T < 2^7 (+40 taller) a session of the first calls of the process on T (AllPaths(T,0,last leaf / +-1 / 0), whole range, Decode); sessions early in the run (calls on S and S<<k, every partial S < 2^7, k 1..4, one process); one Decode call on height 16 (sparse bitmap; the slowest case, re-run by ./check under GOMAXPROCS 3/33/97); held variants first (two calls, then both results are read; heights 0..9 ascending). AllPaths: every level mask T < 2^4 (thorough 2^6) x every (from,to) drawn from {every stored path word, +1, -1, 0, 2^64-1} '
         '(quick: T in [2^4,2^6) with every candidate as from / as to / as both plus 4 random partners); random heights 0..30 '
         '(30 forced in 1/8) with full / leaf-only / sparse / dense / full-minus-one / leaf-plus-one / random masks and windows of at '
         'most 2^12 search values placed at 0, at the end, around search values with many trailing zeros, at 2^k and 2^k-1; from/to = '
         'a real word of the search value, +1, -1, bare search value, junk mask; from > to, to beyond the tree, from beyond the tree; '
         'the whole range of heights <= 11. Decode: every T <= 10 (thorough 14) x every T-bit bitmap (one word, all bits >= T set, '
         '3 words, nil/empty slice); random heights <= 10 (thorough 12) with ceil(T/64)-1, +0, +1, +2 words, all-ones / all-zero / '
         'pattern words, bits forced at T-1, T, T+1 and at the last bit; a few heights 13/14 with sparse bitmaps (bits in the last words). Decode/roundtrip: every T <= 10 (14) x every subset of the '
         'stored nodes; random subsets (all, 1/8, 1/2, first+last, leaves only). '
         'Widening ops on a share of the same inputs: AllPaths/split (window cut at its middle or at / next to a word inside it), AllPaths/index (heights <= 11), Decode/reencode; PathsOf/decode: 0..20 sorted keys sharing their first from in {0,3,8,13,16,21} bits, heights 1..10 (11..14 in 1/20), a key reaches the leaf level (with a random tail, repeated leaf values) or ends exactly on a stored level; non-trivial = at least two distinct paths. AllPaths/subtree: every T < 2^5 x every node, random heights 0..30 with nodes 0..12 levels above the leaves (non-trivial: an inner node). Non-trivial: AllPaths returns something and the window clips (from > 0 or a stored word >= to); Decode / roundtrip selects '
         'some but not all stored nodes; distinct = distinct shape key (op, mask kind, height bucket, class of from and of to '
         '(0 / max / word / word+1 / word-1 / off / beyond), bitmap length short/exact/long, bits beyond T, size bucket)',
 'assumptions': ['1 <= bitmapSize < 2^31 (int32, height <= 30)', '0 <= from, to < 2^64',
                 'the correspondence only runs windows of <= 2^13 search values and Decode on heights <= 17 (the output is 2^h words otherwise); both sides refuse anything larger',
                 'Decode/roundtrip: S is a sub-list of the stored nodes in pre-order',
                 'PathsOf/decode: keys in Go string order sharing their first from bits, every path length a stored level of T'],
 'trusted': ['on heights > 10 the Decode side (model and checker) is evaluated by the linear-time fast_decode, PROVED equal to the model of both builds and to the specification (C04_decode_fast, C04_checker_decode)', 'checker for AllPaths on heights > 10 is the pruned enumeration win_nodes (Spec/AllPathsSpec.v); it is PROVED equal to the '
             'plain filter of the enumerated pre-order (Properties/C04.v: C04_checker), so nothing is trusted here beyond the common base',
             'the AllPaths/index and Decode/reencode checkers evaluate the right-hand sides of C04_index_run / C04_decode_reencode'],
 'explanation': 'Theorems over the model (AllPaths with its outer loop over search values, trailing-zero level walk, from-skip and '
                'to-early-exit; Decode with the len(bm) guard): AllPaths = the path words of the stored nodes in pre-order filtered '
                'by from <= w < to (exact membership, strictly ascending); Decode = the stored words whose PathToIndex bit / pre-order position is a '
                '1-bit of the bitmap, bits >= T ignored; round trip for every sub-list of the stored nodes (uses C03 and C12); widening: adjacent '
                'windows concatenate, indices of a window are consecutive, decode-then-re-encode keeps exactly the bits below T.',
}
