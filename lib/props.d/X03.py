CFG = {
 'assumptions': ['value trees are built from: the nil interface, bool, the ten integer kinds, float32/float64 (bit patterns incl. -0, infinities, a quiet NaN), strings, slices (nil / empty / '
                 'non-empty, unnamed and three named slice types), arrays, pointers, one map / struct / chan / func value each; '
                 'complex numbers, user structs as slice elements and interface types with methods are not generated',
                 'reflect (ValueOf, Kind, Len, Index, Interface) is Go\'s library: modelled definitionally, not verified'],
 'files': ['typehelper/toslice.go'],
 'go': {'typehelper.ToSlice/values': 'typehelper.ToSlice on a value tree (the C20 widening has its own operation typehelper.ToSlice on size.Of value trees)',
        'typehelper.ToSlice/fresh': 'typehelper.ToSlice called twice; the first result is overwritten, the second result and the argument are observed'},
 'rule': 'EXTRA check (not in properties.jsonl). cases = one value of every non-slice kind (must panic) + every slice of length 0..3 '
         'over small element alphabets of 8 element types (nil, empty, plain and named slice types) + structured random '
         'value trees of nesting depth 1..4 (7 in 8 are slices at top level; nil interface elements 1 in 4; nil slices 1 in 6; '
         'lengths 0, 1, 2..8, 9..40) + slices of 64..2000 (thorough 20000) elements; every slice is a window into a longer backing array (len < cap). '
         'Every argument runs through both operations. A case is non-trivial when the argument is a slice with at least one element '
         'or a non-slice (panic); shape key = (element type, nil/named flags, length class, nil-interface elements none/some/all, '
         'number of distinct element kinds, nesting) or the kind of a non-slice; distinct = distinct (op,args)',
 'explanation': 'typehelper is covered by no record of properties.jsonl; the statement checked is docs/extra-packages.md X03',
 'trusted': ['harness/x03.go builds Go values with reflect from the case text and renders []interface{} results back (dynamic type and contents of every element)'],
}
