CFG = {'assumptions': ['len(key) < 2^28 and len(keys) < 2^31 (Go int32 lengths and bit positions cannot overflow; larger inputs are '
                 'outside every statement)',
                 'every byte is in [0,256) (keys_ok)',
                 'keys non-empty and strictly ascending in Go string order, maxSize >= 1'],
 'files': ['sigbits/sharding.go', 'sigbits/firstdiff.go'],
 'go': {'sigbits.ShardByPrefix': 'sigbits.ShardByPrefix',
        'sigbits.ShardByPrefix/counter': 'sigbits.ShardByPrefix on prefix + w-byte big-endian counter keys (compact description expanded on both sides)',
        'sigbits.ShardByPrefix/reuse': 'a history on ONE []string buffer: refill in place, then sigbits.ShardByPrefix or only sigbits.New',
        'sigbits.ShardByPrefix/route': 'sigbits.ShardByPrefix, then sort.Search (last prefix <= key) over the returned prefixes for every key'},
 'rule': 'cases = exhaustive sweep (every non-empty subset of a 10-string universe x maxSize 1..len+1) + structured random '
         'strictly ascending key sets of 1..60 keys (thorough: up to 300) (flat / extension chain / differing in byte 0 / '
         'trie-shaped / deep shared prefixes, over {a,b}, {00,01,a}, {00,80,ff}, full bytes) x maxSize in {1,2,..,len+1} + deeply nested splits (a^d b, a^d c for d = 0..D, D in 30..70: nesting depth around and beyond 32 and 64, maxSize 1, 2, 3, 5) + long keys (lengths and shared prefixes of 254..300 and 8191..8193 bytes, one key of 65537 bytes; 2..4 adjacent keys sharing 65535/65536/65537/65540 bytes x maxSize 1, 2, len -- for keys longer than 9000 bytes the run evaluates spec_ShardByPrefix, proved equal to the model: C17_run_is_model; full fan-out: a prefix key plus successors using all 256 / 255 / 254 values of the next byte, sub-ranges of 1..3 keys, directly and under a 3-byte prefix x maxSize in {1,2,3,128,255,256,257,258}; maxSize in {2^30, MaxInt32-1, MaxInt32} on every universe subset of <= 3 keys and on hand-shaped sets; one key set of 262149 keys (k + 3-byte counter from 12345) with maxSize 70000 through the op /counter (thorough: also 300000 keys and maxSize 1000); 150 (thorough 3000) histories of 2..5 calls on ONE key buffer refilled in place (op /reuse)); the '
         'property is a relation: the observed (L,B) is judged by the extracted checker shard_ok, and compared with the model '
         'for correspondence; a case is non-trivial when the result has >= 2 shards and some shard has >= 2 keys '
         'every case is also run through the op sigbits.ShardByPrefix/route (the real output used as a routing table: each key must be sent to the shard that holds it); (key = key count, maxSize class, shard count, longest prefix length, single-key shard that is a prefix of its successor)'}
