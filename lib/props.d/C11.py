CFG = {
 'files': ['bitmap/fromstr32.go', 'bmtree/newpath.go'],
 'go': {'bitmap.FromStr32': 'bitmap.FromStr32 (1 case in 16 repeated by 3 callers at once next to 3 callers converting other keys)',
        'bmtree.PathOf': 'bmtree.PathOf',
        'bmtree.PathOf/str': 'bmtree.PathStr(bmtree.PathOf(...))',
        'bmtree.PathsOf': 'bmtree.PathsOf',
        'bitmap.FromStr32/split': 'bitmap.FromStr32 (two consecutive windows and their union)',
        'bmtree.PathOf/fields': 'bmtree.PathLen/PathHeight/PathBits/PathMask(bmtree.PathOf(...))',
        'bmtree.PathsOf/sorted': 'bmtree.PathsOf(sorted keys, dedup=true)',
        'bmtree.PathsOf/runs': 'bmtree.PathsOf (long key list given as alphabet + runs, result run-length encoded)',
        'bmtree.PathsOf/runs/held': 'bmtree.PathsOf (two long lists, both results read after the second call)',
        'bmtree.PathsOf/append': 'bmtree.PathsOf (dedup call, second call, caller appends to the first result, both read)',
        'bitmap.FromStr32/big': 'bitmap.FromStr32 on a 32..40 MB string (pattern^n + tail)',
        'bmtree.PathsOf/held': 'bmtree.PathsOf (two calls, both results read after the second)'},
 'rule': 'cases = corpus + held pairs of PathsOf results over ascending sizes (run first) + key lists of 1025..6000 keys in compact form (the biggest are re-run under GOMAXPROCS 3/33/97 by main.go) (alphabet + runs; runs of equal keys straddling / ending at / starting at the multiples of 256, 512, 1024, 2048; both dedup flags; held pairs) + every from in [MaxInt32-40, MaxInt32] x every w in 0..32 with tobit = int32(from+w) wrapping (FromStr32, PathOf, PathStr, fields, PathsOf) + sessions PathsOf(dedup) / PathsOf / append junk to the first result / read both (PathsOf/append) + FromStr32 on a 40 MB string around bit 2^28-8 and at its end (FromStr32/big: model run on the bytes under the window, justified by C11_FromStr32_local) + exhaustive (all strings of length 0..2 (thorough 0..3) over {00,80,ff,01,a5} x all from in '
         '[0, 8*len+9] and 56 x all widths 0..32; all strings of length 5 x unaligned starts x width 32 (five-byte windows; thorough: from 0..8 x widths 24..32 and all strings of length 4 x all from x all widths)) + sampled strings of length 3..6 over the same alphabet (all from <= 56, '
         'boundary widths) + random strings of length 0..40 over the shared byte alphabets with starts before / at / after '
         'the end of the string, aligned and unaligned, widths aimed at byte-span boundaries and at the end of the string '
         '+ far starts up to 2^31-40 + PathsOf key lists (sorted with shared prefixes, unsorted with non-adjacent '
         'duplicates, first path 0 / all-ones, both dedup flags) + key sets sorted in string order with a common from-bit prefix (PathsOf/sorted, judged by the relational checker: strictly increasing and the same set as the keys\' paths) + consecutive windows [from,from+w1), [from+w1,from+w1+w2) against their union (FromStr32/split: split points at byte boundaries, at the string end, at 0/1/w-1/w); a FromStr32/PathOf case is non-trivial when at least one '
         'bit is taken and the taken bits are not all equal; a PathsOf case when there are >= 2 keys and h > 0; shape key = '
         '(bytes touched inside the string 1..5, from mod 8, window cut by the string end or not, width class, window '
         'ends in the last byte or not) resp. (dedup, adjacent duplicates, non-adjacent duplicates, first path class, '
         'number of keys); distinct = distinct (op,args)',
 'assumptions': ['from >= 0, 0 <= w <= 32 (w = to-from resp. the height): the domain of the property',
                 '8*len(s) < 2^31, and from + w + 7 < 2^31 (no int32 overflow) OR 8*len(s) <= from (start at/beyond the end of the string: then tobit = int32(from+w) may wrap negative and the result is (0,0) / the empty path)',
                 'every byte is in [0,256) (bytes_ok)'],
 'trusted': ['fmt.Sprintf("%0*b") modelled definitionally as the zero-padded binary numeral (Model/BmtreePathStr.v: fmt_0b)'],
 'explanation': 'Theorems over the model: FromStr32 s from (from+w) = (k, value of the k selected bits followed by w-k zeros) with '
                'k = clamp(8|s|-from, 0, w); PathOf s from h = enc h (selected bits) and PathStr of it renders those bits; '
                'PathsOf = map PathOf, with adjacent duplicates dropped when dedup is set; the pre-fix PathsOf (sentinel ^0) is '
                'refuted on ["\\xff\\xff\\xff\\xff"],0,32,true. Correspondence: the real return values are compared with the '
                'extracted model and judged by the extracted naive specification.',
}
