CFG = {
 'files': ['bitstr/bitstr.go'],
 'runs': [{'tags': 'verif'}, {'tags': 'verif', 'race': True, 'thorough_only': True}],
 'go': {'bitstr.New': 'bitstr.New',
        'bitstr.Len': 'bitstr.Len(bitstr.New(s,from,to))',
        'bitstr.Cmp': 'bitstr.Cmp(bitstr.New(s1,f1,t1), bitstr.New(s2,f2,t2))',
        'bitstr.CmpUpto': 'bitstr.CmpUpto(a, bitstr.New(s,from,to)) + inputs unchanged',
        'bitstr.StrCmpUpto': 'bitstr.StrCmpUpto(string(a), e) and bitstr.CmpUpto(a, e), e = bitstr.New(s,from,to), + inputs unchanged',
        'bitstr.New/decode': 'bitstr.New (its output must be a well-formed encoding that decodes to the bits of the range)',
        'bitstr.CmpUpto/viaNew': 'bitstr.CmpUpto(a, e) and bitstr.Cmp(bitstr.New(a, 0, min(8*len(a), bitstr.Len(e))), e), e = bitstr.New(s,from,to)',
        'bitstr.CmpUpto/sorted': '[bitstr.CmpUpto(k, e) for k in keys], keys sorted by bytes.Compare, e = bitstr.New(s,from,to): spec values and non-decreasing'},
 'rule': 'bit strings are always given as (s, from, to) and encoded by the real New. cases = corpus + exhaustive sweeps (New and '
         'Len(New) on all strings of length <= 2 over {00,01,7f,80,ff,a,b} x all to x from (quick: boundary residues, thorough: all); '
         'Cmp on all pairs of the 57 one-byte bit strings (thorough: all 449^2 pairs of bit strings of length <= 16); CmpUpto/'
         'StrCmpUpto of plain strings of length <= 2 against those bit strings) + random pairs of strings of 0..20 bytes sharing '
         'prefixes (identical / one flipped bit / common prefix + tails / extension / last-byte low bits) with to drawn at the other '
         'side\'s length, byte boundaries and +-9 bits around it, from in the first byte, at to, aligned; plain a shorter / equal / '
         'longer than the payload, flipped around bit to + a structured sweep (payload lengths 1..12 bytes x to in {8n,8n-3,8n-7} x every position of a single differing byte x len(a) in {i+1,n-1,n,n+1}; the same pairs through Cmp; long strings of 16..40 payload bytes differing at bytes 7,8,15,16,n-2,n-1). Every CmpUpto case is also run as Cmp(New(a,0,min(8*len(a),Len(e))),e) (viaNew). Sorted key sets: the 57 plain strings of length <= 2 (sorted) against each of the 449 bit strings; random sets of 2..10 keys derived from the encoded string (cut, extended, flipped inside / at / after bit to, same payload + other tail, random), sorted with bytes.Compare (key = how many keys fall before / inside / after the matching block). A case is non-trivial when the bit strings involved are non-empty (and a is '
         'non-empty); shape key = (op, same byte length?, relation eq/prefix/first differing byte class and bit, to mod 8 = 0?, payload '
         'class <8/8/>8 bytes | CmpUpto branch empty/short/ge, cmpBytes fast path?); distinct = distinct (op,args)',
 'assumptions': ['0 <= from <= to <= 8*len(s) (the domain of New stated in the property); strings are byte lists',
                 'from, to are int32 (to <= 8*len(s) <= 2^31-1): no further size condition. The protocol operations run the int32-faithful model New32/Len32 '
                 '(Model/Bitstr32.v); since the /repo fix b2a771a (end byte computed in int64) New32 = unbounded New on the whole int32 range (C09_new32_eq), and '
                 'Len32 = Len whenever the bit length fits int32 (C09_len32_eq; always true of New outputs, C09_len32_new32). FIXED FINDING: before b2a771a, for toBit in '
                 '[2^31-7, 2^31-1] (reachable with a string of 2^28 bytes) (toBit+7)>>3 overflowed int32 and New panicked in make (C09_new32_legacy_top_refuted, '
                 'C09_new_legacy_full_int32_range_refuted against Model/LegacyBitstr32.v; replayed on the pre-fix code with a 256 MiB string: "makeslice: len out of '
                 'range"); that band is not exercised by the generator (the text protocol does not carry 256 MiB strings)',
                 'Cmp/CmpUpto/Len are exercised on encodings produced by the real New (the theorems hold for the canonical encoding of ANY bit list)'],
 'trusted': ['modelled not verified: bytes.Compare (= cmp_sign of lexicographic order on unsigned bytes, prefix first), copy, bits.OnesCount8 (popcount), bitmap.RMask (Lib/Bits.v RMask, pinned by C12)',
             'NOT PROVED, monitored only: memory safety of the unsafe string->slice re-typing in StrCmpUpto (since the fix 907cc2b the slice header is built explicitly '
             'with Cap = Len; before, a 24-byte slice header was read out of a 16-byte string header and the garbage capacity made a[:lb-2] panic intermittently); '
             'what stays unproved is that no store goes through the alias of the string; '
             'every StrCmpUpto case is compared with CmpUpto on the same bytes and the inputs are checked unchanged'],
 'explanation': 'Model/Bitstr32.v makes the int32 arithmetic of New/Len explicit (wraps); Model/Bitstr.v restates New/Cmp/cmpBytes/CmpUpto/Len with the same branches; Spec/BitstrSpec.v defines the bit string '
                'B s f t, its canonical encoding encB and uses bits_cmp (lexicographic, proper prefix first); Widened: Spec/BitstrSearchSpec.v (sorted keys, non-decreasing results), Spec/BitstrDecodeSpec.v (wf_enc = which byte strings are encodings, decB = the bit string one denotes); Proofs/Bitstr{Search,Decode,32}Proofs.v. Properties/C09.v proves '
                'New = encB o B and, for arbitrary bit lists, Len/Cmp/CmpUpto of encodings = length / bits_cmp / truncated bits_cmp.',
}
