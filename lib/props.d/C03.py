CFG = {
 'files': ['bmtree/index.go', 'bmtree/partial_tree.go', 'bmtree/pathcheck.go', 'bmtree/bitmap_check.go',
           'bmtree/bitmappath_check.go', 'bmtree/height.go', 'bmtree/pathlen.go'],
 'go': {'bmtree.PathToIndexLoose': 'bmtree.PathToIndexLoose (release build)',
        'bmtree.PathToIndexLoose/debug': 'bmtree.PathToIndexLoose (-tags debug build, contracts active)',
        'bmtree.PathToIndex': 'bmtree.PathToIndex (release build)',
        'bmtree.PathToIndex/debug': 'bmtree.PathToIndex (-tags debug build, contracts active)',
        'bmtree.PathToIndexLoose/debug-raw': 'bmtree.PathToIndexLoose on RAW (int32, uint64) arguments, -tags debug build only',
        'bmtree.PathToIndexLoose/child': 'bmtree.PathToIndexLoose on a node and on one of its children (release build)',
        'bmtree.PathToIndexLoose/child/debug': 'bmtree.PathToIndexLoose on a node and on one of its children (-tags debug build)',
        'bmtree.PathOf+PathToIndexLoose': 'bmtree.PathToIndexLoose(T, bmtree.PathOf(s, from, Height(T))) (release build)',
        'bmtree.PathOf+PathToIndexLoose/debug': 'the same, -tags debug build',
        'bmtree.PathOf+PathToIndex': 'bmtree.PathToIndex(T, bmtree.PathOf(s, from, Height(T))) (release build)',
        'bmtree.PathOf+PathToIndex/debug': 'the same, -tags debug build',
        'bmtree.PathToIndex/session': 'a sequence of bmtree.PathToIndexLoose / PathToIndex calls on one level mask, in order, in one process (release build)',
        'bmtree.PathToIndex/session/debug': 'the same, -tags debug build',
        'bmtree.PathToIndex/debug-raw': 'bmtree.PathToIndex on RAW (int32, uint64) arguments, -tags debug build only'},
 # two harness builds; every case runs on both. In the debug build github.com/openacid/must is active,
 # a contract panic is observed as P and rejected by the specification.
 'runs': [{'tags': 'verif'}, {'tags': 'verif debug'}],
 'rule': 'a case is (T, node as bit list), height = top bit of T, BOTH sides build the path word; '
         'cases = (first in the run, against hidden state) one node under runs of sibling / unrelated masks of its height and one mask with runs of sibling nodes; every T in [1,2^7) x every node; heights 0..30 x 8 structured masks x every length x 6 extreme paths; '
         'random heights 7..30 (30 forced in 1/8) with full / leaf-only / sparse / dense / full-minus-one-level / '
         'leaf-plus-one-level / random masks x nodes of every length (left-most, right-most, alternating, single-bit, random); '
         'PathToIndexLoose on every node, PathToIndex only on nodes of a stored level; each case in the release and the debug build; '
         'WIDENING (debug build only, ops */debug-raw): raw arguments — every level mask in [-2,16] x every word with 4-bit halves; '
         'a valid (T,node) pair with ONE mutation (mask bit flipped, search bit flipped, top-two bits set, mask half cleared, word of a shorter / taller tree, '
         'search bit below the mask / above the height, hole in the mask, node level removed from T, T = 0 / negative / shifted / extreme, random word); '
         'the contracts must fire exactly outside the domain (decode_word of Spec/ContractSpec.v), inside it the value is the rank; '
         'on the contract gap (empty mask half under non-zero search bits) only model = implementation is compared; '
         'WIDENING (ops */child): a node and one child in one case — every T in [2,2^6) x every inner node x both children, random heights 1..30; '
         'the child pair must follow from the parent pair by the child rule (left child: next index; right child: after T>>(|q|+1) nodes); '
         'WIDENING (ops bmtree.PathOf+PathToIndex*): from a key to its index — every T in [1,16) x every string of <= 2 bytes over {00,80,ff,a5} x every from; '
         'random heights 0..30, keys of 0..7 bytes over {00,01,7f,80,ff,a,b,a5}, from byte-aligned / unaligned / window ending at the end of the key; '
         'expected = rank of the node spelled by the key bits from..from+h (cut at the end of the key); '
         'SESSIONS (ops */session): for one mask a sequence of lookups in order in one process — every T < 2^7 x every absent-level node X: Loose(X) then PathToIndex(first stored descendant) '
         '(same index), reverse order, Loose/Loose, last-descendant/X/first-descendant; every T < 2^4 x all ordered pairs of lookups; trie descents and random walks on trees up to height 30; '
         'non-trivial = not the root and at least one stored node precedes it; distinct = distinct (op,args,build)',
 'assumptions': ['1 <= bitmapSize < 2^31 (int32, height <= 30)', '|q| <= Height(bitmapSize)',
                 'PathToIndex is only claimed (and only called) for nodes on a stored level',
                 'raw ops: any int32 level mask, any uint64 word, debug build only (the release build is not claimed outside the domain)'],
 'trusted': ['checker: enumerated pre-order (pre_rank) for h <= 12, the recursive rank (rec_rank) above; '
             'rec_rank = pre_rank is a theorem (Proofs/BmtreeIndexProofs.v)'],
 'explanation': 'Theorems over the model (PathToIndex / PathToIndexLoose with their int32/uint64 wraps, shiftMulti with both operand orders, '
                'the debug contracts): result = pre-order rank among the stored nodes, bijection onto [0,T), debug build = release build on valid input.',
}
