CFG = {'assumptions': ['version strings of at most 16 bytes that do not end in NUL (a longer one panics by design; trailing NULs are '
                 'stripped on the way back)',
                 'all bytes in [0,256); body lengths below 2^63',
                 'body codec: dec (enc m) = Some m and size m = |enc m| - proved for the two codecs the harness uses (raw legacy '
                 'message, wrappers.BytesValue with its varint); protobuf\'s wire codec for other message types is assumed, not modelled',
                 'the reader is a finite list of chunks; Reads returning (0, nil) - empty chunks - are exercised by pbcmpl.Roundtrip/empties and covered by the theorems, except an empty LAST chunk'],
 'files': ['pbcmpl/pbcmpl.go', 'pbcmpl/header.go'],
 'go': {'pbcmpl.Marshal': 'pbcmpl.Marshal + pbcmpl.Size + pbcmpl.HeaderSize',
        'pbcmpl.Roundtrip': 'pbcmpl.Marshal (n frames into one buffer) then pbcmpl.Unmarshal until io.EOF over a chunked reader',
        'pbcmpl.ReadHeader': 'pbcmpl.Marshal then pbcmpl.ReadHeader over a chunked reader',
        'pbcmpl.Roundtrip/empties': 'widening: as pbcmpl.Roundtrip with a reader that also returns (0, nil) - empty chunks - at given positions',
        'pbcmpl.Roundtrip/session': 'several connections one after the other in ONE process: Marshal n frames, cut the wire (dropped connection, clean EOF) or not, Unmarshal until the first error',
        'pbcmpl.Walk/bufio': 'pbcmpl.Walk/frames over bufio.NewReaderSize(reader, size); every Header is held and inspected only after the whole stream was walked',
        'pbcmpl.Roundtrip/big': 'pbcmpl.Roundtrip with payloads of count x one byte (bodies above 1 MiB followed by more frames), byte strings in run-length form',
        'pbcmpl.Walk/frames': 'widening: pbcmpl.Marshal (n frames into one buffer), then a user loop of pbcmpl.ReadHeader + io.ReadFull(GetBodySize) over a chunked reader, no decoding'},
 'rule': 'cases = exhaustive sweep {raw legacy message, wrappers.BytesValue} x {no GetVersion, version length 0..16 in three byte '
         'styles} x body length {0,1,31,32,33,127,128} x chunking {whole, 1 byte, 7, 32+5} + bodies of 511..multi-KB (around '
         "io.ReadAll's 512-byte buffer) + random streams of 1..5 frames read back through random chunkings, optionally with the "
         "final chunk delivered together with io.EOF; compared: bytes on the wire, Marshal's n, Size, HeaderSize, and per Unmarshal "
         'call n, version, error class, message payload, bytes consumed from the reader, bytes left. A case is non-trivial unless it '
         'is a single empty message without version; distinct = distinct (op,args)',
 'trusted': ['modelled not verified: io.ReadFull / io.LimitReader / io.ReadAll loops (Model/Pbcmpl.v; ReadAll\'s buffer growth is a '
             'parameter, theorems hold for every growth policy), encoding/binary little-endian, protowire varint',
             'harness test doubles: c06Reader (chunks + terminal), c06Writer (script) mirror cread / swrite of the model']}
