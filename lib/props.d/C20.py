CFG = {'assumptions': ['the value is acyclic and built from the supported kinds only (no chan / func / unsafe.Pointer anywhere in it); '
                 'cyclic values make sizeof diverge and are outside the statement; a value that shares pointers / slices / maps '
                 '(a DAG) is measured as its tree unfolding',
                 'amd64 widths: int, uint, uintptr = 8 bytes; headers string 16, slice 24, map 8, pointer 8, interface 16 '
                 '(unsafe.Sizeof constants, compared with the implementation on every run through the one-level exhaustive cases)',
                 'the total stays below 2^63 (Go int cannot overflow on any value that fits in memory)',
                 'full report of Stat: sizes and AvgOf below 2^53 (exact float64 conversion), AvgUnit = 0 or a power of two; the '
                 'texts of types, field names and map keys are inputs (labels) read off the real value with reflect / fmt; the '
                 'order of map entries is the order of MapKeys() (random in Go): the text is compared exactly where no listed '
                 'map has two or more entries, as the sorted list of lines where every listed map is listed completely'],
 'files': ['size/sizeof.go', 'typehelper/toslice.go'],
 'go': {'size.Of': 'size.Of', 'size.Of/known': 'size.Of', 'size.Stat': 'size.Stat (number in the first line)',
        'size.Stat/text': 'size.Stat (the whole text, with and without Opt{AvgOf, AvgUnit})',
        'size.Stat/sorted': 'size.Stat (the lines, sorted)',
        'size.Stat/after-panic': 'size.Of, size.Stat: a session around a panicking Stat call',
        'size.Stat/opts': 'size.Stat (variadic options: Opt / int / *Opt)',
        'typehelper.ToSlice': 'typehelper.ToSlice (result serialized back to a value text)',
        'typehelper.ToSlice+size.Of': 'size.Of(typehelper.ToSlice(v))'},
 'rule': 'a case is a Go value tree written in val syntax; the executor BUILDS the value with reflect (StructOf/SliceOf/MapOf/'
         'ArrayOf/PtrTo, interface{} and method-carrying interface slots, four hand-declared types with unexported fields incl. '
         'the recursive struct of TestSizeStat; slices are windows of larger arrays (cap > len), strings substrings; nodes with the '
         'same sharing id are the SAME pointer / slice / map) and calls size.Of, size.Stat(v, depth, maxItem) (first line; whole '
         'report with depth in {-7,-1,0..4,10}, maxItem in {-1,0..3,5,100}, AvgOf / AvgUnit in 1 case of 3), typehelper.ToSlice and '
         'size.Of(ToSlice(v)); cases = nil + 16 scalar kinds + strings of length 0..40; all 18 one-level container shapes x 17 leaf '
         'types; maps keyed by every leaf type; all 18x18 two-level compositions; 21 sharing patterns x 22 element types; arrays of '
         'non-scalars in slices / arrays; ToSlice on slices of length 0..6 and on non-slices; random types of depth <= 5 with random '
         'values (nil / empty / non-empty containers, distinct map keys, every scalar kind incl. uint, uintptr, complex, shared nodes). '
         'A case is non-trivial when a container is nested in a container (depth >= 2; report: >= 3 lines or an average; ToSlice: >= 2 '
         'elements); shape key = depth / set of container kinds / set of nil-or-empty container kinds / has uint|uintptr / shared '
         '(/ Stat arguments, what the limits cut, text or sorted / slice length and element kind); distinct = distinct (op,args)',
 'explanation': 'sizeof (model of the two switches, left-to-right running sum, panic as None) is proved equal to the sum over the '
                'flattened lists of scalar leaves and container nodes for every supported value tree of any size and depth; Of(nil)=0; '
                'the number in the first line of Stat equals Of; the pre-fix scalar list is refuted on VScalar KUint. Widening: the '
                'whole report of Stat (recursion on depth, maxItem exits, prefixes, indentation) is proved equal to the rendering of the '
                'visible entries of the pre-order listing; ToSlice returns the elements in order, boxed; sharing is counted per path.',
 'shrink_s': 20}
