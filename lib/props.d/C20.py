CFG = {'assumptions': ['the value is acyclic and built from the supported kinds only (no chan / func / unsafe.Pointer anywhere in it); '
                 'cyclic values make sizeof diverge and are outside the statement',
                 'amd64 widths: int, uint, uintptr = 8 bytes; headers string 16, slice 24, map 8, pointer 8, interface 16 '
                 '(unsafe.Sizeof constants, compared with the implementation on every run through the one-level exhaustive cases)',
                 'the total stays below 2^63 (Go int cannot overflow on any value that fits in memory)'],
 'files': ['size/sizeof.go'],
 'go': {'size.Of': 'size.Of', 'size.Of/known': 'size.Of', 'size.Stat': 'size.Stat (number in the first line)'},
 'rule': 'a case is a Go value tree written in val syntax; the executor BUILDS the value with reflect (StructOf/SliceOf/MapOf/'
         'ArrayOf/PtrTo, interface{} and method-carrying interface slots, four hand-declared types with unexported fields incl. '
         'the recursive struct of TestSizeStat) and calls size.Of and size.Stat(v, depth in {-1,0,1,2,10}, maxItem in {0,1,3,100}); '
         'cases = nil + 16 scalar kinds + strings of length 0..40; all 18 one-level container shapes x 17 leaf types; maps keyed '
         'by every leaf type; all 18x18 two-level compositions; random types of depth <= 5 with random values (nil / empty / '
         'non-empty containers, distinct map keys, every scalar kind incl. uint, uintptr, complex). A case is non-trivial when a '
         'container is nested in a container (depth >= 2); shape key = depth / set of container kinds / set of nil-or-empty '
         'container kinds / has uint|uintptr (/ Stat arguments); distinct = distinct (op,args)',
 'explanation': 'sizeof (model of the two switches, left-to-right running sum, panic as None) is proved equal to the sum over the '
                'flattened lists of scalar leaves and container nodes for every supported value tree of any size and depth; Of(nil)=0; '
                'the number in the first line of Stat equals Of; the pre-fix scalar list is refuted on VScalar KUint.',
 'shrink_s': 20}
