CFG = {'assumptions': ["64*len(words) < 2^31 (Go's int32 positions cannot overflow; larger bitmaps are outside every "
                 'statement)',
                 'every word is in [0,2^64) (words_ok)'],
 'files': ['bitmap/rank.go', 'bitmap/mask.go'],
 'go': {'bitmap.IndexRank128': 'bitmap.IndexRank128',
        'bitmap.IndexRank64': 'bitmap.IndexRank64',
        'bitmap.Rank128': 'bitmap.Rank128',
        'bitmap.Rank64': 'bitmap.Rank64'},
 'rule': 'cases = exhaustive sweeps (constant bitmaps of 0..5 words, single/two-bit words in every slot x all '
         'positions) + random bitmaps of 1..40 words from a 10-pattern word mix with positions biased to 64/128-bit '
         'boundaries; a rank case is non-trivial when there are 1-bits before the queried word, and inside it both '
         'below and at/above i; an index case when the bitmap has >1 word and >0 bits; distinct = distinct (op,args)'}
