CFG = {'assumptions': ["64*len(words) < 2^31 (Go's int32 positions cannot overflow; larger bitmaps are outside every "
                 'statement; the int32 theorems say what happens at that boundary: Rank64 still answers on every '
                 'int32 position of a larger bitmap, Rank128 panics on positions >= 2^31-64)',
                 'every word is in [0,2^64) (words_ok)',
                 'bitmap.Rank/any, bitmap.Rank/rle: any int32 position; the specification speaks for positions inside the '
                 'bitmap only - outside (a panic as of now) just model = implementation is compared; bitmap.Rank/laws: 0 <= i <= j < 64*len(words); bitmap.Rank/concat: 0 <= i < 64*(len(a)+len(b)); '
                 'bitmap.Rank/history: every step names an existing bitmap / word'],
 'files': ['bitmap/rank.go', 'bitmap/mask.go'],
 'go': {'bitmap.IndexRank128': 'bitmap.IndexRank128',
        'bitmap.IndexRank64': 'bitmap.IndexRank64',
        'bitmap.Rank128': 'bitmap.Rank128(words, bitmap.IndexRank128(words), i)',
        'bitmap.Rank64': 'bitmap.Rank64(words, bitmap.IndexRank64(words, trailing), i)',
        'bitmap.Rank64/held': 'the same with indexes of a decoy bitmap built between building and querying',
        'bitmap.Rank128/held': 'the same with indexes of a decoy bitmap built between building and querying',
        'bitmap.Rank/any': 'Rank64 / Rank128 with a freshly built index at ANY int32 position (P = panic)',
        'bitmap.Rank/laws': 'the three flavours (IndexRank64, IndexRank64 trailing, IndexRank128) at two positions i <= j '
                            'plus the trailing total; judged by the laws alone (agreement, step, monotone, bounds, end)',
        'bitmap.Rank/concat': 'Rank on append(a, b) against the piecewise computation from the indexes of a and of b',
        'bitmap.Rank/complement': 'Rank on words and on the word-wise complement at the same position (counts add up to i, bits to 1)',
        'bitmap.IndexRank/all': 'IndexRank64(words), IndexRank64(words, true), IndexRank128(words) side by side',
        'bitmap.IndexRank/rle': 'the same on a run-length encoded bitmap [[count, word], ...]',
        'bitmap.Rank/rle': 'Rank64 / Rank128 on a run-length encoded bitmap',
        'bitmap.IndexRank/session': 'a list of (flavour, run-length encoded bitmap) index builds in one process, each returned index reported, used for one query at the last position and then overwritten with junk by the caller; the list is run twice',
        'bitmap.IndexRank64/concurrent': 'IndexRank64 of two large bitmaps from 2..4 goroutines released together (several rounds): sampled entries of the single-caller index + one equal-to-single-caller flag per concurrent call',
        'bitmap.Rank/history': 'several bitmaps with HELD indexes, queried in any order; a word is overwritten IN PLACE and '
                               'the same backing slice is re-indexed (order of the IndexRank64 calls alternating)'},
 'rule': 'cases = all 2-word bitmaps with words 0..40 and all 3-word bitmaps with words 0..6 indexed consecutively in one session in 4 orders (lexicographic, by 31-polynomial, sum, xor of the words); held indexes over ascending sizes; exhaustive sweeps (constant bitmaps of 0..5 words, single/two-bit '
         'words in every slot x all positions); random bitmaps of 1..40 words from a 10-pattern word mix with positions '
         'biased to 64/128-bit boundaries; large bitmaps (dense / sparse / all-ones, 17..2049 words: positions next to '
         '2^8, 2^10, 2^15, 2^16, 2^17 and next to the word where the running count crosses 2^8, 2^15, 2^16); any int32 '
         'position inside / next to / far outside bitmaps of 0..12 words incl. the int32 extremes; law bundles at '
         'equal / adjacent / same-word / same-block / far positions and every adjacent pair of 3-word bitmaps; '
         'two-piece bitmaps with pieces of 0..9 words, positions around the seam; side-by-side indexes of 0..12 '
         'words; run-length encoded bitmaps of 1024/1280/2048/4100 words with an all-zero run aligned to a '
         '64..1024-word boundary after a non-empty prefix (indexes + probes right after the run); histories over 2..4 '
         'bitmaps (several of the same length, some sharing their low halves) and over ONE bitmap whose middle words are '
         'overwritten in place; sessions with bitmaps of 0..7 words after bitmaps whose length sits next to a size threshold (1025, 3073, 4097, 6145 words; 21 sizes in the thorough tier); concurrent builds of 2^17+3-word bitmaps. Run-length encoded bitmaps are expanded into a window of a longer array whose spare capacity holds junk. Non-trivial: a rank case when there are 1-bits before the queried word, and inside it '
         'both below and at/above i; an index case when the bitmap has >1 word and >0 bits; every widening case with '
         '1-bits on the relevant sides; distinct = distinct (op,args)'}
