(** Model of /repo/bitmap/of.go (Of), ofmany.go (OfMany), builder.go (Builder),
    toarray.go (ToArray), get.go (Get, Get1, SafeGet, SafeGet1): same loops,
    same index arithmetic.  int32 arithmetic is unbounded [Z] (no overflow while
    every position and size stays below 2^31 - 64, the size hypothesis of every
    theorem); [>>] on a negative int32 is the arithmetic [Z.shiftr], [& 63] is
    [Z.land] (two's complement), [<<] on uint64 is [shl64]. *)
From Coq Require Import ZArith List Bool.
From Low Require Import Lib.MachInt Lib.Bits Lib.BitSeq Model.BitmapUtil Model.BuilderOps.
Import ListNotations.
Open Scope Z_scope.

(** * Of *)
(** [for _, i := range bitPositions { wordI := i >> 6; i = i & 63; words[wordI] |= 1 << uint(i) }] *)
Fixpoint Of_loop (ps : list Z) (words : list Z) : option (list Z) :=
  match ps with
  | [] => Some words
  | i :: t =>
      match or_at words (Z.shiftr i 6) (shl64 1 (Z.land i 63)) with
      | None => None
      | Some words' => Of_loop t words'
      end
  end.

(** [opt]: the optional first element of [opts] *)
Definition Of (ps : list Z) (opt : option Z) : option (list Z) :=
  let n := match opt with Some n => n | None => 0 end in
  let n := match ps with
           | [] => n
           | _ => let mx := last ps 0 + 1 in if n <? mx then mx else n
           end in
  let n := if n <? 0 then 0 else n in
  match make_words (Z.shiftr (n + 63) 6) with
  | None => None
  | Some words => Of_loop ps words
  end.

(** * OfMany *)
(** [for i, e := range subs { for _, idx := range e { r[ith] = base + idx; ith++ }; base += sizes[i] }]
    result: (r, base); [None] = sizes[i] out of range *)
Fixpoint OfMany_loop (subs : list (list Z)) (sizes : list Z) (base : Z) (r : list Z) : option (list Z * Z) :=
  match subs with
  | [] => Some (r, base)
  | e :: t =>
      match sizes with
      | [] => None
      | s :: st => OfMany_loop t st (base + s) (r ++ map (fun idx => base + idx) e)
      end
  end.

Definition OfMany (subs : list (list Z)) (sizes : list Z) : option (list Z) :=
  match OfMany_loop subs sizes 0 [] with
  | None => None
  | Some (r, base) => Of r (Some base)
  end.

(** * ToArray *)
(** [for i := int32(0); i < l; i++ { if words[i>>6]&(1<<uint(i&63)) != 0 { r = append(r, i) } }]
    the appended elements in order, from position [i] on *)
Fixpoint ToArray_loop (fuel : nat) (words : list Z) (i l : Z) {struct fuel} : option (list Z) :=
  if i <? l then
    match fuel with
    | O => None
    | S f =>
        match nthZ words (Z.shiftr i 6) with
        | None => None
        | Some w =>
            match ToArray_loop f words (i + 1) l with
            | None => None
            | Some rest => Some (if Z.land w (shl64 1 (Z.land i 63)) =? 0 then rest else i :: rest)
            end
        end
    end
  else Some [].

Definition ToArray (words : list Z) : option (list Z) :=
  let l := zlen words * 64 in
  ToArray_loop (Z.to_nat l) words 0 l.

(** * Get / Get1 / SafeGet / SafeGet1 *)
Definition Get (bm : list Z) (i : Z) : option Z :=
  match nthZ bm (Z.shiftr i 6) with
  | None => None
  | Some w => Some (Z.land w (Bit (Z.land i 63)))
  end.

Definition Get1 (bm : list Z) (i : Z) : option Z :=
  match nthZ bm (Z.shiftr i 6) with
  | None => None
  | Some w => Some (Z.land (shr64 w (Z.land i 63)) 1)
  end.

Definition SafeGet (bm : list Z) (i : Z) : option Z :=
  let wordI := Z.shiftr i 6 in
  let bitI := Z.land i 63 in
  if (wordI <? 0) || (wordI >=? zlen bm) then Some 0
  else match nthZ bm wordI with
       | None => None
       | Some w => Some (Z.land w (Bit bitI))
       end.

Definition SafeGet1 (bm : list Z) (i : Z) : option Z :=
  let wordI := Z.shiftr i 6 in
  let bitI := Z.land i 63 in
  if (wordI <? 0) || (wordI >=? zlen bm) then Some 0
  else match nthZ bm wordI with
       | None => None
       | Some w => Some (Z.land (shr64 w bitI) 1)
       end.

(** * Builder *)
Record builder := { Words : list Z; Offset : Z }.

(** [Words: make([]uint64, 0, n>>6)]: only the capacity depends on n; a negative capacity panics *)
Definition NewBuilder (n : Z) : option builder :=
  if Z.shiftr n 6 <? 0 then None else Some {| Words := []; Offset := 0 |}.

(** [for int(end) > len(b.Words)<<6 { b.Words = append(b.Words, 0) }] *)
Fixpoint grow_to (fuel : nat) (words : list Z) (e : Z) : option (list Z) :=
  if e >? Z.shiftl (zlen words) 6 then
    match fuel with
    | O => None
    | S f => grow_to f (words ++ [0]) e
    end
  else Some words.

(** [for _, i := range bitPositions { idx := b.Offset + i; b.Words[idx>>6] |= 1 << uint(idx&63) }] *)
Fixpoint Extend_loop (ps : list Z) (off : Z) (words : list Z) : option (list Z) :=
  match ps with
  | [] => Some words
  | i :: t =>
      let idx := off + i in
      match or_at words (Z.shiftr idx 6) (shl64 1 (Z.land idx 63)) with
      | None => None
      | Some words' => Extend_loop t off words'
      end
  end.

Definition Extend (b : builder) (ps : list Z) (size : Z) : option builder :=
  let e := Offset b + size in
  let e := match ps with
           | [] => e
           | _ => let bitEnd := last ps 0 in if bitEnd >=? size then Offset b + bitEnd + 1 else e
           end in
  match grow_to (S (Z.to_nat (Z.shiftr (e + 63) 6))) (Words b) e with
  | None => None
  | Some words =>
      match Extend_loop ps (Offset b) words with
      | None => None
      | Some words' => Some {| Words := words'; Offset := Offset b + size |}
      end
  end.

(** [for int(bitPosition>>6) >= len(b.Words) { b.Words = append(b.Words, 0) }] *)
Fixpoint grow_past (fuel : nat) (words : list Z) (k : Z) : option (list Z) :=
  if k >=? zlen words then
    match fuel with
    | O => None
    | S f => grow_past f (words ++ [0]) k
    end
  else Some words.

Definition SetBit (b : builder) (p v : Z) : option builder :=
  let k := Z.shiftr p 6 in
  match grow_past (S (Z.to_nat (k + 1))) (Words b) k with
  | None => None
  | Some words =>
      match or_at words k (shl64 (Z.land v 1) (Z.land p 63)) with
      | None => None
      | Some words' =>
          Some {| Words := words'; Offset := if Offset b <=? p then p + 1 else Offset b |}
      end
  end.

(** one call on a builder ([bop] is in Model/BuilderOps.v) *)
Definition bstep (b : builder) (o : bop) : option builder :=
  match o with
  | BExtend ps size => Extend b ps size
  | BSet p v => SetBit b p v
  end.

(** the builder after every call, starting with the fresh one; [None] = some call panicked *)
Fixpoint brun (b : builder) (ops : list bop) : option (list builder) :=
  match ops with
  | [] => Some [b]
  | o :: t =>
      match bstep b o with
      | None => None
      | Some b' => match brun b' t with None => None | Some r => Some (b :: r) end
      end
  end.
