(** Model of /repo/bitmap/mask.go: the six exported tables as [initMasks] computes them
    (uint64 arithmetic: [1 << 64 = 0], [0 - 1] wraps to 2^64-1, [^x] is [not64]).
    A table read [T[i]] is [nthZ T i]: [None] = index out of range (Go panics). *)
From Coq Require Import ZArith List.
From Low Require Import Lib.MachInt Lib.Bits Lib.BitSeq.
Import ListNotations.
Open Scope Z_scope.

Definition zrange (n : nat) : list Z := map Z.of_nat (seq 0 n).

(** [for i := 0; i < 65; i++ { Mask[i] = (1 << uint(i)) - 1; RMask[i] = ^Mask[i] }] *)
Definition Mask_tab : list Z := map (fun i => u64 (shl64 1 i - 1)) (zrange 65).
Definition RMask_tab : list Z := map not64 Mask_tab.

(** [for i := 0; i < 64; i++ { MaskUpto[i] = (1 << uint(i+1)) - 1; RMaskUpto[i] = ^MaskUpto[i];
                               Bit[i] = 1 << uint(i); RBit[i] = ^Bit[i] }] *)
Definition MaskUpto_tab : list Z := map (fun i => u64 (shl64 1 (i + 1) - 1)) (zrange 64).
Definition RMaskUpto_tab : list Z := map not64 MaskUpto_tab.
Definition Bit_tab : list Z := map (fun i => shl64 1 i) (zrange 64).
Definition RBit_tab : list Z := map not64 Bit_tab.

(** [Mask[i], RMask[i]] *)
Definition mask_at (i : Z) : option (Z * Z) :=
  match nthZ Mask_tab i, nthZ RMask_tab i with
  | Some a, Some b => Some (a, b)
  | _, _ => None
  end.

(** [MaskUpto[i], RMaskUpto[i], Bit[i], RBit[i]] *)
Definition bit_at (i : Z) : option (Z * Z * Z * Z) :=
  match nthZ MaskUpto_tab i, nthZ RMaskUpto_tab i, nthZ Bit_tab i, nthZ RBit_tab i with
  | Some a, Some b, Some c, Some d => Some (a, b, c, d)
  | _, _, _, _ => None
  end.
