(** Model of /repo/bitmap/fmt.go (Fmt, intFmt, intSize): the same byte loop,
    [bits.Reverse8] and [fmt.Sprintf("%08b")] given their definitional models
    (DESIGN section 3, external code), [strings.Join].  A string is a list of bytes. *)
From Coq Require Import ZArith List.
From Low Require Import Lib.MachInt Lib.Bits Lib.Bytes.
Import ListNotations.
Open Scope Z_scope.

(** [strings.Join(parts, sep)] *)
Fixpoint join (sep : list Z) (parts : list (list Z)) : list Z :=
  match parts with
  | [] => []
  | [p] => p
  | p :: rest => p ++ sep ++ join sep rest
  end.

(** [bits.Reverse8(b)]: bit i of b becomes bit 7-i ([bits 8 b] is LSB first, [val_msb] reads MSB first) *)
Definition reverse8 (b : Z) : Z := val_msb (bits 8 b).

(** [fmt.Sprintf("%b", x)], x >= 0: binary digits, most significant first, no leading zeros, "0" for 0 *)
Definition digit (b : bool) : Z := if b then 49 else 48.
Definition fmt_b (x : Z) : list Z :=
  if x =? 0 then [48] else map digit (rev (bits (Z.to_nat (Z.log2 x + 1)) x)).
(** [%08b]: left-padded with '0' to width 8 (never truncated) *)
Definition pad0 (width : nat) (s : list Z) : list Z := repeat 48 (width - length s) ++ s.
Definition sprintf_08b (x : Z) : list Z := pad0 8 (fmt_b x).

(** [intSize]: the size in bytes is given by the caller's type; the value is [uint64(i)]
    (sign-extending for the signed kinds, i.e. the value modulo 2^64) *)
Definition intSize_ok (sz : Z) : bool := (sz =? 1) || (sz =? 2) || (sz =? 4) || (sz =? 8).

(** [sz, v := intSize(i)] ([None] = "not a int type" panic), then
    [for i := 0; i < sz; i++ { b := uint8(v >> uint(i*8)); s := Sprintf("%08b", Reverse8(b)); rst = append(rst, s) }
     return strings.Join(rst, " ")] *)
Definition intFmt (sz : Z) (x : Z) : option (list Z) :=
  if intSize_ok sz then
    let v := u64 x in
    Some (join [32] (map (fun i => sprintf_08b (reverse8 (u8 (shr64 v (Z.of_nat i * 8))))) (seq 0 (Z.to_nat sz))))
  else None.

Fixpoint all_some {A} (l : list (option A)) : option (list A) :=
  match l with
  | [] => Some []
  | None :: _ => None
  | Some x :: t => match all_some t with Some r => Some (x :: r) | None => None end
  end.

(** [Fmt(x)]: x a slice ([isslice]; every element goes through [intFmt], so an empty slice of any element
    type gives "") or a single value ([xs = [x]]); [sz] = the byte size of the integer kind, anything
    else stands for a non-integer type *)
Definition Fmt (sz : Z) (isslice : bool) (xs : list Z) : option (list Z) :=
  if isslice then
    match all_some (map (intFmt sz) xs) with
    | Some parts => Some (join [44] parts)
    | None => None
    end
  else match xs with [x] => intFmt sz x | _ => None end.
