(** Widening of C06 / C07: ReadHeader as its users combine it with io.ReadFull — a
    program that walks a stream frame by frame WITHOUT decoding the bodies
    (harness/c06.go: c06Walk):
<<
	for {
		n, h, err := pbcmpl.ReadHeader(r)
		if err != nil { record (n, err); break }
		ver, hs, bs := h.GetVersion(), h.GetHeaderSize(), h.GetBodySize()
		if hs != 32 || bs < 0 || bs > 65536 { record refusal (n, ver, hs, bs); break }
		b := make([]byte, bs)
		nb, err := io.ReadFull(r, b)
		record (n, err, ver, hs, bs, b[:nb])
		if err != nil { break }
	}
>>
    One step = (n, err, version, header size, body size, body bytes read, refused?).
    No proofs here. *)
From Coq Require Import ZArith List Bool.
From Low Require Import Lib.MachInt Lib.BitSeq Model.Pbcmpl.
Import ListNotations.
Open Scope Z_scope.

Definition walk_limit : Z := 65536.
Definition wstep : Type := (Z * option perr * list Z * Z * Z * list Z * bool)%type.

Definition walk_refuses (hs bs : Z) : bool :=
  negb (hs =? 32) || (bs <? 0) || (bs >? walk_limit).

Fixpoint c_walk (fuel : nat) (r : creader) {struct fuel} : option (list wstep * creader) :=
  match fuel with
  | O => None
  | S f =>
      match c_ReadHeader r with
      | None => None
      | Some (n, None, err, r') => Some ([(n, err, [], 0, 0, [], false)], r')
      | Some (n, Some h, _, r') =>
          let ver := GetVersion h in
          let hs := GetHeaderSize h in
          let bs := GetBodySize h in
          if walk_refuses hs bs then Some ([(n, None, ver, hs, bs, [], true)], r')
          else
            match ReadFull cread (rd_fuel r') r' bs with
            | None => None
            | Some (b, Some e, r'') => Some ([(n, Some e, ver, hs, bs, b, false)], r'')
            | Some (b, None, r'') =>
                match c_walk f r'' with
                | None => None
                | Some (steps, r3) => Some ((n, None, ver, hs, bs, b, false) :: steps, r3)
                end
            end
      end
  end.

Definition c_Walk (r : creader) : option (list wstep * creader) := c_walk (stream_fuel r) r.
