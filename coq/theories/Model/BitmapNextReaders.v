(** NextOne / PrevOne combined with the other readers of package bitmap
    (compositions; each is the harness executor in harness/c13w.go verbatim):
    - [NextGet1]: read the bit at the positions NextOne / PrevOne return with Get1;
    - [WalkCount]: the number of rounds of the two walks of [i, end) against
      [Rank64(end) - Rank64(i)] with the index built by IndexRank64. *)
From Coq Require Import ZArith List Bool.
From Low Require Import Lib.Bits Lib.BitSeq Model.BitmapNext Model.BitmapNextIter Model.BitmapOf Model.Rank.
Import ListNotations.
Open Scope Z_scope.

(** [n := NextOne(bm,i,end); gn := -1; if n >= 0 { gn = Get1(bm, n) }; p := PrevOne(...); gp ...] *)
Definition NextGet1 (bm : list Z) (i e : Z) : option (list Z) :=
  match NextOne bm i e, PrevOne bm i e with
  | Some n, Some p =>
      match (if n <? 0 then Some (-1) else Get1 bm n), (if p <? 0 then Some (-1) else Get1 bm p) with
      | Some gn, Some gp => Some [n; gn; p; gp]
      | _, _ => None
      end
  | _, _ => None
  end.

(** [idx := IndexRank64(bm, tr); ri, _ := Rank64(bm, idx, i); re, _ := Rank64(bm, idx, end);
     [len(walk with NextOne), len(walk with PrevOne), re - ri]] *)
Definition WalkCount (bm : list Z) (tr : bool) (i e : Z) : option (list Z) :=
  match IterNext bm i e, IterPrev bm i e with
  | Some l, Some l' =>
      let idx := IndexRank64 bm tr in
      match Rank64 bm idx i, Rank64 bm idx e with
      | Some (ri, _), Some (re, _) => Some [zlen l; zlen l'; re - ri]
      | _, _ => None
      end
  | _, _ => None
  end.

(** [bm := Of(ps, opts...); walk the whole bitmap with NextOne; with PrevOne] *)
Definition OfWalk (ps : list Z) (opt : option Z) : option (list Z * list Z) :=
  match Of ps opt with
  | None => None
  | Some r =>
      match IterNext r 0 (64 * zlen r), IterPrev r 0 (64 * zlen r) with
      | Some a, Some b => Some (a, b)
      | _, _ => None
      end
  end.

(** [l := walk of the whole bitmap with NextOne; sidx := IndexSelect32(bm); sidx2, ridx := IndexSelect32R64(bm);
     for k := range l { a, b := Select32(bm, sidx, k); a2, b2 := Select32R64(bm, sidx2, ridx, k) }] *)
From Low Require Import Model.Select Model.BitmapGetw32.

Definition WalkSelect (bm : list Z) : option (list Z * list (Z * Z) * list (Z * Z)) :=
  match IterNext bm 0 (64 * zlen bm), IndexSelect32 bm, IndexSelect32R64 bm with
  | Some l, Some sidx, Some (sidx2, ridx) =>
      let ks := map Z.of_nat (seq 0 (length l)) in
      match all_some (map (Select32 bm sidx) ks), all_some (map (Select32R64 bm sidx2 ridx) ks) with
      | Some s1, Some s2 => Some (l, s1, s2)
      | _, _ => None
      end
  | _, _, _ => None
  end.

(** what select returns for every index of an ascending list [o] of 1-bits of a bitmap of [n] bits:
    the [k]-th and the [k+1]-th element ([n] after the last) *)
Definition sel_pairs (o : list Z) (n : Z) : list (Z * Z) :=
  map (fun k => (nth (Z.to_nat k) o 0, if k + 1 <? zlen o then nth (Z.to_nat (k + 1)) o 0 else n))
      (map Z.of_nat (seq 0 (length o))).

(** [r := Slice(bm, from, to); walk the whole of r with NextOne; with PrevOne] *)
From Low Require Import Model.BitmapJoin.

Definition SliceWalk (bm : list Z) (from to : Z) : option (list Z * list Z) :=
  match Slice bm from to with
  | None => None
  | Some r =>
      match IterNext r 0 (64 * zlen r), IterPrev r 0 (64 * zlen r) with
      | Some a, Some b => Some (a, b)
      | _, _ => None
      end
  end.
