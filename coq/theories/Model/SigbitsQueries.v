(** Model of a client that holds ONE SigBits object and asks it several
    CountPrefixes questions (sigbits.go, sigbits_countprefixes.go,
    countprefixes.go).  countPrefixes receives a sub-slice that aliases the
    object's [sigbits]; it reads it ([d] in [for _, d := range] is a copy, [d -= min]
    changes the copy) and writes only its own fresh [counts] and [rst].  So the
    object is the same value before and after a call, and a sequence of calls is
    a map over the queries.  [None] when a query panics.  No proofs in this file. *)
From Coq Require Import ZArith List Bool.
From Low Require Import Lib.MachInt Lib.Bits Lib.BitSeq Model.Sigbits.
Import ListNotations.
Open Scope Z_scope.

Fixpoint run_queries (sb : SigBits) (qs : list (Z * Z * Z)) : option (list (Z * list Z)) :=
  match qs with
  | [] => Some []
  | (s, e, m) :: t =>
      match CountPrefixes sb s e m, run_queries sb t with
      | Some r, Some rs => Some (r :: rs)
      | _, _ => None
      end
  end.

(** * a cross-function session on ONE key slice and ONE SigBits built from it:
      CountPrefixes queries on the object, interleaved with ShardByPrefix(keys, maxSize)
      and FirstDiffBits(keys) on the very same []string.  ShardByPrefix computes its own
      FirstDiffBits(keys) (sharding.go:14) and shifts copies ([firstDiffs[i]>>3] is an
      expression), FirstDiffBits makes a fresh slice: neither touches the object, so the
      session is a map over the steps.  The value ShardByPrefix returns is C17's matter and
      is not part of this model's output ([(0, [])]); its panic is. *)
Inductive sstep : Type :=
| QCount (s e m : Z)
| QShard (maxSize : Z)
| QFdb
| QRepeat (n s e m : Z).   (* the same CountPrefixes query n times in a row, only the last answer is kept *)

(** the literal loop: [n+1] calls, the last answer; the object is not changed by a call, so this is
    the answer of one call ([repeat_last_once] in Proofs/SigbitsSessionProofs.v) and [run_session]
    evaluates a repeated block once *)
Fixpoint repeat_last (n : nat) (sb : SigBits) (s e m : Z) : option (Z * list Z) :=
  match n with
  | O => CountPrefixes sb s e m
  | S n' => match CountPrefixes sb s e m with
            | Some _ => repeat_last n' sb s e m
            | None => None
            end
  end.

Fixpoint run_session (keys : list (list Z)) (sb : SigBits) (steps : list sstep) : option (list (Z * list Z)) :=
  match steps with
  | [] => Some []
  | st :: t =>
      let r := match st with
               | QCount s e m => CountPrefixes sb s e m
               | QShard ms => match ShardByPrefix keys ms with Some _ => Some (0, []) | None => None end
               | QFdb => match FirstDiffBits keys with Some ds => Some (0, ds) | None => None end
               | QRepeat n s e m => if n <? 1 then None else CountPrefixes sb s e m
               end in
      match r, run_session keys sb t with
      | Some r, Some rs => Some (r :: rs)
      | _, _ => None
      end
  end.
