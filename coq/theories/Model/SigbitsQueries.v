(** Model of a client that holds ONE SigBits object and asks it several
    CountPrefixes questions (sigbits.go, sigbits_countprefixes.go,
    countprefixes.go).  countPrefixes receives a sub-slice that aliases the
    object's [sigbits]; it reads it ([d] in [for _, d := range] is a copy, [d -= min]
    changes the copy) and writes only its own fresh [counts] and [rst].  So the
    object is the same value before and after a call, and a sequence of calls is
    a map over the queries.  [None] when a query panics.  No proofs in this file. *)
From Coq Require Import ZArith List Bool.
From Low Require Import Lib.MachInt Lib.Bits Lib.BitSeq Model.Sigbits.
Import ListNotations.
Open Scope Z_scope.

Fixpoint run_queries (sb : SigBits) (qs : list (Z * Z * Z)) : option (list (Z * list Z)) :=
  match qs with
  | [] => Some []
  | (s, e, m) :: t =>
      match CountPrefixes sb s e m, run_queries sb t with
      | Some r, Some rs => Some (r :: rs)
      | _, _ => None
      end
  end.
