(** Model of size.Of on values that SHARE pointers (C20 widening).

    Model/Size.v describes a Go value as a tree.  Memory is a graph: the same
    pointer may be stored in two places.  Here a value may contain references
    [GRef a] to the cells of a HEAP (a list of values; cell [a] is what the
    pointer with "address" [a] points to), so that one cell can be reached along
    several paths.  [gsizeof] is [sizeof] of sizeof.go again, with
    [sizeof(v.Elem())] of a reference reading the heap — the code keeps no
    record of the pointers it has followed, and neither does the model.

    Recursion through the heap is not structural: every call consumes one unit
    of [fuel]; running out of fuel ([None]) is what a cyclic value does to the
    real code (endless recursion).  No proofs in this file. *)
From Coq Require Import ZArith List Bool.
From Low Require Import Model.Size.
Import ListNotations.
Open Scope Z_scope.

Inductive gvalue : Type :=
| GScalar (k : skind)
| GString (bytes : list Z)
| GSlice (o : option (list gvalue))
| GArray (l : list gvalue)
| GMap (kvs : list (gvalue * gvalue))
| GPtr (o : option gvalue)          (* nil, or a pointer to a cell nobody else points to (written in place) *)
| GRef (a : nat)                    (* a non-nil pointer to heap cell a *)
| GIface (o : option gvalue)
| GStruct (fields : list gvalue)
| GOther.

Definition heap := list gvalue.

Definition gheader_of (v : gvalue) : Z :=
  match v with
  | GMap _ => mapsize
  | GSlice _ => slicesize
  | GString _ => stringsize
  | GPtr _ | GRef _ => pointersize
  | GIface _ => interfacesize
  | _ => 0
  end.

Section Loops.
  Variable f : gvalue -> option Z.
  Fixpoint gsum_elems (l : list gvalue) (sum : Z) : option Z :=
    match l with
    | [] => Some sum
    | x :: t => match f x with
                | None => None
                | Some s => gsum_elems t (sum + s)
                end
    end.
  Fixpoint gsum_pairs (l : list (gvalue * gvalue)) (sum : Z) : option Z :=
    match l with
    | [] => Some sum
    | (k, x) :: t =>
        match f k with
        | None => None
        | Some s =>
            let sum := sum + s in
            match f x with
            | None => None
            | Some s => gsum_pairs t (sum + s)
            end
        end
    end.
End Loops.

Fixpoint gstring_loop (bs : list Z) (sum : Z) : option Z :=
  match bs with
  | [] => Some sum
  | _ :: t => match scalar_case false KUint8 with
              | None => None
              | Some s => gstring_loop t (sum + (s + 0))
              end
  end.

Fixpoint gsizeof (h : heap) (fuel : nat) (v : gvalue) : option Z :=
  match fuel with
  | O => None
  | S fuel =>
      let body :=
        match v with
        | GMap kvs => gsum_pairs (gsizeof h fuel) kvs 0
        | GSlice None => Some 0
        | GSlice (Some l) => gsum_elems (gsizeof h fuel) l 0
        | GArray l => gsum_elems (gsizeof h fuel) l 0
        | GString bs => gstring_loop bs 0
        | GPtr None => Some 0
        | GPtr (Some x) => gsizeof h fuel x
        | GRef a => match nth_error h a with
                    | Some cell => gsizeof h fuel cell       (* sizeof(v.Elem()) *)
                    | None => None                           (* dangling: not a Go value *)
                    end
        | GIface None => Some 0
        | GIface (Some x) => gsizeof h fuel x
        | GStruct fs => gsum_elems (gsizeof h fuel) fs 0
        | GScalar k => scalar_case false k
        | GOther => None
        end in
      match body with
      | None => None
      | Some sum => Some (sum + gheader_of v)
      end
  end.

Definition gOf (h : heap) (fuel : nat) (data : option gvalue) : option Z :=
  match data with
  | None => Some 0
  | Some v => gsizeof h fuel v
  end.
