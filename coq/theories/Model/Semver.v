(** Definitional model of github.com/blang/semver v3.5.1 (semver.go, range.go) as far as
    github.com/openacid/low/vers uses it: Parse, Version.Compare, PRVersion.Compare, ParseRange and the
    closures it returns.  This is THIRD-PARTY code: it is modelled function by function, with its quirks, and
    NOT verified as a parser (extra check X01 exercises it by correspondence on every run); what is proved
    about it is the comparison logic ([Compare] is the semver precedence order) and the meaning of the
    closure tree built from the parsed groups (Proofs/VersProofs.v).

    Strings are byte lists.  The domain is ASCII (bytes < 128): on ASCII Go's rune-based helpers
    (strings.IndexFunc/unicode.IsDigit, ContainsRune, TrimSpace) agree with the byte-wise definitions below.
    The strings / strconv functions are Go's library: defined in the simplest way, trusted.
    [res]: a function that can fail returns [Ok x], [Err] (a Go error) or [Panic].  No proofs in this file. *)
From Coq Require Import ZArith List Bool.
From Low Require Import Lib.Lex Lib.Decimal_xpk.
Import ListNotations.
Open Scope Z_scope.

Definition str := list Z.

Inductive res (A : Type) := Ok (a : A) | Err | Panic.
Arguments Ok {A}. Arguments Err {A}. Arguments Panic {A}.
Definition bind {A B} (r : res A) (f : A -> res B) : res B :=
  match r with Ok a => f a | Err => Err | Panic => Panic end.
Notation "x <- r ;; k" := (bind r (fun x => k)) (at level 61, r at next level, right associativity).
Definition of_opt {A} (o : option A) : res A := match o with Some a => Ok a | None => Err end.

(** * Go's strings package on byte lists *)
Fixpoint str_eqb (a b : str) : bool :=
  match a, b with
  | [], [] => true
  | x :: a', y :: b' => (x =? y) && str_eqb a' b'
  | _, _ => false
  end.

Fixpoint prefixb (p s : str) : bool :=
  match p, s with
  | [], _ => true
  | x :: p', y :: s' => (x =? y) && prefixb p' s'
  | _ :: _, [] => false
  end.

(** cut at the first occurrence of the non-empty [sep]: (before, after) *)
Fixpoint split_first (sep s : str) : option (str * str) :=
  if prefixb sep s then Some ([], skipn (length sep) s)
  else match s with
       | [] => None
       | c :: t => match split_first sep t with
                   | Some (a, b) => Some (c :: a, b)
                   | None => None
                   end
       end.

(** strings.Split(s, sep), sep not empty *)
Fixpoint split_fuel (fuel : nat) (sep s : str) : list str :=
  match fuel with
  | O => [s]
  | S f => match split_first sep s with
           | Some (a, b) => a :: split_fuel f sep b
           | None => [s]
           end
  end.
Definition split (sep s : str) : list str := split_fuel (S (length s)) sep s.

(** strings.SplitN(s, sep, n), n > 0 *)
Fixpoint splitN (n : nat) (sep s : str) : list str :=
  match n with
  | O => []
  | S O => [s]
  | S n' => match split_first sep s with
            | Some (a, b) => a :: splitN n' sep b
            | None => [s]
            end
  end.

(** strings.Join *)
Fixpoint join (sep : str) (l : list str) : str :=
  match l with
  | [] => []
  | [x] => x
  | x :: t => x ++ sep ++ join sep t
  end.

(** strings.Replace(s, old, new, 1), old not empty *)
Definition replace_first (old new s : str) : str :=
  match split_first old s with Some (a, b) => a ++ new ++ b | None => s end.

(** strings.Replace(s, " ", "", -1) *)
Definition remove_spaces (s : str) : str := filter (fun c => negb (c =? 32)) s.

Definition contains_byte (c : Z) (s : str) : bool := existsb (Z.eqb c) s.

(** strings.IndexRune(s, c) for an ASCII c: Some (before, after) *)
Definition cut_byte (c : Z) (s : str) : option (str * str) := split_first [c] s.

(** ASCII white space of unicode.IsSpace: \t \n \v \f \r and the space *)
Definition is_space (c : Z) : bool := ((9 <=? c) && (c <=? 13)) || (c =? 32).
Fixpoint trim_left (s : str) : str :=
  match s with c :: t => if is_space c then trim_left t else s | [] => [] end.
Definition trim_space (s : str) : str := rev (trim_left (rev (trim_left s))).

(** s[a:b] for 0 <= a <= b <= len(s) (the callers guarantee it) *)
Definition sub (s : str) (a b : Z) : str := firstn (Z.to_nat (b - a)) (skipn (Z.to_nat a) s).
Definition slen (s : str) : Z := Z.of_nat (length s).

(** * semver.go *)
Definition numbers : str := [48; 49; 50; 51; 52; 53; 54; 55; 56; 57].
Definition is_alpha (c : Z) : bool :=
  ((97 <=? c) && (c <=? 122)) || ((65 <=? c) && (c <=? 90)) || (c =? 45).      (* a-z A-Z - *)
Definition is_alphanum (c : Z) : bool := is_alpha c || is_digit c.

(** containsOnly(s, numbers) / containsOnly(s, alphanum) *)
Definition only_numbers (s : str) : bool := forallb is_digit s.
Definition only_alphanum (s : str) : bool := forallb is_alphanum s.

Definition hasLeadingZeroes (s : str) : bool :=
  match s with c :: _ :: _ => c =? 48 | _ => false end.

(** strconv.ParseUint(s, 10, 64): digits only, not empty, below 2^64 *)
Definition parse_uint (s : str) : option Z :=
  match s with
  | [] => None
  | _ => match parse_digits 0 s with
         | Some n => if n <? 2 ^ 64 then Some n else None
         | None => None
         end
  end.

Record PRVersion := { pr_str : str; pr_num : Z; pr_isnum : bool }.
Record Version := { v_major : Z; v_minor : Z; v_patch : Z; v_pre : list PRVersion; v_build : list str }.
Definition zero_version : Version := {| v_major := 0; v_minor := 0; v_patch := 0; v_pre := []; v_build := [] |}.

Definition NewPRVersion (s : str) : option PRVersion :=
  match s with
  | [] => None
  | _ =>
      if only_numbers s then
        if hasLeadingZeroes s then None
        else match parse_uint s with
             | Some n => Some {| pr_str := []; pr_num := n; pr_isnum := true |}
             | None => None
             end
      else if only_alphanum s then Some {| pr_str := s; pr_num := 0; pr_isnum := false |}
      else None
  end.

(** one numeric component: containsOnly numbers, no leading zeroes, ParseUint *)
Definition parse_component (s : str) : option Z :=
  if negb (only_numbers s) then None
  else if hasLeadingZeroes s then None
  else parse_uint s.

Fixpoint opt_map_all {A B} (f : A -> option B) (l : list A) : option (list B) :=
  match l with
  | [] => Some []
  | x :: t => match f x, opt_map_all f t with
              | Some y, Some r => Some (y :: r)
              | _, _ => None
              end
  end.

Definition check_build (s : str) : option str :=
  match s with [] => None | _ => if only_alphanum s then Some s else None end.

Definition Parse (s : str) : option Version :=
  if Nat.eqb (length s) 0 then None                      (* len(s) == 0 *)
  else
      match splitN 3 [46] s with
      | [p0; p1; p2] =>
          match parse_component p0, parse_component p1 with
          | Some major, Some minor =>
              let '(patchStr, build) :=
                match cut_byte 43 p2 with                       (* '+' *)
                | Some (a, b) => (a, split [46] b)
                | None => (p2, [])
                end in
              let '(patchStr, prerelease) :=
                match cut_byte 45 patchStr with                 (* '-' *)
                | Some (a, b) => (a, split [46] b)
                | None => (patchStr, [])
                end in
              match parse_component patchStr with
              | Some patch =>
                  match opt_map_all NewPRVersion prerelease, opt_map_all check_build build with
                  | Some pre, Some bld =>
                      Some {| v_major := major; v_minor := minor; v_patch := patch; v_pre := pre; v_build := bld |}
                  | _, _ => None
                  end
              | None => None
              end
          | _, _ => None
          end
      | _ => None
      end.

(** Go's string comparison: lexicographic on bytes *)
Definition str_gtb (a b : str) : bool := match bytes_cmp a b with Gt => true | _ => false end.

Definition PRCompare (v o : PRVersion) : Z :=
  if pr_isnum v && negb (pr_isnum o) then -1
  else if negb (pr_isnum v) && pr_isnum o then 1
  else if pr_isnum v && pr_isnum o then
    if pr_num v =? pr_num o then 0 else if pr_num v >? pr_num o then 1 else -1
  else
    if str_eqb (pr_str v) (pr_str o) then 0 else if str_gtb (pr_str v) (pr_str o) then 1 else -1.

(** the  for ; i < len(v.Pre) && i < len(o.Pre); i++  loop and the length comparison after it *)
Fixpoint pre_loop (a b : list PRVersion) : Z :=
  match a, b with
  | x :: a', y :: b' =>
      let comp := PRCompare x y in
      if comp =? 0 then pre_loop a' b' else if comp =? 1 then 1 else -1
  | [], [] => 0
  | [], _ :: _ => -1
  | _ :: _, [] => 1
  end.

Definition Compare (v o : Version) : Z :=
  if negb (v_major v =? v_major o) then (if v_major v >? v_major o then 1 else -1)
  else if negb (v_minor v =? v_minor o) then (if v_minor v >? v_minor o then 1 else -1)
  else if negb (v_patch v =? v_patch o) then (if v_patch v >? v_patch o then 1 else -1)
  else match v_pre v, v_pre o with
       | [], [] => 0
       | [], _ :: _ => 1
       | _ :: _, [] => -1
       | _, _ => pre_loop (v_pre v) (v_pre o)
       end.

(** * range.go *)
Inductive comparator := CEQ | CNE | CGT | CGE | CLT | CLE.

Definition comp_apply (c : comparator) (v1 v2 : Version) : bool :=
  match c with
  | CEQ => Compare v1 v2 =? 0
  | CNE => negb (Compare v1 v2 =? 0)
  | CGT => Compare v1 v2 =? 1
  | CGE => Compare v1 v2 >=? 0
  | CLT => Compare v1 v2 =? -1
  | CLE => Compare v1 v2 <=? 0
  end.

Definition parseComparator (s : str) : option comparator :=
  if str_eqb s [61; 61] || str_eqb s [] || str_eqb s [61] then Some CEQ      (* "==" "" "=" *)
  else if str_eqb s [62] then Some CGT
  else if str_eqb s [62; 61] then Some CGE
  else if str_eqb s [60] then Some CLT
  else if str_eqb s [60; 61] then Some CLE
  else if str_eqb s [33] || str_eqb s [33; 61] then Some CNE                 (* "!" "!=" *)
  else None.

(** the Range closures: versionRange.rangeFunc, Range.AND, Range.OR; a nil Range is [None] *)
Inductive rfn :=
| RCmp (c : comparator) (v : Version)
| RAnd (a b : rfn)
| ROr (a : rfn) (b : option rfn).

(** calling a closure; [None] = nil function call (panic) *)
Fixpoint call_rfn (f : rfn) (v : Version) : option bool :=
  match f with
  | RCmp c w => Some (comp_apply c v w)
  | RAnd a b => match call_rfn a v with
                | Some true => call_rfn b v
                | r => r
                end
  | ROr a b => match call_rfn a v with
               | Some false => match b with Some b' => call_rfn b' v | None => None end
               | r => r
               end
  end.

(** splitAndTrim *)
Definition exclude_from_split (c : Z) : bool := (c =? 62) || (c =? 60) || (c =? 61).

Fixpoint sat_loop (rest s : str) (i last lastChar : Z) (result : list str) : list str * Z :=
  match rest with
  | [] => (result, last)
  | c :: rest' =>
      if (c =? 32) && negb (exclude_from_split lastChar) then
        let result' := if last <? i - 1 then result ++ [sub s last i] else result in
        sat_loop rest' s (i + 1) (i + 1) lastChar result'
      else if negb (c =? 32) then sat_loop rest' s (i + 1) last c result
      else sat_loop rest' s (i + 1) last lastChar result
  end.

Definition splitAndTrim (s : str) : list str :=
  let '(result, last) := sat_loop s s 0 0 0 [] in
  let result := if last <? slen s - 1 then result ++ [sub s last (slen s)] else result in
  map remove_spaces result.

(** splitORParts *)
Definition or_token : str := [124; 124].

Fixpoint or_loop (rest all : list str) (i last : Z) (acc : list (list str)) : res (list (list str) * Z) :=
  match rest with
  | [] => Ok (acc, last)
  | p :: rest' =>
      if str_eqb p or_token then
        if i =? 0 then Err
        else or_loop rest' all (i + 1) (i + 1)
               (acc ++ [firstn (Z.to_nat (i - last)) (skipn (Z.to_nat last) all)])
      else or_loop rest' all (i + 1) last acc
  end.

Definition splitORParts (parts : list str) : res (list (list str)) :=
  x <- or_loop parts parts 0 0 [] ;;
  let '(acc, last) := x in
  if last =? Z.of_nat (length parts) then Err
  else Ok (acc ++ [skipn (Z.to_nat last) parts]).

(** splitComparatorVersion: cut in front of the first digit, trim the operator *)
Fixpoint cut_at_digit (s : str) : option (str * str) :=
  match s with
  | [] => None
  | c :: t => if is_digit c then Some ([], s)
              else match cut_at_digit t with Some (a, b) => Some (c :: a, b) | None => None end
  end.
Definition splitComparatorVersion (s : str) : option (str * str) :=
  match cut_at_digit s with Some (a, b) => Some (trim_space a, b) | None => None end.

(** wildcards *)
Definition x_tok : str := [120].
Definition getWildcardType (vStr : str) : Z :=          (* 0 none, 1 major, 2 minor, 3 patch *)
  let parts := split [46] vStr in
  let nparts := Z.of_nat (length parts) in
  let possible := if (1 <=? nparts) && (nparts <=? 3) then nparts else 0 in
  if str_eqb (last parts []) x_tok then possible else 0.

Definition createVersionFromWildcard (vStr : str) : str :=
  let vStr2 := replace_first [46; 120; 46; 120] [46; 120] vStr in      (* ".x.x" -> ".x" *)
  let vStr2 := replace_first [46; 120] [46; 48] vStr2 in                (* ".x" -> ".0" *)
  if Nat.eqb (length (split [46] vStr2)) 2 then vStr2 ++ [46; 48] else vStr2.

(** strconv.Atoi: optional sign, digits, int64 range *)
Definition atoi (s : str) : option Z :=
  let '(neg, body) := match s with
                      | 45 :: t => (true, t)
                      | 43 :: t => (false, t)
                      | _ => (false, s)
                      end in
  match body with
  | [] => None
  | _ => match parse_digits 0 body with
         | Some n => let v := if neg then - n else n in
                     if (- 2 ^ 63 <=? v) && (v <? 2 ^ 63) then Some v else None
         | None => None
         end
  end.

Definition i64wrap (x : Z) : Z := (x + 2 ^ 63) mod 2 ^ 64 - 2 ^ 63.

Fixpoint set_nth_str (l : list str) (i : nat) (x : str) : list str :=
  match l, i with
  | [], _ => []
  | _ :: t, O => x :: t
  | h :: t, S j => h :: set_nth_str t j x
  end.

(** incrementMajorVersion / incrementMinorVersion: parts[k] = Itoa(Atoi(parts[k]) + 1);
    [Ok ""] stands for the ("", err) that the caller uses with the error dropped; an index out of range panics *)
Definition incrementPart (k : nat) (vStr : str) : res str :=
  let parts := split [46] vStr in
  match nth_error parts k with
  | None => Panic
  | Some p => match atoi p with
              | None => Ok []
              | Some i => Ok (join [46] (set_nth_str parts k (dec_of_Z (i64wrap (i + 1)))))
              end
  end.

(** one element of one AND group of expandWildcardVersion: the (one or two) elements it becomes *)
Definition expand_one (ap : str) : res (list str) :=
  if negb (contains_byte 120 ap) then Ok [ap]
  else
    match splitComparatorVersion ap with
    | None => Err
    | Some (opStr, vStr) =>
        let wt := getWildcardType vStr in
        let flat := createVersionFromWildcard vStr in
        let '(extra, resultOperator, inc) :=
          if str_eqb opStr [62] then ([], [62; 61], true)                                  (* ">"  *)
          else if str_eqb opStr [62; 61] then ([], [62; 61], false)                        (* ">=" *)
          else if str_eqb opStr [60] then ([], [60], false)                                (* "<"  *)
          else if str_eqb opStr [60; 61] then ([], [60], true)                             (* "<=" *)
          else if str_eqb opStr [] || str_eqb opStr [61] || str_eqb opStr [61; 61]
               then ([[62; 61] ++ flat], [60], true)                                       (* "", "=", "==" *)
          else if str_eqb opStr [33; 61] || str_eqb opStr [33]
               then ([[60] ++ flat], [62; 61], true)                                       (* "!=", "!" *)
          else ([], [], false) in
        resultVersion <- (if inc then
                            if wt =? 3 then incrementPart 1 flat
                            else if wt =? 2 then incrementPart 0 flat
                            else Ok []
                          else Ok flat) ;;
        Ok (extra ++ [resultOperator ++ resultVersion])
    end.

Fixpoint res_map_all {A B} (f : A -> res B) (l : list A) : res (list B) :=
  match l with
  | [] => Ok []
  | x :: t => y <- f x ;; r <- res_map_all f t ;; Ok (y :: r)
  end.

Definition expandWildcardVersion (parts : list (list str)) : res (list (list str)) :=
  res_map_all (fun p => l <- res_map_all expand_one p ;; Ok (concat l)) parts.

(** buildVersionRange after splitComparatorVersion *)
Definition parse_ap (ap : str) : res (comparator * Version) :=
  match splitComparatorVersion ap with
  | None => Err
  | Some (opStr, vStr) =>
      match parseComparator opStr, Parse vStr with
      | Some c, Some v => Ok (c, v)
      | _, _ => Err
      end
  end.

(** the parsed groups of a range: a disjunction of conjunctions of (comparator, version) *)
Definition groups : Type := list (list (comparator * Version)).

Definition range_groups (s : str) : res groups :=
  let parts := splitAndTrim s in
  orParts <- splitORParts parts ;;
  expanded <- expandWildcardVersion orParts ;;
  res_map_all (res_map_all parse_ap) expanded.

(** the closure building loops of ParseRange *)
Fixpoint and_loop (g : list (comparator * Version)) (andFn : option rfn) : option rfn :=
  match g with
  | [] => andFn
  | (c, v) :: g' =>
      let rf := RCmp c v in
      and_loop g' (match andFn with None => Some rf | Some f => Some (RAnd f rf) end)
  end.

Fixpoint or_fn_loop (gs : groups) (orFn : option rfn) : option rfn :=
  match gs with
  | [] => orFn
  | g :: gs' =>
      let andFn := and_loop g None in
      or_fn_loop gs' (match orFn with None => andFn | Some f => Some (ROr f andFn) end)
  end.

(** ParseRange: [Ok None] would be a nil Range returned without error *)
Definition ParseRange (s : str) : res (option rfn) :=
  gs <- range_groups s ;; Ok (or_fn_loop gs None).
