(** Model of /repo/bitmap/join.go (Join), get.go (Getw), slice.go (Slice):
    same loops, same index arithmetic; [<<] on uint64 is [shl64] (wraps),
    [& ^63] is [Z.land _ (-64)].  Arithmetic on int/int32 is unbounded [Z]
    (no overflow while 64*len < 2^31, the size hypothesis of every theorem). *)
From Coq Require Import ZArith List Bool.
From Low Require Import Lib.MachInt Lib.Bits Lib.BitSeq Model.BitmapUtil.
Import ListNotations.
Open Scope Z_scope.

(** [for i, e := range subs { j := i*size; r[j>>6] |= (e & Mask[size]) << uint(j&63) }] *)
Fixpoint Join_loop (subs : list Z) (i size : Z) (r : list Z) : option (list Z) :=
  match subs with
  | [] => Some r
  | e :: t =>
      let j := i * size in
      if (size <? 0) || (64 <? size) then None          (* Mask[size]: index out of range *)
      else match or_at r (Z.shiftr j 6) (shl64 (Z.land e (Mask size)) (Z.land j 63)) with
           | None => None
           | Some r' => Join_loop t (i + 1) size r'
           end
  end.

Definition Join (subs : list Z) (size : Z) : option (list Z) :=
  let l := size * zlen subs in
  match make_words (Z.shiftr (Z.land (l + 63) (-64)) 6) with
  | None => None
  | Some r => Join_loop subs 0 size r
  end.

(** [i *= w; return (bm[i>>6] >> uint(i&63)) & Mask[w]] *)
Definition Getw (bm : list Z) (i w : Z) : option Z :=
  let i := i * w in
  match nthZ bm (Z.shiftr i 6) with
  | None => None
  | Some word =>
      if (w <? 0) || (64 <? w) then None                (* Mask[w]: index out of range *)
      else Some (Z.land (shr64 word (Z.land i 63)) (Mask w))
  end.

(** [for i := from; i < to; i++ { if words[i>>6]&(1<<uint(i&63)) != 0 { j := i-from; r[j>>6] |= 1<<uint(j&63) } }] *)
Fixpoint Slice_loop (fuel : nat) (words : list Z) (from i to : Z) (r : list Z) {struct fuel} : option (list Z) :=
  if i <? to then
    match fuel with
    | O => None
    | S f =>
        match nthZ words (Z.shiftr i 6) with
        | None => None
        | Some w =>
            if Z.land w (shl64 1 (Z.land i 63)) =? 0 then Slice_loop f words from (i + 1) to r
            else
              let j := i - from in
              match or_at r (Z.shiftr j 6) (shl64 1 (Z.land j 63)) with
              | None => None
              | Some r' => Slice_loop f words from (i + 1) to r'
              end
        end
    end
  else Some r.

Definition Slice (words : list Z) (from to : Z) : option (list Z) :=
  let l := Z.land (to - from + 63) (-64) in
  match make_words (Z.shiftr l 6) with
  | None => None
  | Some r => Slice_loop (Z.to_nat (to - from)) words from from to r
  end.
