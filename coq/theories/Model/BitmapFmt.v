(** Model of /repo/bitmap/fmt.go: [Fmt], [intFmt], [intSize].
    A Go value handed to [Fmt] is described by (kind, is_slice, values):
    kind 0..7 = int8, uint8, int16, uint16, int32, uint32, int64, uint64; any
    other kind stands for a non-integer type (the harness uses [string]), for
    which [intSize] panics.  Strings are byte lists.  [uint64(i)] of a signed
    value is its two's complement ([u64]).  [math/bits.Reverse8],
    [fmt.Sprintf("%08b", _)] and [strings.Join] are Go's library, restated here. *)
From Coq Require Import ZArith List Bool.
From Low Require Import Lib.MachInt Lib.Bits Lib.BitSeq Lib.Lex Lib.Bytes Model.BitmapMask.
Import ListNotations.
Open Scope Z_scope.

(** [math/bits.Reverse8] *)
Definition rev8 (b : Z) : Z := val_msb (bits 8 b).

(** [fmt.Sprintf("%08b", c)] for a uint8: 8 binary digits, most significant first; '0' = 48, '1' = 49 *)
Definition fmt08b (c : Z) : list Z := map (fun b : bool => if b then 49 else 48) (byte_bits c).

(** [strings.Join(l, sep)] *)
Fixpoint strings_Join (l : list (list Z)) (sep : list Z) : list Z :=
  match l with
  | [] => []
  | x :: t => match t with [] => x | _ => x ++ sep ++ strings_Join t sep end
  end.

(** [intSize]: byte size of the integer types; [None] = panic("not a int type") *)
Definition intSize (kind : Z) : option Z :=
  if (kind =? 0) || (kind =? 1) then Some 1
  else if (kind =? 2) || (kind =? 3) then Some 2
  else if (kind =? 4) || (kind =? 5) then Some 4
  else if (kind =? 6) || (kind =? 7) then Some 8
  else None.

(** [for i := 0; i < sz; i++ { b := uint8(v >> uint(i*8)); rst = append(rst, Sprintf("%08b", Reverse8(b))) };
     return strings.Join(rst, " ")] *)
Definition intFmt (kind : Z) (x : Z) : option (list Z) :=
  match intSize kind with
  | None => None
  | Some sz =>
      let v := u64 x in
      Some (strings_Join (map (fun i => fmt08b (rev8 (u8 (shr64 v (i * 8))))) (idx (Z.to_nat sz))) [32])
  end.

Fixpoint all_fmt (kind : Z) (vals : list Z) : option (list (list Z)) :=
  match vals with
  | [] => Some []
  | x :: t => match intFmt kind x with
              | None => None
              | Some s => match all_fmt kind t with None => None | Some r => Some (s :: r) end
              end
  end.

(** [if v.Kind() == reflect.Slice { for i < n { rst = append(rst, intFmt(v.Index(i))) }; return Join(rst, ",") }
     else { return intFmt(x) }] *)
Definition Fmt (kind : Z) (is_slice : bool) (vals : list Z) : option (list Z) :=
  if is_slice then
    match all_fmt kind vals with
    | None => None
    | Some rst => Some (strings_Join rst [44])
    end
  else match vals with
       | [x] => intFmt kind x
       | _ => None          (* not a call the harness makes *)
       end.
