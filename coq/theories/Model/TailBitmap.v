(** Model of /repo/bitmap/tailbitmap.go (same algorithm, same loops).

    Arithmetic is unbounded [Z] (DESIGN section 3: bitmap code); the harness
    only generates offsets and indices far inside int64, where Go's int64
    arithmetic [idx - Offset], [Offset += 64] cannot overflow.  A [uint64]
    word is a [Z] in [0, 2^64).  An index out of range of [Words] (the only
    way these methods can panic) is [None]. *)
From Coq Require Import ZArith List Bool.
From Low Require Import Lib.MachInt Lib.Bits Lib.BitSeq.
Import ListNotations.
Open Scope Z_scope.

Record tb : Type := mkTB {
  Offset    : Z;        (* exported: bits below are implicitly 1; a multiple of 64 *)
  Words     : list Z;   (* exported: the explicit tail, starting at Offset *)
  reclaimed : Z         (* unexported: Offset at the last "reallocation" *)
}.

(** [var reclaimThreshold = int64(1024) * 64] *)
Definition reclaimThreshold : Z := 1024 * 64.

(** [allOnes := uint64(0xffffffffffffffff)] *)
Definition allOnes : Z := 2^64 - 1.

(** [NewTailBitmap(offset)]: Offset = reclaimed = offset, Words empty
    (capacity is not an observable). *)
Definition NewTailBitmap (offset : Z) : tb := mkTB offset [] offset.

(** [for len(tb.Words) > 0 && tb.Words[0] == allOnes { tb.Offset += 64; tb.Words = tb.Words[1:] }] *)
Fixpoint compact_loop (off : Z) (ws : list Z) : Z * list Z :=
  match ws with
  | w :: t => if w =? allOnes then compact_loop (off + 64) t else (off, ws)
  | [] => (off, [])
  end.

(** [Compact]: the loop, then the reclaim bookkeeping.  In the current code
    the branch allocates [newWords], copies [Words] into it and then DROPS it
    (it is never installed in [tb.Words]); the only effect is
    [tb.reclaimed = tb.Offset].  The model mirrors exactly that. *)
Definition Compact (s : tb) : tb :=
  let (off, ws) := compact_loop (Offset s) (Words s) in
  if off - reclaimed s >=? reclaimThreshold then
    let l := zlen ws in
    (* newWords := make([]uint64, l, l*2); copy(newWords, tb.Words) *)
    let newWords := firstn (Z.to_nat l) ws in   (* built, never installed *)
    mkTB off ws off
  else
    mkTB off ws (reclaimed s).

(** [tb.Words[i] = f(tb.Words[i])]; [None] when i is out of range *)
Fixpoint update_nth (i : nat) (f : Z -> Z) (ws : list Z) : option (list Z) :=
  match ws, i with
  | [], _ => None
  | w :: t, O => Some (f w :: t)
  | w :: t, S k => match update_nth k f t with Some t' => Some (w :: t') | None => None end
  end.

Definition updateZ (i : Z) (f : Z -> Z) (ws : list Z) : option (list Z) :=
  if i <? 0 then None else update_nth (Z.to_nat i) f ws.

(** [for int(wordIdx) >= len(tb.Words) { tb.Words = append(tb.Words, 0) }] :
    nothing when [wordIdx] is already inside [Words] (the loop condition is false at once; tested by
    indexing, which costs O(wordIdx) instead of O(len) in the extracted model), otherwise zeros are
    appended until [len(Words) = wordIdx + 1]. *)
Definition grow (ws : list Z) (wordIdx : Z) : list Z :=
  match nthZ ws wordIdx with
  | Some _ => ws
  | None => ws ++ repeat 0 (Z.to_nat (wordIdx + 1 - zlen ws))
  end.

(** [Set(idx)] *)
Definition Set_ (s : tb) (idx : Z) : option tb :=
  if idx <? Offset s then Some s
  else
    let idx := idx - Offset s in
    let wordIdx := Z.shiftr idx 6 in
    let ws := grow (Words s) wordIdx in
    match updateZ wordIdx (fun w => Z.lor w (Bit (Z.land idx 63))) ws with
    | None => None
    | Some ws' =>
        let s' := mkTB (Offset s) ws' (reclaimed s) in
        if wordIdx =? 0 then Some (Compact s') else Some s'
    end.

(** [Get(idx)] *)
Definition Get (s : tb) (idx : Z) : option Z :=
  if idx <? Offset s then Some (Bit (Z.land idx 63))
  else
    let idx := idx - Offset s in
    match nthZ (Words s) (Z.shiftr idx 6) with
    | Some w => Some (Z.land w (Bit (Z.land idx 63)))
    | None => None
    end.

(** [Get1(idx)] *)
Definition Get1 (s : tb) (idx : Z) : option Z :=
  if idx <? Offset s then Some 1
  else
    let idx := idx - Offset s in
    match nthZ (Words s) (Z.shiftr idx 6) with
    | Some w => Some (Z.land (Z.shiftr w (Z.land idx 63)) 1)
    | None => None
    end.

(** One call of a history.  [step] returns the new state and the call's
    result (0 for the procedures [Set] and [Compact]). *)
Inductive op : Type :=
| OSet (idx : Z)
| OCompact
| OGet (j : Z)
| OGet1 (j : Z).

Definition step (s : tb) (o : op) : option (tb * Z) :=
  match o with
  | OSet idx => match Set_ s idx with Some s' => Some (s', 0) | None => None end
  | OCompact => Some (Compact s, 0)
  | OGet j => match Get s j with Some r => Some (s, r) | None => None end
  | OGet1 j => match Get1 s j with Some r => Some (s, r) | None => None end
  end.

(** a whole history: the final state and the result of every call *)
Fixpoint run (s : tb) (ops : list op) : option (tb * list Z) :=
  match ops with
  | [] => Some (s, [])
  | o :: t =>
      match step s o with
      | None => None
      | Some (s', r) =>
          match run s' t with
          | None => None
          | Some (s'', rs) => Some (s'', r :: rs)
          end
      end
  end.

(** The harness's bulk operations (used to cross the reclaim threshold with a
    short case line): [for idx := from; idx < from+n; idx++ { tb.Set(idx) }]
    and [for idx := hi-1; idx >= hi-n; idx-- { tb.Set(idx) }].  They are
    nothing but iterated [Set_] (proved equal to [run] over the explicit
    [OSet] list in Proofs/TailBitmapProofs.v). *)
Fixpoint set_up (n : nat) (s : tb) (idx : Z) : option tb :=
  match n with
  | O => Some s
  | S k => match Set_ s idx with Some s' => set_up k s' (idx + 1) | None => None end
  end.

Fixpoint set_down (n : nat) (s : tb) (idx : Z) : option tb :=
  match n with
  | O => Some s
  | S k => match Set_ s idx with Some s' => set_down k s' (idx - 1) | None => None end
  end.
