(** Model of /repo/bitmap/rank.go (same algorithms, same loop structure).
    Arithmetic is unbounded [Z]; the theorems carry the size hypothesis under
    which Go's int32 cannot overflow. *)
From Coq Require Import ZArith List Bool.
From Low Require Import Lib.MachInt Lib.Bits Lib.BitSeq.
Import ListNotations.
Open Scope Z_scope.

(** [for i := 0; i < len(words); i++ { idx[i] = n; n += OnesCount64(words[i]) }] *)
Fixpoint IndexRank64_loop (ws : list Z) (n : Z) : list Z * Z :=
  match ws with
  | [] => ([], n)
  | w :: t => let (r, tot) := IndexRank64_loop t (n + popcount w) in (n :: r, tot)
  end.

Definition IndexRank64 (ws : list Z) (trailing : bool) : list Z :=
  let (idx, n) := IndexRank64_loop ws 0 in
  if trailing then idx ++ [n] else idx.

(** [for i := 0; i < len(words); i += 2 { idx = append(idx, n); n += pop(words[i]);
       if i < len(words)-1 { n += pop(words[i+1]) } }] *)
Fixpoint IndexRank128_loop (ws : list Z) (n : Z) : list Z * Z :=
  match ws with
  | [] => ([], n)
  | [w] => ([n], n + popcount w)
  | w0 :: w1 :: t =>
      let (r, tot) := IndexRank128_loop t (n + popcount w0 + popcount w1) in (n :: r, tot)
  end.

Definition IndexRank128 (ws : list Z) : list Z :=
  let (idx, n) := IndexRank128_loop ws 0 in
  if Z.land (zlen ws) 1 =? 0 then idx ++ [n] else idx.

Definition Rank64 (ws rindex : list Z) (i : Z) : option (Z * Z) :=
  let wordI := Z.shiftr i 6 in
  let j := Z.land i 63 in
  match nthZ rindex wordI, nthZ ws wordI with
  | Some n, Some w => Some (n + popcount (Z.land w (Mask j)), Z.land (Z.shiftr w j) 1)
  | _, _ => None
  end.

Definition Rank128 (ws rindex : list Z) (i : Z) : option (Z * Z) :=
  let wordI := Z.shiftr i 6 in
  let j := Z.land i 63 in
  let atRight := Z.land wordI 1 in
  match nthZ rindex (Z.shiftr (i + 64) 7), nthZ ws wordI with
  | Some n, Some w =>
      let cnt1 := popcount w in
      Some (n - atRight * cnt1 + popcount (Z.land w (Mask j)), Z.land (Z.shiftr w j) 1)
  | _, _ => None
  end.
