(** Model of /repo/sigbits: firstdiff.go, countprefixes.go, sigbits.go,
    sigbits_countprefixes.go, sharding.go.

    Executable Gallina re-statement of the Go functions, same loops, same
    case splits.  Strings are [list Z] (bytes), [int]/[int32] values are
    unbounded [Z] (the theorems carry the size hypotheses under which Go cannot
    overflow); a panic (index out of range, negative make, slice bounds) and
    fuel exhaustion are [None].  No proofs in this file. *)
From Coq Require Import ZArith List Bool.
From Low Require Import Lib.MachInt Lib.Bits Lib.BitSeq.
Import ListNotations.
Open Scope Z_scope.

(** * firstdiff.go *)

(** [bs := make([]byte, 8); copy(bs, s)] *)
Definition pad8 (s : list Z) : list Z := firstn 8 (s ++ repeat 0 8).

(** [(uint64(s[0]) << 56) + (uint64(s[1]) << 48) + ... + uint64(s[7])]
    for a string with at least 8 bytes; every summand is a byte shifted inside
    the word, so nothing wraps *)
Definition be64 (s : list Z) : Z :=
  nth 0 s 0 * 2^56 + nth 1 s 0 * 2^48 + nth 2 s 0 * 2^40 + nth 3 s 0 * 2^32 +
  nth 4 s 0 * 2^24 + nth 5 s 0 * 2^16 + nth 6 s 0 * 2^8 + nth 7 s 0.

Definition get64Bits (s : list Z) : Z :=
  if 8 <=? zlen s then be64 s else be64 (pad8 s).

(** the chunk loop of sFirstDiffBit:
    [for i := 0; i < la && i < lb; i += 8 { ... }; return minl] *)
Fixpoint sfd_loop (fuel : nat) (a b : list Z) (la lb minl i : Z) : option Z :=
  match fuel with
  | O => None
  | S fuel' =>
      if (i <? la) && (i <? lb) then
        let au := get64Bits (skipn (Z.to_nat i) a) in
        let bu := get64Bits (skipn (Z.to_nat i) b) in
        let first := lz64 (Z.lxor au bu) in
        if first <? 64 then
          let first := i * 8 + first in      (* i<<3 + first *)
          if first <? minl then Some first else Some minl
        else sfd_loop fuel' a b la lb minl (i + 8)
      else Some minl
  end.

Definition sFirstDiffBit (a b : list Z) : option Z :=
  let la := zlen a in
  let lb := zlen b in
  let l1 := la * 8 in
  let l2 := lb * 8 in
  let minl := if l1 >? l2 then l2 else l1 in
  sfd_loop (S (length a)) a b la lb minl 0.

(** [for i := 0; i < l-1; i++ { ds[i] = sFirstDiffBit(keys[i], keys[i+1]) }] *)
Fixpoint fdb_loop (keys : list (list Z)) : option (list Z) :=
  match keys with
  | a :: ((b :: _) as t) =>
      match sFirstDiffBit a b, fdb_loop t with
      | Some d, Some ds => Some (d :: ds)
      | _, _ => None
      end
  | _ => Some []
  end.

(** [make([]int32, l-1)] panics for [l = 0] *)
Definition FirstDiffBits (keys : list (list Z)) : option (list Z) :=
  if zlen keys - 1 <? 0 then None else fdb_loop keys.

(** * countprefixes.go *)

(** [counts[d]++]; [None] when [d] is outside the slice *)
Fixpoint incr_at (l : list Z) (n : nat) : option (list Z) :=
  match l, n with
  | [], _ => None
  | x :: t, O => Some ((x + 1) :: t)
  | x :: t, S n' => match incr_at t n' with Some t' => Some (x :: t') | None => None end
  end.

Definition incr_atZ (l : list Z) (d : Z) : option (list Z) :=
  if d <? 0 then None else incr_at l (Z.to_nat d).

Definition cp_min (firstdiffs : list Z) : Z :=
  fold_left (fun min d => if min >? d then d else min) firstdiffs 2147483647.

(** [for _, d := range firstdiffs { d -= min; if d < maxitem-1 { counts[d]++ } }] *)
Fixpoint cp_hist (firstdiffs : list Z) (min maxitem : Z) (counts : list Z) : option (list Z) :=
  match firstdiffs with
  | [] => Some counts
  | d :: t =>
      let d := d - min in
      if d <? maxitem - 1 then
        match incr_atZ counts d with
        | Some counts' => cp_hist t min maxitem counts'
        | None => None
        end
      else cp_hist t min maxitem counts
  end.

(** [rst[0] = 1; for i := 0; i < maxitem-1; i++ { rst[i+1] = rst[i] + counts[i] }],
    [last] is [rst[i]] *)
Fixpoint cp_sums (last : Z) (counts : list Z) : list Z :=
  last :: match counts with
          | [] => []
          | c :: t => cp_sums (last + c) t
          end.

Definition countPrefixes (firstdiffs : list Z) (maxitem : Z) : option (Z * list Z) :=
  let min := cp_min firstdiffs in
  if maxitem - 1 <? 0 then None            (* make([]int32, maxitem-1) *)
  else
    let counts := repeat 0 (Z.to_nat (maxitem - 1)) in
    match cp_hist firstdiffs min maxitem counts with
    | None => None
    | Some counts => Some (min, cp_sums 1 counts)   (* len(rst) = maxitem = len(counts)+1 *)
    end.

(** * sigbits.go, sigbits_countprefixes.go *)

Record SigBits := { sb_keys : list (list Z); sb_sigbits : list Z }.

Definition New (keys : list (list Z)) : option SigBits :=
  match FirstDiffBits keys with
  | Some ds => Some {| sb_keys := keys; sb_sigbits := ds |}
  | None => None
  end.

(** the slice expression [l[lo:hi]] of a slice with [cap = len] *)
Definition sliceZ {A} (l : list A) (lo hi : Z) : option (list A) :=
  if (0 <=? lo) && (lo <=? hi) && (hi <=? zlen l)
  then Some (firstn (Z.to_nat (hi - lo)) (skipn (Z.to_nat lo) l))
  else None.

Definition CountPrefixes (sb : SigBits) (keyStart keyEnd maxitem : Z) : option (Z * list Z) :=
  match sliceZ (sb_sigbits sb) keyStart (keyEnd - 1) with
  | Some fds => countPrefixes fds maxitem
  | None => None
  end.

(** * sharding.go *)

(** the index values of [for i := s; i < e-1; i++] *)
Definition idx_range (s e : Z) : list Z :=
  map (fun k => s + Z.of_nat k) (seq 0 (Z.to_nat (e - 1 - s))).

(** [min := len(keys[s]); for i := s; i < e-1; i++ { if min > firstDiffs[i]>>3 { min = firstDiffs[i]>>3 } }] *)
Fixpoint shard_min (firstDiffs : list Z) (is : list Z) (min : Z) : option Z :=
  match is with
  | [] => Some min
  | i :: t =>
      match nthZ firstDiffs i with
      | None => None
      | Some d =>
          let p := sar32 d 3 in
          shard_min firstDiffs t (if min >? p then p else min)
      end
  end.

(** the split loop: [longest] and [endsAt] *)
Fixpoint shard_split (firstDiffs : list Z) (is : list Z) (longest : Z) (endsAt : list Z)
  : option (Z * list Z) :=
  match is with
  | [] => Some (longest, endsAt)
  | i :: t =>
      match nthZ firstDiffs i with
      | None => None
      | Some d =>
          let prefixLen := sar32 d 3 in
          if prefixLen <? longest then
            shard_split firstDiffs t prefixLen [i + 1]        (* endsAt = endsAt[0:0]; append *)
          else if prefixLen =? longest then
            shard_split firstDiffs t longest (endsAt ++ [i + 1])
          else shard_split firstDiffs t longest endsAt
      end
  end.

(** the state mutated by the closure: (prefixes, keyCnts) *)
Definition shard_out := (list Z * list Z)%type.

Section Dfs.
  Variable keys : list (list Z).
  Variable firstDiffs : list Z.
  Variable maxSize : Z.

  (** [for i := 0; i < len(endsAt); i++ { end := endsAt[i]; dfs(s, end); s = end }] *)
  Fixpoint dfs_each (dfs : Z -> Z -> shard_out -> option shard_out)
           (endsAt : list Z) (s : Z) (st : shard_out) : option shard_out :=
    match endsAt with
    | [] => Some st
    | e :: t =>
        match dfs s e st with
        | None => None
        | Some st' => dfs_each dfs t e st'
        end
    end.

  Fixpoint dfs (fuel : nat) (s e : Z) (st : shard_out) : option shard_out :=
    match fuel with
    | O => None
    | S fuel' =>
        match nthZ keys s with
        | None => None                                   (* keys[s] *)
        | Some ks =>
            if e - s <=? maxSize then
              match shard_min firstDiffs (idx_range s e) (zlen ks) with
              | None => None
              | Some min => Some (fst st ++ [min], snd st ++ [e])
              end
            else
              match shard_split firstDiffs (idx_range s e) (zlen ks) [] with
              | None => None
              | Some (_, endsAt) => dfs_each (dfs fuel') (endsAt ++ [e]) s st
              end
        end
    end.
End Dfs.

Definition ShardByPrefix (keys : list (list Z)) (maxSize : Z) : option (list Z * list Z) :=
  match FirstDiffBits keys with
  | None => None
  | Some firstDiffs =>
      let n := zlen firstDiffs + 1 in
      dfs keys firstDiffs maxSize (S (length keys)) 0 n ([], [0])
  end.
