(** Model of the harness's in-memory file (harness/c18w.go: c18File), the
    io.WriterAt / io.ReaderAt over which the widened C18 operations run the
    real iohelper code.  It is NOT code of the repository: it is the mock the
    harness supplies, given here a definitional model (trusted base; exercised
    by every correspondence run).

    A file is its content, a byte list.  Reading beyond the end finds nothing;
    writing beyond the end first fills the gap with zeros (like a sparse file).

    Fault scripts as in Model/SectionWriter.v: a response (k, e) makes the next
    WriteAt store only the first min k len(p) bytes and return (that count, e);
    it makes the next ReadAt deliver only the first k of the bytes it would have
    delivered and return error class e.  An exhausted script: WriteAt stores
    everything; ReadAt delivers what exists and returns io.EOF iff that is
    less than requested.

    Error classes: 0 nil, 1 io.ErrShortWrite, 2 the mock's own error, 5 io.EOF. *)
From Coq Require Import ZArith List Bool.
From Low Require Import Lib.BitSeq Model.SectionWriter.
Import ListNotations.
Open Scope Z_scope.

Definition E_eof : Z := 5.

(** the content, zero-filled up to length n *)
Definition pad (f : list Z) (n : Z) : list Z := f ++ repeat 0 (Z.to_nat (n - zlen f)).

(** store [bs] at offset [off] (an empty write changes nothing, not even the length) *)
Definition write_at (f : list Z) (off : Z) (bs : list Z) : list Z :=
  match bs with
  | [] => f
  | _ => firstn (Z.to_nat off) (pad f off) ++ bs ++ skipn (Z.to_nat (off + zlen bs)) f
  end.

(** the byte at position i; nothing (0) beyond the end *)
Definition byte_at (f : list Z) (i : Z) : Z := nth (Z.to_nat i) f 0.

(** ReadAt(p, off) with len(p) = len: bytes delivered, error class, remaining script *)
Definition read_at (f : list Z) (script : list resp) (len off : Z) : (list Z * Z) * list resp :=
  let got := if off <? zlen f then firstn (Z.to_nat len) (skipn (Z.to_nat off) f) else [] in
  match script with
  | [] => ((got, if zlen got <? len then E_eof else E_nil), [])
  | (k, e) :: t => ((firstn (Z.to_nat (Z.min k (zlen got))) got, e), t)
  end.

(** the file after the underlying calls of one SectionWriter call result: the
    scripted mock stored the first [count returned] bytes of what it received *)
Definition apply_ucall (cnt : Z) (f : list Z) (u : ucall) : list Z :=
  write_at f (fst u) (firstn (Z.to_nat cnt) (snd u)).

Definition apply_out (f : list Z) (r : out) : list Z :=
  fold_left (apply_ucall (nth 0 (rets r) 0)) (ucalls r) f.

Definition file_after (init : list Z) (outs : list out) : list Z := fold_left apply_out outs init.
