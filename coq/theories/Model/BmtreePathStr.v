(** Model of /repo/bmtree/pathstr.go (PathStr) and of the one [fmt] verb it
    uses, [%0[1]*[2]b]: the binary numeral of an unsigned integer, left-padded
    with '0' to the given width.  [fmt] is Go's library, not repo code: it is
    given the simplest definitional model (trusted base; exercised by the
    correspondence of C10 on every run). *)
From Coq Require Import ZArith List Bool.
From Low Require Import Lib.MachInt Lib.Bits Lib.BitSeq Model.BmtreePath.
Import ListNotations.
Open Scope Z_scope.

(** binary digits of [u], least significant first, as ASCII codes ('0' = 48);
    at least one digit.  Fuel = number of digits available (64 for a uint64). *)
Fixpoint bin_digits (fuel : nat) (u : Z) : list Z :=
  match fuel with
  | O => []
  | S f => if u <? 2 then [48 + u] else (48 + u mod 2) :: bin_digits f (u / 2)
  end.

(** [fmt.Sprintf("%0*b", width, u)] for [u : uint64] *)
Definition fmt_0b (width u : Z) : list Z :=
  let d := bin_digits 64 u in
  rev (d ++ repeat 48 (Z.to_nat (width - zlen d))).

(** PathStr:
<<
	treeHeight := PathHeight(path)
	l := PathLen(path)
	if l == 0 { return "" }
	return fmt.Sprintf("%0[1]*[2]b", l, path>>uint(32+treeHeight-l))
>> *)
Definition PathStr (path : Z) : list Z :=
  let treeHeight := PathHeight path in
  let l := PathLen path in
  if l =? 0 then [] else fmt_0b l (shr64 path (32 + treeHeight - l)).
