(** Model of the three UNEXPORTED select helpers of /repo/bitmap/select.go (reached by the harness
    through the add-only hook file bitmap/verif_export.go, build tag "verif"):

      select32single    the single-result variant of Select32
      indexSelectU64    8 cumulative byte popcounts of one word, packed into a uint64
      selectU64Indexed  select inside one word using that packed index

    Same algorithms, same loops, same table ([Model.Select.select8Lookup]).  The two uint64
    helpers are modelled with Go's uint64 arithmetic made explicit ([u64] after every [+ - *],
    [shr64] for shifts by a variable count, which give 0 for counts >= 64 — the code relies on
    that for [uint(ithU8-8)] when [ithU8 = 0]).  [select32single] uses unbounded [Z] positions
    like the model of Select32 (the theorems carry [64 * len(words) < 2^31]).  A slice / array
    read out of range and fuel exhaustion are [None].  No proofs here. *)
From Coq Require Import ZArith List Bool.
From Low Require Import Lib.MachInt Lib.Bits Lib.BitSeq Model.Select.
Import ListNotations.
Open Scope Z_scope.

(** * select32single

    the in-word part, entered when [ones > findIth]:
      [ones = OnesCount64(w & 0xffffffff); if ones <= findIth { findIth -= ones; base += 32; w >>= 32 }]
      [ones = OnesCount64(w & 0xffff);     if ones <= findIth { findIth -= ones; base += 16; w >>= 16 }]
      [ones = OnesCount64(w & 0xff);       if ones <= findIth { findIth -= ones; base += 8;  w >>= 8 }]
      [return base + int32(select8Lookup[(w&0xff)<<3 + uint64(findIth)])]
    (three halvings and ONE table-index expression; Select32 has two halvings and two expressions) *)
Definition single_in_word (w findIth base : Z) : option Z :=
  let ones := popcount (Z.land w 4294967295) in
  let '(findIth, base, w) :=
    if ones <=? findIth then (findIth - ones, base + 32, shr64 w 32) else (findIth, base, w) in
  let ones := popcount (Z.land w 65535) in
  let '(findIth, base, w) :=
    if ones <=? findIth then (findIth - ones, base + 16, shr64 w 16) else (findIth, base, w) in
  let ones := popcount (Z.land w 255) in
  let '(findIth, base, w) :=
    if ones <=? findIth then (findIth - ones, base + 8, shr64 w 8) else (findIth, base, w) in
  match nthZ select8Lookup (u64 (Z.shiftl (Z.land w 255) 3 + findIth)) with
  | Some v => Some (base + v)
  | None => None
  end.

(** [for { ones := OnesCount64(w)
          if ones > findIth { ... return } else { findIth -= ones }
          base += 64; wordI++; if wordI >= l { return l * 64 }; w = words[wordI] }] *)
Fixpoint select32single_loop (fuel : nat) (ws : list Z) (l wordI base w findIth : Z) : option Z :=
  let ones := popcount w in
  if findIth <? ones then single_in_word w findIth base
  else
    let findIth := findIth - ones in
    let base := base + 64 in
    let wordI := wordI + 1 in
    if l <=? wordI then Some (l * 64)
    else
      match fuel with
      | O => None
      | S f =>
          match nthZ ws wordI with
          | None => None
          | Some w' => select32single_loop f ws l wordI base w' findIth
          end
      end.

Definition select32single (ws sidx : list Z) (i : Z) : option Z :=
  if i <? 0 then Some (-1)
  else if zlen sidx <=? Z.shiftr i 5 then Some (zlen ws * 64)
  else
    match nthZ sidx (Z.shiftr i 5) with
    | None => None
    | Some base =>
        let findIth := Z.land i 31 in
        if findIth =? 0 then Some base
        else
          let l := zlen ws in
          let wordI := Z.shiftr base 6 in
          match nthZ ws wordI with
          | None => None
          | Some w =>
              (* remove the 1-bits below the checkpoint *)
              let w := Z.land w (not64 (Mask (Z.land base 63))) in
              let base := Z.shiftl wordI 6 in
              select32single_loop (length ws) ws l wordI base w findIth
          end
    end.

(** * indexSelectU64

    [all1 := ^uint64(0); mask01 := all1 / 3; mask0011 := all1 / 5; mask00001111 := all1 / 0x11]
    [a := w - ((w >> 1) & mask01)]
    [b := (a & mask0011) + ((a >> 2) & mask0011)]
    [c := (b + (b >> 4)) & mask00001111]
    [c *= 0x0101010101010101]           (wraps: the high partial sums fall off the top)
    [return c | 0x8080808080808080] *)
Definition all1_64 : Z := 2 ^ 64 - 1.
Definition mask01 : Z := all1_64 / 3.
Definition mask0011 : Z := all1_64 / 5.
Definition mask00001111 : Z := all1_64 / 17.
Definition ones_bytes : Z := 72340172838076673.      (* 0x0101010101010101 *)
Definition high_bits : Z := 9259542123273814144.    (* 0x8080808080808080 *)

Definition indexSelectU64 (w : Z) : Z :=
  let a := u64 (w - Z.land (Z.shiftr w 1) mask01) in
  let b := u64 (Z.land a mask0011 + Z.land (Z.shiftr a 2) mask0011) in
  let c := Z.land (u64 (b + Z.shiftr b 4)) mask00001111 in
  let c := u64 (c * ones_bytes) in
  Z.lor c high_bits.

(** * selectU64Indexed

    [v := (findIth + 1) * 0x0101010101010101]
    [biggerBits := (index - v) & 0x8080808080808080]
    [ithU8 := bits.TrailingZeros64(biggerBits) & (^7)]                      (an [int]; 64 when biggerBits = 0)
    [findIth = findIth - (index>>uint(ithU8-8))&0x7f]                       ([uint(-8)] >= 64: the shift gives 0)
    [vv := select8Lookup[(w>>uint(ithU8)&0xff)<<3+findIth]]                 (array of 2048: panics beyond)
    [return int32(vv) + int32(ithU8), 0] *)
Definition selectU64Indexed (w index findIth : Z) : option (Z * Z) :=
  let v := u64 (u64 (findIth + 1) * ones_bytes) in
  let biggerBits := Z.land (u64 (index - v)) high_bits in
  let ithU8 := Z.land (tz64 biggerBits) (-8) in
  let findIth := u64 (findIth - Z.land (shr64 index (u64 (ithU8 - 8))) 127) in
  match nthZ select8Lookup (u64 (Z.shiftl (Z.land (shr64 w ithU8) 255) 3 + findIth)) with
  | Some vv => Some (vv + ithU8, 0)
  | None => None
  end.
