(** Model of github.com/openacid/low/vers (vers.go): IsCompatible and Check.

      sp := strings.Join(spec, " || ")
      v, err := semver.Parse(ver)          IsCompatible: err -> return false      Check: must.Be.NoError(err)
      chk, err := semver.ParseRange(sp)    IsCompatible: err -> return false      Check: must.Be.NoError(err)
      return chk(v)

    must.Be.NoError panics in a build with -tags debug and is a no-op otherwise ([debug]): in a release build
    Check goes on with the zero Version after a parse error and calls a nil function after a range error.
    [None] = panic.  semver is modelled in Model/Semver.v.  No proofs in this file. *)
From Coq Require Import ZArith List Bool.
From Low Require Import Model.Semver.
Import ListNotations.
Open Scope Z_scope.

Definition or_sep : str := [32; 124; 124; 32].      (* " || " *)

(** chk(v) for the Range value returned by ParseRange; a nil Range panics when called *)
Definition call_range (chk : option rfn) (v : Version) : option bool :=
  match chk with Some f => call_rfn f v | None => None end.

Definition IsCompatible (ver : str) (spec : list str) : option bool :=
  let sp := join or_sep spec in
  match Parse ver with
  | None => Some false
  | Some v =>
      match ParseRange sp with
      | Err => Some false
      | Panic => None
      | Ok chk => call_range chk v
      end
  end.

Definition Check (debug : bool) (ver : str) (spec : list str) : option bool :=
  let sp := join or_sep spec in
  let pv := Parse ver in
  if debug && (match pv with None => true | Some _ => false end) then None          (* must.Be.NoError panics *)
  else
    let v := match pv with Some v => v | None => zero_version end in
    match ParseRange sp with
    | Panic => None
    | Err => None           (* debug: must.Be.NoError panics; release: chk is nil and chk(v) panics *)
    | Ok chk => call_range chk v
    end.
