(** Model of /repo/bmtree/index.go (PathToIndex, PathToIndexLoose),
    partial_tree.go (shiftMulti) and of the debug-only contracts
    pathcheck.go / bitmap_check.go / bitmappath_check.go, with the int32 /
    uint64 wraps exactly where the Go code mixes the two types.

    Conventions: [bitmapSize] is an int32 (a Z in [-2^31, 2^31)), [path] a
    uint64 (a Z in [0, 2^64)).  [None] = the Go code panics (array index out of
    range, or a contract of the [debug] build fires). *)
From Coq Require Import ZArith List Bool.
From Low Require Import Lib.MachInt Lib.Bits Lib.BitSeq Model.BmtreePath.
Import ListNotations.
Open Scope Z_scope.

(** the tables of bitmap/mask.go: [Mask [65]uint64], [MaskUpto, Bit [64]uint64];
    an index outside the array panics *)
Definition tbl (size : Z) (f : Z -> Z) (i : Z) : option Z :=
  if (0 <=? i) && (i <? size) then Some (f i) else None.
Definition tblMask := tbl 65 Mask.
Definition tblMaskUpto := tbl 64 MaskUpto.
Definition tblBit := tbl 64 Bit.

(** shiftMulti(a, b, shift uint64):
<<
	rst := uint64(0)
	n := bits.TrailingZeros64(b)
	b >>= uint(n)
	shift -= uint64(n)
	for b != 0 {
		rst += (a >> shift)
		n := bits.TrailingZeros64(b - 1)
		b >>= uint(n)
		shift -= uint64(n)
	}
	return rst
>>
    Every iteration removes at least one bit of [b], so 65 iterations suffice
    for any uint64; fuel exhaustion ([None]) is excluded by the theorems. *)
Fixpoint shiftMulti_loop (fuel : nat) (a b shift rst : Z) : option Z :=
  match fuel with
  | O => None
  | S f =>
      if b =? 0 then Some rst
      else
        let rst := u64 (rst + shr64 a shift) in
        let n := tz64 (u64 (b - 1)) in
        shiftMulti_loop f a (shr64 b n) (u64 (shift - n)) rst
  end.

Definition shiftMulti (a b shift : Z) : option Z :=
  let n := tz64 b in
  shiftMulti_loop 65 a (shr64 b n) (u64 (shift - n)) 0.

(** the closed form used for a full tree:
    [(int32(path>>32) << 1) + int32(bits.OnesCount64(path^0xffffffff00000000)) - 32], all int32 *)
Definition fullTreeIndex (path : Z) : Z :=
  i32 (i32 (sshl32 (i32 (shr64 path 32)) 1 + i32 (popcount (Z.lxor path 0xffffffff00000000))) - 32).

(** PathToIndex(bitmapSize int32, path uint64) int32 — release build (contracts compiled out) *)
Definition PathToIndex (bitmapSize path : Z) : option Z :=
  let height := Height bitmapSize in
  let sz := u64 bitmapSize in                      (* uint64(int32): sign extension *)
  match tblMaskUpto height with
  | None => None
  | Some mu =>
    if sz =? mu then Some (fullTreeIndex path)
    else match tblBit height with
    | None => None
    | Some bt =>
      if sz =? bt then Some (i32 (shr64 path 32))
      else
        match shiftMulti sz (shr64 path 32) (u64 height), tblMask (PathLen path) with
        | Some idx, Some m => Some (i32 (u64 (idx + popcount (Z.land sz m))))
        | _, _ => None
        end
    end
  end.

(** PathToIndexLoose: the same three cases written out a second time, with the
    operands of shiftMulti swapped, plus [has := (bitmapSize >> uint(pl)) & 1] *)
Definition PathToIndexLoose (bitmapSize path : Z) : option (Z * Z) :=
  let height := Height bitmapSize in
  let sz := u64 bitmapSize in
  let pl := PathLen path in
  let has := Z.land (sar32 bitmapSize pl) 1 in
  match tblMaskUpto height with
  | None => None
  | Some mu =>
    if sz =? mu then Some (fullTreeIndex path, has)
    else match tblBit height with
    | None => None
    | Some bt =>
      if sz =? bt then Some (i32 (shr64 path 32), has)
      else
        match shiftMulti (shr64 path 32) sz (u64 height), tblMask (PathLen path) with
        | Some idx, Some m => Some (i32 (u64 (idx + popcount (Z.land sz m))), has)
        | _, _ => None
        end
    end
  end.

(** * the contracts of the [debug] build, as boolean functions (false = panic) *)

(** bitmapSizeCheck: [height := int32(31 - LeadingZeros32(uint32(bitmapSize)))],
    [height <= 30], [bitmapSize != 0] *)
Definition bitmapSizeCheck (bitmapSize : Z) : bool :=
  (bitlen (u32 bitmapSize) - 1 <=? 30) && negb (bitmapSize =? 0).

(** pathCheck:
<<
	must.Be.Equal(uint64(0), path&0xc0000000c0000000)
	if uint32(path) == 0 { return }
	extended := uint32(path | (path - 1))
	pheight := 32 - bits.LeadingZeros32(uint32(path))
	must.Be.Equal(pheight, bits.OnesCount32(extended))
	pmask := uint32(path); pbits := uint32(path >> 32)
	must.Be.Equal(uint32(0), ^pmask&pbits)
>> *)
Definition pathCheck (path : Z) : bool :=
  (Z.land path 0xc0000000c0000000 =? 0) &&
  (if u32 path =? 0 then true
   else
     let extended := u32 (Z.lor path (u64 (path - 1))) in
     let pheight := bitlen (u32 path) in
     (pheight =? popcount extended) &&
     (Z.land (not32 (u32 path)) (u32 (shr64 path 32)) =? 0)).

(** bitmapPathMustHaveEqualHeight: both checks again, then
    [if uint32(path) != 0 { must.Be.Equal(Height(bitmapSize), PathHeight(path)) }] *)
Definition bitmapPathMustHaveEqualHeight (bitmapSize path : Z) : bool :=
  bitmapSizeCheck bitmapSize && pathCheck path &&
  (if u32 path =? 0 then true else Height bitmapSize =? PathHeight path).

(** bitmapMustHaveLevel: [(bitmapSize>>uint(l))&1 == 1] *)
Definition bitmapMustHaveLevel (bitmapSize l : Z) : bool :=
  Z.land (sar32 bitmapSize l) 1 =? 1.

Definition contracts_PathToIndex (bitmapSize path : Z) : bool :=
  bitmapSizeCheck bitmapSize && pathCheck path &&
  bitmapPathMustHaveEqualHeight bitmapSize path &&
  bitmapMustHaveLevel bitmapSize (PathLen path).

Definition contracts_PathToIndexLoose (bitmapSize path : Z) : bool :=
  bitmapSizeCheck bitmapSize && pathCheck path &&
  bitmapPathMustHaveEqualHeight bitmapSize path.

(** the [-tags debug] build: [must.Be.OK(func(){ contracts })] runs first *)
Definition PathToIndex_debug (bitmapSize path : Z) : option Z :=
  if contracts_PathToIndex bitmapSize path then PathToIndex bitmapSize path else None.

Definition PathToIndexLoose_debug (bitmapSize path : Z) : option (Z * Z) :=
  if contracts_PathToIndexLoose bitmapSize path then PathToIndexLoose bitmapSize path else None.
