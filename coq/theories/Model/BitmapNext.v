(** Model of /repo/bitmap/next.go: NextOne, PrevOne (same case split, same
    loops; the loops run on explicit fuel chosen from the bitmap's length).
    Arithmetic is unbounded [Z] (int32 cannot overflow when 64*len < 2^31,
    the size hypothesis of every theorem). [& ^63] on an int32 is
    [Z.land _ (-64)] (two's complement).
    Model/BitmapNext32.v is the same code with every int32 wrap written out;
    Proofs/NextTotal.v proves the two equal for every int32 [i], [end] under
    that size hypothesis, and characterises both outside the property's domain. *)
From Coq Require Import ZArith List Bool.
From Low Require Import Lib.MachInt Lib.Bits Lib.BitSeq.
Import ListNotations.
Open Scope Z_scope.

(** [for ; i < end; i += 64 { word := bm[i>>6]; if word != 0 { nxt = i + tz(word); break } }]
    result: the value of [nxt] after the loop ([-1] when it ran out of range) *)
Fixpoint NextOne_loop (fuel : nat) (bm : list Z) (i e : Z) : option Z :=
  match fuel with
  | O => None
  | S f =>
      if i <? e then
        match nthZ bm (Z.shiftr i 6) with
        | None => None
        | Some word => if word =? 0 then NextOne_loop f bm (i + 64) e
                       else Some (i + tz64 word)
        end
      else Some (-1)
  end.

Definition NextOne (bm : list Z) (i e : Z) : option Z :=
  let wordIdx := Z.shiftr i 6 in
  let bitIdx := Z.land i 63 in
  match nthZ bm wordIdx with
  | None => None
  | Some w0 =>
      let word := Z.land w0 (RMask bitIdx) in
      let nxt :=
        if word =? 0
        then NextOne_loop (S (length bm)) bm (Z.land (i + 63) (-64)) e
        else Some (Z.shiftl wordIdx 6 + tz64 word) in
      match nxt with
      | None => None
      | Some nxt => Some (if nxt >=? e then -1 else nxt)
      end
  end.

(** [for ; end >= i; end -= 64 { word := bm[end>>6]; if word != 0 { prv = end - lz(word); break } }] *)
Fixpoint PrevOne_loop (fuel : nat) (bm : list Z) (e i : Z) : option Z :=
  match fuel with
  | O => None
  | S f =>
      if e >=? i then
        match nthZ bm (Z.shiftr e 6) with
        | None => None
        | Some word => if word =? 0 then PrevOne_loop f bm (e - 64) i
                       else Some (e - lz64 word)
        end
      else Some (-1)
  end.

Definition PrevOne (bm : list Z) (i e0 : Z) : option Z :=
  let e := e0 - 1 in
  let wordIdx := Z.shiftr e 6 in
  let bitIdx := Z.land e 63 in
  match nthZ bm wordIdx with
  | None => None
  | Some w0 =>
      let word := Z.land w0 (MaskUpto bitIdx) in
      let prv :=
        if word =? 0
        then PrevOne_loop (S (length bm)) bm (Z.land e (-64) - 1) i
        else Some (Z.shiftl wordIdx 6 + 63 - lz64 word) in
      match prv with
      | None => None
      | Some prv => Some (if prv <? i then -1 else prv)
      end
  end.
