(** Model of /repo/bitmap/mask.go: the six lookup tables filled by [initMasks]
    (called from the package's [init]), with Go's uint64 arithmetic:
    [1 << uint(i)] is [shl64 1 i] (0 for i = 64), [x - 1] wraps ([u64]),
    [^x] is [not64].  A table read [T[j]] is [nthZ T j] ([None] = index out of
    range, Go panics) — the other models of this package write [Mask j],
    [Bit j] … (Lib/Bits.v) for these reads; Properties/C14.v proves the two agree. *)
From Coq Require Import ZArith List Bool.
From Low Require Import Lib.MachInt Lib.Bits Lib.BitSeq.
Import ListNotations.
Open Scope Z_scope.

(** [for i := 0; i < n; i++] as the list of the values of [i] *)
Definition idx (n : nat) : list Z := map Z.of_nat (seq 0 n).

Record mask_tables := {
  tMask : list Z;       (* [65]uint64 *)
  tRMask : list Z;      (* [65]uint64 *)
  tMaskUpto : list Z;   (* [64]uint64 *)
  tRMaskUpto : list Z;  (* [64]uint64 *)
  tBit : list Z;        (* [64]uint64 *)
  tRBit : list Z        (* [64]uint64 *)
}.

(** [for i := 0; i < 65; i++ { Mask[i] = (1 << uint(i)) - 1; RMask[i] = ^Mask[i] }]
    [for i := 0; i < 64; i++ { MaskUpto[i] = (1 << uint(i+1)) - 1; RMaskUpto[i] = ^MaskUpto[i];
                               Bit[i] = 1 << uint(i); RBit[i] = ^Bit[i] }] *)
Definition initMasks : mask_tables :=
  let m  := map (fun i => u64 (shl64 1 i - 1)) (idx 65) in
  let mu := map (fun i => u64 (shl64 1 (i + 1) - 1)) (idx 64) in
  let b  := map (fun i => shl64 1 i) (idx 64) in
  {| tMask := m; tRMask := map not64 m;
     tMaskUpto := mu; tRMaskUpto := map not64 mu;
     tBit := b; tRBit := map not64 b |}.

(** [Mask[j], RMask[j], MaskUpto[j], RMaskUpto[j], Bit[j], RBit[j]], each read on its own *)
Definition mask_lookups (t : mask_tables) (j : Z) : list (option Z) :=
  [nthZ (tMask t) j; nthZ (tRMask t) j; nthZ (tMaskUpto t) j; nthZ (tRMaskUpto t) j;
   nthZ (tBit t) j; nthZ (tRBit t) j].
