(** Model of /repo/sigbits/sharding.go with Go's int32 arithmetic made explicit.

    Model/Sigbits.v keeps every [int32] of ShardByPrefix as an unbounded [Z] and
    lets the theorems carry the size hypotheses.  This file restates [dfs] and
    ShardByPrefix, same loops and case splits, with an [i32] wrap at every place
    where the Go code converts to or computes in [int32]:
    [int32(len(firstDiffs)+1)], [e-s], [int32(len(keys[s]))] (twice), [e-1],
    [i+1].  ([i++] cannot overflow under the loop guard [i < e-1];
    [firstDiffs[i]>>3] is [sar32] already.)  The FirstDiffBits implementation is a
    parameter, so that the int32-explicit one of C16 can be plugged in.
    Proofs/Sharding32Proofs.v shows that under the size hypotheses this model
    and the unbounded one agree, hence the C17 theorems hold of it.
    No proofs in this file. *)
From Coq Require Import ZArith List Bool.
From Low Require Import Lib.MachInt Lib.Bits Lib.BitSeq Model.Sigbits.
Import ListNotations.
Open Scope Z_scope.

(** the index values of [for i := s; i < e-1; i++] with [e-1] computed in int32 *)
Definition idx_range32 (s e : Z) : list Z :=
  map (fun k => s + Z.of_nat k) (seq 0 (Z.to_nat (i32 (e - 1) - s))).

Fixpoint shard_split32 (firstDiffs : list Z) (is : list Z) (longest : Z) (endsAt : list Z)
  : option (Z * list Z) :=
  match is with
  | [] => Some (longest, endsAt)
  | i :: t =>
      match nthZ firstDiffs i with
      | None => None
      | Some d =>
          let prefixLen := sar32 d 3 in
          if prefixLen <? longest then
            shard_split32 firstDiffs t prefixLen [i32 (i + 1)]
          else if prefixLen =? longest then
            shard_split32 firstDiffs t longest (endsAt ++ [i32 (i + 1)])
          else shard_split32 firstDiffs t longest endsAt
      end
  end.

Section Dfs32.
  Variable keys : list (list Z).
  Variable firstDiffs : list Z.
  Variable maxSize : Z.

  Fixpoint dfs32 (fuel : nat) (s e : Z) (st : shard_out) : option shard_out :=
    match fuel with
    | O => None
    | S fuel' =>
        match nthZ keys s with
        | None => None
        | Some ks =>
            if i32 (e - s) <=? maxSize then
              match shard_min firstDiffs (idx_range32 s e) (i32 (zlen ks)) with
              | None => None
              | Some min => Some (fst st ++ [min], snd st ++ [e])
              end
            else
              match shard_split32 firstDiffs (idx_range32 s e) (i32 (zlen ks)) [] with
              | None => None
              | Some (_, endsAt) => dfs_each (dfs32 fuel') (endsAt ++ [e]) s st
              end
        end
    end.
End Dfs32.

Definition ShardByPrefix32_with (FDB : list (list Z) -> option (list Z))
           (keys : list (list Z)) (maxSize : Z) : option (list Z * list Z) :=
  match FDB keys with
  | None => None
  | Some firstDiffs =>
      let n := i32 (zlen firstDiffs + 1) in
      dfs32 keys firstDiffs maxSize (S (length keys)) 0 n ([], [0])
  end.
