(** Model of iohelper.AtToReader (/repo/iohelper/iohelper.go:23-25):

      func AtToReader(r io.ReaderAt, offset int64) io.Reader {
          return io.NewSectionReader(r, offset, maxOffset-offset) }

    [io.NewSectionReader] / [io.SectionReader.Read] are Go's library, not
    code of the repository; they are given the definitional model below (Go
    1.23 io/io.go, same branches, int64 wraps explicit; trusted base, exercised
    by every correspondence run).  The value returned is an [io.Reader]: Read is
    the only method modelled.

    The underlying io.ReaderAt is the in-memory file of Model/MemFile.v with a
    fault script.  Read(p) depends on p only through len(p); what is observed is
    the count, the error class, the bytes delivered into p[:n] and the
    (absolute offset, length requested) of the ReadAt that reached the file. *)
From Coq Require Import ZArith List Bool.
From Low Require Import Lib.MachInt Lib.BitSeq Model.SectionWriter Model.MemFile.
Import ListNotations.
Open Scope Z_scope.

Record sr : Type := mkSR {
  rbase  : Z;
  roff   : Z;   (* read cursor (absolute) *)
  rlimit : Z
}.

(** io.NewSectionReader (Go 1.23): the end saturates at 2^63-1 instead of wrapping *)
Definition NewSectionReader (off n : Z) : sr :=
  let remaining :=
    if off <=? i64 (maxOffset - n) then i64 (n + off) else maxOffset in
  mkSR off off remaining.

(** iohelper.AtToReader *)
Definition AtToReader (offset : Z) : sr := NewSectionReader offset (i64 (maxOffset - offset)).

Record rout : Type := mkROut {
  rcount : Z;                    (* n *)
  rerr   : Z;                    (* error class *)
  rbytes : list Z;               (* p[:n] *)
  rcalls : list (Z * Z)          (* (absolute offset, len(p)) of every ReadAt that reached the file *)
}.

(** io.SectionReader.Read *)
Definition Read (s : sr) (f : list Z) (script : list resp) (len : Z) : sr * list resp * rout :=
  if roff s >=? rlimit s then (s, script, mkROut 0 E_eof [] [])
  else
    let max := i64 (rlimit s - roff s) in
    let len' := if len >? max then max else len in              (* p = p[0:max] *)
    let '((bs, err), script') := read_at f script len' (roff s) in
    let n := zlen bs in
    (mkSR (rbase s) (i64 (roff s + n)) (rlimit s), script', mkROut n err bs [(roff s, len')]).

Fixpoint rrun (s : sr) (f : list Z) (script : list resp) (lens : list Z) : list rout :=
  match lens with
  | [] => []
  | l :: t => let '(s', script', r) := Read s f script l in r :: rrun s' f script' t
  end.
