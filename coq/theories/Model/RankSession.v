(** C01 widening, round c: op bundles that keep one process busy with many index builds.

    - a SESSION is a list of steps [(f, runs)]: build the index of flavour [f] for the bitmap [runs] (run-length
      encoded), report it, query the last position with it; the Go side then overwrites every entry of the returned
      index with junk (the caller owns what it was given) and goes on; the whole list is run [reps] times.
      The functions are pure, so the model is a [map];
    - CONCURRENT builds: the same bitmaps indexed from several goroutines at once must give what a single caller
      gets; the model reports sampled entries of each index and one flag per concurrent call. *)
From Coq Require Import ZArith List Bool.
From Low Require Import Lib.MachInt Lib.Bits Lib.BitSeq Spec.RankLawsSpec Spec.RankSessionSpec
  Model.Rank Model.RankOps.
Import ListNotations.
Open Scope Z_scope.

Definition index_of (f : flavour) (ws : list Z) : list Z :=
  match f with F64 tr => IndexRank64 ws tr | F128 => IndexRank128 ws end.

(** [Rank64(ws, idx, i)] / [Rank128(ws, idx, i)] with the index just built *)
Definition query_with (f : flavour) (ws idx : list Z) (i : Z) : option (Z * Z) :=
  match f with F64 _ => Rank64 ws idx i | F128 => Rank128 ws idx i end.

Definition session_step (s : flavour * list (Z * Z)) : list Z * option (Z * Z) :=
  let ws := expand_rle (snd s) in
  let idx := index_of (fst s) ws in
  (idx, query_with (fst s) ws idx (64 * zlen ws - 1)).

Fixpoint repeat_list {A} (l : list A) (n : nat) : list A :=
  match n with O => [] | S n' => l ++ repeat_list l n' end.

Definition session (steps : list (flavour * list (Z * Z))) (reps : nat) : list (list Z * option (Z * Z)) :=
  map session_step (repeat_list steps reps).

Definition concurrent (bms : list (list (Z * Z))) (tr : bool) (stride : nat) (ncalls : nat) : list (list Z) * list Z :=
  (map (fun runs => sample_every stride (IndexRank64 (expand_rle runs) tr)) bms, repeat 1 ncalls).
