(** Text formatting used by size.Stat (C20 widening): what [fmt.Sprintf] does for
    the three verbs of sizeof.go — [%d] of a Go int, [%s] of a string and
    [%.3f] of the float64 expression [float64(s) / float64(AvgOf) / unit].

    These are models of the Go LANGUAGE / fmt / strconv (like Lib/MachInt.v for the
    integer wraps), not of code of the repository; the model of [stat]
    (Model/SizeStat.v) and its specification (Spec/SizeStatSpec.v) both use
    them.  They are compared with the real fmt on every run through the
    [size.Stat/lines] operation (random sizes, AvgOf in 1..2^40, units 2^k), and
    [Proofs/SizeFmtProofs.v] proves that the printed average is the exact
    quotient to within half a unit of the third decimal plus the float64
    rounding of the division.

    Strings are [list Z] (bytes).  No proofs in this file. *)
From Coq Require Import ZArith List Bool.
Import ListNotations.
Open Scope Z_scope.

Definition digit (d : Z) : Z := 48 + d.

(** decimal digits of n >= 0, most significant first ("0" for 0).  The fuel is
    the maximal number of digits (a Go int has at most 19). *)
Fixpoint dec_go (fuel : nat) (n : Z) (acc : list Z) : list Z :=
  match fuel with
  | O => acc
  | S f => if n <? 10 then digit n :: acc
           else dec_go f (n / 10) (digit (n mod 10) :: acc)
  end.
Definition dec_nat (n : Z) : list Z := dec_go 40 n [].
(** [%d] *)
Definition dec (n : Z) : list Z := if n <? 0 then 45 :: dec_nat (- n) else dec_nat n.

(** the constant pieces of the format strings *)
Definition s_colon : list Z := [58; 32].                     (* ": " *)
Definition s_avg : list Z := [32; 47; 110; 32; 61; 32].      (* " /n = " *)
Definition s_nil : list Z := [60; 110; 105; 108; 62].        (* "<nil>" *)
Definition s_indent : list Z := [32; 32; 32; 32].            (* "    " *)

(** num / den rounded to the nearest integer, ties to even (num >= 0, den > 0):
    IEEE-754 round-to-nearest-even and strconv's decimal rounding *)
Definition rhe (num den : Z) : Z :=
  let q := num / den in
  let r := num mod den in
  if 2 * r <? den then q
  else if den <? 2 * r then q + 1
  else if Z.even q then q else q + 1.

(** the fraction (num / den) / 2^e *)
Definition scale2 (num den e : Z) : Z * Z :=
  if 0 <=? e then (num, den * 2 ^ e) else (num * 2 ^ (- e), den).

(** [float64(s) / float64(n)] for 0 <= s < 2^53, 0 < n < 2^53 (both conversions
    exact): the correctly rounded quotient as (m, e), value m * 2^e, with a
    53-bit mantissa m in [2^52, 2^53] (no overflow / subnormal in this range) *)
Definition fdiv (s n : Z) : Z * Z :=
  if s =? 0 then (0, 0) else
  let e0 := Z.log2 s - Z.log2 n - 52 in
  let '(num, den) := scale2 s n e0 in
  if num / den <? 2 ^ 52
  then let '(num, den) := scale2 s n (e0 - 1) in (rhe num den, e0 - 1)
  else (rhe num den, e0).

(** m * 2^e in thousandths, rounded to nearest, ties to even (strconv with an
    explicit precision formats the EXACT binary value) *)
Definition thousandths (m e : Z) : Z :=
  let '(num, den) := scale2 (m * 1000) 1 (- e) in rhe num den.

(** [%.3f] of t / 1000, t >= 0 *)
Definition fmt_f3 (t : Z) : list Z :=
  dec (t / 1000) ++ [46] ++ [digit (t mod 1000 / 100); digit (t mod 100 / 10); digit (t mod 10)].

(** the average as printed: [avg := float64(s) / float64(n); avg /= unit] with
    unit = 2^k (Some k; dividing by a power of two is exact) or the default 1
    (None: AvgUnit = 0) *)
Definition avg_thousandths (s n : Z) (k : option Z) : Z :=
  let '(m, e) := fdiv s n in
  thousandths m (match k with None => e | Some k => e - k end).
Definition fmt_avg (s n : Z) (k : option Z) : list Z := fmt_f3 (avg_thousandths s n k).

(** options of Stat: AvgOf, and AvgUnit as [None] (0: default) or [Some k] (2^k) *)
Record sopt := { avgOf : Z; avgUnit : option Z }.
Definition no_opt : sopt := {| avgOf := 0; avgUnit := None |}.

(** the header text of a value of type [ty] and size [s]:
      AvgOf > 0 :  "%s: %d /n = %.3f"      otherwise  "%s: %d" *)
Definition header_text (o : sopt) (ty : list Z) (s : Z) : list Z :=
  if 0 <? avgOf o
  then ty ++ s_colon ++ dec s ++ s_avg ++ fmt_avg s (avgOf o) (avgUnit o)
  else ty ++ s_colon ++ dec s.
