(** C10 widening: NewPath of /repo/bmtree/newpath.go on ARBITRARY arguments
    (the table lookup [bitmap.Mask[length]] panics outside 0..64, the shift count
    is [uint(height-length)] computed in int32 and converted to uint), and the
    composition of the accessors with NewPath ("rebuild a word from its fields"). *)
From Coq Require Import ZArith List Bool.
From Low Require Import Lib.MachInt Lib.Bits Model.BmtreePath Model.BmtreeIndex.
Import ListNotations.
Open Scope Z_scope.

(** [return (searchingBits << 32) | (bitmap.Mask[length] << uint(height-length))]
    - [bitmap.Mask] is a [65]uint64: an index outside 0..64 panics ([None]);
    - [height-length] is an int32 subtraction (wraps), [uint(.)] of a negative
      int32 is a huge count, and a shift by >= 64 gives 0. *)
Definition NewPath_full (searchingBits length height : Z) : option Z :=
  match tblMask length with
  | None => None
  | Some m => Some (Z.lor (shl64 searchingBits 32) (shl64 m (u64 (i32 (height - length)))))
  end.

(** [NewPath(PathBits(w), PathLen(w), PathHeight(w))] *)
Definition rebuild (w : Z) : option Z := NewPath_full (PathBits w) (PathLen w) (PathHeight w).

(** [^uint32(PathMask(w)) & uint32(PathBits(w))]: search bits outside the mask
    (the last test of pathCheck, pathcheck.go) *)
Definition stray (w : Z) : Z := Z.land (not32 (u32 (PathMask w))) (u32 (PathBits w)).
