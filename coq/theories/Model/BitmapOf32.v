(** The same functions as Model/BitmapOf.v with Go's int32 arithmetic written out: every [+] on an
    int32 is wrapped by [i32], [int32(len(words) * 64)] is the truncating conversion.  [>> 6] and [& 63]
    on an int32 cannot overflow.  Proofs/Of32.v shows that these definitions coincide with the unbounded
    ones of Model/BitmapOf.v below explicit bounds (which is what "no overflow while every position and
    size stays below 2^31 - 64" means). *)
From Coq Require Import ZArith List Bool.
From Low Require Import Lib.MachInt Lib.Bits Lib.BitSeq Model.BitmapUtil Model.BuilderOps Model.BitmapOf.
Import ListNotations.
Open Scope Z_scope.

(** [max := bitPositions[len-1] + 1; nWords := (n + 63) >> 6] *)
Definition Of32 (ps : list Z) (opt : option Z) : option (list Z) :=
  let n := match opt with Some n => n | None => 0 end in
  let n := match ps with
           | [] => n
           | _ => let mx := i32 (last ps 0 + 1) in if n <? mx then mx else n
           end in
  let n := if n <? 0 then 0 else n in
  match make_words (Z.shiftr (i32 (n + 63)) 6) with
  | None => None
  | Some words => Of_loop ps words
  end.

(** [r[ith] = base + idx; base += sizes[i]] *)
Fixpoint OfMany32_loop (subs : list (list Z)) (sizes : list Z) (base : Z) (r : list Z) : option (list Z * Z) :=
  match subs with
  | [] => Some (r, base)
  | e :: t =>
      match sizes with
      | [] => None
      | s :: st => OfMany32_loop t st (i32 (base + s)) (r ++ map (fun idx => i32 (base + idx)) e)
      end
  end.

Definition OfMany32 (subs : list (list Z)) (sizes : list Z) : option (list Z) :=
  match OfMany32_loop subs sizes 0 [] with
  | None => None
  | Some (r, base) => Of32 r (Some base)
  end.

(** [l := int32(len(words) * 64); for i := int32(0); i < l; i++] *)
Fixpoint ToArray32_loop (fuel : nat) (words : list Z) (i l : Z) {struct fuel} : option (list Z) :=
  if i <? l then
    match fuel with
    | O => None
    | S f =>
        match nthZ words (Z.shiftr i 6) with
        | None => None
        | Some w =>
            match ToArray32_loop f words (i32 (i + 1)) l with
            | None => None
            | Some rest => Some (if Z.land w (shl64 1 (Z.land i 63)) =? 0 then rest else i :: rest)
            end
        end
    end
  else Some [].

Definition ToArray32 (words : list Z) : option (list Z) :=
  let l := i32 (zlen words * 64) in
  ToArray32_loop (Z.to_nat (zlen words * 64)) words 0 l.

(** [idx := b.Offset + i] *)
Fixpoint Extend32_loop (ps : list Z) (off : Z) (words : list Z) : option (list Z) :=
  match ps with
  | [] => Some words
  | i :: t =>
      let idx := i32 (off + i) in
      match or_at words (Z.shiftr idx 6) (shl64 1 (Z.land idx 63)) with
      | None => None
      | Some words' => Extend32_loop t off words'
      end
  end.

(** [end := b.Offset + size; ... end = b.Offset + bitEnd + 1; for int(end) > len(b.Words)<<6 ...; b.Offset += size] *)
Definition Extend32 (b : builder) (ps : list Z) (size : Z) : option builder :=
  let e := i32 (Offset b + size) in
  let e := match ps with
           | [] => e
           | _ => let bitEnd := last ps 0 in if bitEnd >=? size then i32 (i32 (Offset b + bitEnd) + 1) else e
           end in
  match grow_to (S (Z.to_nat (Z.shiftr (e + 63) 6))) (Words b) e with
  | None => None
  | Some words =>
      match Extend32_loop ps (Offset b) words with
      | None => None
      | Some words' => Some {| Words := words'; Offset := i32 (Offset b + size) |}
      end
  end.

(** [b.Offset = bitPosition + 1] *)
Definition SetBit32 (b : builder) (p v : Z) : option builder :=
  let k := Z.shiftr p 6 in
  match grow_past (S (Z.to_nat (k + 1))) (Words b) k with
  | None => None
  | Some words =>
      match or_at words k (shl64 (Z.land v 1) (Z.land p 63)) with
      | None => None
      | Some words' =>
          Some {| Words := words'; Offset := if Offset b <=? p then i32 (p + 1) else Offset b |}
      end
  end.

Definition bstep32 (b : builder) (o : bop) : option builder :=
  match o with
  | BExtend ps size => Extend32 b ps size
  | BSet p v => SetBit32 b p v
  end.

Fixpoint bfold32 (b : builder) (ops : list bop) : option builder :=
  match ops with
  | [] => Some b
  | o :: t => match bstep32 b o with None => None | Some b' => bfold32 b' t end
  end.
