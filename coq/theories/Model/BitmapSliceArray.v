(** [bitmap.ToArray(bitmap.Slice(words, from, to))]: the composition of the two models. *)
From Coq Require Import ZArith List Bool.
From Low Require Import Lib.BitSeq Model.BitmapJoin Model.BitmapOf Model.Rank Model.BitmapNext.
Open Scope Z_scope.

Definition SliceToArray (words : list Z) (from to : Z) : option (list Z) :=
  match Slice words from to with
  | None => None
  | Some r => ToArray r
  end.

(** [bitmap.Slice(bitmap.Slice(words, a, b), c, d)] *)
Definition SliceSlice (words : list Z) (a b c d : Z) : option (list Z) :=
  match Slice words a b with
  | None => None
  | Some r => Slice r c d
  end.

(** [r := bitmap.Slice(words, a, b); bitmap.Rank64(r, bitmap.IndexRank64(r, trailing), j)] *)
Definition SliceRank64 (words : list Z) (a b : Z) (trailing : bool) (j : Z) : option (Z * Z) :=
  match Slice words a b with
  | None => None
  | Some r => Rank64 r (IndexRank64 r trailing) j
  end.

(** [r := bitmap.Slice(words, a, b); bitmap.NextOne(r, j, b-a)] / [bitmap.PrevOne(r, j, b-a)] *)
Definition SliceNextOne (words : list Z) (a b j : Z) : option Z :=
  match Slice words a b with
  | None => None
  | Some r => NextOne r j (b - a)
  end.

Definition SlicePrevOne (words : list Z) (a b j : Z) : option Z :=
  match Slice words a b with
  | None => None
  | Some r => PrevOne r j (b - a)
  end.

(** [bitmap.Slice(bitmap.Join(vs, w), k*w, m*w)] *)
Definition JoinSlice (vs : list Z) (w k m : Z) : option (list Z) :=
  match Join vs w with
  | None => None
  | Some r => Slice r (k * w) (m * w)
  end.
