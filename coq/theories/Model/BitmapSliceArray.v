(** [bitmap.ToArray(bitmap.Slice(words, from, to))]: the composition of the two models. *)
From Coq Require Import ZArith List Bool.
From Low Require Import Lib.BitSeq Model.BitmapJoin Model.BitmapOf.
Open Scope Z_scope.

Definition SliceToArray (words : list Z) (from to : Z) : option (list Z) :=
  match Slice words from to with
  | None => None
  | Some r => ToArray r
  end.

(** [bitmap.Slice(bitmap.Slice(words, a, b), c, d)] *)
Definition SliceSlice (words : list Z) (a b c d : Z) : option (list Z) :=
  match Slice words a b with
  | None => None
  | Some r => Slice r c d
  end.
