(** The int32 arithmetic of /repo/bitstr/bitstr.go made explicit.
    [New]'s [fromBit], [toBit], [fromByte], [toByte], [l] are Go [int32]; [Len]
    computes in [int32].  Model/Bitstr.v uses unbounded [Z] for them; here every
    int32 operation wraps ([i32], arithmetic shifts [sar32]/[sar64], [sshl32]).
    Since the fix b2a771a the end byte is computed in int64
    ([int32((int64(toBit) + 7) >> 3)]), so nothing overflows on the int32 range:
    Proofs/Bitstr32Proofs.v shows [New32 = New] for all 0 <= from <= to < 2^31 and
    [Len32 = Len] whenever Len's value fits int32.  The pre-fix arithmetic is
    Model/LegacyBitstr32.v. *)
From Coq Require Import ZArith List Bool.
From Low Require Import Lib.MachInt Lib.Bits Lib.BitSeq Lib.Lex Model.Bitstr.
Import ListNotations.
Open Scope Z_scope.

Definition New32 (s : list Z) (fromBit toBit : Z) : option (list Z) :=
  if (fromBit =? toBit) && (Z.land fromBit 7 =? 0) then Some [255]
  else
    let fromByte := sar32 fromBit 3 in
    (* toByte := int32((int64(toBit) + 7) >> 3) *)
    let toByte := i32 (sar64 (i64 (toBit + 7)) 3) in
    let l := i32 (toByte - fromByte) in
    (* bitStr := make([]byte, l+1): l+1 is int32 arithmetic; a negative length panics *)
    let n := i32 (l + 1) in
    if n <? 0 then None else
    let bitStr := repeat 0 (Z.to_nat n) in
    (* copy(bitStr, s[fromBit>>3:toByte]) *)
    match sliceZ s (sar32 fromBit 3) toByte with
    | None => None
    | Some src =>
        let bitStr := copyZ bitStr src in
        let mask := rmask8 (Z.land (i32 (8 - toBit)) 7) in
        (* bitStr[l-1] &= mask *)
        match nthZ bitStr (i32 (l - 1)) with
        | None => None
        | Some x =>
            let bitStr := updZ bitStr (i32 (l - 1)) (Z.land x mask) in
            (* bitStr[l] = mask *)
            match nthZ bitStr l with
            | None => None
            | Some _ => Some (updZ bitStr l mask)
            end
        end
    end.

(** [int32(l)<<3 - 16 + int32(bits.OnesCount8(bs[l-1]))], every step in int32 *)
Definition Len32 (bs : list Z) : option Z :=
  let l := zlen bs in
  match nthZ bs (l - 1) with
  | Some last => Some (i32 (i32 (sshl32 (i32 l) 3 - 16) + popcount last))
  | None => None
  end.
