(** The int32 arithmetic of /repo/bitstr/bitstr.go made explicit.
    [New]'s [fromBit], [toBit], [fromByte], [toByte], [l] are Go [int32]; [Len]
    computes in [int32].  Model/Bitstr.v uses unbounded [Z] for them; here every
    int32 operation wraps ([i32], arithmetic shift [sar32], [sshl32]).  The two
    models agree whenever [toBit + 7 < 2^31] (resp. [8 * len(bs) < 2^31]) —
    Proofs/Bitstr32Proofs.v — and differ at the top of the int32 range, where
    [(toBit + 7) >> 3] overflows: [New32] then fails in [make] like the real code
    ("makeslice: len out of range"). *)
From Coq Require Import ZArith List Bool.
From Low Require Import Lib.MachInt Lib.Bits Lib.BitSeq Lib.Lex Model.Bitstr.
Import ListNotations.
Open Scope Z_scope.

Definition New32 (s : list Z) (fromBit toBit : Z) : option (list Z) :=
  if (fromBit =? toBit) && (Z.land fromBit 7 =? 0) then Some [255]
  else
    let fromByte := sar32 fromBit 3 in
    let toByte := sar32 (i32 (toBit + 7)) 3 in
    let l := i32 (toByte - fromByte) in
    (* bitStr := make([]byte, l+1): l+1 is int32 arithmetic; a negative length panics *)
    let n := i32 (l + 1) in
    if n <? 0 then None else
    let bitStr := repeat 0 (Z.to_nat n) in
    (* copy(bitStr, s[fromBit>>3:toByte]) *)
    match sliceZ s (sar32 fromBit 3) toByte with
    | None => None
    | Some src =>
        let bitStr := copyZ bitStr src in
        let mask := rmask8 (Z.land (i32 (8 - toBit)) 7) in
        (* bitStr[l-1] &= mask *)
        match nthZ bitStr (i32 (l - 1)) with
        | None => None
        | Some x =>
            let bitStr := updZ bitStr (i32 (l - 1)) (Z.land x mask) in
            (* bitStr[l] = mask *)
            match nthZ bitStr l with
            | None => None
            | Some _ => Some (updZ bitStr l mask)
            end
        end
    end.

(** [int32(l)<<3 - 16 + int32(bits.OnesCount8(bs[l-1]))], every step in int32 *)
Definition Len32 (bs : list Z) : option Z :=
  let l := zlen bs in
  match nthZ bs (l - 1) with
  | Some last => Some (i32 (i32 (sshl32 (i32 l) 3 - 16) + popcount last))
  | None => None
  end.
