(** Model of /repo/bitword/bitword.go (same loops, same index and shift
    arithmetic).  A Go [string]/[[]byte] is a [list Z] of bytes.  The [byte]
    arithmetic that can wrap ([wordMask]'s [1<<n - 1], the accumulator of
    [ToStr]) carries explicit [u8]; [int] arithmetic is unbounded [Z]. *)
From Coq Require Import ZArith List Bool.
From Low Require Import Lib.MachInt Lib.Bits Lib.BitSeq Lib.Val Lib.Pack_bw.
Import ListNotations.
Open Scope Z_scope.

(** [type bitWord struct { width, byteCap int; wordMask byte }] *)
Record bitWord := { width : Z; byteCap : Z; wordMask : Z }.

(** [newBW(n)]: [wordMask: (1 << uint(n)) - 1] is evaluated in type [byte]:
    for n = 8 the shift gives 0 and the subtraction wraps to 255. *)
Definition newBW (n : Z) : bitWord :=
  {| width := n; byteCap := 8 / n; wordMask := u8 (u8 (1 * 2 ^ n) - 1) |}.

(** [b >> uint(k)] on a byte, Go rule: a count >= 8 gives 0 (a negative k
    converted to uint is huge) *)
Definition shr8 (b k : Z) : Z := if (0 <=? k) && (k <? 8) then Z.shiftr b k else 0.
(** [b << uint(k)] on a byte *)
Definition shl8 (b k : Z) : Z := if (0 <=? k) && (k <? 8) then u8 (b * 2 ^ k) else 0.

(** inner loop of FromStr for one byte b:
    [for j := 0; j < m; j++ { words[i*m+j] = (b >> uint(8-w.width*j-w.width)) & w.wordMask }] *)
Definition FromStr_byte (w : bitWord) (b : Z) : list Z :=
  map (fun j => Z.land (shr8 b (8 - width w * j - width w)) (wordMask w)) (zrange (byteCap w)).

(** outer loop: byte i fills words[i*m .. i*m+m) *)
Definition FromStr (w : bitWord) (s : list Z) : list Z := flat_map (FromStr_byte w) s.

Definition FromStrs (w : bitWord) (strs : list (list Z)) : list (list Z) := map (FromStr w) strs.

(** inner loop of ToStr for output byte i:
    [b = 0; for j := 0; j < m; j++ { if i*m+j < len(bs) { b = (b << width) + bs[i*m+j] } else { b = b << width } }] *)
Definition ToStr_byte (w : bitWord) (bs : list Z) (i : Z) : option Z :=
  fold_left (fun acc j =>
      match acc with
      | None => None
      | Some b =>
          if i * byteCap w + j <? zlen bs then
            match nthZ bs (i * byteCap w + j) with
            | Some x => Some (u8 (shl8 b (width w) + x))
            | None => None
            end
          else Some (shl8 b (width w))
      end) (zrange (byteCap w)) (Some 0).

(** [sz := (len(bs) + m - 1) / m; for i := 0; i < sz; i++ { ... strbs[i] = b }] *)
Definition ToStr (w : bitWord) (bs : list Z) : option (list Z) :=
  let m := byteCap w in
  let sz := (zlen bs + m - 1) / m in
  opt_all (map (ToStr_byte w bs) (zrange sz)).

Definition ToStrs (w : bitWord) (bss : list (list Z)) : option (list (list Z)) :=
  opt_all (map (ToStr w) bss).

(** [i := w.width * ith; end := (i + w.width - 1) & 7; word := s[i>>3];
     return (word >> uint(7-end)) & w.wordMask]   ([s[..]] out of range panics: None) *)
Definition Get (w : bitWord) (s : list Z) (ith : Z) : option Z :=
  let i := width w * ith in
  let end_ := Z.land (i + width w - 1) 7 in
  match nthZ s (Z.shiftr i 3) with
  | Some word => Some (Z.land (shr8 word (7 - end_)) (wordMask w))
  | None => None
  end.

(** [for i := from; i < end; i++ { if w.Get(a, i) != w.Get(b, i) { return i } }; return end]
    fuel = number of iterations the loop can make *)
Fixpoint FirstDiff_loop (w : bitWord) (a b : list Z) (i end_ : Z) (fuel : nat) : option Z :=
  if i <? end_ then
    match fuel with
    | O => None
    | S f =>
        match Get w a i, Get w b i with
        | Some x, Some y => if x =? y then FirstDiff_loop w a b (i + 1) end_ f else Some i
        | _, _ => None
        end
    end
  else Some end_.

Definition FirstDiff (w : bitWord) (a b : list Z) (from end_ : Z) : option Z :=
  let la := zlen a * byteCap w in
  let lb := zlen b * byteCap w in
  let end_ := if end_ =? -1 then la else end_ in
  let end_ := if end_ >? la then la else end_ in
  let end_ := if end_ >? lb then lb else end_ in
  FirstDiff_loop w a b from end_ (Z.to_nat (end_ - from)).
