(** Model of /repo/bmtree/index.go: IndexToPath and its lookup table idxToPath,
    with the int32 / uint64 wraps and conversions exactly where the Go code has
    them.  [treeheight], [index] are int32 (Z in [-2^31, 2^31)), the result is
    a uint64 path word.  [None] = the Go code panics (table index out of range)
    or the loop fuel is exhausted (excluded by the theorems).

<<
func IndexToPath(treeheight int32, index int32) uint64 {
	p2 := uint64(0)
	mask := uint64(0x0100000001) << uint(treeheight)
	if treeheight > 4 {
		i1 := index - treeheight                       // may overflow but ok
		i2 := index
		diffbits := 32 - int32(bits.LeadingZeros32(uint32(i1^i2)))
		fixed := treeheight + 1 - diffbits
		var m uint64
		if fixed > 0 {
			m = (mask << 1) - (uint64(0x0100000001) << uint(diffbits))
			p2 = ((uint64(index) << 32) | 0x00000000ffffffff) & m
			index = index&int32(^m) - fixed + int32(bits.OnesCount32(uint32(index&int32(m))))
			mask >>= uint(fixed)
		}
	}
	for mask&15 == 0 && index > 0 {
		maskAndPathBit := ((uint64(index) << 32) | 0x00000000ffffffff) & mask
		p2 |= maskAndPathBit
		if int32(maskAndPathBit>>32) == 0 { index-- } else { index -= int32(maskAndPathBit >> 32) }
		mask = mask >> 1
	}
	p2 = (p2 >> 1) | idxToPath[mask&15][index]
	return p2
}
>> *)
From Coq Require Import ZArith List Bool.
From Low Require Import Lib.MachInt Lib.Bits Lib.BitSeq.
Import ListNotations.
Open Scope Z_scope.

(** [uint(x)] of an int32 [x] on amd64: sign extension to 64 bits *)
Definition uint_of_i32 (x : Z) : Z := u64 x.

(** [var idxToPath = [][]uint64{0: {…}, 1: {…}, 2: {…}, 4: {…}, 8: {…}}]: a
    slice of length 9 whose rows 3, 5, 6, 7 are nil; written as the literal is
    written ([(hi << 32) + lo]) *)
Definition row (l : list (Z * Z)) : list Z := map (fun p => fst p * 2 ^ 32 + snd p) l.

Definition idxToPath : list (list Z) :=
  [ (* 0 *) [0];
    (* 1 *) row [(0, 0)];
    (* 2 *) row [(0, 0); (0, 1); (1, 1)];
    (* 3 *) [];
    (* 4 *) row [(0, 0); (0, 2); (0, 3); (1, 3); (2, 2); (2, 3); (3, 3)];
    (* 5 *) []; (* 6 *) []; (* 7 *) [];
    (* 8 *) row [(0, 0); (0, 4); (0, 6); (0, 7); (1, 7); (2, 6); (2, 7); (3, 7);
                 (4, 4); (4, 6); (4, 7); (5, 7); (6, 6); (6, 7); (7, 7)] ].

(** [idxToPath[k][index]] with Go's bounds checks *)
Definition idxToPath_at (k index : Z) : option Z :=
  match nthZ idxToPath k with
  | Some r => nthZ r index
  | None => None
  end.

Definition c01 : Z := 0x0100000001.

(** [((uint64(index) << 32) | 0x00000000ffffffff)] *)
Definition idxword (index : Z) : Z := Z.lor (shl64 (u64 index) 32) 0xffffffff.

(** the common-prefix shortcut: returns (p2, index, mask) *)
Definition shortcut (treeheight index mask : Z) : Z * Z * Z :=
  if 4 <? treeheight then
    let i1 := i32 (index - treeheight) in
    let i2 := index in
    let diffbits := i32 (32 - i32 (lz32 (u32 (Z.lxor i1 i2)))) in
    let fixed := i32 (i32 (treeheight + 1) - diffbits) in
    if 0 <? fixed then
      let m := u64 (shl64 mask 1 - shl64 c01 (uint_of_i32 diffbits)) in
      let p2 := Z.land (idxword index) m in
      let index' :=
        i32 (i32 (Z.land index (i32 (not64 m)) - fixed)
             + i32 (popcount (u32 (Z.land index (i32 m))))) in
      (p2, index', shr64 mask (uint_of_i32 fixed))
    else (0, index, mask)
  else (0, index, mask).

(** the descent loop; at most 64 shifts empty [mask], 30 suffice on the domain *)
Fixpoint descent_loop (fuel : nat) (p2 index mask : Z) : option (Z * Z * Z) :=
  if (Z.land mask 15 =? 0) && (0 <? index) then
    match fuel with
    | O => None
    | S f =>
        let mb := Z.land (idxword index) mask in
        let p2 := Z.lor p2 mb in
        let hi := i32 (shr64 mb 32) in
        let index := if hi =? 0 then i32 (index - 1) else i32 (index - hi) in
        descent_loop f p2 index (shr64 mask 1)
    end
  else Some (p2, index, mask).

Definition IndexToPath (treeheight index : Z) : option Z :=
  let mask := shl64 c01 (uint_of_i32 treeheight) in
  let '(p2, index, mask) := shortcut treeheight index mask in
  match descent_loop 64 p2 index mask with
  | None => None
  | Some (p2, index, mask) =>
      match idxToPath_at (Z.land mask 15) index with
      | Some t => Some (Z.lor (shr64 p2 1) t)
      | None => None
      end
  end.
