(** Model of /repo/bitmap/tailbitmap.go with Go's int64 arithmetic made explicit.

    Model/TailBitmap.v uses unbounded [Z] (DESIGN section 3).  Here every int64 operation of the
    source that can leave the int64 range is wrapped with [i64]: [idx - tb.Offset] (Set, Get, Get1),
    [tb.Offset += 64] and [tb.Offset - tb.reclaimed] (Compact).  [idx >> 6] on an int64 is the
    arithmetic shift (= [Z.shiftr] on the signed value), [idx & 63] is [Z.land]; [int(wordIdx)] is the
    identity on a 64-bit platform; a negative [wordIdx] makes the loop condition false and then
    [tb.Words[wordIdx]] panics.  Proofs/TailBitmapI64Proofs.v shows that the two models agree while
    offsets and indices stay within +-2^62, and exhibits the wrap at the top of the int64 range. *)
From Coq Require Import ZArith List Bool.
From Low Require Import Lib.MachInt Lib.Bits Lib.BitSeq Model.TailBitmap.
Import ListNotations.
Open Scope Z_scope.

Fixpoint compact_loop64 (off : Z) (ws : list Z) : Z * list Z :=
  match ws with
  | w :: t => if w =? allOnes then compact_loop64 (i64 (off + 64)) t else (off, ws)
  | [] => (off, [])
  end.

Definition Compact64 (s : tb) : tb :=
  let (off, ws) := compact_loop64 (Offset s) (Words s) in
  if i64 (off - reclaimed s) >=? reclaimThreshold then mkTB off ws off
  else mkTB off ws (reclaimed s).

Definition Set64 (s : tb) (idx : Z) : option tb :=
  if idx <? Offset s then Some s
  else
    let idx := i64 (idx - Offset s) in
    let wordIdx := Z.shiftr idx 6 in
    let ws := grow (Words s) wordIdx in
    match updateZ wordIdx (fun w => Z.lor w (Bit (Z.land idx 63))) ws with
    | None => None
    | Some ws' =>
        let s' := mkTB (Offset s) ws' (reclaimed s) in
        if wordIdx =? 0 then Some (Compact64 s') else Some s'
    end.

Definition Get64 (s : tb) (idx : Z) : option Z :=
  if idx <? Offset s then Some (Bit (Z.land idx 63))
  else
    let idx := i64 (idx - Offset s) in
    match nthZ (Words s) (Z.shiftr idx 6) with
    | Some w => Some (Z.land w (Bit (Z.land idx 63)))
    | None => None
    end.

Definition Get1_64 (s : tb) (idx : Z) : option Z :=
  if idx <? Offset s then Some 1
  else
    let idx := i64 (idx - Offset s) in
    match nthZ (Words s) (Z.shiftr idx 6) with
    | Some w => Some (Z.land (Z.shiftr w (Z.land idx 63)) 1)
    | None => None
    end.

Definition step64 (s : tb) (o : op) : option (tb * Z) :=
  match o with
  | OSet idx => match Set64 s idx with Some s' => Some (s', 0) | None => None end
  | OCompact => Some (Compact64 s, 0)
  | OGet j => match Get64 s j with Some r => Some (s, r) | None => None end
  | OGet1 j => match Get1_64 s j with Some r => Some (s, r) | None => None end
  end.

Fixpoint run64 (s : tb) (ops : list op) : option (tb * list Z) :=
  match ops with
  | [] => Some (s, [])
  | o :: t =>
      match step64 s o with
      | None => None
      | Some (s', r) =>
          match run64 s' t with
          | None => None
          | Some (s'', rs) => Some (s'', r :: rs)
          end
      end
  end.

(** [for idx := from; n times; idx++ { Set(idx) }]; the loop variable is an int64 too *)
Fixpoint set_up64 (n : nat) (s : tb) (idx : Z) : option tb :=
  match n with
  | O => Some s
  | S k => match Set64 s idx with Some s' => set_up64 k s' (i64 (idx + 1)) | None => None end
  end.

(** [for idx := start; n times; idx-- { Set(idx) }] *)
Fixpoint set_down64 (n : nat) (s : tb) (idx : Z) : option tb :=
  match n with
  | O => Some s
  | S k => match Set64 s idx with Some s' => set_down64 k s' (i64 (idx - 1)) | None => None end
  end.
