(** Model of /repo/bitstr/bitstr.go (same case splits, same index arithmetic,
    cmpBytes with its [la < 8] manual loop and its bytes.Compare branch).
    Byte slices and strings are [list Z]; [int]/[int32] arithmetic is unbounded
    [Z] here; Model/Bitstr32.v restates New and Len with the int32 wraps and
    Proofs/Bitstr32Proofs.v shows the two agree on the whole int32 range (the
    end byte is computed in int64 since the fix b2a771a).  A slice
    expression, index or [make] that Go would panic on gives [None]. *)
From Coq Require Import ZArith List Bool.
From Low Require Import Lib.MachInt Lib.Bits Lib.BitSeq Lib.Lex.
Import ListNotations.
Open Scope Z_scope.

(** [s[lo:hi]]: panics unless 0 <= lo <= hi <= len(s) *)
Definition sliceZ (s : list Z) (lo hi : Z) : option (list Z) :=
  if (0 <=? lo) && (lo <=? hi) && (hi <=? zlen s)
  then Some (firstn (Z.to_nat (hi - lo)) (skipn (Z.to_nat lo) s))
  else None.

(** [copy(dst, src)]: overwrites the first min(len) elements *)
Definition copyZ (dst src : list Z) : list Z :=
  let n := Nat.min (length dst) (length src) in
  firstn n src ++ skipn n dst.

(** [l[i] = x] (caller has checked the range) *)
Definition updZ (l : list Z) (i : Z) (x : Z) : list Z :=
  firstn (Z.to_nat i) l ++ x :: skipn (Z.to_nat i + 1) l.

(** [bytes.Compare]: lexicographic on unsigned bytes, proper prefix first (trusted base) *)
Definition bytesCompare (a b : list Z) : Z := cmp_sign (bytes_cmp a b).

(** [byte(bitmap.RMask[k])] *)
Definition rmask8 (k : Z) : Z := u8 (RMask k).

Definition New (s : list Z) (fromBit toBit : Z) : option (list Z) :=
  if (fromBit =? toBit) && (Z.land fromBit 7 =? 0) then Some [255]
  else
    let fromByte := Z.shiftr fromBit 3 in
    let toByte := Z.shiftr (toBit + 7) 3 in
    let l := toByte - fromByte in
    (* bitStr := make([]byte, l+1) *)
    if l + 1 <? 0 then None else
    let bitStr := repeat 0 (Z.to_nat (l + 1)) in
    (* copy(bitStr, s[fromBit>>3:toByte]) *)
    match sliceZ s (Z.shiftr fromBit 3) toByte with
    | None => None
    | Some src =>
        let bitStr := copyZ bitStr src in
        let mask := rmask8 (Z.land (8 - toBit) 7) in
        (* bitStr[l-1] &= mask *)
        match nthZ bitStr (l - 1) with
        | None => None
        | Some x =>
            let bitStr := updZ bitStr (l - 1) (Z.land x mask) in
            (* bitStr[l] = mask *)
            match nthZ bitStr l with
            | None => None
            | Some _ => Some (updZ bitStr l mask)
            end
        end
    end.

Definition Cmp (a b : list Z) : option Z :=
  let la := zlen a in
  let lb := zlen b in
  if la =? lb then Some (bytesCompare a b)
  else
    match sliceZ a 0 (la - 1), sliceZ b 0 (lb - 1) with
    | Some a', Some b' => Some (bytesCompare a' b')
    | _, _ => None
    end.

(** the manual loop of cmpBytes: [a], [b] are the suffixes from index i on;
    [b[i]] with i >= len(b) panics; after the loop [i < lb] iff the rest of b is non-empty *)
Fixpoint cmpBytes_loop (a b : list Z) : option Z :=
  match a with
  | [] => Some (match b with [] => 0 | _ :: _ => -1 end)
  | x :: a' =>
      match b with
      | [] => None
      | y :: b' =>
          if x <? y then Some (-1)
          else if x >? y then Some 1
          else cmpBytes_loop a' b'
      end
  end.

Definition cmpBytes (a b : list Z) : option Z :=
  if zlen a <? 8 then cmpBytes_loop a b else Some (bytesCompare a b).

Definition CmpUpto (a b : list Z) : option Z :=
  let la := zlen a in
  let lb := zlen b in
  if lb =? 1 then Some 0
  else if la <? lb - 1 then
    match sliceZ b 0 (lb - 1) with
    | Some b' => cmpBytes a b'
    | None => None
    end
  else
    let la := lb - 1 in
    match sliceZ a 0 (lb - 2), sliceZ b 0 (lb - 2) with
    | Some a', Some b' =>
        match cmpBytes a' b' with
        | None => None
        | Some rst =>
            if negb (rst =? 0) then Some rst
            else
              match nthZ a (la - 1), nthZ b (lb - 1), nthZ b (la - 1) with
              | Some x, Some m, Some byteb =>
                  let bytea := Z.land x m in
                  if bytea >? byteb then Some 1
                  else if bytea <? byteb then Some (-1)
                  else Some 0
              | _, _, _ => None
              end
        end
    | _, _ => None
    end.

(** StrCmpUpto builds a slice header over the string's bytes (Data, Len, Cap = Len;
    since the fix 907cc2b — before, it read a 3-word slice header out of the 2-word
    string header) and calls CmpUpto: the same function of the bytes in the model *)
Definition StrCmpUpto (a b : list Z) : option Z := CmpUpto a b.

(** [int32(l)<<3 - 16 + int32(bits.OnesCount8(bs[l-1]))] *)
Definition Len (bs : list Z) : option Z :=
  let l := zlen bs in
  match nthZ bs (l - 1) with
  | Some last => Some (l * 8 - 16 + popcount last)
  | None => None
  end.
