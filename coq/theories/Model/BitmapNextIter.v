(** How callers combine NextOne / PrevOne (compositions over Model/BitmapNext.v):
    walking the 1-bits of a range forwards with NextOne and backwards with
    PrevOne, and the bundle of calls that states the NextOne/PrevOne duality.
    Each is the Go loop of the harness executor (harness/c13w.go) verbatim. *)
From Coq Require Import ZArith List Bool.
From Low Require Import Lib.Bits Lib.BitSeq Model.BitmapNext.
Import ListNotations.
Open Scope Z_scope.

(** [for i < end { p := NextOne(bm, i, end); if p < 0 { break }; out = append(out, p); i = p + 1 }]
    ([i < end] guards the call: NextOne(bm, 64*len, 64*len) would read bm[len]) *)
Fixpoint IterNext_loop (fuel : nat) (bm : list Z) (i e : Z) : option (list Z) :=
  match fuel with
  | O => None
  | S f =>
      if i <? e then
        match NextOne bm i e with
        | None => None
        | Some p =>
            if p <? 0 then Some []
            else match IterNext_loop f bm (p + 1) e with
                 | None => None
                 | Some r => Some (p :: r)
                 end
        end
      else Some []
  end.

(** every round moves [i] forward by at least one *)
Definition IterNext (bm : list Z) (i e : Z) : option (list Z) :=
  IterNext_loop (S (Z.to_nat (e - i))) bm i e.

(** [for end > i { p := PrevOne(bm, i, end); if p < 0 { break }; out = append(out, p); end = p }] *)
Fixpoint IterPrev_loop (fuel : nat) (bm : list Z) (i e : Z) : option (list Z) :=
  match fuel with
  | O => None
  | S f =>
      if i <? e then
        match PrevOne bm i e with
        | None => None
        | Some p =>
            if p <? 0 then Some []
            else match IterPrev_loop f bm i p with
                 | None => None
                 | Some r => Some (p :: r)
                 end
        end
      else Some []
  end.

Definition IterPrev (bm : list Z) (i e : Z) : option (list Z) :=
  IterPrev_loop (S (Z.to_nat (e - i))) bm i e.

(** the duality bundle, for [i < end]:
    [n := NextOne(bm,i,end); p := PrevOne(bm,i,end)]
    [pn := PrevOne(bm,i,n+1)] if [n >= 0]        (the last 1 up to and including the first 1 is the first 1)
    [np := NextOne(bm,p,end)] if [p >= 0]        (the first 1 from the last 1 on is the last 1)
    [bn := PrevOne(bm,i,n)]   if [n > i]         (nothing before the first 1)
    [ap := NextOne(bm,p+1,end)] if [0 <= p], [p+1 < end]   (nothing after the last 1)
    skipped calls are reported as -1 *)
Definition NextPrevDual (bm : list Z) (i e : Z) : option (list Z) :=
  match NextOne bm i e, PrevOne bm i e with
  | Some n, Some p =>
      match (if n <? 0 then Some (-1) else PrevOne bm i (n + 1)),
            (if p <? 0 then Some (-1) else NextOne bm p e),
            (if n <=? i then Some (-1) else PrevOne bm i n),
            (if (p <? 0) || (e <=? p + 1) then Some (-1) else NextOne bm (p + 1) e) with
      | Some pn, Some np, Some bn, Some ap => Some [n; p; pn; np; bn; ap]
      | _, _, _, _ => None
      end
  | _, _ => None
  end.
