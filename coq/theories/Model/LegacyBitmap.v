(** The pre-fix [bitmap.Slice] (before /repo's "fix:" commit that added the
    missing [>> 6]): [r := make([]uint64, l)] with [l] the range length rounded
    up to a multiple of 64 *bits*.  Kept so that the defect stays recorded as a
    refuted statement (Properties/C14.v: [C14_slice_len_refuted]). *)
From Coq Require Import ZArith List Bool.
From Low Require Import Lib.MachInt Lib.Bits Lib.BitSeq Model.BitmapUtil Model.BitmapJoin.
Import ListNotations.
Open Scope Z_scope.

Definition Slice_legacy (words : list Z) (from to : Z) : option (list Z) :=
  let l := Z.land (to - from + 63) (-64) in
  match make_words l with
  | None => None
  | Some r => Slice_loop (Z.to_nat (to - from)) words from from to r
  end.
