(** Slice update helpers shared by the bitmap models (C12, C14):
    [r[k] |= v] with Go's bounds check. *)
From Coq Require Import ZArith List Bool.
From Low Require Import Lib.MachInt Lib.Bits Lib.BitSeq.
Import ListNotations.
Open Scope Z_scope.

Fixpoint set_nth {A} (l : list A) (n : nat) (x : A) : list A :=
  match l, n with
  | [], _ => []
  | _ :: t, O => x :: t
  | a :: t, S m => a :: set_nth t m x
  end.

(** [r[k] |= v]; [None] = index out of range (Go panics) *)
Definition or_at (r : list Z) (k v : Z) : option (list Z) :=
  match nthZ r k with
  | None => None
  | Some old => Some (set_nth r (Z.to_nat k) (Z.lor old v))
  end.

(** [make([]uint64, n)]; [None] = negative length (Go panics) *)
Definition make_words (n : Z) : option (list Z) :=
  if n <? 0 then None else Some (repeat 0 (Z.to_nat n)).
