(** C01 widening: the composites of bitmap/rank.go that the harness executes (models of the op bundles).

    - [query f ws i]: build the index of flavour [f] for [ws], then ask it for position [i];
    - [query32]: the same through the int32-faithful model (Model/Rank32.v), for ANY int32 position;
    - [query_parts]: rank in a bitmap kept as two pieces [a], [b] with their own indexes
      (the count of [a] comes from the trailing entry of [IndexRank64 a true]);
    - [hrun]: a history over several bitmaps that are queried in any order and overwritten in place word by
      word, every index of the overwritten bitmap being rebuilt (as a caller must). *)
From Coq Require Import ZArith List Bool.
From Low Require Import Lib.MachInt Lib.Bits Lib.BitSeq Spec.RankLawsSpec Model.Rank Model.Rank32.
Import ListNotations.
Open Scope Z_scope.

(** [flavour], [hstep], [hobs], [set_nth]: the vocabulary of Spec/RankLawsSpec.v *)

Definition query (f : flavour) (ws : list Z) (i : Z) : option (Z * Z) :=
  match f with
  | F64 tr => Rank64 ws (IndexRank64 ws tr) i
  | F128 => Rank128 ws (IndexRank128 ws) i
  end.

Definition query32 (f : flavour) (ws : list Z) (i : Z) : option (Z * Z) :=
  match f with
  | F64 tr => Rank64_32 ws (IndexRank64_32 ws tr) i
  | F128 => Rank128_32 ws (IndexRank128_32 ws) i
  end.

(** [idx := IndexRank64(a, true); idx[len(a)]] *)
Definition trailing_total (ws : list Z) : option Z := nthZ (IndexRank64 ws true) (zlen ws).

Definition query_parts (f : flavour) (a b : list Z) (i : Z) : option (Z * Z) :=
  if i <? 64 * zlen a then query f a i
  else
    match trailing_total a with
    | None => None
    | Some t =>
        match query f b (i - 64 * zlen a) with
        | None => None
        | Some (r, bit) => Some (t + r, bit)
        end
    end.

(** run-length encoded bitmaps (the compact argument form of the large-bitmap ops): [(count, word)] runs,
    expanded the same way on the Go side *)
Definition expand_rle (runs : list (Z * Z)) : list Z :=
  concat (map (fun p => repeat (snd p) (Z.to_nat (fst p))) runs).

(** * histories *)
Record bmst : Type := { st_ws : list Z; st_i64 : list Z; st_i64t : list Z; st_i128 : list Z }.

Definition build (ws : list Z) : bmst :=
  {| st_ws := ws; st_i64 := IndexRank64 ws false; st_i64t := IndexRank64 ws true; st_i128 := IndexRank128 ws |}.

Definition hquery (f : flavour) (s : bmst) (i : Z) : option (Z * Z) :=
  match f with
  | F64 false => Rank64 (st_ws s) (st_i64 s) i
  | F64 true => Rank64 (st_ws s) (st_i64t s) i
  | F128 => Rank128 (st_ws s) (st_i128 s) i
  end.

(** [None] = the step is outside the domain of the op (no such bitmap / no such word) *)
Definition hstep_run (st : list bmst) (s : hstep) : option (list bmst * hobs) :=
  match s with
  | HQ f b i =>
      match nthZ st b with
      | None => None
      | Some s => Some (st, OQ (hquery f s i))
      end
  | HSet b k w =>
      match nthZ st b with
      | None => None
      | Some s =>
          if (0 <=? k) && (k <? zlen (st_ws s)) then
            let s' := build (set_nth (st_ws s) (Z.to_nat k) w) in
            Some (set_nth st (Z.to_nat b) s', OT (nthZ (st_i64t s') (zlen (st_ws s'))))
          else None
      end
  end.

Fixpoint hrun (st : list bmst) (steps : list hstep) : option (list hobs) :=
  match steps with
  | [] => Some []
  | s :: t =>
      match hstep_run st s with
      | None => None
      | Some (st', o) =>
          match hrun st' t with
          | None => None
          | Some os => Some (o :: os)
          end
      end
  end.
