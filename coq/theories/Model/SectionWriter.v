(** Model of /repo/iohelper/iohelper.go: SectionWriter, NewSectionWriter, AtToWriter.

    All three fields are Go [int64]; every addition/subtraction the code
    performs is wrapped with [i64] (Lib/MachInt.v), because the wrap IS the
    observable behaviour of e.g. [AtToWriter(w, 100).Seek(1, io.SeekEnd)].

    The underlying [io.WriterAt] is not code of the repo: it is an oracle, a
    script of responses consumed one per call.  A response [(k, e)] makes
    [w.WriteAt(p, off)] return [(min k len(p), e)]: any count up to len(p),
    with or without an error ([e = 0] is nil).  An exhausted script writes
    everything.  Every theorem quantifies over all scripts.

    Error classes (small ints, the same on the Go side):
      0 nil, 1 io.ErrShortWrite, 3 errWhence, 4 errOffset,
      any other code: the error the underlying writer returned (passed through).

    Slicing [p[0:max]] cannot panic on the property's domain (there
    0 <= max < len(p) whenever it is executed), so the model is total. *)
From Coq Require Import ZArith List Bool.
From Low Require Import Lib.MachInt Lib.BitSeq.
Import ListNotations.
Open Scope Z_scope.

Record sw : Type := mkSW {
  base  : Z;   (* section start (absolute) *)
  off   : Z;   (* write cursor (absolute) *)
  limit : Z    (* section end (absolute) *)
}.

(** [const maxOffset int64 = 0x7fffffffffffffff] *)
Definition maxOffset : Z := 2^63 - 1.

Definition E_nil : Z := 0.
Definition E_short : Z := 1.      (* io.ErrShortWrite *)
Definition E_whence : Z := 3.     (* errWhence *)
Definition E_offset : Z := 4.     (* errOffset *)

(** [&SectionWriter{w, off, off, off + n}] *)
Definition NewSectionWriter (off n : Z) : sw := mkSW off off (i64 (off + n)).

(** [NewSectionWriter(w, offset, maxOffset-offset)] *)
Definition AtToWriter (offset : Z) : sw := NewSectionWriter offset (i64 (maxOffset - offset)).

(** the oracle *)
Definition resp : Type := (Z * Z)%type.          (* count offered, error code *)
Definition ucall : Type := (Z * list Z)%type.     (* absolute offset, bytes received *)

Definition under (script : list resp) (p : list Z) : (Z * Z) * list resp :=
  match script with
  | [] => ((zlen p, E_nil), [])
  | (k, e) :: t => ((Z.min k (zlen p), e), t)
  end.

(** result of one method call: return values and the calls that reached the
    underlying writer during it *)
Record out : Type := mkOut { rets : list Z; ucalls : list ucall }.

(** [Write(p)] *)
Definition Write (s : sw) (script : list resp) (p : list Z) : sw * list resp * out :=
  if off s >=? limit s then (s, script, mkOut [0; E_short] [])
  else
    let max := i64 (limit s - off s) in
    let '(p', err) :=
      if zlen p >? max then (firstn (Z.to_nat max) p, E_short) else (p, E_nil) in
    let '((n, err2), script') := under script p' in           (* n, err2 := s.w.WriteAt(p, s.off) *)
    let s' := mkSW (base s) (i64 (off s + n)) (limit s) in    (* s.off += int64(n) *)
    let err := if err2 =? E_nil then err else err2 in         (* if err2 != nil { err = err2 } *)
    (s', script', mkOut [n; err] [(off s, p')]).

(** [Seek(offset, whence)] *)
Definition Seek (s : sw) (offset whence : Z) : sw * out :=
  let target :=
    if whence =? 0 then Some (i64 (offset + base s))          (* io.SeekStart *)
    else if whence =? 1 then Some (i64 (offset + off s))      (* io.SeekCurrent *)
    else if whence =? 2 then Some (i64 (offset + limit s))    (* io.SeekEnd *)
    else None in
  match target with
  | None => (s, mkOut [0; E_whence] [])
  | Some offset =>
      if offset <? base s then (s, mkOut [0; E_offset] [])
      else (mkSW (base s) offset (limit s), mkOut [i64 (offset - base s); E_nil] [])
  end.

(** [WriteAt(p, off)] *)
Definition WriteAt (s : sw) (script : list resp) (p : list Z) (o : Z) : sw * list resp * out :=
  if (o <? 0) || (o >=? i64 (limit s - base s)) then (s, script, mkOut [0; E_short] [])
  else
    let o := i64 (o + base s) in
    let max := i64 (limit s - o) in
    if zlen p >? max then
      let p' := firstn (Z.to_nat max) p in
      let '((n, err), script') := under script p' in
      let err := if err =? E_nil then E_short else err in
      (s, script', mkOut [n; err] [(o, p')])
    else
      let '((n, err), script') := under script p in
      (s, script', mkOut [n; err] [(o, p)]).

(** [Size()] *)
Definition Size (s : sw) : Z := i64 (limit s - base s).

Inductive call : Type :=
| CWrite (p : list Z)
| CWriteAt (p : list Z) (o : Z)
| CSeek (o whence : Z)
| CSize.

Definition step (s : sw) (script : list resp) (c : call) : sw * list resp * out :=
  match c with
  | CWrite p => Write s script p
  | CWriteAt p o => WriteAt s script p o
  | CSeek o wh => let (s', r) := Seek s o wh in (s', script, r)
  | CSize => (s, script, mkOut [Size s] [])
  end.

Fixpoint run (s : sw) (script : list resp) (cs : list call) : list out :=
  match cs with
  | [] => []
  | c :: t => let '(s', script', r) := step s script c in r :: run s' script' t
  end.
