(** Model of /repo/typehelper/toslice.go (C20 widening: the helper users combine
    with size.Of to measure the elements of a slice one by one).

      func ToSlice(arg interface{}) []interface{} {
        s := reflect.ValueOf(arg)
        if s.Kind() != reflect.Slice { panic("not a slice") }
        l := s.Len()
        rst := make([]interface{}, l)
        for i := 0; i < l; i++ { rst[i] = s.Index(i).Interface() }
        return rst
      }

    The model is generic in the element representation [A] and in [box : A -> B],
    what [s.Index(i).Interface()] makes of an element (Run/C20.v: on protocol
    values; Proofs/TypeHelperProofs.v: on the [value] trees of Model/Size.v).
    A slot of the result is [None] while it still holds the nil interface
    [make] put there.  No proofs in this file. *)
From Coq Require Import ZArith List Bool.
From Low Require Import Lib.BitSeq.
Import ListNotations.
Open Scope Z_scope.

(** what ToSlice sees of its argument *)
Inductive targ (A : Type) : Type :=
| ArgOther                      (* Kind() != Slice: nil, array, pointer to slice, string, ... *)
| ArgSlice (elems : list A).    (* a slice (nil or not) and its Len() elements *)
Arguments ArgOther {A}.
Arguments ArgSlice {A} elems.

Section ToSlice.
  Variables A B : Type.
  Variable box : A -> B.

  (** [rst[i] = x]; [None] = index out of range *)
  Fixpoint set_at (rst : list (option B)) (i : nat) (x : B) : option (list (option B)) :=
    match rst, i with
    | [], _ => None
    | _ :: t, O => Some (Some x :: t)
    | h :: t, S j => match set_at t j x with Some t' => Some (h :: t') | None => None end
    end.

  (** the loop [for i := 0; i < l; i++]; fuel exhaustion = None (never with fuel > l - i) *)
  Fixpoint fill (fuel : nat) (s : list A) (i l : Z) (rst : list (option B)) : option (list (option B)) :=
    match fuel with
    | O => None
    | S f =>
        if i <? l then
          match nthZ s i with
          | None => None                                   (* Index out of range *)
          | Some x =>
              match set_at rst (Z.to_nat i) (box x) with
              | None => None
              | Some rst' => fill f s (i + 1) l rst'
              end
          end
        else Some rst
    end.

  Definition ToSlice (arg : targ A) : option (list (option B)) :=
    match arg with
    | ArgOther => None                                     (* panic("not a slice") *)
    | ArgSlice s =>
        let l := Z.of_nat (length s) in
        let rst := repeat None (length s) in               (* make([]interface{}, l) *)
        fill (S (length s)) s 0 l rst
    end.
End ToSlice.
Arguments ToSlice {A B} box arg.
