(** Two section writers over ONE underlying writer, their calls interleaved --
    the way several structures share one file.  Nothing new is modelled: each
    call is a [step] of Model/SectionWriter.v on the state of the writer it is
    addressed to; the two states are independent values and the underlying
    writer's response script is consumed in the global order of the calls.
    (A SectionWriter that kept part of its state outside the struct -- a
    package-level cursor, a shared scratch buffer -- would differ exactly here.) *)
From Coq Require Import ZArith List Bool.
From Low Require Import Lib.MachInt Lib.BitSeq Model.SectionWriter.
Import ListNotations.
Open Scope Z_scope.

(** which writer (0: the first, anything else: the second), and the call *)
Definition wcall : Type := (Z * call)%type.

Definition step2 (st : sw * sw) (sc : list resp) (wc : wcall) : (sw * sw) * list resp * out :=
  if fst wc =? 0
  then let '(s', sc', r) := step (fst st) sc (snd wc) in ((s', snd st), sc', r)
  else let '(s', sc', r) := step (snd st) sc (snd wc) in ((fst st, s'), sc', r).

Fixpoint run2 (st : sw * sw) (sc : list resp) (wcs : list wcall) : list out :=
  match wcs with
  | [] => []
  | wc :: t => let '(st', sc', r) := step2 st sc wc in r :: run2 st' sc' t
  end.
