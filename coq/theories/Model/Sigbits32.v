(** Model of /repo/sigbits (firstdiff.go, countprefixes.go, sigbits.go,
    sigbits_countprefixes.go) with Go's int32 arithmetic made explicit.

    Model/Sigbits.v keeps every [int32] as an unbounded [Z] and lets the
    theorems carry the size hypotheses.  This file restates the same functions,
    same loops, with an [i32] wrap at every place where the Go code converts to
    or computes in [int32] ([int32(first)], [int32(minl)], [maxitem-1], [d -= min],
    [counts[d]++], [rst[i] + counts[i]], [keyEnd-1]).  Go's [int] (64 bits: [len],
    [i], [i<<3 + first], [l1], [l2], [minl]) stays unbounded: a string of 2^60 bytes
    does not exist.  Proofs/Sigbits32Proofs.v shows that under the size
    hypotheses both models agree, hence the C16 theorems hold of this one too.
    No proofs in this file. *)
From Coq Require Import ZArith List Bool.
From Low Require Import Lib.MachInt Lib.Bits Lib.BitSeq Model.Sigbits.
Import ListNotations.
Open Scope Z_scope.

(** * firstdiff.go *)
Fixpoint sfd_loop32 (fuel : nat) (a b : list Z) (la lb minl i : Z) : option Z :=
  match fuel with
  | O => None
  | S fuel' =>
      if (i <? la) && (i <? lb) then
        let au := get64Bits (skipn (Z.to_nat i) a) in
        let bu := get64Bits (skipn (Z.to_nat i) b) in
        let first := lz64 (Z.lxor au bu) in
        if first <? 64 then
          let first := i * 8 + first in
          if first <? minl then Some (i32 first)      (* return int32(first) *)
          else Some (i32 minl)                        (* return int32(minl) *)
        else sfd_loop32 fuel' a b la lb minl (i + 8)
      else Some (i32 minl)
  end.

Definition sFirstDiffBit32 (a b : list Z) : option Z :=
  let la := zlen a in
  let lb := zlen b in
  let l1 := la * 8 in
  let l2 := lb * 8 in
  let minl := if l1 >? l2 then l2 else l1 in
  sfd_loop32 (S (length a)) a b la lb minl 0.

Fixpoint fdb_loop32 (keys : list (list Z)) : option (list Z) :=
  match keys with
  | a :: ((b :: _) as t) =>
      match sFirstDiffBit32 a b, fdb_loop32 t with
      | Some d, Some ds => Some (d :: ds)
      | _, _ => None
      end
  | _ => Some []
  end.

Definition FirstDiffBits32 (keys : list (list Z)) : option (list Z) :=
  if zlen keys - 1 <? 0 then None else fdb_loop32 keys.

(** * countprefixes.go *)

(** [counts[d]++] on an [[]int32] *)
Fixpoint incr_at32 (l : list Z) (n : nat) : option (list Z) :=
  match l, n with
  | [], _ => None
  | x :: t, O => Some (i32 (x + 1) :: t)
  | x :: t, S n' => match incr_at32 t n' with Some t' => Some (x :: t') | None => None end
  end.

Definition incr_atZ32 (l : list Z) (d : Z) : option (list Z) :=
  if d <? 0 then None else incr_at32 l (Z.to_nat d).

(** [for _, d := range firstdiffs { d -= min; if d < maxitem-1 { counts[d]++ } }] *)
Fixpoint cp_hist32 (firstdiffs : list Z) (min maxitem : Z) (counts : list Z) : option (list Z) :=
  match firstdiffs with
  | [] => Some counts
  | d :: t =>
      let d := i32 (d - min) in
      if d <? i32 (maxitem - 1) then
        match incr_atZ32 counts d with
        | Some counts' => cp_hist32 t min maxitem counts'
        | None => None
        end
      else cp_hist32 t min maxitem counts
  end.

(** [rst[i+1] = rst[i] + counts[i]] *)
Fixpoint cp_sums32 (last : Z) (counts : list Z) : list Z :=
  last :: match counts with
          | [] => []
          | c :: t => cp_sums32 (i32 (last + c)) t
          end.

Definition countPrefixes32 (firstdiffs : list Z) (maxitem : Z) : option (Z * list Z) :=
  let min := cp_min firstdiffs in                  (* comparisons only *)
  let n := i32 (maxitem - 1) in
  if n <? 0 then None                              (* make([]int32, maxitem-1) *)
  else if maxitem <? 0 then None                   (* make([]int32, maxitem) *)
  else
    let counts := repeat 0 (Z.to_nat n) in
    match cp_hist32 firstdiffs min maxitem counts with
    | None => None
    | Some counts => Some (min, cp_sums32 1 counts)   (* len(rst) = maxitem = len(counts)+1 for an int32 maxitem *)
    end.

(** * sigbits.go, sigbits_countprefixes.go *)
Definition New32 (keys : list (list Z)) : option SigBits :=
  match FirstDiffBits32 keys with
  | Some ds => Some {| sb_keys := keys; sb_sigbits := ds |}
  | None => None
  end.

Definition CountPrefixes32 (sb : SigBits) (keyStart keyEnd maxitem : Z) : option (Z * list Z) :=
  match sliceZ (sb_sigbits sb) keyStart (i32 (keyEnd - 1)) with
  | Some fds => countPrefixes32 fds maxitem
  | None => None
  end.
