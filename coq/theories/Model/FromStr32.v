(** Model of /repo/bitmap/fromstr32.go (FromStr32) and /repo/bmtree/newpath.go
    (PathOf, PathsOf; NewPath is in Model/BmtreePath.v, PathStr in
    Model/BmtreePathStr.v).  Strings are [list Z] of bytes.  No proofs here. *)
From Coq Require Import ZArith List Bool.
From Low Require Import Lib.MachInt Lib.Bits Lib.BitSeq Model.BmtreePath.
Import ListNotations.
Open Scope Z_scope.

(** [bitmap.Mask[i]]: a [65]uint64 array, an index outside [0,64] panics *)
Definition MaskAt (i : Z) : option Z :=
  if (0 <=? i) && (i <=? 64) then Some (Mask i) else None.

(** the five nested loads of FromStr32:
      if i < l { b |= uint64(s[i]) << 32; i++; if i < l { b |= uint64(s[i]) << 24; i++; ... } }
    [s[i]] panics when i is outside the string. *)
Definition gather (s : list Z) (i l : Z) : option Z :=
  let b := 0 in
  if i <? l then
    match nthZ s i with None => None | Some c0 =>
    let b := Z.lor b (shl64 c0 32) in let i := i + 1 in
    if i <? l then
      match nthZ s i with None => None | Some c1 =>
      let b := Z.lor b (shl64 c1 24) in let i := i + 1 in
      if i <? l then
        match nthZ s i with None => None | Some c2 =>
        let b := Z.lor b (shl64 c2 16) in let i := i + 1 in
        if i <? l then
          match nthZ s i with None => None | Some c3 =>
          let b := Z.lor b (shl64 c3 8) in let i := i + 1 in
          if i <? l then
            match nthZ s i with None => None | Some c4 =>
            Some (Z.lor b c4)
            end
          else Some b
          end
        else Some b
        end
      else Some b
      end
    else Some b
    end
  else Some b.

(** FromStr32(s, frombit, tobit) (int32, uint64); all int32 arithmetic wraps *)
Definition FromStr32 (s : list Z) (frombit tobit : Z) : option (Z * Z) :=
  let size := i32 (tobit - frombit) in
  (* frombit & ^7 on int32: ^7 = -8 *)
  let spanSize := i32 (tobit - Z.land frombit (-8)) in
  let blen := i32 (i32 (zlen s * 8) - frombit) in
  let blen := if blen >? size then size else blen in
  if blen <=? 0 then Some (0, 0) else
  let l := i32 (zlen s) in
  let toByte := sar32 (i32 (tobit + 7)) 3 in
  let l := if l >? toByte then toByte else l in
  let i := sar32 frombit 3 in
  match gather s i l with
  | None => None
  | Some b =>
    match MaskAt size with
    | None => None
    | Some m =>
      (* b >> uint(40-spanSize): a negative count converts to a huge uint, result 0 *)
      let sh := i32 (40 - spanSize) in
      Some (blen, Z.land (if sh <? 0 then 0 else shr64 b sh) m)
    end
  end.

(** NewPath with the array bound of Mask[length] and Go's shift of a negative-converted count *)
Definition NewPathChk (searchingBits length height : Z) : option Z :=
  match MaskAt length with
  | None => None
  | Some m =>
    let sh := i32 (height - length) in
    Some (Z.lor (shl64 searchingBits 32) (if sh <? 0 then 0 else shl64 m sh))
  end.

(** PathOf(s, frombit, height) = NewPath(FromStr32(s, frombit, frombit+height)) *)
Definition PathOf (s : list Z) (frombit height : Z) : option Z :=
  match FromStr32 s frombit (i32 (frombit + height)) with
  | None => None
  | Some (plen, path) => NewPathChk path plen height
  end.

(** PathsOf: the range loop with index [i] and the previous path [prev]
    (code after the fix c22b978: the first path is always kept) *)
Fixpoint PathsOf_loop (keys : list (list Z)) (frombit height : Z) (dedup : bool) (i prev : Z)
  : option (list Z) :=
  match keys with
  | [] => Some []
  | s :: t =>
    match PathOf s frombit height with
    | None => None
    | Some p =>
      match PathsOf_loop t frombit height dedup (i + 1) p with
      | None => None
      | Some r => Some (if negb dedup || (i =? 0) || negb (p =? prev) then p :: r else r)
      end
    end
  end.
Definition PathsOf (keys : list (list Z)) (frombit height : Z) (dedup : bool) : option (list Z) :=
  PathsOf_loop keys frombit height dedup 0 0.

(** PathStr (bmtree/pathstr.go) is modelled in Model/BmtreePathStr.v. *)
