(** int32-faithful model of /repo/bitmap/rank.go.

    Same algorithms as Model/Rank.v, but every Go [int32] operation wraps ([i32]), positions are
    [int32] values ([i >> 6] is an arithmetic shift, [i & 63] a two's-complement and, [i + 64] wraps),
    [uint32(i & 63)], [int32(w >> j) & 1] truncates to 32 bits first.  A slice access outside
    [0, len) is a panic = [None], in the order in which Go evaluates the accesses
    ([rindex[..]] before [words[..]]; both panics are the same observation).

    [i] is an [int32] argument: callers pass [- 2^31 <= i < 2^31]. *)
From Coq Require Import ZArith List Bool.
From Low Require Import Lib.MachInt Lib.Bits Lib.BitSeq.
Import ListNotations.
Open Scope Z_scope.

(** [n := int32(0); for i := 0; i < len(words); i++ { idx[i] = n; n += int32(bits.OnesCount64(words[i])) }] *)
Fixpoint IndexRank64_loop32 (ws : list Z) (n : Z) : list Z * Z :=
  match ws with
  | [] => ([], n)
  | w :: t => let (r, tot) := IndexRank64_loop32 t (i32 (n + i32 (popcount w))) in (n :: r, tot)
  end.

Definition IndexRank64_32 (ws : list Z) (trailing : bool) : list Z :=
  let (idx, n) := IndexRank64_loop32 ws 0 in
  if trailing then idx ++ [n] else idx.

(** [for i := 0; i < len(words); i += 2 { idx = append(idx, n); n += int32(pop(words[i]));
       if i < len(words)-1 { n += int32(pop(words[i+1])) } }] *)
Fixpoint IndexRank128_loop32 (ws : list Z) (n : Z) : list Z * Z :=
  match ws with
  | [] => ([], n)
  | [w] => ([n], i32 (n + i32 (popcount w)))
  | w0 :: w1 :: t =>
      let (r, tot) := IndexRank128_loop32 t (i32 (i32 (n + i32 (popcount w0)) + i32 (popcount w1))) in
      (n :: r, tot)
  end.

(** [len(words)&1] is an [int] (64-bit) operation: no wrap for any slice that fits in memory *)
Definition IndexRank128_32 (ws : list Z) : list Z :=
  let (idx, n) := IndexRank128_loop32 ws 0 in
  if Z.land (zlen ws) 1 =? 0 then idx ++ [n] else idx.

(** [wordI := i >> 6; j := uint32(i & 63); n := rindex[wordI]; w := words[wordI];
     c1 := n + int32(bits.OnesCount64(w&Mask[j])); return c1, int32(w>>uint(j)) & 1] *)
Definition Rank64_32 (ws rindex : list Z) (i : Z) : option (Z * Z) :=
  let wordI := sar32 i 6 in
  let j := u32 (Z.land i 63) in
  match nthZ rindex wordI with
  | None => None
  | Some n =>
      match nthZ ws wordI with
      | None => None
      | Some w =>
          Some (i32 (n + i32 (popcount (Z.land w (Mask j)))), Z.land (i32 (shr64 w j)) 1)
      end
  end.

(** [wordI := i >> 6; j := uint32(i & 63); atRight := wordI & 1; n := rindex[(i+64)>>7]; w := words[wordI];
     cnt1 := int32(pop(w)); c1 := n - atRight*cnt1 + int32(pop(w&Mask[j])); return c1, int32(w>>uint(j)) & 1] *)
Definition Rank128_32 (ws rindex : list Z) (i : Z) : option (Z * Z) :=
  let wordI := sar32 i 6 in
  let j := u32 (Z.land i 63) in
  let atRight := Z.land wordI 1 in
  match nthZ rindex (sar32 (i32 (i + 64)) 7) with
  | None => None
  | Some n =>
      match nthZ ws wordI with
      | None => None
      | Some w =>
          let cnt1 := i32 (popcount w) in
          Some (i32 (i32 (n - i32 (atRight * cnt1)) + i32 (popcount (Z.land w (Mask j)))),
                Z.land (i32 (shr64 w j)) 1)
      end
  end.
