(** Join.go / get.go / slice.go once more, with the int32 arithmetic of
    [Getw] and [Slice] written out ([i *= w] and [(to-from)+63] wrap; [i>>6] on
    a negative int32 is an arithmetic shift and then a negative index panics).
    Model/BitmapJoin.v computes the same positions in unbounded [Z];
    Proofs/GetwProofs.v proves the two agree while the positions fit int32.
    Also: the composition "split a bitmap into its w-bit elements with Getw,
    Join them again". *)
From Coq Require Import ZArith List Bool.
From Low Require Import Lib.MachInt Lib.Bits Lib.BitSeq Model.BitmapUtil Model.BitmapJoin.
Import ListNotations.
Open Scope Z_scope.

(** a slice read with Go's bounds check written out ([0 <= k < len]); equal to [nthZ], but does not
    convert a huge out-of-range index to a unary number first *)
Definition rd (bm : list Z) (k : Z) : option Z :=
  if (k <? 0) || (zlen bm <=? k) then None else nthZ bm k.

(** [func Getw(bm []uint64, i int32, w int32) uint64 { i *= w; return (bm[i>>6] >> uint(i&63)) & Mask[w] }] *)
Definition Getw32 (bm : list Z) (i w : Z) : option Z :=
  let i := i32 (i * w) in
  match rd bm (sar32 i 6) with
  | None => None
  | Some word =>
      if (w <? 0) || (64 <? w) then None                (* Mask[w]: index out of range *)
      else Some (Z.land (shr64 word (Z.land i 63)) (Mask w))
  end.

(** [l := ((to - from) + 63) & (^63); r := make([]uint64, l>>6); for i := from; i < to; i++ {…}] on int32 *)
Definition Slice32 (words : list Z) (from to : Z) : option (list Z) :=
  let l := Z.land (i32 (i32 (to - from) + 63)) (-64) in
  match make_words (sar32 l 6) with
  | None => None
  | Some r => Slice_loop (Z.to_nat (to - from)) words from from to r
  end.

Fixpoint all_some {A} (l : list (option A)) : option (list A) :=
  match l with
  | [] => Some []
  | Some x :: t => match all_some t with Some r => Some (x :: r) | None => None end
  | None :: _ => None
  end.

(** [n := 64*len(bm)/w; vs := make([]uint64, n); for i := range vs { vs[i] = Getw(bm, i, w) }; return Join(vs, w)] *)
Definition SplitJoin (bm : list Z) (w : Z) : option (list Z) :=
  if w =? 0 then None else                              (* integer divide by zero *)
  let n := Z.quot (64 * zlen bm) w in
  match all_some (map (fun i => Getw32 bm (Z.of_nat i) w) (seq 0 (Z.to_nat n))) with
  | None => None
  | Some vs => Join vs w
  end.
