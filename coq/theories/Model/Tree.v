(** Model of github.com/openacid/low/tree (tree.go): String (toStrings, nodeStr) and DepthFirst (depthFirst)
    over the abstract [Tree] interface.

    The interface is a record of functions [TreeI node label]; Go's [interface{}] arguments that may be nil are
    [option]s ([None] = nil; "a nil indicates root node").  A leaf value is printed with fmt's "%v": the values
    the harness uses are nil, ints, strings, bools and []int slices ([lval], [fmt_v] is the definitional model of "%v" on them).
    Strings are byte lists.  Recursion over an abstract interface need not terminate (an implementation may
    describe a cyclic graph): both walks take fuel, fuel exhaustion is [None] and is excluded by the theorems
    (any fuel above the height of the tree suffices).  The callback of DepthFirst is abstract: the model returns
    the list of its calls, in order.  Implementations are assumed to be pure (Labels/Child/... are functions).
    No proofs in this file. *)
From Coq Require Import ZArith List Bool.
From Low Require Import Lib.Decimal_xpk.
Import ListNotations.
Open Scope Z_scope.

Inductive lval := LNil | LInt (z : Z) | LStr (s : list Z) | LBool (b : bool) | LInts (l : list Z).

(** elements of a slice under "%v": separated by one space *)
Fixpoint fmt_ints (l : list Z) : list Z :=
  match l with
  | [] => []
  | [x] => dec_of_Z x
  | x :: t => dec_of_Z x ++ [32] ++ fmt_ints t
  end.

(** fmt.Sprintf("%v", v) *)
Definition fmt_v (v : lval) : list Z :=
  match v with
  | LNil => [60; 110; 105; 108; 62]                       (* "<nil>" *)
  | LInt z => dec_of_Z z
  | LStr s => s
  | LBool true => [116; 114; 117; 101]                    (* "true" *)
  | LBool false => [102; 97; 108; 115; 101]               (* "false" *)
  | LInts l => [91] ++ fmt_ints l ++ [93]                 (* "[1 2 3]", "[]" for an empty or nil slice *)
  end.

Record TreeI (node label : Type) := {
  t_child : option node -> option label -> option node;    (* Child(node, label) *)
  t_labels : option node -> list (option label);           (* Labels(node) *)
  t_nodeID : option node -> list Z;                        (* NodeID(node) *)
  t_labelInfo : option label -> list Z;                    (* LabelInfo(label) *)
  t_nodeInfo : option node -> list Z;                      (* NodeInfo(node) *)
  t_leafVal : option node -> lval * bool                   (* LeafVal(node) *)
}.
Arguments t_child {node label}.
Arguments t_labels {node label}.
Arguments t_nodeID {node label}.
Arguments t_labelInfo {node label}.
Arguments t_nodeInfo {node label}.
Arguments t_leafVal {node label}.

Section Walks.
Context {node label : Type}.
Variable t : TreeI node label.

(** nodeStr: the line of a node and the indent of its subtree.
      if inbranch != nil { line += fmt.Sprintf("-%v->", t.LabelInfo(inbranch)) }
      nodeid := t.NodeID(node); if nodeid != "" { line += "#" + nodeid }
      indent := len(line)
      line += t.NodeInfo(node)
      brCnt := len(t.Labels(node)); if brCnt > 1 { line += fmt.Sprintf("*%d", brCnt) }
      v, isLeaf := t.LeafVal(node); if isLeaf { line += fmt.Sprintf("=%v", v) } *)
Definition nodeStr (inbranch : option label) (n : option node) : list Z * Z :=
  let line := [] in
  let line := match inbranch with
              | Some _ => line ++ [45] ++ t_labelInfo t inbranch ++ [45; 62]
              | None => line end in
  let nodeid := t_nodeID t n in
  let line := match nodeid with [] => line | _ => line ++ [35] ++ nodeid end in
  let indent := Z.of_nat (length line) in
  let line := line ++ t_nodeInfo t n in
  let brCnt := Z.of_nat (length (t_labels t n)) in
  let line := if brCnt >? 1 then line ++ [42] ++ dec_of_Z brCnt else line in
  let '(v, isLeaf) := t_leafVal t n in
  let line := if isLeaf then line ++ [61] ++ fmt_v v else line in
  (line, indent).

(** strings.Repeat(" ", n) *)
Definition spaces (n : Z) : list Z := repeat 32 (Z.to_nat n).

(** toStrings: the node's line, then every line of every child's subtree behind the indent.
    [ts_loop] is the  for _, b := range t.Labels(node)  loop; [rec] is the recursive call (with the remaining fuel). *)
Fixpoint ts_loop (rec : option label -> option node -> option (list (list Z))) (n : option node) (indent : list Z)
                 (bs : list (option label)) (rst : list (list Z)) : option (list (list Z)) :=
  match bs with
  | [] => Some rst
  | b :: bs' =>
      match rec b (t_child t n b) with
      | Some sub => ts_loop rec n indent bs' (rst ++ map (fun s => indent ++ s) sub)
      | None => None
      end
  end.

Fixpoint toStrings (fuel : nat) (inbranch : option label) (n : option node) : option (list (list Z)) :=
  match fuel with
  | O => None
  | S f =>
      let '(line, ind) := nodeStr inbranch n in
      let indent := spaces ind in
      ts_loop (toStrings f) n indent (t_labels t n) [line]
  end.

(** strings.Join(lines, "\n") *)
Fixpoint join (sep : list Z) (l : list (list Z)) : list Z :=
  match l with
  | [] => []
  | [x] => x
  | x :: t => x ++ sep ++ join sep t
  end.

Definition String (fuel : nat) : option (list Z) :=
  match toStrings fuel None None with
  | Some lines => Some (join [10] lines)
  | None => None
  end.

(** depthFirst: the children in label order, then the node; returns the calls np(t, parent, label, node) *)
Definition call : Type := (option node * option label * option node)%type.

(** the  for _, b := range t.Labels(node)  loop of depthFirst; [rec] is the recursive call *)
Fixpoint df_loop (rec : option node -> option label -> option node -> option (list call)) (n : option node)
                 (bs : list (option label)) (acc : list call) : option (list call) :=
  match bs with
  | [] => Some acc
  | b :: bs' =>
      match rec n b (t_child t n b) with
      | Some calls => df_loop rec n bs' (acc ++ calls)
      | None => None
      end
  end.

Fixpoint depthFirst (fuel : nat) (parent : option node) (lb : option label) (n : option node) : option (list call) :=
  match fuel with
  | O => None
  | S f =>
      match df_loop (depthFirst f) n (t_labels t n) [] with
      | Some acc => Some (acc ++ [(parent, lb, n)])            (* np(t, parent, label, node) *)
      | None => None
      end
  end.

Definition DepthFirst (fuel : nat) : option (list call) :=
  depthFirst fuel None None (t_child t None None).

End Walks.
