(** A variant of the model function FromStr32 (Model/FromStr32.v) that is NOT the
    code: FromStr32 with the clip [if l > toByte { l = toByte }] removed.  Used only
    by the theorem C11_clip_redundant, which explains why that mutation is
    equivalent (docs/selftest-C11.md).  No proofs here. *)
From Coq Require Import ZArith List Bool.
From Low Require Import Lib.MachInt Lib.Bits Lib.BitSeq Model.FromStr32.
Import ListNotations.
Open Scope Z_scope.

Definition FromStr32_noclip (s : list Z) (frombit tobit : Z) : option (Z * Z) :=
  let size := i32 (tobit - frombit) in
  let spanSize := i32 (tobit - Z.land frombit (-8)) in
  let blen := i32 (i32 (zlen s * 8) - frombit) in
  let blen := if blen >? size then size else blen in
  if blen <=? 0 then Some (0, 0) else
  let l := i32 (zlen s) in
  let i := sar32 frombit 3 in
  match gather s i l with
  | None => None
  | Some b =>
    match MaskAt size with
    | None => None
    | Some m =>
      let sh := i32 (40 - spanSize) in
      Some (blen, Z.land (if sh <? 0 then 0 else shr64 b sh) m)
    end
  end.
