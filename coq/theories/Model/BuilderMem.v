(** Builder histories that use the exported fields directly, as callers do:
    - start from a struct literal [&Builder{Words: scratch[:k], Offset: off}] over a caller-supplied buffer
      (whatever lies in the buffer's spare capacity is not part of the builder),
    - roll back to a word-aligned checkpoint between calls: [b.Words = b.Words[:k]; b.Offset = 64*k].
    Extend/Set are the functions of Model/BitmapOf.v (they append ZERO words, so neither stale words beyond a
    roll-back nor junk in a scratch buffer can come back). *)
From Coq Require Import ZArith List Bool.
From Low Require Import Lib.MachInt Lib.Bits Lib.BitSeq Model.BitmapUtil Model.BuilderOps Model.BitmapOf.
Import ListNotations.
Open Scope Z_scope.

Inductive mop := MStep (o : bop) | MRollback (k : Z).

(** [b.Words = b.Words[:k]; b.Offset = 64*k]; [None] = k outside 0..len (the histories of the property re-slice
    within the length only) *)
Definition rollback (b : builder) (k : Z) : option builder :=
  if (0 <=? k) && (k <=? zlen (Words b)) then
    Some {| Words := firstn (Z.to_nat k) (Words b); Offset := 64 * k |}
  else None.

Definition mstep (b : builder) (o : mop) : option builder :=
  match o with
  | MStep o => bstep b o
  | MRollback k => rollback b k
  end.

(** the builder after every call, starting with the initial one *)
Fixpoint mrun (b : builder) (ops : list mop) : option (list builder) :=
  match ops with
  | [] => Some [b]
  | o :: t =>
      match mstep b o with
      | None => None
      | Some b' => match mrun b' t with None => None | Some r => Some (b :: r) end
      end
  end.
