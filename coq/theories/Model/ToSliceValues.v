(** Model of github.com/openacid/low/typehelper (toslice.go): ToSlice.

      s := reflect.ValueOf(arg)
      if s.Kind() != reflect.Slice { panic("not a slice") }
      l := s.Len(); rst := make([]interface{}, l)
      for i := 0; i < l; i++ { rst[i] = s.Index(i).Interface() }
      return rst

    A Go value is a [gval]: a value together with its dynamic type, which is what an [interface{}] holds.
    [reflect] is Go's library: [kind_of], [slice_len], [index_iface] are its definitional model
    (trusted, exercised by every correspondence run).  An element of a slice whose element type is an
    interface type is stored as the dynamic value it holds ([GNil] for a nil interface), so that
    [Value.Index(i).Interface()] is the element itself in both cases.  No proofs in this file. *)
From Coq Require Import ZArith List Bool.
From Low Require Import Lib.BitSeq.
Import ListNotations.
Open Scope Z_scope.

(** types (as far as the harness builds them) *)
Inductive gty :=
| TIface                      (* interface{} *)
| TScalar (k : Z)             (* bool, int..int64, uint..uint64: reflect.Kind numbers 1..11 *)
| TString
| TSlice (t : gty)
| TArray (t : gty) (n : Z)
| TPtr (t : gty).

(** values with their dynamic type *)
Inductive gval :=
| GNil                                    (* the nil interface: no value, no type *)
| GScalar (k : Z) (n : Z)
| GString (s : list Z)
| GSlice (t : gty) (flags : Z) (el : list gval)   (* flags: bit 0 = nil slice, bit 1 = named slice type *)
| GArray (t : gty) (el : list gval)
| GPtr (v : gval)
| GNilPtr (t : gty)
| GOther (tag : Z).                       (* map / struct / chan / func values: only their kind matters here *)

(** reflect.Kind numbers (reflect/type.go) *)
Definition K_Invalid : Z := 0.
Definition K_Array : Z := 17.
Definition K_Chan : Z := 18.
Definition K_Func : Z := 19.
Definition K_Map : Z := 21.
Definition K_Ptr : Z := 22.
Definition K_Slice : Z := 23.
Definition K_String : Z := 24.
Definition K_Struct : Z := 25.

(** reflect.ValueOf(arg).Kind() *)
Definition kind_of (v : gval) : Z :=
  match v with
  | GNil => K_Invalid
  | GScalar k _ => k
  | GString _ => K_String
  | GSlice _ _ _ => K_Slice
  | GArray _ _ => K_Array
  | GPtr _ | GNilPtr _ => K_Ptr
  | GOther tag => tag
  end.

(** the elements of a slice value (reflect: Len / Index); a nil slice has none *)
Definition slice_elems (v : gval) : list gval :=
  match v with GSlice _ _ el => el | _ => [] end.

(** rst[i] = x on a slice of length > i; [None] = index out of range *)
Fixpoint set_nth (l : list gval) (i : nat) (x : gval) : option (list gval) :=
  match l, i with
  | [], _ => None
  | _ :: t, O => Some (x :: t)
  | h :: t, S j => match set_nth t j x with Some t' => Some (h :: t') | None => None end
  end.
Definition set_nthZ (l : list gval) (i : Z) (x : gval) : option (list gval) :=
  if i <? 0 then None else set_nth l (Z.to_nat i) x.

(** the loop  for i := i; i < l; i++ { rst[i] = s.Index(i).Interface() }  *)
Fixpoint toSlice_loop (fuel : nat) (el : list gval) (i l : Z) (rst : list gval) : option (list gval) :=
  match fuel with
  | O => None
  | S f =>
      if i <? l then
        match nthZ el i with                      (* s.Index(i): panics when out of range *)
        | Some e =>
            match set_nthZ rst i e with           (* rst[i] = e.Interface() *)
            | Some rst' => toSlice_loop f el (i + 1) l rst'
            | None => None
            end
        | None => None
        end
      else Some rst
  end.

Definition ToSlice (arg : gval) : option (list gval) :=
  if negb (kind_of arg =? K_Slice) then None           (* panic("not a slice") *)
  else
    let el := slice_elems arg in
    let l := zlen el in                                (* s.Len() *)
    let rst := repeat GNil (Z.to_nat l) in             (* make([]interface{}, l): l nil interfaces *)
    toSlice_loop (S (Z.to_nat l)) el 0 l rst.
