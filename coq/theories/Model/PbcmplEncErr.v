(** Widening of C07: the error return of pbcmpl.marshal / pbcmpl.Marshal when
    proto.Marshal(msg) itself fails:
<<
	data, err := proto.Marshal(msg)
	if err != nil { return nil, nil, err }      // marshal
	...
	h, d, err := marshal(msg, ver)
	if err != nil { return 0, err }             // Marshal
>>
    The body encoder is partial here ([None] = proto.Marshal returned an error);
    the result carries the error CLASS (7 = the message's own marshalling error,
    otherwise [errclass]).  No proofs. *)
From Coq Require Import ZArith List Bool.
From Low Require Import Lib.MachInt Lib.BitSeq Model.Pbcmpl.
Import ListNotations.
Open Scope Z_scope.

Definition encode_errclass : Z := 7.

Definition Marshal_opt {Msg W : Type} (enc : Msg -> option (list Z))
    (write : W -> list Z -> Z * option perr * W) (w : W) (m : Msg) (ver : option (list Z))
    : option (Z * Z * W) :=
  match enc m with
  | None => Some (0, encode_errclass, w)
  | Some data =>
      match Marshal (fun _ => data) write w m ver with
      | None => None
      | Some (n, e, w') => Some (n, errclass e, w')
      end
  end.
