(** bmtree.PathsOf as it was BEFORE the repair c22b978 ("fix: bmtree.PathsOf with
    dedup dropped a leading all-ones path"): the loop compared every path,
    including the first, with the sentinel [prev := ^uint64(0)].  Kept only for
    the refutation theorem C11_PathsOf_refuted. *)
From Coq Require Import ZArith List Bool.
From Low Require Import Model.FromStr32.
Import ListNotations.
Open Scope Z_scope.

Fixpoint legacy_PathsOf_loop (keys : list (list Z)) (frombit height : Z) (dedup : bool) (prev : Z)
  : option (list Z) :=
  match keys with
  | [] => Some []
  | s :: t =>
    match PathOf s frombit height with
    | None => None
    | Some p =>
      match legacy_PathsOf_loop t frombit height dedup p with
      | None => None
      | Some r => Some (if negb dedup || negb (p =? prev) then p :: r else r)
      end
    end
  end.
Definition legacy_PathsOf (keys : list (list Z)) (frombit height : Z) (dedup : bool) : option (list Z) :=
  legacy_PathsOf_loop keys frombit height dedup (2^64 - 1).
