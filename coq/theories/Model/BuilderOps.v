(** The calls of a [bitmap.Builder] history (syntax only; shared by the model and the specification). *)
From Coq Require Import ZArith List.
Inductive bop := BExtend (ps : list Z) (size : Z) | BSet (p v : Z).
