(** Model of /repo/bmtree/allpaths.go (AllPaths) and decode.go (Decode).
    [bitmapSize] is an int32, [from], [to] and the words of [bm] are uint64.
    [None] = the Go code panics (table index out of range for bitmapSize = 0,
    bm[wordI] with a negative wordI). *)
From Coq Require Import ZArith List Bool.
From Low Require Import Lib.MachInt Lib.Bits Lib.BitSeq Model.BmtreePath Model.BmtreeIndex.
Import ListNotations.
Open Scope Z_scope.

(** the inner loop [for ; tz >= 0; tz-- { … }] for one full-length search value
    [i]; [k] = tz+1 iterations remain.  Returns the words appended and whether
    the [p >= to] early return fired.
<<
	if bitmapSize&int32(bitmap.Bit[height-tz]) == 0 { continue }
	m := bitmap.Mask[tz]
	p := (i << 32) | (fullPathMask ^ m)
	if p < from { continue }
	if p >= to { return paths }
	paths = append(paths, p)
>> *)
Fixpoint allpaths_inner (k : nat) (bitmapSize height fullPathMask i from to : Z) : list Z * bool :=
  match k with
  | O => ([], false)
  | S k' =>
      let tz := Z.of_nat k' in
      if Z.land bitmapSize (i32 (Bit (height - tz))) =? 0
      then allpaths_inner k' bitmapSize height fullPathMask i from to
      else
        let p := Z.lor (shl64 i 32) (Z.lxor fullPathMask (Mask tz)) in
        if p <? from then allpaths_inner k' bitmapSize height fullPathMask i from to
        else if to <=? p then ([], true)
        else
          let (r, stop) := allpaths_inner k' bitmapSize height fullPathMask i from to in
          (p :: r, stop)
  end.

(** the outer loop [for i := from >> 32; i < t; i++]; [n] = t - i iterations remain *)
Fixpoint allpaths_outer (n : nat) (bitmapSize height fullPathMask i from to : Z) : list Z :=
  match n with
  | O => []
  | S n' =>
      let tz0 := tz64 i in                                  (* int32(bits.TrailingZeros64(i)) *)
      let tz := if tz0 >? height then height else tz0 in
      let (r, stop) := allpaths_inner (Z.to_nat (tz + 1)) bitmapSize height fullPathMask i from to in
      if stop then r
      else r ++ allpaths_outer n' bitmapSize height fullPathMask (i + 1) from to
  end.

(** AllPaths(bitmapSize int32, from, to uint64) []uint64 *)
Definition AllPaths (bitmapSize from to : Z) : option (list Z) :=
  let height := Height bitmapSize in
  match tblBit height, tblMask height with
  | Some fullPathCnt, Some fullPathMask =>
      let t0 := u64 (shr64 to 32 + 1) in
      let t := if t0 >? fullPathCnt then fullPathCnt else t0 in
      let i0 := shr64 from 32 in
      Some (allpaths_outer (Z.to_nat (t - i0)) bitmapSize height fullPathMask i0 from to)
  | _, _ => None
  end.

(** Decode(bitmapSize int32, bm []uint64) []uint64:
<<
	paths := AllPaths(bitmapSize, 0, 1<<63)
	for _, p := range paths {
		idx := PathToIndex(bitmapSize, p)
		wordI := idx >> 6
		if int32(len(bm)) > wordI && bm[wordI]&(1<<uint(idx&63)) != 0 {
			rst = append(rst, p)
		}
	}
>> *)
Fixpoint decode_loop (bitmapSize : Z) (bm : list Z) (paths : list Z) : option (list Z) :=
  match paths with
  | [] => Some []
  | p :: rest =>
      match PathToIndex bitmapSize p with
      | None => None
      | Some idx =>
          let wordI := sar32 idx 6 in
          if i32 (zlen bm) >? wordI then
            match nthZ bm wordI with
            | None => None                                   (* negative index: panic *)
            | Some w =>
                match decode_loop bitmapSize bm rest with
                | None => None
                | Some r => Some (if Z.land w (shl64 1 (Z.land idx 63)) =? 0 then r else p :: r)
                end
            end
          else decode_loop bitmapSize bm rest
      end
  end.

Definition Decode (bitmapSize : Z) (bm : list Z) : option (list Z) :=
  match AllPaths bitmapSize 0 (2 ^ 63) with
  | None => None
  | Some paths => decode_loop bitmapSize bm paths
  end.

(** the [-tags debug] build: PathToIndex runs its contracts (must.Be.OK) first, so Decode panics
    as soon as one of them fires on a word produced by AllPaths *)
Fixpoint decode_loop_debug (bitmapSize : Z) (bm : list Z) (paths : list Z) : option (list Z) :=
  match paths with
  | [] => Some []
  | p :: rest =>
      match PathToIndex_debug bitmapSize p with
      | None => None
      | Some idx =>
          let wordI := sar32 idx 6 in
          if i32 (zlen bm) >? wordI then
            match nthZ bm wordI with
            | None => None
            | Some w =>
                match decode_loop_debug bitmapSize bm rest with
                | None => None
                | Some r => Some (if Z.land w (shl64 1 (Z.land idx 63)) =? 0 then r else p :: r)
                end
            end
          else decode_loop_debug bitmapSize bm rest
      end
  end.

Definition Decode_debug (bitmapSize : Z) (bm : list Z) : option (list Z) :=
  match AllPaths bitmapSize 0 (2 ^ 63) with
  | None => None
  | Some paths => decode_loop_debug bitmapSize bm paths
  end.
