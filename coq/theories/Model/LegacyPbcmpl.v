(** pbcmpl.Unmarshal as it was BEFORE /repo commit 815cf27 ("fix: pbcmpl.Unmarshal
    panicked or over-allocated on a corrupt body size"):
<<
	b := make([]byte, hi.GetBodySize())
	nbody, err := io.ReadFull(r, b)
	n += int64(nbody)
	if err != nil {
		return n, ver, errors.WithStack(err)
	}
	err = proto.Unmarshal(b, msg)
>>
    [make] with a negative length panics ("makeslice: len out of range"): [None].
    (A merely huge non-negative length made the old code allocate that much before
    reading anything; that is a resource failure, not modelled here.)  Kept only
    for the refutation theorem C07_total_refuted.  No proofs here. *)
From Coq Require Import ZArith List Bool.
From Low Require Import Lib.MachInt Lib.BitSeq Model.Pbcmpl.
Import ListNotations.
Open Scope Z_scope.

Section Legacy.
  Variable Msg : Type.
  Variable dec : list Z -> option Msg.
  Variable St : Type.
  Variable read : St -> Z -> list Z * option perr * St.

  Definition legacy_Unmarshal (fuel : nat) (r : St)
      : option (Z * list Z * option perr * option Msg * St) :=
    match ReadHeader read fuel r with
    | None => None
    | Some (n, None, err, r') => Some (n, [], err, None, r')
    | Some (n, Some h, _, r') =>
        let ver := GetVersion h in
        if negb (GetHeaderSize h =? i64 fixedSize) then
          Some (n, ver, Some EInvalidHeaderSize, None, r')
        else
          let bodySize := GetBodySize h in
          if bodySize <? 0 then None   (* make([]byte, negative) panics *)
          else
            match ReadFull read fuel r' bodySize with
            | None => None
            | Some (b, err, r'') =>
                let n' := n + i64 (zlen b) in
                match err with
                | Some e => Some (n', ver, Some e, None, r'')
                | None =>
                    match dec b with
                    | Some m => Some (n', ver, None, Some m, r'')
                    | None => Some (n', ver, Some EDecode, None, r'')
                    end
                end
            end
    end.
End Legacy.

Arguments legacy_Unmarshal {Msg} dec {St}.

Definition legacy_c_Unmarshal (kind : Z) (r : creader) :=
  legacy_Unmarshal (k_dec kind) cread (rd_fuel r) r.
