(** /repo/bitmap/next.go once more, with the int32 arithmetic written out:
    [i + 63], [i += 64], [wordIdx<<6 + tz], [end--], [(end & ^63) - 1],
    [end -= 64], [end - lz] all wrap at 2^31 ([i32]); [i >> 6] on a negative
    int32 is an arithmetic shift and a negative index then panics; a slice
    read is Go's bounds check [0 <= k < len] ([rd], which does not turn a huge
    out-of-range index into a unary number first).
    Model/BitmapNext.v computes the same positions in unbounded [Z];
    Proofs/NextTotal.v proves the two agree for EVERY int32 [i], [end]
    (negative, beyond the bitmap, [end < i], [end = MinInt32]) while
    [64 * len(bm) < 2^31].
    The loops run on explicit fuel [S (length bm)]: every iteration but the
    last reads a different word. *)
From Coq Require Import ZArith List Bool.
From Low Require Import Lib.MachInt Lib.Bits Lib.BitSeq Model.BitmapGetw32.
Import ListNotations.
Open Scope Z_scope.

(** [for ; i < end; i += 64 { word := bm[i>>6]; if word != 0 { nxt = i + tz(word); break } }] *)
Fixpoint NextOne32_loop (fuel : nat) (bm : list Z) (i e : Z) : option Z :=
  match fuel with
  | O => None
  | S f =>
      if i <? e then
        match rd bm (sar32 i 6) with
        | None => None
        | Some word => if word =? 0 then NextOne32_loop f bm (i32 (i + 64)) e
                       else Some (i32 (i + tz64 word))
        end
      else Some (-1)
  end.

Definition NextOne32 (bm : list Z) (i e : Z) : option Z :=
  let wordIdx := sar32 i 6 in
  let bitIdx := Z.land i 63 in
  match rd bm wordIdx with
  | None => None
  | Some w0 =>
      let word := Z.land w0 (RMask bitIdx) in
      let nxt :=
        if word =? 0
        then NextOne32_loop (S (length bm)) bm (Z.land (i32 (i + 63)) (-64)) e
        else Some (i32 (sshl32 wordIdx 6 + tz64 word)) in
      match nxt with
      | None => None
      | Some nxt => Some (if nxt >=? e then -1 else nxt)
      end
  end.

(** [for ; end >= i; end -= 64 { word := bm[end>>6]; if word != 0 { prv = end - lz(word); break } }] *)
Fixpoint PrevOne32_loop (fuel : nat) (bm : list Z) (e i : Z) : option Z :=
  match fuel with
  | O => None
  | S f =>
      if e >=? i then
        match rd bm (sar32 e 6) with
        | None => None
        | Some word => if word =? 0 then PrevOne32_loop f bm (i32 (e - 64)) i
                       else Some (i32 (e - lz64 word))
        end
      else Some (-1)
  end.

Definition PrevOne32 (bm : list Z) (i e0 : Z) : option Z :=
  let e := i32 (e0 - 1) in
  let wordIdx := sar32 e 6 in
  let bitIdx := Z.land e 63 in
  match rd bm wordIdx with
  | None => None
  | Some w0 =>
      let word := Z.land w0 (MaskUpto bitIdx) in
      let prv :=
        if word =? 0
        then PrevOne32_loop (S (length bm)) bm (i32 (Z.land e (-64) - 1)) i
        else Some (i32 (i32 (sshl32 wordIdx 6 + 63) - lz64 word)) in
      match prv with
      | None => None
      | Some prv => Some (if prv <? i then -1 else prv)
      end
  end.
