(** Sessions on ONE bitmap that is also updated in place between the queries, as
    [Builder.Set] / [TailBitmap.Set] do on their [Words]:
      step [0; i; e] = NextOne(bm, i, e), [1; i; e] = PrevOne(bm, i, e),
      step [2; p; _] = [bm[p>>6] |= 1 << uint(p&63)]  (reported as 0).
    Every query is about the bitmap as it is at the moment of the call.
    And a scan of a list suffix ([NextOneFast] / [PrevOneFast]): the same results as
    Model/BitmapNext.v (Proofs/NextSession.v) without indexing the list from its head
    for every word, so that bitmaps of 2^17 words can be evaluated. *)
From Coq Require Import ZArith List Bool.
From Low Require Import Lib.MachInt Lib.Bits Lib.BitSeq Model.BitmapNext Model.BitmapNext32.
Import ListNotations.
Open Scope Z_scope.

Fixpoint upd (l : list Z) (k : nat) (f : Z -> Z) : list Z :=
  match l, k with
  | [], _ => []
  | x :: t, O => f x :: t
  | x :: t, S k => x :: upd t k f
  end.

Definition SetBit (bm : list Z) (p : Z) : option (list Z) :=
  match nthZ bm (Z.shiftr p 6) with
  | None => None
  | Some _ => Some (upd bm (Z.to_nat (Z.shiftr p 6)) (fun w => Z.lor w (shl64 1 (Z.land p 63))))
  end.

Fixpoint Session (bm : list Z) (steps : list (list Z)) : option (list Z) :=
  match steps with
  | [] => Some []
  | [k; i; e] :: t =>
      if k =? 2 then
        match SetBit bm i with
        | None => None
        | Some bm' => match Session bm' t with Some r => Some (0 :: r) | None => None end
        end
      else
        match (if k =? 0 then NextOne32 bm i e else PrevOne32 bm i e) with
        | None => None
        | Some x => match Session bm t with Some r => Some (x :: r) | None => None end
        end
  | _ => None
  end.

(** * scanning a suffix *)
Fixpoint nscan (suffix : list Z) (pos e : Z) : option Z :=
  match suffix with
  | [] => if pos <? e then None else Some (-1)
  | w :: t =>
      if pos <? e then (if w =? 0 then nscan t (pos + 64) e else Some (pos + tz64 w))
      else Some (-1)
  end.

Definition NextOneFast (bm : list Z) (i e : Z) : option Z :=
  if i <? 0 then None else
  let k := Z.shiftr i 6 in
  match skipn (Z.to_nat k) bm with
  | [] => None
  | w0 :: rest =>
      let word := Z.land w0 (RMask (Z.land i 63)) in
      let nxt :=
        if word =? 0
        then let i' := Z.land (i + 63) (-64) in
             nscan (if i' =? i then w0 :: rest else rest) i' e
        else Some (Z.shiftl k 6 + tz64 word) in
      match nxt with
      | None => None
      | Some nxt => Some (if nxt >=? e then -1 else nxt)
      end
  end.
