(** Model of /repo/bitmap/select.go (same algorithms, same loops, same table).
    Arithmetic is unbounded [Z]; the theorems carry the size hypothesis under
    which Go's int32 positions cannot overflow.  Words are [Z] in [0,2^64).
    A slice read out of range, Select32's explicit [panic] and fuel exhaustion
    (only possible after a read out of range) are [None].  No proofs here. *)
From Coq Require Import ZArith List Bool.
From Low Require Import Lib.MachInt Lib.Bits Lib.BitSeq Model.Rank.
Import ListNotations.
Open Scope Z_scope.

(** * select8Lookup, built the way [initSelectLookup] builds it

    [for i := 0; i < 256; i++ { w := uint8(i)
       for j := 0; j < 8; j++ { x := TrailingZeros8(w); w &= w - 1; select8Lookup[i*8+j] = uint8(x) } }]
    ([w - 1] wraps to 255 when [w = 0]: uint8). *)
Fixpoint select8_row (j : nat) (w : Z) : list Z :=
  match j with
  | O => []
  | S j' => tz8 w :: select8_row j' (Z.land w (u8 (w - 1)))
  end.

Definition select8Lookup : list Z :=
  flat_map (fun i => select8_row 8 (Z.of_nat i)) (seq 0 256).

(** * IndexSelect32

    [l := len(words) << 6; ith := -1
     for i := 0; i < l; i++ {
       if words[i>>6] & (1 << uint(i&63)) != 0 { ith++; if ith&31 == 0 { sidx = append(sidx, int32(i)) } } }]
    The loop counter runs over all bit positions; fuel = 64 * len(words). *)
Fixpoint IndexSelect32_loop (fuel : nat) (ws : list Z) (i ith : Z) : option (list Z) :=
  match fuel with
  | O => Some []
  | S f =>
      match nthZ ws (Z.shiftr i 6) with
      | None => None
      | Some w =>
          if negb (Z.land w (shl64 1 (Z.land i 63)) =? 0) then
            let ith := ith + 1 in
            if Z.land ith 31 =? 0 then
              match IndexSelect32_loop f ws (i + 1) ith with
              | Some r => Some (i :: r)
              | None => None
              end
            else IndexSelect32_loop f ws (i + 1) ith
          else IndexSelect32_loop f ws (i + 1) ith
      end
  end.

Definition IndexSelect32 (ws : list Z) : option (list Z) :=
  IndexSelect32_loop (64 * length ws) ws 0 (-1).

(** * the in-word search shared by Select32 and Select32R64

    32/16/8 halving ([base |= 32], [ww >>= 32] ...) and then one of the TWO
    table-index expressions:
      [ones <= findIth]:  [select8Lookup[(ww>>5)&0x7f8 | uint64(findIth-ones)] + base + 8]
      otherwise:          [select8Lookup[(ww&0xff)<<3 | uint64(findIth)] + base]
    Returns the offset of the [findIth]-th 1-bit inside [w]. *)
Definition select_in_word (w findIth : Z) : option Z :=
  let base := 0 in
  let ww := w in
  let ones := popcount (u32 ww) in
  let '(findIth, base, ww) :=
    if ones <=? findIth then (findIth - ones, Z.lor base 32, shr64 ww 32) else (findIth, base, ww) in
  let ones := popcount (u16 ww) in
  let '(findIth, base, ww) :=
    if ones <=? findIth then (findIth - ones, Z.lor base 16, shr64 ww 16) else (findIth, base, ww) in
  let ones := popcount (u8 ww) in
  if ones <=? findIth then
    match nthZ select8Lookup (Z.lor (Z.land (Z.shiftr ww 5) 2040) (findIth - ones)) with
    | Some v => Some (v + base + 8)
    | None => None
    end
  else
    match nthZ select8Lookup (Z.lor (Z.shiftl (Z.land ww 255) 3) findIth) with
    | Some v => Some (v + base)
    | None => None
    end.

(** [for wordI := start; wordI < l; wordI++ { w = words[wordI]; if w != 0 { return wordI<<6 + tz(w) } }; return l << 6] *)
Fixpoint next_one_scan (fuel : nat) (ws : list Z) (wordI l : Z) : option Z :=
  if wordI <? l then
    match fuel with
    | O => None
    | S f =>
        match nthZ ws wordI with
        | None => None
        | Some w =>
            if negb (w =? 0) then Some (Z.shiftl wordI 6 + tz64 w)
            else next_one_scan f ws (wordI + 1) l
        end
    end
  else Some (Z.shiftl l 6).

(** * Select32

    the word-skipping loop:
    [for { ones := OnesCount64(w); if ones <= findIth { findIth -= ones; wordI++; w = words[wordI]; continue }; ... break }]
    returns (wordI, w, findIth) at the [break]; reading past the last word panics. *)
Fixpoint Select32_skip (fuel : nat) (ws : list Z) (wordI w findIth : Z) : option (Z * Z * Z) :=
  let ones := popcount w in
  if ones <=? findIth then
    match fuel with
    | O => None
    | S f =>
        match nthZ ws (wordI + 1) with
        | None => None
        | Some w' => Select32_skip f ws (wordI + 1) w' (findIth - ones)
        end
    end
  else Some (wordI, w, findIth).

Definition Select32 (ws sidx : list Z) (i : Z) : option (Z * Z) :=
  if (i <? 0) || (zlen sidx <=? Z.shiftr i 5) then None (* panic("i outof range") *)
  else
    match nthZ sidx (Z.shiftr i 5) with
    | None => None
    | Some base =>
        let findIth := Z.land i 31 in
        let l := zlen ws in
        let wordI := Z.shiftr base 6 in
        match nthZ ws wordI with
        | None => None
        | Some w =>
            (* remove the 1-bits below the checkpoint *)
            let w := Z.land w (not64 (Mask (Z.land base 63))) in
            match Select32_skip (length ws) ws wordI w findIth with
            | None => None
            | Some (wordI, w, findIth) =>
                match select_in_word w findIth with
                | None => None
                | Some off =>
                    let a := off + Z.shiftl wordI 6 in
                    let w := Z.land w (not64 (MaskUpto (Z.land a 63))) in
                    if negb (w =? 0) then Some (a, Z.shiftl wordI 6 + tz64 w)
                    else
                      match next_one_scan (length ws) ws (Z.shiftr a 6 + 1) l with
                      | Some b => Some (a, b)
                      | None => None
                      end
                end
            end
        end
    end.

(** * IndexSelect32R64: the same bit scan, plus [IndexRank64(words, true)] *)
Definition IndexSelect32R64 (ws : list Z) : option (list Z * list Z) :=
  match IndexSelect32_loop (64 * length ws) ws 0 (-1) with
  | Some sidx => Some (sidx, IndexRank64 ws true)
  | None => None
  end.

(** * Select32R64

    [wordI := selectIndex[i>>5] >> 6; for ; rankIndex[wordI+1] <= i; wordI++ {}] *)
Fixpoint Select32R64_advance (fuel : nat) (ridx : list Z) (wordI i : Z) : option Z :=
  match nthZ ridx (wordI + 1) with
  | None => None
  | Some r =>
      if r <=? i then
        match fuel with
        | O => None
        | S f => Select32R64_advance f ridx (wordI + 1) i
        end
      else Some wordI
  end.

Definition Select32R64 (ws sidx ridx : list Z) (i : Z) : option (Z * Z) :=
  let l := zlen ws in
  match nthZ sidx (Z.shiftr i 5) with
  | None => None
  | Some s =>
      match Select32R64_advance (length ws) ridx (Z.shiftr s 6) i with
      | None => None
      | Some wordI =>
          match nthZ ws wordI, nthZ ridx wordI with
          | Some w, Some r =>
              let base := Z.shiftl wordI 6 in
              let findIth := i - r in
              match select_in_word w findIth with
              | None => None
              | Some off =>
                  let a := off + base in
                  let w := Z.land w (RMaskUpto (Z.land a 63)) in
                  if negb (w =? 0) then Some (a, base + tz64 w)
                  else
                    match next_one_scan (length ws) ws (wordI + 1) l with
                    | Some b => Some (a, b)
                    | None => None
                    end
              end
          | _, _ => None
          end
      end
  end.
