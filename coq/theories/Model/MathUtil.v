(** Model of github.com/openacid/low/mathext/util (util.go): the thirty functions
    Min<K>, Max<K>, Clap<K> for K in I I8 I16 I32 I64 U U8 U16 U32 U64, one definition
    per Go function, each with the body the Go function has
      Min:  if a < b { return a } else { return b }
      Max:  if a > b { return a } else { return b }
      Clap: if n < min { n = min }; if n > max { n = max }; return n
    Numbers are [Z]; the Go types only restrict the ARGUMENTS ([in_kind]); no operation of these
    bodies can leave the type (comparisons and copies only), which Proofs/MathUtilProofs.v proves
    ([*_closed]) instead of assuming.  No proofs in this file. *)
From Coq Require Import ZArith List.
Import ListNotations.
Open Scope Z_scope.

(** the ten integer kinds of the package; [int]/[uint] are 64 bits wide on the platform of the harness (amd64) *)
Inductive ikind := KI | KI8 | KI16 | KI32 | KI64 | KU | KU8 | KU16 | KU32 | KU64.
Definition all_kinds : list ikind := [KI; KI8; KI16; KI32; KI64; KU; KU8; KU16; KU32; KU64].

Definition kind_signed (k : ikind) : bool :=
  match k with KI | KI8 | KI16 | KI32 | KI64 => true | _ => false end.
Definition kind_bits (k : ikind) : Z :=
  match k with KI | KI64 | KU | KU64 => 64 | KI8 | KU8 => 8 | KI16 | KU16 => 16 | KI32 | KU32 => 32 end.
Definition kind_lo (k : ikind) : Z := if kind_signed k then - 2 ^ (kind_bits k - 1) else 0.
Definition kind_hi (k : ikind) : Z := if kind_signed k then 2 ^ (kind_bits k - 1) - 1 else 2 ^ kind_bits k - 1.
Definition in_kind (k : ikind) (x : Z) : Prop := kind_lo k <= x <= kind_hi k.
Definition in_kindb (k : ikind) (x : Z) : bool := (kind_lo k <=? x) && (x <=? kind_hi k).

(** util.MinI / util.MaxI / util.ClapI *)
Definition MinI (a b : Z) : Z := if a <? b then a else b.
Definition MaxI (a b : Z) : Z := if a >? b then a else b.
Definition ClapI (n min max : Z) : Z :=
  let n := if n <? min then min else n in
  let n := if n >? max then max else n in
  n.

(** util.MinI8 / util.MaxI8 / util.ClapI8 *)
Definition MinI8 (a b : Z) : Z := if a <? b then a else b.
Definition MaxI8 (a b : Z) : Z := if a >? b then a else b.
Definition ClapI8 (n min max : Z) : Z :=
  let n := if n <? min then min else n in
  let n := if n >? max then max else n in
  n.

(** util.MinI16 / util.MaxI16 / util.ClapI16 *)
Definition MinI16 (a b : Z) : Z := if a <? b then a else b.
Definition MaxI16 (a b : Z) : Z := if a >? b then a else b.
Definition ClapI16 (n min max : Z) : Z :=
  let n := if n <? min then min else n in
  let n := if n >? max then max else n in
  n.

(** util.MinI32 / util.MaxI32 / util.ClapI32 *)
Definition MinI32 (a b : Z) : Z := if a <? b then a else b.
Definition MaxI32 (a b : Z) : Z := if a >? b then a else b.
Definition ClapI32 (n min max : Z) : Z :=
  let n := if n <? min then min else n in
  let n := if n >? max then max else n in
  n.

(** util.MinI64 / util.MaxI64 / util.ClapI64 *)
Definition MinI64 (a b : Z) : Z := if a <? b then a else b.
Definition MaxI64 (a b : Z) : Z := if a >? b then a else b.
Definition ClapI64 (n min max : Z) : Z :=
  let n := if n <? min then min else n in
  let n := if n >? max then max else n in
  n.

(** util.MinU / util.MaxU / util.ClapU *)
Definition MinU (a b : Z) : Z := if a <? b then a else b.
Definition MaxU (a b : Z) : Z := if a >? b then a else b.
Definition ClapU (n min max : Z) : Z :=
  let n := if n <? min then min else n in
  let n := if n >? max then max else n in
  n.

(** util.MinU8 / util.MaxU8 / util.ClapU8 *)
Definition MinU8 (a b : Z) : Z := if a <? b then a else b.
Definition MaxU8 (a b : Z) : Z := if a >? b then a else b.
Definition ClapU8 (n min max : Z) : Z :=
  let n := if n <? min then min else n in
  let n := if n >? max then max else n in
  n.

(** util.MinU16 / util.MaxU16 / util.ClapU16 *)
Definition MinU16 (a b : Z) : Z := if a <? b then a else b.
Definition MaxU16 (a b : Z) : Z := if a >? b then a else b.
Definition ClapU16 (n min max : Z) : Z :=
  let n := if n <? min then min else n in
  let n := if n >? max then max else n in
  n.

(** util.MinU32 / util.MaxU32 / util.ClapU32 *)
Definition MinU32 (a b : Z) : Z := if a <? b then a else b.
Definition MaxU32 (a b : Z) : Z := if a >? b then a else b.
Definition ClapU32 (n min max : Z) : Z :=
  let n := if n <? min then min else n in
  let n := if n >? max then max else n in
  n.

(** util.MinU64 / util.MaxU64 / util.ClapU64 *)
Definition MinU64 (a b : Z) : Z := if a <? b then a else b.
Definition MaxU64 (a b : Z) : Z := if a >? b then a else b.
Definition ClapU64 (n min max : Z) : Z :=
  let n := if n <? min then min else n in
  let n := if n >? max then max else n in
  n.

(** the function table: which Go function an (operation, kind) pair names *)
Definition MinK (k : ikind) : Z -> Z -> Z :=
  match k with KI => MinI | KI8 => MinI8 | KI16 => MinI16 | KI32 => MinI32 | KI64 => MinI64 | KU => MinU | KU8 => MinU8 | KU16 => MinU16 | KU32 => MinU32 | KU64 => MinU64 end.
Definition MaxK (k : ikind) : Z -> Z -> Z :=
  match k with KI => MaxI | KI8 => MaxI8 | KI16 => MaxI16 | KI32 => MaxI32 | KI64 => MaxI64 | KU => MaxU | KU8 => MaxU8 | KU16 => MaxU16 | KU32 => MaxU32 | KU64 => MaxU64 end.
Definition ClapK (k : ikind) : Z -> Z -> Z -> Z :=
  match k with KI => ClapI | KI8 => ClapI8 | KI16 => ClapI16 | KI32 => ClapI32 | KI64 => ClapI64 | KU => ClapU | KU8 => ClapU8 | KU16 => ClapU16 | KU32 => ClapU32 | KU64 => ClapU64 end.
