(** Model of /repo/pbcmpl (pbcmpl.go, header.go, errors.go) AS REPAIRED by the
    "fix:" commit 815cf27, and of the pieces of Go's library it runs on:
    io.ReadFull (= io.ReadAtLeast), io.LimitReader, io.ReadAll (go1.23),
    encoding/binary little-endian, and the two test doubles of the harness (a
    reader given as a list of chunks plus a terminal condition, a writer given
    as a script of responses).  Properties C06 and C07.  No proofs here.

    Bytes are [Z] in [0,256); strings are [list Z]; Go [int]/[int64] values
    are [Z] with an explicit [i64]/[u64] wrap at every uint64<->int64
    conversion the code performs. *)
From Coq Require Import ZArith List Bool.
From Low Require Import Lib.MachInt Lib.BitSeq.
Import ListNotations.
Open Scope Z_scope.

(** ** errors (classified through errors.Cause by the harness) *)
Inductive perr : Type :=
| EEOF                 (* io.EOF *)
| EUnexpectedEOF       (* io.ErrUnexpectedEOF *)
| EInvalidHeaderSize   (* pbcmpl.ErrInvalidHeaderSize *)
| EInvalidBodySize     (* pbcmpl.ErrInvalidBodySize *)
| EInjected            (* the error value injected by the test reader / writer *)
| EDecode.             (* proto.Unmarshal of the body failed *)

Definition errclass (e : option perr) : Z :=
  match e with
  | None => 0
  | Some EEOF => 1
  | Some EUnexpectedEOF => 2
  | Some EInvalidHeaderSize => 3
  | Some EInvalidBodySize => 4
  | Some EInjected => 5
  | Some EDecode => 6
  end.

Definition is_none {A} (o : option A) : bool := match o with None => true | Some _ => false end.
Definition is_eof (o : option perr) : bool := match o with Some EEOF => true | _ => false end.
Definition is_nil {A} (l : list A) : bool := match l with [] => true | _ => false end.

(** ** io.Reader as an interface: a state type and [r.Read(p)] with [len(p) = k].
    The result is (bytes stored in p[:n], err, new state). *)
Section IO.
  Variable St : Type.
  Variable read : St -> Z -> list Z * option perr * St.

  (** io.ReadAtLeast(r, buf, min) called by io.ReadFull with len(buf) = min:
<<
	for n < min && err == nil {
		var nn int
		nn, err = r.Read(buf[n:])
		n += nn
	}
>>
      [got] is buf[:n]. *)
  Fixpoint readfull_loop (fuel : nat) (r : St) (got : list Z) (err : option perr) (min : Z)
      {struct fuel} : option (list Z * option perr * St) :=
    if (zlen got <? min) && is_none err then
      match fuel with
      | O => None
      | S f =>
          let '(d, e, r') := read r (min - zlen got) in
          readfull_loop f r' (got ++ d) e min
      end
    else Some (got, err, r).

  (**
<<
	if n >= min {
		err = nil
	} else if n > 0 && err == EOF {
		err = ErrUnexpectedEOF
	}
>> *)
  Definition ReadFull (fuel : nat) (r : St) (min : Z) : option (list Z * option perr * St) :=
    match readfull_loop fuel r [] None min with
    | None => None
    | Some (got, err, r') =>
        let err' :=
          if zlen got >=? min then None
          else if (0 <? zlen got) && is_eof err then Some EUnexpectedEOF
          else err in
        Some (got, err', r')
    end.

  (** io.ReadAll (go1.23):
<<
	b := make([]byte, 0, 512)
	for {
		n, err := r.Read(b[len(b):cap(b)])
		b = b[:len(b)+n]
		if err != nil {
			if err == EOF { err = nil }
			return b, err
		}
		if len(b) == cap(b) {
			b = append(b, 0)[:len(b)]   // add more capacity (let append pick how much)
		}
	}
>>
      How much capacity [append] adds is the Go runtime's business (growslice
      + malloc size classes); the model takes it as the parameter [grow] and
      every theorem holds for every [grow] with [cap < grow cap]
      (Proofs/PbcmplProofs.v); the value extracted for the correspondence run
      is [grow_default]. *)
  Variable grow : Z -> Z.

  Fixpoint readall_loop (fuel : nat) (r : St) (b : list Z) (cap : Z) {struct fuel}
      : option (list Z * option perr * St) :=
    match fuel with
    | O => None
    | S f =>
        let '(d, e, r') := read r (cap - zlen b) in
        let b' := b ++ d in
        match e with
        | Some e' => Some (b', match e' with EEOF => None | _ => Some e' end, r')
        | None => readall_loop f r' b' (if zlen b' =? cap then grow cap else cap)
        end
    end.

  Definition ReadAll (fuel : nat) (r : St) : option (list Z * option perr * St) :=
    readall_loop fuel r [] 512.

  (** io.LimitedReader{R: r, N: n}.Read:
<<
	if l.N <= 0 { return 0, EOF }
	if int64(len(p)) > l.N { p = p[0:l.N] }
	n, err = l.R.Read(p)
	l.N -= int64(n)
>> *)
  Definition limited_read (l : St * Z) (k : Z) : list Z * option perr * (St * Z) :=
    let '(r, n) := l in
    if n <=? 0 then ([], Some EEOF, l)
    else
      let k' := if k >? n then n else k in
      let '(d, e, r') := read r k' in
      (d, e, (r', n - zlen d)).
End IO.

Arguments readfull_loop {St}.
Arguments ReadFull {St}.
Arguments readall_loop {St}.
Arguments ReadAll {St}.
Arguments limited_read {St}.

Definition grow_default (cap : Z) : Z := 2 * cap.

(** ** the harness's reader: a list of non-empty chunks and a terminal condition.
    Each Read delivers (the rest of) the first chunk, or as much of it as fits
    in p.  When the chunks are used up Read returns (0, terminal error);
    with [t_with_last] the terminal error is returned together with the last
    bytes of the last chunk ("n > 0 with EOF"). *)
Record terminal : Type := { t_err : perr; t_with_last : bool }.
Definition creader : Type := (list (list Z) * terminal)%type.

Definition cread (r : creader) (k : Z) : list Z * option perr * creader :=
  let '(cs, t) := r in
  match cs with
  | [] => ([], Some (t_err t), r)
  | c :: rest =>
      if zlen c <=? k then
        (c, if is_nil rest && t_with_last t then Some (t_err t) else None, (rest, t))
      else
        (firstn (Z.to_nat k) c, None, (skipn (Z.to_nat k) c :: rest, t))
  end.

Definition rd_bytes (r : creader) : list Z := concat (fst r).
(** enough fuel for every loop over this reader: each iteration consumes at
    least one byte, or a whole (possibly empty) chunk, or ends the loop *)
Definition rd_fuel (r : creader) : nat := S (S (length (rd_bytes r) + length (fst r))).

(** ** the harness's writer: a script of responses, one per Write call:
    (bytes accepted at most, fail?).  An exhausted script accepts everything.
    The state carries the bytes that reached the writer. *)
Definition swriter : Type := (list (Z * bool) * list Z)%type.

Definition swrite (w : swriter) (p : list Z) : Z * option perr * swriter :=
  let '(script, out) := w in
  match script with
  | [] => (zlen p, None, ([], out ++ p))
  | (k, fail) :: rest =>
      let n := Z.max 0 (Z.min k (zlen p)) in
      (n, if fail then Some EInjected else None, (rest, out ++ firstn (Z.to_nat n) p))
  end.

(** ** header.go *)
Definition versionLen : Z := 16.
Definition fixedSize : Z := 32.          (* binary.Size(&header{}) = 16 + 8 + 8 *)
Definition DefaultVer : list Z := [49; 46; 48; 46; 48].   (* "1.0.0" *)

Record header : Type := { Version : list Z; HeaderSize : Z; BodySize : Z }.

(**
<<
	if len(ver) > versionLen { panic("version length overflow") }
	h := &header{ HeaderSize: uint64(fixedSize), BodySize: bodysize }
	copy(h.Version[:], ver)
>> *)
Definition newHeader (ver : list Z) (bodysize : Z) : option header :=
  if zlen ver >? versionLen then None
  else Some {| Version := ver ++ repeat 0 (Z.to_nat (versionLen - zlen ver));
               HeaderSize := u64 fixedSize;
               BodySize := bodysize |}.

(** binary.LittleEndian.PutUint64: b[0] = byte(v); b[1] = byte(v >> 8); ... *)
Definition put_u64le (v : Z) : list Z :=
  [u8 v; u8 (shr64 v 8); u8 (shr64 v 16); u8 (shr64 v 24);
   u8 (shr64 v 32); u8 (shr64 v 40); u8 (shr64 v 48); u8 (shr64 v 56)].

(** binary.LittleEndian.Uint64: uint64(b[0]) | uint64(b[1])<<8 | ... | uint64(b[7])<<56 *)
Definition get_u64le (b : list Z) : Z :=
  Z.lor (nth 0 b 0) (Z.lor (shl64 (nth 1 b 0) 8) (Z.lor (shl64 (nth 2 b 0) 16)
  (Z.lor (shl64 (nth 3 b 0) 24) (Z.lor (shl64 (nth 4 b 0) 32) (Z.lor (shl64 (nth 5 b 0) 40)
  (Z.lor (shl64 (nth 6 b 0) 48) (shl64 (nth 7 b 0) 56))))))).

(** (h *header) Marshal: binary.Write(b, LittleEndian, h) — the three fields in order *)
Definition header_Marshal (h : header) : list Z :=
  Version h ++ put_u64le (HeaderSize h) ++ put_u64le (BodySize h).

(** (h *header) Unmarshal(buf) with len(buf) = 32: binary.Read *)
Definition header_Unmarshal (b : list Z) : header :=
  {| Version := firstn 16 b;
     HeaderSize := get_u64le (firstn 8 (skipn 16 b));
     BodySize := get_u64le (firstn 8 (skipn 24 b)) |}.

(** verStr:
<<
	for i = len(buf) - 1; i >= 0 && buf[i] == 0; i-- {}
	return string(buf[:i+1])
>>
    [verStr_end buf k] = i+1 at loop exit when the loop is entered with i = k-1. *)
Fixpoint verStr_end (buf : list Z) (k : nat) : nat :=
  match k with
  | O => O
  | S j => if nth j buf 0 =? 0 then verStr_end buf j else S j
  end.
Definition verStr (buf : list Z) : list Z := firstn (verStr_end buf (length buf)) buf.

(** headerInfo getters: uint64 -> int64 conversions *)
Definition GetVersion (h : header) : list Z := verStr (Version h).
Definition GetHeaderSize (h : header) : Z := i64 (HeaderSize h).
Definition GetBodySize (h : header) : Z := i64 (BodySize h).

(** ** pbcmpl.go, over a body codec (proto.Marshal / proto.Unmarshal / proto.Size of
    the message type: external code, DESIGN section 3) *)
Section Codec.
  Variable Msg : Type.
  Variable enc : Msg -> list Z.
  Variable dec : list Z -> option Msg.
  Variable size : Msg -> Z.

  (** marshal(msg, ver): data, then header(ver, uint64(len(data))), then the header's bytes *)
  Definition marshal (m : Msg) (ver : list Z) : option (list Z * list Z) :=
    let data := enc m in
    match newHeader ver (u64 (zlen data)) with
    | None => None
    | Some h => Some (header_Marshal h, data)
    end.

  (** Marshal(w, msg); [ver] = Some (msg.GetVersion()) when msg is a VersionedMessage.
      [None] = panic (version longer than 16 bytes). *)
  Definition Marshal {W : Type} (write : W -> list Z -> Z * option perr * W)
      (w : W) (m : Msg) (ver : option (list Z)) : option (Z * option perr * W) :=
    let ver := match ver with Some v => v | None => DefaultVer end in
    match marshal m ver with
    | None => None
    | Some (h, d) =>
        let '(n, err, w1) := write w h in
        match err with
        | Some e => Some (i64 n, Some e, w1)
        | None =>
            let '(n2, err2, w2) := write w1 d in
            let n := n + n2 in
            match err2 with
            | Some e => Some (i64 n, Some e, w2)
            | None => Some (i64 n, None, w2)
            end
        end
    end.

  Definition HeaderSizeOf (m : Msg) : Z := fixedSize.
  Definition SizeOf (m : Msg) : Z := HeaderSizeOf m + size m.

  Section Reading.
    Variable St : Type.
    Variable read : St -> Z -> list Z * option perr * St.
    Variable grow : Z -> Z.

    (** ReadHeader: (n, header or nil, err, reader afterwards) *)
    Definition ReadHeader (fuel : nat) (r : St) : option (Z * option header * option perr * St) :=
      match ReadFull read fuel r fixedSize with
      | None => None
      | Some (b, err, r') =>
          match err with
          | Some e => Some (i64 (zlen b), None, Some e, r')
          | None => Some (i64 (zlen b), Some (header_Unmarshal b), None, r')
          end
      end.

    (** Unmarshal: (n, ver, err, message when err = nil, reader afterwards) *)
    Definition Unmarshal (fuel : nat) (r : St)
        : option (Z * list Z * option perr * option Msg * St) :=
      match ReadHeader fuel r with
      | None => None
      | Some (n, None, err, r') => Some (n, [], err, None, r')
      | Some (n, Some h, _, r') =>
          let ver := GetVersion h in
          if negb (GetHeaderSize h =? i64 fixedSize) then
            Some (n, ver, Some EInvalidHeaderSize, None, r')
          else
            let bodySize := GetBodySize h in
            if bodySize <? 0 then Some (n, ver, Some EInvalidBodySize, None, r')
            else
              match ReadAll (limited_read read) grow fuel (r', bodySize) with
              | None => None
              | Some (b, err, (r'', _)) =>
                  let n' := n + i64 (zlen b) in
                  let err' :=
                    match err with
                    | None =>
                        if i64 (zlen b) <? bodySize then
                          (if zlen b =? 0 then Some EEOF else Some EUnexpectedEOF)
                        else None
                    | Some e => Some e
                    end in
                  match err' with
                  | Some e => Some (n', ver, Some e, None, r'')
                  | None =>
                      match dec b with
                      | Some m => Some (n', ver, None, Some m, r'')
                      | None => Some (n', ver, Some EDecode, None, r'')
                      end
                  end
              end
      end.
  End Reading.
End Codec.

Arguments marshal {Msg}.
Arguments Marshal {Msg} enc {W}.
Arguments SizeOf {Msg}.
Arguments HeaderSizeOf {Msg}.
Arguments ReadHeader {St}.
Arguments Unmarshal {Msg} dec {St}.

(** ** the body codecs used by the harness *)

(** (a) raw legacy message: a Go type with XXX-style Marshal/Unmarshal methods whose
    encoding is its payload *)
Definition raw_enc (p : list Z) : list Z := p.
Definition raw_dec (b : list Z) : option (list Z) := Some b.
Definition raw_size (p : list Z) : Z := zlen p.

(** (c) the same with an Unmarshal method that rejects bodies starting with 0xEE
    (exercises the decode-error return of pbcmpl.Unmarshal) *)
Definition picky_dec (b : list Z) : option (list Z) :=
  match b with
  | 238 :: _ => None
  | _ => Some b
  end.

(** (b) wrappers.BytesValue { bytes value = 1; }: empty when the value is empty,
    else tag 0x0a, varint length, the bytes.
    protowire.AppendVarint / ConsumeVarint / SizeVarint, written as the base-128 loop. *)
Fixpoint put_varint (fuel : nat) (v : Z) : list Z :=
  match fuel with
  | O => []
  | S f => if v <? 128 then [v] else (v mod 128 + 128) :: put_varint f (v / 128)
  end.

Fixpoint get_varint (fuel : nat) (b : list Z) : option (Z * list Z) :=
  match fuel with
  | O => None
  | S f =>
      match b with
      | [] => None
      | x :: t =>
          if x <? 128 then Some (x, t)
          else match get_varint f t with
               | Some (v, t') => Some ((x - 128) + 128 * v, t')
               | None => None
               end
      end
  end.

Fixpoint size_varint (fuel : nat) (v : Z) : Z :=
  match fuel with
  | O => 0
  | S f => if v <? 128 then 1 else 1 + size_varint f (v / 128)
  end.

Definition bv_enc (p : list Z) : list Z :=
  match p with
  | [] => []
  | _ => 10 :: put_varint 10 (zlen p) ++ p
  end.

(** decoder for the encodings the harness feeds to a BytesValue: nothing, or one
    field 1 of wire type 2 holding exactly the rest of the body *)
Definition bv_dec (b : list Z) : option (list Z) :=
  match b with
  | [] => Some []
  | 10 :: t =>
      match get_varint 10 t with
      | Some (n, rest) => if zlen rest =? n then Some rest else None
      | None => None
      end
  | _ => None
  end.

Definition bv_size (p : list Z) : Z :=
  match p with
  | [] => 0
  | _ => 1 + size_varint 10 (zlen p) + zlen p
  end.

(** codec selection by the protocol's [kind] argument: 0 raw, 1 BytesValue, 2 picky raw *)
Definition k_enc (kind : Z) : list Z -> list Z := if kind =? 1 then bv_enc else raw_enc.
Definition k_dec (kind : Z) : list Z -> option (list Z) :=
  if kind =? 1 then bv_dec else if kind =? 2 then picky_dec else raw_dec.
Definition k_size (kind : Z) : list Z -> Z := if kind =? 1 then bv_size else raw_size.

(** ** the calls as the protocol operations run them (chunk reader, script writer) *)
Definition c_ReadHeader (r : creader) := ReadHeader cread (rd_fuel r) r.
Definition c_Unmarshal (kind : Z) (r : creader) := Unmarshal (k_dec kind) cread grow_default (rd_fuel r) r.
Definition s_Marshal (kind : Z) (script : list (Z * bool)) (p : list Z) (ver : option (list Z)) :=
  Marshal (k_enc kind) swrite (script, []) p ver.

(** repeated Unmarshal on one reader until the first error.
    One step = (n, ver, err, payload, bytes consumed from the reader so far). *)
Definition ustep : Type := (Z * list Z * option perr * list Z * Z)%type.

Fixpoint c_stream (fuel : nat) (kind : Z) (total : Z) (r : creader) {struct fuel}
    : option (list ustep * creader) :=
  match fuel with
  | O => None
  | S f =>
      match c_Unmarshal kind r with
      | None => None
      | Some (n, ver, err, m, r') =>
          let consumed := total - zlen (rd_bytes r') in
          let payload := match m with Some p => p | None => [] end in
          match err with
          | Some _ => Some ([(n, ver, err, payload, consumed)], r')
          | None =>
              match c_stream f kind total r' with
              | None => None
              | Some (steps, r'') => Some ((n, ver, err, payload, consumed) :: steps, r'')
              end
          end
      end
  end.

(** every successful call consumes at least the 32 header bytes *)
Definition stream_fuel (r : creader) : nat := S (S (Nat.div (length (rd_bytes r)) 32)).

Definition c_Stream (kind : Z) (r : creader) : option (list ustep * creader) :=
  c_stream (stream_fuel r) kind (zlen (rd_bytes r)) r.

(** cutting a byte string into chunks by a cyclically repeated pattern of positive
    sizes (empty pattern: one chunk); used by the operations to describe a chunking
    compactly *)
Fixpoint chunk_by (fuel : nat) (pat cur : list Z) (s : list Z) {struct fuel} : list (list Z) :=
  match fuel with
  | O => []
  | S f =>
      match s with
      | [] => []
      | _ =>
          match cur with
          | [] => match pat with
                  | [] => [s]
                  | _ => chunk_by f pat pat s
                  end
          | k :: cur' =>
              if k <=? 0 then [s]
              else firstn (Z.to_nat k) s :: chunk_by f pat cur' (skipn (Z.to_nat k) s)
          end
      end
  end.

Definition chunks_of (pat : list Z) (s : list Z) : list (list Z) :=
  chunk_by (2 * length s + 2) pat pat s.
