(** Model of /repo/size/sizeof.go (C20): [sizeof], [Of], and the number in the
    first line of [Stat].

    A Go value as seen through [reflect] is a tree.  [value] keeps exactly what
    [sizeof] looks at: the kind of every node, the number of bytes of a string,
    nil vs non-nil for slices / pointers / interfaces, the elements, the
    key/value pairs, the pointee, the dynamic value, the fields.  Scalar
    contents, type names, field names, capacities and padding are not part of
    it because the code never reads them.

    No proofs in this file. *)
From Coq Require Import ZArith List Bool.
Import ListNotations.
Open Scope Z_scope.

(** the scalar kinds of reflect (Bool and the 15 numeric kinds) *)
Inductive skind : Type :=
| KBool | KInt | KInt8 | KInt16 | KInt32 | KInt64
| KUint | KUint8 | KUint16 | KUint32 | KUint64 | KUintptr
| KFloat32 | KFloat64 | KComplex64 | KComplex128.

Inductive value : Type :=
| VScalar (k : skind)
| VString (bytes : list Z)                (* the bytes of the string *)
| VSlice (o : option (list value))        (* None = nil slice *)
| VArray (l : list value)
| VMap (kvs : list (value * value))       (* a nil map and an empty map are both [] (MapKeys is empty) *)
| VPtr (o : option value)                 (* None = nil pointer *)
| VIface (o : option value)               (* a value of Kind Interface (struct field, element, pointee); None = nil *)
| VStruct (fields : list value)
| VOther.                                 (* Chan, Func, UnsafePointer: the [default] branch *)

(** [v.Type().Size()] of a scalar kind on amd64 (unsafe.Sizeof) *)
Definition type_size (k : skind) : Z :=
  match k with
  | KBool => 1
  | KInt => 8 | KInt8 => 1 | KInt16 => 2 | KInt32 => 4 | KInt64 => 8
  | KUint => 8 | KUint8 => 1 | KUint16 => 2 | KUint32 => 4 | KUint64 => 8 | KUintptr => 8
  | KFloat32 => 4 | KFloat64 => 8 | KComplex64 => 8 | KComplex128 => 16
  end.

(** the five package-level constants of sizeof.go (unsafe.Sizeof on amd64) *)
Definition mapsize : Z := 8.
Definition slicesize : Z := 24.
Definition stringsize : Z := 16.
Definition pointersize : Z := 8.
Definition interfacesize : Z := 16.

(** The loops [for i < n { s := sizeof(elem i); sum += s }]: left to right, the
    running [sum] is the accumulator, a panic inside an element aborts. *)
Section Loops.
  Variable f : value -> option Z.

  Fixpoint sum_elems (l : list value) (sum : Z) : option Z :=
    match l with
    | [] => Some sum
    | x :: t => match f x with
                | None => None
                | Some s => sum_elems t (sum + s)
                end
    end.

  (* map loop: sizeof(key) then sizeof(MapIndex(key)) *)
  Fixpoint sum_pairs (l : list (value * value)) (sum : Z) : option Z :=
    match l with
    | [] => Some sum
    | (k, x) :: t =>
        match f k with
        | None => None
        | Some s =>
            let sum := sum + s in
            match f x with
            | None => None
            | Some s => sum_pairs t (sum + s)
            end
        end
    end.
End Loops.

(** first switch of [sizeof] restricted to scalars: the kind list of the two
    scalar [case]s.  [legacy] is the list before commit 115a67f (no Uint, no
    Uintptr -> default -> panic). *)
Definition scalar_case (legacy : bool) (k : skind) : option Z :=
  match k with
  | KUint | KUintptr => if legacy then None else Some (type_size k)
  | _ => Some (type_size k)
  end.

(** second switch: the per-kind header *)
Definition header_of (v : value) : Z :=
  match v with
  | VMap _ => mapsize
  | VSlice _ => slicesize
  | VString _ => stringsize
  | VPtr _ => pointersize
  | VIface _ => interfacesize
  | _ => 0
  end.

Section Sizeof.
  Variable legacy : bool.

  (** [sizeof(v reflect.Value) int]; [None] = panic("unknown kind") *)
  Fixpoint sizeof_gen (v : value) : option Z :=
    let body :=
      match v with
      | VMap kvs => sum_pairs sizeof_gen kvs 0
      | VSlice None => Some 0                      (* v.Len() = 0 *)
      | VSlice (Some l) => sum_elems sizeof_gen l 0
      | VArray l => sum_elems sizeof_gen l 0
      | VString bs =>
          (* each byte is a uint8 value: sizeof(v.Index(i)) = its scalar case + header 0
             (written inline: [VScalar KUint8] is not a subterm of [v]) *)
          (fix go (bs : list Z) (sum : Z) : option Z :=
             match bs with
             | [] => Some sum
             | _ :: t => match scalar_case legacy KUint8 with
                         | None => None
                         | Some s => go t (sum + (s + 0))
                         end
             end) bs 0
      | VPtr None => Some 0
      | VPtr (Some x) => sizeof_gen x
      | VIface None => Some 0                       (* sizeof(invalid Value) = 0 *)
      | VIface (Some x) => sizeof_gen x
      | VStruct fs => sum_elems sizeof_gen fs 0
      | VScalar k => scalar_case legacy k
      | VOther => None
      end in
    match body with
    | None => None
    | Some sum => Some (sum + header_of v)
    end.

  (** [Of(data interface{}) int]: [None] argument = nil interface *)
  Definition Of_gen (data : option value) : option Z :=
    match data with
    | None => Some 0
    | Some v => sizeof_gen v
    end.

  (** First line of [Stat(v, depth, maxItem)] without options: "<nil>" for an
      invalid value, otherwise "<type>: <sizeof v>".  The model keeps the number:
      [Some None] = the line "<nil>", [Some (Some n)] = a line ending in n,
      [None] = panic.  [depth] and [maxItem] only control the lines after the
      first one (for a supported value the recursion below the header cannot
      panic when the header did not). *)
  Definition StatFirst_gen (data : option value) (depth maxItem : Z) : option (option Z) :=
    match data with
    | None => Some None
    | Some v => match sizeof_gen v with
                | None => None
                | Some n => Some (Some n)
                end
    end.
End Sizeof.

(** the code as it is now *)
Definition sizeof : value -> option Z := sizeof_gen false.
Definition Of : option value -> option Z := Of_gen false.
Definition StatFirst : option value -> Z -> Z -> option (option Z) := StatFirst_gen false.

(** the code before the fix (kept for [C20_uint_refuted]) *)
Definition legacy_sizeof : value -> option Z := sizeof_gen true.
Definition legacy_Of : option value -> option Z := Of_gen true.
