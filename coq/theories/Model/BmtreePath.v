(** Model of the path-word helpers of /repo/bmtree: newpath.go (NewPath),
    pathlen.go, pathheight.go, pathbits.go, height.go.  A path word is a uint64:
    upper 32 bits = searching bits, lower 32 bits = mask. *)
From Coq Require Import ZArith List Bool.
From Low Require Import Lib.MachInt Lib.Bits.
Import ListNotations.
Open Scope Z_scope.

(** [(searchingBits << 32) | (bitmap.Mask[length] << uint(height-length))], all uint64 *)
Definition NewPath (searchingBits length height : Z) : Z :=
  Z.lor (shl64 searchingBits 32) (shl64 (Mask length) (height - length)).

(** [int32(bits.OnesCount32(uint32(p)))] *)
Definition PathLen (p : Z) : Z := popcount (u32 p).
(** [int32(32 - bits.LeadingZeros32(uint32(path)))] *)
Definition PathHeight (p : Z) : Z := bitlen (u32 p).
Definition PathBits (p : Z) : Z := shr64 p 32.
Definition PathMask (p : Z) : Z := Z.land p (2^32 - 1).
(** [int32(31 - bits.LeadingZeros32(uint32(bitmapSize)))]  (-1 for 0) *)
Definition Height (bitmapSize : Z) : Z := bitlen (u32 bitmapSize) - 1.
