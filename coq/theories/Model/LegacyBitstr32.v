(** LEGACY: bitstr.New as it was before the /repo fix b2a771a, with its int32
    arithmetic explicit.  [(toBit + 7) >> 3] was computed in int32 and overflowed
    for toBit > MaxInt32 - 7: [toByte] became -2^28 and [make] panicked
    ("makeslice: len out of range").  Kept so that the refutation of the old
    behaviour (Proofs/Bitstr32Proofs.v, Properties/C09.v: ..._refuted) stays a
    checked statement.  The current code is modelled in Model/Bitstr32.v. *)
From Coq Require Import ZArith List Bool.
From Low Require Import Lib.MachInt Lib.Bits Lib.BitSeq Lib.Lex Model.Bitstr.
Import ListNotations.
Open Scope Z_scope.

Definition New32_legacy (s : list Z) (fromBit toBit : Z) : option (list Z) :=
  if (fromBit =? toBit) && (Z.land fromBit 7 =? 0) then Some [255]
  else
    let fromByte := sar32 fromBit 3 in
    let toByte := sar32 (i32 (toBit + 7)) 3 in
    let l := i32 (toByte - fromByte) in
    (* bitStr := make([]byte, l+1): l+1 is int32 arithmetic; a negative length panics *)
    let n := i32 (l + 1) in
    if n <? 0 then None else
    let bitStr := repeat 0 (Z.to_nat n) in
    (* copy(bitStr, s[fromBit>>3:toByte]) *)
    match sliceZ s (sar32 fromBit 3) toByte with
    | None => None
    | Some src =>
        let bitStr := copyZ bitStr src in
        let mask := rmask8 (Z.land (i32 (8 - toBit)) 7) in
        (* bitStr[l-1] &= mask *)
        match nthZ bitStr (i32 (l - 1)) with
        | None => None
        | Some x =>
            let bitStr := updZ bitStr (i32 (l - 1)) (Z.land x mask) in
            (* bitStr[l] = mask *)
            match nthZ bitStr l with
            | None => None
            | Some _ => Some (updZ bitStr l mask)
            end
        end
    end.
