(** Two more ways of driving the SectionWriter model of Model/SectionWriter.v (nothing
    new is modelled; [step] / [WriteAt] are the functions proved about):

    (1) buffers given compactly ([expand_buf start count]: count bytes
        (start + i) mod 251) and an underlying writer that fails BY POSITION: it
        accepts bytes below absolute offset F and returns error class e for a call
        that reaches F.  What is observed of the underlying writer is what it
        ACCEPTED, per call of the section writer, contiguous pieces merged:
        (offset, length, checksum) -- so that an implementation that hands a large
        buffer down in several consecutive pieces is not distinguished from one that
        hands it down in one.
    (2) two callers on one writer, B's call made while A's WriteAt is inside the
        underlying writer: WriteAt neither reads nor moves the cursor, so both calls
        behave as made from the same state. *)
From Coq Require Import ZArith List Bool.
From Low Require Import Lib.MachInt Lib.BitSeq Model.SectionWriter.
Import ListNotations.
Open Scope Z_scope.

Fixpoint expand_from (k : nat) (cur : Z) : list Z :=
  match k with
  | O => []
  | S k' => cur :: expand_from k' (if cur + 1 =? 251 then 0 else cur + 1)
  end.

Definition expand_buf (start count : Z) : list Z := expand_from (Z.to_nat count) (start mod 251).

(** sum of (i+1) * b_i (exact; below 2^63 for buffers of at most 2^22 bytes) *)
Definition cksum (bs : list Z) : Z :=
  snd (fold_left (fun st b => (fst st + 1, snd st + fst st * b)) bs (1, 0)).

(** the response of the position-fault writer to a call (a, len) *)
Definition pf_resp (F e : Z) (a len : Z) : list resp :=
  if F <? 0 then [] else if a + len <=? F then [] else [(Z.max 0 (F - a), e)].

Definition step_pf (F e : Z) (s : sw) (c : call) : sw * out :=
  let '(_, _, dry) := step s [] c in
  let sc := match ucalls dry with (a, bs) :: _ => pf_resp F e a (zlen bs) | [] => [] end in
  let '(s', _, r) := step s sc c in (s', r).

Fixpoint run_pf (F e : Z) (s : sw) (cs : list call) : list out :=
  match cs with
  | [] => []
  | c :: t => let '(s', r) := step_pf F e s c in r :: run_pf F e s' t
  end.

(** what the writer accepted during one call: (offset, length, checksum) *)
Definition accepted_segs (rs : list Z) (us : list ucall) : list (Z * Z * Z) :=
  match us with
  | (a, bs) :: _ =>
      let cnt := nth 0 rs 0 in
      if 0 <? cnt then [(a, cnt, cksum (firstn (Z.to_nat cnt) bs))] else []
  | [] => []
  end.

(** two callers: state after Seek(pos0, SeekStart); A = WriteAt(pA, oA); B = any call *)
Definition concurrent (o n pos0 : Z) (pA : list Z) (oA : Z) (cB : call) : out * out :=
  let s := fst (Seek (NewSectionWriter o n) pos0 0) in
  let '(_, _, rA) := WriteAt s [] pA oA in
  let '(_, _, rB) := step s [] cB in
  (rA, rB).
