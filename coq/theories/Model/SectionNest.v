(** Section writers stacked on section writers: NewSectionWriter(inner, off, n) where
    inner is itself a *SectionWriter (it implements io.WriterAt).  Nothing new is
    modelled: the outer writer's [s.w.WriteAt(p, off)] is the inner writer's WriteAt
    (section-relative offset!), and so on down to the scripted mock / file.

    [wat stack script p o]: WriteAt(p, o) on the first writer of [stack] (outermost
    first), the rest being the writers under it; result (n, err), remaining script,
    calls that reached the mock.  Same branches and int64 wraps as WriteAt of
    Model/SectionWriter.v. *)
From Coq Require Import ZArith List Bool.
From Low Require Import Lib.MachInt Lib.BitSeq Model.SectionWriter.
Import ListNotations.
Open Scope Z_scope.

Fixpoint wat (stack : list sw) (script : list resp) (p : list Z) (o : Z)
  : (Z * Z) * list resp * list ucall :=
  match stack with
  | [] => let '(r, script') := under script p in (r, script', [(o, p)])
  | s :: below =>
      if (o <? 0) || (o >=? i64 (limit s - base s)) then ((0, E_short), script, [])
      else
        let o' := i64 (o + base s) in
        let max := i64 (limit s - o') in
        if zlen p >? max then
          let p' := firstn (Z.to_nat max) p in
          let '((n, err), script', us) := wat below script p' o' in
          ((n, if err =? E_nil then E_short else err), script', us)
        else wat below script p o'
  end.

(** Write(p) on writer [s] whose underlying writer is the stack [below] *)
Definition WriteN (s : sw) (below : list sw) (script : list resp) (p : list Z)
  : sw * list resp * out :=
  if off s >=? limit s then (s, script, mkOut [0; E_short] [])
  else
    let max := i64 (limit s - off s) in
    let '(p', err) :=
      if zlen p >? max then (firstn (Z.to_nat max) p, E_short) else (p, E_nil) in
    let '((n, err2), script', us) := wat below script p' (off s) in
    let s' := mkSW (base s) (i64 (off s + n)) (limit s) in
    let err := if err2 =? E_nil then err else err2 in
    (s', script', mkOut [n; err] us).

Fixpoint upd {A} (k : nat) (x : A) (l : list A) : list A :=
  match l, k with
  | [], _ => []
  | _ :: t, O => x :: t
  | h :: t, S k' => h :: upd k' x t
  end.

(** the state: the writers, INNERMOST first (index 0 sits directly on the mock);
    a call is addressed to a level *)
Definition stepN (ss : list sw) (script : list resp) (lc : nat * call) : list sw * list resp * out :=
  let '(L, c) := lc in
  match nth_error ss L with
  | None => (ss, script, mkOut [] [])
  | Some s =>
      let below := rev (firstn L ss) in
      match c with
      | CWrite p => let '(s', script', r) := WriteN s below script p in (upd L s' ss, script', r)
      | CWriteAt p o => let '((n, e), script', us) := wat (s :: below) script p o in (ss, script', mkOut [n; e] us)
      | CSeek o wh => let (s', r) := Seek s o wh in (upd L s' ss, script, r)
      | CSize => (ss, script, mkOut [Size s] [])
      end
  end.

Fixpoint runN (ss : list sw) (script : list resp) (lcs : list (nat * call)) : list out :=
  match lcs with
  | [] => []
  | lc :: t => let '(ss', script', r) := stepN ss script lc in r :: runN ss' script' t
  end.
