(** /repo/bitmap/rank.go reading the [Mask] TABLE that [initMasks] of bitmap/mask.go fills (Model/BitmapMask12.v),
    instead of the closed form [Mask j = 2^j - 1] used by Model/Rank.v.  [Mask[j]] with [j] outside the table is
    a panic ([None]). *)
From Coq Require Import ZArith List Bool.
From Low Require Import Lib.MachInt Lib.Bits Lib.BitSeq Model.BitmapMask12.
Import ListNotations.
Open Scope Z_scope.

Definition Rank64_tab (ws rindex : list Z) (i : Z) : option (Z * Z) :=
  let wordI := Z.shiftr i 6 in
  let j := Z.land i 63 in
  match nthZ rindex wordI, nthZ ws wordI, nthZ Mask_tab j with
  | Some n, Some w, Some m => Some (n + popcount (Z.land w m), Z.land (Z.shiftr w j) 1)
  | _, _, _ => None
  end.

Definition Rank128_tab (ws rindex : list Z) (i : Z) : option (Z * Z) :=
  let wordI := Z.shiftr i 6 in
  let j := Z.land i 63 in
  let atRight := Z.land wordI 1 in
  match nthZ rindex (Z.shiftr (i + 64) 7), nthZ ws wordI, nthZ Mask_tab j with
  | Some n, Some w, Some m =>
      let cnt1 := popcount w in
      Some (n - atRight * cnt1 + popcount (Z.land w m), Z.land (Z.shiftr w j) 1)
  | _, _, _ => None
  end.
