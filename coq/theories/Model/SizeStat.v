(** Model of the REST of size.Stat (/repo/size/sizeof.go, [Stat] and [stat]): the
    whole multi-line report (C20 widening; Model/Size.v has [sizeof], [Of] and
    the number of the first line).

    [stat] prints, besides the sizes, three things that are not part of the
    model's [value]: the type of every node ([v.Type()] through %s), the names
    of struct fields and the text of map keys ([fmt.Sprintf("%s: ", mapkey)]).
    An [lvalue] is a [value] LABELLED with exactly these three texts (byte
    strings); the harness reads them off the real value with reflect / fmt when
    it generates a case.  [erase] forgets the labels.

    Map entries are listed in the order [v.MapKeys()] returned them — random in
    Go.  The model takes the order of the entries of [LMap] (see Run/C20.v for
    how the operations compare: exact text where no map with more than one
    entry is listed, sorted lines where every listed map is listed completely).

    No proofs in this file. *)
From Coq Require Import ZArith List Bool.
From Low Require Import Model.Size Model.SizeFmt.
Import ListNotations.
Open Scope Z_scope.

Inductive lvalue : Type :=
| LScalar (ty : list Z) (k : skind)
| LString (ty : list Z) (bs : list Z)
| LSlice (ty : list Z) (o : option (list lvalue))
| LArray (ty : list Z) (l : list lvalue)
| LMap (ty : list Z) (kvs : list (list Z * value * lvalue))   (* text of the key (%s), the key, the value *)
| LPtr (ty : list Z) (o : option lvalue)
| LIface (ty : list Z) (o : option lvalue)
| LStruct (ty : list Z) (fs : list (list Z * lvalue))          (* field name, field value *)
| LOther (ty : list Z).

Definition ty_of (v : lvalue) : list Z :=
  match v with
  | LScalar ty _ | LString ty _ | LSlice ty _ | LArray ty _ | LMap ty _
  | LPtr ty _ | LIface ty _ | LStruct ty _ | LOther ty => ty
  end.

Fixpoint erase (v : lvalue) : value :=
  match v with
  | LScalar _ k => VScalar k
  | LString _ bs => VString bs
  | LSlice _ None => VSlice None
  | LSlice _ (Some l) => VSlice (Some (map erase l))
  | LArray _ l => VArray (map erase l)
  | LMap _ kvs => VMap (map (fun e => let '(_, k, x) := e in (k, erase x)) kvs)
  | LPtr _ None => VPtr None
  | LPtr _ (Some x) => VPtr (Some (erase x))
  | LIface _ None => VIface None
  | LIface _ (Some x) => VIface (Some (erase x))
  | LStruct _ fs => VStruct (map (fun e => erase (snd e)) fs)
  | LOther _ => VOther
  end.

(** [subs[0] = prefix + subs[0]] (index out of range on an empty [subs]) *)
Definition prefix_first (p : list Z) (subs : list (list Z)) : option (list (list Z)) :=
  match subs with
  | [] => None
  | s0 :: r => Some ((p ++ s0) :: r)
  end.

(** [for i, s := range lines { if i > 0 { lines[i] = "    " + s } }] *)
Definition indent_tail (lines : list (list Z)) : list (list Z) :=
  match lines with
  | [] => []
  | h :: t => h :: map (fun s => s_indent ++ s) t
  end.

Section StatLoops.
  Variable f : lvalue -> option (list (list Z)).   (* stat(child, depth-1, maxItem, opt) *)
  Variable maxItem : Z.

  (** slice / array loop: [for i, n := 0, v.Len(); i < n && i < maxItem; i++] *)
  Fixpoint stat_elems (l : list lvalue) (i : Z) (lines : list (list Z)) : option (list (list Z)) :=
    match l with
    | [] => Some lines
    | x :: t =>
        if i <? maxItem then
          match f x with
          | None => None
          | Some subs =>
              match prefix_first (dec i ++ s_colon) subs with
              | None => None
              | Some subs => stat_elems t (i + 1) (lines ++ subs)
              end
          end
        else Some lines
    end.

  (** map loop: [for i := 0; i < len(keys) && i < maxItem; i++] *)
  Fixpoint stat_pairs (l : list (list Z * value * lvalue)) (i : Z) (lines : list (list Z)) : option (list (list Z)) :=
    match l with
    | [] => Some lines
    | (kt, _, x) :: t =>
        if i <? maxItem then
          match f x with
          | None => None
          | Some subs =>
              match prefix_first (kt ++ s_colon) subs with
              | None => None
              | Some subs => stat_pairs t (i + 1) (lines ++ subs)
              end
          end
        else Some lines
    end.

  (** struct loop: every field, no item limit *)
  Fixpoint stat_fields (l : list (list Z * lvalue)) (lines : list (list Z)) : option (list (list Z)) :=
    match l with
    | [] => Some lines
    | (nm, x) :: t =>
        match f x with
        | None => None
        | Some subs =>
            match prefix_first (nm ++ s_colon) subs with
            | None => None
            | Some subs => stat_fields t (lines ++ subs)
            end
        end
    end.
End StatLoops.

(** [stat(v reflect.Value, depth, maxItem int, opt Opt) []string] for a valid [v];
    [None] = panic (only [sizeof] of an unsupported kind can) *)
Fixpoint stat (o : sopt) (maxItem : Z) (v : lvalue) (depth : Z) {struct v} : option (list (list Z)) :=
  match sizeof (erase v) with
  | None => None
  | Some s =>
      let header := header_text o (ty_of v) s in
      if depth =? 0 then Some [header]
      else
        let depth := depth - 1 in
        let lines := [header] in
        let body :=
          match v with
          | LMap _ kvs => stat_pairs (fun x => stat o maxItem x depth) maxItem kvs 0 lines
          | LSlice _ None => Some lines
          | LSlice _ (Some l) => stat_elems (fun x => stat o maxItem x depth) maxItem l 0 lines
          | LArray _ l => stat_elems (fun x => stat o maxItem x depth) maxItem l 0 lines
          | LPtr _ None => Some lines
          | LPtr _ (Some x) =>
              match stat o maxItem x depth with
              | None => None
              | Some subs => Some (lines ++ subs)
              end
          | LIface _ None => Some (lines ++ [s_nil])       (* stat(invalid Value) = ["<nil>"] *)
          | LIface _ (Some x) =>
              match stat o maxItem x depth with
              | None => None
              | Some subs => Some (lines ++ subs)
              end
          | LStruct _ fs => stat_fields (fun x => stat o maxItem x depth) fs lines
          | _ => Some lines
          end in
        match body with
        | None => None
        | Some lines => Some (indent_tail lines)
        end
  end.

(** [strings.Join(lines, "\n")] *)
Fixpoint join_nl (lines : list (list Z)) : list Z :=
  match lines with
  | [] => []
  | [s] => s
  | s :: t => s ++ 10 :: join_nl t
  end.

(** [Stat(v interface{}, depth, maxItem int, opts ...interface{}) string]:
    the lines, and the joined text.  [None] argument = nil interface. *)
Definition StatLines (data : option lvalue) (depth maxItem : Z) (o : sopt) : option (list (list Z)) :=
  match data with
  | None => Some [s_nil]
  | Some v => stat o maxItem v depth
  end.
Definition StatText (data : option lvalue) (depth maxItem : Z) (o : sopt) : option (list Z) :=
  match StatLines data depth maxItem o with
  | None => None
  | Some lines => Some (join_nl lines)
  end.

(** the variadic [opts ...interface{}]: [if len(opts) > 0 { opt = opts[0].(Opt) }] — only the first
    option is looked at; [None] = a value that is not an [Opt] (the type assertion panics, before
    anything is measured) *)
Definition StatOpts (data : option lvalue) (depth maxItem : Z) (opts : list (option sopt)) : option (list Z) :=
  match opts with
  | [] => StatText data depth maxItem no_opt
  | Some o :: _ => StatText data depth maxItem o
  | None :: _ => None
  end.
