(** pbcmpl over one file through iohelper (C18 widening, cross-package):

      pbcmpl.Marshal(iohelper.AtToWriter(f, off), msg)
      pbcmpl.Unmarshal(iohelper.AtToReader(f, off), msg)

    the way the package's own tests and its users combine the two.  Nothing new
    is modelled: [Marshal] / [Unmarshal] of Model/Pbcmpl.v are instantiated with
    - the io.Writer "section writer (Model/SectionWriter.v) over the in-memory
      file (Model/MemFile.v), the file accepting everything", and
    - the io.Reader "AtToReader (Model/SectionReader.v) over that file, the file
      never failing".
    Error values of io / iohelper seen through pbcmpl's error classes: nil,
    io.EOF, anything else (io.ErrShortWrite: cannot occur below 2^63-1). *)
From Coq Require Import ZArith List Bool.
From Low Require Import Lib.MachInt Lib.BitSeq Model.SectionWriter Model.MemFile Model.SectionReader
  Model.Pbcmpl.
Import ListNotations.
Open Scope Z_scope.

Definition perr_of (e : Z) : option perr :=
  if e =? 0 then None else if e =? E_eof then Some EEOF else Some EInjected.

(** the io.Writer: a section writer and the file under it *)
Definition fwriter : Type := (sw * list Z)%type.

Definition fwrite (w : fwriter) (p : list Z) : Z * option perr * fwriter :=
  let '(s', _, r) := Write (fst w) [] p in
  (nth 0 (rets r) 0, perr_of (nth 1 (rets r) 0), (s', apply_out (snd w) r)).

(** the io.Reader over file [f]: the state is the SectionReader *)
Definition fread_r (f : list Z) (s : sr) (k : Z) : list Z * option perr * sr :=
  let '(s', _, r) := Read s f [] k in (rbytes r, perr_of (rerr r), s').

(** enough fuel for every loop over this reader *)
Definition file_fuel (f : list Z) : nat := S (S (length f)).

Definition MarshalAt (kind : Z) (f : list Z) (off : Z) (p : list Z) (ver : option (list Z))
  : option (Z * option perr * fwriter) :=
  Marshal (k_enc kind) fwrite (AtToWriter off, f) p ver.

Definition UnmarshalAt (kind : Z) (f : list Z) (off : Z)
  : option (Z * list Z * option perr * option (list Z) * sr) :=
  Unmarshal (k_dec kind) (fread_r f) grow_default (file_fuel f) (AtToReader off).

(** one placement: where, and the message [(version or none, payload)] *)
Definition placement : Type := (Z * (option (list Z) * list Z))%type.

(** marshal every placement in turn into the file: results [(n, err)] and the file *)
Fixpoint marshal_all (kind : Z) (f : list Z) (ps : list placement)
  : option (list (Z * option perr) * list Z) :=
  match ps with
  | [] => Some ([], f)
  | (off, (ver, p)) :: t =>
      match MarshalAt kind f off p ver with
      | None => None
      | Some (n, err, (_, f')) =>
          match marshal_all kind f' t with
          | None => None
          | Some (rs, f'') => Some ((n, err) :: rs, f'')
          end
      end
  end.

Fixpoint opt_seq {A} (l : list (option A)) : option (list A) :=
  match l with
  | [] => Some []
  | None :: _ => None
  | Some x :: t => match opt_seq t with Some r => Some (x :: r) | None => None end
  end.

(** unmarshal at every offset: [(n, version, err, payload)] *)
Definition unmarshal_all (kind : Z) (f : list Z) (offs : list Z)
  : option (list (Z * list Z * option perr * list Z)) :=
  opt_seq (map (fun off =>
    match UnmarshalAt kind f off with
    | None => None
    | Some (n, ver, err, m, _) => Some (n, ver, err, match m with Some p => p | None => [] end)
    end) offs).

(** repeated Unmarshal through ONE AtToReader(f, off) -- the frames read as a stream --
    until the first error or [count] frames: [(n, version, err, payload)] per call *)
Fixpoint stream_file (count : nat) (kind : Z) (f : list Z) (s : sr)
  : option (list (Z * list Z * option perr * list Z)) :=
  match count with
  | O => Some []
  | S k =>
      match Unmarshal (k_dec kind) (fread_r f) grow_default (file_fuel f) s with
      | None => None
      | Some (n, ver, err, m, s') =>
          let step := (n, ver, err, match m with Some p => p | None => [] end) in
          match err with
          | Some _ => Some [step]
          | None => match stream_file k kind f s' with
                    | Some r => Some (step :: r)
                    | None => None
                    end
          end
      end
  end.

Definition StreamAt (kind : Z) (f : list Z) (off : Z) (count : nat) := stream_file count kind f (AtToReader off).
