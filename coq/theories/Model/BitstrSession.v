(** Compositions of the bitstr model functions that the session / aliasing protocol
    operations run (no new Go code is modelled here: the model is pure, so writing
    into a returned slice, or passing views of one buffer, cannot change a result —
    which is exactly what the real code is checked against). *)
From Coq Require Import ZArith List Bool.
From Low Require Import Lib.MachInt Lib.Bits Lib.BitSeq Lib.Lex Model.Bitstr Model.Bitstr32 Spec.BitstrSessionSpec.
Import ListNotations.
Open Scope Z_scope.

Fixpoint session_run (prev : option (list Z)) (rs : list range) : option (list (list Z * Z * Z)) :=
  match rs with
  | [] => Some []
  | (s, f, t) :: rs' =>
      match New32 s f t with
      | None => None
      | Some e =>
          let p := match prev with Some p => p | None => e end in
          match Len32 e, Cmp e p, session_run (Some e) rs' with
          | Some n, Some c, Some rest => Some ((e, n, c) :: rest)
          | _, _, _ => None
          end
      end
  end.

(** CmpUpto(e[:k], e) for k = 0 .. len(e) *)
Fixpoint opt_list {A} (l : list (option A)) : option (list A) :=
  match l with
  | [] => Some []
  | Some x :: t => match opt_list t with Some r => Some (x :: r) | None => None end
  | None :: _ => None
  end.

Definition alias_run (e : list Z) : option (list Z) :=
  opt_list (map (fun k => CmpUpto (firstn k e) e) (seq 0 (S (length e)))).
