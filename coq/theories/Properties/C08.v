(** C08 — bitword split/join.  Only the property theorems, each closed by
    [exact], their axiom audit, and non-vacuity examples.

    Vocabulary (Spec/BitwordSpec.v, Lib/Pack_bw.v): [msb_bits s] is the bit
    string of the byte string s (most significant bit of each byte first);
    [chunks n l] its consecutive complete n-element chunks; [val_msb] reads a
    bit list as a binary numeral; [to_bits n x] are the n low bits of x, most
    significant first; [pack l] cuts a bit list into bytes after zero-padding it
    to a whole number of bytes.  The model (Model/Bitword.v) has the loops,
    shift counts, masks and the uint8 accumulator of bitword.go; [None] is a
    panic.  Strings are byte lists ([bytes_ok]: every element in [0,256)); sizes
    and indexes are unbounded. *)
From Coq Require Import ZArith List Bool.
From Low Require Import Lib.MachInt Lib.Bits Lib.BitSeq Lib.Bytes Lib.Pack_bw Model.Bitword Spec.BitwordSpec
  Lib.Lex Spec.BitwordSpecDirect Spec.BitwordSpecWiden
  Proofs.BitwordProofs Proofs.BitwordToStr Proofs.BitwordFirstDiff Proofs.BitwordDirect Proofs.BitwordWiden Proofs.BitwordLcp Proofs.BitwordRoundTrip.
Import ListNotations.
Open Scope Z_scope.

(** the byte-typed constant (1<<n)-1 is the n-bit mask for the four widths (n = 8 wraps through 0) *)
Theorem C08_newBW : forall n, widthP n ->
  width (newBW (Z.of_nat n)) = Z.of_nat n /\
  byteCap (newBW (Z.of_nat n)) = 8 / Z.of_nat n /\
  wordMask (newBW (Z.of_nat n)) = 2 ^ Z.of_nat n - 1.
Proof. exact newBW_fields. Qed.
Print Assumptions C08_newBW.

(** FromStr(s) = the values of the consecutive n-bit chunks of the bits of s *)
Theorem C08_FromStr : forall n s, widthP n -> bytes_ok s ->
  FromStr (newBW (Z.of_nat n)) s = map val_msb (chunks n (msb_bits s)).
Proof. exact FromStr_exact. Qed.
Print Assumptions C08_FromStr.

(** it has 8*len(s)/n words (no hypothesis on the bytes) *)
Theorem C08_FromStr_length : forall n s, widthP n ->
  zlen (FromStr (newBW (Z.of_nat n)) s) = 8 * zlen s / Z.of_nat n.
Proof. exact FromStr_length. Qed.
Print Assumptions C08_FromStr_length.

(** every word FromStr produces is < 2^n *)
Theorem C08_FromStr_in_range : forall n s, widthP n -> bytes_ok s ->
  words_in n (FromStr (newBW (Z.of_nat n)) s).
Proof. exact FromStr_in_range. Qed.
Print Assumptions C08_FromStr_in_range.

(** Get(s,i) = word i of FromStr(s), for every index in range; it does not panic there *)
Theorem C08_Get_nth : forall n s i, widthP n -> 0 <= i < 8 * zlen s / Z.of_nat n ->
  Get (newBW (Z.of_nat n)) s i = Some (nth (Z.to_nat i) (FromStr (newBW (Z.of_nat n)) s) 0).
Proof. exact Get_nth. Qed.
Print Assumptions C08_Get_nth.

(** Get(s,i) = the value of bits [i*n, (i+1)*n) of s *)
Theorem C08_Get : forall n s i, widthP n -> bytes_ok s -> 0 <= i < 8 * zlen s / Z.of_nat n ->
  Get (newBW (Z.of_nat n)) s i = nthZ (map val_msb (chunks n (msb_bits s))) i.
Proof. exact Get_exact. Qed.
Print Assumptions C08_Get.

(** ToStr of in-range words = their bits, n per word, MSB first, one after the
    other, zero-padded to whole bytes; never panics (uint8 accumulator and the
    byte shift by [width] included) *)
Theorem C08_ToStr : forall n ws, widthP n -> words_in n ws ->
  ToStr (newBW (Z.of_nat n)) ws = Some (pack (flat_map (to_bits n) ws)).
Proof. exact ToStr_exact. Qed.
Print Assumptions C08_ToStr.

(** the packed string has ceil(len(ws)*n/8) bytes *)
Theorem C08_ToStr_length : forall n ws, widthP n ->
  zlen (pack (flat_map (to_bits n) ws)) = (zlen ws * Z.of_nat n + 7) / 8.
Proof. exact spec_ToStr_length. Qed.
Print Assumptions C08_ToStr_length.

(** ToStr(FromStr(s)) = s *)
Theorem C08_ToStr_FromStr : forall n s, widthP n -> bytes_ok s ->
  ToStr (newBW (Z.of_nat n)) (FromStr (newBW (Z.of_nat n)) s) = Some s.
Proof. exact ToStr_FromStr. Qed.
Print Assumptions C08_ToStr_FromStr.

(** FirstDiff(a,b,from,end) = the first index of the window [from, lim) at which
    the word lists differ, else lim ([spec_FirstDiff] scans the window of the
    naive word lists with [find]); lim = min(end', words(a), words(b)), end' =
    words(a) for end = -1.  Covers from >= lim, end beyond either string, end = -1. *)
Theorem C08_FirstDiff : forall n a b from end_, widthP n -> bytes_ok a -> bytes_ok b ->
  0 <= from -> -1 <= end_ ->
  FirstDiff (newBW (Z.of_nat n)) a b from end_ = Some (spec_FirstDiff n a b from end_).
Proof. exact FirstDiff_exact. Qed.
Print Assumptions C08_FirstDiff.

(** the same as a minimum: the result r is lim when the window is empty;
    otherwise from <= r <= lim, the words agree at every index of [from, r), and
    differ at r when r < lim *)
Theorem C08_FirstDiff_min : forall n a b from end_, widthP n -> bytes_ok a -> bytes_ok b ->
  0 <= from -> -1 <= end_ ->
  let wa := map val_msb (chunks n (msb_bits a)) in
  let wb := map val_msb (chunks n (msb_bits b)) in
  let lim := lim_of n a b end_ in
  exists r, FirstDiff (newBW (Z.of_nat n)) a b from end_ = Some r /\
    (lim <= from -> r = lim) /\
    (from <= lim -> from <= r <= lim /\
       (forall i, from <= i < r -> nthZ wa i = nthZ wb i) /\
       (r < lim -> nthZ wa r <> nthZ wb r)).
Proof. exact FirstDiff_min. Qed.
Print Assumptions C08_FirstDiff_min.

(** FromStrs / ToStrs apply the conversions element-wise *)
Theorem C08_FromStrs : forall n ss, widthP n -> Forall bytes_ok ss ->
  FromStrs (newBW (Z.of_nat n)) ss = map (fun s => map val_msb (chunks n (msb_bits s))) ss.
Proof. exact FromStrs_exact. Qed.
Print Assumptions C08_FromStrs.

Theorem C08_ToStrs : forall n wss, widthP n -> Forall (words_in n) wss ->
  ToStrs (newBW (Z.of_nat n)) wss = Some (map (fun ws => pack (flat_map (to_bits n) ws)) wss).
Proof. exact ToStrs_exact. Qed.
Print Assumptions C08_ToStrs.

(** * the word-by-word reading used by the correspondence run on large inputs
    (ops bitword.Get/large, FirstDiff/large, FromStr/large, ToStr/large) is the same specification *)

(** "word i is the n bits of s starting at bit i*n": [spec_word] = indexing the chunk list *)
Theorem C08_direct_word : forall n s i, (0 < n)%nat ->
  spec_word n s i = nthZ (map val_msb (chunks n (msb_bits s))) i.
Proof. exact spec_word_eq. Qed.
Print Assumptions C08_direct_word.

Theorem C08_direct_FirstDiff : forall n a b from end_, (0 < n)%nat ->
  spec_FirstDiff_direct n a b from end_ = spec_FirstDiff n a b from end_.
Proof. exact spec_FirstDiff_direct_eq. Qed.
Print Assumptions C08_direct_FirstDiff.

Theorem C08_direct_FromStr : forall n s, (0 < n)%nat ->
  spec_FromStr_seq n s = map val_msb (chunks n (msb_bits s)).
Proof. exact spec_FromStr_seq_eq. Qed.
Print Assumptions C08_direct_FromStr.

Theorem C08_direct_ToStr : forall n ws, spec_ToStr_seq n ws = pack (flat_map (to_bits n) ws).
Proof. exact spec_ToStr_seq_eq. Qed.
Print Assumptions C08_direct_ToStr.

(** Get and FromStr against the word-by-word reading, as observed by bitword.Get/large *)
Theorem C08_Get_word : forall n s i, widthP n -> bytes_ok s -> 0 <= i < nwords n s ->
  Get (newBW (Z.of_nat n)) s i = spec_word n s i /\
  nthZ (FromStr (newBW (Z.of_nat n)) s) i = spec_word n s i.
Proof. exact Get_word. Qed.
Print Assumptions C08_Get_word.

(** * widened: around the statement of C08 *)

(** FromStr keeps the order of the strings (doc comment of FromStr: "the result byte slice keeps
    order with the original string"): comparing the word slices byte-wise = comparing the strings *)
Theorem C08_FromStr_order : forall n a, widthP n -> forall b, bytes_ok a -> bytes_ok b ->
  bytes_cmp (FromStr (newBW (Z.of_nat n)) a) (FromStr (newBW (Z.of_nat n)) b) = bytes_cmp a b.
Proof. exact FromStr_order. Qed.
Print Assumptions C08_FromStr_order.

Theorem C08_FromStr_injective : forall n a b, widthP n -> bytes_ok a -> bytes_ok b ->
  FromStr (newBW (Z.of_nat n)) a = FromStr (newBW (Z.of_nat n)) b -> a = b.
Proof. exact FromStr_inj. Qed.
Print Assumptions C08_FromStr_injective.

(** Get for EVERY int index: the word inside [0, words), a panic ([None]) outside *)
Theorem C08_Get_any : forall n s i, widthP n -> bytes_ok s ->
  Get (newBW (Z.of_nat n)) s i = spec_word n s i.
Proof. exact Get_any. Qed.
Print Assumptions C08_Get_any.

Theorem C08_Get_panics_outside : forall n s i, widthP n -> ~ (0 <= i < 8 * zlen s / Z.of_nat n) ->
  Get (newBW (Z.of_nat n)) s i = None.
Proof. exact Get_outside. Qed.
Print Assumptions C08_Get_panics_outside.

(** FirstDiff for EVERY (from, end): lim when the window [from, lim) is empty (also for negative
    from or end < -1), a panic when it is not empty and from < 0, else the first differing index *)
Theorem C08_FirstDiff_any : forall n a b from end_, widthP n -> bytes_ok a -> bytes_ok b ->
  FirstDiff (newBW (Z.of_nat n)) a b from end_ = spec_FirstDiff_any n a b from end_.
Proof. exact FirstDiff_any. Qed.
Print Assumptions C08_FirstDiff_any.

(** ToStr on ARBITRARY words (no range hypothesis at all): never panics; output byte k is the
    base-2^n numeral of the k-th group of 8/n words (missing words = 0) modulo 256 - the carries of
    the uint8 accumulator; on in-range words this is the packing of C08_ToStr *)
Theorem C08_ToStr_any : forall n ws, widthP n ->
  ToStr (newBW (Z.of_nat n)) ws = Some (spec_ToStr_any n ws).
Proof. exact ToStr_any. Qed.
Print Assumptions C08_ToStr_any.

Theorem C08_ToStr_any_in_range : forall n ws, widthP n -> words_in n ws ->
  spec_ToStr_any n ws = pack (flat_map (to_bits n) ws).
Proof. exact spec_ToStr_any_in. Qed.
Print Assumptions C08_ToStr_any_in_range.

(** FirstDiff(a, b, 0, -1) = the length of the longest common prefix of the two word lists
    (the use the trie code makes of it) *)
Theorem C08_FirstDiff_lcp : forall n a b, widthP n ->
  FirstDiff (newBW (Z.of_nat n)) a b 0 (-1) =
  Some (zlen (lcp Z.eqb (FromStr (newBW (Z.of_nat n)) a) (FromStr (newBW (Z.of_nat n)) b))).
Proof. exact FirstDiff_lcp. Qed.
Print Assumptions C08_FirstDiff_lcp.

(** the round trip in the other direction: FromStr(ToStr(ws)) = ws followed by the zero words that
    complete the last byte ([spec_FromStr_ToStr]); = ws for a whole number of bytes *)
Theorem C08_FromStr_ToStr : forall n ws, widthP n -> words_in n ws ->
  exists s, ToStr (newBW (Z.of_nat n)) ws = Some s /\
            FromStr (newBW (Z.of_nat n)) s = spec_FromStr_ToStr n ws.
Proof. exact FromStr_ToStr. Qed.
Print Assumptions C08_FromStr_ToStr.

Theorem C08_FromStr_ToStr_whole : forall n ws, widthP n -> words_in n ws -> (length ws mod (8 / n) = 0)%nat ->
  exists s, ToStr (newBW (Z.of_nat n)) ws = Some s /\ FromStr (newBW (Z.of_nat n)) s = ws.
Proof. exact FromStr_ToStr_whole. Qed.
Print Assumptions C08_FromStr_ToStr_whole.

(** * non-vacuity *)

(** the four widths satisfy the hypothesis; a string with high bits set *)
Example C08_FromStr_nonvacuous :
  widthP 1 /\ widthP 2 /\ widthP 4 /\ widthP 8 /\ bytes_ok [0xa5; 0xff; 0x01] /\
  FromStr (newBW 2) [0xa5; 0xff; 0x01] = [2; 2; 1; 1; 3; 3; 3; 3; 0; 0; 0; 1] /\
  FromStr (newBW 4) [0xa5; 0xff; 0x01] = [0xa; 5; 0xf; 0xf; 0; 1] /\
  FromStr (newBW 8) [0xa5; 0xff; 0x01] = [0xa5; 0xff; 0x01] /\
  FromStr (newBW 1) [0xa5] = [1; 0; 1; 0; 0; 1; 0; 1] /\
  words_in 2 (FromStr (newBW 2) [0xa5; 0xff; 0x01]).
Proof.
  unfold widthP. repeat split; auto; try (apply bytes_okb_ok; reflexivity).
  apply words_inb_in. reflexivity.
Qed.

(** Get in range (last word of a 3-byte string) and the panic just outside *)
Example C08_Get_nonvacuous :
  0 <= 11 < 8 * zlen [0xa5; 0xff; 0x01] / Z.of_nat 2 /\
  Get (newBW 2) [0xa5; 0xff; 0x01] 11 = Some 1 /\
  Get (newBW 4) [0xa5; 0xff; 0x01] 0 = Some 0xa /\
  Get (newBW 2) [0xa5; 0xff; 0x01] 12 = None.
Proof. vm_compute. intuition congruence. Qed.

(** ToStr with a partial last byte (three 2-bit words, five 1-bit words) and a full round trip *)
Example C08_ToStr_nonvacuous :
  words_in 2 [3; 0; 1] /\ ToStr (newBW 2) [3; 0; 1] = Some [0xc4] /\
  words_in 1 [1; 1; 1; 1; 1; 1; 1; 1; 1] /\ ToStr (newBW 1) [1; 1; 1; 1; 1; 1; 1; 1; 1] = Some [0xff; 0x80] /\
  words_in 8 [0xff; 0x80] /\ ToStr (newBW 8) [0xff; 0x80] = Some [0xff; 0x80] /\
  ToStr (newBW 4) (FromStr (newBW 4) [0xa5; 0xff; 0x01]) = Some [0xa5; 0xff; 0x01] /\
  ToStr (newBW 4) [] = Some [].
Proof. repeat split; try (apply words_inb_in; reflexivity); reflexivity. Qed.

(** FirstDiff: a difference inside the window, a window that starts after it,
    end = -1, end beyond the shorter string, from >= end *)
Example C08_FirstDiff_nonvacuous :
  bytes_ok [0xa5; 0xff] /\ bytes_ok [0xa5; 0xf7; 0x00] /\
  FirstDiff (newBW 1) [0xa5; 0xff] [0xa5; 0xf7; 0x00] 0 (-1) = Some 12 /\
  FirstDiff (newBW 4) [0xa5; 0xff] [0xa5; 0xf7; 0x00] 0 100 = Some 3 /\
  FirstDiff (newBW 4) [0xa5; 0xff] [0xa5; 0xf7; 0x00] 0 3 = Some 3 /\
  FirstDiff (newBW 2) [0xa5; 0xff] [0xa5; 0xf7; 0x00] 7 (-1) = Some 8 /\
  FirstDiff (newBW 2) [0xa5; 0xff] [0xa5; 0xf7; 0x00] 9 4 = Some 4 /\
  lim_of 2 [0xa5; 0xff] [0xa5; 0xf7; 0x00] (-1) = 8.
Proof. repeat split; try (apply bytes_okb_ok; reflexivity); reflexivity. Qed.

Example C08_maps_nonvacuous :
  Forall bytes_ok [[0xa5]; []; [0x01; 0x80]] /\
  FromStrs (newBW 4) [[0xa5]; []; [0x01; 0x80]] = [[0xa; 5]; []; [0; 1; 8; 0]] /\
  Forall (words_in 4) [[0xa; 5]; []; [0; 1; 8]] /\
  ToStrs (newBW 4) [[0xa; 5]; []; [0; 1; 8]] = Some [[0xa5]; []; [0x01; 0x80]].
Proof.
  repeat split; try reflexivity.
  - repeat (apply Forall_cons; [apply bytes_okb_ok; reflexivity|]). apply Forall_nil.
  - repeat (apply Forall_cons; [apply words_inb_in; reflexivity|]). apply Forall_nil.
Qed.

Example C08_direct_nonvacuous :
  spec_word 4 [0xa5; 0xff; 0x01] 5 = Some 1 /\ spec_word 4 [0xa5; 0xff; 0x01] 6 = None /\
  spec_word 4 [0xa5; 0xff; 0x01] (-1) = None /\
  spec_FirstDiff_direct 2 [0xa5; 0xff] [0xa5; 0xf7; 0x00] 0 (-1) = 6 /\
  spec_FromStr_seq 2 [0xa5; 0xff; 0x01] = [2; 2; 1; 1; 3; 3; 3; 3; 0; 0; 0; 1] /\
  spec_ToStr_seq 2 [3; 0; 1] = [0xc4].
Proof. repeat split; reflexivity. Qed.

Example C08_widen_nonvacuous :
  bytes_cmp (FromStr (newBW 4) [0x61]) (FromStr (newBW 4) [0x61; 0x00]) = Lt /\
  bytes_cmp (FromStr (newBW 1) [0x80]) (FromStr (newBW 1) [0x7f; 0xff]) = Gt /\
  Get (newBW 2) [0xa5] (-1) = None /\ Get (newBW 2) [0xa5] 4 = None /\ Get (newBW 2) [0xa5] 3 = Some 1 /\
  FirstDiff (newBW 4) [0xa5] [0xa5] (-1) (-1) = None /\
  FirstDiff (newBW 4) [0xa5] [0xa5] (-1) (-3) = Some (-3) /\
  FirstDiff (newBW 4) [0xa5] [] (-1) (-1) = None /\
  FirstDiff (newBW 4) [0xa5] [] 0 (-1) = Some 0 /\
  lcp Z.eqb (FromStr (newBW 4) [0xa5; 0xff]) (FromStr (newBW 4) [0xa5; 0xf7; 0x00]) = [0xa; 5; 0xf] /\
  FirstDiff (newBW 4) [0xa5; 0xff] [0xa5; 0xf7; 0x00] 0 (-1) = Some 3 /\
  FromStr (newBW 2) [0xc4] = [3; 0; 1; 0] /\ spec_FromStr_ToStr 2 [3; 0; 1] = [3; 0; 1; 0] /\
  spec_FromStr_ToStr 2 [3; 0; 1; 2] = [3; 0; 1; 2] /\
  ToStr (newBW 4) [0x1f; 0x23; 0xff] = Some [0x13; 0xf0] /\
  ToStr (newBW 8) [0x1f; 0x23] = Some [0x1f; 0x23] /\
  spec_ToStr_any 4 [0x1f; 0x23; 0xff] = [0x13; 0xf0].
Proof. repeat split; reflexivity. Qed.
