(** C08 — bitword split/join.  Only the property theorems, each closed by
    [exact], their axiom audit, and non-vacuity examples. *)
From Coq Require Import ZArith List Bool.
From Low Require Import Lib.MachInt Lib.Bits Lib.BitSeq Lib.Bytes Lib.Pack_bw Model.Bitword Spec.BitwordSpec Proofs.BitwordProofs.
Import ListNotations.
Open Scope Z_scope.

(** the byte-typed constant (1<<n)-1 is the n-bit mask for the four widths (n = 8 wraps through 0) *)
Theorem C08_newBW : forall n, widthP n ->
  width (newBW (Z.of_nat n)) = Z.of_nat n /\
  byteCap (newBW (Z.of_nat n)) = 8 / Z.of_nat n /\
  wordMask (newBW (Z.of_nat n)) = 2 ^ Z.of_nat n - 1.
Proof. exact newBW_fields. Qed.
Print Assumptions C08_newBW.
