(** C11 — FromStr32 / PathOf / PathsOf extract exactly the requested bits of a string.
    Only the property theorems (each closed by [exact]), their axiom audit and
    non-vacuity examples.

    Vocabulary: a string is a [list Z] of bytes; [msb_bits s] is its bit string,
    most significant bit of each byte first (Lib/Bytes.v); [val_msb] reads a bit
    list as a binary numeral, first element most significant; [enc h q] is the
    path word of node [q] in a tree of height [h] (Spec/Bmtree.v, the object of
    C10); [clamp x lo hi = max lo (min x hi)].

    Hypotheses = the domain of the property plus Go's own integer ranges:
    [from >= 0], [0 <= w <= 32], and [from + w + 7 < 2^31], [8*|s| < 2^31] (the
    int32 bit positions [tobit + 7] and [len(s) << 3] do not overflow).  No bound
    on the length of the string or of the key list otherwise. *)
From Coq Require Import ZArith List Bool Lia Sorted.
From Low Require Import Lib.MachInt Lib.Bits Lib.BitSeq Lib.Lex Lib.Bytes Spec.Bmtree Spec.PathSpec Spec.FromStr32Spec
  Spec.PathsOfSortedSpec Model.BmtreePath Model.BmtreePathStr Model.FromStr32 Model.LegacyPathsOf
  Model.FromStr32Variants
  Proofs.FromStr32Proofs Proofs.FromStr32Order Proofs.FromStr32Far.
Import ListNotations.
Open Scope Z_scope.

(** FromStr32(s, from, from+w) returns k = clamp(8|s| - from, 0, w) and the w-bit
    value whose top k bits are bits [from, from+k) of s and whose other bits are 0 *)
Theorem C11_FromStr32 : forall s from w,
  bytes_ok s -> 0 <= from -> 0 <= w <= 32 -> from + w + 7 < 2 ^ 31 -> 8 * zlen s < 2 ^ 31 ->
  let k := clamp (8 * zlen s - from) 0 w in
  FromStr32 s from (from + w) =
  Some (k, val_msb (firstn (Z.to_nat k) (skipn (Z.to_nat from) (msb_bits s)) ++ repeat false (Z.to_nat (w - k)))).
Proof. exact FromStr32_naive. Qed.
Print Assumptions C11_FromStr32.

(** the same statement bit by bit: the value is below 2^w; its m-th bit from the
    top (of w) is bit from+m of the string for m < k, and 0 for k <= m < w *)
Theorem C11_FromStr32_bits : forall s from w,
  bytes_ok s -> 0 <= from -> 0 <= w <= 32 -> from + w + 7 < 2 ^ 31 -> 8 * zlen s < 2 ^ 31 ->
  exists v, FromStr32 s from (from + w) = Some (clamp (8 * zlen s - from) 0 w, v) /\
    0 <= v < 2 ^ w /\
    forall m, 0 <= m < w ->
      Z.testbit v (w - 1 - m) =
      if m <? clamp (8 * zlen s - from) 0 w then nth (Z.to_nat (from + m)) (msb_bits s) false else false.
Proof. exact FromStr32_bits. Qed.
Print Assumptions C11_FromStr32_bits.

(** the function the correspondence run uses as checker is the one of the theorem *)
Theorem C11_FromStr32_checker : forall s from w,
  bytes_ok s -> 0 <= from -> 0 <= w <= 32 -> from + w + 7 < 2 ^ 31 -> 8 * zlen s < 2 ^ 31 ->
  FromStr32 s from (from + w) = Some (spec_FromStr32 s from w).
Proof. exact FromStr32_spec. Qed.
Print Assumptions C11_FromStr32_checker.

(** PathOf(s, from, h) is the path word of length k and height h carrying those bits *)
Theorem C11_PathOf : forall s from h,
  bytes_ok s -> 0 <= from -> 0 <= h <= 32 -> from + h + 7 < 2 ^ 31 -> 8 * zlen s < 2 ^ 31 ->
  let k := clamp (8 * zlen s - from) 0 h in
  PathOf s from h = Some (enc (Z.to_nat h) (firstn (Z.to_nat k) (skipn (Z.to_nat from) (msb_bits s)))).
Proof. exact PathOf_naive. Qed.
Print Assumptions C11_PathOf.

(** ... so PathStr(PathOf(s, from, h)) is the bit string s[from, from+k) as '0'/'1', and its PathLen is k *)
Theorem C11_PathOf_str : forall s from h,
  bytes_ok s -> 0 <= from -> 0 <= h <= 32 -> from + h + 7 < 2 ^ 31 -> 8 * zlen s < 2 ^ 31 ->
  let k := clamp (8 * zlen s - from) 0 h in
  exists p, PathOf s from h = Some p /\
    PathStr p = node_str (firstn (Z.to_nat k) (skipn (Z.to_nat from) (msb_bits s))) /\
    PathLen p = k.
Proof. exact PathOf_str_naive. Qed.
Print Assumptions C11_PathOf_str.

(** PathsOf maps PathOf over its keys and, when dedup is requested, drops every
    path equal to its predecessor (any number of keys) *)
Theorem C11_PathsOf : forall keys from h dedup,
  Forall (fun s => bytes_ok s /\ 8 * zlen s < 2 ^ 31) keys ->
  0 <= from -> 0 <= h <= 32 -> from + h + 7 < 2 ^ 31 ->
  let path_of s := enc (Z.to_nat h)
      (firstn (Z.to_nat (clamp (8 * zlen s - from) 0 h)) (skipn (Z.to_nat from) (msb_bits s))) in
  PathsOf keys from h dedup = Some ((if dedup then dedup_adjacent else fun l => l) (map path_of keys)).
Proof. exact PathsOf_naive. Qed.
Print Assumptions C11_PathsOf.

(** the same between the model functions themselves: without dedup PathsOf is
    [map PathOf]; with dedup it is [dedup_adjacent] of that *)
Theorem C11_PathsOf_map : forall keys from h,
  Forall (fun s => bytes_ok s /\ 8 * zlen s < 2 ^ 31) keys ->
  0 <= from -> 0 <= h <= 32 -> from + h + 7 < 2 ^ 31 ->
  exists ps, PathsOf keys from h false = Some ps /\ map Some ps = map (fun s => PathOf s from h) keys /\
    PathsOf keys from h true = Some (dedup_adjacent ps).
Proof. exact PathsOf_map_PathOf. Qed.
Print Assumptions C11_PathsOf_map.

(** what [dedup_adjacent] means: it keeps l[i] iff i = 0 or l[i] <> l[i-1] ... *)
Theorem C11_dedup_keeps_changed : forall l, dedup_adjacent l = keep_changed None l.
Proof. exact dedup_adjacent_keep. Qed.
Print Assumptions C11_dedup_keeps_changed.

(** ... no two neighbours of the result are equal, and a list without equal neighbours is returned unchanged *)
Theorem C11_dedup_no_adjacent : forall l, no_adjacent_eq (dedup_adjacent l).
Proof. exact dedup_adjacent_no_adjacent. Qed.
Print Assumptions C11_dedup_no_adjacent.

Theorem C11_dedup_id : forall l, no_adjacent_eq l -> dedup_adjacent l = l.
Proof. exact dedup_adjacent_id. Qed.
Print Assumptions C11_dedup_id.

(** the checker functions of the correspondence run are the ones of the theorems *)
Theorem C11_PathOf_checker : forall s from h,
  bytes_ok s -> 0 <= from -> 0 <= h <= 32 -> from + h + 7 < 2 ^ 31 -> 8 * zlen s < 2 ^ 31 ->
  PathOf s from h = Some (spec_PathOf s from h).
Proof. exact PathOf_spec. Qed.
Print Assumptions C11_PathOf_checker.

Theorem C11_PathsOf_checker : forall keys from h dedup,
  Forall (fun s => bytes_ok s /\ 8 * zlen s < 2 ^ 31) keys -> 0 <= from -> 0 <= h <= 32 -> from + h + 7 < 2 ^ 31 ->
  PathsOf keys from h dedup = Some (spec_PathsOf keys from h dedup).
Proof. exact PathsOf_spec. Qed.
Print Assumptions C11_PathsOf_checker.

(** the PathsOf of before /repo c22b978 (sentinel [prev := ^uint64(0)]) does NOT
    satisfy the property: with dedup the leading all-ones path of
    ["\xff\xff\xff\xff"], 0, 32 is dropped (the result is empty instead of [2^64-1]).
    Replayed on the real code by corpus/C11.txt (must be OK on the repaired /repo). *)
Theorem C11_pathsof_dedup_refuted :
  exists keys from h dedup,
    Forall (fun s => bytes_ok s /\ 8 * zlen s < 2 ^ 31) keys /\ 0 <= from /\ 0 <= h <= 32 /\ from + h + 7 < 2 ^ 31 /\
    legacy_PathsOf keys from h dedup <> Some (spec_PathsOf keys from h dedup) /\
    legacy_PathsOf keys from h dedup = Some [] /\
    spec_PathsOf keys from h dedup = [2 ^ 64 - 1].
Proof. exact legacy_PathsOf_refuted. Qed.
Print Assumptions C11_pathsof_dedup_refuted.

(** non-vacuity.  FromStr32: "abc" = 0x61 0x62 0x63, window [4, 20) inside the string
    (3 bytes touched, unaligned); window [20, 36) cut by the end of the string (k = 4);
    a window that starts beyond the end. *)
Example C11_FromStr32_nonvacuous :
  bytes_ok [97; 98; 99] /\ 0 <= 4 /\ 0 <= 16 <= 32 /\ 4 + 16 + 7 < 2 ^ 31 /\ 8 * zlen [97; 98; 99] < 2 ^ 31 /\
  FromStr32 [97; 98; 99] 4 20 = Some (16, 0x1626) /\
  FromStr32 [97; 98; 99] 20 36 = Some (4, 0x3000) /\
  FromStr32 [97; 98; 99] 30 62 = Some (0, 0) /\
  FromStr32 [255; 255; 255; 255; 255] 7 39 = Some (32, 0xffffffff).
Proof.
  split; [repeat constructor; unfold byte_ok; lia|].
  repeat apply conj; try lia; vm_compute; reflexivity.
Qed.

Example C11_PathOf_nonvacuous :
  PathOf [97; 98; 99] 4 16 = Some 0x16260000ffff /\
  PathStr 0x16260000ffff = [48;48;48;49;48;49;49;48;48;48;49;48;48;49;49;48] /\
  PathOf [97; 98; 99] 20 16 = Some 0x30000000f000 /\
  PathStr 0x30000000f000 = [48; 48; 49; 49] /\ PathLen 0x30000000f000 = 4 /\
  clamp (8 * zlen [97; 98; 99] - 20) 0 16 = 4 /\
  firstn 4 (skipn 20 (msb_bits [97; 98; 99])) = [false; false; true; true].
Proof. repeat apply conj; vm_compute; reflexivity. Qed.

(** PathsOf: "ab","ac","b","ab" from bit 4, height 8: the two first keys give the same
    path (adjacent duplicate, dropped), the last one equals the first but is not adjacent (kept);
    and the repaired code keeps a leading all-ones path *)
Example C11_PathsOf_nonvacuous :
  Forall (fun s => bytes_ok s /\ 8 * zlen s < 2 ^ 31) [[97; 98]; [97; 99]; [98]; [97; 98]] /\
  PathsOf [[97; 98]; [97; 99]; [98]; [97; 98]] 4 8 false = Some [0x16000000ff; 0x16000000ff; 0x20000000f0; 0x16000000ff] /\
  PathsOf [[97; 98]; [97; 99]; [98]; [97; 98]] 4 8 true = Some [0x16000000ff; 0x20000000f0; 0x16000000ff] /\
  PathsOf [[255; 255; 255; 255]] 0 32 true = Some [2 ^ 64 - 1] /\
  no_adjacent_eq [1; 2; 1] /\ dedup_adjacent [1; 1; 2; 2; 1] = [1; 2; 1].
Proof.
  split; [repeat constructor; unfold byte_ok; lia|].
  repeat apply conj; try (vm_compute; reflexivity); intro; discriminate.
Qed.

(** * Widening: what users combine PathOf / PathsOf with (same package [bmtree])

    (1) the C10 accessors applied to PathOf's word read back FromStr32's results *)
Theorem C11_PathOf_fields : forall s from h,
  bytes_ok s -> 0 <= from -> 0 <= h <= 32 -> from + h + 7 < 2 ^ 31 -> 8 * zlen s < 2 ^ 31 ->
  exists p k v, PathOf s from h = Some p /\ FromStr32 s from (from + h) = Some (k, v) /\
    k = clamp (8 * zlen s - from) 0 h /\
    PathLen p = k /\ (1 <= k -> PathHeight p = h) /\ (k = 0 -> p = 0) /\
    PathBits p = v /\ PathMask p = Mask k * 2 ^ (h - k).
Proof. exact PathOf_fields. Qed.
Print Assumptions C11_PathOf_fields.

Theorem C11_PathOf_fields_checker : forall s from h,
  bytes_ok s -> 0 <= from -> 0 <= h <= 32 -> from + h + 7 < 2 ^ 31 -> 8 * zlen s < 2 ^ 31 ->
  exists p, PathOf s from h = Some p /\
    [PathLen p; PathHeight p; PathBits p; PathMask p] = spec_PathOf_fields s from h.
Proof. exact PathOf_fields_checker. Qed.
Print Assumptions C11_PathOf_fields_checker.

(** (2) PathOf is monotone from Go's string order ([bytes_cmp], proper prefix first) to the
    numeric order of path words, for keys that agree on the [from] bits before the window;
    two keys get the same path iff their windows (at most h bits) are the same bit string *)
Theorem C11_PathOf_monotone : forall s1 s2 from h,
  bytes_ok s1 -> 8 * zlen s1 < 2 ^ 31 -> bytes_ok s2 -> 8 * zlen s2 < 2 ^ 31 ->
  0 <= from -> 0 <= h <= 32 -> from + h + 7 < 2 ^ 31 ->
  firstn (Z.to_nat from) (msb_bits s1) = firstn (Z.to_nat from) (msb_bits s2) ->
  bytes_cmp s1 s2 <> Gt ->
  exists p1 p2, PathOf s1 from h = Some p1 /\ PathOf s2 from h = Some p2 /\ p1 <= p2 /\
    (p1 = p2 <-> firstn (Z.to_nat h) (skipn (Z.to_nat from) (msb_bits s1)) =
                 firstn (Z.to_nat h) (skipn (Z.to_nat from) (msb_bits s2))).
Proof. exact PathOf_monotone. Qed.
Print Assumptions C11_PathOf_monotone.

(** (3) hence on sorted keys (any number, duplicates allowed) sharing their first [from] bits,
    PathsOf with dedup returns the set of the keys' paths, strictly increasing: dropping what
    equals its predecessor removes every duplicate *)
Theorem C11_PathsOf_sorted : forall keys from h p,
  Forall (fun s => bytes_ok s /\ 8 * zlen s < 2 ^ 31) keys ->
  0 <= from -> 0 <= h <= 32 -> from + h + 7 < 2 ^ 31 ->
  Forall (fun s => firstn (Z.to_nat from) (msb_bits s) = p) keys ->
  Sorted (fun a b => bytes_cmp a b <> Gt) keys ->
  exists ps, PathsOf keys from h true = Some ps /\
    StronglySorted Z.lt ps /\
    forall x, In x ps <-> exists s, In s keys /\ PathOf s from h = Some x.
Proof. exact PathsOf_sorted. Qed.
Print Assumptions C11_PathsOf_sorted.

(** the relational checker of the op bmtree.PathsOf/sorted accepts the model's output on
    every in-domain input, and accepts nothing else *)
Theorem C11_PathsOf_sorted_checker : forall keys from h,
  Forall (fun s => bytes_ok s /\ 8 * zlen s < 2 ^ 31) keys ->
  0 <= from -> 0 <= h <= 32 -> from + h + 7 < 2 ^ 31 ->
  keys_sortedb keys = true -> same_prefixb from keys = true ->
  exists ps, PathsOf keys from h true = Some ps /\ sorted_paths_ok keys from h ps = true.
Proof. exact sorted_paths_ok_model. Qed.
Print Assumptions C11_PathsOf_sorted_checker.

Theorem C11_PathsOf_sorted_checker_unique : forall keys from h obs,
  Forall (fun s => bytes_ok s /\ 8 * zlen s < 2 ^ 31) keys ->
  0 <= from -> 0 <= h <= 32 -> from + h + 7 < 2 ^ 31 ->
  keys_sortedb keys = true -> same_prefixb from keys = true ->
  sorted_paths_ok keys from h obs = true -> PathsOf keys from h true = Some obs.
Proof. exact sorted_paths_ok_unique. Qed.
Print Assumptions C11_PathsOf_sorted_checker_unique.

(** (4) consecutive windows compose (descending the trie level by level): the value over
    [from, from+w1+w2) is the value over [from, from+w1) followed by the one over [from+w1, from+w1+w2),
    the counts add up, and once the first window is cut by the string end the second one is empty *)
Theorem C11_FromStr32_split : forall s from w1 w2,
  bytes_ok s -> 0 <= from -> 0 <= w1 -> 0 <= w2 -> w1 + w2 <= 32 ->
  from + w1 + w2 + 7 < 2 ^ 31 -> 8 * zlen s < 2 ^ 31 ->
  exists k1 v1 k2 v2 k v,
    FromStr32 s from (from + w1) = Some (k1, v1) /\
    FromStr32 s (from + w1) (from + w1 + w2) = Some (k2, v2) /\
    FromStr32 s from (from + (w1 + w2)) = Some (k, v) /\
    k = k1 + k2 /\ v = v1 * 2 ^ w2 + v2 /\ (k1 < w1 -> k2 = 0).
Proof. exact FromStr32_split. Qed.
Print Assumptions C11_FromStr32_split.

Theorem C11_FromStr32_split_checker : forall s from w1 w2,
  bytes_ok s -> 0 <= from -> 0 <= w1 -> 0 <= w2 -> w1 + w2 <= 32 ->
  from + w1 + w2 + 7 < 2 ^ 31 -> 8 * zlen s < 2 ^ 31 ->
  split_ok w1 w2 (spec_FromStr32 s from w1) (spec_FromStr32 s (from + w1) w2)
                 (spec_FromStr32 s from (w1 + w2)) = true.
Proof. exact FromStr32_split_checker. Qed.
Print Assumptions C11_FromStr32_split_checker.

Example C11_split_nonvacuous :
  FromStr32 [97; 98; 99] 4 13 = Some (9, 0x2c) /\ FromStr32 [97; 98; 99] 13 36 = Some (11, 0x263000) /\
  FromStr32 [97; 98; 99] 4 36 = Some (20, 0x16263000) /\ 0x16263000 = 0x2c * 2 ^ 23 + 0x263000 /\
  split_ok 9 23 (9, 0x2c) (11, 0x263000) (20, 0x16263000) = true.
Proof. repeat apply conj; vm_compute; reflexivity. Qed.

(** (5) the clip of the byte limit at ceil(tobit/8) inside FromStr32 is an optimisation only:
    without it (Model/FromStr32Variants.v) the result is the same on the whole domain *)
Theorem C11_clip_redundant : forall s from w,
  bytes_ok s -> 0 <= from -> 0 <= w <= 32 -> from + w + 7 < 2 ^ 31 -> 8 * zlen s < 2 ^ 31 ->
  FromStr32_noclip s from (from + w) = FromStr32 s from (from + w).
Proof. exact FromStr32_noclip_same. Qed.
Print Assumptions C11_clip_redundant.

(** non-vacuity: "a`" < "a\x00\xff"... : four sorted keys sharing their first 12 bits (0x61, 0x6_),
    window of 4 bits from bit 12: paths for nibbles 0, 1, 1, 2 -> three distinct, increasing *)
Example C11_sorted_nonvacuous :
  let keys := [[97; 96]; [97; 97; 0; 255]; [97; 97; 255]; [97; 98]] in
  keys_sortedb keys = true /\ same_prefixb 12 keys = true /\
  Sorted (fun a b => bytes_cmp a b <> Gt) keys /\
  Forall (fun s => firstn 12 (msb_bits s) = firstn 12 (msb_bits [97; 96])) keys /\
  PathsOf keys 12 4 true = Some [0x0000000f; 0x10000000f; 0x20000000f] /\
  PathsOf keys 12 4 false = Some [0x0000000f; 0x10000000f; 0x10000000f; 0x20000000f] /\
  bytes_cmp [97; 97; 0; 255] [97; 97; 255] = Lt /\
  spec_PathOf_fields [97; 98; 99] 20 16 = [4; 16; 0x3000; 0xf000].
Proof.
  cbv zeta. repeat apply conj; try (vm_compute; reflexivity).
  - repeat constructor; vm_compute; discriminate.
  - repeat constructor.
Qed.

(** * The far end of int32: start bits within 40 of MaxInt32

    There [from + w] - PathOf's own [frombit+height] - wraps negative ([i32] below is
    Go's int32 wrap, written explicitly in the model of PathOf).  The code only uses
    differences of tobit and frombit and tests the string end first, so the side
    condition [from + w + 7 < 2^31] of the theorems above is not needed for a start at
    or beyond the end of the string (every start > MaxInt32-40 is one, for every
    string of less than 2^28-5 bytes): *)

(** a start at/beyond the end gives (0, 0), whatever tobit is (also tobit < frombit) *)
Theorem C11_FromStr32_beyond : forall s from to,
  0 <= from < 2 ^ 31 -> 8 * zlen s < 2 ^ 31 -> 8 * zlen s <= from ->
  FromStr32 s from to = Some (0, 0).
Proof. exact FromStr32_beyond. Qed.
Print Assumptions C11_FromStr32_beyond.

(** ... and PathOf gives the empty path: the word 0, of length 0, rendered "" *)
Theorem C11_PathOf_beyond : forall s from h,
  0 <= from < 2 ^ 31 -> 0 <= h <= 32 -> 8 * zlen s < 2 ^ 31 -> 8 * zlen s <= from ->
  exists p, PathOf s from h = Some p /\ p = 0 /\ PathLen p = 0 /\ PathStr p = [].
Proof. exact PathOf_beyond_empty. Qed.
Print Assumptions C11_PathOf_beyond.

(** the property over the whole int32 range of the start bit, with tobit = int32(from + w)
    as PathOf computes it: either nothing overflows or the start is beyond the string.
    (These are the domain and the checker functions of the correspondence run.) *)
Theorem C11_FromStr32_wrap : forall s from w,
  bytes_ok s -> 0 <= from < 2 ^ 31 -> 0 <= w <= 32 -> 8 * zlen s < 2 ^ 31 ->
  (from + w + 7 < 2 ^ 31 \/ 8 * zlen s <= from) ->
  FromStr32 s from (i32 (from + w)) = Some (spec_FromStr32 s from w).
Proof. exact FromStr32_spec_wrap. Qed.
Print Assumptions C11_FromStr32_wrap.

Theorem C11_PathOf_wrap : forall s from h,
  bytes_ok s -> 0 <= from < 2 ^ 31 -> 0 <= h <= 32 -> 8 * zlen s < 2 ^ 31 ->
  (from + h + 7 < 2 ^ 31 \/ 8 * zlen s <= from) ->
  PathOf s from h = Some (spec_PathOf s from h).
Proof. exact PathOf_spec_wrap. Qed.
Print Assumptions C11_PathOf_wrap.

Theorem C11_PathsOf_wrap : forall keys from h dedup,
  0 <= from < 2 ^ 31 -> 0 <= h <= 32 ->
  Forall (fun s => bytes_ok s /\ 8 * zlen s < 2 ^ 31 /\ (from + h + 7 < 2 ^ 31 \/ 8 * zlen s <= from)) keys ->
  PathsOf keys from h dedup = Some (spec_PathsOf keys from h dedup).
Proof. exact PathsOf_spec_wrap. Qed.
Print Assumptions C11_PathsOf_wrap.

(** locality: FromStr32 depends only on the bytes under the window and on where the string ends -
    whole leading bytes can be dropped (shifting the window) and trailing bytes behind a window that
    lies inside the string can be dropped; no bound on the length of [pre] or [post].  (The op
    bitmap.FromStr32/big judges calls on 32..40 MB strings through this theorem.) *)
Theorem C11_FromStr32_local : forall pre t post f w,
  bytes_ok (pre ++ t ++ post) -> 0 <= f -> 0 <= w <= 32 ->
  8 * zlen pre + f + w + 7 < 2 ^ 31 -> 8 * zlen (pre ++ t ++ post) < 2 ^ 31 ->
  (post = [] \/ f + w <= 8 * zlen t) ->
  FromStr32 (pre ++ t ++ post) (8 * zlen pre + f) (8 * zlen pre + f + w) = FromStr32 t f (f + w).
Proof. exact FromStr32_local. Qed.
Print Assumptions C11_FromStr32_local.

Example C11_local_nonvacuous :
  FromStr32 ([1; 2; 3] ++ [97; 98; 99] ++ [4; 5]) (8 * 3 + 4) (8 * 3 + 4 + 16) = Some (16, 0x1626) /\
  FromStr32 [97; 98; 99] 4 (4 + 16) = Some (16, 0x1626) /\ 4 + 16 <= 8 * zlen [97; 98; 99].
Proof. repeat apply conj; vm_compute; try reflexivity; discriminate. Qed.

(** non-vacuity: from = MaxInt32 and MaxInt32-8 with w = 32 (the sum wraps to a negative tobit);
    and a key list longer than 1024 keys (PathsOf is about any number of keys) *)
Example C11_far_nonvacuous :
  i32 (2 ^ 31 - 1 + 32) = - 2 ^ 31 + 31 /\
  FromStr32 [255; 165] (2 ^ 31 - 1) (i32 (2 ^ 31 - 1 + 32)) = Some (0, 0) /\
  spec_FromStr32 [255; 165] (2 ^ 31 - 1) 32 = (0, 0) /\
  PathOf [97] (2 ^ 31 - 8) 32 = Some 0 /\
  PathsOf (repeat [97] 1026) 0 8 true = Some [0x61000000ff] /\
  length (repeat [97] 1026) = 1026%nat.
Proof. repeat apply conj; vm_compute; reflexivity. Qed.
