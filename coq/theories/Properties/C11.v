(** C11 — FromStr32 / PathOf / PathsOf extract exactly the requested bits of a string.
    Only the property theorems (each closed by [exact]), their axiom audit and
    non-vacuity examples.

    Vocabulary: a string is a [list Z] of bytes; [msb_bits s] is its bit string,
    most significant bit of each byte first (Lib/Bytes.v); [val_msb] reads a bit
    list as a binary numeral, first element most significant; [enc h q] is the
    path word of node [q] in a tree of height [h] (Spec/Bmtree.v, the object of
    C10); [clamp x lo hi = max lo (min x hi)].

    Hypotheses = the domain of the property plus Go's own integer ranges:
    [from >= 0], [0 <= w <= 32], and [from + w + 7 < 2^31], [8*|s| < 2^31] (the
    int32 bit positions [tobit + 7] and [len(s) << 3] do not overflow).  No bound
    on the length of the string or of the key list otherwise. *)
From Coq Require Import ZArith List Bool Lia.
From Low Require Import Lib.Bits Lib.BitSeq Lib.Bytes Spec.Bmtree Spec.PathSpec Spec.FromStr32Spec
  Model.BmtreePath Model.BmtreePathStr Model.FromStr32 Model.LegacyPathsOf Proofs.FromStr32Proofs.
Import ListNotations.
Open Scope Z_scope.

(** FromStr32(s, from, from+w) returns k = clamp(8|s| - from, 0, w) and the w-bit
    value whose top k bits are bits [from, from+k) of s and whose other bits are 0 *)
Theorem C11_FromStr32 : forall s from w,
  bytes_ok s -> 0 <= from -> 0 <= w <= 32 -> from + w + 7 < 2 ^ 31 -> 8 * zlen s < 2 ^ 31 ->
  let k := clamp (8 * zlen s - from) 0 w in
  FromStr32 s from (from + w) =
  Some (k, val_msb (firstn (Z.to_nat k) (skipn (Z.to_nat from) (msb_bits s)) ++ repeat false (Z.to_nat (w - k)))).
Proof. exact FromStr32_naive. Qed.
Print Assumptions C11_FromStr32.

(** the same statement bit by bit: the value is below 2^w; its m-th bit from the
    top (of w) is bit from+m of the string for m < k, and 0 for k <= m < w *)
Theorem C11_FromStr32_bits : forall s from w,
  bytes_ok s -> 0 <= from -> 0 <= w <= 32 -> from + w + 7 < 2 ^ 31 -> 8 * zlen s < 2 ^ 31 ->
  exists v, FromStr32 s from (from + w) = Some (clamp (8 * zlen s - from) 0 w, v) /\
    0 <= v < 2 ^ w /\
    forall m, 0 <= m < w ->
      Z.testbit v (w - 1 - m) =
      if m <? clamp (8 * zlen s - from) 0 w then nth (Z.to_nat (from + m)) (msb_bits s) false else false.
Proof. exact FromStr32_bits. Qed.
Print Assumptions C11_FromStr32_bits.

(** the function the correspondence run uses as checker is the one of the theorem *)
Theorem C11_FromStr32_checker : forall s from w,
  bytes_ok s -> 0 <= from -> 0 <= w <= 32 -> from + w + 7 < 2 ^ 31 -> 8 * zlen s < 2 ^ 31 ->
  FromStr32 s from (from + w) = Some (spec_FromStr32 s from w).
Proof. exact FromStr32_spec. Qed.
Print Assumptions C11_FromStr32_checker.

(** PathOf(s, from, h) is the path word of length k and height h carrying those bits *)
Theorem C11_PathOf : forall s from h,
  bytes_ok s -> 0 <= from -> 0 <= h <= 32 -> from + h + 7 < 2 ^ 31 -> 8 * zlen s < 2 ^ 31 ->
  let k := clamp (8 * zlen s - from) 0 h in
  PathOf s from h = Some (enc (Z.to_nat h) (firstn (Z.to_nat k) (skipn (Z.to_nat from) (msb_bits s)))).
Proof. exact PathOf_naive. Qed.
Print Assumptions C11_PathOf.

(** ... so PathStr(PathOf(s, from, h)) is the bit string s[from, from+k) as '0'/'1', and its PathLen is k *)
Theorem C11_PathOf_str : forall s from h,
  bytes_ok s -> 0 <= from -> 0 <= h <= 32 -> from + h + 7 < 2 ^ 31 -> 8 * zlen s < 2 ^ 31 ->
  let k := clamp (8 * zlen s - from) 0 h in
  exists p, PathOf s from h = Some p /\
    PathStr p = node_str (firstn (Z.to_nat k) (skipn (Z.to_nat from) (msb_bits s))) /\
    PathLen p = k.
Proof. exact PathOf_str_naive. Qed.
Print Assumptions C11_PathOf_str.

(** PathsOf maps PathOf over its keys and, when dedup is requested, drops every
    path equal to its predecessor (any number of keys) *)
Theorem C11_PathsOf : forall keys from h dedup,
  Forall (fun s => bytes_ok s /\ 8 * zlen s < 2 ^ 31) keys ->
  0 <= from -> 0 <= h <= 32 -> from + h + 7 < 2 ^ 31 ->
  let path_of s := enc (Z.to_nat h)
      (firstn (Z.to_nat (clamp (8 * zlen s - from) 0 h)) (skipn (Z.to_nat from) (msb_bits s))) in
  PathsOf keys from h dedup = Some ((if dedup then dedup_adjacent else fun l => l) (map path_of keys)).
Proof. exact PathsOf_naive. Qed.
Print Assumptions C11_PathsOf.

(** the same between the model functions themselves: without dedup PathsOf is
    [map PathOf]; with dedup it is [dedup_adjacent] of that *)
Theorem C11_PathsOf_map : forall keys from h,
  Forall (fun s => bytes_ok s /\ 8 * zlen s < 2 ^ 31) keys ->
  0 <= from -> 0 <= h <= 32 -> from + h + 7 < 2 ^ 31 ->
  exists ps, PathsOf keys from h false = Some ps /\ map Some ps = map (fun s => PathOf s from h) keys /\
    PathsOf keys from h true = Some (dedup_adjacent ps).
Proof. exact PathsOf_map_PathOf. Qed.
Print Assumptions C11_PathsOf_map.

(** what [dedup_adjacent] means: it keeps l[i] iff i = 0 or l[i] <> l[i-1] ... *)
Theorem C11_dedup_keeps_changed : forall l, dedup_adjacent l = keep_changed None l.
Proof. exact dedup_adjacent_keep. Qed.
Print Assumptions C11_dedup_keeps_changed.

(** ... no two neighbours of the result are equal, and a list without equal neighbours is returned unchanged *)
Theorem C11_dedup_no_adjacent : forall l, no_adjacent_eq (dedup_adjacent l).
Proof. exact dedup_adjacent_no_adjacent. Qed.
Print Assumptions C11_dedup_no_adjacent.

Theorem C11_dedup_id : forall l, no_adjacent_eq l -> dedup_adjacent l = l.
Proof. exact dedup_adjacent_id. Qed.
Print Assumptions C11_dedup_id.

(** the checker functions of the correspondence run are the ones of the theorems *)
Theorem C11_PathOf_checker : forall s from h,
  bytes_ok s -> 0 <= from -> 0 <= h <= 32 -> from + h + 7 < 2 ^ 31 -> 8 * zlen s < 2 ^ 31 ->
  PathOf s from h = Some (spec_PathOf s from h).
Proof. exact PathOf_spec. Qed.
Print Assumptions C11_PathOf_checker.

Theorem C11_PathsOf_checker : forall keys from h dedup,
  Forall (fun s => bytes_ok s /\ 8 * zlen s < 2 ^ 31) keys -> 0 <= from -> 0 <= h <= 32 -> from + h + 7 < 2 ^ 31 ->
  PathsOf keys from h dedup = Some (spec_PathsOf keys from h dedup).
Proof. exact PathsOf_spec. Qed.
Print Assumptions C11_PathsOf_checker.

(** the PathsOf of before /repo c22b978 (sentinel [prev := ^uint64(0)]) does NOT
    satisfy the property: with dedup the leading all-ones path of
    ["\xff\xff\xff\xff"], 0, 32 is dropped (the result is empty instead of [2^64-1]).
    Replayed on the real code by corpus/C11.txt (must be OK on the repaired /repo). *)
Theorem C11_pathsof_dedup_refuted :
  exists keys from h dedup,
    Forall (fun s => bytes_ok s /\ 8 * zlen s < 2 ^ 31) keys /\ 0 <= from /\ 0 <= h <= 32 /\ from + h + 7 < 2 ^ 31 /\
    legacy_PathsOf keys from h dedup <> Some (spec_PathsOf keys from h dedup) /\
    legacy_PathsOf keys from h dedup = Some [] /\
    spec_PathsOf keys from h dedup = [2 ^ 64 - 1].
Proof. exact legacy_PathsOf_refuted. Qed.
Print Assumptions C11_pathsof_dedup_refuted.

(** non-vacuity.  FromStr32: "abc" = 0x61 0x62 0x63, window [4, 20) inside the string
    (3 bytes touched, unaligned); window [20, 36) cut by the end of the string (k = 4);
    a window that starts beyond the end. *)
Example C11_FromStr32_nonvacuous :
  bytes_ok [97; 98; 99] /\ 0 <= 4 /\ 0 <= 16 <= 32 /\ 4 + 16 + 7 < 2 ^ 31 /\ 8 * zlen [97; 98; 99] < 2 ^ 31 /\
  FromStr32 [97; 98; 99] 4 20 = Some (16, 0x1626) /\
  FromStr32 [97; 98; 99] 20 36 = Some (4, 0x3000) /\
  FromStr32 [97; 98; 99] 30 62 = Some (0, 0) /\
  FromStr32 [255; 255; 255; 255; 255] 7 39 = Some (32, 0xffffffff).
Proof.
  split; [repeat constructor; unfold byte_ok; lia|].
  repeat apply conj; try lia; vm_compute; reflexivity.
Qed.

Example C11_PathOf_nonvacuous :
  PathOf [97; 98; 99] 4 16 = Some 0x16260000ffff /\
  PathStr 0x16260000ffff = [48;48;48;49;48;49;49;48;48;48;49;48;48;49;49;48] /\
  PathOf [97; 98; 99] 20 16 = Some 0x30000000f000 /\
  PathStr 0x30000000f000 = [48; 48; 49; 49] /\ PathLen 0x30000000f000 = 4 /\
  clamp (8 * zlen [97; 98; 99] - 20) 0 16 = 4 /\
  firstn 4 (skipn 20 (msb_bits [97; 98; 99])) = [false; false; true; true].
Proof. repeat apply conj; vm_compute; reflexivity. Qed.

(** PathsOf: "ab","ac","b","ab" from bit 4, height 8: the two first keys give the same
    path (adjacent duplicate, dropped), the last one equals the first but is not adjacent (kept);
    and the repaired code keeps a leading all-ones path *)
Example C11_PathsOf_nonvacuous :
  Forall (fun s => bytes_ok s /\ 8 * zlen s < 2 ^ 31) [[97; 98]; [97; 99]; [98]; [97; 98]] /\
  PathsOf [[97; 98]; [97; 99]; [98]; [97; 98]] 4 8 false = Some [0x16000000ff; 0x16000000ff; 0x20000000f0; 0x16000000ff] /\
  PathsOf [[97; 98]; [97; 99]; [98]; [97; 98]] 4 8 true = Some [0x16000000ff; 0x20000000f0; 0x16000000ff] /\
  PathsOf [[255; 255; 255; 255]] 0 32 true = Some [2 ^ 64 - 1] /\
  no_adjacent_eq [1; 2; 1] /\ dedup_adjacent [1; 1; 2; 2; 1] = [1; 2; 1].
Proof.
  split; [repeat constructor; unfold byte_ok; lia|].
  repeat apply conj; try (vm_compute; reflexivity); intro; discriminate.
Qed.
