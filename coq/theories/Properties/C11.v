(** C11 — FromStr32 / PathOf / PathsOf extract exactly the requested bits of a string.
    (first step: the refutation of the pre-fix PathsOf; the full theorems follow) *)
From Coq Require Import ZArith List Bool Lia.
From Low Require Import Lib.Bits Lib.BitSeq Lib.Bytes Spec.Bmtree Spec.FromStr32Spec
  Model.BmtreePath Model.BmtreePathStr Model.FromStr32 Model.LegacyPathsOf.
Import ListNotations.
Open Scope Z_scope.

(** the PathsOf of before /repo c22b978 (sentinel [^uint64(0)]) does NOT satisfy the
    property: with dedup a leading all-ones path is dropped *)
Theorem C11_pathsof_dedup_refuted :
  exists keys from h dedup,
    Forall bytes_ok keys /\ 0 <= from /\ 0 <= h <= 32 /\
    legacy_PathsOf keys from h dedup <> Some (spec_PathsOf keys from h dedup).
Proof.
  exists [[255; 255; 255; 255]], 0, 32, true.
  split; [repeat constructor; unfold byte_ok; lia|].
  split; [lia|]. split; [lia|]. vm_compute. discriminate.
Qed.
Print Assumptions C11_pathsof_dedup_refuted.
