(** C01 — Rank is exact: Rank64/Rank128 count the 1-bits before any position.
    This file contains only the property theorems (each closed by [exact]),
    their axiom audit, and non-vacuity examples. *)
From Coq Require Import ZArith List Bool.
From Low Require Import Lib.MachInt Lib.Bits Lib.BitSeq Model.Rank Spec.RankSpec Proofs.RankProofs.
From Low Require Import Model.Rank32 Model.RankOps Model.BitmapOf Spec.RankLawsSpec Spec.OfQuerySpec
  Proofs.Rank32Proofs Proofs.RankLaws Proofs.RankIndexLaws Proofs.RankConcat Proofs.RankHistory Proofs.RankCompose Proofs.RankComplement Proofs.RankConcat128 Proofs.RankContract.
From Low Require Import Model.BitmapMask12 Model.RankTab Proofs.RankTabProofs.
From Low Require Import Spec.RankSessionSpec Model.RankSession Proofs.RankSession.
Import ListNotations.
Open Scope Z_scope.

(** IndexRank64: one entry per word, entry k = number of 1-bits before 64k,
    plus the grand total when [trailing]. *)
Theorem C01_IndexRank64 : forall ws tr,
  words_ok ws -> IndexRank64 ws tr = spec_IndexRank64 ws tr.
Proof. exact IndexRank64_exact. Qed.
Print Assumptions C01_IndexRank64.

(** IndexRank128: len/2+1 entries, entry k = number of 1-bits before 128k. *)
Theorem C01_IndexRank128 : forall ws,
  words_ok ws -> IndexRank128 ws = spec_IndexRank128 ws.
Proof. exact IndexRank128_exact. Qed.
Print Assumptions C01_IndexRank128.

(** Rank64 with either flavour of the index = (bit-by-bit count, bit i). *)
Theorem C01_Rank64 : forall ws tr i,
  words_ok ws -> 0 <= i < 64 * zlen ws ->
  Rank64 ws (IndexRank64 ws tr) i = Some (spec_Rank ws i).
Proof. exact Rank64_exact. Qed.
Print Assumptions C01_Rank64.

Theorem C01_Rank128 : forall ws i,
  words_ok ws -> 0 <= i < 64 * zlen ws ->
  Rank128 ws (IndexRank128 ws) i = Some (spec_Rank ws i).
Proof. exact Rank128_exact. Qed.
Print Assumptions C01_Rank128.

(** non-vacuity: a three-word bitmap, a position in the right half of a
    128-bit block, with 1-bits on both sides of it *)
Example C01_nonvacuous :
  words_ok [5; 2^64 - 1; 6] /\ 0 <= 130 < 64 * zlen [5; 2^64 - 1; 6] /\
  Rank128 [5; 2^64 - 1; 6] (IndexRank128 [5; 2^64 - 1; 6]) 130 = Some (67, 1) /\
  Rank64 [5; 2^64 - 1; 6] (IndexRank64 [5; 2^64 - 1; 6] true) 130 = Some (67, 1).
Proof.
  split; [apply words_okb_ok; reflexivity|].
  vm_compute. intuition congruence.
Qed.

(** * Widening (a): the int32-faithful model (Model/Rank32.v: every Go int32 operation wraps) *)

(** for bitmaps of ANY length the int32 indexes are the wrapped unbounded ones *)
Theorem C01_int32_IndexRank64 : forall ws tr, IndexRank64_32 ws tr = map i32 (IndexRank64 ws tr).
Proof. exact IndexRank64_32_wrap. Qed.
Print Assumptions C01_int32_IndexRank64.

Theorem C01_int32_IndexRank128 : forall ws, IndexRank128_32 ws = map i32 (IndexRank128 ws).
Proof. exact IndexRank128_32_wrap. Qed.
Print Assumptions C01_int32_IndexRank128.

(** under the size assumption of every statement nothing wraps *)
Theorem C01_int32_IndexRank64_agree : forall ws tr, words_ok ws -> 64 * zlen ws < 2^31 ->
  IndexRank64_32 ws tr = IndexRank64 ws tr.
Proof. exact IndexRank64_32_agree. Qed.
Print Assumptions C01_int32_IndexRank64_agree.

Theorem C01_int32_IndexRank128_agree : forall ws, words_ok ws -> 64 * zlen ws < 2^31 ->
  IndexRank128_32 ws = IndexRank128 ws.
Proof. exact IndexRank128_32_agree. Qed.
Print Assumptions C01_int32_IndexRank128_agree.

(** Rank64 over int32: exact on EVERY int32 position inside a bitmap of ANY length (no size hypothesis: the count
    before [i] is at most [i]), a panic on every other int32 position *)
Theorem C01_int32_Rank64 : forall ws tr i, words_ok ws -> - 2^31 <= i < 2^31 ->
  Rank64_32 ws (IndexRank64_32 ws tr) i = if pos_in ws i then Some (spec_Rank ws i) else None.
Proof. exact Rank64_32_exact. Qed.
Print Assumptions C01_int32_Rank64.

(** Rank128 over int32: exact for [0 <= i < min (64 len) (2^31 - 64)], a panic on every other int32 position *)
Theorem C01_int32_Rank128 : forall ws i, words_ok ws -> - 2^31 <= i < 2^31 ->
  Rank128_32 ws (IndexRank128_32 ws) i =
  if pos_in ws i && (i <? 2^31 - 64) then Some (spec_Rank ws i) else None.
Proof. exact Rank128_32_exact. Qed.
Print Assumptions C01_int32_Rank128.

(** the boundary of the size assumption: on the last 64 int32 positions [i + 64] wraps and Rank128 panics, whatever
    the bitmap and the index - while Rank64 still answers there (C01_int32_Rank64) when the bitmap has 2^25 words *)
Theorem C01_int32_Rank128_boundary : forall ws ridx i, 2^31 - 64 <= i < 2^31 -> Rank128_32 ws ridx i = None.
Proof. exact Rank128_32_boundary. Qed.
Print Assumptions C01_int32_Rank128_boundary.

(** inside the assumption the two models cannot be told apart *)
Theorem C01_int32_agree : forall ws tr i, words_ok ws -> 64 * zlen ws < 2^31 -> 0 <= i < 64 * zlen ws ->
  Rank64_32 ws (IndexRank64_32 ws tr) i = Rank64 ws (IndexRank64 ws tr) i /\
  Rank128_32 ws (IndexRank128_32 ws) i = Rank128 ws (IndexRank128 ws) i.
Proof. exact Rank32_agree. Qed.
Print Assumptions C01_int32_agree.

(** the trailing entry is the WRAPPED total (-2^31 for 2^25 all-ones words) *)
Theorem C01_int32_trailing : forall ws, words_ok ws ->
  nthZ (IndexRank64_32 ws true) (zlen ws) = Some (i32 (total1 ws)).
Proof. exact IndexRank64_32_trailing. Qed.
Print Assumptions C01_int32_trailing.

(** the run-time op bitmap.Rank/any (any int32 position, any flavour) *)
Theorem C01_int32_query : forall f ws i, words_ok ws -> - 2^31 <= i < 2^31 ->
  query32 f ws i = spec_query32 (is128 f) ws i.
Proof. exact query32_total. Qed.
Print Assumptions C01_int32_query.

Example C01_int32_nonvacuous :
  Rank128_32 [5; 2^64 - 1; 6] (IndexRank128_32 [5; 2^64 - 1; 6]) 130 = Some (67, 1) /\
  Rank64_32 [5; 2^64 - 1; 6] (IndexRank64_32 [5; 2^64 - 1; 6] true) 191 = Some (68, 0) /\
  Rank64_32 [5] (IndexRank64_32 [5] true) 64 = None /\ Rank128_32 [5] (IndexRank128_32 [5]) (-1) = None /\
  Rank128_32 [5] [0] (2^31 - 1) = None /\ 2^31 - 64 <= 2^31 - 1 < 2^31.
Proof. vm_compute. intuition congruence. Qed.

(** * Widening (b): the laws of rank.  [query f ws i] = build the index of flavour [f], ask it for [i] *)

(** one total characterisation, on EVERY integer: (count, bit) inside the bitmap, a panic outside *)
Theorem C01_query_total : forall f ws i, words_ok ws -> query f ws i = RankLawsSpec.spec_query ws i.
Proof. exact query_total. Qed.
Print Assumptions C01_query_total.

(** Rank64 (either index) and Rank128 agree on every position *)
Theorem C01_flavours_agree : forall f f' ws i, words_ok ws -> query f ws i = query f' ws i.
Proof. exact law_agree. Qed.
Print Assumptions C01_flavours_agree.

(** rank(i+1) = rank(i) + bit(i) *)
Theorem C01_rank_step : forall f f' ws i r b r' b', words_ok ws ->
  query f ws i = Some (r, b) -> query f' ws (i + 1) = Some (r', b') -> r' = r + b.
Proof. exact law_step. Qed.
Print Assumptions C01_rank_step.

(** monotone; grows by at most the distance; by at least the bit at the lower position *)
Theorem C01_rank_monotone : forall f f' ws i j ri bi rj bj, words_ok ws -> i <= j ->
  query f ws i = Some (ri, bi) -> query f' ws j = Some (rj, bj) ->
  ri <= rj <= ri + (j - i) /\ (i < j -> ri + bi <= rj).
Proof. exact law_mono. Qed.
Print Assumptions C01_rank_monotone.

Theorem C01_rank_bounds : forall f ws i r b, words_ok ws -> query f ws i = Some (r, b) ->
  0 <= r <= i /\ (b = 0 \/ b = 1) /\ r + b <= total1 ws /\ total1 ws - (r + b) <= 64 * zlen ws - (i + 1).
Proof. exact law_bounds. Qed.
Print Assumptions C01_rank_bounds.

(** the trailing entry of IndexRank64(words, true) is the total bit count ... *)
Theorem C01_trailing_total : forall ws, words_ok ws -> trailing_total ws = Some (total1 ws).
Proof. exact trailing_total_exact. Qed.
Print Assumptions C01_trailing_total.

(** ... and it is count + bit at the last position *)
Theorem C01_rank_end : forall f ws r b, words_ok ws -> query f ws (64 * zlen ws - 1) = Some (r, b) ->
  r + b = total1 ws /\ trailing_total ws = Some (r + b).
Proof. exact law_end. Qed.
Print Assumptions C01_rank_end.

(** the index entries are the answers at the word boundaries *)
Theorem C01_index_checkpoints : forall f tr ws k, words_ok ws -> 0 <= k < zlen ws ->
  exists b, query f ws (64 * k) = Some (nth (Z.to_nat k) (IndexRank64 ws tr) 0, b).
Proof. exact law_checkpoint. Qed.
Print Assumptions C01_index_checkpoints.

(** the law checker of the run-time op bitmap.Rank/laws accepts what the model returns *)
Theorem C01_law_check_sound : forall ws i j, words_ok ws -> 0 <= i <= j -> j < 64 * zlen ws ->
  exists pi pj tot,
    map (fun f => query f ws i) flavours = [Some pi; Some pi; Some pi] /\
    map (fun f => query f ws j) flavours = [Some pj; Some pj; Some pj] /\
    trailing_total ws = Some tot /\
    law_check (64 * zlen ws) i j [pi; pi; pi] [pj; pj; pj] tot = true.
Proof. exact law_check_sound. Qed.
Print Assumptions C01_law_check_sound.

(** the contract of the query functions on their own, whatever built the index: they read ONE entry and ONE word
    (locality), and are exact as soon as that entry is the count before the checkpoint it stands for *)
Theorem C01_Rank64_local : forall ws ws' ridx ridx' i,
  nthZ ridx (Z.shiftr i 6) = nthZ ridx' (Z.shiftr i 6) -> nthZ ws (Z.shiftr i 6) = nthZ ws' (Z.shiftr i 6) ->
  Rank64 ws ridx i = Rank64 ws' ridx' i.
Proof. exact Rank64_local. Qed.
Print Assumptions C01_Rank64_local.

Theorem C01_Rank128_local : forall ws ws' ridx ridx' i,
  nthZ ridx (Z.shiftr (i + 64) 7) = nthZ ridx' (Z.shiftr (i + 64) 7) ->
  nthZ ws (Z.shiftr i 6) = nthZ ws' (Z.shiftr i 6) ->
  Rank128 ws ridx i = Rank128 ws' ridx' i.
Proof. exact Rank128_local. Qed.
Print Assumptions C01_Rank128_local.

Theorem C01_Rank64_contract : forall ws ridx i, words_ok ws -> 0 <= i < 64 * zlen ws ->
  nthZ ridx (i / 64) = Some (rank1z (flat ws) (64 * (i / 64))) ->
  Rank64 ws ridx i = Some (spec_Rank ws i).
Proof. exact Rank64_contract. Qed.
Print Assumptions C01_Rank64_contract.

Theorem C01_Rank128_contract : forall ws ridx i, words_ok ws -> 0 <= i < 64 * zlen ws ->
  nthZ ridx ((i + 64) / 128) = Some (rank1z (flat ws) (128 * ((i + 64) / 128))) ->
  Rank128 ws ridx i = Some (spec_Rank ws i).
Proof. exact Rank128_contract. Qed.
Print Assumptions C01_Rank128_contract.

(** the queries as the code has them - reading [Mask[j]] from the TABLE that initMasks of bitmap/mask.go fills - are the
    queries of Model/Rank.v (closed form [2^j - 1]); so every theorem above holds for the table-reading code *)
Theorem C01_Rank64_reads_Mask_table : forall ws ridx i, Rank64_tab ws ridx i = Rank64 ws ridx i.
Proof. exact Rank64_tab_eq. Qed.
Print Assumptions C01_Rank64_reads_Mask_table.

Theorem C01_Rank128_reads_Mask_table : forall ws ridx i, Rank128_tab ws ridx i = Rank128 ws ridx i.
Proof. exact Rank128_tab_eq. Qed.
Print Assumptions C01_Rank128_reads_Mask_table.

(** the three indexes side by side are the running sums of the per-word bit counts (op bitmap.IndexRank/all, /rle) *)
Theorem C01_indexes_running_sums : forall ws, words_ok ws ->
  (IndexRank64 ws false, IndexRank64 ws true, IndexRank128 ws) = spec_indexes ws.
Proof. exact index_all_exact. Qed.
Print Assumptions C01_indexes_running_sums.

(** the running sums are the bit-by-bit counts of the property statement *)
Theorem C01_running_sums_are_ranks : forall ws,
  spec_indexes ws = (spec_IndexRank64 ws false, spec_IndexRank64 ws true, spec_IndexRank128 ws).
Proof. exact spec_indexes_rank. Qed.
Print Assumptions C01_running_sums_are_ranks.

(** IndexRank64 without the total = with it minus the last entry; IndexRank128 = every other entry *)
Theorem C01_index_relations : forall ws, words_ok ws ->
  IndexRank64 ws false = removelast (IndexRank64 ws true) /\
  IndexRank128 ws = evens (IndexRank64 ws true) /\
  IndexRank64 ws true = psums (map popcount ws) 0.
Proof. exact index_relations. Qed.
Print Assumptions C01_index_relations.

(** rank of a concatenation, bit by bit *)
Theorem C01_rank_concat_spec : forall a b i,
  RankLawsSpec.spec_query (a ++ b) i =
  if i <? 64 * zlen a then RankLawsSpec.spec_query a i
  else option_map (fun p => (total1 a + fst p, snd p)) (RankLawsSpec.spec_query b (i - 64 * zlen a)).
Proof. exact spec_query_app. Qed.
Print Assumptions C01_rank_concat_spec.

(** a bitmap kept in two pieces with their own indexes answers like the index of the whole, for every flavour
    and every parity of the first piece (op bitmap.Rank/concat) *)
Theorem C01_rank_two_pieces : forall f f' a b i, words_ok a -> words_ok b ->
  query f (a ++ b) i = query_parts f' a b i.
Proof. exact query_concat. Qed.
Print Assumptions C01_rank_two_pieces.

Theorem C01_IndexRank64_concat : forall a b tr, words_ok a ->
  IndexRank64 (a ++ b) tr = IndexRank64 a false ++ map (Z.add (total1 a)) (IndexRank64 b tr).
Proof. exact IndexRank64_app. Qed.
Print Assumptions C01_IndexRank64_concat.

(** the 128-bit index of a concatenation, when the first piece has an even number of words (its last entry, the
    total of the first piece, is where the second index starts) *)
Theorem C01_IndexRank128_concat : forall a b, words_ok a -> words_ok b -> Nat.even (length a) = true ->
  IndexRank128 (a ++ b) = removelast (IndexRank128 a) ++ map (Z.add (total1 a)) (IndexRank128 b).
Proof. exact IndexRank128_app. Qed.
Print Assumptions C01_IndexRank128_concat.

(** histories over several bitmaps with HELD indexes, queried in any order, words overwritten in place and the
    bitmap re-indexed: every answer is for the current contents (op bitmap.Rank/history) *)
Theorem C01_history : forall steps bms, Forall words_ok bms -> Forall hstep_ok steps ->
  hrun (map build bms) steps = spec_hrun bms steps.
Proof. exact history_exact. Qed.
Print Assumptions C01_history.

(** what overwriting word [k] does to the counts: nothing up to that word, the difference of the bit counts after it *)
Theorem C01_rank_after_set : forall ws k w w0 i, nth_error ws k = Some w0 -> 0 <= i ->
  (i <= 64 * Z.of_nat k -> rank1z (flat (set_nth ws k w)) i = rank1z (flat ws) i) /\
  (64 * Z.of_nat (S k) <= i ->
     rank1z (flat (set_nth ws k w)) i = rank1z (flat ws) i - pop1 w0 + pop1 w).
Proof. exact rank_after_set. Qed.
Print Assumptions C01_rank_after_set.

(** composition with the other readers: the count is the number of elements of ToArray(words) below [i], the bit
    is what Get1 returns (rank/select is C02, Slice/rank is C14, Of/rank is C12) *)
Theorem C01_rank_ToArray : forall f ws ta i r b, words_ok ws -> ToArray ws = Some ta ->
  query f ws i = Some (r, b) -> r = count_below ta i /\ b = Z.b2z (member ta i).
Proof. exact rank_ToArray. Qed.
Print Assumptions C01_rank_ToArray.

Theorem C01_rank_Of : forall ps opt, Sorted.StronglySorted Z.lt ps -> (forall p, In p ps -> 0 <= p) ->
  exists r, Of ps opt = Some r /\
    forall f i, 0 <= i < 64 * zlen r -> query f r i = Some (count_below ps i, Z.b2z (member ps i)).
Proof. exact rank_Of. Qed.
Print Assumptions C01_rank_Of.

Theorem C01_rank_Get1 : forall f ws i r b, words_ok ws -> query f ws i = Some (r, b) -> Get1 ws i = Some b.
Proof. exact rank_Get1. Qed.
Print Assumptions C01_rank_Get1.

(** rank0: the count of 0-bits before [i] = the rank in the complemented bitmap = i - rank1 (op bitmap.Rank/complement) *)
Theorem C01_rank_complement : forall f f' ws i r b r' b', words_ok ws ->
  query f ws i = Some (r, b) -> query f' (map not64 ws) i = Some (r', b') -> r + r' = i /\ b + b' = 1.
Proof. exact rank_complement. Qed.
Print Assumptions C01_rank_complement.

(** constant bitmaps (the exhaustive sweep of the generator) *)
Theorem C01_rank_zeros : forall f n i, 0 <= i < 64 * Z.of_nat n -> query f (zeros_bm n) i = Some (0, 0).
Proof. exact rank_zeros. Qed.
Print Assumptions C01_rank_zeros.

Theorem C01_rank_ones : forall f n i, 0 <= i < 64 * Z.of_nat n -> query f (ones_bm n) i = Some (i, 1).
Proof. exact rank_ones. Qed.
Print Assumptions C01_rank_ones.

Example C01_laws_nonvacuous :
  let ws := [5; 2^64 - 1; 6] in
  query F128 ws 130 = Some (67, 1) /\ query (F64 true) ws 131 = Some (68, 0) /\ 68 = 67 + 1 /\
  query (F64 false) ws 191 = Some (68, 0) /\ trailing_total ws = Some 68 /\ total1 ws = 68 /\
  query F128 ws 192 = None /\ query F128 ws (-1) = None /\
  law_check 192 130 131 [(67, 1); (67, 1); (67, 1)] [(68, 0); (68, 0); (68, 0)] 68 = true /\
  law_check 192 130 131 [(67, 1); (67, 1); (67, 1)] [(67, 0); (67, 0); (67, 0)] 68 = false /\
  spec_indexes ws = ([0; 2; 66], [0; 2; 66; 68], [0; 66]) /\
  query_parts F128 [5] [2^64 - 1; 6] 130 = Some (67, 1) /\
  hrun (map build [ws; [1; 1; 1]]) [HQ F128 0 130; HQ F128 1 130; HSet 0 1 0; HQ (F64 true) 0 130; HQ F128 1 130]
    = Some [OQ (Some (67, 1)); OQ (Some (3, 0)); OT (Some 4); OQ (Some (3, 1)); OQ (Some (3, 0))] /\
  query F128 (map not64 ws) 130 = Some (63, 0) /\
  Rank64 ws [0; 0; 66; 7; 7] 130 = Some (67, 1) /\ Rank64_tab ws [0; 0; 66] 130 = Some (67, 1) /\ Rank128 ws [7; 66] 130 = Some (67, 1) /\
  ToArray ws = Some ([0; 2] ++ map Z.of_nat (seq 64 64) ++ [129; 130]) /\ Get1 ws 130 = Some 1.
Proof. vm_compute. intuition congruence. Qed.

(** * Round c: sessions and concurrent builds (ops bitmap.IndexRank/session, bitmap.IndexRank64/concurrent) *)

(** the per-run formulation of the indexes of a run-length encoded bitmap = the running sums on the expanded bitmap *)
Theorem C01_rle_indexes : forall runs,
  (spec_index_rle (F64 false) runs, spec_index_rle (F64 true) runs, spec_index_rle F128 runs)
  = spec_indexes (expand_rle runs).
Proof. exact spec_index_rle_indexes. Qed.
Print Assumptions C01_rle_indexes.

(** a session of any length, run any number of times: every step returns the index and the answer of its own bitmap,
    whatever was built before and whatever the caller wrote into the indexes it was given *)
Theorem C01_session : forall steps reps,
  Forall (fun s => words_ok (expand_rle (snd s))) steps ->
  session steps reps =
  map (fun s => (spec_index_rle (fst s) (snd s),
                 RankLawsSpec.spec_query (expand_rle (snd s)) (64 * zlen (expand_rle (snd s)) - 1)))
      (repeat_list steps reps).
Proof. exact session_exact. Qed.
Print Assumptions C01_session.

(** concurrent builds: what the single caller gets, and every concurrent call equal to it *)
Theorem C01_concurrent : forall bms tr stride ncalls,
  Forall (fun runs => words_ok (expand_rle runs)) bms ->
  concurrent bms tr stride ncalls =
  (map (fun runs => sample_every stride (spec_index_rle (F64 tr) runs)) bms, repeat 1 ncalls).
Proof. exact concurrent_exact. Qed.
Print Assumptions C01_concurrent.

Example C01_session_nonvacuous :
  session [(F128, [(3, 2^64 - 1); (1, 5)]); (F128, []); (F64 true, [(1, 6)])] 2 =
    [([0; 128; 194], Some (194, 0)); ([0], None); ([0; 2], Some (2, 0));
     ([0; 128; 194], Some (194, 0)); ([0], None); ([0; 2], Some (2, 0))] /\
  concurrent [[(5, 3)]; [(2, 1); (1, 0)]] true 2 3 = ([[0; 4; 8; 10]; [0; 2; 2]], [1; 1; 1]).
Proof. vm_compute. intuition congruence. Qed.

