(** C01 — Rank is exact: Rank64/Rank128 count the 1-bits before any position.
    This file contains only the property theorems (each closed by [exact]),
    their axiom audit, and non-vacuity examples. *)
From Coq Require Import ZArith List Bool.
From Low Require Import Lib.Bits Lib.BitSeq Model.Rank Spec.RankSpec Proofs.RankProofs.
Import ListNotations.
Open Scope Z_scope.

(** IndexRank64: one entry per word, entry k = number of 1-bits before 64k,
    plus the grand total when [trailing]. *)
Theorem C01_IndexRank64 : forall ws tr,
  words_ok ws -> IndexRank64 ws tr = spec_IndexRank64 ws tr.
Proof. exact IndexRank64_exact. Qed.
Print Assumptions C01_IndexRank64.

(** IndexRank128: len/2+1 entries, entry k = number of 1-bits before 128k. *)
Theorem C01_IndexRank128 : forall ws,
  words_ok ws -> IndexRank128 ws = spec_IndexRank128 ws.
Proof. exact IndexRank128_exact. Qed.
Print Assumptions C01_IndexRank128.

(** Rank64 with either flavour of the index = (bit-by-bit count, bit i). *)
Theorem C01_Rank64 : forall ws tr i,
  words_ok ws -> 0 <= i < 64 * zlen ws ->
  Rank64 ws (IndexRank64 ws tr) i = Some (spec_Rank ws i).
Proof. exact Rank64_exact. Qed.
Print Assumptions C01_Rank64.

Theorem C01_Rank128 : forall ws i,
  words_ok ws -> 0 <= i < 64 * zlen ws ->
  Rank128 ws (IndexRank128 ws) i = Some (spec_Rank ws i).
Proof. exact Rank128_exact. Qed.
Print Assumptions C01_Rank128.

(** non-vacuity: a three-word bitmap, a position in the right half of a
    128-bit block, with 1-bits on both sides of it *)
Example C01_nonvacuous :
  words_ok [5; 2^64 - 1; 6] /\ 0 <= 130 < 64 * zlen [5; 2^64 - 1; 6] /\
  Rank128 [5; 2^64 - 1; 6] (IndexRank128 [5; 2^64 - 1; 6]) 130 = Some (67, 1) /\
  Rank64 [5; 2^64 - 1; 6] (IndexRank64 [5; 2^64 - 1; 6] true) 130 = Some (67, 1).
Proof.
  split; [apply words_okb_ok; reflexivity|].
  vm_compute. intuition congruence.
Qed.
