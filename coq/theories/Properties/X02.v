(** placeholder, replaced in the same commit series *)
From Coq Require Import ZArith List.
From Low Require Import Model.Tree Spec.TreeSpec.
Import ListNotations.
Theorem X02_placeholder_partial : String (rose_tree false (Rose 0 [] [] None [])) 1 = Some [].
Proof. exact eq_refl. Qed.
Print Assumptions X02_placeholder_partial.
