(** X02 (extra check, not a record of properties.jsonl) — package tree: over any implementation of the Tree
    interface that presents a finite tree, String renders the pre-order row text and DepthFirst calls back in
    post-order.  Only the theorems (each closed by [exact]), their axiom audit and non-vacuity examples.
    Model: Model/Tree.v (nodeStr, toStrings, depthFirst over a record of interface functions, with fuel);
    vocabulary: Spec/TreeSpec.v ([rose], [rep], [spec_String], [spec_visits]). *)
From Coq Require Import ZArith List Bool.
From Low Require Import Lib.Decimal_xpk Model.Tree Spec.TreeSpec Proofs.TreeProofs Proofs.TreeInstanceProofs.
Import ListNotations.
Open Scope Z_scope.

(** String: for every node/label representation and every implementation [t] of the interface that presents the finite
    tree [r] at the nil node, with any fuel above the height (the model's only bound: the walk over an abstract interface
    needs one), the text is the pre-order sequence of rows, each row the node's line shifted to the node's column *)
Theorem X02_String : forall (node label : Type) (t : TreeI node label) r fuel,
  (height r <= fuel)%nat -> rep t None r -> String t fuel = Some (spec_String r).
Proof. exact (fun node label t r fuel => String_rep t r fuel). Qed.
Print Assumptions X02_String.

(** the same for any sub-tree and any incoming label: the lines of toStrings are the rows of the sub-tree *)
Theorem X02_toStrings : forall (node label : Type) (t : TreeI node label) r fuel inbranch n inb,
  (height r <= fuel)%nat -> rep t n r -> label_matches t inbranch inb ->
  toStrings t fuel inbranch n = Some (map row_text (rows 0 inb r)).
Proof.
  exact (fun node label t r fuel inbranch n inb Hf Hr Hl =>
           eq_trans (toStrings_rep t r fuel inbranch n inb Hf Hr Hl) (f_equal Some (lines_bu_rows r inb))).
Qed.
Print Assumptions X02_toStrings.

(** the line of one node: "-label->" when the incoming label is not nil, "#id" when the id is not empty, the info,
    "*n" when there are n > 1 labels, "=value" on a leaf; the indent of its sub-tree is the width of "-label->#id" *)
Theorem X02_nodeStr : forall (node label : Type) (t : TreeI node label) inbranch n inb r,
  rep t n r -> label_matches t inbranch inb ->
  nodeStr t inbranch n = (line_of inb r, Z.of_nat (length (prefix_of inb r))).
Proof. exact (fun node label t => nodeStr_rep t). Qed.
Print Assumptions X02_nodeStr.

(** DepthFirst: when Child(nil, nil) presents the finite tree [r], the callback is called once per node, children in
    label order before their parent, the root last with nil parent and nil label: calls and post-order visits match
    one by one (same sub-tree at node and parent, same label text) *)
Theorem X02_DepthFirst : forall (node label : Type) (t : TreeI node label) r fuel,
  (height r <= fuel)%nat -> rep t (t_child t None None) r ->
  exists calls, DepthFirst t fuel = Some calls /\ Forall2 (call_matches t) calls (spec_visits None None r).
Proof. exact (fun node label t r fuel => DepthFirst_rep t r fuel). Qed.
Print Assumptions X02_DepthFirst.

Theorem X02_depthFirst_subtree : forall (node label : Type) (t : TreeI node label) r fuel parent lb n vp inb,
  (height r <= fuel)%nat -> rep t n r -> call_matches t (parent, lb, n) (vp, inb, r) ->
  exists calls, depthFirst t fuel parent lb n = Some calls /\ Forall2 (call_matches t) calls (spec_visits vp inb r).
Proof. exact (fun node label t => depthFirst_rep t). Qed.
Print Assumptions X02_depthFirst_subtree.

(** the specification itself: one row and one visit per node; the first row is the root's line without indentation;
    the last visit is the root; the visiting order is the reverse of the pre-order of the mirrored tree *)
Theorem X02_spec_counts : forall r p inb,
  length (spec_lines r) = size r /\ length (spec_visits p inb r) = size r.
Proof. exact (fun r p inb => conj (spec_lines_length r) (spec_visits_length r p inb)). Qed.
Print Assumptions X02_spec_counts.

Theorem X02_spec_first_last : forall r p inb,
  (exists rest, spec_lines r = line_of None r :: rest) /\ (exists front, spec_visits p inb r = front ++ [(p, inb, r)]).
Proof. exact (fun r p inb => conj (spec_lines_head r) (spec_visits_last r p inb)). Qed.
Print Assumptions X02_spec_first_last.

Theorem X02_postorder_is_reversed_mirror_preorder : forall r p inb,
  map (fun v => r_uid (snd v)) (spec_visits p inb r) = rev (map r_uid (preorder (mirror r))).
Proof. exact spec_visits_mirror. Qed.
Print Assumptions X02_postorder_is_reversed_mirror_preorder.

(** the column rule: a child's rows are the rows it would have on its own, shifted by its column *)
Theorem X02_rows_shift : forall r c k inb, 0 <= c -> 0 <= k ->
  map row_text (rows (c + k) inb r) = map (fun s => spaces k ++ s) (map row_text (rows c inb r)).
Proof. exact rows_shift. Qed.
Print Assumptions X02_rows_shift.

(** the implementation of the interface that the harness builds (a node is the sub-tree, nil is the root, a label is
    the edge or nil) presents its tree, so both theorems apply to exactly what the correspondence check runs *)
Theorem X02_harness_tree_presents : forall rootnil root, rose_ok root = true ->
  rep (rose_tree rootnil root) None root /\
  rep (rose_tree rootnil root) (t_child (rose_tree rootnil root) None None) root.
Proof. exact (fun rn root H => conj (rose_tree_rep_root rn root H) (rose_tree_rep_child_root rn root H)). Qed.
Print Assumptions X02_harness_tree_presents.

Theorem X02_harness_String : forall rootnil root fuel, rose_ok root = true -> (height root <= fuel)%nat ->
  String (rose_tree rootnil root) fuel = Some (spec_String root).
Proof. exact String_rose. Qed.
Print Assumptions X02_harness_String.

Theorem X02_harness_DepthFirst : forall rootnil root fuel, rose_ok root = true -> (height root <= fuel)%nat ->
  exists calls, DepthFirst (rose_tree rootnil root) fuel = Some calls /\
                Forall2 (call_matches (rose_tree rootnil root)) calls (spec_visits None None root).
Proof. exact DepthFirst_rose. Qed.
Print Assumptions X02_harness_DepthFirst.

(** non-vacuity: the tree of the package's own test (ids "00".."06", info "(foo)", labels "0"/"1", leaves "leaf"),
    presented by the harness implementation; the text is the one the test expects, the visits are the test's *)
Definition x02_foo : list Z := [40; 102; 111; 111; 41].
Definition x02_leaf (u : Z) (d : Z) : rose := Rose u [48; 48 + d] x02_foo (Some (LStr [108; 101; 97; 102])) [].
Definition x02_tree : rose :=
  Rose 0 [48; 48] x02_foo None
    [(Some [48], Rose 1 [48; 49] x02_foo None
        [(Some [48], Rose 2 [48; 51] x02_foo None [(Some [48], x02_leaf 3 5); (Some [49], x02_leaf 4 6)])]);
     (Some [49], Rose 5 [48; 50] x02_foo None [(Some [48], x02_leaf 6 4)])].

Example X02_String_nonvacuous :
  rose_ok x02_tree = true /\ height x02_tree = 4%nat /\
  rep (rose_tree false x02_tree) None x02_tree /\
  String (rose_tree false x02_tree) 4 = Some (spec_String x02_tree) /\
  String (rose_tree false x02_tree) 3 = None /\
  length (spec_lines x02_tree) = 7%nat /\
  nth 3 (spec_lines x02_tree) [] =
    repeat 32 17 ++ [45; 48; 45; 62; 35; 48; 53] ++ x02_foo ++ [61; 108; 101; 97; 102] /\
  nth 0 (spec_lines x02_tree) [] = [35; 48; 48] ++ x02_foo ++ [42; 50].
Proof.
  split; [reflexivity|]. split; [reflexivity|].
  split; [apply rose_tree_rep_root; reflexivity|].
  vm_compute. intuition congruence.
Qed.

Example X02_DepthFirst_nonvacuous :
  rep (rose_tree true x02_tree) (t_child (rose_tree true x02_tree) None None) x02_tree /\
  map (fun v => r_uid (snd v)) (spec_visits None None x02_tree) = [3; 4; 2; 1; 6; 5; 0] /\
  (exists calls, DepthFirst (rose_tree true x02_tree) 4 = Some calls /\ length calls = 7%nat) /\
  DepthFirst (rose_tree true x02_tree) 3 = None.
Proof.
  split; [apply rose_tree_rep_child_root; reflexivity|].
  split; [reflexivity|].
  split; [|reflexivity].
  destruct (DepthFirst (rose_tree true x02_tree) 4) as [calls|] eqn:E; [|vm_compute in E; discriminate].
  exists calls. split; [reflexivity|]. vm_compute in E. inversion E. reflexivity.
Qed.
