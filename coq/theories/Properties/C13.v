(** C13 — NextOne / PrevOne find the nearest 1-bit inside a range.
    Only the property theorems (each closed by [exact]), their axiom audit and
    a non-vacuity example.  [spec_NextOne bm i e] is the head, [spec_PrevOne]
    the last element of [filter (i <= p < e) (ones (flat bm))], or -1. *)
From Coq Require Import ZArith List Bool.
From Low Require Import Lib.Bits Lib.BitSeq Model.BitmapNext Spec.NextSpec Proofs.NextProofs.
Import ListNotations.
Open Scope Z_scope.

(** NextOne(bm,i,end) = the smallest 1-bit position in [i,end), or -1; never panics on the domain.
    (Size hypothesis of DESIGN section 3: positions are unbounded [Z] in the model; Go's int32 agrees
    while 64*len(bm) < 2^31.) *)
Theorem C13_NextOne : forall bm, words_ok bm -> forall i e,
  0 <= i <= e -> e <= 64 * zlen bm -> i < 64 * zlen bm ->
  NextOne bm i e = Some (spec_NextOne bm i e).
Proof. exact NextOne_exact. Qed.
Print Assumptions C13_NextOne.

(** PrevOne(bm,i,end), end >= 1 = the largest 1-bit position in [i,end), or -1. *)
Theorem C13_PrevOne : forall bm, words_ok bm -> forall i e,
  0 <= i <= e -> e <= 64 * zlen bm -> i < 64 * zlen bm -> 1 <= e ->
  PrevOne bm i e = Some (spec_PrevOne bm i e).
Proof. exact PrevOne_exact. Qed.
Print Assumptions C13_PrevOne.

(** the specification value really is the extremal 1-bit of the range (so the two theorems above say
    what the property says, not merely "equal to some list function") *)
Theorem C13_spec_NextOne_least : forall bm i e r, 0 <= i -> i <= r < e ->
  bitz (flat bm) r = true -> (forall p, i <= p < r -> bitz (flat bm) p = false) ->
  spec_NextOne bm i e = r.
Proof. exact spec_NextOne_found. Qed.
Print Assumptions C13_spec_NextOne_least.

Theorem C13_spec_PrevOne_greatest : forall bm i e r, 0 <= i -> i <= r < e ->
  bitz (flat bm) r = true -> (forall p, r < p < e -> bitz (flat bm) p = false) ->
  spec_PrevOne bm i e = r.
Proof. exact spec_PrevOne_found. Qed.
Print Assumptions C13_spec_PrevOne_greatest.

Theorem C13_spec_none : forall bm i e, 0 <= i ->
  (forall p, i <= p < e -> bitz (flat bm) p = false) ->
  spec_NextOne bm i e = -1 /\ spec_PrevOne bm i e = -1.
Proof. exact (fun bm i e Hi H => conj (spec_NextOne_none bm i e Hi H) (spec_PrevOne_none bm i e Hi H)). Qed.
Print Assumptions C13_spec_none.

(** non-vacuity: a four-word bitmap with two all-zero words between the 1-bits (the path the pinned
    test-suite never takes), 1-bits at offsets 0 and 63, ranges that start after / end before them *)
Example C13_nonvacuous :
  words_ok [1; 0; 0; 2^63] /\
  (0 <= 1 <= 256 /\ 256 <= 64 * zlen [1; 0; 0; 2^63] /\ 1 < 64 * zlen [1; 0; 0; 2^63]) /\
  NextOne [1; 0; 0; 2^63] 1 256 = Some 255 /\ spec_NextOne [1; 0; 0; 2^63] 1 256 = 255 /\
  NextOne [1; 0; 0; 2^63] 1 255 = Some (-1) /\
  PrevOne [1; 0; 0; 2^63] 0 255 = Some 0 /\ spec_PrevOne [1; 0; 0; 2^63] 0 255 = 0 /\
  PrevOne [1; 0; 0; 2^63] 1 255 = Some (-1).
Proof.
  split; [apply words_okb_ok; reflexivity|].
  vm_compute. intuition congruence.
Qed.

(** * widened (a): every [i], [end] - the exact panic sets - and the int32 arithmetic *)
From Low Require Import Lib.MachInt Model.BitmapNext32 Spec.NextTotalSpec Proofs.NextTotal.

(** NextOne for EVERY [i], [end]: panics iff [i] is not a position of the bitmap, or [end] is beyond the
    bitmap and no 1-bit at or after [i] stops the scan; otherwise the first 1-bit of [i, end) or -1
    (-1 for every [end < i]).  [spec_NextOne_any] is Spec/NextTotalSpec.v. *)
Theorem C13_NextOne_any : forall bm, words_ok bm -> forall i e,
  NextOne bm i e = spec_NextOne_any bm i e.
Proof. exact NextOne_any. Qed.
Print Assumptions C13_NextOne_any.

(** PrevOne for EVERY [i], [end]: panics iff [end - 1] is not a position of the bitmap, or [i] is negative
    and there is no 1-bit below [end]; [i] is never used as an index ([i >= end], also beyond the
    bitmap, gives -1). *)
Theorem C13_PrevOne_any : forall bm, words_ok bm -> forall i e,
  PrevOne bm i e = spec_PrevOne_any bm i e.
Proof. exact PrevOne_any. Qed.
Print Assumptions C13_PrevOne_any.

(** the same, as the sets of panicking arguments in terms of single bits *)
Theorem C13_NextOne_panics_iff : forall bm, words_ok bm -> forall i e,
  NextOne bm i e = None <->
  (i < 0 \/ 64 * zlen bm <= i \/
   (64 * zlen bm < e /\ forall p, i <= p < 64 * zlen bm -> bitz (flat bm) p = false)).
Proof. exact NextOne_panics_iff. Qed.
Print Assumptions C13_NextOne_panics_iff.

Theorem C13_PrevOne_panics_iff : forall bm, words_ok bm -> forall i e,
  PrevOne bm i e = None <->
  (e < 1 \/ 64 * zlen bm < e \/ (i < 0 /\ forall p, 0 <= p < e -> bitz (flat bm) p = false)).
Proof. exact PrevOne_panics_iff. Qed.
Print Assumptions C13_PrevOne_panics_iff.

(** the model with every int32 wrap written out (Model/BitmapNext32.v: [i+63], [i += 64], [wordIdx<<6 + tz],
    [end--], [(end & ^63) - 1], [end -= 64], [end - lz]) IS the unbounded model, for every int32 [i], [end]
    (also negative, beyond the bitmap, [end = MinInt32] where [end--] wraps) while [64 * len < 2^31] *)
Theorem C13_int32_agree : forall bm, words_ok bm -> 64 * zlen bm < 2^31 -> forall i e,
  in_i32 i -> in_i32 e ->
  NextOne32 bm i e = NextOne bm i e /\ PrevOne32 bm i e = PrevOne bm i e.
Proof. exact (fun bm Hok Hs i e Hi He => conj (NextOne32_eq bm Hok Hs i e Hi) (PrevOne32_eq bm Hok Hs i e Hi He)). Qed.
Print Assumptions C13_int32_agree.

(** hence the property itself, of the int32 model *)
Theorem C13_NextOne32 : forall bm, words_ok bm -> 64 * zlen bm < 2^31 -> forall i e,
  0 <= i <= e -> e <= 64 * zlen bm -> i < 64 * zlen bm ->
  NextOne32 bm i e = Some (spec_NextOne bm i e).
Proof. exact NextOne32_exact. Qed.
Print Assumptions C13_NextOne32.

Theorem C13_PrevOne32 : forall bm, words_ok bm -> 64 * zlen bm < 2^31 -> forall i e,
  0 <= i <= e -> e <= 64 * zlen bm -> i < 64 * zlen bm -> 1 <= e ->
  PrevOne32 bm i e = Some (spec_PrevOne bm i e).
Proof. exact PrevOne32_exact. Qed.
Print Assumptions C13_PrevOne32.

(** non-vacuity: panics and non-panics outside the domain; the int32 model on the MinInt32 corner *)
Example C13_any_nonvacuous :
  words_ok [0; 4; 0] /\ 64 * zlen [0; 4; 0] < 2^31 /\
  NextOne [0; 4; 0] 3 1000 = Some 66 /\ spec_NextOne_any [0; 4; 0] 3 1000 = Some 66 /\   (* end beyond, a 1-bit stops the scan *)
  NextOne [0; 4; 0] 67 193 = None /\ spec_NextOne_any [0; 4; 0] 67 193 = None /\         (* end beyond, nothing stops it *)
  NextOne [0; 4; 0] 67 192 = Some (-1) /\
  NextOne [0; 4; 0] 67 5 = Some (-1) /\                                                  (* end < i *)
  NextOne [0; 4; 0] (-1) 5 = None /\ NextOne [0; 4; 0] 192 192 = None /\
  PrevOne [0; 4; 0] (-5) 192 = Some 66 /\ PrevOne [0; 4; 0] (-5) 66 = None /\            (* negative i *)
  PrevOne [0; 4; 0] 0 66 = Some (-1) /\ PrevOne [0; 4; 0] 500 192 = Some (-1) /\         (* i beyond the bitmap *)
  PrevOne [0; 4; 0] 0 0 = None /\ PrevOne [0; 4; 0] 0 193 = None /\
  in_i32 (- 2^31) /\ PrevOne32 [0; 4; 0] 0 (- 2^31) = None /\ PrevOne [0; 4; 0] 0 (- 2^31) = None /\
  NextOne32 [0; 4; 0] 3 (2^31 - 1) = Some 66 /\ NextOne32 [0; 4; 0] (- 2^31) 5 = None.
Proof.
  split; [apply words_okb_ok; reflexivity|].
  vm_compute. intuition congruence.
Qed.

(** * widened (b): laws of NextOne / PrevOne as callers combine them
    (NextOne / PrevOne of a Slice: C14_Slice_NextOne / C14_Slice_PrevOne; against Select and Rank: C02_NextOne_* / C02_*_then_PrevOne) *)
From Low Require Import Model.BitmapNextIter Model.BitmapOf Proofs.NextLaws.

(** walking a range with NextOne ([for i < end { p := NextOne(bm,i,end); if p < 0 {break}; ...; i = p+1 }])
    visits exactly the 1-bits of the range, ascending, and never panics *)
Theorem C13_IterNext : forall bm, words_ok bm -> forall i e,
  0 <= i <= e -> e <= 64 * zlen bm ->
  IterNext bm i e = Some (ones_in bm i e).
Proof. exact IterNext_exact. Qed.
Print Assumptions C13_IterNext.

(** walking it with PrevOne ([for end > i { p := PrevOne(bm,i,end); if p < 0 {break}; ...; end = p }])
    visits the same 1-bits in descending order *)
Theorem C13_IterPrev : forall bm, words_ok bm -> forall i e,
  0 <= i <= e -> e <= 64 * zlen bm ->
  IterPrev bm i e = Some (rev (ones_in bm i e)).
Proof. exact IterPrev_exact. Qed.
Print Assumptions C13_IterPrev.

(** over the whole bitmap the two walks are ToArray (C12's model of toarray.go) and its reverse *)
Theorem C13_Iter_ToArray : forall bm, words_ok bm ->
  IterNext bm 0 (64 * zlen bm) = ToArray bm /\
  IterPrev bm 0 (64 * zlen bm) = option_map (@rev Z) (ToArray bm).
Proof. exact (fun bm Hok => conj (IterNext_ToArray bm Hok) (IterPrev_ToArray bm Hok)). Qed.
Print Assumptions C13_Iter_ToArray.

(** duality, on a non-empty range: with [n = NextOne(bm,i,end)], [p = PrevOne(bm,i,end)]:
    [PrevOne(bm,i,n+1) = n], [NextOne(bm,p,end) = p], nothing before [n] ([PrevOne(bm,i,n) = -1]),
    nothing after [p] ([NextOne(bm,p+1,end) = -1]); [n = -1] iff [p = -1]; otherwise [i <= n <= p < end] *)
Theorem C13_NextPrevDual : forall bm, words_ok bm -> forall i e,
  0 <= i < e -> e <= 64 * zlen bm ->
  let sn := spec_NextOne bm i e in
  let sp := spec_PrevOne bm i e in
  NextPrevDual bm i e = Some [sn; sp; sn; sp; -1; -1] /\
  (sn = -1 <-> sp = -1) /\ (sn <> -1 -> i <= sn <= sp /\ sp < e).
Proof. exact NextPrevDual_exact. Qed.
Print Assumptions C13_NextPrevDual.

(** a shorter range clips the result of a longer one: NextOne in [end], PrevOne in [i] *)
Theorem C13_NextOne_shrink_end : forall bm, words_ok bm -> forall i e e',
  0 <= i <= e -> e <= e' -> e' <= 64 * zlen bm -> i < 64 * zlen bm ->
  NextOne bm i e = option_map (fun r => if (0 <=? r) && (r <? e) then r else -1) (NextOne bm i e').
Proof. exact NextOne_shrink_end. Qed.
Print Assumptions C13_NextOne_shrink_end.

Theorem C13_PrevOne_grow_start : forall bm, words_ok bm -> forall i i' e,
  0 <= i <= i' -> i' <= e -> e <= 64 * zlen bm -> i' < 64 * zlen bm -> 1 <= e ->
  PrevOne bm i' e = option_map (fun r => if i' <=? r then r else -1) (PrevOne bm i e).
Proof. exact PrevOne_grow_start. Qed.
Print Assumptions C13_PrevOne_grow_start.

(** moving the end the search starts from: the result is kept while it stays in the range, and
    otherwise moves only in the direction of the search (monotone in [i] resp. [end]) *)
Theorem C13_NextOne_advance_start : forall bm, words_ok bm -> forall i i' e r r',
  0 <= i <= i' -> i' <= e -> e <= 64 * zlen bm -> i' < 64 * zlen bm ->
  NextOne bm i e = Some r -> NextOne bm i' e = Some r' ->
  (r = -1 -> r' = -1) /\ (i' <= r -> r' = r) /\ (r' <> -1 -> r <> -1 /\ r <= r').
Proof. exact NextOne_advance_start. Qed.
Print Assumptions C13_NextOne_advance_start.

Theorem C13_PrevOne_retreat_end : forall bm, words_ok bm -> forall i e e' r r',
  0 <= i <= e' -> e' <= e -> e <= 64 * zlen bm -> i < 64 * zlen bm -> 1 <= e' ->
  PrevOne bm i e = Some r -> PrevOne bm i e' = Some r' ->
  (r = -1 -> r' = -1) /\ (r < e' -> r' = r) /\ (r' <> -1 -> r <> -1 /\ r' <= r).
Proof. exact PrevOne_retreat_end. Qed.
Print Assumptions C13_PrevOne_retreat_end.

(** non-vacuity: a bitmap with an all-zero word between its 1-bits; walks over a sub-range and the whole,
    the duality bundle with distinct first / last, clipping and monotonicity instances that change the result *)
Example C13_laws_nonvacuous :
  words_ok [2^63 + 1; 0; 6] /\
  IterNext [2^63 + 1; 0; 6] 1 130 = Some [63; 129] /\ ones_in [2^63 + 1; 0; 6] 1 130 = [63; 129] /\
  IterPrev [2^63 + 1; 0; 6] 1 130 = Some [129; 63] /\
  IterNext [2^63 + 1; 0; 6] 0 192 = Some [0; 63; 129; 130] /\ ToArray [2^63 + 1; 0; 6] = Some [0; 63; 129; 130] /\
  IterPrev [2^63 + 1; 0; 6] 0 192 = Some [130; 129; 63; 0] /\
  NextPrevDual [2^63 + 1; 0; 6] 1 131 = Some [63; 130; 63; 130; -1; -1] /\
  NextPrevDual [2^63 + 1; 0; 6] 64 129 = Some [-1; -1; -1; -1; -1; -1] /\
  NextOne [2^63 + 1; 0; 6] 64 192 = Some 129 /\ NextOne [2^63 + 1; 0; 6] 64 129 = Some (-1) /\
  PrevOne [2^63 + 1; 0; 6] 0 129 = Some 63 /\ PrevOne [2^63 + 1; 0; 6] 64 129 = Some (-1) /\
  NextOne [2^63 + 1; 0; 6] 0 192 = Some 0 /\ NextOne [2^63 + 1; 0; 6] 1 192 = Some 63.
Proof.
  split; [apply words_okb_ok; reflexivity|].
  vm_compute. intuition congruence.
Qed.

(** * widened (b), continued: against the other readers of the package - Get1 (get.go), Rank64 (rank.go) *)
From Low Require Import Model.Rank Model.BitmapNextReaders Proofs.NextCount.

(** the position NextOne returns reads 1 with Get1 and every position it stepped over reads 0;
    -1 means that every position of the range reads 0 *)
Theorem C13_NextOne_Get1 : forall bm, words_ok bm -> forall i e r,
  0 <= i <= e -> e <= 64 * zlen bm -> i < 64 * zlen bm ->
  NextOne bm i e = Some r -> r <> -1 ->
  i <= r < e /\ Get1 bm r = Some 1 /\ forall p, i <= p < r -> Get1 bm p = Some 0.
Proof. exact NextOne_Get1. Qed.
Print Assumptions C13_NextOne_Get1.

Theorem C13_NextOne_none_Get1 : forall bm, words_ok bm -> forall i e,
  0 <= i <= e -> e <= 64 * zlen bm -> i < 64 * zlen bm ->
  NextOne bm i e = Some (-1) -> forall p, i <= p < e -> Get1 bm p = Some 0.
Proof. exact NextOne_none_Get1. Qed.
Print Assumptions C13_NextOne_none_Get1.

Theorem C13_PrevOne_Get1 : forall bm, words_ok bm -> forall i e r,
  0 <= i <= e -> e <= 64 * zlen bm -> i < 64 * zlen bm -> 1 <= e ->
  PrevOne bm i e = Some r -> r <> -1 ->
  i <= r < e /\ Get1 bm r = Some 1 /\ forall p, r < p < e -> Get1 bm p = Some 0.
Proof. exact PrevOne_Get1. Qed.
Print Assumptions C13_PrevOne_Get1.

(** the bundle the harness runs ([bitmap.Next/Get1]) *)
Theorem C13_NextGet1 : forall bm, words_ok bm -> forall i e, 0 <= i < e -> e <= 64 * zlen bm ->
  let sn := spec_NextOne bm i e in
  let sp := spec_PrevOne bm i e in
  NextGet1 bm i e = Some [sn; if sn =? -1 then -1 else 1; sp; if sp =? -1 then -1 else 1].
Proof. exact NextGet1_exact. Qed.
Print Assumptions C13_NextGet1.

(** the number of 1-bits of a range is a difference of ranks, so a walk of [i, end) with NextOne (or PrevOne)
    takes exactly [Rank64(end) - Rank64(i)] rounds (rank.go's index, C01's model) *)
Theorem C13_walk_count_Rank64 : forall bm, words_ok bm -> forall tr i e l ri bi re be,
  0 <= i <= e -> e < 64 * zlen bm ->
  IterNext bm i e = Some l ->
  Rank64 bm (IndexRank64 bm tr) i = Some (ri, bi) -> Rank64 bm (IndexRank64 bm tr) e = Some (re, be) ->
  zlen l = re - ri.
Proof. exact IterNext_count_Rank64. Qed.
Print Assumptions C13_walk_count_Rank64.

(** the bundle the harness runs ([bitmap.Next/count]) *)
Theorem C13_WalkCount : forall bm, words_ok bm -> forall tr i e, 0 <= i <= e -> e < 64 * zlen bm ->
  let c := zlen (ones_in bm i e) in
  WalkCount bm tr i e = Some [c; c; c].
Proof. exact WalkCount_exact. Qed.
Print Assumptions C13_WalkCount.

Example C13_readers_nonvacuous :
  words_ok [2^63 + 1; 0; 6] /\
  NextGet1 [2^63 + 1; 0; 6] 1 131 = Some [63; 1; 130; 1] /\
  NextGet1 [2^63 + 1; 0; 6] 64 129 = Some [-1; -1; -1; -1] /\
  Get1 [2^63 + 1; 0; 6] 63 = Some 1 /\ Get1 [2^63 + 1; 0; 6] 62 = Some 0 /\
  WalkCount [2^63 + 1; 0; 6] true 1 131 = Some [3; 3; 3] /\
  WalkCount [2^63 + 1; 0; 6] false 0 191 = Some [4; 4; 4] /\
  Rank64 [2^63 + 1; 0; 6] (IndexRank64 [2^63 + 1; 0; 6] false) 131 = Some (4, 0).
Proof.
  split; [apply words_okb_ok; reflexivity|].
  vm_compute. intuition congruence.
Qed.

(** * widened: build with Of (of.go), walk with NextOne / PrevOne *)
From Coq Require Import Sorted.
From Low Require Import Proofs.NextOf.

(** for strictly ascending non-negative positions, the NextOne walk of [Of(ps, n)] returns [ps] and the
    PrevOne walk returns [rev ps] (any size argument) *)
Theorem C13_Of_walk : forall ps opt,
  StronglySorted Z.lt ps -> (forall p, In p ps -> 0 <= p) ->
  OfWalk ps opt = Some (ps, rev ps).
Proof. exact OfWalk_exact. Qed.
Print Assumptions C13_Of_walk.

Example C13_Of_walk_nonvacuous :
  StronglySorted Z.lt [0; 63; 64; 200] /\
  OfWalk [0; 63; 64; 200] (Some 130) = Some ([0; 63; 64; 200], [200; 64; 63; 0]) /\
  Of [0; 63; 64; 200] (Some 130) = Some [2^63 + 1; 1; 0; 256] /\
  OfWalk [] (Some 70) = Some ([], []).
Proof.
  split; [repeat constructor; reflexivity|]. vm_compute. intuition congruence.
Qed.

(** * widened: the NextOne walk against select.go (C02's models) *)
From Low Require Import Model.Select Proofs.NextSelect.

(** Select32 / Select32R64 index into the NextOne walk of the whole bitmap: for index [k] they return the
    [k]-th 1-bit the walk visits and the one visited next ([64 * len] after the last) *)
Theorem C13_Select32_nth_walk : forall ws sidx l k, words_ok ws -> IndexSelect32 ws = Some sidx ->
  IterNext ws 0 (64 * zlen ws) = Some l -> 0 <= k < zlen l ->
  Select32 ws sidx k =
  Some (nth (Z.to_nat k) l 0, if k + 1 <? zlen l then nth (Z.to_nat (k + 1)) l 0 else 64 * zlen ws).
Proof. exact Select32_nth_walk. Qed.
Print Assumptions C13_Select32_nth_walk.

Theorem C13_Select32R64_nth_walk : forall ws sidx ridx l k, words_ok ws ->
  IndexSelect32R64 ws = Some (sidx, ridx) ->
  IterNext ws 0 (64 * zlen ws) = Some l -> 0 <= k < zlen l ->
  Select32R64 ws sidx ridx k =
  Some (nth (Z.to_nat k) l 0, if k + 1 <? zlen l then nth (Z.to_nat (k + 1)) l 0 else 64 * zlen ws).
Proof. exact Select32R64_nth_walk. Qed.
Print Assumptions C13_Select32R64_nth_walk.

(** the bundle the harness runs ([bitmap.Next/Select32]); never panics *)
Theorem C13_WalkSelect : forall ws, words_ok ws ->
  let o := ones (flat ws) in
  WalkSelect ws = Some (o, sel_pairs o (64 * zlen ws), sel_pairs o (64 * zlen ws)).
Proof. exact WalkSelect_exact. Qed.
Print Assumptions C13_WalkSelect.

Example C13_WalkSelect_nonvacuous :
  words_ok [2^63 + 1; 0; 6] /\
  WalkSelect [2^63 + 1; 0; 6] =
    Some ([0; 63; 129; 130], [(0, 63); (63, 129); (129, 130); (130, 192)], [(0, 63); (63, 129); (129, 130); (130, 192)]) /\
  sel_pairs [0; 63; 129; 130] 192 = [(0, 63); (63, 129); (129, 130); (130, 192)] /\
  WalkSelect [] = Some ([], [], []).
Proof.
  split; [apply words_okb_ok; reflexivity|].
  vm_compute. intuition congruence.
Qed.

(** * widened: cut a range out with Slice (slice.go, C14's model), walk the result *)
From Low Require Import Model.BitmapJoin Proofs.NextSlice.

(** the NextOne walk of [Slice(bm, from, to)] returns the 1-bits of [from, to) shifted to start at 0, the PrevOne
    walk the same list reversed (single NextOne / PrevOne calls on a slice: C14_Slice_NextOne / C14_Slice_PrevOne) *)
Theorem C13_Slice_walk : forall ws from to, words_ok ws -> 0 <= from <= to -> to <= 64 * zlen ws ->
  let l := map (fun p => p - from) (ones_in ws from to) in
  SliceWalk ws from to = Some (l, rev l).
Proof. exact SliceWalk_exact. Qed.
Print Assumptions C13_Slice_walk.

Example C13_Slice_walk_nonvacuous :
  words_ok [2^63 + 1; 0; 6] /\
  SliceWalk [2^63 + 1; 0; 6] 63 131 = Some ([0; 66; 67], [67; 66; 0]) /\
  Slice [2^63 + 1; 0; 6] 63 131 = Some [1; 12] /\
  SliceWalk [2^63 + 1; 0; 6] 64 129 = Some ([], []).
Proof.
  split; [apply words_okb_ok; reflexivity|].
  vm_compute. intuition congruence.
Qed.

(** * the anchor in mask.go: the table reads of next.go *)
From Low Require Import Model.BitmapMask Proofs.NextMask.

(** [RMask[i & 63]] and [MaskUpto[end & 63]] read from the tables filled by [initMasks] (Model/BitmapMask.v, uint64
    arithmetic written out) never panic and are the closed forms Model/BitmapNext.v writes for them *)
Theorem C13_mask_reads : forall x,
  nthZ (tRMask initMasks) (Z.land x 63) = Some (RMask (Z.land x 63)) /\
  nthZ (tMaskUpto initMasks) (Z.land x 63) = Some (MaskUpto (Z.land x 63)).
Proof. exact next_mask_reads. Qed.
Print Assumptions C13_mask_reads.

Example C13_mask_reads_nonvacuous :
  nthZ (tRMask initMasks) (Z.land 127 63) = Some (2^64 - 2^63) /\
  nthZ (tMaskUpto initMasks) (Z.land (-1) 63) = Some (2^64 - 1) /\
  nthZ (tMaskUpto initMasks) 64 = None.
Proof. vm_compute. intuition congruence. Qed.

(** * the protocol operations of ./check C13 against the theorems above *)
From Coq Require String.
From Low Require Import Lib.Val Run.C13 Proofs.NextRunProofs.

(** for EVERY argument list, each of the 18 operations of [ops_C13] (Run/C13.v, Run/NextWide.v) either rejects the
    arguments as malformed / outside its domain ([VBad]) or produces a model output that its specification side
    accepts: the functions the driver evaluates are exactly the ones the theorems of this file are about *)
Theorem C13_ops_model_satisfies_spec : Forall op_ok ops_C13.
Proof. exact ops_C13_model_satisfies_spec. Qed.
Print Assumptions C13_ops_model_satisfies_spec.

(** hence no C13 case can be judged MODELBUG: a disagreement is always about the implementation *)
Theorem C13_never_modelbug : forall d args obs, In d ops_C13 -> fst (judge_op d args obs) <> J_MODELBUG.
Proof. exact C13_never_modelbug. Qed.
Print Assumptions C13_never_modelbug.

Example C13_ops_nonvacuous :
  List.length ops_C13 = 18%nat /\
  (exists d, In d ops_C13 /\
     op_run d [VL [VL [VZ 1; VZ 4]]; VZ 3; VZ 128] = VZ 66 /\
     op_spec d [VL [VL [VZ 1; VZ 4]]; VZ 3; VZ 128] (VZ 66) = true /\
     op_spec d [VL [VL [VZ 1; VZ 4]]; VZ 3; VZ 128] (VZ 67) = false) /\
  (exists d, In d ops_C13 /\ op_run d [] = VBad).
Proof.
  split; [reflexivity|]. split.
  - exists (nth 4 ops_C13 (Build_opdef String.EmptyString (fun _ => VBad) (fun _ _ => false))).
    split; [apply nth_In; vm_compute; repeat constructor|]. vm_compute. auto.
  - exists (nth 0 ops_C13 (Build_opdef String.EmptyString (fun _ => VBad) (fun _ _ => false))).
    split; [apply nth_In; vm_compute; repeat constructor|]. reflexivity.
Qed.
