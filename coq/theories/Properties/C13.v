(** C13 — NextOne / PrevOne find the nearest 1-bit inside a range. (placeholder, replaced by the proved theorems) *)
From Coq Require Import ZArith List Bool.
From Low Require Import Lib.Bits Lib.BitSeq Model.BitmapNext Spec.NextSpec.
Import ListNotations.
Open Scope Z_scope.

Example C13_nonvacuous :
  NextOne [1; 0; 0; 2^63] 1 256 = Some 255 /\ spec_NextOne [1; 0; 0; 2^63] 1 256 = 255 /\
  PrevOne [1; 0; 0; 2^63] 0 255 = Some 0 /\ spec_PrevOne [1; 0; 0; 2^63] 0 255 = 0.
Proof. vm_compute. intuition congruence. Qed.
