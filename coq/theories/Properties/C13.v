(** C13 — NextOne / PrevOne find the nearest 1-bit inside a range.
    Only the property theorems (each closed by [exact]), their axiom audit and
    a non-vacuity example.  [spec_NextOne bm i e] is the head, [spec_PrevOne]
    the last element of [filter (i <= p < e) (ones (flat bm))], or -1. *)
From Coq Require Import ZArith List Bool.
From Low Require Import Lib.Bits Lib.BitSeq Model.BitmapNext Spec.NextSpec Proofs.NextProofs.
Import ListNotations.
Open Scope Z_scope.

(** NextOne(bm,i,end) = the smallest 1-bit position in [i,end), or -1; never panics on the domain.
    (Size hypothesis of DESIGN section 3: positions are unbounded [Z] in the model; Go's int32 agrees
    while 64*len(bm) < 2^31.) *)
Theorem C13_NextOne : forall bm, words_ok bm -> forall i e,
  0 <= i <= e -> e <= 64 * zlen bm -> i < 64 * zlen bm ->
  NextOne bm i e = Some (spec_NextOne bm i e).
Proof. exact NextOne_exact. Qed.
Print Assumptions C13_NextOne.

(** PrevOne(bm,i,end), end >= 1 = the largest 1-bit position in [i,end), or -1. *)
Theorem C13_PrevOne : forall bm, words_ok bm -> forall i e,
  0 <= i <= e -> e <= 64 * zlen bm -> i < 64 * zlen bm -> 1 <= e ->
  PrevOne bm i e = Some (spec_PrevOne bm i e).
Proof. exact PrevOne_exact. Qed.
Print Assumptions C13_PrevOne.

(** the specification value really is the extremal 1-bit of the range (so the two theorems above say
    what the property says, not merely "equal to some list function") *)
Theorem C13_spec_NextOne_least : forall bm i e r, 0 <= i -> i <= r < e ->
  bitz (flat bm) r = true -> (forall p, i <= p < r -> bitz (flat bm) p = false) ->
  spec_NextOne bm i e = r.
Proof. exact spec_NextOne_found. Qed.
Print Assumptions C13_spec_NextOne_least.

Theorem C13_spec_PrevOne_greatest : forall bm i e r, 0 <= i -> i <= r < e ->
  bitz (flat bm) r = true -> (forall p, r < p < e -> bitz (flat bm) p = false) ->
  spec_PrevOne bm i e = r.
Proof. exact spec_PrevOne_found. Qed.
Print Assumptions C13_spec_PrevOne_greatest.

Theorem C13_spec_none : forall bm i e, 0 <= i ->
  (forall p, i <= p < e -> bitz (flat bm) p = false) ->
  spec_NextOne bm i e = -1 /\ spec_PrevOne bm i e = -1.
Proof. exact (fun bm i e Hi H => conj (spec_NextOne_none bm i e Hi H) (spec_PrevOne_none bm i e Hi H)). Qed.
Print Assumptions C13_spec_none.

(** non-vacuity: a four-word bitmap with two all-zero words between the 1-bits (the path the pinned
    test-suite never takes), 1-bits at offsets 0 and 63, ranges that start after / end before them *)
Example C13_nonvacuous :
  words_ok [1; 0; 0; 2^63] /\
  (0 <= 1 <= 256 /\ 256 <= 64 * zlen [1; 0; 0; 2^63] /\ 1 < 64 * zlen [1; 0; 0; 2^63]) /\
  NextOne [1; 0; 0; 2^63] 1 256 = Some 255 /\ spec_NextOne [1; 0; 0; 2^63] 1 256 = 255 /\
  NextOne [1; 0; 0; 2^63] 1 255 = Some (-1) /\
  PrevOne [1; 0; 0; 2^63] 0 255 = Some 0 /\ spec_PrevOne [1; 0; 0; 2^63] 0 255 = 0 /\
  PrevOne [1; 0; 0; 2^63] 1 255 = Some (-1).
Proof.
  split; [apply words_okb_ok; reflexivity|].
  vm_compute. intuition congruence.
Qed.
