(** C06 — pbcmpl frames round-trip: Marshal then Unmarshal returns message, version,
    size, one frame per call, independent of how the reader chunks the bytes.

    Model: Model/Pbcmpl.v (marshal/Marshal, ReadHeader, Unmarshal as repaired by
    /repo 815cf27 — io.ReadAll(io.LimitReader(r, bodySize)) —, newHeader, the
    little-endian header layout, verStr, Size, HeaderSize; Go's io.ReadFull,
    io.ReadAll, io.LimitedReader; a reader = ANY finite list of chunks plus a
    terminal condition — [chunks_ok cs]: empty chunks, i.e. Reads returning (0, nil),
    are allowed anywhere except as the very last chunk, where they would be the
    terminal condition delivered alone —; a writer = a script of responses).
    Specification: Spec/PbcmplSpec.v ([frame] = 16-byte NUL-padded version, le64 32,
    le64 |body|, body; [spec_Unmarshal] on the flat byte string).
    The body codec (proto.Marshal / proto.Unmarshal / proto.Size of the message
    type: external code) is universally quantified with dec (enc m) = Some m and
    size m = |enc m| as PREMISES of the generic theorems, and discharged for the two
    codecs of the harness (raw legacy message, wrappers.BytesValue with the protowire
    varint) in C06_codec_* / C06_marshal_then_unmarshal / C06_stream, which carry no
    premise about the codec.  All statements are unbounded in payload length, number
    of frames, number and sizes of chunks; Go's int64 range appears as the hypothesis
    "stream shorter than 2^63 bytes".  [fuel] is the loop bound of the executable
    model; any value >= |stream| + number of chunks + 2 (the protocol uses exactly that) is
    enough.
    [term_ok]: a reader that reports a non-EOF error together with the very last
    byte of the body makes io.ReadAll fail although the frame is complete; every
    other reader (in particular every reader that ends with io.EOF, with or without
    data in the last Read) is covered. *)
From Coq Require Import ZArith List Bool.
From Low Require Import Lib.BitSeq Lib.Bytes Model.Pbcmpl Spec.PbcmplSpec
  Proofs.PbcmplIO Proofs.PbcmplHeader Proofs.PbcmplProofs Proofs.PbcmplMarshal
  Proofs.PbcmplFrames Proofs.PbcmplStream Proofs.PbcmplHistory Proofs.PbcmplWalk.
From Low Require Import Model.PbcmplWalk Spec.PbcmplWalkSpec Lib.Val Run.PbcmplOps Run.PbcmplWalkOps Run.C06 Proofs.PbcmplOpsC06 Run.PbcmplSessionOps Proofs.PbcmplSessions Proofs.PbcmplBig.
Import ListNotations.
Open Scope Z_scope.

(** io.ReadFull over ANY finite reader script — any list of chunks, empty chunks (Reads
    that return (0, nil)) included, no condition at all on the list: returns the first
    [min] bytes of the flat stream (all of it when shorter), leaves exactly the rest, and
    reports nil / io.EOF (nothing read) / io.ErrUnexpectedEOF / the reader's own error *)
Theorem C06_ReadFull_any_chunking : forall cs t min fuel,
  0 <= min -> (length cs + 2 <= fuel)%nat ->
  exists cs',
    ReadFull cread fuel (cs, t) min
      = Some (firstn (Z.to_nat min) (concat cs),
              (if zlen (concat cs) <? min then Some (end_err t (zlen (concat cs)) EEOF) else None),
              (cs', t))
    /\ concat cs' = skipn (Z.to_nat min) (concat cs)
    /\ (chunks_ok cs -> chunks_ok cs')
    /\ (length cs' <= length cs)%nat.
Proof. exact ReadFull_cread. Qed.
Print Assumptions C06_ReadFull_any_chunking.

(** io.ReadAll(io.LimitReader(r, n)) over ANY chunking ([chunks_ok]: the chunk list does
    not END with an empty chunk; empty chunks elsewhere are allowed), for every buffer
    growth policy *)
Theorem C06_ReadAll_limited_any_chunking : forall grow,
  (forall c, 0 < c -> c < grow c) ->
  forall t fuel cs n,
  chunks_ok cs -> (length cs + length (concat cs) + 1 <= fuel)%nat ->
  exists cs' n',
    ReadAll (limited_read cread) grow fuel ((cs, t), n)
      = Some (firstn (Z.to_nat n) (concat cs), rall_err (concat cs) n t, ((cs', t), n'))
    /\ concat cs' = skipn (Z.to_nat n) (concat cs)
    /\ chunks_ok cs' /\ (length cs' <= length cs)%nat.
Proof. exact ReadAll_limited_cread. Qed.
Print Assumptions C06_ReadAll_limited_any_chunking.

(** Marshal to a writer that accepts everything: the frame reaches the writer, and the
    returned count, the bytes on the wire, Size(msg) and 32 + encoded length coincide;
    HeaderSize is 32.  [ver] = Some (msg.GetVersion()) or None (DefaultVer). *)
Theorem C06_marshal : forall (Msg : Type) (enc : Msg -> list Z) (size : Msg -> Z) (m : Msg) ver,
  zlen (ver_of ver) <= 16 -> zlen (enc m) < 2 ^ 63 - 32 -> size m = zlen (enc m) ->
  Marshal enc swrite ([], []) m ver
    = Some (32 + zlen (enc m), None, ([], frame (ver_of ver) (enc m)))
  /\ zlen (frame (ver_of ver) (enc m)) = 32 + zlen (enc m)
  /\ SizeOf size m = 32 + zlen (enc m)
  /\ HeaderSizeOf m = 32.
Proof. exact Marshal_ok. Qed.
Print Assumptions C06_marshal.

(** ReadHeader on a frame (followed by anything, chunked anyhow): 32 bytes consumed,
    the version, header size 32, body size = encoded length *)
Theorem C06_readheader : forall ver body rest cs t fuel,
  zlen ver <= 16 -> no_trailing_nul ver = true -> zlen body < 2 ^ 63 ->
  bytes_ok ver -> bytes_ok body -> bytes_ok rest ->
  chunks_ok cs -> concat cs = frame ver body ++ rest -> zlen (concat cs) < 2 ^ 63 ->
  (length cs + 2 <= fuel)%nat ->
  exists h cs',
    ReadHeader cread fuel (cs, t) = Some (32, Some h, None, (cs', t))
    /\ GetVersion h = ver /\ GetHeaderSize h = 32 /\ GetBodySize h = zlen body
    /\ concat cs' = body ++ rest /\ chunks_ok cs'.
Proof. exact ReadHeader_frame. Qed.
Print Assumptions C06_readheader.

(** Unmarshal on a frame followed by ANY rest, for ANY chunking: the message, the
    version, n = |frame|, and the reader is left with exactly [rest] *)
Theorem C06_unmarshal : forall (Msg : Type) (enc : Msg -> list Z) (dec : list Z -> option Msg) grow,
  (forall c, 0 < c -> c < grow c) ->
  forall m ver rest cs t fuel,
  dec (enc m) = Some m ->
  zlen ver <= 16 -> no_trailing_nul ver = true ->
  bytes_ok ver -> bytes_ok (enc m) -> bytes_ok rest ->
  chunks_ok cs -> concat cs = frame ver (enc m) ++ rest -> zlen (concat cs) < 2 ^ 63 ->
  term_ok t (enc m) rest ->
  (length cs + length (concat cs) + 2 <= fuel)%nat ->
  exists cs',
    Unmarshal dec cread grow fuel (cs, t)
      = Some (32 + zlen (enc m), ver, None, Some m, (cs', t))
    /\ concat cs' = rest /\ chunks_ok cs'.
Proof. exact Unmarshal_frame. Qed.
Print Assumptions C06_unmarshal.

(** widening: a version that ends in NULs (or is empty / all NULs) is outside the
    property's statement; what the code does with it is determined all the same: the
    version comes back without its trailing NULs, everything else is unchanged *)
Theorem C06_unmarshal_anyver : forall (Msg : Type) (enc : Msg -> list Z) (dec : list Z -> option Msg) grow,
  (forall c, 0 < c -> c < grow c) ->
  forall m ver rest cs t fuel,
  dec (enc m) = Some m ->
  zlen ver <= 16 ->
  bytes_ok ver -> bytes_ok (enc m) -> bytes_ok rest ->
  chunks_ok cs -> concat cs = frame ver (enc m) ++ rest -> zlen (concat cs) < 2 ^ 63 ->
  term_ok t (enc m) rest ->
  (length cs + length (concat cs) + 2 <= fuel)%nat ->
  exists cs',
    Unmarshal dec cread grow fuel (cs, t)
      = Some (32 + zlen (enc m), strip_nul ver, None, Some m, (cs', t))
    /\ concat cs' = rest /\ chunks_ok cs'.
Proof. exact Unmarshal_frame_anyver. Qed.
Print Assumptions C06_unmarshal_anyver.

(** the two body codecs of the harness meet the premises of the generic theorems:
    kind 0 = raw legacy Marshal/Unmarshal message, kind 1 = wrappers.BytesValue *)
Theorem C06_codec_roundtrip : forall kind p,
  kind = 0 \/ kind = 1 -> zlen p < 2 ^ 63 -> k_dec kind (k_enc kind p) = Some p.
Proof. exact k_dec_enc. Qed.
Print Assumptions C06_codec_roundtrip.

Theorem C06_codec_size : forall kind p, k_size kind p = zlen (k_enc kind p).
Proof. exact k_size_enc. Qed.
Print Assumptions C06_codec_size.

(** closed form for the concrete codecs: Marshal, then Unmarshal of what was written
    (followed by anything, chunked anyhow) gives the payload, the version (DefaultVer
    when the message carries none), and one and the same size figure four times *)
Theorem C06_marshal_then_unmarshal : forall kind m,
  kind = 0 \/ kind = 1 -> msg_wf m ->
  let wire := frame_of (k_enc kind) m in
  s_Marshal kind [] (snd m) (fst m) = Some (zlen wire, None, ([], wire))
  /\ zlen wire = SizeOf (k_size kind) (snd m)
  /\ zlen wire = HeaderSizeOf (snd m) + zlen (k_enc kind (snd m))
  /\ forall cs tail t,
       bytes_ok tail -> chunks_ok cs -> concat cs = wire ++ tail -> zlen (concat cs) < 2 ^ 63 ->
       term_ok t (k_enc kind (snd m)) tail ->
       exists cs',
         c_Unmarshal kind (cs, t) = Some (zlen wire, ver_of (fst m), None, Some (snd m), (cs', t))
         /\ concat cs' = tail /\ chunks_ok cs'.
Proof. exact marshal_then_unmarshal. Qed.
Print Assumptions C06_marshal_then_unmarshal.

(** any number of frames written back to back, read by repeated Unmarshal calls over
    ANY chunking of the wire: one frame per call (n, version, payload, bytes consumed
    so far), then a clean io.EOF with n = 0, nothing left *)
Theorem C06_stream : forall kind, kind = 0 \/ kind = 1 ->
  forall t, t_err t = EEOF ->
  forall ms cs,
  Forall msg_wf ms -> chunks_ok cs -> concat cs = wire_of (k_enc kind) ms ->
  zlen (wire_of (k_enc kind) ms) < 2 ^ 63 ->
  c_Stream kind (cs, t) = Some (frames_steps (k_enc kind) 0 ms, ([], t)).
Proof. exact c_Stream_frames. Qed.
Print Assumptions C06_stream.

(** widening — ReadHeader as its users combine it with io.ReadFull (Model/PbcmplWalk.v: a
    program that walks the stream frame by frame without decoding; bodies above 64 KiB
    are refused by that program): over ANY chunking of a stream of frames it reports, per
    frame, 32 bytes of header, the version, header size 32, body size = encoded length
    and the encoded body itself, then a clean io.EOF; for ANY body encoder *)
Theorem C06_walk_frames : forall (enc : list Z -> list Z) t, t_err t = EEOF ->
  forall ms cs,
  Forall (walk_wf enc) ms -> bytes_ok (wire_of enc ms) ->
  chunks_ok cs -> concat cs = wire_of enc ms -> zlen (wire_of enc ms) < 2 ^ 63 ->
  c_Walk (cs, t) = Some (frames_walk enc ms, ([], t)).
Proof. exact c_Walk_frames. Qed.
Print Assumptions C06_walk_frames.

Example C06_walk_nonvacuous :
  let ms := [(Some [49; 46; 50; 46; 51], [1; 2; 3]); (None, []); (Some (repeat 120 16), repeat 7 200)] in
  let t := {| t_err := EEOF; t_with_last := false |} in
  let cs := chunks_of [3; 50] (wire_of (k_enc 1) ms) in
  c_Walk (cs, t)
    = Some ([(32, None, [49; 46; 50; 46; 51], 32, 5, [10; 3; 1; 2; 3], false);
             (32, None, [49; 46; 48; 46; 48], 32, 0, [], false);
             (32, None, repeat 120 16, 32, 203, 10 :: 200 :: 1 :: repeat 7 200, false);
             (0, Some EEOF, [], 0, 0, [], false)], ([], t)).
Proof. vm_compute. reflexivity. Qed.

(** the four protocol operations of C06 exactly as Run/C06.v runs them, for the two
    concrete codecs: on every in-domain argument the value computed from the model IS
    the value computed from the specification (the verdict MODELBUG is impossible, and
    OK means the implementation returned the specification's value) *)
Theorem C06_op_marshal : forall kind m,
  msg_wf m -> v_marshal_model kind [] m = v_marshal_spec kind [] m.
Proof. exact op_Marshal. Qed.
Print Assumptions C06_op_marshal.

Theorem C06_op_readheader : forall kind, kind = 0 \/ kind = 1 ->
  forall m pat, msg_wf m -> all_pos pat = true ->
  match s_Marshal kind [] (snd m) (fst m) with
  | None => VPanic
  | Some (_, _, (_, wire)) => v_readheader_model (chunks_of pat wire, term_of 0 false)
  end = v_readheader (32, None, ver_of (fst m), 32, zlen (k_enc kind (snd m))).
Proof. exact op_ReadHeader. Qed.
Print Assumptions C06_op_readheader.

Theorem C06_op_roundtrip : forall kind, kind = 0 \/ kind = 1 ->
  forall ms pat wl,
  Forall msg_wf ms -> all_pos pat = true -> zlen (wire_of (k_enc kind) ms) < 2 ^ 63 ->
  roundtrip_model kind ms pat wl = roundtrip_spec kind ms.
Proof. exact op_Roundtrip. Qed.
Print Assumptions C06_op_roundtrip.

Theorem C06_op_roundtrip_empties : forall kind, kind = 0 \/ kind = 1 ->
  forall ms pat wl pos,
  Forall msg_wf ms -> all_pos pat = true -> all_nonneg pos = true ->
  zlen (wire_of (k_enc kind) ms) < 2 ^ 63 ->
  match model_wire kind ms with
  | None => VPanic
  | Some wire =>
      match c_Stream kind (insert_empties pos (chunks_of pat wire), term_of 0 wl) with
      | None => VPanic
      | Some (steps, r') => VL [vzs wire; VL (map v_step steps); vzs (rd_bytes r')]
      end
  end = VL [vzs (wire_of (k_enc kind) ms); VL (map v_step (frames_steps (k_enc kind) 0 ms)); vzs []].
Proof. exact op_Roundtrip_empties. Qed.
Print Assumptions C06_op_roundtrip_empties.

(** non-vacuity of "empty chunks": the reader returns (0, nil) before the first byte, at the
    header/body boundary and in the middle of the body *)
Example C06_empty_chunks_nonvacuous :
  let t := {| t_err := EEOF; t_with_last := true |} in
  let wire := frame [49; 46; 48] [7; 8; 9] in
  let cs := insert_empties [0; 2; 4; 4] (chunks_of [32; 1] wire) in
  cs = [[]; frame_header [49; 46; 48] 3; []; [7]; []; []; [8; 9]]
  /\ chunks_ok cs /\ concat cs = wire
  /\ c_Stream 0 (cs, t) = Some ([(35, [49; 46; 48], None, [7; 8; 9], 35); (0, [], Some EEOF, [], 35)], ([], t)).
Proof. vm_compute. repeat split; try reflexivity. discriminate. Qed.

Theorem C06_op_walk : forall kind, kind = 0 \/ kind = 1 ->
  forall ms pat wl,
  Forall msg_wf ms -> forallb (walk_body_ok kind) ms = true -> all_pos pat = true ->
  zlen (wire_of (k_enc kind) ms) < 2 ^ 63 ->
  match model_wire kind ms with
  | None => VPanic
  | Some wire => v_walk_model (chunks_of pat wire, term_of 0 wl)
  end = VL [VL (map v_wstep (frames_walk (k_enc kind) ms)); vzs []].
Proof. exact op_Walk_frames. Qed.
Print Assumptions C06_op_walk.

(** histories (pbcmpl.Roundtrip/session): every connection of a session - cut (dropped,
    clean EOF) or complete - reports what the specification says for the bytes that were
    delivered, independently of the connections before it *)
Theorem C06_op_session_connection : forall kind c,
  kind = 0 \/ kind = 1 ->
  let '(ms, pat, wl, cut) := c in
  Forall msg_wf ms -> all_pos pat = true -> zlen (wire_of (k_enc kind) ms) < 2 ^ 63 ->
  conn_model kind c
    = v_stream_spec kind EEOF (cut_wire cut (wire_of (k_enc kind) ms)) (term_of 0 wl).
Proof. exact conn_model_spec. Qed.
Print Assumptions C06_op_session_connection.

(** pbcmpl.Walk/bufio: the steps, and the headers HELD until the whole stream was walked,
    are those of the frames (a *bufio.Reader is transparent: the model runs on the chunk
    reader with the terminal error delivered alone) *)
Theorem C06_op_walk_bufio : forall kind ms pat,
  kind = 0 \/ kind = 1 ->
  Forall msg_wf ms -> forallb (walk_body_ok kind) ms = true -> all_pos pat = true ->
  zlen (wire_of (k_enc kind) ms) < 2 ^ 63 ->
  match model_wire kind ms with
  | None => VPanic
  | Some wire =>
      match c_Walk (chunks_of pat wire, term_of 0 false) with
      | None => VPanic
      | Some (steps, _) => v_walkheld steps
      end
  end = v_walkheld (frames_walk (k_enc kind) ms).
Proof. exact walk_bufio_spec. Qed.
Print Assumptions C06_op_walk_bufio.

(** pbcmpl.Roundtrip/big: the run-length form in which bodies above 1 MiB are compared
    denotes exactly the wire of the materialised messages (so the compared value is the
    one C06_op_roundtrip proves for them) *)
Theorem C06_big_wire : forall kind ms,
  Forall (fun m => 0 <= snd (fst m)) ms ->
  expand_runs (norm_runs (List.concat (map (big_frame_runs kind) ms)))
    = wire_of (k_enc kind) (map materialise ms).
Proof. exact big_wire_expand. Qed.
Print Assumptions C06_big_wire.

Example C06_sessions_nonvacuous :
  let m := (Some [49; 46; 48], [7; 8; 9]) in
  conn_model 0 ([m], [5], false, 34)
    = VL [VL [VL [VZ 34; vzs [49; 46; 48]; VZ 2; vzs []; VZ 34]]; vzs []]
  /\ conn_model 0 ([m], [5], false, -1)
    = VL [VL [VL [VZ 35; vzs [49; 46; 48]; VZ 0; vzs [7; 8; 9]; VZ 35];
              VL [VZ 0; vzs []; VZ 1; vzs []; VZ 35]]; vzs []]
  /\ big_roundtrip 1 [(None, 3, 7)]
    = VL [VL [VL [VZ 1; VZ 49]; VL [VZ 1; VZ 46]; VL [VZ 1; VZ 48]; VL [VZ 1; VZ 46]; VL [VZ 1; VZ 48];
              VL [VZ 11; VZ 0]; VL [VZ 1; VZ 32]; VL [VZ 7; VZ 0]; VL [VZ 1; VZ 5]; VL [VZ 7; VZ 0];
              VL [VZ 1; VZ 10]; VL [VZ 1; VZ 3]; VL [VZ 3; VZ 7]];
          VL [VL [VZ 37; VZ 0; VZ 37; VZ 32]];
          VL [VL [VZ 37; vzs [49; 46; 48; 46; 48]; VZ 0; VL [VL [VZ 3; VZ 7]]; VZ 37];
              VL [VZ 0; vzs []; VZ 1; VL []; VZ 37]];
          VL []].
Proof. vm_compute. repeat split; reflexivity. Qed.

(** non-vacuity: three frames (BytesValue bodies of 3, 0 and 200 bytes — the last one
    with a two-byte varint —, versions "1.2.3", none (DefaultVer) and 16 non-NUL bytes),
    marshalled, then read back through a reader that delivers 1, 7, 64, 1, 7, 64, ...
    bytes per Read and reports io.EOF together with the last chunk *)
Example C06_nonvacuous :
  let ms := [(Some [49; 46; 50; 46; 51], [1; 2; 3]);
             (None, []);
             (Some (repeat 120 16), repeat 7 200)] in
  let wire := wire_of (k_enc 1) ms in
  let t := {| t_err := EEOF; t_with_last := true |} in
  let cs := chunks_of [1; 7; 64] wire in
  forallb msg_ok ms = true
  /\ Forall msg_wf ms
  /\ chunks_ok cs /\ concat cs = wire /\ zlen wire = 37 + 32 + (32 + 203) /\ (length cs > 10)%nat
  /\ map (fun m => s_Marshal 1 [] (snd m) (fst m)) ms
       = map (fun m => Some (zlen (frame_of (k_enc 1) m), None, ([], frame_of (k_enc 1) m))) ms
  /\ c_Stream 1 (cs, t)
       = Some ([(37, [49; 46; 50; 46; 51], None, [1; 2; 3], 37);
                (32, [49; 46; 48; 46; 48], None, [], 69);
                (235, repeat 120 16, None, repeat 7 200, 304);
                (0, [], Some EEOF, [], 304)], ([], t))
  /\ c_ReadHeader (cs, t) <> None.
Proof.
  cbv zeta. split; [vm_compute; reflexivity|]. split.
  { repeat (apply Forall_cons;
      [split; [vm_compute; reflexivity|
       split; [apply bytes_okb_ok; vm_compute; reflexivity|
       split; [apply bytes_okb_ok; vm_compute; reflexivity|vm_compute; reflexivity]]]|]).
    apply Forall_nil. }
  split.
  { vm_compute. discriminate. }
  split; [vm_compute; reflexivity|]. split; [vm_compute; reflexivity|].
  split; [apply Nat.ltb_lt; vm_compute; reflexivity|].
  split; [vm_compute; reflexivity|]. split; [vm_compute; reflexivity|].
  vm_compute. discriminate.
Qed.
