(** C02 — Select is exact and inverse to rank (placeholder until Proofs/SelectProofs.v lands). *)
From Coq Require Import ZArith List Bool.
From Low Require Import Lib.Bits Lib.BitSeq Model.Rank Model.Select Spec.RankSpec Spec.SelectSpec.
Import ListNotations.
Open Scope Z_scope.

Lemma IndexSelect32R64_pair ws :
  IndexSelect32R64 ws = match IndexSelect32 ws with Some s => Some (s, IndexRank64 ws true) | None => None end.
Proof. reflexivity. Qed.

Theorem C02_IndexSelect32R64_partial : forall ws,
  IndexSelect32R64 ws = match IndexSelect32 ws with Some s => Some (s, IndexRank64 ws true) | None => None end.
Proof. exact IndexSelect32R64_pair. Qed.
Print Assumptions C02_IndexSelect32R64_partial.
