(** C02 — Select is exact and inverse to rank (Select32, Select32R64).
    Only the property theorems (each closed by [exact]), their axiom audit and
    non-vacuity examples.  Vocabulary (Spec/SelectSpec.v): [all_ones ws] is the ascending
    list of the positions of the 1-bits of the bitmap, [spec_Select ws i] =
    (its [i]-th element, its [i+1]-th element or [64 * len] when there is none),
    [spec_IndexSelect32 ws] = every 32nd element.  Positions are unbounded [Z] in the
    model; Go's int32 agrees while [64 * len(words) < 2^31] (DESIGN section 3).  No
    theorem below bounds the number of words, the density or [i]. *)
From Coq Require Import ZArith List Bool.
From Low Require Import Lib.Bits Lib.BitSeq Model.Rank Model.Select Spec.RankSpec Spec.SelectSpec
  Proofs.RankProofs Proofs.SelectProofs Proofs.SelectMain.
Import ListNotations.
Open Scope Z_scope.

(** the byte table, as [initSelectLookup] builds it: entry [8b+j] = position of the [j]-th
    1-bit of byte [b], 8 when there is none (all 2048 entries) *)
Theorem C02_select8Lookup : forall b j : nat, (b < 256)%nat -> (j < 8)%nat ->
  nth_error select8Lookup (8 * b + j) = Some (nth j (ones (bits 8 (Z.of_nat b))) 8).
Proof. exact select8Lookup_spec. Qed.
Print Assumptions C02_select8Lookup.

(** the in-word search (32/16/8 halving + both table-index expressions) returns the
    [k]-th 1-bit of ANY word *)
Theorem C02_select_in_word : forall w (k : nat) v, 0 <= w ->
  nth_error (ones (bits 64 w)) k = Some v -> select_in_word w (Z.of_nat k) = Some v.
Proof. exact select_in_word_spec. Qed.
Print Assumptions C02_select_in_word.

(** IndexSelect32 lists the position of every 32nd 1-bit: ceil(n/32) entries *)
Theorem C02_IndexSelect32 : forall ws,
  IndexSelect32 ws = Some (spec_IndexSelect32 ws).
Proof. exact IndexSelect32_exact. Qed.
Print Assumptions C02_IndexSelect32.

(** IndexSelect32R64 = (that select index, IndexRank64(words, true) = C01's rank index
    with the trailing grand total) *)
Theorem C02_IndexSelect32R64 : forall ws, words_ok ws ->
  IndexSelect32R64 ws = Some (spec_IndexSelect32 ws, spec_IndexRank64 ws true).
Proof. exact IndexSelect32R64_exact. Qed.
Print Assumptions C02_IndexSelect32R64.

Theorem C02_IndexSelect32R64_components : forall ws,
  IndexSelect32R64 ws =
  match IndexSelect32 ws with Some s => Some (s, IndexRank64 ws true) | None => None end.
Proof. exact (fun ws => eq_refl). Qed.
Print Assumptions C02_IndexSelect32R64_components.

(** Select32 with the index IndexSelect32 built, for every valid [i] (including the last
    1-bit, where the second component is [64 * len]) *)
Theorem C02_Select32 : forall ws sidx i, words_ok ws -> IndexSelect32 ws = Some sidx ->
  0 <= i < zlen (all_ones ws) ->
  Select32 ws sidx i = Some (spec_Select ws i).
Proof. exact Select32_indexed. Qed.
Print Assumptions C02_Select32.

(** Select32R64 with the two indexes IndexSelect32R64 built *)
Theorem C02_Select32R64 : forall ws sidx ridx i, words_ok ws ->
  IndexSelect32R64 ws = Some (sidx, ridx) -> 0 <= i < zlen (all_ones ws) ->
  Select32R64 ws sidx ridx i = Some (spec_Select ws i).
Proof. exact Select32R64_indexed. Qed.
Print Assumptions C02_Select32R64.

(** hence: the selected position is inside the bitmap, exactly [i] 1-bits precede it
    (rank (select i) = i) and the selected bit is 1 *)
Theorem C02_rank_select : forall ws i, 0 <= i < zlen (all_ones ws) ->
  let a := fst (spec_Select ws i) in
  0 <= a < 64 * zlen ws /\ rank1z (flat ws) a = i /\ bitz (flat ws) a = true.
Proof. exact spec_Select_fst. Qed.
Print Assumptions C02_rank_select.

(** the second component is strictly after the first, at most [64 * len], the rank there is
    [i + 1] (so no 1-bit lies strictly between them), and it is a 1-bit unless it is [64 * len] *)
Theorem C02_next_one : forall ws i, 0 <= i < zlen (all_ones ws) ->
  let a := fst (spec_Select ws i) in
  let b := snd (spec_Select ws i) in
  a < b <= 64 * zlen ws /\ rank1z (flat ws) b = i + 1 /\
  (b < 64 * zlen ws -> bitz (flat ws) b = true).
Proof. exact spec_Select_snd. Qed.
Print Assumptions C02_next_one.

(** and conversely the position with bit 1 and rank [i] is unique: [spec_Select] is not
    "some list function", it is the property's "position of the i-th 1-bit" *)
Theorem C02_select_unique : forall ws i a, 0 <= a -> bitz (flat ws) a = true ->
  rank1z (flat ws) a = i ->
  0 <= i < zlen (all_ones ws) /\ fst (spec_Select ws i) = a.
Proof. exact spec_Select_unique. Qed.
Print Assumptions C02_select_unique.

(** the library's own rank (C01's model) applied to the library's select returns [i] and bit 1 *)
Theorem C02_Rank64_of_Select32 : forall ws tr sidx i a b, words_ok ws ->
  IndexSelect32 ws = Some sidx -> 0 <= i < zlen (all_ones ws) ->
  Select32 ws sidx i = Some (a, b) ->
  Rank64 ws (IndexRank64 ws tr) a = Some (i, 1).
Proof. exact Rank64_Select32. Qed.
Print Assumptions C02_Rank64_of_Select32.

Theorem C02_Rank64_of_Select32R64 : forall ws tr sidx ridx i a b, words_ok ws ->
  IndexSelect32R64 ws = Some (sidx, ridx) -> 0 <= i < zlen (all_ones ws) ->
  Select32R64 ws sidx ridx i = Some (a, b) ->
  Rank64 ws (IndexRank64 ws tr) a = Some (i, 1).
Proof. exact Rank64_Select32R64. Qed.
Print Assumptions C02_Rank64_of_Select32R64.

(** non-vacuity.  A four-word bitmap with 35 1-bits: word 0 has 33 of them (so the second
    checkpoint, the 32nd 1-bit, lies INSIDE word 0 and the masked first word is exercised),
    word 1 is empty (word skipping), word 2 has one 1-bit in its top byte (the 32/16/8 halving
    takes every upper half and the [(ww>>5)&0x7f8] table expression), word 3 has bit 0 set.
    i = 33: found after skipping a word, next 1 in a later word; i = 34: the last 1-bit, the
    second component is 64*4; i = 31 / 32: around the checkpoint. *)
Definition c02_ex : list Z := [2^33 - 1; 0; 2^63; 1].

Example C02_index_nonvacuous :
  words_ok c02_ex /\ zlen (all_ones c02_ex) = 35 /\
  IndexSelect32 c02_ex = Some [0; 32] /\
  IndexSelect32R64 c02_ex = Some ([0; 32], [0; 33; 33; 34; 35]).
Proof.
  split; [apply words_okb_ok; reflexivity|].
  vm_compute. intuition congruence.
Qed.

Example C02_select_nonvacuous :
  words_ok c02_ex /\ 0 <= 33 < zlen (all_ones c02_ex) /\ 0 <= 34 < zlen (all_ones c02_ex) /\
  Select32 c02_ex [0; 32] 31 = Some (31, 32) /\
  Select32 c02_ex [0; 32] 32 = Some (32, 191) /\
  Select32 c02_ex [0; 32] 33 = Some (191, 192) /\
  Select32 c02_ex [0; 32] 34 = Some (192, 256) /\
  Select32R64 c02_ex [0; 32] [0; 33; 33; 34; 35] 33 = Some (191, 192) /\
  Select32R64 c02_ex [0; 32] [0; 33; 33; 34; 35] 34 = Some (192, 256) /\
  spec_Select c02_ex 33 = (191, 192) /\ spec_Select c02_ex 34 = (192, 256).
Proof.
  split; [apply words_okb_ok; reflexivity|].
  vm_compute. intuition congruence.
Qed.

Example C02_rank_select_nonvacuous :
  rank1z (flat c02_ex) 191 = 33 /\ bitz (flat c02_ex) 191 = true /\
  Rank64 c02_ex (IndexRank64 c02_ex true) 191 = Some (33, 1) /\
  select_in_word (2^63) 0 = Some 63 /\
  nth_error select8Lookup (8 * 128 + 0) = Some 7.
Proof. vm_compute. intuition congruence. Qed.

(** * widened: the library's select composed with the library's rank (Rank64 / Rank128 of C01)

    [spec_SelectFrom ws p] (Spec/SelectRankSpec.v) = (first 1-bit at position >= p, the 1-bit
    after it or [64 * len]), by filtering the list of 1-positions. *)
From Low Require Import Spec.SelectRankSpec Proofs.SelectRank.

(** rank (select i) = i also through Rank128 *)
Theorem C02_Rank128_of_Select32 : forall ws sidx i a b, words_ok ws ->
  IndexSelect32 ws = Some sidx -> 0 <= i < zlen (all_ones ws) ->
  Select32 ws sidx i = Some (a, b) ->
  Rank128 ws (IndexRank128 ws) a = Some (i, 1).
Proof. exact Rank128_Select32. Qed.
Print Assumptions C02_Rank128_of_Select32.

Theorem C02_Rank128_of_Select32R64 : forall ws sidx ridx i a b, words_ok ws ->
  IndexSelect32R64 ws = Some (sidx, ridx) -> 0 <= i < zlen (all_ones ws) ->
  Select32R64 ws sidx ridx i = Some (a, b) ->
  Rank128 ws (IndexRank128 ws) a = Some (i, 1).
Proof. exact Rank128_Select32R64. Qed.
Print Assumptions C02_Rank128_of_Select32R64.

(** select (rank p) = the first 1-bit at or after p (and the one after it), for ANY position p
    that has a 1-bit at or after it — p need not be a 1-bit *)
Theorem C02_Select32_of_Rank64 : forall ws tr sidx p r b, words_ok ws ->
  IndexSelect32 ws = Some sidx -> 0 <= p < 64 * zlen ws ->
  Rank64 ws (IndexRank64 ws tr) p = Some (r, b) -> r < zlen (all_ones ws) ->
  Select32 ws sidx r = Some (spec_SelectFrom ws p).
Proof. exact Select32_after_Rank64. Qed.
Print Assumptions C02_Select32_of_Rank64.

Theorem C02_Select32R64_of_Rank128 : forall ws sidx ridx p r b, words_ok ws ->
  IndexSelect32R64 ws = Some (sidx, ridx) -> 0 <= p < 64 * zlen ws ->
  Rank128 ws (IndexRank128 ws) p = Some (r, b) -> r < zlen (all_ones ws) ->
  Select32R64 ws sidx ridx r = Some (spec_SelectFrom ws p).
Proof. exact Select32R64_after_Rank128. Qed.
Print Assumptions C02_Select32R64_of_Rank128.

(** the value [spec_SelectFrom] names is the least 1-position >= p: it is >= p, a 1-bit, every
    position in between is 0, and it is p itself when p is a 1-bit (select (rank p) = p) *)
Theorem C02_select_of_rank_least : forall ws p, 0 <= p ->
  rank1z (flat ws) p < zlen (all_ones ws) ->
  let a := fst (spec_Select ws (rank1z (flat ws) p)) in
  p <= a < 64 * zlen ws /\ bitz (flat ws) a = true /\
  (forall q, p <= q < a -> bitz (flat ws) q = false) /\
  (bitz (flat ws) p = true -> a = p).
Proof. exact select_after_rank_least. Qed.
Print Assumptions C02_select_of_rank_least.

Theorem C02_SelectFrom_is_select_of_rank : forall ws p, 0 <= p <= 64 * zlen ws ->
  rank1z (flat ws) p < zlen (all_ones ws) ->
  spec_Select ws (rank1z (flat ws) p) = spec_SelectFrom ws p.
Proof. exact select_after_rank. Qed.
Print Assumptions C02_SelectFrom_is_select_of_rank.

(** non-vacuity: p = 64 is a 0-bit with a whole empty word and 63 more 0-bits before the next
    1-bit (position 191); p = 191 is that 1-bit itself; p = 192 is the last 1-bit *)
Example C02_select_of_rank_nonvacuous :
  0 <= 64 < 64 * zlen c02_ex /\
  Rank64 c02_ex (IndexRank64 c02_ex true) 64 = Some (33, 0) /\ 33 < zlen (all_ones c02_ex) /\
  Select32 c02_ex [0; 32] 33 = Some (191, 192) /\ spec_SelectFrom c02_ex 64 = (191, 192) /\
  Rank128 c02_ex (IndexRank128 c02_ex) 191 = Some (33, 1) /\ spec_SelectFrom c02_ex 191 = (191, 192) /\
  Rank128 c02_ex (IndexRank128 c02_ex) 192 = Some (34, 1) /\
  Select32R64 c02_ex [0; 32] [0; 33; 33; 34; 35] 34 = Some (192, 256) /\
  spec_SelectFrom c02_ex 192 = (192, 256).
Proof. vm_compute. intuition congruence. Qed.

(** * widened: select against NextOne (C13's model, Model/BitmapNext.v) *)
From Low Require Import Model.BitmapNext Proofs.SelectNext.

(** NextOne over the whole rest of the bitmap = select of the rank there (or -1 when the rank
    is already the total number of 1-bits) *)
Theorem C02_NextOne_is_select_of_rank : forall ws p, words_ok ws -> 0 <= p < 64 * zlen ws ->
  NextOne ws p (64 * zlen ws) =
  Some (if rank1z (flat ws) p <? zlen (all_ones ws)
        then fst (spec_Select ws (rank1z (flat ws) p)) else -1).
Proof. exact NextOne_select_of_rank. Qed.
Print Assumptions C02_NextOne_is_select_of_rank.

(** ... stated over the three library functions as they are called *)
Theorem C02_NextOne_is_Select32_of_Rank64 : forall ws tr sidx p r b a c, words_ok ws ->
  IndexSelect32 ws = Some sidx -> 0 <= p < 64 * zlen ws ->
  Rank64 ws (IndexRank64 ws tr) p = Some (r, b) -> r < zlen (all_ones ws) ->
  Select32 ws sidx r = Some (a, c) ->
  NextOne ws p (64 * zlen ws) = Some a.
Proof. exact NextOne_is_Select32_of_Rank64. Qed.
Print Assumptions C02_NextOne_is_Select32_of_Rank64.

Theorem C02_NextOne_none_when_rank_total : forall ws tr p r b, words_ok ws ->
  0 <= p < 64 * zlen ws ->
  Rank64 ws (IndexRank64 ws tr) p = Some (r, b) -> zlen (all_ones ws) <= r ->
  NextOne ws p (64 * zlen ws) = Some (-1).
Proof. exact NextOne_none_iff_rank_total. Qed.
Print Assumptions C02_NextOne_none_when_rank_total.

(** the second component of a select result is what NextOne finds from just after the first
    (NextOne's -1 corresponds to select's 64 * len) *)
Theorem C02_Select32_then_NextOne : forall ws sidx i a b, words_ok ws ->
  IndexSelect32 ws = Some sidx -> 0 <= i < zlen (all_ones ws) ->
  Select32 ws sidx i = Some (a, b) -> a + 1 < 64 * zlen ws ->
  NextOne ws (a + 1) (64 * zlen ws) = Some (if b <? 64 * zlen ws then b else -1).
Proof. exact Select32_then_NextOne. Qed.
Print Assumptions C02_Select32_then_NextOne.

Theorem C02_Select32R64_then_NextOne : forall ws sidx ridx i a b, words_ok ws ->
  IndexSelect32R64 ws = Some (sidx, ridx) -> 0 <= i < zlen (all_ones ws) ->
  Select32R64 ws sidx ridx i = Some (a, b) -> a + 1 < 64 * zlen ws ->
  NextOne ws (a + 1) (64 * zlen ws) = Some (if b <? 64 * zlen ws then b else -1).
Proof. exact Select32R64_then_NextOne. Qed.
Print Assumptions C02_Select32R64_then_NextOne.

Example C02_NextOne_nonvacuous :
  0 <= 64 < 64 * zlen c02_ex /\ NextOne c02_ex 64 256 = Some 191 /\
  Select32 c02_ex [0; 32] 33 = Some (191, 192) /\ 191 + 1 < 64 * zlen c02_ex /\
  NextOne c02_ex 192 256 = Some 192 /\
  Select32 c02_ex [0; 32] 34 = Some (192, 256) /\ NextOne c02_ex 193 256 = Some (-1) /\
  Rank64 c02_ex (IndexRank64 c02_ex true) 193 = Some (35, 0) /\ zlen (all_ones c02_ex) = 35.
Proof. vm_compute. intuition congruence. Qed.

(** * widened: select against ToArray (toarray.go, model in Model/BitmapOf.v) *)
From Low Require Import Model.BitmapOf Proofs.SelectToArray.

(** ToArray returns the ascending list of the 1-positions (the vocabulary of every theorem above) *)
Theorem C02_ToArray_is_all_ones : forall ws, ToArray ws = Some (all_ones ws).
Proof. exact c02_ToArray_all_ones. Qed.
Print Assumptions C02_ToArray_is_all_ones.

(** Select32 / Select32R64 with index i return elements i and i+1 of what ToArray returns *)
Theorem C02_Select32_nth_ToArray : forall ws sidx ta i, words_ok ws ->
  IndexSelect32 ws = Some sidx -> ToArray ws = Some ta -> 0 <= i < zlen ta ->
  Select32 ws sidx i =
  Some (nth (Z.to_nat i) ta 0, if i + 1 <? zlen ta then nth (Z.to_nat (i + 1)) ta 0 else 64 * zlen ws).
Proof. exact Select32_nth_ToArray. Qed.
Print Assumptions C02_Select32_nth_ToArray.

Theorem C02_Select32R64_nth_ToArray : forall ws sidx ridx ta i, words_ok ws ->
  IndexSelect32R64 ws = Some (sidx, ridx) -> ToArray ws = Some ta -> 0 <= i < zlen ta ->
  Select32R64 ws sidx ridx i =
  Some (nth (Z.to_nat i) ta 0, if i + 1 <? zlen ta then nth (Z.to_nat (i + 1)) ta 0 else 64 * zlen ws).
Proof. exact Select32R64_nth_ToArray. Qed.
Print Assumptions C02_Select32R64_nth_ToArray.

(** the select index is every 32nd element of ToArray *)
Theorem C02_IndexSelect32_of_ToArray : forall ws ta, ToArray ws = Some ta ->
  IndexSelect32 ws = Some (map (fun k => nth (32 * k) ta 0) (seq 0 ((length ta + 31) / 32))).
Proof. exact IndexSelect32_of_ToArray. Qed.
Print Assumptions C02_IndexSelect32_of_ToArray.

Example C02_ToArray_nonvacuous :
  ToArray [5; 0; 2^63] = Some [0; 2; 191] /\ IndexSelect32 [5; 0; 2^63] = Some [0] /\
  Select32 [5; 0; 2^63] [0] 1 = Some (2, 191) /\ Select32 [5; 0; 2^63] [0] 2 = Some (191, 192) /\
  zlen (all_ones c02_ex) = 35 /\ IndexSelect32 c02_ex = Some [0; 32].
Proof. vm_compute. intuition congruence. Qed.

(** * range and monotonicity *)
From Low Require Import Proofs.SelectExtra.

(** under the size hypothesis [64 * len(words) < 2^31] every value involved fits Go's int32, so
    the unbounded-[Z] statements above are statements about the int32 results *)
Theorem C02_results_fit_int32 : forall ws i, 64 * zlen ws < 2 ^ 31 -> 0 <= i < zlen (all_ones ws) ->
  0 <= fst (spec_Select ws i) < 2 ^ 31 /\ 0 <= snd (spec_Select ws i) < 2 ^ 31 /\ 0 <= i < 2 ^ 31.
Proof. exact spec_Select_int32. Qed.
Print Assumptions C02_results_fit_int32.

Theorem C02_index_fits_int32 : forall ws x, 64 * zlen ws < 2 ^ 31 ->
  In x (spec_IndexSelect32 ws) -> 0 <= x < 2 ^ 31.
Proof. exact spec_IndexSelect32_int32. Qed.
Print Assumptions C02_index_fits_int32.

(** select is strictly increasing in i *)
Theorem C02_select_increasing : forall ws i j, 0 <= i -> i < j < zlen (all_ones ws) ->
  fst (spec_Select ws i) < fst (spec_Select ws j).
Proof. exact spec_Select_increasing. Qed.
Print Assumptions C02_select_increasing.

Example C02_range_nonvacuous :
  64 * zlen c02_ex < 2 ^ 31 /\ 0 <= 32 /\ 32 < 33 < zlen (all_ones c02_ex) /\
  fst (spec_Select c02_ex 32) = 32 /\ fst (spec_Select c02_ex 33) = 191 /\
  In 32 (spec_IndexSelect32 c02_ex).
Proof. vm_compute. intuition congruence. Qed.

(** * widened: select against PrevOne (C13's model) *)
From Low Require Import Proofs.SelectPrev.

(** the last 1-bit before the i-th 1-bit is the (i-1)-th; there is none before the 0-th *)
Theorem C02_PrevOne_before_select : forall ws i, words_ok ws -> 0 <= i < zlen (all_ones ws) ->
  let a := fst (spec_Select ws i) in
  1 <= a ->
  PrevOne ws 0 a = Some (if 0 <? i then fst (spec_Select ws (i - 1)) else -1).
Proof. exact PrevOne_before_select. Qed.
Print Assumptions C02_PrevOne_before_select.

Theorem C02_Select32_then_PrevOne : forall ws sidx i a b, words_ok ws ->
  IndexSelect32 ws = Some sidx -> 0 <= i < zlen (all_ones ws) ->
  Select32 ws sidx i = Some (a, b) -> 1 <= a ->
  PrevOne ws 0 a =
  match (if 0 <? i then Select32 ws sidx (i - 1) else Some (-1, 0)) with
  | Some (r, _) => Some r
  | None => None
  end.
Proof. exact Select32_then_PrevOne. Qed.
Print Assumptions C02_Select32_then_PrevOne.

Theorem C02_Select32R64_then_PrevOne : forall ws sidx ridx i a b, words_ok ws ->
  IndexSelect32R64 ws = Some (sidx, ridx) -> 0 <= i < zlen (all_ones ws) ->
  Select32R64 ws sidx ridx i = Some (a, b) -> 1 <= a ->
  PrevOne ws 0 a =
  match (if 0 <? i then Select32R64 ws sidx ridx (i - 1) else Some (-1, 0)) with
  | Some (r, _) => Some r
  | None => None
  end.
Proof. exact Select32R64_then_PrevOne. Qed.
Print Assumptions C02_Select32R64_then_PrevOne.

Example C02_PrevOne_nonvacuous :
  0 <= 33 < zlen (all_ones c02_ex) /\ fst (spec_Select c02_ex 33) = 191 /\
  PrevOne c02_ex 0 191 = Some 32 /\ Select32 c02_ex [0; 32] 32 = Some (32, 191) /\
  PrevOne [2^63; 2] 0 63 = Some (-1) /\ Select32 [2^63; 2] [63] 0 = Some (63, 65) /\
  PrevOne [2^63; 2] 0 65 = Some 63.
Proof. vm_compute. intuition congruence. Qed.

(** * very large bitmaps: what the run-length-encoded operations evaluate IS the model's output

    For bitmaps of 2^15 .. 140 000 words the operations [bitmap.Select32/rle], [bitmap.Select32R64/rle],
    [bitmap.IndexSelect32/rle], [bitmap.IndexSelect32R64/rle] (Run/C02.v) evaluate the linear-time
    [lin_Select] / [lin_IndexSelect32] of Spec/SelectLinSpec.v (one pass over the words carrying the running
    count) because the faithful model is quadratic in the number of words.  These theorems say that nothing is
    lost: on the whole domain it is the model's output and the specification value. *)
From Low Require Import Spec.SelectLinSpec Proofs.SelectLin.

Theorem C02_rle_run_is_model_Select32 : forall ws sidx i, words_ok ws -> IndexSelect32 ws = Some sidx ->
  0 <= i < zlen (all_ones ws) ->
  lin_Select ws i = Select32 ws sidx i.
Proof. exact lin_Select_is_Select32. Qed.
Print Assumptions C02_rle_run_is_model_Select32.

Theorem C02_rle_run_is_model_Select32R64 : forall ws sidx ridx i, words_ok ws ->
  IndexSelect32R64 ws = Some (sidx, ridx) -> 0 <= i < zlen (all_ones ws) ->
  lin_Select ws i = Select32R64 ws sidx ridx i.
Proof. exact lin_Select_is_Select32R64. Qed.
Print Assumptions C02_rle_run_is_model_Select32R64.

Theorem C02_rle_run_is_model_IndexSelect32 : forall ws, words_ok ws ->
  IndexSelect32 ws = Some (lin_IndexSelect32 ws).
Proof. exact lin_IndexSelect32_is_model. Qed.
Print Assumptions C02_rle_run_is_model_IndexSelect32.

(** ... and the specification value; outside the domain the linear evaluator says so ([None], a tool error
    of the generator, never a verdict) *)
Theorem C02_rle_run_is_spec : forall ws i, words_ok ws -> 0 <= i < zlen (all_ones ws) ->
  lin_Select ws i = Some (spec_Select ws i).
Proof. exact lin_Select_spec. Qed.
Print Assumptions C02_rle_run_is_spec.

Theorem C02_rle_run_domain : forall ws i, words_ok ws ->
  ~ (0 <= i < zlen (all_ones ws)) -> lin_Select ws i = None.
Proof. exact lin_Select_None. Qed.
Print Assumptions C02_rle_run_domain.

Theorem C02_rle_index_is_spec : forall ws, words_ok ws -> lin_IndexSelect32 ws = spec_IndexSelect32 ws.
Proof. exact lin_IndexSelect32_spec. Qed.
Print Assumptions C02_rle_index_is_spec.

Example C02_rle_nonvacuous :
  c02_expand_rle [(1, 2^33 - 1); (1, 0); (1, 2^63); (1, 1)] = c02_ex /\
  lin_Select c02_ex 33 = Some (191, 192) /\ lin_Select c02_ex 34 = Some (192, 256) /\
  lin_Select c02_ex 35 = None /\ lin_IndexSelect32 c02_ex = [0; 32] /\
  lin_IndexSelect32 (c02_expand_rle [(3, 2^64 - 1)]) = [0; 32; 64; 96; 128; 160] /\
  c02_index_rle [0; 32; 64; 96; 128; 160] = [(1, 0); (5, 32)].
Proof. vm_compute. intuition congruence. Qed.

(** * widened: the UNEXPORTED select helpers of bitmap/select.go

    [select32single] (single-result variant of Select32), [indexSelectU64] (the eight cumulative byte popcounts of
    one word packed into a uint64) and [selectU64Indexed] (select inside one word through that packed index) are
    not reachable through the exported API; the harness reaches them through the build-tag-guarded hook file
    bitmap/verif_export.go.  Models: Model/SelectU64.v (uint64 arithmetic with explicit wraps).  Vocabulary
    (Spec/SelectU64Spec.v): positions of 1-bits ([all_ones], [ones (bits 64 w)]) and [rank1].  Every theorem about
    the two uint64 helpers holds for EVERY word [0 <= w < 2^64]. *)
From Low Require Import Lib.MachInt Model.SelectU64 Spec.SelectU64Spec Proofs.SelectU64Index Proofs.SelectU64Indexed
  Proofs.SelectU64Single Proofs.SelectU64Misc.

(** select32single with the index IndexSelect32 built: the position of the [i]-th 1-bit *)
Theorem C02_select32single : forall ws sidx i, words_ok ws -> IndexSelect32 ws = Some sidx ->
  0 <= i < zlen (all_ones ws) ->
  select32single ws sidx i = Some (fst (spec_Select ws i)).
Proof. exact select32single_domain. Qed.
Print Assumptions C02_select32single.

(** ... which is the first component of what Select32 returns on the same arguments *)
Theorem C02_select32single_is_fst_Select32 : forall ws sidx i, words_ok ws -> IndexSelect32 ws = Some sidx ->
  0 <= i < zlen (all_ones ws) ->
  select32single ws sidx i = option_map fst (Select32 ws sidx i).
Proof. exact select32single_fst_Select32. Qed.
Print Assumptions C02_select32single_is_fst_Select32.

(** for EVERY [i] (the function is total): -1 below the domain, [64 * len] above it — by the early return when
    [i >> 5] is beyond the index, or because the word loop runs off the end of the bitmap *)
Theorem C02_select32single_total : forall ws sidx i, words_ok ws -> IndexSelect32 ws = Some sidx ->
  select32single ws sidx i = Some (spec_select32single ws i).
Proof. exact select32single_indexed. Qed.
Print Assumptions C02_select32single_total.

Theorem C02_select32single_sentinels : forall ws sidx i, words_ok ws -> IndexSelect32 ws = Some sidx ->
  (i < 0 -> select32single ws sidx i = Some (-1)) /\
  (zlen (all_ones ws) <= i -> select32single ws sidx i = Some (64 * zlen ws)).
Proof. exact select32single_sentinels. Qed.
Print Assumptions C02_select32single_sentinels.

(** under the size hypothesis [64 * len(words) < 2^31] the result (position or sentinel) fits Go's int32, so the
    unbounded-[Z] statements above are statements about the int32 result *)
Theorem C02_select32single_fits_int32 : forall ws i, 64 * zlen ws < 2 ^ 31 ->
  -1 <= spec_select32single ws i <= 64 * zlen ws /\ - 2 ^ 31 <= spec_select32single ws i < 2 ^ 31.
Proof. exact spec_select32single_int32. Qed.
Print Assumptions C02_select32single_fits_int32.

(** its in-word search (three halvings, one table-index expression) finds the [k]-th 1-bit of ANY word *)
Theorem C02_single_in_word : forall w (k : nat) v base, 0 <= w ->
  nth_error (ones (bits 64 w)) k = Some v -> single_in_word w (Z.of_nat k) base = Some (base + v).
Proof. exact single_in_word_spec. Qed.
Print Assumptions C02_single_in_word.

(** the run-length-encoded operation [bitmap.select32single/rle] evaluates the linear [lin_Select]: it is the model's output *)
Theorem C02_rle_run_is_model_select32single : forall ws sidx i, words_ok ws -> IndexSelect32 ws = Some sidx ->
  0 <= i < zlen (all_ones ws) ->
  option_map fst (lin_Select ws i) = select32single ws sidx i.
Proof. exact lin_Select_is_select32single. Qed.
Print Assumptions C02_rle_run_is_model_select32single.

Example C02_select32single_nonvacuous :
  words_ok c02_ex /\ IndexSelect32 c02_ex = Some [0; 32] /\ zlen (all_ones c02_ex) = 35 /\
  select32single c02_ex [0; 32] 31 = Some 31 /\ select32single c02_ex [0; 32] 32 = Some 32 /\
  select32single c02_ex [0; 32] 33 = Some 191 /\ select32single c02_ex [0; 32] 34 = Some 192 /\
  select32single c02_ex [0; 32] 35 = Some 256 /\ select32single c02_ex [0; 32] 64 = Some 256 /\
  select32single c02_ex [0; 32] (-1) = Some (-1) /\
  Select32 c02_ex [0; 32] 33 = Some (191, 192) /\ single_in_word (2^63) 0 128 = Some 191 /\
  option_map fst (lin_Select c02_ex 33) = Some 191.
Proof.
  split; [apply words_okb_ok; reflexivity|].
  vm_compute. intuition congruence.
Qed.

(** indexSelectU64, every word: byte field [j] (0 = least significant) is 0x80 + the number of 1-bits among the
    lowest [8 (j + 1)] bits *)
Theorem C02_indexSelectU64_fields : forall w (j : nat), 0 <= w < 2 ^ 64 -> (j < 8)%nat ->
  (indexSelectU64 w / 2 ^ (8 * Z.of_nat j)) mod 2 ^ 8 = 128 + rank1 (bits 64 w) (8 * (j + 1)).
Proof. exact indexSelectU64_field. Qed.
Print Assumptions C02_indexSelectU64_fields.

(** ... and nothing else: the whole 64-bit value *)
Theorem C02_indexSelectU64 : forall w, 0 <= w < 2 ^ 64 -> indexSelectU64 w = spec_indexSelectU64 w.
Proof. exact indexSelectU64_spec. Qed.
Print Assumptions C02_indexSelectU64.

Theorem C02_indexSelectU64_range : forall w, 0 <= w < 2 ^ 64 -> 0 <= indexSelectU64 w < 2 ^ 64.
Proof. exact indexSelectU64_range. Qed.
Print Assumptions C02_indexSelectU64_range.

Example C02_indexSelectU64_nonvacuous :
  indexSelectU64 0 = 0x8080808080808080 /\ indexSelectU64 (2^64 - 1) = 0xc0b8b0a8a0989088 /\
  indexSelectU64 (2^63 + 5) = 0x8382828282828282 /\ spec_indexSelectU64 (2^63 + 5) = 0x8382828282828282 /\
  (indexSelectU64 (2^63 + 5) / 2 ^ (8 * Z.of_nat 7)) mod 2 ^ 8 = 128 + 3 /\ rank1 (bits 64 (2^63 + 5)) 64 = 3 /\
  (* the multiplication really wraps: 8 bytes of 8 sum to 0x...4038302820181008 * only after the high half is cut *)
  8 * 0x0101010101010101 * 0x0101010101010101 >= 2 ^ 64.
Proof. vm_compute. intuition congruence. Qed.

(** selectU64Indexed with the index of the same word, every word, every [k] below its number of 1-bits:
    (position of the [k]-th 1-bit, 0) *)
Theorem C02_selectU64Indexed : forall w k, 0 <= w < 2 ^ 64 -> 0 <= k < zlen (ones (bits 64 w)) ->
  selectU64Indexed w (indexSelectU64 w) k = Some (nth (Z.to_nat k) (ones (bits 64 w)) 0, 0).
Proof. exact selectU64Indexed_exact. Qed.
Print Assumptions C02_selectU64Indexed.

(** the same with the domain written with the model of math/bits.OnesCount64, and the value as the spec names it *)
Theorem C02_selectU64Indexed_popcount : forall w k, 0 <= w < 2 ^ 64 -> 0 <= k < popcount w ->
  selectU64Indexed w (indexSelectU64 w) k = Some (spec_selectU64 w k).
Proof. exact selectU64Indexed_spec. Qed.
Print Assumptions C02_selectU64Indexed_popcount.

(** what that position is: inside the word, a 1-bit, with exactly [k] 1-bits below it (select is inverse to rank);
    the second result is 0 *)
Theorem C02_selectU64Indexed_position : forall w k p q, 0 <= w < 2 ^ 64 -> 0 <= k < zlen (ones (bits 64 w)) ->
  selectU64Indexed w (indexSelectU64 w) k = Some (p, q) ->
  0 <= p < 64 /\ Z.testbit w p = true /\ rank1 (bits 64 w) (Z.to_nat p) = k /\ q = 0.
Proof. exact selectU64Indexed_position. Qed.
Print Assumptions C02_selectU64Indexed_position.

(** the two in-word searches of the package agree: it is Select32's first result on the one-word bitmap *)
Theorem C02_selectU64Indexed_is_Select32 : forall w sidx k, 0 <= w < 2 ^ 64 -> IndexSelect32 [w] = Some sidx ->
  0 <= k < zlen (ones (bits 64 w)) ->
  option_map fst (selectU64Indexed w (indexSelectU64 w) k) = option_map fst (Select32 [w] sidx k).
Proof. exact selectU64Indexed_is_Select32. Qed.
Print Assumptions C02_selectU64Indexed_is_Select32.

(** OUTSIDE the domain, as the code has it (a theorem about the model; the implementation is never compared there):
    for [popcount w <= k <= 127] the table is read at the unrelated index [k - popcount w] and 64 is added — a
    "position" in [64, 72], never inside the word *)
Theorem C02_selectU64Indexed_beyond_model : forall w k, 0 <= w < 2 ^ 64 -> popcount w <= k <= 127 ->
  let v := nth (Z.to_nat (k - popcount w)) select8Lookup 0 in
  selectU64Indexed w (indexSelectU64 w) k = Some (64 + v, 0) /\ 0 <= v <= 8.
Proof. exact selectU64Indexed_beyond. Qed.
Print Assumptions C02_selectU64Indexed_beyond_model.

Example C02_selectU64Indexed_nonvacuous :
  zlen (ones (bits 64 (2^63 + 5))) = 3 /\ popcount (2^63 + 5) = 3 /\
  selectU64Indexed (2^63 + 5) (indexSelectU64 (2^63 + 5)) 0 = Some (0, 0) /\
  selectU64Indexed (2^63 + 5) (indexSelectU64 (2^63 + 5)) 1 = Some (2, 0) /\
  selectU64Indexed (2^63 + 5) (indexSelectU64 (2^63 + 5)) 2 = Some (63, 0) /\
  selectU64Indexed (2^63 + 5) (indexSelectU64 (2^63 + 5)) 3 = Some (72, 0) /\
  selectU64Indexed (2^64 - 1) (indexSelectU64 (2^64 - 1)) 63 = Some (63, 0) /\
  selectU64Indexed (2^64 - 1) (indexSelectU64 (2^64 - 1)) 40 = Some (40, 0) /\
  Z.testbit (2^63 + 5) 63 = true /\ rank1 (bits 64 (2^63 + 5)) 63 = 2 /\
  Select32 [2^63 + 5] [0] 2 = Some (63, 64).
Proof. vm_compute. intuition congruence. Qed.

(** the rows of the byte table as [bitmap.select8Lookup/row] reads them: all 256 *)
Theorem C02_select8Lookup_rows : forall b, 0 <= b < 256 ->
  firstn 8 (skipn (Z.to_nat (8 * b)) select8Lookup) = spec_select8_row b.
Proof. exact select8Lookup_row. Qed.
Print Assumptions C02_select8Lookup_rows.

(** * sessions on ONE held buffer ([bitmap.Select32R64/session], Run/C02.v): queries interleaved with in-place writes
      followed by a re-index, histories of any length: the model's observations are the specification's, step by step *)
From Low Require Import Lib.Val.
From Low Require Run.C02.

Theorem C02_session_model_is_spec : forall steps ws, words_ok ws ->
  ~ In VBad (Run.C02.c02_session_run Run.C02.c02_session_model_sel ws steps) ->
  Run.C02.c02_session_run Run.C02.c02_session_model_sel ws steps =
  Run.C02.c02_session_run Run.C02.c02_session_spec_sel ws steps.
Proof. exact session_model_is_spec. Qed.
Print Assumptions C02_session_model_is_spec.

Example C02_session_nonvacuous :
  Run.C02.c02_session_run Run.C02.c02_session_model_sel [0x4000; 0x8]
    [VL [VZ 0; VZ 0]; VL [VZ 1; VZ 1; VZ 0]; VL [VZ 1; VZ 0; VZ 0x100000004008]; VL [VZ 0; VZ 1]] =
  [VL [VZ 14; VZ 67]; VZ 0; VZ 0; VL [VZ 14; VZ 44]] /\
  firstn 8 (skipn (Z.to_nat (8 * 0x92)) select8Lookup) = [1; 4; 7; 8; 8; 8; 8; 8].
Proof. vm_compute. intuition congruence. Qed.
