(** C18 -- SectionWriter confines and accounts for every byte across any call sequence.

    Only the property theorems (each closed by [exact]), their axiom audit and
    non-vacuity examples.

    Model ([Model/SectionWriter.v]): the concrete [(base, off, limit)] state in
    int64 with every addition/subtraction wrapped ([i64]); [run s sc cs] is the
    list of per-call results (return values, calls [(absolute offset, bytes)]
    that reached the underlying writer) of the call sequence [cs] when the
    underlying [io.WriterAt] answers with the response script [sc] -- a response
    [(k, e)] accepts [min k len(p)] bytes and returns error class [e]
    (0 = nil); an exhausted script accepts everything.  Every theorem
    quantifies over all scripts ([script_ok]: counts are >= 0) and over all
    call sequences ([call_ok]: Seek/WriteAt offsets are int64 values).

    Spec ([Spec/SectionWriterSpec.v]): a section-relative cursor [pos >= 0] and a
    length [n], in unbounded integers: [spec_section o n sc cs].

    [reachable o n s]: [s] is the state of [NewSectionWriter(w, o, n)] after some
    call sequence over some underlying writer.  The cursor of a reachable
    state, relative to the section, is [off s - o].

    Error classes: 0 nil, 1 io.ErrShortWrite, 3 errWhence, 4 errOffset, any
    other value: the underlying writer's own error. *)
From Coq Require Import ZArith List Bool Lia.
From Low Require Import Lib.MachInt Lib.BitSeq Model.SectionWriter Spec.SectionWriterSpec Run.C18
  Proofs.SectionWriterProofs Proofs.SectionWriterCalls.
Import ListNotations.
Open Scope Z_scope.

(** ** Refinement: for every section, call sequence and faulty writer, the
    return values of every call and the (absolute offset, bytes) of every call
    that reaches the underlying writer are those of the cursor/length machine. *)
Theorem C18_refinement : forall o n sc cs,
  0 <= o /\ 0 <= n /\ o + n <= 2^63 - 1 ->
  Forall (fun r => 0 <= fst r) sc ->
  Forall call_ok cs ->
  map (fun r => (rets r, ucalls r)) (run (NewSectionWriter o n) sc cs)
  = spec_section o n sc (map to_acall cs).
Proof. exact section_refines. Qed.
Print Assumptions C18_refinement.

(** AtToWriter(w, o) behaves as a section from o with no practical end
    (length 2^63-1-o) ... *)
Theorem C18_at_to_writer : forall o sc cs,
  0 <= o <= 2^63 - 1 ->
  Forall (fun r => 0 <= fst r) sc ->
  Forall call_ok cs ->
  map (fun r => (rets r, ucalls r)) (run (AtToWriter o) sc cs)
  = spec_at_to_writer o sc (map to_acall cs).
Proof. exact at_to_writer_refines. Qed.
Print Assumptions C18_at_to_writer.

(** ... because it IS that section (the int64 subtraction maxOffset-offset does not wrap) *)
Theorem C18_at_to_writer_is_section : forall o, 0 <= o <= 2^63 - 1 ->
  AtToWriter o = NewSectionWriter o (2^63 - 1 - o).
Proof. exact AtToWriter_section. Qed.
Print Assumptions C18_at_to_writer_is_section.

(** ** Containment: every call that reaches the underlying writer during a
    call [c] of the sequence starts inside [o, o+n), ends at or before o+n and
    carries a prefix ([firstn]) of the buffer the caller passed to [c]
    ([contained_m], unfolded: forall (a, bs) among the underlying calls of the
    result, o <= a < o+n /\ a + |bs| <= o+n /\ bs = firstn |bs| p). *)
Theorem C18_containment : forall o n sc cs,
  0 <= o /\ 0 <= n /\ o + n <= 2^63 - 1 ->
  Forall (fun r => 0 <= fst r) sc ->
  Forall call_ok cs ->
  Forall2 (fun c r =>
    forall a bs, In (a, bs) (ucalls r) ->
      o <= a < o + n /\ a + zlen bs <= o + n /\
      exists p, call_buf (to_acall c) = Some p /\ bs = firstn (length bs) p)
    cs (run (NewSectionWriter o n) sc cs).
Proof. exact section_contained. Qed.
Print Assumptions C18_containment.

(** ** State invariant: the section never moves and the cursor stays in [o, 2^63-1] *)
Theorem C18_state_invariant : forall o n s,
  0 <= o /\ 0 <= n /\ o + n <= 2^63 - 1 -> reachable o n s ->
  base s = o /\ limit s = o + n /\ o <= off s <= 2^63 - 1.
Proof. exact reachable_inv. Qed.
Print Assumptions C18_state_invariant.

(** ** Accounting, Write: from any reachable state (cursor pos = off s - o), either
    n <= pos: nothing reaches the writer, state and script untouched, (0, ErrShortWrite); or
    pos < n: exactly one underlying call, at o + pos, with the first m = min(|p|, n - pos)
    bytes; the count returned is the writer's count cnt (0 <= cnt <= m); the cursor advances
    by exactly cnt; the error is the writer's if it returned one, else ErrShortWrite iff m < |p|.
    ([write_accounting] is exactly this disjunction, see Proofs/SectionWriterProofs.v.) *)
Theorem C18_write_accounting : forall o n s sc p,
  0 <= o /\ 0 <= n /\ o + n <= 2^63 - 1 -> reachable o n s ->
  Forall (fun r => 0 <= fst r) sc ->
  let pos := off s - o in
  let '(s', sc', r) := Write s sc p in
  (n <= pos /\ s' = s /\ sc' = sc /\ rets r = [0; E_short] /\ ucalls r = []) \/
  (pos < n /\
   let m := Z.min (zlen p) (n - pos) in
   let bs := firstn (Z.to_nat m) p in
   let '((cnt, e), rest) := under sc bs in
   ucalls r = [(o + pos, bs)] /\ sc' = rest /\
   off s' = off s + cnt /\ base s' = base s /\ limit s' = limit s /\
   0 <= cnt <= m /\
   rets r = [cnt; if e =? 0 then (if m <? zlen p then E_short else E_nil) else e]).
Proof. exact write_accounting_at. Qed.
Print Assumptions C18_write_accounting.

(** Accounting, WriteAt at section-relative a: the cursor (the whole state) is untouched; either
    a is outside [0, n): nothing reaches the writer, (0, ErrShortWrite); or exactly one
    underlying call at o + a with the first min(|p|, n - a) bytes, count and error as for Write. *)
Theorem C18_writeat_accounting : forall o n s sc p a,
  0 <= o /\ 0 <= n /\ o + n <= 2^63 - 1 -> reachable o n s ->
  Forall (fun r => 0 <= fst r) sc -> - 2^63 <= a < 2^63 ->
  let '(s', sc', r) := WriteAt s sc p a in
  s' = s /\
  (((a < 0 \/ n <= a) /\ sc' = sc /\ rets r = [0; E_short] /\ ucalls r = []) \/
   (0 <= a < n /\
    let m := Z.min (zlen p) (n - a) in
    let bs := firstn (Z.to_nat m) p in
    let '((cnt, e), rest) := under sc bs in
    ucalls r = [(o + a, bs)] /\ sc' = rest /\ 0 <= cnt <= m /\
    rets r = [cnt; if e =? 0 then (if m <? zlen p then E_short else E_nil) else e])).
Proof. exact writeat_accounting_at. Qed.
Print Assumptions C18_writeat_accounting.

(** ** io.ErrShortWrite is returned exactly when the request is truncated by, or starts at or
    beyond, the section end -- provided the underlying writer reports no error on this call
    ([head_err sc = 0]); an error of the underlying writer is what is returned. *)
Theorem C18_write_error_class : forall o n s sc p,
  0 <= o /\ 0 <= n /\ o + n <= 2^63 - 1 -> reachable o n s ->
  Forall (fun r => 0 <= fst r) sc ->
  let pos := off s - o in
  let err := ret_err (snd (Write s sc p)) in
  (head_err sc = 0 ->
     (err = E_short <-> (n <= pos \/ n - pos < zlen p)) /\
     (err = E_nil <-> (pos < n /\ zlen p <= n - pos))) /\
  (pos < n -> head_err sc <> 0 -> err = head_err sc) /\
  (n <= pos -> err = E_short).
Proof. exact write_error_class. Qed.
Print Assumptions C18_write_error_class.

Theorem C18_writeat_error_class : forall o n s sc p a,
  0 <= o /\ 0 <= n /\ o + n <= 2^63 - 1 -> reachable o n s ->
  Forall (fun r => 0 <= fst r) sc -> - 2^63 <= a < 2^63 ->
  let err := ret_err (snd (WriteAt s sc p a)) in
  (head_err sc = 0 ->
     (err = E_short <-> (a < 0 \/ n <= a \/ n - a < zlen p)) /\
     (err = E_nil <-> (0 <= a < n /\ zlen p <= n - a))) /\
  (0 <= a < n -> head_err sc <> 0 -> err = head_err sc) /\
  (a < 0 \/ n <= a -> err = E_short).
Proof. exact writeat_error_class. Qed.
Print Assumptions C18_writeat_error_class.

(** ** Seek follows io.Seeker relative to the section.  In unbounded arithmetic, with the
    absolute reference r (o for SeekStart, the cursor for SeekCurrent, o+n for SeekEnd) and
    target r + d: an invalid whence is rejected; a target before the section start is
    rejected; a target beyond 2^63-1 is rejected (this is what the int64 wrap of the Go
    addition does); otherwise the cursor becomes r + d and r + d - o is returned.  A rejected
    Seek leaves the state untouched; no Seek reaches the underlying writer. *)
Theorem C18_seek : forall o n s d wh,
  0 <= o /\ 0 <= n /\ o + n <= 2^63 - 1 -> reachable o n s -> - 2^63 <= d < 2^63 ->
  Seek s d wh =
  match (if wh =? 0 then Some o else if wh =? 1 then Some (off s)
         else if wh =? 2 then Some (o + n) else None) with
  | None => (s, mkOut [0; E_whence] [])
  | Some r =>
      if (r + d <? o) || (r + d >? 2^63 - 1) then (s, mkOut [0; E_offset] [])
      else (mkSW o (r + d) (o + n), mkOut [r + d - o; E_nil] [])
  end.
Proof. exact seek_spec. Qed.
Print Assumptions C18_seek.

Theorem C18_seek_invalid_whence : forall o n s d wh,
  0 <= o /\ 0 <= n /\ o + n <= 2^63 - 1 -> reachable o n s -> - 2^63 <= d < 2^63 ->
  wh <> 0 -> wh <> 1 -> wh <> 2 ->
  Seek s d wh = (s, mkOut [0; E_whence] []).
Proof. exact seek_invalid_whence. Qed.
Print Assumptions C18_seek_invalid_whence.

Theorem C18_seek_before_start : forall o n s d wh r,
  0 <= o /\ 0 <= n /\ o + n <= 2^63 - 1 -> reachable o n s -> - 2^63 <= d < 2^63 ->
  (wh = 0 /\ r = o) \/ (wh = 1 /\ r = off s) \/ (wh = 2 /\ r = o + n) ->
  r + d < o ->
  Seek s d wh = (s, mkOut [0; E_offset] []).
Proof. exact seek_before_start. Qed.
Print Assumptions C18_seek_before_start.

Theorem C18_seek_int64_wrap : forall o n s d wh r,
  0 <= o /\ 0 <= n /\ o + n <= 2^63 - 1 -> reachable o n s -> - 2^63 <= d < 2^63 ->
  (wh = 0 /\ r = o) \/ (wh = 1 /\ r = off s) \/ (wh = 2 /\ r = o + n) ->
  r + d > 2^63 - 1 ->
  Seek s d wh = (s, mkOut [0; E_offset] []).
Proof. exact seek_int64_wrap. Qed.
Print Assumptions C18_seek_int64_wrap.

Theorem C18_seek_ok : forall o n s d wh r,
  0 <= o /\ 0 <= n /\ o + n <= 2^63 - 1 -> reachable o n s -> - 2^63 <= d < 2^63 ->
  (wh = 0 /\ r = o) \/ (wh = 1 /\ r = off s) \/ (wh = 2 /\ r = o + n) ->
  o <= r + d <= 2^63 - 1 ->
  Seek s d wh = (mkSW o (r + d) (o + n), mkOut [r + d - o; E_nil] []) /\
  reachable o n (mkSW o (r + d) (o + n)).
Proof. exact seek_ok. Qed.
Print Assumptions C18_seek_ok.

(** ** Size returns n, whatever happened before *)
Theorem C18_size : forall o n s,
  0 <= o /\ 0 <= n /\ o + n <= 2^63 - 1 -> reachable o n s -> Size s = n.
Proof. exact size_reachable. Qed.
Print Assumptions C18_size.

(** ** Non-vacuity *)

(** refinement / containment: section (10, 4); the writer accepts 1 of 3 bytes with its own
    error, then everything; Write 3 bytes (short count + error, cursor 1), Write 5 bytes (3 land
    at 11, truncated), Write again (refused at the end), seek back, WriteAt crossing the end,
    Seek past the end, Size. *)
Definition ex_calls : list call :=
  [CWrite [1;2;3]; CWrite [4;5;6;7;8]; CWrite [9]; CSeek (-2) 2; CWriteAt [10;11;12] 2;
   CSeek 7 1; CSize].
Definition ex_script : list resp := [(1, 2)].

Example C18_refinement_nonvacuous :
  (0 <= 10 /\ 0 <= 4 /\ 10 + 4 <= 2^63 - 1) /\
  Forall (fun r => 0 <= fst r) ex_script /\ Forall call_ok ex_calls /\
  map (fun r => (rets r, ucalls r)) (run (NewSectionWriter 10 4) ex_script ex_calls) =
    [ ([1; 2], [(10, [1;2;3])]);
      ([3; 1], [(11, [4;5;6])]);
      ([0; 1], []);
      ([2; 0], []);
      ([2; 1], [(12, [10;11])]);
      ([9; 0], []);
      ([4], []) ] /\
  spec_section 10 4 ex_script (map to_acall ex_calls) =
    map (fun r => (rets r, ucalls r)) (run (NewSectionWriter 10 4) ex_script ex_calls).
Proof.
  split; [lia|]. split; [repeat first [apply Forall_cons | apply Forall_nil]; cbn [fst]; lia|]. split.
  - unfold ex_calls. repeat first [apply Forall_cons | apply Forall_nil]; cbn [call_ok]; try exact I; lia.
  - split; vm_compute; reflexivity.
Qed.

(** the reachable-state theorems: the state after the first two calls above is reachable, its
    cursor is at the section end (the refusing branch); after the first call only it is
    strictly inside (the writing branch) *)
Example C18_reachable_nonvacuous :
  reachable 10 4 (mkSW 10 11 14) /\ reachable 10 4 (mkSW 10 14 14) /\ reachable 10 4 (mkSW 10 19 14) /\
  fst (fst (Write (mkSW 10 11 14) [(2, 0)] [4;5;6;7;8])) = mkSW 10 13 14 /\
  snd (Write (mkSW 10 11 14) [(2, 0)] [4;5;6;7;8]) = mkOut [2; 1] [(11, [4;5;6])] /\
  snd (Write (mkSW 10 14 14) [] [9]) = mkOut [0; 1] [] /\
  snd (WriteAt (mkSW 10 19 14) [(5, 7)] [1;2;3] 3) = mkOut [1; 7] [(13, [1])] /\
  Size (mkSW 10 19 14) = 4.
Proof.
  split; [|split; [|split]].
  - exists ex_script, [CWrite [1;2;3]]. (split; [|split; [|reflexivity]]);
      repeat first [apply Forall_cons | apply Forall_nil]; cbn [fst call_ok]; try exact I; lia.
  - exists ex_script, [CWrite [1;2;3]; CWrite [4;5;6;7;8]]. (split; [|split; [|reflexivity]]);
      repeat first [apply Forall_cons | apply Forall_nil]; cbn [fst call_ok]; try exact I; lia.
  - apply inv_reachable; unfold sec_ok, inv; cbn [base off limit]; lia.
  - vm_compute. repeat split; reflexivity.
Qed.

(** Seek: all four cases occur; the wrap case is AtToWriter(w, 100).Seek(1, io.SeekEnd) *)
Example C18_seek_nonvacuous :
  reachable 100 (2^63 - 1 - 100) (AtToWriter 100) /\
  Seek (AtToWriter 100) 1 2 = (AtToWriter 100, mkOut [0; E_offset] []) /\
  Seek (AtToWriter 100) 0 2 = (mkSW 100 (2^63 - 1) (2^63 - 1), mkOut [2^63 - 1 - 100; E_nil] []) /\
  Seek (AtToWriter 100) (-1) 0 = (AtToWriter 100, mkOut [0; E_offset] []) /\
  Seek (AtToWriter 100) 5 7 = (AtToWriter 100, mkOut [0; E_whence] []) /\
  Seek (mkSW 10 11 14) (2^63 - 12) 1 = (mkSW 10 (2^63 - 1) 14, mkOut [2^63 - 11; E_nil] []) /\
  Seek (mkSW 10 11 14) (2^63 - 11) 1 = (mkSW 10 11 14, mkOut [0; E_offset] []).
Proof.
  split.
  - rewrite AtToWriter_section by lia. apply reachable_new.
  - vm_compute. repeat split; reflexivity.
Qed.
