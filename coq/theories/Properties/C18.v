(** C18 placeholder while the pipeline is brought up; replaced by the real theorems. *)
From Coq Require Import ZArith List Bool.
From Low Require Import Model.SectionWriter.
Open Scope Z_scope.
Theorem C18_size_partial : forall o, Size (mkSW o o o) = 0 -> True.
Proof. exact (fun _ _ => I). Qed.
Print Assumptions C18_size_partial.
