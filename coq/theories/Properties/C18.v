(** C18 -- SectionWriter confines and accounts for every byte across any call sequence.

    Only the property theorems (each closed by [exact]), their axiom audit and
    non-vacuity examples.

    Model ([Model/SectionWriter.v]): the concrete [(base, off, limit)] state in
    int64 with every addition/subtraction wrapped ([i64]); [run s sc cs] is the
    list of per-call results (return values, calls [(absolute offset, bytes)]
    that reached the underlying writer) of the call sequence [cs] when the
    underlying [io.WriterAt] answers with the response script [sc] -- a response
    [(k, e)] accepts [min k len(p)] bytes and returns error class [e]
    (0 = nil); an exhausted script accepts everything.  Every theorem
    quantifies over all scripts ([script_ok]: counts are >= 0) and over all
    call sequences ([call_ok]: Seek/WriteAt offsets are int64 values).

    Spec ([Spec/SectionWriterSpec.v]): a section-relative cursor [pos >= 0] and a
    length [n], in unbounded integers: [spec_section o n sc cs].

    [reachable o n s]: [s] is the state of [NewSectionWriter(w, o, n)] after some
    call sequence over some underlying writer.  The cursor of a reachable
    state, relative to the section, is [off s - o].

    Error classes: 0 nil, 1 io.ErrShortWrite, 3 errWhence, 4 errOffset, any
    other value: the underlying writer's own error. *)
From Coq Require Import ZArith List Bool Lia.
From Low Require Import Lib.MachInt Lib.BitSeq Model.SectionWriter Spec.SectionWriterSpec Run.C18
  Model.MemFile Model.SectionReader Spec.SectionReaderSpec Model.SectionPair Spec.SectionPairSpec
  Proofs.SectionWriterProofs Proofs.SectionWriterCalls Proofs.MemFileProofs Proofs.SectionIOProofs
  Proofs.SectionStreamProofs Proofs.SectionCountProofs Proofs.SectionPairProofs.
From Low Require Import Model.SectionNest Spec.SectionNestSpec Proofs.SectionNestProofs.
From Low Require Import Lib.Bytes Model.Pbcmpl Spec.PbcmplSpec Model.PbcmplFile.
From Low Require Import Spec.PbcmplFileSpec.
From Low Require Proofs.PbcmplStream Proofs.PbcmplFileProofs Proofs.PbcmplFileRoundTrip Proofs.PbcmplFileFrames
  Proofs.PbcmplFileStream.
Import ListNotations.
Open Scope Z_scope.

(** ** Refinement: for every section, call sequence and faulty writer, the
    return values of every call and the (absolute offset, bytes) of every call
    that reaches the underlying writer are those of the cursor/length machine. *)
Theorem C18_refinement : forall o n sc cs,
  0 <= o /\ 0 <= n /\ o + n <= 2^63 - 1 ->
  Forall (fun r => 0 <= fst r) sc ->
  Forall call_ok cs ->
  map (fun r => (rets r, ucalls r)) (run (NewSectionWriter o n) sc cs)
  = spec_section o n sc (map to_acall cs).
Proof. exact section_refines. Qed.
Print Assumptions C18_refinement.

(** AtToWriter(w, o) behaves as a section from o with no practical end
    (length 2^63-1-o) ... *)
Theorem C18_at_to_writer : forall o sc cs,
  0 <= o <= 2^63 - 1 ->
  Forall (fun r => 0 <= fst r) sc ->
  Forall call_ok cs ->
  map (fun r => (rets r, ucalls r)) (run (AtToWriter o) sc cs)
  = spec_at_to_writer o sc (map to_acall cs).
Proof. exact at_to_writer_refines. Qed.
Print Assumptions C18_at_to_writer.

(** ... because it IS that section (the int64 subtraction maxOffset-offset does not wrap) *)
Theorem C18_at_to_writer_is_section : forall o, 0 <= o <= 2^63 - 1 ->
  AtToWriter o = NewSectionWriter o (2^63 - 1 - o).
Proof. exact AtToWriter_section. Qed.
Print Assumptions C18_at_to_writer_is_section.

(** ** Containment: every call that reaches the underlying writer during a
    call [c] of the sequence starts inside [o, o+n), ends at or before o+n and
    carries a prefix ([firstn]) of the buffer the caller passed to [c]
    ([contained_m], unfolded: forall (a, bs) among the underlying calls of the
    result, o <= a < o+n /\ a + |bs| <= o+n /\ bs = firstn |bs| p). *)
Theorem C18_containment : forall o n sc cs,
  0 <= o /\ 0 <= n /\ o + n <= 2^63 - 1 ->
  Forall (fun r => 0 <= fst r) sc ->
  Forall call_ok cs ->
  Forall2 (fun c r =>
    forall a bs, In (a, bs) (ucalls r) ->
      o <= a < o + n /\ a + zlen bs <= o + n /\
      exists p, call_buf (to_acall c) = Some p /\ bs = firstn (length bs) p)
    cs (run (NewSectionWriter o n) sc cs).
Proof. exact section_contained. Qed.
Print Assumptions C18_containment.

(** ** State invariant: the section never moves and the cursor stays in [o, 2^63-1] *)
Theorem C18_state_invariant : forall o n s,
  0 <= o /\ 0 <= n /\ o + n <= 2^63 - 1 -> reachable o n s ->
  base s = o /\ limit s = o + n /\ o <= off s <= 2^63 - 1.
Proof. exact reachable_inv. Qed.
Print Assumptions C18_state_invariant.

(** ** Accounting, Write: from any reachable state (cursor pos = off s - o), either
    n <= pos: nothing reaches the writer, state and script untouched, (0, ErrShortWrite); or
    pos < n: exactly one underlying call, at o + pos, with the first m = min(|p|, n - pos)
    bytes; the count returned is the writer's count cnt (0 <= cnt <= m); the cursor advances
    by exactly cnt; the error is the writer's if it returned one, else ErrShortWrite iff m < |p|.
    ([write_accounting] is exactly this disjunction, see Proofs/SectionWriterProofs.v.) *)
Theorem C18_write_accounting : forall o n s sc p,
  0 <= o /\ 0 <= n /\ o + n <= 2^63 - 1 -> reachable o n s ->
  Forall (fun r => 0 <= fst r) sc ->
  let pos := off s - o in
  let '(s', sc', r) := Write s sc p in
  (n <= pos /\ s' = s /\ sc' = sc /\ rets r = [0; E_short] /\ ucalls r = []) \/
  (pos < n /\
   let m := Z.min (zlen p) (n - pos) in
   let bs := firstn (Z.to_nat m) p in
   let '((cnt, e), rest) := under sc bs in
   ucalls r = [(o + pos, bs)] /\ sc' = rest /\
   off s' = off s + cnt /\ base s' = base s /\ limit s' = limit s /\
   0 <= cnt <= m /\
   rets r = [cnt; if e =? 0 then (if m <? zlen p then E_short else E_nil) else e]).
Proof. exact write_accounting_at. Qed.
Print Assumptions C18_write_accounting.

(** Accounting, WriteAt at section-relative a: the cursor (the whole state) is untouched; either
    a is outside [0, n): nothing reaches the writer, (0, ErrShortWrite); or exactly one
    underlying call at o + a with the first min(|p|, n - a) bytes, count and error as for Write. *)
Theorem C18_writeat_accounting : forall o n s sc p a,
  0 <= o /\ 0 <= n /\ o + n <= 2^63 - 1 -> reachable o n s ->
  Forall (fun r => 0 <= fst r) sc -> - 2^63 <= a < 2^63 ->
  let '(s', sc', r) := WriteAt s sc p a in
  s' = s /\
  (((a < 0 \/ n <= a) /\ sc' = sc /\ rets r = [0; E_short] /\ ucalls r = []) \/
   (0 <= a < n /\
    let m := Z.min (zlen p) (n - a) in
    let bs := firstn (Z.to_nat m) p in
    let '((cnt, e), rest) := under sc bs in
    ucalls r = [(o + a, bs)] /\ sc' = rest /\ 0 <= cnt <= m /\
    rets r = [cnt; if e =? 0 then (if m <? zlen p then E_short else E_nil) else e])).
Proof. exact writeat_accounting_at. Qed.
Print Assumptions C18_writeat_accounting.

(** The returned count equals the bytes passed through, call by call over any sequence and any
    faulty writer: a Write / WriteAt makes at most one call to the underlying writer and returns
    exactly the number of bytes of that call the writer accepted (0 when nothing reached it);
    Seek and Size never reach the writer.  ([accepted cnt u] = |firstn cnt (bytes of u)|.) *)
Theorem C18_count_is_bytes_passed : forall o n sc cs,
  0 <= o /\ 0 <= n /\ o + n <= 2^63 - 1 ->
  Forall (fun r => 0 <= fst r) sc -> Forall call_ok cs ->
  Forall2 (fun c r =>
    match c with
    | CWrite _ | CWriteAt _ _ =>
        (length (ucalls r) <= 1)%nat /\
        ret_cnt r = zsum (map (accepted (ret_cnt r)) (ucalls r))
    | CSeek _ _ | CSize => ucalls r = []
    end) cs (run (NewSectionWriter o n) sc cs).
Proof. exact section_count_is_bytes. Qed.
Print Assumptions C18_count_is_bytes_passed.

(** ** io.ErrShortWrite is returned exactly when the request is truncated by, or starts at or
    beyond, the section end -- provided the underlying writer reports no error on this call
    ([head_err sc = 0]); an error of the underlying writer is what is returned. *)
Theorem C18_write_error_class : forall o n s sc p,
  0 <= o /\ 0 <= n /\ o + n <= 2^63 - 1 -> reachable o n s ->
  Forall (fun r => 0 <= fst r) sc ->
  let pos := off s - o in
  let err := ret_err (snd (Write s sc p)) in
  (head_err sc = 0 ->
     (err = E_short <-> (n <= pos \/ n - pos < zlen p)) /\
     (err = E_nil <-> (pos < n /\ zlen p <= n - pos))) /\
  (pos < n -> head_err sc <> 0 -> err = head_err sc) /\
  (n <= pos -> err = E_short).
Proof. exact write_error_class. Qed.
Print Assumptions C18_write_error_class.

Theorem C18_writeat_error_class : forall o n s sc p a,
  0 <= o /\ 0 <= n /\ o + n <= 2^63 - 1 -> reachable o n s ->
  Forall (fun r => 0 <= fst r) sc -> - 2^63 <= a < 2^63 ->
  let err := ret_err (snd (WriteAt s sc p a)) in
  (head_err sc = 0 ->
     (err = E_short <-> (a < 0 \/ n <= a \/ n - a < zlen p)) /\
     (err = E_nil <-> (0 <= a < n /\ zlen p <= n - a))) /\
  (0 <= a < n -> head_err sc <> 0 -> err = head_err sc) /\
  (a < 0 \/ n <= a -> err = E_short).
Proof. exact writeat_error_class. Qed.
Print Assumptions C18_writeat_error_class.

(** ** Seek follows io.Seeker relative to the section.  In unbounded arithmetic, with the
    absolute reference r (o for SeekStart, the cursor for SeekCurrent, o+n for SeekEnd) and
    target r + d: an invalid whence is rejected; a target before the section start is
    rejected; a target beyond 2^63-1 is rejected (this is what the int64 wrap of the Go
    addition does); otherwise the cursor becomes r + d and r + d - o is returned.  A rejected
    Seek leaves the state untouched; no Seek reaches the underlying writer. *)
Theorem C18_seek : forall o n s d wh,
  0 <= o /\ 0 <= n /\ o + n <= 2^63 - 1 -> reachable o n s -> - 2^63 <= d < 2^63 ->
  Seek s d wh =
  match (if wh =? 0 then Some o else if wh =? 1 then Some (off s)
         else if wh =? 2 then Some (o + n) else None) with
  | None => (s, mkOut [0; E_whence] [])
  | Some r =>
      if (r + d <? o) || (r + d >? 2^63 - 1) then (s, mkOut [0; E_offset] [])
      else (mkSW o (r + d) (o + n), mkOut [r + d - o; E_nil] [])
  end.
Proof. exact seek_spec. Qed.
Print Assumptions C18_seek.

Theorem C18_seek_invalid_whence : forall o n s d wh,
  0 <= o /\ 0 <= n /\ o + n <= 2^63 - 1 -> reachable o n s -> - 2^63 <= d < 2^63 ->
  wh <> 0 -> wh <> 1 -> wh <> 2 ->
  Seek s d wh = (s, mkOut [0; E_whence] []).
Proof. exact seek_invalid_whence. Qed.
Print Assumptions C18_seek_invalid_whence.

Theorem C18_seek_before_start : forall o n s d wh r,
  0 <= o /\ 0 <= n /\ o + n <= 2^63 - 1 -> reachable o n s -> - 2^63 <= d < 2^63 ->
  (wh = 0 /\ r = o) \/ (wh = 1 /\ r = off s) \/ (wh = 2 /\ r = o + n) ->
  r + d < o ->
  Seek s d wh = (s, mkOut [0; E_offset] []).
Proof. exact seek_before_start. Qed.
Print Assumptions C18_seek_before_start.

Theorem C18_seek_int64_wrap : forall o n s d wh r,
  0 <= o /\ 0 <= n /\ o + n <= 2^63 - 1 -> reachable o n s -> - 2^63 <= d < 2^63 ->
  (wh = 0 /\ r = o) \/ (wh = 1 /\ r = off s) \/ (wh = 2 /\ r = o + n) ->
  r + d > 2^63 - 1 ->
  Seek s d wh = (s, mkOut [0; E_offset] []).
Proof. exact seek_int64_wrap. Qed.
Print Assumptions C18_seek_int64_wrap.

Theorem C18_seek_ok : forall o n s d wh r,
  0 <= o /\ 0 <= n /\ o + n <= 2^63 - 1 -> reachable o n s -> - 2^63 <= d < 2^63 ->
  (wh = 0 /\ r = o) \/ (wh = 1 /\ r = off s) \/ (wh = 2 /\ r = o + n) ->
  o <= r + d <= 2^63 - 1 ->
  Seek s d wh = (mkSW o (r + d) (o + n), mkOut [r + d - o; E_nil] []) /\
  reachable o n (mkSW o (r + d) (o + n)).
Proof. exact seek_ok. Qed.
Print Assumptions C18_seek_ok.

(** ** Size returns n, whatever happened before *)
Theorem C18_size : forall o n s,
  0 <= o /\ 0 <= n /\ o + n <= 2^63 - 1 -> reachable o n s -> Size s = n.
Proof. exact size_reachable. Qed.
Print Assumptions C18_size.

(** ** Non-vacuity *)

(** refinement / containment: section (10, 4); the writer accepts 1 of 3 bytes with its own
    error, then everything; Write 3 bytes (short count + error, cursor 1), Write 5 bytes (3 land
    at 11, truncated), Write again (refused at the end), seek back, WriteAt crossing the end,
    Seek past the end, Size
    (the sequence [ex_calls] and the script [ex_script] are defined at the end of Proofs/SectionWriterCalls.v) *)

Example C18_refinement_nonvacuous :
  (0 <= 10 /\ 0 <= 4 /\ 10 + 4 <= 2^63 - 1) /\
  Forall (fun r => 0 <= fst r) ex_script /\ Forall call_ok ex_calls /\
  map (fun r => (rets r, ucalls r)) (run (NewSectionWriter 10 4) ex_script ex_calls) =
    [ ([1; 2], [(10, [1;2;3])]);
      ([3; 1], [(11, [4;5;6])]);
      ([0; 1], []);
      ([2; 0], []);
      ([2; 1], [(12, [10;11])]);
      ([9; 0], []);
      ([4], []) ] /\
  spec_section 10 4 ex_script (map to_acall ex_calls) =
    map (fun r => (rets r, ucalls r)) (run (NewSectionWriter 10 4) ex_script ex_calls).
Proof.
  split; [lia|]. split; [repeat first [apply Forall_cons | apply Forall_nil]; cbn [fst]; lia|]. split.
  - unfold ex_calls. repeat first [apply Forall_cons | apply Forall_nil]; cbn [call_ok]; try exact I; lia.
  - split; vm_compute; reflexivity.
Qed.

(** the reachable-state theorems: the state after the first two calls above is reachable, its
    cursor is at the section end (the refusing branch); after the first call only it is
    strictly inside (the writing branch) *)
Example C18_reachable_nonvacuous :
  reachable 10 4 (mkSW 10 11 14) /\ reachable 10 4 (mkSW 10 14 14) /\ reachable 10 4 (mkSW 10 19 14) /\
  fst (fst (Write (mkSW 10 11 14) [(2, 0)] [4;5;6;7;8])) = mkSW 10 13 14 /\
  snd (Write (mkSW 10 11 14) [(2, 0)] [4;5;6;7;8]) = mkOut [2; 1] [(11, [4;5;6])] /\
  snd (Write (mkSW 10 14 14) [] [9]) = mkOut [0; 1] [] /\
  snd (WriteAt (mkSW 10 19 14) [(5, 7)] [1;2;3] 3) = mkOut [1; 7] [(13, [1])] /\
  Size (mkSW 10 19 14) = 4.
Proof.
  split; [|split; [|split]].
  - exists ex_script, [CWrite [1;2;3]]. (split; [|split; [|reflexivity]]);
      repeat first [apply Forall_cons | apply Forall_nil]; cbn [fst call_ok]; try exact I; lia.
  - exists ex_script, [CWrite [1;2;3]; CWrite [4;5;6;7;8]]. (split; [|split; [|reflexivity]]);
      repeat first [apply Forall_cons | apply Forall_nil]; cbn [fst call_ok]; try exact I; lia.
  - apply inv_reachable; unfold sec_ok, inv; cbn [base off limit]; lia.
  - vm_compute. repeat split; reflexivity.
Qed.

(** Seek: all four cases occur; the wrap case is AtToWriter(w, 100).Seek(1, io.SeekEnd) *)
Example C18_seek_nonvacuous :
  reachable 100 (2^63 - 1 - 100) (AtToWriter 100) /\
  Seek (AtToWriter 100) 1 2 = (AtToWriter 100, mkOut [0; E_offset] []) /\
  Seek (AtToWriter 100) 0 2 = (mkSW 100 (2^63 - 1) (2^63 - 1), mkOut [2^63 - 1 - 100; E_nil] []) /\
  Seek (AtToWriter 100) (-1) 0 = (AtToWriter 100, mkOut [0; E_offset] []) /\
  Seek (AtToWriter 100) 5 7 = (AtToWriter 100, mkOut [0; E_whence] []) /\
  Seek (mkSW 10 11 14) (2^63 - 12) 1 = (mkSW 10 (2^63 - 1) 14, mkOut [2^63 - 11; E_nil] []) /\
  Seek (mkSW 10 11 14) (2^63 - 11) 1 = (mkSW 10 11 14, mkOut [0; E_offset] []).
Proof.
  split.
  - rewrite AtToWriter_section by lia. apply reachable_new.
  - vm_compute. repeat split; reflexivity.
Qed.

(** * Widening: the rest of package iohelper (AtToReader) and its use together with
    AtToWriter / SectionWriter over one file.

    [Model/SectionReader.v]: AtToReader(r, o) = io.NewSectionReader(r, o, maxOffset-o) with the
    Go library's SectionReader given a definitional model (trusted base, exercised by every
    correspondence run).  [Model/MemFile.v]: the in-memory file of the harness: [write_at],
    [read_at], [byte_at] (0 beyond the end), [file_after init outs] = the file after the
    underlying calls of a call sequence, the file storing the prefix it accepted.
    [Spec/SectionReaderSpec.v]: a stream position counted from o, unbounded integers. *)

(** AtToReader(r, o) refines the stream reader from o, for every file, every fault script of
    the file and every sequence of Read lengths: counts, error classes, bytes delivered and the
    (absolute offset, length) asked of the file are the specification's. *)
Theorem C18_at_to_reader : forall o f sc lens,
  0 <= o <= 2^63 - 1 -> Forall (fun l => 0 <= l < 2^63) lens ->
  map (fun r => (rcount r, rerr r, rbytes r, rcalls r)) (rrun (AtToReader o) f sc lens)
  = spec_at_to_reader o f sc lens.
Proof. exact at_to_reader_refines. Qed.
Print Assumptions C18_at_to_reader.

(** Over a file that does not fail, the Reads deliver, in order and without gap or overlap, the
    bytes of the file from offset o on: as many as were asked for in total, or all there are. *)
Theorem C18_at_to_reader_streams : forall o f lens,
  0 <= o <= 2^63 - 1 -> zlen f <= 2^63 - 1 -> Forall (fun l => 0 <= l < 2^63) lens ->
  concat (map rbytes (rrun (AtToReader o) f [] lens)) =
  firstn (Z.to_nat (zsum lens)) (skipn (Z.to_nat o) f).
Proof. exact at_to_reader_streams. Qed.
Print Assumptions C18_at_to_reader_streams.

(** Containment, seen in the file: whatever the call sequence and whatever the file accepts of
    each call, every byte outside [o, o+n) is what it was (bytes beyond the end count as 0), the
    file never shrinks and never grows beyond max(old length, o + n). *)
Theorem C18_file_confined : forall o n sc cs init,
  0 <= o /\ 0 <= n /\ o + n <= 2^63 - 1 ->
  Forall (fun r => 0 <= fst r) sc -> Forall call_ok cs ->
  let file := file_after init (run (NewSectionWriter o n) sc cs) in
  (forall i, 0 <= i -> (i < o \/ o + n <= i) -> byte_at file i = byte_at init i) /\
  zlen init <= zlen file <= Z.max (zlen init) (o + n).
Proof. exact section_file_confined. Qed.
Print Assumptions C18_file_confined.

(** the file the model leaves is the file the cursor/length machine leaves *)
Theorem C18_file_refinement : forall o n sc cs init,
  0 <= o /\ 0 <= n /\ o + n <= 2^63 - 1 ->
  Forall (fun r => 0 <= fst r) sc -> Forall call_ok cs ->
  file_after init (run (NewSectionWriter o n) sc cs) =
  spec_file_after init (spec_section o n sc (map to_acall cs)).
Proof. exact section_file_refines. Qed.
Print Assumptions C18_file_refinement.

(** Round trip (how pbcmpl and its users combine the two): any sequence of Writes through
    AtToWriter(f, o) over a file that accepts everything returns (len, nil) each, leaves the
    concatenation stored at o, and any sequence of Reads through AtToReader(f, o) then streams
    it back, followed by whatever the file held beyond it. *)
Theorem C18_write_read_round_trip : forall o init bufs,
  0 <= o -> o + zlen (concat bufs) < 2^63 - 1 -> zlen init <= 2^63 - 1 ->
  let outs := run (AtToWriter o) [] (map CWrite bufs) in
  let file := file_after init outs in
  map rets outs = map (fun b => [zlen b; E_nil]) bufs /\
  file = write_at init o (concat bufs) /\
  forall lens, Forall (fun l => 0 <= l < 2^63) lens ->
    concat (map rbytes (rrun (AtToReader o) file [] lens)) =
    firstn (Z.to_nat (zsum lens)) (concat bufs ++ skipn (Z.to_nat (o + zlen (concat bufs))) init).
Proof. exact at_to_writer_reader_round_trip. Qed.
Print Assumptions C18_write_read_round_trip.

(** NewSectionWriter "stops with io.ErrShortWrite after n bytes": a plain stream of Writes through
    a section (o, n) over a file that accepts everything leaves exactly the first n bytes of the
    stream at o, and the counts returned add up to min(n, length of the stream). *)
Theorem C18_stream_truncates : forall o n init bufs,
  0 <= o /\ 0 <= n /\ o + n <= 2^63 - 1 ->
  let outs := run (NewSectionWriter o n) [] (map CWrite bufs) in
  file_after init outs = write_at init o (firstn (Z.to_nat n) (concat bufs)) /\
  zsum (map ret_cnt outs) = Z.min n (zlen (concat bufs)).
Proof. exact section_stream_truncates. Qed.
Print Assumptions C18_stream_truncates.

Example C18_stream_nonvacuous :
  file_after [9;9;9;9;9;9;9] (run (NewSectionWriter 1 4) [] (map CWrite [[1;2;3]; [4;5;6]; [7]])) = [9;1;2;3;4;9;9] /\
  map rets (run (NewSectionWriter 1 4) [] (map CWrite [[1;2;3]; [4;5;6]; [7]])) = [[3; 0]; [1; 1]; [0; 1]] /\
  write_at [9;9;9;9;9;9;9] 1 (firstn (Z.to_nat 4) (concat [[1;2;3]; [4;5;6]; [7]])) = [9;1;2;3;4;9;9].
Proof. vm_compute. repeat split; reflexivity. Qed.

(** non-vacuity of the widening: a 6-byte file, a section (2, 3) written with a truncated Write
    after a short faulty one; bytes 0,1 and 5 keep their value; then a stream written at offset 4
    (beyond the section, extending the file) is read back in chunks of 2, 0 and 5 bytes. *)
Example C18_file_nonvacuous :
  file_after [11;12;13;14;15;16] (run (NewSectionWriter 2 3) [(1, 2)] [CWrite [1;2]; CWrite [3;4;5]])
    = [11;12;1;3;4;16] /\
  map rets (run (NewSectionWriter 2 3) [(1, 2)] [CWrite [1;2]; CWrite [3;4;5]]) = [[1; 2]; [2; 1]] /\
  file_after [11;12] (run (AtToWriter 4) [] (map CWrite [[1;2;3]; []; [4]])) = [11;12;0;0;1;2;3;4] /\
  map rbytes (rrun (AtToReader 4) [11;12;0;0;1;2;3;4] [] [2; 0; 5]) = [[1;2]; []; [3;4]] /\
  map rerr (rrun (AtToReader 4) [11;12;0;0;1;2;3;4] [] [2; 0; 5; 1]) = [0; 0; E_eof; E_eof] /\
  map rcount (rrun (AtToReader (2^63 - 2)) [1;2;3] [] [5; 5]) = [0; 0] /\
  map rcalls (rrun (AtToReader (2^63 - 2)) [1;2;3] [] [5; 5]) = [[(2^63 - 2, 1)]; [(2^63 - 2, 1)]] /\
  map rcalls (rrun (AtToReader (2^63 - 1)) [1;2;3] [] [5]) = [[]].
Proof. vm_compute. repeat split; reflexivity. Qed.

(** * Widening: several section writers over one file ("several structures share one file").
    [Model/SectionPair.v]: two SectionWriter states, every call a [step] on the state of the
    writer it is addressed to ([(w, call)], w = 0: the first), one underlying writer whose
    responses are consumed in call order.  [Spec/SectionPairSpec.v]: two independent cursors. *)

(** the interleaved run refines two independent cursor/length machines *)
Theorem C18_two_sections_refinement : forall o1 n1 o2 n2 sc wcs,
  0 <= o1 /\ 0 <= n1 /\ o1 + n1 <= 2^63 - 1 -> 0 <= o2 /\ 0 <= n2 /\ o2 + n2 <= 2^63 - 1 ->
  Forall (fun r => 0 <= fst r) sc -> Forall (fun wc => call_ok (snd wc)) wcs ->
  map (fun r => (rets r, ucalls r)) (run2 (NewSectionWriter o1 n1, NewSectionWriter o2 n2) sc wcs)
  = spec_two_sections o1 n1 o2 n2 sc (map to_wacall wcs).
Proof. exact two_sections_refine. Qed.
Print Assumptions C18_two_sections_refinement.

(** every call stays inside the section of the writer it is addressed to *)
Theorem C18_two_sections_containment : forall o1 n1 o2 n2 sc wcs,
  0 <= o1 /\ 0 <= n1 /\ o1 + n1 <= 2^63 - 1 -> 0 <= o2 /\ 0 <= n2 /\ o2 + n2 <= 2^63 - 1 ->
  Forall (fun r => 0 <= fst r) sc -> Forall (fun wc => call_ok (snd wc)) wcs ->
  Forall2 (fun wc r =>
      if fst wc =? 0
      then Forall (fun u => o1 <= fst u /\ fst u + zlen (snd u) <= o1 + n1) (ucalls r)
      else Forall (fun u => o2 <= fst u /\ fst u + zlen (snd u) <= o2 + n2) (ucalls r))
    wcs (run2 (NewSectionWriter o1 n1, NewSectionWriter o2 n2) sc wcs).
Proof. exact two_sections_contained. Qed.
Print Assumptions C18_two_sections_containment.

(** in the file: a byte outside both sections never changes (bytes beyond the end count as 0) *)
Theorem C18_two_sections_file_confined : forall o1 n1 o2 n2 sc wcs init i,
  0 <= o1 /\ 0 <= n1 /\ o1 + n1 <= 2^63 - 1 -> 0 <= o2 /\ 0 <= n2 /\ o2 + n2 <= 2^63 - 1 ->
  Forall (fun r => 0 <= fst r) sc -> Forall (fun wc => call_ok (snd wc)) wcs ->
  0 <= i -> (i < o1 \/ o1 + n1 <= i) -> (i < o2 \/ o2 + n2 <= i) ->
  byte_at (file_after init (run2 (NewSectionWriter o1 n1, NewSectionWriter o2 n2) sc wcs)) i
  = byte_at init i.
Proof. exact two_sections_file_confined. Qed.
Print Assumptions C18_two_sections_file_confined.

(** non-interference: outside the second section, the file is exactly what the first writer's own
    calls made of it ([outs_of_first wcs outs]: the results of the calls addressed to the first
    writer) -- the second writer's calls, however interleaved, leave no trace there *)
Theorem C18_two_sections_noninterference : forall o1 n1 o2 n2 sc wcs init i,
  0 <= o1 /\ 0 <= n1 /\ o1 + n1 <= 2^63 - 1 -> 0 <= o2 /\ 0 <= n2 /\ o2 + n2 <= 2^63 - 1 ->
  Forall (fun r => 0 <= fst r) sc -> Forall (fun wc => call_ok (snd wc)) wcs ->
  0 <= i -> (i < o2 \/ o2 + n2 <= i) ->
  let outs := run2 (NewSectionWriter o1 n1, NewSectionWriter o2 n2) sc wcs in
  byte_at (file_after init outs) i = byte_at (file_after init (outs_of_first wcs outs)) i.
Proof. exact two_sections_first_alone. Qed.
Print Assumptions C18_two_sections_noninterference.

(** the file the interleaved model leaves is the file the two cursor machines leave *)
Theorem C18_two_sections_file_refinement : forall o1 n1 o2 n2 sc wcs init,
  0 <= o1 /\ 0 <= n1 /\ o1 + n1 <= 2^63 - 1 -> 0 <= o2 /\ 0 <= n2 /\ o2 + n2 <= 2^63 - 1 ->
  Forall (fun r => 0 <= fst r) sc -> Forall (fun wc => call_ok (snd wc)) wcs ->
  file_after init (run2 (NewSectionWriter o1 n1, NewSectionWriter o2 n2) sc wcs) =
  spec_file_after init (spec_two_sections o1 n1 o2 n2 sc (map to_wacall wcs)).
Proof. exact two_sections_file_refines. Qed.
Print Assumptions C18_two_sections_file_refinement.

(** non-vacuity: adjacent sections (1, 2) and (3, 2) of a 6-byte file; the first writer writes 3
    bytes (truncated to its 2), the second writes 1 and then 2 (truncated to 1) with the first
    writer's refused Write in between; bytes 0 and 5 keep their value; dropping the second
    writer's calls changes nothing at positions 0..2. *)
Example C18_two_sections_nonvacuous :
  let wcs := [(0, CWrite [1;2;3]); (1, CWrite [4]); (0, CWrite [5]); (1, CWrite [6;7])] in
  let outs := run2 (NewSectionWriter 1 2, NewSectionWriter 3 2) [] wcs in
  map rets outs = [[2; 1]; [1; 0]; [0; 1]; [1; 1]] /\
  map ucalls outs = [[(1, [1;2])]; [(3, [4])]; []; [(4, [6])]] /\
  file_after [9;9;9;9;9;9] outs = [9;1;2;4;6;9] /\
  file_after [9;9;9;9;9;9] (outs_of_first wcs outs) = [9;1;2;9;9;9].
Proof. vm_compute. repeat split; reflexivity. Qed.

(** * Widening: sections of sections -- NewSectionWriter(inner, off, n) / AtToWriter(inner, off) where
    [inner] is itself a SectionWriter.  [Model/SectionNest.v]: the outer writer's underlying WriteAt is the
    inner writer's WriteAt (section-relative offset), down to the mock; a call is addressed to a level
    (0 = innermost).  [Spec/SectionNestSpec.v]: a stack of windows (o, n) with cursors; a write is cut by
    every window on its way down. *)

(** the stacked int64 writers refine the stack of cursor/length windows: every return value and
    every (offset, bytes) that reaches the underlying writer, for every interleaving of calls on any
    level, any depth, any faulty writer *)
Theorem C18_nested_refinement : forall ws sc lcs,
  Forall (fun w => 0 <= fst w /\ 0 <= snd w /\ fst w + snd w <= 2^63 - 1) ws ->
  Forall (fun r => 0 <= fst r) sc -> Forall (fun lc => call_ok (snd lc)) lcs ->
  map (fun r => (rets r, ucalls r)) (runN (map (fun w => NewSectionWriter (fst w) (snd w)) ws) sc lcs)
  = spec_nested ws sc (map to_lacall lcs).
Proof. exact nested_refines. Qed.
Print Assumptions C18_nested_refinement.

(** a WriteAt through a stack of int64 section writers IS the write through the stack of windows *)
Theorem C18_nested_writeat : forall ss ws,
  Forall2 (fun s w => base s = fst w /\ limit s = fst w + snd w) ss ws ->
  Forall (fun w => 0 <= fst w /\ 0 <= snd w /\ fst w + snd w <= 2^63 - 1) ws ->
  forall sc p o, - 2^63 <= o < 2^63 -> wat ss sc p o = aw ws sc p o.
Proof. exact wat_aw. Qed.
Print Assumptions C18_nested_writeat.

(** and every call (x, bs) it makes to the underlying writer lands inside EVERY window of the stack
    ([inside ws a l]: l bytes at relative a lie in the first window, and -- at o + a -- in the one
    below, and so on), at x = a + the sum of the window offsets, carrying a prefix of the buffer *)
Theorem C18_nested_containment : forall ws sc p a x bs,
  In (x, bs) (snd (aw ws sc p a)) ->
  x = sumo ws + a /\ inside ws a (zlen bs) /\ bs = firstn (length bs) p.
Proof. exact aw_contained. Qed.
Print Assumptions C18_nested_containment.

(** two levels, absolute file positions: inside the inner section AND inside the outer one -- an
    outer section that extends past the inner end cannot write past it *)
Theorem C18_nested_intersection : forall o1 n1 o2 n2 sc p a x bs,
  In (x, bs) (snd (aw [(o2, n2); (o1, n1)] sc p a)) ->
  o1 + o2 <= x /\ x + zlen bs <= o1 + o2 + n2 /\ o1 <= x /\ x + zlen bs <= o1 + n1.
Proof. exact aw2_intersection. Qed.
Print Assumptions C18_nested_intersection.

(** non-vacuity: inner (10, 4), outer (1, 8) straddling the inner end: an outer Write of 8 bytes is cut
    to the 3 that fit the inner section and returns (3, ErrShortWrite); the next outer Write is refused
    by the inner section (0, ErrShortWrite) although the outer cursor is inside the outer section *)
Example C18_nested_nonvacuous :
  map (fun r => (rets r, ucalls r))
    (runN [NewSectionWriter 10 4; NewSectionWriter 1 8] [] [(1%nat, CWrite [1;2;3;4;5;6;7;8]); (1%nat, CWrite [9]); (0%nat, CWrite [7])])
  = [([3; 1], [(11, [1;2;3])]); ([0; 1], []); ([1; 0], [(10, [7])])] /\
  spec_nested [(10, 4); (1, 8)] [] [(1%nat, AWrite [1;2;3;4;5;6;7;8]); (1%nat, AWrite [9]); (0%nat, AWrite [7])]
  = [([3; 1], [(11, [1;2;3])]); ([0; 1], []); ([1; 0], [(10, [7])])].
Proof. split; vm_compute; reflexivity. Qed.

(** * Widening across packages: pbcmpl frames in one file through iohelper
    (pbcmpl.Marshal(iohelper.AtToWriter(f, off), msg), pbcmpl.Unmarshal(iohelper.AtToReader(f, off), msg):
    how pbcmpl's tests and users combine the two).  [Model/PbcmplFile.v] instantiates Marshal /
    Unmarshal of Model/Pbcmpl.v (C06/C07) with the section writer over the in-memory file and with
    AtToReader over that file.  The body codec (proto.Marshal/Unmarshal of the message type) is
    universally quantified, with [dec (enc m) = Some m] as a premise where a frame is read back. *)
Module PFP := Low.Proofs.PbcmplFileProofs.
Module PRT := Low.Proofs.PbcmplFileRoundTrip.
Module PFF := Low.Proofs.PbcmplFileFrames.

(** Unmarshal through AtToReader(f, o) computes the C06/C07 specification of Unmarshal on the bytes
    of the file from o on (stream ending with a plain io.EOF), for ANY file content: garbage,
    cut frames, frames damaged by an overlapping write. *)
Theorem C18_pbcmpl_unmarshal_any_file : forall (Msg : Type) (dec : list Z -> option Msg) grow,
  (forall c, 0 < c -> c < grow c) ->
  forall f o fuel,
  0 <= o <= 2^63 - 1 -> zlen f < 2^63 - 1 -> bytes_ok f -> (length f + 2 <= fuel)%nat ->
  exists n ver err m s' left,
    Unmarshal dec (fread_r f) grow fuel (AtToReader o) = Some (n, ver, err, m, s')
    /\ spec_Unmarshal dec EEOF (skipn (Z.to_nat o) f) PFP.t_eof = (n, ver, err, m, left).
Proof. exact PFP.Unmarshal_file_spec. Qed.
Print Assumptions C18_pbcmpl_unmarshal_any_file.

(** Marshal through AtToWriter(f, o) returns (32 + body length, nil) and leaves the frame at o *)
Theorem C18_pbcmpl_marshal_file : forall (Msg : Type) (enc : Msg -> list Z) o f m ver,
  0 <= o -> zlen (ver_of ver) <= 16 -> o + 32 + zlen (enc m) < 2^63 - 1 ->
  exists s',
    Marshal enc fwrite (AtToWriter o, f) m ver
    = Some (32 + zlen (enc m), None, (s', write_at f o (frame (ver_of ver) (enc m)))).
Proof. exact PRT.Marshal_file. Qed.
Print Assumptions C18_pbcmpl_marshal_file.

(** round trip over a file with any other content: nothing outside the frame changes, and
    Unmarshal at the same offset returns the message and its version *)
Theorem C18_pbcmpl_file_round_trip :
  forall (Msg : Type) (enc : Msg -> list Z) (dec : list Z -> option Msg) grow,
  (forall c, 0 < c -> c < grow c) ->
  forall o f m ver,
  0 <= o -> zlen (ver_of ver) <= 16 -> no_trailing_nul (ver_of ver) = true ->
  bytes_ok (ver_of ver) -> bytes_ok (enc m) -> bytes_ok f -> dec (enc m) = Some m ->
  o + 32 + zlen (enc m) < 2^63 - 1 -> zlen f < 2^63 - 1 ->
  exists sw' f',
    Marshal enc fwrite (AtToWriter o, f) m ver = Some (32 + zlen (enc m), None, (sw', f'))
    /\ f' = write_at f o (frame (ver_of ver) (enc m))
    /\ (forall i, 0 <= i -> (i < o \/ o + 32 + zlen (enc m) <= i) -> byte_at f' i = byte_at f i)
    /\ exists sr',
         Unmarshal dec (fread_r f') grow (file_fuel f') (AtToReader o)
         = Some (32 + zlen (enc m), ver_of ver, None, Some m, sr').
Proof. exact PRT.marshal_unmarshal_file. Qed.
Print Assumptions C18_pbcmpl_file_round_trip.

(** several frames in one file (the two body codecs of the harness: 0 raw, 1 BytesValue): placed at
    offsets whose frames do not overlap ([PFF.pairwise_clear]), in any order, over any initial content
    of at most B < 2^63-1 bytes -- every Marshal returns (frame length, nil), every byte outside all
    frames keeps its value, and every frame is read back at its offset *)
Theorem C18_pbcmpl_frames_in_one_file : forall kind B ps f,
  kind = 0 \/ kind = 1 -> B < 2^63 - 1 ->
  Forall (fun p => 0 <= fst p /\ Proofs.PbcmplStream.msg_wf (snd p)) ps ->
  Forall (fun p => PFF.place_end kind p <= B) ps -> PFF.pairwise_clear kind ps ->
  bytes_ok f -> zlen f <= B ->
  exists rs f',
    marshal_all kind f ps = Some (rs, f')
    /\ rs = map (fun p => (PFF.place_end kind p - fst p, @None perr)) ps
    /\ (forall i, 0 <= i -> Forall (PFF.clear_of kind i 1) ps -> byte_at f' i = byte_at f i)
    /\ Forall (fun p => exists s',
         UnmarshalAt kind f' (fst p)
         = Some (PFF.place_end kind p - fst p, ver_of (fst (snd p)), None, Some (snd (snd p)), s')) ps.
Proof. exact PFF.marshal_all_unmarshal_each. Qed.
Print Assumptions C18_pbcmpl_frames_in_one_file.

Module PFS := Low.Proofs.PbcmplFileStream.

(** Unmarshal from ANY position of an AtToReader(f, o) computes the specification on the bytes that
    are left and leaves the reader exactly n bytes further ([SIO.RR o s pos]: the reader state [s]
    stands at position [pos] of the stream from o; [PFP.rem f o pos]: the bytes left there) *)
Theorem C18_pbcmpl_unmarshal_advances : forall (Msg : Type) (dec : list Z -> option Msg) grow,
  (forall c, 0 < c -> c < grow c) ->
  forall f o s pos fuel,
  0 <= o -> zlen f < 2^63 - 1 -> bytes_ok f -> Proofs.SectionIOProofs.RR o s pos ->
  (length f + 2 <= fuel)%nat ->
  exists n ver err m s' left,
    Unmarshal dec (fread_r f) grow fuel s = Some (n, ver, err, m, s')
    /\ spec_Unmarshal dec EEOF (PFP.rem f o pos) PFP.t_eof = (n, ver, err, m, left)
    /\ Proofs.SectionIOProofs.RR o s' (pos + n) /\ left = PFP.rem f o (pos + n).
Proof. exact PFP.Unmarshal_file_spec_at. Qed.
Print Assumptions C18_pbcmpl_unmarshal_advances.

(** hence repeated Unmarshal through ONE AtToReader(f, o) reads the file as a stream of frames:
    call after call what the specification says of the bytes left -- any file content *)
Theorem C18_pbcmpl_stream_any_file : forall kind f o count,
  0 <= o <= 2^63 - 1 -> zlen f < 2^63 - 1 -> bytes_ok f ->
  StreamAt kind f o count = Some (spec_stream_file count kind (skipn (Z.to_nat o) f)).
Proof. exact PFS.StreamAt_spec. Qed.
Print Assumptions C18_pbcmpl_stream_any_file.

(** frames marshalled back to back from offset o ([PFS.chained]: each starts where the previous one
    ends) are read back through one AtToReader(f', o), one frame per call, in order *)
Theorem C18_pbcmpl_frames_as_stream : forall kind B ps f o,
  kind = 0 \/ kind = 1 -> B < 2^63 - 1 -> 0 <= o <= 2^63 - 1 ->
  Forall (fun p => 0 <= fst p /\ Proofs.PbcmplStream.msg_wf (snd p)) ps ->
  Forall (fun p => PFF.place_end kind p <= B) ps ->
  PFF.pairwise_clear kind ps -> PFS.chained kind o ps ->
  bytes_ok f -> zlen f <= B ->
  exists rs f',
    marshal_all kind f ps = Some (rs, f')
    /\ StreamAt kind f' o (length ps)
       = Some (map (fun m => (32 + zlen (k_enc kind (snd m)), ver_of (fst m), @None perr, snd m)) (map snd ps)).
Proof. exact PFS.marshal_all_stream. Qed.
Print Assumptions C18_pbcmpl_frames_as_stream.

(** non-vacuity: a BytesValue frame at 40 and a versioned one at 3 (written in that order) into a
    5-byte file; both read back; bytes 0..2 keep their value; reading at 4 (inside a frame) fails *)
Example C18_pbcmpl_nonvacuous :
  let ps := [(40, (None, [1;2;3])); (3, (Some [49;46;50], []))] in
  PFF.pairwise_clear 1 ps /\
  match marshal_all 1 [9;8;7;6;5] ps with
  | Some (rs, f) =>
      rs = [(37, None); (32, None)] /\ firstn 3 f = [9;8;7] /\ zlen f = 77 /\
      unmarshal_all 1 f [40; 3; 4] =
        Some [(37, [49;46;48;46;48], None, [1;2;3]); (32, [49;46;50], None, []);
              (32, [46;50;0;0;0;0;0;0;0;0;0;0;0;0;0;32], Some EInvalidHeaderSize, [])] /\
      (* as a stream from 3: the versioned frame, then the 5 zero bytes of the gap read as a header *)
      StreamAt 1 f 3 3 = Some [(32, [49;46;50], None, []); (32, [0;0;0;0;0;49;46;48;46;48], Some EInvalidHeaderSize, [])]
  | None => False
  end.
Proof.
  split.
  - cbn [PFF.pairwise_clear]. split; [|split; constructor]. constructor; [|constructor].
    unfold PFF.clear_of, PFF.place_end. right. vm_compute. discriminate.
  - vm_compute. repeat split; reflexivity.
Qed.
