(** placeholder, replaced in the same commit series *)
From Coq Require Import ZArith List.
From Low Require Import Model.Semver Model.Vers.
Import ListNotations.
Theorem X01_placeholder_partial : IsCompatible [] [] = Some false.
Proof. exact eq_refl. Qed.
Print Assumptions X01_placeholder_partial.
