(** X01 (extra check, not a record of properties.jsonl) — package vers: IsCompatible / Check decide "the version
    satisfies one of the groups of the range entirely" with the precedence order of Semantic Versioning 2.0.0.
    Only the theorems (each closed by [exact]), their axiom audit and non-vacuity examples.
    Model: Model/Vers.v on top of Model/Semver.v (blang/semver v3.5.1 modelled function by function).
    The PARSERS ([Parse], [range_groups]) are third-party, modelled and NOT verified: the theorems take what they
    return as given and are about everything after parsing — the comparison, the closures, the two functions. *)
From Coq Require Import ZArith List Bool.
From Low Require Import Lib.Lex Lib.Decimal_xpk Model.Semver Model.Vers Spec.VersSpec Spec.VersPrint
  Proofs.SemverOrder Proofs.VersProofs Proofs.SemverNoPanic Proofs.SemverPrintParse Proofs.SemverRangeParse Proofs.SemverParseInv Proofs.SemverWildcard.
Import ListNotations.
Open Scope Z_scope.

(** byte strings used by the refutation witnesses and the examples *)
Definition V000 : str := [48; 46; 48; 46; 48].   (* "0.0.0" *)
Definition V100 : str := [49; 46; 48; 46; 48].   (* "1.0.0" *)
Definition V200 : str := [50; 46; 48; 46; 48].   (* "2.0.0" *)
Definition V300 : str := [51; 46; 48; 46; 48].   (* "3.0.0" *)
Definition V123 : str := [49; 46; 50; 46; 51].   (* "1.2.3" *)
Definition V311 : str := [51; 46; 49; 46; 49].   (* "3.1.1" *)
Definition V211 : str := [50; 46; 49; 46; 49].   (* "2.1.1" *)
Definition V421 : str := [52; 46; 50; 46; 49].   (* "4.2.1" *)
Definition V115 : str := [49; 46; 49; 46; 53].   (* "1.1.5" *)
Definition V1x : str := [49; 46; 120].   (* "1.x" *)
Definition R1 : str := [62; 49; 46; 48; 46; 48; 32; 60; 50; 46; 48; 46; 48].   (* ">1.0.0 <2.0.0" *)
Definition R2 : str := [62; 51; 46; 48; 46; 48; 32; 33; 52; 46; 50; 46; 49].   (* ">3.0.0 !4.2.1" *)
Definition VBADV : str := [97; 98; 99; 46; 101].   (* "abc.e" *)
Definition VBADR : str := [97; 46; 98; 46; 99].   (* "a.b.c" *)
Definition V100b : str := [49; 46; 48; 46; 48; 43; 98; 117; 105; 108; 100; 46; 55].   (* "1.0.0+build.7" *)
Definition PAlpha : str := [49; 46; 48; 46; 48; 45; 97; 108; 112; 104; 97].   (* "1.0.0-alpha" *)
Definition PAlpha1 : str := [49; 46; 48; 46; 48; 45; 97; 108; 112; 104; 97; 46; 49].   (* "1.0.0-alpha.1" *)
Definition PAlphaBeta : str := [49; 46; 48; 46; 48; 45; 97; 108; 112; 104; 97; 46; 98; 101; 116; 97].   (* "1.0.0-alpha.beta" *)
Definition PBeta : str := [49; 46; 48; 46; 48; 45; 98; 101; 116; 97].   (* "1.0.0-beta" *)
Definition PBeta2 : str := [49; 46; 48; 46; 48; 45; 98; 101; 116; 97; 46; 50].   (* "1.0.0-beta.2" *)
Definition PBeta11 : str := [49; 46; 48; 46; 48; 45; 98; 101; 116; 97; 46; 49; 49].   (* "1.0.0-beta.11" *)
Definition PRc1 : str := [49; 46; 48; 46; 48; 45; 114; 99; 46; 49].   (* "1.0.0-rc.1" *)

(** the library's Compare is the precedence order of the standard (as -1 / 0 / 1), for ALL version values *)
Theorem X01_Compare_is_precedence : forall v o, Compare v o = cmp_sign (prec v o).
Proof. exact Compare_spec. Qed.
Print Assumptions X01_Compare_is_precedence.

(** ... and the precedence order is a total preorder: antisymmetric, transitive, equivalent versions compare alike *)
Theorem X01_precedence_total_preorder :
  (forall v w, prec w v = CompOpp (prec v w)) /\
  (forall u v w, prec u v = Lt -> prec v w = Lt -> prec u w = Lt) /\
  (forall u v, prec u v = Eq -> forall w, prec u w = prec v w) /\
  (forall v, prec v v = Eq).
Proof.
  exact (conj (o_antisym prec ord_ok_prec) (conj (o_ltrans prec ord_ok_prec)
        (conj (o_econg prec ord_ok_prec) (ord_refl prec ord_ok_prec)))).
Qed.
Print Assumptions X01_precedence_total_preorder.

(** equivalent = same numbers and same pre-release identifiers; build metadata never matters *)
Theorem X01_precedence_eq : forall v w, Forall canon_ident (v_pre v) -> Forall canon_ident (v_pre w) ->
  (prec v w = Eq <-> v_major v = v_major w /\ v_minor v = v_minor w /\ v_patch v = v_patch w /\ v_pre v = v_pre w).
Proof. exact prec_eq_iff. Qed.
Print Assumptions X01_precedence_eq.

(** each of the six comparator closures means what its operator says *)
Theorem X01_comparators : forall c v w, comp_apply c v w = sat c v w.
Proof. exact comp_apply_sat. Qed.
Print Assumptions X01_comparators.

(** the closure tree built by ParseRange from well-formed groups (none empty) never panics and answers
    "one of the groups holds entirely" *)
Theorem X01_closures : forall gs v, gs <> [] -> groups_wf gs = true ->
  call_range (or_fn_loop gs None) v = Some (range_holds gs v).
Proof. exact call_range_wf. Qed.
Print Assumptions X01_closures.

(** with an empty group the tree calls a nil function: the groups are tried from the left, and reaching the empty one panics *)
Theorem X01_closures_lazy : forall g gs, g <> [] ->
  exists f, or_fn_loop (g :: gs) None = Some f /\ forall v, call_rfn f v = lazy_or v (g :: gs).
Proof. exact or_fn_loop_lazy. Qed.
Print Assumptions X01_closures_lazy.

Theorem X01_lazy_or_malformed : forall v gs, groups_wf gs = false -> lazy_or v gs = None \/ lazy_or v gs = Some true.
Proof. exact lazy_or_malformed. Qed.
Print Assumptions X01_lazy_or_malformed.

(** the modelled range parser never panics and never returns an empty list of groups *)
Theorem X01_range_parser_total : forall s, range_groups s <> Panic /\ (forall gs, range_groups s = Ok gs -> gs <> []).
Proof. exact (fun s => conj (range_groups_no_panic s) (range_groups_nonempty s)). Qed.
Print Assumptions X01_range_parser_total.

(** IsCompatible, for ALL strings: false when the version or the range does not parse; otherwise, when no group of the
    range is empty, exactly "the range holds" — i.e. the strict specification *)
Theorem X01_IsCompatible : forall ver spec,
  (forall gs, range_groups (join or_sep spec) = Ok gs -> groups_wf gs = true) ->
  IsCompatible ver spec = spec_IsCompatible ver spec.
Proof. exact (fun ver spec => IsCompatible_exact ver spec (range_groups_no_panic _)). Qed.
Print Assumptions X01_IsCompatible.

Theorem X01_IsCompatible_valid : forall ver spec v gs,
  Parse ver = Some v -> range_groups (join or_sep spec) = Ok gs -> groups_wf gs = true ->
  IsCompatible ver spec = Some (range_holds gs v).
Proof. exact IsCompatible_valid. Qed.
Print Assumptions X01_IsCompatible_valid.

Theorem X01_IsCompatible_invalid : forall ver spec,
  Parse ver = None \/ range_groups (join or_sep spec) = Err -> IsCompatible ver spec = Some false.
Proof.
  exact (fun ver spec H => match H with
                           | or_introl Hv => IsCompatible_invalid_version ver spec Hv
                           | or_intror Hr => IsCompatible_invalid_range ver spec Hr end).
Qed.
Print Assumptions X01_IsCompatible_invalid.

(** the full statement "IsCompatible never panics and is false on an invalid spec" is FALSE of the faithful model:
    a range with an empty group ("a ||  || b", an empty element between two others) is accepted by the library and
    panics or answers true.  Both witnesses replay on the real code (known_findings.txt, docs/extra-packages.md). *)
Theorem X01_IsCompatible_never_panics_refuted :
  exists ver spec, IsCompatible ver spec = None /\ spec_IsCompatible ver spec = Some false.
Proof. exact (ex_intro _ V300 (ex_intro _ [V100; []; V200] (conj eq_refl eq_refl))). Qed.
Print Assumptions X01_IsCompatible_never_panics_refuted.

Theorem X01_IsCompatible_invalid_is_false_refuted :
  exists ver spec, IsCompatible ver spec = Some true /\ spec_IsCompatible ver spec = Some false.
Proof. exact (ex_intro _ V100 (ex_intro _ [V1x; []; V1x] (conj eq_refl eq_refl))). Qed.
Print Assumptions X01_IsCompatible_invalid_is_false_refuted.

(** Check: the value on valid input in both builds; in a -tags debug build a panic on anything invalid;
    in a release build a nil-function panic on an invalid range and the zero version 0.0.0 in place of an invalid one *)
Theorem X01_Check_valid : forall dbg ver spec v gs,
  Parse ver = Some v -> range_groups (join or_sep spec) = Ok gs -> groups_wf gs = true ->
  Check dbg ver spec = Some (range_holds gs v).
Proof. exact Check_valid. Qed.
Print Assumptions X01_Check_valid.

Theorem X01_Check_debug : forall ver spec,
  (forall gs, range_groups (join or_sep spec) = Ok gs -> groups_wf gs = true) ->
  Check true ver spec = spec_Check ver spec.
Proof. exact (fun ver spec => Check_debug_exact ver spec (range_groups_no_panic _)). Qed.
Print Assumptions X01_Check_debug.

Theorem X01_Check_release_outside_contract : forall ver spec,
  (range_groups (join or_sep spec) = Err -> Check false ver spec = None) /\
  (forall gs, Parse ver = None -> range_groups (join or_sep spec) = Ok gs -> groups_wf gs = true ->
              Check false ver spec = Some (range_holds gs zero_version)).
Proof.
  exact (fun ver spec => conj (Check_release_invalid_range ver spec)
                              (fun gs => Check_release_invalid_version ver spec gs)).
Qed.
Print Assumptions X01_Check_release_outside_contract.

(** WIDENING — canonical syntax.  On the canonical strings of a structured version / range (Spec/VersPrint.v: what
    Version.String() prints; comparators in any of their spellings, separated by one space; one spec element per group)
    the modelled parsers of the library are VERIFIED: they return exactly the structure.  Hence, with no reference to the
    parsers left, IsCompatible / Check on canonical strings are "the range holds" in the precedence order of the standard —
    the statement that the /ast operations check against the real code. *)
Theorem X01_Parse_print : forall v, wf_version v = true -> Parse (version_string v) = Some v.
Proof. exact Parse_print. Qed.
Print Assumptions X01_Parse_print.

(** ... and it accepts nothing else: the model of semver.Parse is exactly the inverse of Version.String() on the
    well-formed versions (numbers below 2^64, numeric identifiers without leading zeros, non-empty alphanumeric identifiers) *)
Theorem X01_Parse_characterised : forall s v, Parse s = Some v <-> wf_version v = true /\ s = version_string v.
Proof. exact Parse_iff. Qed.
Print Assumptions X01_Parse_characterised.

(** for parsed versions, equivalent in the precedence order = equal up to build metadata *)
Theorem X01_parsed_precedence_eq : forall a b v w, Parse a = Some v -> Parse b = Some w ->
  (prec v w = Eq <-> v_major v = v_major w /\ v_minor v = v_minor w /\ v_patch v = v_patch w /\ v_pre v = v_pre w).
Proof. exact parsed_prec_eq. Qed.
Print Assumptions X01_parsed_precedence_eq.

Theorem X01_range_groups_print : forall gs, sgroups_ok gs = true ->
  range_groups (join or_sep (map group_string gs)) = Ok (strip gs).
Proof. exact range_groups_print. Qed.
Print Assumptions X01_range_groups_print.

Theorem X01_IsCompatible_canonical : forall v gs, wf_version v = true -> sgroups_ok gs = true ->
  IsCompatible (version_string v) (map group_string gs) = Some (range_holds (strip gs) v).
Proof. exact IsCompatible_print. Qed.
Print Assumptions X01_IsCompatible_canonical.

Theorem X01_Check_canonical : forall dbg v gs, wf_version v = true -> sgroups_ok gs = true ->
  Check dbg (version_string v) (map group_string gs) = Some (range_holds (strip gs) v).
Proof. exact Check_print. Qed.
Print Assumptions X01_Check_canonical.

(** the elements of spec are alternatives, and Check agrees with IsCompatible (both builds), on canonical strings *)
Theorem X01_spec_elements_are_alternatives : forall v a b, wf_version v = true -> sgroups_ok a = true -> sgroups_ok b = true ->
  IsCompatible (version_string v) (map group_string a ++ map group_string b) =
  match IsCompatible (version_string v) (map group_string a), IsCompatible (version_string v) (map group_string b) with
  | Some x, Some y => Some (x || y)
  | _, _ => None
  end.
Proof. exact IsCompatible_alternatives. Qed.
Print Assumptions X01_spec_elements_are_alternatives.

Theorem X01_Check_agrees_with_IsCompatible : forall v gs dbg, wf_version v = true -> sgroups_ok gs = true ->
  Check dbg (version_string v) (map group_string gs) = IsCompatible (version_string v) (map group_string gs).
Proof. exact Check_agrees. Qed.
Print Assumptions X01_Check_agrees_with_IsCompatible.

(** WIDENING — the wildcard rules of the modelled range parser (the table in range.go), for canonical wildcard
    comparators in every operator spelling [s] of every comparator [c]; [wild_expansion c lo hi] is
      >= : [>= lo]   > : [>= hi]   < : [< lo]   <= : [< hi]   = : [>= lo; < hi]   != : [< lo; >= hi].
    The numbers are bounded by Go's int (strconv.Atoi, i+1 without overflow): M + 1 < 2^63. *)
Theorem X01_wildcard_minor : forall c s M, In s (op_spellings c) -> 0 <= M -> M + 1 < 2 ^ 63 ->
  range_groups (s ++ dec_nonneg M ++ [46; 120]) = Ok [wild_expansion c (plain M 0 0) (plain (M + 1) 0 0)].
Proof. exact wildcard_minor. Qed.
Print Assumptions X01_wildcard_minor.

Theorem X01_wildcard_patch : forall c s M m, In s (op_spellings c) -> 0 <= M < 2 ^ 64 -> 0 <= m -> m + 1 < 2 ^ 63 ->
  range_groups (s ++ dec_nonneg M ++ [46] ++ dec_nonneg m ++ [46; 120]) = Ok [wild_expansion c (plain M m 0) (plain M (m + 1) 0)].
Proof. exact wildcard_patch. Qed.
Print Assumptions X01_wildcard_patch.

(** the library's quirk, as it is:  M.x.x  does not mean  M.x  but  >= M.0.0 < M.1.0 *)
Theorem X01_wildcard_xx_quirk : forall c s M, In s (op_spellings c) -> 0 <= M < 2 ^ 64 ->
  range_groups (s ++ dec_nonneg M ++ [46; 120; 46; 120]) = Ok [wild_expansion c (plain M 0 0) (plain M 1 0)].
Proof. exact wildcard_xx. Qed.
Print Assumptions X01_wildcard_xx_quirk.

Theorem X01_wildcard_meaning : forall lo hi v,
  range_holds [wild_expansion CEQ lo hi] v = true <-> prec v lo <> Lt /\ prec v hi = Lt.
Proof. exact wild_eq_holds. Qed.
Print Assumptions X01_wildcard_meaning.

Example X01_wildcard_nonvacuous :
  In [] (op_spellings CEQ) /\ In [33; 61] (op_spellings CNE) /\
  range_groups [49; 46; 120] = Ok [[(CGE, plain 1 0 0); (CLT, plain 2 0 0)]] /\
  range_groups [33; 61; 49; 46; 50; 46; 120] = Ok [[(CLT, plain 1 2 0); (CGE, plain 1 3 0)]] /\
  IsCompatible V115 [V1x] = Some true /\ IsCompatible V115 [[49; 46; 120; 46; 120]] = Some false /\
  IsCompatible [49; 46; 48; 46; 53] [[49; 46; 120; 46; 120]] = Some true.
Proof. vm_compute. intuition congruence. Qed.

(** non-vacuity of the canonical-syntax theorems: 1.2.3-alpha.1+b7 against  ">1.0.0 <2.0.0-0 || !=4.2.1 ==1.2.3-alpha.1" *)
Definition x01_v : Version :=
  {| v_major := 1; v_minor := 2; v_patch := 3;
     v_pre := [{| pr_str := [97; 108; 112; 104; 97]; pr_num := 0; pr_isnum := false |}; {| pr_str := []; pr_num := 1; pr_isnum := true |}];
     v_build := [[98; 55]] |}.
Definition x01_plain (a b c : Z) : Version := {| v_major := a; v_minor := b; v_patch := c; v_pre := []; v_build := [] |}.
Definition x01_gs : list (list scomp) :=
  [[(CGT, [62], x01_plain 1 0 0);
    (CLT, [60], {| v_major := 2; v_minor := 0; v_patch := 0; v_pre := [{| pr_str := []; pr_num := 0; pr_isnum := true |}]; v_build := [] |})];
   [(CNE, [33; 61], x01_plain 4 2 1);
    (CEQ, [61; 61], {| v_major := 1; v_minor := 2; v_patch := 3; v_pre := v_pre x01_v; v_build := [] |})]].

Example X01_canonical_nonvacuous :
  wf_version x01_v = true /\ sgroups_ok x01_gs = true /\
  version_string x01_v = [49; 46; 50; 46; 51; 45; 97; 108; 112; 104; 97; 46; 49; 43; 98; 55] /\
  map group_string x01_gs =
    [[62; 49; 46; 48; 46; 48; 32; 60; 50; 46; 48; 46; 48; 45; 48];
     [33; 61; 52; 46; 50; 46; 49; 32; 61; 61; 49; 46; 50; 46; 51; 45; 97; 108; 112; 104; 97; 46; 49]] /\
  IsCompatible (version_string x01_v) (map group_string x01_gs) = Some true /\
  range_holds (strip x01_gs) x01_v = true /\
  range_holds (strip x01_gs) (x01_plain 4 2 1) = false.
Proof. vm_compute. intuition congruence. Qed.

(** non-vacuity: the examples of the package's documentation, pre-release precedence from the standard
    (1.0.0-alpha < 1.0.0-alpha.1 < 1.0.0-alpha.beta < 1.0.0-beta < 1.0.0-beta.2 < 1.0.0-beta.11 < 1.0.0-rc.1 < 1.0.0),
    a wildcard, an invalid version, an invalid range *)
Example X01_IsCompatible_nonvacuous :
  (exists gs, range_groups (join or_sep [R1; R2]) = Ok gs /\ groups_wf gs = true /\ length gs = 2%nat) /\
  IsCompatible V123 [R1; R2] = Some true /\ IsCompatible V311 [R1; R2] = Some true /\
  IsCompatible V211 [R1; R2] = Some false /\ IsCompatible V421 [R1; R2] = Some false /\
  IsCompatible VBADV [V100] = Some false /\ IsCompatible V100 [V123; VBADR] = Some false /\
  IsCompatible V115 [V1x] = Some true /\ IsCompatible V200 [V1x] = Some false /\
  Check true V123 [R1; R2] = Some true /\ Check true VBADV [V100] = None /\ Check false VBADV [V000] = Some true.
Proof.
  split; [eexists; split; [vm_compute; reflexivity|split; reflexivity]|].
  vm_compute. intuition congruence.
Qed.

Example X01_precedence_nonvacuous :
  (forall a b, In (a, b) [(PAlpha, PAlpha1); (PAlpha1, PAlphaBeta); (PAlphaBeta, PBeta); (PBeta, PBeta2);
                          (PBeta2, PBeta11); (PBeta11, PRc1); (PRc1, V100)] ->
     match Parse a, Parse b with Some v, Some w => prec v w = Lt /\ Compare v w = -1 | _, _ => False end) /\
  match Parse V100b, Parse V100 with Some v, Some w => prec v w = Eq /\ v <> w | _, _ => False end.
Proof.
  split.
  - intros a b H. cbn [In] in H.
    repeat (destruct H as [H|H]; [inversion H; subst; vm_compute; split; reflexivity|]). destruct H.
  - vm_compute. split; [reflexivity|discriminate].
Qed.
