(** C14 — Join/Getw pack fixed-width words losslessly; Slice copies a bit range.
    Only the property theorems (each closed by [exact]), their axiom audit and
    non-vacuity examples.  Vocabulary (Spec/JoinSpec.v): [cdiv64 n = (n+63)/64],
    [packed vs w] = the low [w] bits of every value one after the other,
    [zeros n] = [n] false bits, [flat] = the bit sequence of a bitmap.

    Sizes: the model computes positions in unbounded [Z]; Go's int / int32 agree
    while 64*len < 2^31 (DESIGN section 3) — the theorems themselves carry no size bound.
    Values need not even be in [0,2^64): [Join] masks them first.

    Frame condition ("leaving the input unchanged"): the model's functions are pure —
    [Join]/[Slice] receive an immutable list and return a new one — so the clause holds of
    the model by construction and needs no theorem; on the implementation it is checked by
    the before/after comparison of the correspondence run (flag 1 in the observation). *)
From Coq Require Import ZArith List Bool Lia.
From Low Require Import Lib.MachInt Lib.Bits Lib.BitSeq Model.BitmapJoin Model.LegacyBitmap Spec.JoinSpec
  Proofs.JoinProofs Model.BitmapMask Spec.MaskSpec Model.BitmapGetw32 Spec.GetwSpec Proofs.GetwProofs
  Model.BitmapOf Model.BitmapSliceArray Spec.SliceArraySpec Proofs.SliceArrayProofs
  Model.BitmapFmt Spec.FmtSpec Proofs.FmtProofs Proofs.SliceLaws
  Model.Rank Model.BitmapNext Spec.NextSpec Spec.SliceComposeSpec Proofs.SliceCompose.
Import ListNotations.
Open Scope Z_scope.

(** Join(values, w) never panics for a legal width and returns ceil(len*w/64) words whose bits are
    the low w bits of the values in order, followed by zeros ("no other bit is set"). *)
Theorem C14_Join : forall vs w, width_ok w ->
  exists r, Join vs w = Some r /\
    words_ok r /\ zlen r = cdiv64 (zlen vs * w) /\
    flat r = packed vs w ++ zeros (64 * zlen r - zlen vs * w).
Proof. exact Join_spec_holds. Qed.
Print Assumptions C14_Join.

(** [packed] with the truncation written out, as in DESIGN section 6 *)
Theorem C14_packed_mod : forall vs w, 0 <= w ->
  packed vs w = concat (map (fun v => bits (Z.to_nat w) (v mod 2 ^ w)) vs).
Proof. exact packed_mod. Qed.
Print Assumptions C14_packed_mod.

(** Getw(Join(values, w), i, w) = values[i] mod 2^w for every index *)
Theorem C14_Getw_Join : forall vs w, width_ok w ->
  exists r, Join vs w = Some r /\
    forall i, 0 <= i < zlen vs -> Getw r i w = Some (nth (Z.to_nat i) vs 0 mod 2 ^ w).
Proof. exact Getw_Join. Qed.
Print Assumptions C14_Getw_Join.

(** Slice(words, from, to) never panics on 0 <= from <= to <= 64*len and returns ceil((to-from)/64)
    words whose bits are bits [from, to) of the input followed by zeros. *)
Theorem C14_Slice : forall ws from to, words_ok ws -> 0 <= from <= to -> to <= 64 * zlen ws ->
  exists r, Slice ws from to = Some r /\
    words_ok r /\ zlen r = cdiv64 (to - from) /\
    flat r = firstn (Z.to_nat (to - from)) (skipn (Z.to_nat from) (flat ws))
             ++ zeros (64 * zlen r - (to - from)).
Proof. exact Slice_spec_holds. Qed.
Print Assumptions C14_Slice.

(** the same, bit by bit, in the words of the property *)
Theorem C14_Slice_bitwise : forall ws from to, words_ok ws -> 0 <= from <= to -> to <= 64 * zlen ws ->
  exists r, Slice ws from to = Some r /\ zlen r = cdiv64 (to - from) /\
    (forall j, 0 <= j < to - from -> bitz (flat r) j = bitz (flat ws) (from + j)) /\
    (forall j, to - from <= j -> bitz (flat r) j = false).
Proof. exact Slice_bitwise. Qed.
Print Assumptions C14_Slice_bitwise.

(** the boolean checkers that judge the implementation's output in the correspondence run decide
    exactly the specification, and the specification allows one result only *)
Theorem C14_checkers : forall vs w ws from to r,
  (spec_Join_ok vs w r = true <-> spec_Join vs w r) /\
  (spec_Slice_ok ws from to r = true <-> spec_Slice ws from to r).
Proof. exact (fun vs w ws from to r => conj (spec_Join_ok_iff vs w r) (spec_Slice_ok_iff ws from to r)). Qed.
Print Assumptions C14_checkers.

Theorem C14_spec_unique : forall vs w ws from to r r',
  (spec_Join vs w r -> spec_Join vs w r' -> r = r') /\
  (spec_Slice ws from to r -> spec_Slice ws from to r' -> r = r').
Proof. exact (fun vs w ws from to r r' => conj (spec_Join_unique vs w r r') (spec_Slice_unique ws from to r r')). Qed.
Print Assumptions C14_spec_unique.

(** ** Widening: neighbouring code of the package that Join/Getw/Slice rely on or are combined with *)

(** bitmap/mask.go: the six tables as [initMasks] fills them (uint64 shifts and wraps written out) hold
    exactly the closed forms of Lib/Bits.v that every model of the package uses for a table read, and a
    read outside a table panics: [Mask], [RMask] have 65 entries, the other four 64. *)
Theorem C14_mask_tables : forall j, mask_lookups initMasks j = spec_mask_lookups j.
Proof. exact mask_tables_correct. Qed.
Print Assumptions C14_mask_tables.

(** Getw on ANY bitmap and ANY index: the number formed by bits [i*w, i*w+w) of the bitmap, a panic
    when that window does not lie inside the bitmap (negative index included).  First over unbounded
    positions, then for the model with Go's int32 product [i *= w], which agrees while i*w fits int32. *)
Theorem C14_Getw_any : forall bm i w, width_ok w -> words_ok bm ->
  Getw bm i w = (if (0 <=? i) && (i * w <? 64 * zlen bm)
                 then Some (val_lsb (firstn (Z.to_nat w) (skipn (Z.to_nat (i * w)) (flat bm)))) else None).
Proof. exact Getw_any. Qed.
Print Assumptions C14_Getw_any.

Theorem C14_Getw32_any : forall bm i w, width_ok w -> words_ok bm -> - 2^31 <= i * w < 2^31 ->
  Getw32 bm i w = spec_Getw_any bm i w.
Proof. exact Getw32_any. Qed.
Print Assumptions C14_Getw32_any.

(** the models in unbounded [Z] used by the theorems above are the int32 code while positions fit int32 *)
Theorem C14_int32_agree : forall bm i w from to,
  (- 2^31 <= i * w < 2^31 -> Getw32 bm i w = Getw bm i w) /\
  (0 <= to - from -> to - from + 63 < 2^31 -> Slice32 bm from to = Slice bm from to).
Proof. exact (fun bm i w from to => conj (Getw32_eq bm i w) (Slice32_eq bm from to)). Qed.
Print Assumptions C14_int32_agree.

(** lossless in the other direction: splitting a bitmap into its w-bit elements with Getw and joining
    them again gives the bitmap back *)
Theorem C14_SplitJoin : forall bm w, width_ok w -> words_ok bm -> 64 * zlen bm < 2^31 ->
  SplitJoin bm w = Some bm.
Proof. exact SplitJoin_id. Qed.
Print Assumptions C14_SplitJoin.

(** Slice seen through ToArray (what the repository's TestSlice observes): the set positions of the
    slice are the set positions of the input inside [from, to), shifted down by [from].  Uses
    [ToArray ws = Some (ones (flat ws))], proved here for the model of bitmap/toarray.go. *)
Theorem C14_ToArray_ones : forall ws, words_ok ws -> ToArray ws = Some (ones (flat ws)).
Proof. exact ToArray_ones. Qed.
Print Assumptions C14_ToArray_ones.

Theorem C14_Slice_ToArray : forall ws from to, words_ok ws -> 0 <= from <= to -> to <= 64 * zlen ws ->
  SliceToArray ws from to =
    Some (map (fun p => p - from) (filter (fun p => (from <=? p) && (p <? to)) (ones (flat ws)))).
Proof. exact SliceToArray_correct. Qed.
Print Assumptions C14_Slice_ToArray.

(** laws users rely on when they combine the functions: the full range is the identity, a slice of a
    slice is the slice of the composed range, Join at width 64 is the identity *)
Theorem C14_Slice_full : forall ws, words_ok ws -> Slice ws 0 (64 * zlen ws) = Some ws.
Proof. exact Slice_full. Qed.
Print Assumptions C14_Slice_full.

Theorem C14_Slice_Slice : forall ws a b c d, words_ok ws -> 0 <= a <= b -> b <= 64 * zlen ws ->
  0 <= c <= d -> d <= b - a ->
  exists r1, Slice ws a b = Some r1 /\ Slice r1 c d = Slice ws (a + c) (a + d).
Proof. exact Slice_Slice. Qed.
Print Assumptions C14_Slice_Slice.

Theorem C14_Join_64 : forall vs, words_ok vs -> Join vs 64 = Some vs.
Proof. exact Join_64. Qed.
Print Assumptions C14_Join_64.

(** a packed array sliced at element boundaries is the packed sub-list *)
Theorem C14_Join_Slice : forall vs w k m, width_ok w -> 0 <= k <= m -> m <= zlen vs ->
  exists R, Join vs w = Some R /\
    Slice R (k * w) (m * w) = Join (firstn (Z.to_nat (m - k)) (skipn (Z.to_nat k) vs)) w.
Proof. exact Join_Slice. Qed.
Print Assumptions C14_Join_Slice.

(** counting and searching inside a slice = counting and searching inside the range of the original
    (C14 composed with C01 Rank64 and C13 NextOne / PrevOne): for [r = Slice ws a b] and [0 <= j < b-a],
    Rank64 of [r] at [j] = (1-bits of [ws] in [a, a+j), bit [a+j] of [ws]); NextOne / PrevOne of [r] over
    [j, b-a) = the first / last 1-bit of [ws] in [a+j, b), minus [a], or -1. *)
Theorem C14_Slice_Rank64 : forall ws a b tr j, words_ok ws -> 0 <= a <= b -> b <= 64 * zlen ws ->
  0 <= j < b - a ->
  SliceRank64 ws a b tr j =
    Some (rank1z (flat ws) (a + j) - rank1z (flat ws) a, Z.b2z (bitz (flat ws) (a + j))).
Proof. exact SliceRank64_correct. Qed.
Print Assumptions C14_Slice_Rank64.

Theorem C14_Slice_NextOne : forall ws a b j, words_ok ws -> 0 <= a <= b -> b <= 64 * zlen ws ->
  0 <= j < b - a ->
  SliceNextOne ws a b j = Some (shift_down a (spec_NextOne ws (a + j) b)).
Proof. exact SliceNextOne_correct. Qed.
Print Assumptions C14_Slice_NextOne.

Theorem C14_Slice_PrevOne : forall ws a b j, words_ok ws -> 0 <= a <= b -> b <= 64 * zlen ws ->
  0 <= j < b - a ->
  SlicePrevOne ws a b j = Some (shift_down a (spec_PrevOne ws (a + j) b)).
Proof. exact SlicePrevOne_correct. Qed.
Print Assumptions C14_Slice_PrevOne.

(** bitmap/fmt.go, the package's printer: Fmt of an integer of any of the 8 integer types prints its
    8*size binary digits (two's complement), least significant first, in groups of 8 separated by a
    space; the elements of a slice are separated by commas; a non-integer panics (an empty slice of
    anything prints as "").  All integers, all slice lengths. *)
Theorem C14_Fmt : forall kind is_slice vals, Fmt kind is_slice vals = spec_Fmt kind is_slice vals.
Proof. exact Fmt_correct. Qed.
Print Assumptions C14_Fmt.

(** a bitmap printed by Fmt shows exactly its bit sequence: the digits of the output are [flat] *)
Theorem C14_Fmt_bitmap : forall ws,
  exists s, Fmt 7 true ws = Some s /\ filter is_digit s = map bitchar (flat ws).
Proof. exact Fmt_bitmap. Qed.
Print Assumptions C14_Fmt_bitmap.

(** The pre-fix Slice returned ((to-from)+63)&^63 WORDS: 128 for the 69-bit range [1,70). *)
Theorem C14_slice_len_refuted :
  exists ws from to r, words_ok ws /\ 0 <= from <= to /\ to <= 64 * zlen ws /\
    Slice_legacy ws from to = Some r /\ zlen r <> cdiv64 (to - from).
Proof.
  exists [1; 2; 3], 1, 70. eexists. split; [apply words_okb_ok; reflexivity|].
  split; [lia|]. split; [vm_compute; congruence|]. split; [vm_compute; reflexivity|].
  vm_compute. congruence.
Qed.
Print Assumptions C14_slice_len_refuted.

(** non-vacuity, Join/Getw: width 4, three values with bits above the width that must be cut off;
    width 32 crossing a word boundary; width 64 *)
Example C14_Join_nonvacuous :
  width_ok 4 /\ width_ok 32 /\ width_ok 64 /\
  Join [0x1f; 0xf2; 0x103] 4 = Some [0x32f] /\ cdiv64 (zlen [0x1f; 0xf2; 0x103] * 4) = 1 /\
  Getw [0x32f] 1 4 = Some 2 /\ nth 1 [0x1f; 0xf2; 0x103] 0 mod 2 ^ 4 = 2 /\
  Join [2^32 + 5; 6; 7] 32 = Some [0x600000005; 7] /\
  Getw [0x600000005; 7] 2 32 = Some 7 /\
  Join [2^64 - 1; 1] 64 = Some [2^64 - 1; 1] /\
  packed [0x1f; 0xf2] 4 = [true; true; true; true; false; true; false; false].
Proof. vm_compute. intuition congruence. Qed.

(** non-vacuity, Slice: the 69-bit range [1,70) of three words (the witness of the defect) now has
    2 words; an empty range; an aligned full-word range *)
Example C14_Slice_nonvacuous :
  words_ok [1; 2; 3] /\ (0 <= 1 <= 70 /\ 70 <= 64 * zlen [1; 2; 3]) /\
  Slice [1; 2; 3] 1 70 = Some [0; 1] /\ cdiv64 (70 - 1) = 2 /\
  Slice [1; 2; 3] 64 66 = Some [2] /\
  Slice [1; 2; 3] 5 5 = Some [] /\
  Slice [1; 2; 3] 64 192 = Some [2; 3] /\
  bitz (flat [1; 2; 3]) 65 = true.
Proof.
  split; [apply words_okb_ok; reflexivity|].
  vm_compute. intuition congruence.
Qed.

(** non-vacuity, widening: table entries at the ends (the shift by 64 that wraps), reads that panic;
    Getw inside / outside / negative, and the int32 wrap (index 2^26 of width 64 reads element 0 in Go,
    which is why the statement needs i*w inside int32); split + Join *)
Example C14_widen_nonvacuous :
  mask_lookups initMasks 64 = [Some (2^64 - 1); Some 0; None; None; None; None] /\
  mask_lookups initMasks 63 = [Some (2^63 - 1); Some (2^63); Some (2^64 - 1); Some 0; Some (2^63); Some (2^63 - 1)] /\
  mask_lookups initMasks (-1) = [None; None; None; None; None; None] /\
  Getw [0xa5; 7] 1 4 = Some 0xa /\ spec_Getw_any [0xa5; 7] 1 4 = Some 0xa /\
  Getw [0xa5; 7] 32 4 = None /\ Getw [0xa5; 7] (-1) 4 = None /\
  Getw32 [0xa5; 7] (2^26) 64 = Some 0xa5 /\ spec_Getw_any [0xa5; 7] (2^26) 64 = None /\
  width_ok 16 /\ 64 * zlen [0xa5; 2^63 + 7] < 2^31 /\
  SplitJoin [0xa5; 2^63 + 7] 16 = Some [0xa5; 2^63 + 7] /\
  elements [0xa5; 2^63 + 7] 16 = [0xa5; 0; 0; 0; 7; 0; 0; 0x8000] /\
  SliceToArray [0xa5; 2^63 + 7] 2 67 = Some [0; 3; 5; 62; 63; 64] /\
  ones (flat [0xa5; 2^63 + 7]) = [0; 2; 5; 7; 64; 65; 66; 127].
Proof. vm_compute. intuition congruence. Qed.

(** non-vacuity, Fmt: the example of the function's doc comment, int32(0x0102) --> "01000000 10000000 …";
    a negative int8; a two-word bitmap; the panic *)
Example C14_Fmt_nonvacuous :
  Fmt 4 false [0x0102] = Some [48;49;48;48;48;48;48;48; 32; 49;48;48;48;48;48;48;48; 32;
                               48;48;48;48;48;48;48;48; 32; 48;48;48;48;48;48;48;48] /\
  Fmt 0 false [-2] = Some [48;49;49;49;49;49;49;49] /\
  Fmt 1 true [1; 128] = Some [49;48;48;48;48;48;48;48; 44; 48;48;48;48;48;48;48;49] /\
  Fmt 8 false [7] = None /\ Fmt 8 true [] = Some [] /\
  (exists s, Fmt 7 true [5; 2^63] = Some s /\ length s = 143%nat).
Proof. vm_compute. intuition (try congruence). eexists. split; reflexivity. Qed.

Example C14_laws_nonvacuous :
  Slice [0xa5; 7] 0 128 = Some [0xa5; 7] /\
  Slice [0xa5; 2^63 + 7] 2 127 = Some [2^63 + 2^62 + 0x29; 1] /\
  Slice [2^63 + 2^62 + 0x29; 1] 3 70 = Slice [0xa5; 2^63 + 7] 5 72 /\
  Slice [0xa5; 2^63 + 7] 5 72 = Some [2^61 + 2^60 + 2^59 + 5; 0] /\
  Join [0xa5; 2^64 - 1] 64 = Some [0xa5; 2^64 - 1] /\
  Join [1; 2; 3; 4; 5] 16 = Some [0x4000300020001; 5] /\ Slice [0x4000300020001; 5] 32 80 = Some [0x500040003] /\
  Join [3; 4; 5] 16 = Some [0x500040003].
Proof. vm_compute. intuition congruence. Qed.

Example C14_compose_nonvacuous :
  SliceRank64 [0xa5; 2^63 + 7] 2 127 true 63 = Some (4, 1) /\
  rank1z (flat [0xa5; 2^63 + 7]) 65 - rank1z (flat [0xa5; 2^63 + 7]) 2 = 4 /\
  SliceNextOne [0xa5; 2^63 + 7] 2 127 6 = Some 62 /\ spec_NextOne [0xa5; 2^63 + 7] 8 127 = 64 /\
  SlicePrevOne [0xa5; 2^63 + 7] 2 127 6 = Some 64 /\
  SliceNextOne [0xa5; 2^63 + 7] 8 64 0 = Some (-1).
Proof. vm_compute. intuition congruence. Qed.
