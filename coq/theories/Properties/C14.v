(** C14 — Join / Getw / Slice (placeholder: the refuted legacy statement only; replaced when the proofs land) *)
From Coq Require Import ZArith List Bool Lia.
From Low Require Import Lib.Bits Lib.BitSeq Model.BitmapJoin Model.LegacyBitmap Spec.JoinSpec.
Import ListNotations.
Open Scope Z_scope.

(** The pre-fix Slice returned ((to-from)+63)&^63 WORDS: 128 for the 69-bit range [1,70). *)
Theorem C14_slice_len_refuted :
  exists ws from to r, words_ok ws /\ 0 <= from <= to /\ to <= 64 * zlen ws /\
    Slice_legacy ws from to = Some r /\ zlen r <> cdiv64 (to - from).
Proof.
  exists [1; 2; 3], 1, 70. eexists. split; [apply words_okb_ok; reflexivity|].
  split; [lia|]. split; [vm_compute; congruence|]. split; [vm_compute; reflexivity|].
  vm_compute. congruence.
Qed.
Print Assumptions C14_slice_len_refuted.
