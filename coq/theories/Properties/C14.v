(** C14 — Join/Getw pack fixed-width words losslessly; Slice copies a bit range.
    Only the property theorems (each closed by [exact]), their axiom audit and
    non-vacuity examples.  Vocabulary (Spec/JoinSpec.v): [cdiv64 n = (n+63)/64],
    [packed vs w] = the low [w] bits of every value one after the other,
    [zeros n] = [n] false bits, [flat] = the bit sequence of a bitmap.

    Sizes: the model computes positions in unbounded [Z]; Go's int / int32 agree
    while 64*len < 2^31 (DESIGN section 3) — the theorems themselves carry no size bound.
    Values need not even be in [0,2^64): [Join] masks them first.

    Frame condition ("leaving the input unchanged"): the model's functions are pure —
    [Join]/[Slice] receive an immutable list and return a new one — so the clause holds of
    the model by construction and needs no theorem; on the implementation it is checked by
    the before/after comparison of the correspondence run (flag 1 in the observation). *)
From Coq Require Import ZArith List Bool Lia.
From Low Require Import Lib.Bits Lib.BitSeq Model.BitmapJoin Model.LegacyBitmap Spec.JoinSpec
  Proofs.JoinProofs.
Import ListNotations.
Open Scope Z_scope.

(** Join(values, w) never panics for a legal width and returns ceil(len*w/64) words whose bits are
    the low w bits of the values in order, followed by zeros ("no other bit is set"). *)
Theorem C14_Join : forall vs w, width_ok w ->
  exists r, Join vs w = Some r /\
    words_ok r /\ zlen r = cdiv64 (zlen vs * w) /\
    flat r = packed vs w ++ zeros (64 * zlen r - zlen vs * w).
Proof. exact Join_spec_holds. Qed.
Print Assumptions C14_Join.

(** [packed] with the truncation written out, as in DESIGN section 6 *)
Theorem C14_packed_mod : forall vs w, 0 <= w ->
  packed vs w = concat (map (fun v => bits (Z.to_nat w) (v mod 2 ^ w)) vs).
Proof. exact packed_mod. Qed.
Print Assumptions C14_packed_mod.

(** Getw(Join(values, w), i, w) = values[i] mod 2^w for every index *)
Theorem C14_Getw_Join : forall vs w, width_ok w ->
  exists r, Join vs w = Some r /\
    forall i, 0 <= i < zlen vs -> Getw r i w = Some (nth (Z.to_nat i) vs 0 mod 2 ^ w).
Proof. exact Getw_Join. Qed.
Print Assumptions C14_Getw_Join.

(** Slice(words, from, to) never panics on 0 <= from <= to <= 64*len and returns ceil((to-from)/64)
    words whose bits are bits [from, to) of the input followed by zeros. *)
Theorem C14_Slice : forall ws from to, words_ok ws -> 0 <= from <= to -> to <= 64 * zlen ws ->
  exists r, Slice ws from to = Some r /\
    words_ok r /\ zlen r = cdiv64 (to - from) /\
    flat r = firstn (Z.to_nat (to - from)) (skipn (Z.to_nat from) (flat ws))
             ++ zeros (64 * zlen r - (to - from)).
Proof. exact Slice_spec_holds. Qed.
Print Assumptions C14_Slice.

(** the same, bit by bit, in the words of the property *)
Theorem C14_Slice_bitwise : forall ws from to, words_ok ws -> 0 <= from <= to -> to <= 64 * zlen ws ->
  exists r, Slice ws from to = Some r /\ zlen r = cdiv64 (to - from) /\
    (forall j, 0 <= j < to - from -> bitz (flat r) j = bitz (flat ws) (from + j)) /\
    (forall j, to - from <= j -> bitz (flat r) j = false).
Proof. exact Slice_bitwise. Qed.
Print Assumptions C14_Slice_bitwise.

(** the boolean checkers that judge the implementation's output in the correspondence run decide
    exactly the specification, and the specification admits one result only *)
Theorem C14_checkers : forall vs w ws from to r,
  (spec_Join_ok vs w r = true <-> spec_Join vs w r) /\
  (spec_Slice_ok ws from to r = true <-> spec_Slice ws from to r).
Proof. exact (fun vs w ws from to r => conj (spec_Join_ok_iff vs w r) (spec_Slice_ok_iff ws from to r)). Qed.
Print Assumptions C14_checkers.

Theorem C14_spec_unique : forall vs w ws from to r r',
  (spec_Join vs w r -> spec_Join vs w r' -> r = r') /\
  (spec_Slice ws from to r -> spec_Slice ws from to r' -> r = r').
Proof. exact (fun vs w ws from to r r' => conj (spec_Join_unique vs w r r') (spec_Slice_unique ws from to r r')). Qed.
Print Assumptions C14_spec_unique.

(** The pre-fix Slice returned ((to-from)+63)&^63 WORDS: 128 for the 69-bit range [1,70). *)
Theorem C14_slice_len_refuted :
  exists ws from to r, words_ok ws /\ 0 <= from <= to /\ to <= 64 * zlen ws /\
    Slice_legacy ws from to = Some r /\ zlen r <> cdiv64 (to - from).
Proof.
  exists [1; 2; 3], 1, 70. eexists. split; [apply words_okb_ok; reflexivity|].
  split; [lia|]. split; [vm_compute; congruence|]. split; [vm_compute; reflexivity|].
  vm_compute. congruence.
Qed.
Print Assumptions C14_slice_len_refuted.

(** non-vacuity, Join/Getw: width 4, three values with bits above the width that must be cut off;
    width 32 crossing a word boundary; width 64 *)
Example C14_Join_nonvacuous :
  width_ok 4 /\ width_ok 32 /\ width_ok 64 /\
  Join [0x1f; 0xf2; 0x103] 4 = Some [0x32f] /\ cdiv64 (zlen [0x1f; 0xf2; 0x103] * 4) = 1 /\
  Getw [0x32f] 1 4 = Some 2 /\ nth 1 [0x1f; 0xf2; 0x103] 0 mod 2 ^ 4 = 2 /\
  Join [2^32 + 5; 6; 7] 32 = Some [0x600000005; 7] /\
  Getw [0x600000005; 7] 2 32 = Some 7 /\
  Join [2^64 - 1; 1] 64 = Some [2^64 - 1; 1] /\
  packed [0x1f; 0xf2] 4 = [true; true; true; true; false; true; false; false].
Proof. vm_compute. intuition congruence. Qed.

(** non-vacuity, Slice: the 69-bit range [1,70) of three words (the witness of the defect) now has
    2 words; an empty range; an aligned full-word range *)
Example C14_Slice_nonvacuous :
  words_ok [1; 2; 3] /\ (0 <= 1 <= 70 /\ 70 <= 64 * zlen [1; 2; 3]) /\
  Slice [1; 2; 3] 1 70 = Some [0; 1] /\ cdiv64 (70 - 1) = 2 /\
  Slice [1; 2; 3] 64 66 = Some [2] /\
  Slice [1; 2; 3] 5 5 = Some [] /\
  Slice [1; 2; 3] 64 192 = Some [2; 3] /\
  bitz (flat [1; 2; 3]) 65 = true.
Proof.
  split; [apply words_okb_ok; reflexivity|].
  vm_compute. intuition congruence.
Qed.
