(** C15 placeholder while the pipeline is brought up; replaced by the real theorems. *)
From Coq Require Import ZArith List Bool.
From Low Require Import Model.TailBitmap.
Open Scope Z_scope.
Theorem C15_new_partial : forall o, Offset (NewTailBitmap o) = o /\ Words (NewTailBitmap o) = nil.
Proof. exact (fun o => conj eq_refl eq_refl). Qed.
Print Assumptions C15_new_partial.
