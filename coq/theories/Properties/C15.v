(** C15 — TailBitmap never forgets a set bit nor invents one, across any Set/Compact history.

    Only the property theorems (each closed by [exact]), their axiom audit and
    non-vacuity examples.  Vocabulary:
      [run (NewTailBitmap o) ops = Some (s, rs)]  the history [ops] (any list of Set / Compact / Get /
            Get1 calls, Model/TailBitmap.v) ran without a panic to state [s] with per-call results [rs];
      [was_set ops j := In (OSet j) ops]           index [j] has been set by the history;
      [TInv o P off ws]  (Spec/TailBitmapInv.v)    the invariant of DESIGN section 6 for the exported fields;
      [tb_end off ws := off + 64*len(ws)]          the end of the stored words.
    No bound on the length of the history, on the number of words or on the indices: arithmetic is
    unbounded [Z].  That Go's int64 arithmetic agrees is a theorem too (C15_int64_agrees, at the end of
    this file: any int64 offset, indices away from the last word of the int64 range), and the one place
    where it does not is exhibited (C15_int64_top_word_refuted). *)
From Coq Require Import ZArith List Bool Lia.
From Low Require Import Lib.Bits Lib.BitSeq Model.TailBitmap Spec.TailBitmapSpec Spec.TailBitmapInv
  Spec.TailBitmapObs Proofs.TailBitmapProofs Proofs.TailBitmapHist Proofs.TailBitmapChecker
  Proofs.TailBitmapSound Proofs.TailBitmapLiteral Proofs.TailBitmapWords Run.C15.
From Low Require Import Lib.MachInt Model.TailBitmapI64 Proofs.TailBitmapI64Proofs Proofs.TailBitmapI64Checker Proofs.TailBitmapPair.
From Low Require Model.BitmapOf.
Import ListNotations.
Open Scope Z_scope.

(** The invariant holds in every reachable state: Offset is a multiple of 64 and at least [o]; the
    first stored word is not all-ones; everything below Offset is a member (Offset never moved past a
    position that is still 0); every stored bit is 1 exactly when its index has been set; every index
    ever set is below the end of the stored words. *)
Theorem C15_invariant : forall o ops s rs, o mod 64 = 0 ->
  run (NewTailBitmap o) ops = Some (s, rs) ->
  TInv o (was_set ops) (Offset s) (Words s).
Proof. exact reach_TInv. Qed.
Print Assumptions C15_invariant.

(** Along any history Offset and the end of the stored words never decrease, and Offset only moves
    past positions that have been set (the run of the concatenation is the concatenation of the runs). *)
Theorem C15_offset_monotone : forall o ops1 ops2 s1 rs1 s2 rs2, o mod 64 = 0 ->
  run (NewTailBitmap o) ops1 = Some (s1, rs1) -> run s1 ops2 = Some (s2, rs2) ->
  Offset s1 <= Offset s2 /\
  tb_end (Offset s1) (Words s1) <= tb_end (Offset s2) (Words s2) /\
  (forall j, Offset s1 <= j < Offset s2 -> was_set (ops1 ++ ops2) j) /\
  run (NewTailBitmap o) (ops1 ++ ops2) = Some (s2, rs1 ++ rs2).
Proof. exact reach_mono. Qed.
Print Assumptions C15_offset_monotone.

(** Get1(j) is 1 exactly when j < o or j has been set, and Get(j) is that bit at position j mod 64,
    for EVERY j below the end of the stored words (negative j included). [m] is the truth value of
    "j is a member". *)
Theorem C15_Get_is_membership : forall o ops s rs j (m : bool), o mod 64 = 0 ->
  run (NewTailBitmap o) ops = Some (s, rs) ->
  j < tb_end (Offset s) (Words s) ->
  (m = true <-> j < o \/ was_set ops j) ->
  Get1 s j = Some (Z.b2z m) /\ Get s j = Some (Z.shiftl (Z.b2z m) (j mod 64)).
Proof. exact reach_Get. Qed.
Print Assumptions C15_Get_is_membership.

(** Get/Get1 are defined (do not panic) exactly below the end of the stored words. *)
Theorem C15_Get_defined_below_end : forall o ops s rs j, o mod 64 = 0 ->
  run (NewTailBitmap o) ops = Some (s, rs) ->
  (Get s j <> None <-> j < tb_end (Offset s) (Words s)) /\
  (Get1 s j <> None <-> j < tb_end (Offset s) (Words s)).
Proof. exact reach_Get_defined. Qed.
Print Assumptions C15_Get_defined_below_end.

(** The result recorded for the k-th call of a history, when it is a probe, is membership with
    respect to the Sets that came BEFORE it. *)
Theorem C15_probe_results : forall o ops s rs k j (m : bool), o mod 64 = 0 ->
  run (NewTailBitmap o) ops = Some (s, rs) ->
  (m = true <-> j < o \/ was_set (firstn k ops) j) ->
  (nth_error ops k = Some (OGet1 j) -> nth_error rs k = Some (Z.b2z m)) /\
  (nth_error ops k = Some (OGet j) -> nth_error rs k = Some (Z.shiftl (Z.b2z m) (j mod 64))).
Proof. exact reach_probe. Qed.
Print Assumptions C15_probe_results.

(** Every index ever set is below the end of the stored words (so the two theorems above cover every
    j up to the highest index ever set). *)
Theorem C15_set_below_end : forall o ops s rs idx, o mod 64 = 0 ->
  run (NewTailBitmap o) ops = Some (s, rs) -> In (OSet idx) ops ->
  idx < tb_end (Offset s) (Words s).
Proof. exact reach_set_below_end. Qed.
Print Assumptions C15_set_below_end.

(** Compact changes no Get / Get1 result, for any j whatsoever, and not the end. *)
Theorem C15_Compact_changes_no_Get : forall o ops s rs, o mod 64 = 0 ->
  run (NewTailBitmap o) ops = Some (s, rs) ->
  tb_end (Offset (Compact s)) (Words (Compact s)) = tb_end (Offset s) (Words s) /\
  forall j, Get (Compact s) j = Get s j /\ Get1 (Compact s) j = Get1 s j.
Proof. exact reach_Compact. Qed.
Print Assumptions C15_Compact_changes_no_Get.

(** In a reachable state Set and Compact never panic, and a probe below the end never panics: a
    history whose probes are below the end at their time runs to completion. *)
Theorem C15_no_panic : forall o ops s rs, o mod 64 = 0 ->
  run (NewTailBitmap o) ops = Some (s, rs) ->
  forall p, (forall j, p = OGet j \/ p = OGet1 j -> j < tb_end (Offset s) (Words s)) ->
  step s p <> None.
Proof. exact reach_no_panic. Qed.
Print Assumptions C15_no_panic.

(** The bulk calls of the correspondence protocol are nothing but iterated Set. *)
Theorem C15_bulk_is_iterated_Set : forall n s idx,
  set_up n s idx = option_map fst (run s (map OSet (zrange_up idx n))) /\
  set_down n s idx = option_map fst (run s (map OSet (zrange_down idx n))).
Proof. exact (fun n s idx => conj (set_up_run n s idx) (set_down_run n s idx)). Qed.
Print Assumptions C15_bulk_is_iterated_Set.

(** The executable checker that ./check applies to the implementation's observations
    (Spec/TailBitmapSpec.v: check_history) accepts the model's answer on every protocol history,
    bulk calls included, with ([model_history], the protocol's size-bounded domain) or without
    ([prun]) the protocol's domain restrictions. *)
Theorem C15_checker_accepts_model : forall o ps l,
  (model_history o ps = OOk l -> check_history o ps l = true) /\
  (o mod 64 = 0 -> prun (NewTailBitmap o) ps = Some l -> check_history o ps l = true).
Proof. exact (fun o ps l => conj (model_history_accepted o ps l) (prun_accepted o ps l)). Qed.
Print Assumptions C15_checker_accepts_model.

(** The executable checker DECIDES the property of an observed history: on the observations of any
    implementation (uint64 words), [check_history] answers true exactly when every observed state
    satisfies the invariant for the indices set so far, Offset and the end are monotone, Offset only
    passed set positions, every probe returned membership and Compact kept the end
    ([obs_ok], Spec/TailBitmapObs.v).  So OK / SPECFAIL of ./check are statements about the property. *)
Theorem C15_checker_decides_property : forall o ps obs, o mod 64 = 0 ->
  Forall (fun ob => words_ok (snd (fst ob))) obs ->
  (check_history o ps obs = true <-> obs_ok o (o, []) [] ps obs).
Proof. exact check_history_iff. Qed.
Print Assumptions C15_checker_decides_property.


(** non-vacuity: o = 64; set 127 (the last bit of word 0), a set below the offset (ignored), fill
    word 0 back to front so that Offset advances to 128, set a bit two words further, probe a stored 1
    (Get1 and Get), a stored 0 and an implicit 1, Compact. *)
Definition c15_ex_ops : list op :=
  [OSet 127; OSet 3] ++ map OSet (zrange_down 126 63) ++ [OSet 300; OGet1 300; OGet 300; OGet1 299; OGet1 70; OCompact].

Example C15_nonvacuous :
  64 mod 64 = 0 /\
  exists s rs, run (NewTailBitmap 64) c15_ex_ops = Some (s, rs) /\
    Offset s = 128 /\ Words s = [0; 0; 2^44] /\ tb_end (Offset s) (Words s) = 320 /\
    nth_error rs 66 = Some 1 /\ nth_error rs 67 = Some (2^44) /\ nth_error rs 68 = Some 0 /\
    nth_error rs 69 = Some 1 /\
    Get1 s 300 = Some 1 /\ Get s 300 = Some (Z.shiftl 1 (300 mod 64)) /\ Get1 s 299 = Some 0 /\
    Get s 320 = None /\ Get1 s (-1) = Some 1.
Proof.
  split; [reflexivity|]. eexists. eexists. split; [vm_compute; reflexivity|].
  vm_compute. repeat split; reflexivity.
Qed.

(** non-vacuity of the monotonicity statement: a history split in two, Offset moves 0 -> 64 -> 128 *)
Example C15_monotone_nonvacuous :
  exists s1 rs1 s2 rs2,
    run (NewTailBitmap 0) (map OSet (zrange_up 0 64)) = Some (s1, rs1) /\
    run s1 (map OSet (zrange_down 127 64)) = Some (s2, rs2) /\
    Offset s1 = 64 /\ Offset s2 = 128 /\ Words s2 = [].
Proof.
  eexists. eexists. eexists. eexists.
  split; [vm_compute; reflexivity|]. split; [vm_compute; reflexivity|]. vm_compute. auto.
Qed.

(** non-vacuity of the checker theorem: a protocol history with a bulk fill that the model answers *)
Example C15_checker_nonvacuous :
  exists l, model_history 64 [PSetUp 64 200; PGet1 199; PGet 200; PSet 255; PCompact; PSetDown 200 255] = OOk l /\
            length l = 6%nat /\
            check_history 64 [PSetUp 64 200; PGet1 199; PGet 200; PSet 255; PCompact; PSetDown 200 255] l = true.
Proof. eexists. split; [vm_compute; reflexivity|]. vm_compute. auto. Qed.

(** non-vacuity of the decision theorem: an accepted observed history, and a rejected one (a stored
    bit that was never set: the implementation "invented" bit 70) *)
Example C15_decides_nonvacuous :
  check_history 64 [PSet 127; PGet1 127] [(64, [2^63], 0); (64, [2^63], 1)] = true /\
  check_history 64 [PSet 127; PGet1 127] [(64, [2^63 + 64], 0); (64, [2^63 + 64], 1)] = false /\
  Forall (fun ob : Z * list Z * Z => words_ok (snd (fst ob))) [(64, [2^63], 0); (64, [2^63], 1)].
Proof.
  split; [vm_compute; reflexivity|]. split; [vm_compute; reflexivity|].
  repeat constructor; cbn; lia.
Qed.

(** ------------------------------------------------------------------------------------------------
    WIDENED (1): histories that start from an arbitrary well-formed struct literal
    [TailBitmap{Offset: off, Words: ws}] (any value of the unexported [reclaimed]) instead of
    NewTailBitmap.  The bits stored in the literal count as set ([lit_set]); the invariant without the
    head clause ([TInvW]) holds in every reachable state, Offset and the end never decrease, and the
    head clause holds whenever the literal's first word was not all-ones ... *)
Theorem C15_literal_invariant : forall off ws r0 ops s rs, off mod 64 = 0 -> words_ok ws ->
  run (mkTB off ws r0) ops = Some (s, rs) ->
  TInvW off (fun j => lit_set off ws j \/ was_set ops j) (Offset s) (Words s) /\
  off <= Offset s /\ tb_end off ws <= tb_end (Offset s) (Words s) /\
  (head_ok ws -> head_ok (Words s)).
Proof. exact lit_reach. Qed.
Print Assumptions C15_literal_invariant.

(** ... or from the first Compact on. *)
Theorem C15_literal_head_after_Compact : forall off ws r0 ops s rs, off mod 64 = 0 -> words_ok ws ->
  run (mkTB off ws r0) ops = Some (s, rs) -> In OCompact ops -> head_ok (Words s).
Proof. exact lit_head_after_Compact. Qed.
Print Assumptions C15_literal_head_after_Compact.

(** In ANY state, Compact, and a Set into the first stored word (which runs Compact), leave a first
    word that is not all-ones. *)
Theorem C15_head_after_Compact_or_Set_into_first_word :
  (forall s, head_ok (Words (Compact s))) /\
  (forall s idx s', Offset s <= idx < Offset s + 64 -> Set_ s idx = Some s' -> head_ok (Words s')).
Proof. exact (conj Compact_head Set_head). Qed.
Print Assumptions C15_head_after_Compact_or_Set_into_first_word.

(** Get1 / Get = membership (below Offset, stored in the literal, or set since) below the end. *)
Theorem C15_literal_Get_is_membership : forall off ws r0 ops s rs j (m : bool), off mod 64 = 0 -> words_ok ws ->
  run (mkTB off ws r0) ops = Some (s, rs) ->
  j < tb_end (Offset s) (Words s) ->
  (m = true <-> j < off \/ lit_set off ws j \/ was_set ops j) ->
  Get1 s j = Some (Z.b2z m) /\ Get s j = Some (Z.shiftl (Z.b2z m) (j mod 64)).
Proof. exact lit_Get. Qed.
Print Assumptions C15_literal_Get_is_membership.

Theorem C15_literal_no_panic : forall off ws r0 ops s rs, off mod 64 = 0 -> words_ok ws ->
  run (mkTB off ws r0) ops = Some (s, rs) ->
  forall p, (forall j, p = OGet j \/ p = OGet1 j -> j < tb_end (Offset s) (Words s)) ->
  step s p <> None.
Proof. exact lit_no_panic. Qed.
Print Assumptions C15_literal_no_panic.

(** The checker of the protocol operation bitmap.TailBitmap/literal accepts the model. *)
Theorem C15_literal_checker_accepts_model : forall off ws ps l,
  model_literal off ws ps = OOk l -> check_literal off ws ps l = true.
Proof. exact model_literal_accepted. Qed.
Print Assumptions C15_literal_checker_accepts_model.

(** ... and decides the Prop-level property [lit_obs_ok] (Spec/TailBitmapObs.v) of an observed history. *)
Theorem C15_literal_checker_decides_property : forall off ws ps obs, off mod 64 = 0 -> words_ok ws ->
  Forall (fun ob => words_ok (snd (fst ob))) obs ->
  (check_literal off ws ps obs = true <-> lit_obs_ok off ws ps obs).
Proof. exact check_literal_iff. Qed.
Print Assumptions C15_literal_checker_decides_property.

(** WIDENED (2): the exported Words read with the plain bitmap functions (Model/BitmapOf.v).
    In ANY state, for any j >= Offset, bitmap.Get / Get1 on Words at j - Offset are the same reads as
    TailBitmap.Get / Get1 at j (they panic together past the end); SafeGet / SafeGet1 agree below the
    end and return 0 at or past it. *)
Theorem C15_Words_reads_agree : forall s j, Offset s <= j ->
  (BitmapOf.Get (Words s) (j - Offset s) = Get s j /\
   BitmapOf.Get1 (Words s) (j - Offset s) = Get1 s j) /\
  (j < tb_end (Offset s) (Words s) ->
   BitmapOf.SafeGet (Words s) (j - Offset s) = Get s j /\
   BitmapOf.SafeGet1 (Words s) (j - Offset s) = Get1 s j) /\
  (tb_end (Offset s) (Words s) <= j ->
   BitmapOf.SafeGet (Words s) (j - Offset s) = Some 0 /\
   BitmapOf.SafeGet1 (Words s) (j - Offset s) = Some 0).
Proof.
  exact (fun s j Hj => conj (words_Get_agree s j Hj)
                            (conj (words_Safe_in s j Hj) (words_Safe_out s j Hj))).
Qed.
Print Assumptions C15_Words_reads_agree.

(** Hence, after any history, all six reads of a stored position are membership ... *)
Theorem C15_Words_are_membership : forall o ops s rs j (m : bool), o mod 64 = 0 ->
  run (NewTailBitmap o) ops = Some (s, rs) ->
  Offset s <= j < tb_end (Offset s) (Words s) ->
  (m = true <-> j < o \/ was_set ops j) ->
  let i := j - Offset s in
  let g := Some (Z.shiftl (Z.b2z m) (j mod 64)) in
  let b := Some (Z.b2z m) in
  Get s j = g /\ BitmapOf.Get (Words s) i = g /\ BitmapOf.SafeGet (Words s) i = g /\
  Get1 s j = b /\ BitmapOf.Get1 (Words s) i = b /\ BitmapOf.SafeGet1 (Words s) i = b.
Proof. exact reach_words. Qed.
Print Assumptions C15_Words_are_membership.

(** ... and at or past the end the Safe forms return 0, rightly: such a position is not a member. *)
Theorem C15_Words_past_end : forall o ops s rs j, o mod 64 = 0 ->
  run (NewTailBitmap o) ops = Some (s, rs) ->
  tb_end (Offset s) (Words s) <= j ->
  BitmapOf.SafeGet (Words s) (j - Offset s) = Some 0 /\
  BitmapOf.SafeGet1 (Words s) (j - Offset s) = Some 0 /\
  ~ (j < o \/ was_set ops j).
Proof. exact reach_words_past_end. Qed.
Print Assumptions C15_Words_past_end.

(** The checker of the protocol operation bitmap.TailBitmap/words accepts the model. *)
Theorem C15_words_checker_accepts_model : forall o ps js es,
  model_words o ps js = Some (Some es) -> check_words o (hist_after [] ps) js es = true.
Proof. exact model_words_accepted. Qed.
Print Assumptions C15_words_checker_accepts_model.

(** non-vacuity (literal): two leading all-ones words and a partial one; a far Set leaves the all-ones
    head in place (the head clause does NOT hold: that is why it is not claimed); Compact drops both. *)
Example C15_literal_nonvacuous :
  words_ok [2^64 - 1; 2^64 - 1; 5] /\
  exists s1 rs1 s2 rs2,
    run (mkTB 64 [2^64 - 1; 2^64 - 1; 5] 0) [OSet 300; OGet1 70; OGet1 193] = Some (s1, rs1) /\
    Offset s1 = 64 /\ Words s1 = [2^64 - 1; 2^64 - 1; 5; 2^44] /\ rs1 = [0; 1; 0] /\
    run s1 [OCompact; OGet1 192; OGet 194; OGet1 300] = Some (s2, rs2) /\
    Offset s2 = 192 /\ Words s2 = [5; 2^44] /\ rs2 = [0; 1; 4; 1].
Proof.
  split; [apply words_okb_ok; reflexivity|].
  eexists. eexists. eexists. eexists.
  split; [vm_compute; reflexivity|]. split; [reflexivity|]. split; [reflexivity|]. split; [reflexivity|].
  split; [vm_compute; reflexivity|]. vm_compute. auto.
Qed.

Example C15_literal_checker_nonvacuous :
  exists l, model_literal 64 [2^64 - 1; 5] [PGet1 64; PSet 300; PCompact; PGet1 128; PGet1 129] = OOk l /\
            length l = 5%nat /\
            check_literal 64 [2^64 - 1; 5] [PGet1 64; PSet 300; PCompact; PGet1 128; PGet1 129] l = true.
Proof. eexists. split; [vm_compute; reflexivity|]. vm_compute. auto. Qed.

(** non-vacuity (words): after filling word 0 of o = 64 and setting 200, position 200 read six ways,
    an unset stored position, and a position past the end *)
Example C15_words_nonvacuous :
  model_words 64 [PSetUp 64 128; PSet 200] [200; 201; 256] =
    Some (Some [[2^8; 2^8; 1; 1; 2^8; 1]; [0; 0; 0; 0; 0; 0]; [0; 0]]) /\
  check_words 64 (hist_after [] [PSetUp 64 128; PSet 200]) [200; 201; 256]
    [[2^8; 2^8; 1; 1; 2^8; 1]; [0; 0; 0; 0; 0; 0]; [0; 0]] = true.
Proof. split; vm_compute; reflexivity. Qed.

(** ------------------------------------------------------------------------------------------------
    WIDENED (3): Go's int64 arithmetic, instead of the size hypothesis of DESIGN section 3.
    [run64] (Model/TailBitmapI64.v) wraps every int64 operation of the source that can leave the range
    ([idx - Offset], [Offset += 64], [Offset - reclaimed]).  For ANY int64 initial offset it equals the
    unbounded model on every history whose indices are int64, at most 2^61 - 64 above [o], and (for
    Set) below the last 64-bit word of the int64 range -- so all theorems above hold of the int64
    code on those histories. *)
Theorem C15_int64_agrees : forall o ops, in_i64 o -> o <= 2^63 - 1 -> Forall (abs_op o) ops ->
  run64 (NewTailBitmap o) ops = run (NewTailBitmap o) ops.
Proof. exact reach64_eq. Qed.
Print Assumptions C15_int64_agrees.

(** The excluded case is a genuine failure of the property for an in-range offset and in-range
    indices: NewTailBitmap(MaxInt64 - 63) and its 64 positions set one by one.  [Offset += 64] wraps to
    MinInt64 (Offset DEcreases, below o) and Get/Get1 of a position that was set panic.  Replayed on
    the real code: docs/selftest-C15.md ("int64 boundary"). *)
Theorem C15_int64_top_word_refuted :
  let o := 2^63 - 64 in
  let ops := map OSet (zrange_up o 64) in
  o mod 64 = 0 /\ in_i64 o /\ Forall (fun p => match p with OSet j => in_i64 j | _ => True end) ops /\
  exists s rs, run64 (NewTailBitmap o) ops = Some (s, rs) /\
    Offset s = - 2^63 /\ Offset s < o /\ Words s = [] /\
    Get1_64 s (2^63 - 1) = None /\ Get64 s (2^63 - 1) = None.
Proof. exact top_of_range_witness. Qed.
Print Assumptions C15_int64_top_word_refuted.

(** The checker accepts the int64 model on the domain of the protocol operation bitmap.TailBitmap/int64
    (any int64 offset; Set indices below the last word of the range and less than 2^22 above Offset). *)
Theorem C15_int64_checker_accepts_model : forall o ps l,
  model_history64 o ps = OOk l -> check_history o ps l = true.
Proof. exact model_history64_accepted. Qed.
Print Assumptions C15_int64_checker_accepts_model.

(** non-vacuity of the agreement: the second-to-last word of the int64 range, filled and compacted *)
Example C15_int64_nonvacuous :
  let o := 2^63 - 128 in
  in_i64 o /\ Forall (abs_op o) (map OSet (zrange_up o 64) ++ [OGet1 (2^63 - 65)]) /\
  exists s rs, run64 (NewTailBitmap o) (map OSet (zrange_up o 64) ++ [OGet1 (2^63 - 65)]) = Some (s, rs) /\
               Offset s = 2^63 - 64 /\ Words s = [] /\ nth_error rs 64 = Some 1.
Proof.
  cbv zeta. split; [unfold in_i64; lia|]. split.
  - apply Forall_app. split.
    + apply Forall_forall. intros p Hp. apply in_map_iff in Hp. destruct Hp as (j & <- & Hj).
      apply zrange_up_In in Hj. cbn [abs_op]. unfold in_i64. lia.
    + constructor; [cbn [abs_op]; unfold in_i64; lia|constructor].
  - eexists. eexists. split; [vm_compute; reflexivity|]. vm_compute. auto.
Qed.

(** Two TailBitmaps alive at the same time, calls interleaved (op bitmap.TailBitmap/pair): in the model
    the objects are independent values, so each one shows exactly its own history and the pair checker
    (each object's calls and observations, taken alone, pass [check_history]) accepts the model.  The
    correspondence run is what ties the REAL objects to that independence (shared package-level state). *)
Theorem C15_pair_checker_accepts_model : forall oa ob cs l,
  model_pair oa ob cs = OOk l -> check_pair oa ob cs l = true.
Proof. exact model_pair_accepted. Qed.
Print Assumptions C15_pair_checker_accepts_model.

Example C15_pair_nonvacuous :
  exists l, model_pair 0 64 [(false, PSet 3); (true, PSet 70); (false, PGet1 3); (true, PGet1 3); (true, PGet1 71)] = OOk l /\
    l = [(0, [8], 0); (64, [64], 0); (0, [8], 1); (64, [64], 1); (64, [64], 0)] /\
    check_pair 0 64 [(false, PSet 3); (true, PSet 70); (false, PGet1 3); (true, PGet1 3); (true, PGet1 71)] l = true.
Proof. eexists. split; [vm_compute; reflexivity|]. split; vm_compute; reflexivity. Qed.
