(** C15 — TailBitmap never forgets a set bit nor invents one, across any Set/Compact history.

    Only the property theorems (each closed by [exact]), their axiom audit and
    non-vacuity examples.  Vocabulary:
      [run (NewTailBitmap o) ops = Some (s, rs)]  the history [ops] (any list of Set / Compact / Get /
            Get1 calls, Model/TailBitmap.v) ran without a panic to state [s] with per-call results [rs];
      [was_set ops j := In (OSet j) ops]           index [j] has been set by the history;
      [TInv o P off ws]  (Spec/TailBitmapInv.v)    the invariant of DESIGN section 6 for the exported fields;
      [tb_end off ws := off + 64*len(ws)]          the end of the stored words.
    No bound on the length of the history, on the number of words or on the indices: arithmetic is
    unbounded [Z] (size hypothesis of DESIGN section 3: Go's int64 agrees while |o|, |idx| stay far below
    2^63, which no allocatable history can leave). *)
From Coq Require Import ZArith List Bool.
From Low Require Import Lib.Bits Lib.BitSeq Model.TailBitmap Spec.TailBitmapSpec Spec.TailBitmapInv
  Proofs.TailBitmapProofs Proofs.TailBitmapHist Proofs.TailBitmapChecker Run.C15.
Import ListNotations.
Open Scope Z_scope.

(** The invariant holds in every reachable state: Offset is a multiple of 64 and at least [o]; the
    first stored word is not all-ones; everything below Offset is a member (Offset never moved past a
    position that is still 0); every stored bit is 1 exactly when its index has been set; every index
    ever set is below the end of the stored words. *)
Theorem C15_invariant : forall o ops s rs, o mod 64 = 0 ->
  run (NewTailBitmap o) ops = Some (s, rs) ->
  TInv o (was_set ops) (Offset s) (Words s).
Proof. exact reach_TInv. Qed.
Print Assumptions C15_invariant.

(** Along any history Offset and the end of the stored words never decrease, and Offset only moves
    past positions that have been set (the run of the concatenation is the concatenation of the runs). *)
Theorem C15_offset_monotone : forall o ops1 ops2 s1 rs1 s2 rs2, o mod 64 = 0 ->
  run (NewTailBitmap o) ops1 = Some (s1, rs1) -> run s1 ops2 = Some (s2, rs2) ->
  Offset s1 <= Offset s2 /\
  tb_end (Offset s1) (Words s1) <= tb_end (Offset s2) (Words s2) /\
  (forall j, Offset s1 <= j < Offset s2 -> was_set (ops1 ++ ops2) j) /\
  run (NewTailBitmap o) (ops1 ++ ops2) = Some (s2, rs1 ++ rs2).
Proof. exact reach_mono. Qed.
Print Assumptions C15_offset_monotone.

(** Get1(j) is 1 exactly when j < o or j has been set, and Get(j) is that bit at position j mod 64,
    for EVERY j below the end of the stored words (negative j included). [m] is the truth value of
    "j is a member". *)
Theorem C15_Get_is_membership : forall o ops s rs j (m : bool), o mod 64 = 0 ->
  run (NewTailBitmap o) ops = Some (s, rs) ->
  j < tb_end (Offset s) (Words s) ->
  (m = true <-> j < o \/ was_set ops j) ->
  Get1 s j = Some (Z.b2z m) /\ Get s j = Some (Z.shiftl (Z.b2z m) (j mod 64)).
Proof. exact reach_Get. Qed.
Print Assumptions C15_Get_is_membership.

(** Get/Get1 are defined (do not panic) exactly below the end of the stored words. *)
Theorem C15_Get_defined_below_end : forall o ops s rs j, o mod 64 = 0 ->
  run (NewTailBitmap o) ops = Some (s, rs) ->
  (Get s j <> None <-> j < tb_end (Offset s) (Words s)) /\
  (Get1 s j <> None <-> j < tb_end (Offset s) (Words s)).
Proof. exact reach_Get_defined. Qed.
Print Assumptions C15_Get_defined_below_end.

(** The result recorded for the k-th call of a history, when it is a probe, is membership with
    respect to the Sets that came BEFORE it. *)
Theorem C15_probe_results : forall o ops s rs k j (m : bool), o mod 64 = 0 ->
  run (NewTailBitmap o) ops = Some (s, rs) ->
  (m = true <-> j < o \/ was_set (firstn k ops) j) ->
  (nth_error ops k = Some (OGet1 j) -> nth_error rs k = Some (Z.b2z m)) /\
  (nth_error ops k = Some (OGet j) -> nth_error rs k = Some (Z.shiftl (Z.b2z m) (j mod 64))).
Proof. exact reach_probe. Qed.
Print Assumptions C15_probe_results.

(** Every index ever set is below the end of the stored words (so the two theorems above cover every
    j up to the highest index ever set). *)
Theorem C15_set_below_end : forall o ops s rs idx, o mod 64 = 0 ->
  run (NewTailBitmap o) ops = Some (s, rs) -> In (OSet idx) ops ->
  idx < tb_end (Offset s) (Words s).
Proof. exact reach_set_below_end. Qed.
Print Assumptions C15_set_below_end.

(** Compact changes no Get / Get1 result, for any j whatsoever, and not the end. *)
Theorem C15_Compact_changes_no_Get : forall o ops s rs, o mod 64 = 0 ->
  run (NewTailBitmap o) ops = Some (s, rs) ->
  tb_end (Offset (Compact s)) (Words (Compact s)) = tb_end (Offset s) (Words s) /\
  forall j, Get (Compact s) j = Get s j /\ Get1 (Compact s) j = Get1 s j.
Proof. exact reach_Compact. Qed.
Print Assumptions C15_Compact_changes_no_Get.

(** In a reachable state Set and Compact never panic, and a probe below the end never panics: a
    history whose probes are below the end at their time runs to completion. *)
Theorem C15_no_panic : forall o ops s rs, o mod 64 = 0 ->
  run (NewTailBitmap o) ops = Some (s, rs) ->
  forall p, (forall j, p = OGet j \/ p = OGet1 j -> j < tb_end (Offset s) (Words s)) ->
  step s p <> None.
Proof. exact reach_no_panic. Qed.
Print Assumptions C15_no_panic.

(** The bulk calls of the correspondence protocol are nothing but iterated Set. *)
Theorem C15_bulk_is_iterated_Set : forall n s idx,
  set_up n s idx = option_map fst (run s (map OSet (zrange_up idx n))) /\
  set_down n s idx = option_map fst (run s (map OSet (zrange_down idx n))).
Proof. exact (fun n s idx => conj (set_up_run n s idx) (set_down_run n s idx)). Qed.
Print Assumptions C15_bulk_is_iterated_Set.

(** The executable checker that ./check applies to the implementation's observations
    (Spec/TailBitmapSpec.v: check_history) accepts the model's answer on every protocol history,
    bulk calls included, with ([model_history], the protocol's size-bounded domain) or without
    ([prun]) the protocol's domain restrictions. *)
Theorem C15_checker_accepts_model : forall o ps l,
  (model_history o ps = OOk l -> check_history o ps l = true) /\
  (o mod 64 = 0 -> prun (NewTailBitmap o) ps = Some l -> check_history o ps l = true).
Proof. exact (fun o ps l => conj (model_history_accepted o ps l) (prun_accepted o ps l)). Qed.
Print Assumptions C15_checker_accepts_model.

(** non-vacuity: o = 64; set 127 (the last bit of word 0), a set below the offset (ignored), fill
    word 0 back to front so that Offset advances to 128, set a bit two words further, probe a stored 1
    (Get1 and Get), a stored 0 and an implicit 1, Compact. *)
Definition c15_ex_ops : list op :=
  [OSet 127; OSet 3] ++ map OSet (zrange_down 126 63) ++ [OSet 300; OGet1 300; OGet 300; OGet1 299; OGet1 70; OCompact].

Example C15_nonvacuous :
  64 mod 64 = 0 /\
  exists s rs, run (NewTailBitmap 64) c15_ex_ops = Some (s, rs) /\
    Offset s = 128 /\ Words s = [0; 0; 2^44] /\ tb_end (Offset s) (Words s) = 320 /\
    nth_error rs 66 = Some 1 /\ nth_error rs 67 = Some (2^44) /\ nth_error rs 68 = Some 0 /\
    nth_error rs 69 = Some 1 /\
    Get1 s 300 = Some 1 /\ Get s 300 = Some (Z.shiftl 1 (300 mod 64)) /\ Get1 s 299 = Some 0 /\
    Get s 320 = None /\ Get1 s (-1) = Some 1.
Proof.
  split; [reflexivity|]. eexists. eexists. split; [vm_compute; reflexivity|].
  vm_compute. repeat split; reflexivity.
Qed.

(** non-vacuity of the monotonicity statement: a history split in two, Offset moves 0 -> 64 -> 128 *)
Example C15_monotone_nonvacuous :
  exists s1 rs1 s2 rs2,
    run (NewTailBitmap 0) (map OSet (zrange_up 0 64)) = Some (s1, rs1) /\
    run s1 (map OSet (zrange_down 127 64)) = Some (s2, rs2) /\
    Offset s1 = 64 /\ Offset s2 = 128 /\ Words s2 = [].
Proof.
  eexists. eexists. eexists. eexists.
  split; [vm_compute; reflexivity|]. split; [vm_compute; reflexivity|]. vm_compute. auto.
Qed.

(** non-vacuity of the checker theorem: a protocol history with a bulk fill that the model answers *)
Example C15_checker_nonvacuous :
  exists l, model_history 64 [PSetUp 64 200; PGet1 199; PGet 200; PSet 255; PCompact; PSetDown 200 255] = OOk l /\
            length l = 6%nat /\
            check_history 64 [PSetUp 64 200; PGet1 199; PGet 200; PSet 255; PCompact; PSetDown 200 255] l = true.
Proof. eexists. split; [vm_compute; reflexivity|]. vm_compute. auto. Qed.
