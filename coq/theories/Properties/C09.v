(** C09 — bitstr order and truncate-compare.  Only the property theorems, each
    closed by [exact], their axiom audit, and non-vacuity examples.

    Vocabulary (Spec/BitstrSpec.v): [B s f t] = the bits s[8*floor(f/8), t);
    [encB b] = the canonical encoding of an arbitrary bit list (packed MSB
    first, zero padded, then the mask byte); [bits_cmp] = lexicographic order on
    bit lists, proper prefix first (Lib/Lex.v); [upto a b] = the first |b| bits of
    the plain bytes a (all of a when shorter).  [Some r] = the Go function
    returns r without panicking.  No bound on any length: [int]/[int32] are
    unbounded [Z] in the model (strings with 8*len+7 >= 2^31 are outside the
    statement: their bit positions do not fit New's int32 arguments). *)
From Coq Require Import ZArith List Bool.
From Low Require Import Lib.MachInt Lib.Bits Lib.BitSeq Lib.Bytes Lib.Lex Lib.Pack_bw Lib.Val Model.Bitstr Model.Bitstr32 Model.LegacyBitstr32 Spec.BitstrSpec Spec.BitstrSearchSpec Spec.BitstrDecodeSpec Proofs.BitstrProofs Proofs.BitstrSearchProofs Proofs.Bitstr32Proofs Proofs.BitstrDecodeProofs.
Import ListNotations.
Open Scope Z_scope.

(** New(s, from, to) is the canonical encoding of the bit string s[8*floor(from/8), to) *)
Theorem C09_new : forall s f t, bytes_ok s -> 0 <= f <= t -> t <= 8 * zlen s ->
  New s f t = Some (encB (B s f t)).
Proof. exact New_encB. Qed.
Print Assumptions C09_new.

(** Len of the encoding of ANY bit list is its length in bits *)
Theorem C09_len : forall b, Len (encB b) = Some (zlen b).
Proof. exact Len_encB. Qed.
Print Assumptions C09_len.

(** Cmp of the encodings of ANY two bit lists is the sign of their lexicographic comparison *)
Theorem C09_cmp : forall b1 b2, Cmp (encB b1) (encB b2) = Some (cmp_sign (bits_cmp b1 b2)).
Proof. exact Cmp_encB. Qed.
Print Assumptions C09_cmp.

(** … hence a total order: 0 exactly for equal bit strings (so encB is injective), … *)
Theorem C09_cmp_zero_iff : forall b1 b2, Cmp (encB b1) (encB b2) = Some 0 <-> b1 = b2.
Proof. exact Cmp_zero_iff. Qed.
Print Assumptions C09_cmp_zero_iff.

(** … antisymmetric, … *)
Theorem C09_cmp_antisym : forall b1 b2,
  Cmp (encB b2) (encB b1) = option_map Z.opp (Cmp (encB b1) (encB b2)).
Proof. exact Cmp_antisym. Qed.
Print Assumptions C09_cmp_antisym.

(** … transitive, … *)
Theorem C09_cmp_trans : forall b1 b2 b3,
  Cmp (encB b1) (encB b2) = Some (-1) -> Cmp (encB b2) (encB b3) = Some (-1) ->
  Cmp (encB b1) (encB b3) = Some (-1).
Proof. exact Cmp_lt_trans. Qed.
Print Assumptions C09_cmp_trans.

(** … a proper prefix sorts first, and otherwise the first differing bit decides *)
Theorem C09_cmp_prefix : forall b r, r <> [] -> Cmp (encB b) (encB (b ++ r)) = Some (-1).
Proof. exact Cmp_prefix. Qed.
Print Assumptions C09_cmp_prefix.

Theorem C09_cmp_first_diff : forall c r1 r2,
  Cmp (encB (c ++ false :: r1)) (encB (c ++ true :: r2)) = Some (-1).
Proof. exact Cmp_first_diff. Qed.
Print Assumptions C09_cmp_first_diff.

(** CmpUpto(a, e) compares the first Len(e) bits of the plain bytes a with e's bit string *)
Theorem C09_cmpupto : forall a b, bytes_ok a ->
  CmpUpto a (encB b) = Some (cmp_sign (bits_cmp (upto a b) b)).
Proof. exact CmpUpto_encB. Qed.
Print Assumptions C09_cmpupto.

(** … so it is 0 exactly when the bit string is a prefix of a's bits
    ([upto a b = b] forces 8*len(a) >= |b|) *)
Theorem C09_cmpupto_zero_iff : forall a b, bytes_ok a ->
  CmpUpto a (encB b) = Some 0 <-> upto a b = b.
Proof. exact CmpUpto_zero_iff. Qed.
Print Assumptions C09_cmpupto_zero_iff.

(** StrCmpUpto and CmpUpto always agree.  PARTIAL BY DESIGN (DESIGN §6 C09): in
    the model the string->slice re-typing (unsafe) is the identity on the bytes.
    Since the fix 907cc2b the slice header is built explicitly (Cap = Len), so the
    cast is well-formed; what is NOT proved is that no store ever goes through the
    alias of the immutable string — it is monitored by the bitstr.StrCmpUpto
    operation on every case (result = CmpUpto on a copy, inputs unchanged). *)
Theorem C09_StrCmpUpto : forall a b, StrCmpUpto a b = CmpUpto a b.
Proof. exact StrCmpUpto_eq. Qed.
Print Assumptions C09_StrCmpUpto.

(** hence StrCmpUpto has CmpUpto's meaning (in the model; see the remark above) *)
Theorem C09_strcmpupto : forall a b, bytes_ok a ->
  StrCmpUpto a (encB b) = Some (cmp_sign (bits_cmp (upto a b) b)).
Proof. exact StrCmpUpto_encB. Qed.
Print Assumptions C09_strcmpupto.

(** cmpBytes is bytes.Compare on both sides of its 8-byte switch, on every call
    whose manual loop stays in range (all calls CmpUpto makes) … *)
Theorem C09_cmpBytes : forall a b, (length a <= length b)%nat \/ 8 <= zlen a ->
  cmpBytes a b = Some (cmp_sign (bytes_cmp a b)).
Proof. exact cmpBytes_eq. Qed.
Print Assumptions C09_cmpBytes.

(** … and it indexes out of range exactly when a is shorter than 8 bytes and b is a proper prefix of a *)
Theorem C09_cmpBytes_panic : forall a b,
  cmpBytes a b = None <-> zlen a < 8 /\ exists r, r <> [] /\ a = b ++ r.
Proof. exact cmpBytes_panic. Qed.
Print Assumptions C09_cmpBytes_panic.

(** the compositions that the protocol operations run, against the spec functions they use *)
Theorem C09_len_new : forall s f t, bytes_ok s -> 0 <= f <= t -> t <= 8 * zlen s ->
  match New s f t with Some e => Len e | None => None end = Some (spec_Len s f t).
Proof. exact Len_New. Qed.
Print Assumptions C09_len_new.

(** … whose value is to - 8*floor(from/8) *)
Theorem C09_len_new_value : forall s f t, bytes_ok s -> 0 <= f <= t -> t <= 8 * zlen s ->
  match New s f t with Some e => Len e | None => None end = Some (t - 8 * (f / 8)).
Proof. exact Len_New_value. Qed.
Print Assumptions C09_len_new_value.

Theorem C09_cmp_new : forall s1 f1 t1 s2 f2 t2,
  bytes_ok s1 -> 0 <= f1 <= t1 -> t1 <= 8 * zlen s1 ->
  bytes_ok s2 -> 0 <= f2 <= t2 -> t2 <= 8 * zlen s2 ->
  match New s1 f1 t1, New s2 f2 t2 with Some e1, Some e2 => Cmp e1 e2 | _, _ => None end
  = Some (spec_Cmp s1 f1 t1 s2 f2 t2).
Proof. exact Cmp_New. Qed.
Print Assumptions C09_cmp_new.

Theorem C09_cmpupto_new : forall a s f t, bytes_ok a -> bytes_ok s -> 0 <= f <= t -> t <= 8 * zlen s ->
  match New s f t with Some e => CmpUpto a e | None => None end = Some (spec_CmpUpto a s f t).
Proof. exact CmpUpto_New. Qed.
Print Assumptions C09_cmpupto_new.

(** * WIDENED: how the functions are combined by users *)

(** truncate-compare is the comparison of the truncation:
    CmpUpto(a, e) = Cmp(New(a, 0, min(8*len(a), Len(e))), e)   (op bitstr.CmpUpto/viaNew) *)
Theorem C09_cmpupto_via_new : forall a b, bytes_ok a ->
  CmpUpto a (encB b) =
  match New a 0 (Z.min (8 * zlen a) (zlen b)) with Some e => Cmp e (encB b) | None => None end.
Proof. exact CmpUpto_via_New. Qed.
Print Assumptions C09_cmpupto_via_new.

(** CmpUpto(., e) is monotone along Go's string order … *)
Theorem C09_cmpupto_monotone : forall a1 a2 b r1 r2, bytes_ok a1 -> bytes_ok a2 ->
  bytes_cmp a1 a2 <> Gt ->
  CmpUpto a1 (encB b) = Some r1 -> CmpUpto a2 (encB b) = Some r2 -> r1 <= r2.
Proof. exact CmpUpto_mono. Qed.
Print Assumptions C09_cmpupto_monotone.

(** … so among sorted keys those that start with the bit string form one contiguous block
    (a binary search with CmpUpto / StrCmpUpto is sound) … *)
Theorem C09_cmpupto_block : forall a1 a2 a3 b, bytes_ok a1 -> bytes_ok a2 -> bytes_ok a3 ->
  bytes_cmp a1 a2 <> Gt -> bytes_cmp a2 a3 <> Gt ->
  CmpUpto a1 (encB b) = Some 0 -> CmpUpto a3 (encB b) = Some 0 -> CmpUpto a2 (encB b) = Some 0.
Proof. exact CmpUpto_block. Qed.
Print Assumptions C09_cmpupto_block.

(** … and over a whole sorted key list no call panics, the results are the spec's and
    non-decreasing (-1…, 0…, 1…)   (op bitstr.CmpUpto/sorted) *)
Theorem C09_search_sorted : forall ks b, Forall bytes_ok ks -> keys_sortedb ks = true ->
  exists rs, opt_all (map (fun k => CmpUpto k (encB b)) ks) = Some rs /\
             rs = spec_search ks b /\ nondecb rs = true.
Proof. exact search_sorted. Qed.
Print Assumptions C09_search_sorted.

(** cutting the same string at a later bit gives a larger bit string (equal only for the same cut) *)
Theorem C09_cmp_new_extend : forall s t1 t2, bytes_ok s -> 0 <= t1 <= t2 -> t2 <= 8 * zlen s ->
  exists r, match New s 0 t1, New s 0 t2 with Some e1, Some e2 => Cmp e1 e2 | _, _ => None end = Some r
            /\ r <= 0 /\ (r = 0 <-> t1 = t2).
Proof. exact Cmp_New_extend. Qed.
Print Assumptions C09_cmp_new_extend.

(** a whole string encodes as itself plus 0xff, and on whole strings Cmp is Go's string order *)
Theorem C09_new_whole : forall s, bytes_ok s -> New s 0 (8 * zlen s) = Some (s ++ [255]).
Proof. exact New_whole. Qed.
Print Assumptions C09_new_whole.

Theorem C09_cmp_whole : forall x y, bytes_ok x -> bytes_ok y ->
  Cmp (x ++ [255]) (y ++ [255]) = Some (cmp_sign (bytes_cmp x y)).
Proof. exact Cmp_whole. Qed.
Print Assumptions C09_cmp_whole.

(** * WIDENED: the int32 arithmetic of New / Len made explicit (Model/Bitstr32.v; the
    protocol operations run this model).  Since the /repo fix b2a771a the end byte is
    computed in int64 and NO side condition is left for New on the literal domain
    0 <= from <= to <= 8*len(s), to an int32.  Len computes modulo 2^32; the only
    condition left is that its value (the bit length) fits int32 — always true of New's
    outputs. *)

(** on the whole int32 range the wraps of New are invisible … *)
Theorem C09_new32_eq : forall s f t, 0 <= f <= t -> t < 2 ^ 31 -> New32 s f t = New s f t.
Proof. exact New32_eq. Qed.
Print Assumptions C09_new32_eq.

(** … Len's intermediate wraps cancel whenever its value fits int32 … *)
Theorem C09_len32_eq : forall bs v, Len bs = Some v -> - 2 ^ 31 <= v < 2 ^ 31 -> Len32 bs = Some v.
Proof. exact Len32_eq. Qed.
Print Assumptions C09_len32_eq.

(** … so C09_new and C09_len hold of the int32 model on Go's whole range *)
Theorem C09_new32 : forall s f t, bytes_ok s -> 0 <= f <= t -> t <= 8 * zlen s -> t < 2 ^ 31 ->
  New32 s f t = Some (encB (B s f t)).
Proof. exact New32_encB. Qed.
Print Assumptions C09_new32.

Theorem C09_len32 : forall b, zlen b < 2 ^ 31 -> Len32 (encB b) = Some (zlen b).
Proof. exact Len32_encB. Qed.
Print Assumptions C09_len32.

Theorem C09_len32_new32 : forall s f t, bytes_ok s -> 0 <= f <= t -> t <= 8 * zlen s -> t < 2 ^ 31 ->
  match New32 s f t with Some e => Len32 e | None => None end = Some (t - 8 * (f / 8)).
Proof. exact Len32_New32. Qed.
Print Assumptions C09_len32_new32.

(** in particular within 7 bits of MaxInt32, where the code before b2a771a panicked *)
Theorem C09_new32_top : forall s f t, bytes_ok s -> 0 <= f <= t -> t <= 8 * zlen s ->
  2 ^ 31 - 7 <= t < 2 ^ 31 -> New32 s f t = Some (encB (B s f t)).
Proof. exact New32_top_fixed. Qed.
Print Assumptions C09_new32_top.

(** LEGACY (Model/LegacyBitstr32.v = New before b2a771a).  Below the top of the range the
    old arithmetic agreed with the unbounded model … *)
Theorem C09_new32_legacy_eq : forall s f t, 0 <= f <= t -> t + 7 < 2 ^ 31 ->
  New32_legacy s f t = New s f t.
Proof. exact New32_legacy_eq. Qed.
Print Assumptions C09_new32_legacy_eq.

(** … but FINDING (fixed by b2a771a): within 7 bits of MaxInt32, [(toBit+7)>>3]
    overflowed int32 and [make] got a negative length, whatever the string … *)
Theorem C09_new32_legacy_top_refuted : forall s f t, 0 <= f <= t -> 2 ^ 31 - 7 <= t < 2 ^ 31 ->
  New32_legacy s f t = None.
Proof. exact New32_legacy_top. Qed.
Print Assumptions C09_new32_legacy_top_refuted.

(** … and such a call lay inside the property's literal domain 0 <= from <= to <= 8*len(s)
    (a string of 2^28 bytes; replayed on the pre-fix code: "makeslice: len out of range"). *)
Theorem C09_new_legacy_full_int32_range_refuted : exists s f t,
  bytes_ok s /\ 0 <= f <= t /\ t <= 8 * zlen s /\ in_i32 f /\ in_i32 t /\ New32_legacy s f t = None.
Proof. exact New32_legacy_top_witness. Qed.
Print Assumptions C09_new_legacy_full_int32_range_refuted.

(** * WIDENED: the encodings as a decidable set of byte strings, and decoding
    ([wf_enc], [decB] of Spec/BitstrDecodeSpec.v) *)

(** the canonical encodings are exactly the well-formed byte strings … *)
Theorem C09_wf_iff : forall e, wf_enc e = true <-> exists b, e = encB b.
Proof. exact wf_iff. Qed.
Print Assumptions C09_wf_iff.

(** … decoding inverts encoding, both ways … *)
Theorem C09_decode_encode : forall b, decB (encB b) = b.
Proof. exact decB_encB. Qed.
Print Assumptions C09_decode_encode.

Theorem C09_encode_decode : forall e, wf_enc e = true -> encB (decB e) = e.
Proof. exact encB_decB. Qed.
Print Assumptions C09_encode_decode.

(** … New produces a well-formed encoding that decodes to the bits of the range
    (op bitstr.New/decode) … *)
Theorem C09_new_decodes : forall s f t e, bytes_ok s -> 0 <= f <= t -> t <= 8 * zlen s ->
  New s f t = Some e -> wf_enc e = true /\ decB e = B s f t.
Proof. exact New_wf. Qed.
Print Assumptions C09_new_decodes.

(** … and Len / Cmp / CmpUpto on ANY well-formed byte strings are length / order /
    truncated order of the bit strings they denote *)
Theorem C09_len_wf : forall e, wf_enc e = true -> Len e = Some (zlen (decB e)).
Proof. exact Len_wf. Qed.
Print Assumptions C09_len_wf.

Theorem C09_cmp_wf : forall e1 e2, wf_enc e1 = true -> wf_enc e2 = true ->
  Cmp e1 e2 = Some (cmp_sign (bits_cmp (decB e1) (decB e2))).
Proof. exact Cmp_wf. Qed.
Print Assumptions C09_cmp_wf.

Theorem C09_cmpupto_wf : forall a e, bytes_ok a -> wf_enc e = true ->
  CmpUpto a e = Some (cmp_sign (bits_cmp (upto a (decB e)) (decB e))).
Proof. exact CmpUpto_wf. Qed.
Print Assumptions C09_cmpupto_wf.

(** * non-vacuity: the hypotheses are satisfiable and the statements say something
    ("abc" = 0x61 0x62 0x63; the doc example New("abc", 5, 12)) *)
Example C09_new_nonvacuous :
  bytes_ok [97; 98; 99] /\ 0 <= 5 <= 12 /\ 12 <= 8 * zlen [97; 98; 99] /\
  B [97; 98; 99] 5 12 = [false; true; true; false; false; false; false; true; false; true; true; false] /\
  New [97; 98; 99] 5 12 = Some [0x61; 0x60; 0xf0] /\
  New [97; 98; 99] 8 8 = Some [0xff] /\ New [97; 98; 99] 3 3 = Some [0x60; 0xe0] /\
  New [97; 98; 99] 0 24 = Some [97; 98; 99; 0xff].
Proof.
  repeat match goal with |- _ /\ _ => split end;
    try (apply bytes_okb_ok; reflexivity); try (vm_compute; reflexivity); vm_compute; congruence.
Qed.

Example C09_len_nonvacuous :
  Len (encB []) = Some 0 /\ Len (encB [true; false; true]) = Some 3 /\
  encB [true; false; true] = [0xa0; 0xe0] /\
  Len (encB (repeat true 8)) = Some 8 /\ encB (repeat true 8) = [0xff; 0xff] /\
  Len (encB (repeat false 17)) = Some 17.
Proof. repeat split; vm_compute; reflexivity. Qed.

Example C09_cmp_nonvacuous :
  (* same byte length, tie broken by the mask byte: 0 < 00 *)
  Cmp (encB [false]) (encB [false; false]) = Some (-1) /\
  (* different byte lengths, equal payload prefix *)
  Cmp (encB (repeat false 8)) (encB (repeat false 9)) = Some (-1) /\
  Cmp (encB [true]) (encB [false; true; true]) = Some 1 /\
  Cmp (encB []) (encB []) = Some 0 /\ Cmp (encB [true]) (encB []) = Some 1 /\
  (* the order is not the order of the encodings as byte strings: [0xff] vs [0x00,0x80] *)
  Cmp (encB []) (encB [false]) = Some (-1) /\ bytes_cmp (encB []) (encB [false]) = Gt.
Proof. repeat split; vm_compute; reflexivity. Qed.

Example C09_cmpupto_nonvacuous :
  bytes_ok [0x61; 0x7f] /\
  (* a longer than the payload: bits of a after Len(b) are ignored *)
  CmpUpto [0x61; 0x7f] (encB [false; true; true; false; false; false; false; true; false]) = Some 0 /\
  upto [0x61; 0x7f] [false; true; true] = [false; true; true] /\
  CmpUpto [0x61; 0x7f] (encB [false; true; true; false; false; false; false; true; true]) = Some (-1) /\
  (* a shorter than the payload: a proper prefix sorts first *)
  CmpUpto [0x61] (encB [false; true; true; false; false; false; false; true; false]) = Some (-1) /\
  CmpUpto [] (encB []) = Some 0 /\ CmpUpto [0x80] (encB [false]) = Some 1.
Proof.
  repeat match goal with |- _ /\ _ => split end;
    try (apply bytes_okb_ok; reflexivity); try (vm_compute; reflexivity); vm_compute; congruence.
Qed.

Example C09_cmpBytes_nonvacuous :
  cmpBytes [1; 2] [1; 2; 0] = Some (-1) /\ cmpBytes [1; 3] [1; 2; 0] = Some 1 /\
  cmpBytes [1; 2; 3] [1; 2] = None /\ cmpBytes [1; 3; 3] [1; 2] = Some 1 /\
  cmpBytes [1; 2; 3; 4; 5; 6; 7; 8; 9] [1; 2] = Some 1 /\
  cmpBytes [1; 2; 3; 4; 5; 6; 7; 8] [1; 2; 3; 4; 5; 6; 7; 9] = Some (-1).
Proof. repeat split; vm_compute; reflexivity. Qed.

Example C09_search_nonvacuous :
  let ks := [[0x60]; [0x61]; [0x61; 0x00]; [0x61; 0xff]; [0x62]] in
  let b := [false; true; true; false; false; false; false; true] in   (* 'a' *)
  Forall bytes_ok ks /\ keys_sortedb ks = true /\
  opt_all (map (fun k => CmpUpto k (encB b)) ks) = Some [-1; 0; 0; 0; 1] /\
  nondecb [-1; 0; 0; 0; 1] = true /\ nondecb [0; -1] = false /\
  keys_sortedb [[0x61; 0x00]; [0x61]] = false /\
  (* CmpUpto = Cmp o New(truncation) on a concrete pair *)
  CmpUpto [0x61; 0xff] (encB b) = Some 0 /\
  match New [0x61; 0xff] 0 (Z.min (8 * zlen [0x61; 0xff]) (zlen b)) with Some e => Cmp e (encB b) | None => None end = Some 0.
Proof.
  cbv zeta. repeat match goal with |- _ /\ _ => split end; try (vm_compute; reflexivity).
  repeat (apply Forall_cons; [apply bytes_okb_ok; reflexivity|]); apply Forall_nil.
Qed.

Example C09_new32_nonvacuous :
  New32 [97; 98; 99] 5 12 = Some [0x61; 0x60; 0xf0] /\ Len32 [0x61; 0x60; 0xf0] = Some 12 /\
  0 <= 5 <= 12 /\ 12 < 2 ^ 31 /\
  (* the top of the range: the legacy arithmetic never inspected the string … *)
  0 <= 2 ^ 31 - 4 <= 2 ^ 31 - 1 /\ New32_legacy [] (2 ^ 31 - 4) (2 ^ 31 - 1) = None /\
  i32 (2 ^ 31 - 1 + 7) = - 2 ^ 31 + 6 /\
  (* … the repaired one computes toByte = 2^28 (an empty string is then rejected by the slice
     expression, as in the unbounded model) *)
  i32 (sar64 (i64 (2 ^ 31 - 1 + 7)) 3) = 2 ^ 28 /\
  New32 [] (2 ^ 31 - 4) (2 ^ 31 - 1) = None /\ New [] (2 ^ 31 - 4) (2 ^ 31 - 1) = None /\
  (* Len of an encoding with 2^28 payload bytes: l<<3 and -16 wrap, the sum does not *)
  i32 (i32 (sshl32 (i32 (2 ^ 28 + 1)) 3 - 16) + 7) = 2 ^ 31 - 1.
Proof.
  repeat match goal with |- _ /\ _ => split end; try (vm_compute; reflexivity); vm_compute; congruence.
Qed.

Example C09_decode_nonvacuous :
  wf_enc [0x61; 0x60; 0xf0] = true /\
  decB [0x61; 0x60; 0xf0] = [false; true; true; false; false; false; false; true; false; true; true; false] /\
  wf_enc [0xff] = true /\ decB [0xff] = [] /\
  (* not encodings: no mask byte / a mask that is not a run of high bits / bits outside the mask /
     no payload but a partial mask / a non-byte *)
  wf_enc [] = false /\ wf_enc [0x61; 0x0f] = false /\ wf_enc [0x61; 0x68; 0xf0] = false /\
  wf_enc [0xf0] = false /\ wf_enc [256; 0xff] = false /\
  Cmp [0x61; 0x60; 0xf0] [0x61; 0x60; 0xf8] = Some (-1).
Proof. repeat match goal with |- _ /\ _ => split end; vm_compute; reflexivity. Qed.
