(** C09 — bitstr order and truncate-compare.  Only the property theorems, each
    closed by [exact], their axiom audit, and non-vacuity examples. *)
From Coq Require Import ZArith List Bool.
From Low Require Import Lib.MachInt Lib.Bits Lib.BitSeq Lib.Bytes Lib.Lex Lib.Pack_bw Model.Bitstr Spec.BitstrSpec Proofs.BitstrProofs.
Import ListNotations.
Open Scope Z_scope.

(** StrCmpUpto and CmpUpto always agree (in the model the unsafe cast is the
    identity on the bytes; its memory safety is monitored, not proved). *)
Theorem C09_StrCmpUpto : forall a b, StrCmpUpto a b = CmpUpto a b.
Proof. exact StrCmpUpto_eq. Qed.
Print Assumptions C09_StrCmpUpto.
