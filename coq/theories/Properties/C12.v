(** C12 — bitmap construction and inspection agree on which bits are set.
    Only the property theorems (each closed by [exact]), their axiom audit and the
    non-vacuity examples.  Vocabulary ([Spec/OfSpec.v], [Lib/BitSeq.v]): [flat ws] the bit
    sequence of a bitmap, [ones bs] the ascending positions of its 1-bits, [usort l] the sorted
    union (ascending, duplicates dropped), [words_for n = ceil(n/64)], [of_bits ps n =
    max(n, last+1, 0)], [strip0 ws] = ws without its trailing all-zero words, [astep] the abstract
    Builder (positions set so far, offset).
    Size hypothesis of DESIGN section 3: positions/sizes are unbounded [Z] in the model; Go's
    int32 agrees while every position, size and n stays below 2^31 - 64. *)
From Coq Require Import ZArith List Bool Sorted.
From Low Require Import Lib.Bits Lib.BitSeq Model.BuilderOps Model.BitmapOf Spec.OfSpec
  Proofs.OfProofs Proofs.OfInspect Proofs.OfRoundTrip Proofs.BuilderProofs
  Model.BitmapMask12 Spec.MaskSpec12 Proofs.MaskProofs Model.BitmapFmt12 Spec.FmtSpec12 Proofs.FmtProofs12
  Model.Rank Model.BitmapNext Spec.OfQuerySpec Proofs.OfCompose Proofs.OfTotal Proofs.BuilderLen Model.BitmapOf32 Proofs.Of32 Proofs.BuilderEqOf Proofs.BuilderOfManySet
  Model.BuilderMem Spec.BuilderMemSpec Proofs.BuilderMemProofs.
Import ListNotations.
Open Scope Z_scope.

(** * Of *)
(** strictly ascending, non-negative positions, any optional n (absent, negative, smaller or larger
    than last+1): Of does not panic, returns ceil(max(n, last+1, 0)/64) words, and the 1-bits of the
    result are exactly the listed positions *)
Theorem C12_Of : forall ps opt,
  StronglySorted Z.lt ps -> (forall p, In p ps -> 0 <= p) ->
  exists r, Of ps opt = Some r /\ words_ok r /\ zlen r = words_for (of_bits ps opt) /\
            ones (flat r) = ps.
Proof. exact Of_ascending. Qed.
Print Assumptions C12_Of.

(** merely sorted (duplicates allowed): same length, the sorted union of the positions *)
Theorem C12_Of_sorted : forall ps opt,
  sortedb ps = true -> nonnegb ps = true ->
  exists r, Of ps opt = Some r /\ spec_Of ps opt r.
Proof. exact Of_sorted. Qed.
Print Assumptions C12_Of_sorted.

(** ... i.e. the same set of positions *)
Theorem C12_Of_sorted_set : forall ps opt,
  sortedb ps = true -> nonnegb ps = true ->
  exists r, Of ps opt = Some r /\ forall p, In p (ones (flat r)) <-> In p ps.
Proof. exact Of_sorted_set. Qed.
Print Assumptions C12_Of_sorted_set.

(** * ToArray *)
(** total (any word list), exactly the positions of the 1-bits in ascending order *)
Theorem C12_ToArray : forall ws, ToArray ws = Some (ones (flat ws)).
Proof. exact ToArray_exact. Qed.
Print Assumptions C12_ToArray.

(** * round trips *)
Theorem C12_ToArray_Of : forall ps opt,
  StronglySorted Z.lt ps -> (forall p, In p ps -> 0 <= p) ->
  exists r, Of ps opt = Some r /\ ToArray r = Some ps.
Proof. exact ToArray_Of. Qed.
Print Assumptions C12_ToArray_Of.

Theorem C12_ToArray_Of_sorted : forall ps opt,
  sortedb ps = true -> nonnegb ps = true ->
  exists r, Of ps opt = Some r /\ ToArray r = Some (usort ps).
Proof. exact ToArray_Of_sorted. Qed.
Print Assumptions C12_ToArray_Of_sorted.

(** Of (ToArray b) = b without its trailing zero words ... *)
Theorem C12_Of_ToArray : forall ws, words_ok ws ->
  exists l, ToArray ws = Some l /\ Of l None = Some (strip0 ws).
Proof. exact Of_ToArray. Qed.
Print Assumptions C12_Of_ToArray.

(** ... that is: b = result ++ zero words, the bit sequences agree up to trailing 0 bits, and the
    result has no trailing zero word *)
Theorem C12_Of_ToArray_flat : forall ws, words_ok ws ->
  exists l r k, ToArray ws = Some l /\ Of l None = Some r /\
    ws = r ++ repeat 0 k /\ flat ws = flat r ++ repeat false (64 * k) /\ (r = [] \/ last r 0 <> 0).
Proof. exact Of_ToArray_flat. Qed.
Print Assumptions C12_Of_ToArray_flat.

(** * Get / Get1 / SafeGet / SafeGet1 *)
(** inside the bitmap: the bit in place (2^(i mod 64) or 0) / in bit 0 (1 or 0) *)
Theorem C12_Get : forall ws i, 0 <= i < 64 * zlen ws ->
  Get ws i = Some (if bitz (flat ws) i then 2 ^ (i mod 64) else 0) /\
  Get1 ws i = Some (Z.b2z (bitz (flat ws) i)).
Proof. exact (fun ws i H => conj (Get_exact ws i H) (Get1_exact ws i H)). Qed.
Print Assumptions C12_Get.

(** Get/Get1 report membership in what ToArray lists *)
Theorem C12_Get_member : forall ws i, 0 <= i ->
  (spec_Get ws i <> 0 <-> In i (ones (flat ws))) /\ (spec_Get1 ws i = 1 <-> In i (ones (flat ws))).
Proof. exact spec_Get_member. Qed.
Print Assumptions C12_Get_member.

(** the Safe variants are total over every i (no hypothesis at all: any word list, any integer) *)
Theorem C12_SafeGet_total : forall ws i,
  SafeGet ws i = Some (spec_SafeGet ws i) /\ SafeGet1 ws i = Some (spec_SafeGet1 ws i).
Proof. exact (fun ws i => conj (SafeGet_total ws i) (SafeGet1_total ws i)). Qed.
Print Assumptions C12_SafeGet_total.

(** 0 for every i outside (negative or >= 64 |bm|) *)
Theorem C12_SafeGet_outside : forall ws i, ~ (0 <= i < 64 * zlen ws) ->
  SafeGet ws i = Some 0 /\ SafeGet1 ws i = Some 0.
Proof. exact SafeGet_outside. Qed.
Print Assumptions C12_SafeGet_outside.

(** the same as Get/Get1 inside *)
Theorem C12_SafeGet_inside : forall ws i, 0 <= i < 64 * zlen ws ->
  SafeGet ws i = Get ws i /\ SafeGet1 ws i = Get1 ws i.
Proof. exact SafeGet_inside. Qed.
Print Assumptions C12_SafeGet_inside.

(** * OfMany *)
(** OfMany subs sizes = Of (positions shifted by the running sum of the preceding sizes) (sum of sizes),
    panics included (no domain restriction) *)
Theorem C12_OfMany_eq : forall subs sizes, length subs = length sizes ->
  OfMany subs sizes = Of (shifted subs sizes 0) (Some (total sizes)).
Proof. exact OfMany_eq. Qed.
Print Assumptions C12_OfMany_eq.

(** where the shifted concatenation is ascending and non-negative, it does not panic and sets exactly
    those bits, with ceil(max(sum sizes, last+1, 0)/64) words *)
Theorem C12_OfMany : forall subs sizes, ofmany_dom subs sizes = true ->
  exists r, OfMany subs sizes = Some r /\ spec_OfMany subs sizes r.
Proof. exact OfMany_sorted. Qed.
Print Assumptions C12_OfMany.

(** * Builder *)
(** one call preserves the invariant: Offset and the set of 1-bits follow the abstract machine; Words
    grows to exactly max(old length, words needed) *)
Theorem C12_Builder_Extend : forall a b ps size,
  binv a b -> sortedb ps = true -> nonnegb ps = true -> 0 <= size ->
  exists b', Extend b ps size = Some b' /\ binv (astep a (BExtend ps size)) b' /\
             zlen (Words b') = Z.max (zlen (Words b)) (words_for (extend_end (Offset b) ps size)).
Proof. exact Extend_step. Qed.
Print Assumptions C12_Builder_Extend.

Theorem C12_Builder_Set : forall a b p v,
  binv a b -> 0 <= p ->
  exists b', SetBit b p v = Some b' /\ binv (astep a (BSet p v)) b' /\
             zlen (Words b') = Z.max (zlen (Words b)) (p / 64 + 1).
Proof. exact Set_step. Qed.
Print Assumptions C12_Builder_Set.

(** any history (any length) of Extend (ps ascending with duplicates allowed, non-negative, size >= 0,
    positions >= size allowed) and Set (p >= 0, any value) from NewBuilder(n): no call panics, and after
    EVERY call Offset = the abstract offset (sum of sizes, resp. max(Offset, p+1) after Set),
    ones (flat Words) = the sorted union of the shifted positions and of the Set positions with odd
    value, Offset <= 64 |Words| and every position set so far is < 64 |Words| *)
Theorem C12_Builder_history : forall n ops,
  0 <= n -> forallb bop_dom ops = true ->
  exists b0 bs, NewBuilder n = Some b0 /\ brun b0 ops = Some bs /\
    Forall2 (fun a b => builder_ok a (Words b) (Offset b) /\
                        0 <= Offset b <= 64 * zlen (Words b) /\
                        forall p, In p (abits a) -> 0 <= p < 64 * zlen (Words b))
            (arun abs0 ops) bs.
Proof. exact Builder_history. Qed.
Print Assumptions C12_Builder_history.

(** the final state, with the abstract machine folded over the history *)
Theorem C12_Builder_final : forall n ops,
  0 <= n -> forallb bop_dom ops = true ->
  exists b0 b, NewBuilder n = Some b0 /\ bfold b0 ops = Some b /\
    let a := fold_left astep ops abs0 in
    Offset b = aoff a /\ words_ok (Words b) /\ ones (flat (Words b)) = usort (abits a) /\
    0 <= Offset b <= 64 * zlen (Words b) /\
    forall p, In p (abits a) -> 0 <= p < 64 * zlen (Words b).
Proof. exact Builder_final. Qed.
Print Assumptions C12_Builder_final.

(** a sequence of Extend calls yields the set of bits Of builds from the shifted positions, Offset =
    the sum of the sizes; and the bits OfMany builds wherever OfMany is applicable *)
Theorem C12_Builder_Extend_Of : forall n subs sizes,
  0 <= n -> length subs = length sizes ->
  Forall (fun ps => sortedb ps = true /\ nonnegb ps = true) subs -> Forall (fun s => 0 <= s) sizes ->
  exists b0 b r, NewBuilder n = Some b0 /\ bfold b0 (extends subs sizes) = Some b /\
    Offset b = total sizes /\
    Of (usort (shifted subs sizes 0)) (Some (total sizes)) = Some r /\
    ones (flat (Words b)) = ones (flat r) /\
    (sortedb (shifted subs sizes 0) = true ->
       exists r', OfMany subs sizes = Some r' /\ ones (flat (Words b)) = ones (flat r')).
Proof. exact Builder_Extend_Of. Qed.
Print Assumptions C12_Builder_Extend_Of.

(** the literal reading of "any sequence of Builder.Extend calls yields the bitmap Of would build": where OfMany is
    applicable (ascending shifted concatenation), NewBuilder(n) followed by one Extend per segment leaves Words equal
    WORD FOR WORD (same length, same words) to the slice OfMany returns, and Offset = the sum of the sizes *)
Theorem C12_Builder_Extend_eq_OfMany : forall n subs sizes,
  0 <= n -> ofmany_dom subs sizes = true ->
  Forall (fun ps => sortedb ps = true /\ nonnegb ps = true) subs ->
  exists b0 b, NewBuilder n = Some b0 /\ bfold b0 (extends subs sizes) = Some b /\
    OfMany subs sizes = Some (Words b) /\ Offset b = total sizes.
Proof. exact Builder_Extend_eq_OfMany. Qed.
Print Assumptions C12_Builder_Extend_eq_OfMany.

(** the exact number of words after any history (Extend grows to the words needed for max(Offset + size,
    Offset + last + 1 when last >= size), Set to the word of p, nothing ever shrinks), and with it Words itself:
    it is THE word list of that length whose 1-bits are the positions set so far *)
Theorem C12_Builder_words_exact : forall n ops,
  0 <= n -> forallb bop_dom ops = true ->
  exists b0 b, NewBuilder n = Some b0 /\ bfold b0 ops = Some b /\
    let st := fold_left alen_step ops (0, abs0) in
    zlen (Words b) = fst st /\ Offset b = aoff (snd st) /\
    forall ws, words_ok ws -> zlen ws = fst st -> ones (flat ws) = usort (abits (snd st)) -> ws = Words b.
Proof. exact Builder_words_exact. Qed.
Print Assumptions C12_Builder_words_exact.

(** * membership: "Get, Get1, SafeGet and SafeGet1 report membership of a position" on the bitmap Of builds *)
Theorem C12_Of_membership : forall ps opt,
  StronglySorted Z.lt ps -> (forall p, In p ps -> 0 <= p) ->
  exists r, Of ps opt = Some r /\
    (forall i, SafeGet1 r i = Some (Z.b2z (member ps i)) /\ (SafeGet r i = Some 0 <-> ~ In i ps)) /\
    (forall i, 0 <= i < 64 * zlen r -> Get1 r i = Some (Z.b2z (member ps i)) /\ (Get r i = Some 0 <-> ~ In i ps)).
Proof. exact Of_membership. Qed.
Print Assumptions C12_Of_membership.

(** * the size hypothesis, discharged: Go's int32 arithmetic (Model/BitmapOf32.v: every [+] wrapped by [i32], the
    truncating [int32(len * 64)]) coincides with the unbounded model used above, below these explicit bounds
    (MaxI32 = 2^31 - 1).  So each theorem above holds of the int32 code for inputs within the bounds. *)
Theorem C12_int32_Of : forall ps opt,
  (ps <> [] -> - 2^31 <= last ps 0 + 1 <= MaxI32) -> of_bits ps opt + 63 <= MaxI32 ->
  Of32 ps opt = Of ps opt.
Proof. exact Of32_eq. Qed.
Print Assumptions C12_int32_Of.

Theorem C12_int32_OfMany : forall subs sizes,
  length subs = length sizes -> om_bounded subs sizes 0 ->
  (shifted subs sizes 0 <> [] -> - 2^31 <= last (shifted subs sizes 0) 0 + 1 <= MaxI32) ->
  of_bits (shifted subs sizes 0) (Some (total sizes)) + 63 <= MaxI32 ->
  OfMany32 subs sizes = OfMany subs sizes.
Proof. exact OfMany32_eq. Qed.
Print Assumptions C12_int32_OfMany.

(** [om_bounded] (every running sum and every shifted position is an int32) holds for non-negative sizes and
    positions whose sum / shifted values do not exceed MaxI32 *)
Theorem C12_int32_OfMany_bound : forall subs sizes base,
  0 <= base -> Forall (fun s => 0 <= s) sizes -> Forall (Forall (fun p => 0 <= p)) subs ->
  base + total sizes <= MaxI32 ->
  (forall p, In p (shifted subs sizes base) -> p <= MaxI32) ->
  om_bounded subs sizes base.
Proof. exact om_bounded_nonneg. Qed.
Print Assumptions C12_int32_OfMany_bound.

Theorem C12_int32_ToArray : forall ws, 64 * zlen ws <= MaxI32 -> ToArray32 ws = ToArray ws.
Proof. exact ToArray32_eq. Qed.
Print Assumptions C12_int32_ToArray.

(** a Builder history in which every call keeps Offset + size, Offset + last + 1 and p + 1 within int32 *)
Theorem C12_int32_Builder : forall ops a b,
  binv a b -> forallb bop_dom ops = true -> hist_bounded a ops -> bfold32 b ops = bfold b ops.
Proof. exact bfold32_eq. Qed.
Print Assumptions C12_int32_Builder.

(** ... which holds whenever the final Offset and every position set so far fit in an int32 *)
Theorem C12_int32_Builder_bound : forall ops a,
  forallb bop_dom ops = true ->
  aoff (fold_left astep ops a) <= MaxI32 ->
  (forall q, In q (abits (fold_left astep ops a)) -> q + 1 <= MaxI32) ->
  hist_bounded a ops.
Proof. exact hist_bounded_final. Qed.
Print Assumptions C12_int32_Builder_bound.

(** * widening: the mask tables of bitmap/mask.go (Get/SafeGet read [Bit]) *)
(** every read of Mask/RMask (any integer index): the closed forms 2^i - 1 / 2^64 - 2^i inside 0..64,
    a panic outside *)
Theorem C12_Mask_table : forall i,
  mask_at i = if (0 <=? i) && (i <=? 64) then Some (Mask i, RMask i) else None.
Proof. exact mask_at_exact. Qed.
Print Assumptions C12_Mask_table.

Theorem C12_Bit_table : forall i,
  bit_at i = if (0 <=? i) && (i <? 64) then Some (MaskUpto i, RMaskUpto i, Bit i, RBit i) else None.
Proof. exact bit_at_exact. Qed.
Print Assumptions C12_Bit_table.

(** which bits the entries have: Mask[j] the low j bits, RMask[j] the other bits of the word *)
Theorem C12_Mask_bits : forall j t, 0 <= j <= 64 -> 0 <= t ->
  Z.testbit (Mask j) t = (t <? j) /\ Z.testbit (RMask j) t = ((j <=? t) && (t <? 64)).
Proof. exact mask_bits. Qed.
Print Assumptions C12_Mask_bits.

(** MaskUpto[j] bits 0..j, RMaskUpto[j] the bits above j, Bit[j] bit j only, RBit[j] all but bit j *)
Theorem C12_Bit_bits : forall j t, 0 <= j < 64 -> 0 <= t ->
  Z.testbit (MaskUpto j) t = (t <=? j) /\ Z.testbit (RMaskUpto j) t = ((j <? t) && (t <? 64)) /\
  Z.testbit (Bit j) t = (t =? j) /\ Z.testbit (RBit j) t = (negb (t =? j) && (t <? 64)).
Proof. exact bit_bits. Qed.
Print Assumptions C12_Bit_bits.

(** * widening: bitmap.Fmt (bitmap/fmt.go), the printer users combine with Of / ToArray *)
(** any integer kind (1, 2, 4, 8 bytes, signed or not: the value's two's-complement bits), single value
    or slice of any length: no panic; every integer is printed as its bits, position 0 first, '0'/'1',
    groups of 8 separated by ' ', integers separated by ','.  Any other type panics, except an empty slice *)
Theorem C12_Fmt : forall sz isslice xs, Fmt sz isslice xs = spec_Fmt sz isslice xs.
Proof. exact Fmt_exact. Qed.
Print Assumptions C12_Fmt.

(** a slice of sz-byte integers: the printed characters other than the separators are the concatenated
    bit sequences *)
Theorem C12_Fmt_digits : forall sz xs,
  digits_of (sjoin [44] (map (spec_int sz) xs)) = map sdigit (flat_map (bits (8 * sz)) xs).
Proof. exact Fmt_digits. Qed.
Print Assumptions C12_Fmt_digits.

(** a bitmap: Fmt shows exactly [flat ws], and the p-th digit is '1' exactly for the positions ToArray lists *)
Theorem C12_Fmt_words : forall ws,
  exists s, Fmt 8 true ws = Some s /\ digits_of s = map sdigit (flat ws).
Proof. exact Fmt_words. Qed.
Print Assumptions C12_Fmt_words.

Theorem C12_Fmt_words_ones : forall ws s p,
  Fmt 8 true ws = Some s -> 0 <= p ->
  (nth_error (digits_of s) (Z.to_nat p) = Some 49 <-> In p (ones (flat ws))).
Proof. exact Fmt_words_ones. Qed.
Print Assumptions C12_Fmt_words_ones.

(** * widening: the constructors composed with the readers of C01 (Rank64/Rank128) and C13 (NextOne/PrevOne) *)
(** on ANY bitmap whose 1-positions are the list s, with freshly built indexes: the rank at i is the number of
    elements of s below i, the bit is membership of i, NextOne/PrevOne are the first/last element in [i, e) or -1 *)
Theorem C12_query_by_ones : forall ws s,
  words_ok ws -> ones (flat ws) = s ->
  forall i e tr, 0 <= i <= e -> e <= 64 * zlen ws -> i < 64 * zlen ws -> 1 <= e ->
  Rank64 ws (IndexRank64 ws tr) i = Some (count_below s i, Z.b2z (member s i)) /\
  Rank128 ws (IndexRank128 ws) i = Some (count_below s i, Z.b2z (member s i)) /\
  NextOne ws i e = Some (first_within s i e) /\
  PrevOne ws i e = Some (last_within s i e).
Proof. exact query_by_ones. Qed.
Print Assumptions C12_query_by_ones.

(** the bitmap Of builds from ascending positions answers every query by the position list itself *)
Theorem C12_Of_query : forall ps opt,
  StronglySorted Z.lt ps -> (forall p, In p ps -> 0 <= p) ->
  exists r, Of ps opt = Some r /\ zlen r = words_for (of_bits ps opt) /\
  forall i e tr, 0 <= i <= e -> e <= 64 * zlen r -> i < 64 * zlen r -> 1 <= e ->
  Rank64 r (IndexRank64 r tr) i = Some (count_below ps i, Z.b2z (member ps i)) /\
  Rank128 r (IndexRank128 r) i = Some (count_below ps i, Z.b2z (member ps i)) /\
  NextOne r i e = Some (first_within ps i e) /\
  PrevOne r i e = Some (last_within ps i e).
Proof. exact Of_query_ascending. Qed.
Print Assumptions C12_Of_query.

(** sorted with duplicates, on the domain of the check ([query_dom]) *)
Theorem C12_Of_query_sorted : forall ps opt i e tr,
  query_dom ps opt i e = true ->
  exists r, Of ps opt = Some r /\
    (Rank64 r (IndexRank64 r tr) i, Rank128 r (IndexRank128 r) i, NextOne r i e, PrevOne r i e) =
    (let '(a, b, c, d) := spec_query (usort ps) i e in (Some a, Some b, Some c, Some d)).
Proof. exact Of_query. Qed.
Print Assumptions C12_Of_query_sorted.

(** the Words of a Builder after any history answer every query by the positions set so far *)
Theorem C12_Builder_query : forall n ops,
  0 <= n -> forallb bop_dom ops = true ->
  exists b0 b, NewBuilder n = Some b0 /\ bfold b0 ops = Some b /\
  let s := usort (abits (fold_left astep ops abs0)) in
  forall i e tr, 0 <= i <= e -> e <= 64 * zlen (Words b) -> i < 64 * zlen (Words b) -> 1 <= e ->
  Rank64 (Words b) (IndexRank64 (Words b) tr) i = Some (count_below s i, Z.b2z (member s i)) /\
  Rank128 (Words b) (IndexRank128 (Words b)) i = Some (count_below s i, Z.b2z (member s i)) /\
  NextOne (Words b) i e = Some (first_within s i e) /\
  PrevOne (Words b) i e = Some (last_within s i e).
Proof. exact Builder_query. Qed.
Print Assumptions C12_Builder_query.

(** * widening: Of and OfMany on EVERY input *)
(** These two theorems describe the code AS IT IS outside the property's domain (ascending lists).  They are what makes
    "the bitmap Of would build" meaningful for OfMany when a position >= its segment's size breaks the ascending order.
    At run time only the relation OfMany(subs, sizes) = Of(shifted concatenation, sum) is compared there
    (op bitmap.OfMany/asOf, theorem C12_OfMany_eq), so a change of Of's behaviour on unsorted lists is not flagged. *)
(** no hypothesis on the list at all (unsorted, duplicates, negative positions): Of sizes the result from n and
    the LAST element; it panics exactly when some position lies outside those bits, and otherwise returns
    ceil(max(n, last+1, 0)/64) words whose 1-bits are exactly the set of listed positions *)
Theorem C12_Of_total : forall ps opt,
  if of_fits ps opt then exists r, Of ps opt = Some r /\ spec_Of ps opt r else Of ps opt = None.
Proof. exact Of_total. Qed.
Print Assumptions C12_Of_total.

(** OfMany on every segment list: the same statement about the shifted concatenation and the sum of sizes
    (positions >= their segment's size, colliding or overtaking positions, negative sizes included) *)
Theorem C12_OfMany_total : forall subs sizes, length subs = length sizes ->
  if of_fits (shifted subs sizes 0) (Some (total sizes))
  then exists r, OfMany subs sizes = Some r /\ spec_OfMany subs sizes r
  else OfMany subs sizes = None.
Proof. exact OfMany_total. Qed.
Print Assumptions C12_OfMany_total.

(** * OfMany on its WHOLE non-panic domain, positions at or past a segment's size in ANY segment included *)
(** [ofmany_dom2]: sizes >= 0, every segment ascending and non-negative, and every shifted position inside the bits
    the real code allocates from the sum of the sizes and the last shifted position (exactly the inputs on which it
    does not panic, C12_OfMany_total).  The shifted concatenation need not be ascending; since the code ORs bits,
    the result has exactly the SET of shifted positions and ceil(max(sum, last+1, 0)/64) words *)
Theorem C12_OfMany_nonpanic : forall subs sizes, ofmany_dom2 subs sizes = true ->
  exists r, OfMany subs sizes = Some r /\ spec_OfMany subs sizes r.
Proof. exact OfMany_nonpanic. Qed.
Print Assumptions C12_OfMany_nonpanic.

(** ... which is what a Builder fed the same segments holds: same 1-bits, equal after removing trailing zero
    words, Offset = the sum of the sizes *)
Theorem C12_Builder_OfMany_set : forall n subs sizes,
  0 <= n -> ofmany_dom2 subs sizes = true ->
  exists b0 b r, NewBuilder n = Some b0 /\ bfold b0 (extends subs sizes) = Some b /\
    OfMany subs sizes = Some r /\ spec_OfMany subs sizes r /\
    ones (flat (Words b)) = ones (flat r) /\ strip0 (Words b) = strip0 r /\ Offset b = total sizes.
Proof. exact Builder_Extend_OfMany_set. Qed.
Print Assumptions C12_Builder_OfMany_set.

(** * Builder used through its exported fields: literals over a caller's buffer, roll-backs *)
(** a roll-back [b.Words = b.Words[:k]; b.Offset = 64k] to a checkpoint not beyond the offset keeps the invariant: the
    positions below 64k stay, everything else is forgotten *)
Theorem C12_Builder_rollback : forall a b k,
  binv a b -> 0 <= k -> 64 * k <= aoff a ->
  exists b', rollback b k = Some b' /\ binv (amstep a (MRollback k)) b'.
Proof. exact rollback_inv. Qed.
Print Assumptions C12_Builder_rollback.

(** from a builder literal over ANY well-formed buffer content (words ws0, offset inside them), through any history of
    Extend / Set / roll-back: no panic, and after EVERY call Offset and the 1-bits of Words are those of the abstract
    machine started with the 1-bits of ws0 — nothing cut off by a roll-back and nothing lying beyond Words in the
    caller's buffer ever reappears (the model grows Words with zero words only, as the code does) *)
Theorem C12_Builder_mem_history : forall ws0 off0 ops,
  start_dom ws0 off0 = true -> mhist_dom (abs_of ws0 off0) ops = true ->
  exists bs, mrun {| Words := ws0; Offset := off0 |} ops = Some bs /\
    Forall2 (fun a b => builder_ok a (Words b) (Offset b) /\ 0 <= Offset b <= 64 * zlen (Words b))
            (amrun (abs_of ws0 off0) ops) bs.
Proof. exact Builder_mem_history. Qed.
Print Assumptions C12_Builder_mem_history.

(** * non-vacuity *)
(** Of: positions at 63/64/65 and a gap of more than 3 words, n smaller than last+1 *)
Example C12_Of_nonvacuous :
  StronglySorted Z.lt [0; 63; 64; 65; 400] /\ (forall p, In p [0; 63; 64; 65; 400] -> 0 <= p) /\
  Of [0; 63; 64; 65; 400] (Some 100) = Some [2^63 + 1; 3; 0; 0; 0; 0; 2^16] /\
  words_for (of_bits [0; 63; 64; 65; 400] (Some 100)) = 7 /\
  Of [] (Some (-5)) = Some [] /\ Of [] (Some 65) = Some [0; 0] /\
  sortedb [3; 3; 70] = true /\ Of [3; 3; 70] None = Some [8; 64] /\ usort [3; 3; 70] = [3; 70].
Proof.
  split; [repeat constructor|]. split; [cbn [In]; intros p H; intuition (subst; discriminate)|].
  vm_compute. intuition congruence.
Qed.

Example C12_ToArray_nonvacuous :
  ToArray [2^63 + 1; 3; 0; 0; 0; 0; 2^16] = Some [0; 63; 64; 65; 400] /\
  words_ok [5; 0; 2^63; 0; 0] /\ strip0 [5; 0; 2^63; 0; 0] = [5; 0; 2^63] /\
  ToArray [5; 0; 2^63; 0; 0] = Some [0; 2; 191] /\ Of [0; 2; 191] None = Some [5; 0; 2^63].
Proof.
  split; [vm_compute; reflexivity|]. split; [apply words_okb_ok; reflexivity|].
  vm_compute. intuition congruence.
Qed.

Example C12_Get_nonvacuous :
  0 <= 127 < 64 * zlen [5; 2^63] /\
  Get [5; 2^63] 127 = Some (2^63) /\ Get1 [5; 2^63] 127 = Some 1 /\
  Get [5; 2^63] 1 = Some 0 /\ Get1 [5; 2^63] 2 = Some 1 /\ Get [5; 2^63] 128 = None /\
  ~ (0 <= 128 < 64 * zlen [5; 2^63]) /\ SafeGet [5; 2^63] 128 = Some 0 /\ SafeGet1 [5; 2^63] (-1) = Some 0 /\
  SafeGet [5; 2^63] 127 = Some (2^63) /\ SafeGet1 [5; 2^63] (- 2^31) = Some 0.
Proof. vm_compute. intuition congruence. Qed.

(** OfMany: a segment of size 0, an empty segment, a position at size-1 *)
Example C12_OfMany_nonvacuous :
  ofmany_dom [[0; 63]; []; []; [1]] [64; 0; 5; 2] = true /\
  shifted [[0; 63]; []; []; [1]] [64; 0; 5; 2] 0 = [0; 63; 70] /\ total [64; 0; 5; 2] = 71 /\
  OfMany [[0; 63]; []; []; [1]] [64; 0; 5; 2] = Some [2^63 + 1; 64].
Proof. vm_compute. intuition congruence. Qed.

(** Builder: pre-sized, a position >= size, size 0, Set below / above Offset, an even value *)
Example C12_Builder_nonvacuous :
  forallb bop_dom [BExtend [1; 70] 3; BExtend [] 0; BSet 200 (-1); BSet 0 1; BSet 5 2; BExtend [0] 1] = true /\
  NewBuilder 100 = Some {| Words := []; Offset := 0 |} /\
  bfold {| Words := []; Offset := 0 |}
        [BExtend [1; 70] 3; BExtend [] 0; BSet 200 (-1); BSet 0 1; BSet 5 2; BExtend [0] 1]
    = Some {| Words := [3; 64; 0; 2^8 + 2^9]; Offset := 202 |} /\
  fold_left astep [BExtend [1; 70] 3; BExtend [] 0; BSet 200 (-1); BSet 0 1; BSet 5 2; BExtend [0] 1] abs0
    = {| abits := [1; 70; 200; 0; 201]; aoff := 202 |} /\
  usort [1; 70; 200; 0; 201] = [0; 1; 70; 200; 201] /\
  ones (flat [3; 64; 0; 2^8 + 2^9]) = [0; 1; 70; 200; 201].
Proof. vm_compute. intuition congruence. Qed.

(** mask tables: the wrap at index 64 ([1 << 64 = 0], [0 - 1 = 2^64 - 1]) and the first index outside *)
Example C12_Mask_nonvacuous :
  mask_at 64 = Some (2^64 - 1, 0) /\ mask_at 0 = Some (0, 2^64 - 1) /\ mask_at 65 = None /\ mask_at (-1) = None /\
  bit_at 63 = Some (2^64 - 1, 0, 2^63, 2^63 - 1) /\ bit_at 64 = None.
Proof. vm_compute. intuition congruence. Qed.

(** Fmt: the example of the doc comment, int32(0x0102) --> "01000000 10000000 00000000 00000000"; a negative
    int8; a two-word bitmap; a non-integer type *)
Example C12_Fmt_nonvacuous :
  Fmt 4 false [258] = Some [48;49;48;48;48;48;48;48; 32; 49;48;48;48;48;48;48;48; 32;
                            48;48;48;48;48;48;48;48; 32; 48;48;48;48;48;48;48;48] /\
  Fmt 1 false [-2] = Some [48;49;49;49;49;49;49;49] /\
  Fmt 1 true [1; 128] = Some [49;48;48;48;48;48;48;48; 44; 48;48;48;48;48;48;48;49] /\
  Fmt 3 false [1] = None /\ Fmt 3 true [] = Some [] /\ Fmt 3 true [1] = None /\
  (exists s, Fmt 8 true [5; 2^63] = Some s /\ length s = 143%nat /\
             digits_of s = map sdigit (flat [5; 2^63])).
Proof.
  repeat split; try (vm_compute; reflexivity).
  exists (match Fmt 8 true [5; 2^63] with Some s => s | None => [] end). vm_compute. intuition congruence.
Qed.

(** queries on a built bitmap: three words, an all-zero word between the 1-bits, a query in the last word *)
Example C12_query_nonvacuous :
  query_dom [0; 63; 64; 190] (Some 100) 65 192 = true /\
  Of [0; 63; 64; 190] (Some 100) = Some [2^63 + 1; 1; 2^62] /\
  Rank64 [2^63 + 1; 1; 2^62] (IndexRank64 [2^63 + 1; 1; 2^62] true) 65 = Some (3, 0) /\
  Rank128 [2^63 + 1; 1; 2^62] (IndexRank128 [2^63 + 1; 1; 2^62]) 190 = Some (3, 1) /\
  NextOne [2^63 + 1; 1; 2^62] 65 192 = Some 190 /\ PrevOne [2^63 + 1; 1; 2^62] 65 190 = Some (-1) /\
  spec_query [0; 63; 64; 190] 65 192 = ((3, 0), (3, 0), 190, 190).
Proof. vm_compute. intuition congruence. Qed.

(** Of on any input: unsorted with a small last element (65 is outside the single word sized from last = 3: panic),
    unsorted but covered by n, a negative position *)
Example C12_Of_total_nonvacuous :
  of_fits [65; 3] None = false /\ Of [65; 3] None = None /\
  of_fits [65; 3] (Some 66) = true /\ Of [65; 3] (Some 66) = Some [8; 2] /\
  of_fits [5; -1] None = false /\ Of [5; -1] None = None /\
  of_fits [70; 2; 70; 64] None = true /\ Of [70; 2; 70; 64] None = Some [4; 65] /\
  OfMany [[0; 9]; [1]] [4; 60] = Some [2^9 + 2^5 + 1] /\ OfMany [[0; 200]; [1]] [4; 60] = None.
Proof. vm_compute. intuition congruence. Qed.

(** Builder word count: the history of C12_Builder_nonvacuous ends with 4 words (Set 200 reaches word 3) *)
Example C12_Builder_words_nonvacuous :
  fold_left alen_step [BExtend [1; 70] 3; BExtend [] 0; BSet 200 (-1); BSet 0 1; BSet 5 2; BExtend [0] 1] (0, abs0)
    = (4, {| abits := [1; 70; 200; 0; 201]; aoff := 202 |}) /\
  member [0; 63; 64; 190] 64 = true /\ member [0; 63; 64; 190] 65 = false /\
  SafeGet1 [2^63 + 1; 1; 2^62] 64 = Some 1 /\ SafeGet1 [2^63 + 1; 1; 2^62] (-3) = Some 0.
Proof. vm_compute. intuition congruence. Qed.

(** int32 bounds: a bitmap just below the limit is inside the bounds (its last position is 2^31 - 65), one position
    further is not (and the wrapped model then differs: (n + 63) overflows and make panics) *)
Example C12_int32_nonvacuous :
  ([2^31 - 65] <> [] -> - 2^31 <= last [2^31 - 65] 0 + 1 <= MaxI32) /\
  of_bits [2^31 - 65] None + 63 <= MaxI32 /\
  ~ (of_bits [2^31 - 64] None + 63 <= MaxI32) /\
  Of32 [] (Some (2^31 - 1)) = None /\
  hist_bounded abs0 [BExtend [1; 70] 3; BSet 200 (-1); BExtend [0] (2^31 - 300)] /\
  ~ hist_bounded abs0 [BExtend [1; 70] 3; BSet 200 (-1); BExtend [0] (2^31 - 201)].
Proof. vm_compute. intuition congruence. Qed.

(** OfMany with an overhang that a later segment revisits: {0,70} size 1, then {1} size 100: shifted list 0,70,2 is
    not ascending, word 0 is revisited, bit 0 must survive *)
Example C12_OfMany_nonpanic_nonvacuous :
  ofmany_dom2 [[0; 70]; [1]] [1; 100] = true /\ ofmany_dom [[0; 70]; [1]] [1; 100] = false /\
  shifted [[0; 70]; [1]] [1; 100] 0 = [0; 70; 2] /\
  OfMany [[0; 70]; [1]] [1; 100] = Some [5; 64] /\
  ofmany_dom2 [[0; 200]; [1]] [4; 60] = false.
Proof. vm_compute. intuition congruence. Qed.

(** roll-back: a speculative Extend reaches word 1, the builder is rolled back to word 1... then to word 0 and extended
    again: the earlier bit 70 must not come back *)
Example C12_Builder_mem_nonvacuous :
  start_dom [] 0 = true /\
  mhist_dom (abs_of [] 0) [MStep (BExtend [0; 70] 128); MRollback 1; MStep (BExtend [] 128)] = true /\
  mrun {| Words := []; Offset := 0 |} [MStep (BExtend [0; 70] 128); MRollback 1; MStep (BExtend [] 128)] =
    Some [ {| Words := []; Offset := 0 |}; {| Words := [1; 64]; Offset := 128 |};
           {| Words := [1]; Offset := 64 |}; {| Words := [1; 0; 0]; Offset := 192 |} ] /\
  amrun (abs_of [] 0) [MStep (BExtend [0; 70] 128); MRollback 1; MStep (BExtend [] 128)] =
    [ {| abits := []; aoff := 0 |}; {| abits := [0; 70]; aoff := 128 |};
      {| abits := [0]; aoff := 64 |}; {| abits := [0]; aoff := 192 |} ].
Proof. vm_compute. intuition congruence. Qed.
