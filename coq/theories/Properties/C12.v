(** C12 — bitmap construction and inspection agree (placeholder: replaced when the proofs land) *)
From Coq Require Import ZArith List Bool Lia.
From Low Require Import Lib.Bits Lib.BitSeq Model.BuilderOps Model.BitmapOf Spec.OfSpec.
Import ListNotations.
Open Scope Z_scope.

Theorem C12_NewBuilder_partial : forall n, 0 <= n ->
  exists b, NewBuilder n = Some b /\ builder_ok {| abits := []; aoff := 0 |} (Words b) (Offset b).
Proof.
  intros n Hn. unfold NewBuilder. rewrite Z.shiftr_div_pow2 by lia.
  destruct (Z.ltb_spec (n / 2 ^ 6) 0) as [H|H].
  - exfalso. assert (0 <= n / 2 ^ 6) by (apply Z.div_pos; lia). lia.
  - eexists. split; [reflexivity|]. repeat split. constructor.
Qed.
Print Assumptions C12_NewBuilder_partial.
