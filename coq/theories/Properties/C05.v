(** C05 — IndexToPath inverts PathToIndex on the full tree of every height 0..30.
    Only the property theorems (each closed by [exact]), their axiom audit and
    non-vacuity examples.  [h <= 30] is Go's own range: bitmapSize = 2^(h+1)-1
    is an int32.  IndexToPath / PathToIndex are the models of
    /repo/bmtree/index.go with their int32/uint64 wraps (Model/BmtreeIndexToPath.v,
    Model/BmtreeIndex.v); [Some _] = the Go code does not panic. *)
From Coq Require Import ZArith List Bool Lia.
From Low Require Import Lib.MachInt Lib.Bits Lib.BitSeq Lib.Lex Lib.Bytes Spec.Bmtree Spec.IndexToPathSpec
  Spec.PathSpec Spec.IndexToPathWideSpec
  Model.BmtreePath Model.BmtreePathStr Model.BmtreeIndex Model.BmtreeIndexToPath
  Proofs.IndexToPathProofs Proofs.IndexToPathWideProofs.
Import ListNotations.
Open Scope Z_scope.

(** the statement of the property: for every height and every index of the full
    tree, IndexToPath returns a well-formed path word (the word [enc h q] of a
    node q of depth <= h) that PathToIndex maps back to the index *)
Theorem C05_inverse : forall (h : nat) (idx : Z), (h <= 30)%nat -> 0 <= idx < 2 ^ (Z.of_nat h + 1) - 1 ->
  exists q, (length q <= h)%nat /\
    IndexToPath (Z.of_nat h) idx = Some (enc h q) /\
    PathToIndex (2 ^ (Z.of_nat h + 1) - 1) (enc h q) = Some idx.
Proof. exact IndexToPath_inverse. Qed.
Print Assumptions C05_inverse.

(** equivalently: IndexToPath after PathToIndex is the identity on every node of the full tree *)
Theorem C05_inverse' : forall (h : nat) (q : node), (h <= 30)%nat -> (length q <= h)%nat ->
  exists i, PathToIndex (2 ^ (Z.of_nat h + 1) - 1) (enc h q) = Some i /\
            0 <= i < 2 ^ (Z.of_nat h + 1) - 1 /\
            IndexToPath (Z.of_nat h) i = Some (enc h q).
Proof. exact IndexToPath_PathToIndex. Qed.
Print Assumptions C05_inverse'.

(** in the naive vocabulary: IndexToPath h idx is the word of the idx-th node of
    the enumerated pre-order of the tree of height h … *)
Theorem C05_preorder : forall (h : nat) (idx : Z), (h <= 30)%nat -> 0 <= idx < 2 ^ (Z.of_nat h + 1) - 1 ->
  IndexToPath (Z.of_nat h) idx = Some (enc h (nth (Z.to_nat idx) (all_nodes h) [])).
Proof.
  exact (fun h idx Hh Hi => eq_trans (IndexToPath_node_at h idx Hh Hi)
           (f_equal (fun q => Some (enc h q)) (eq_sym (nth_all_nodes h idx Hi)))).
Qed.
Print Assumptions C05_preorder.

(** … and PathToIndex on the full tree is the position in that enumeration *)
Theorem C05_full_index : forall (h : nat) (q : node), (h <= 30)%nat -> (length q <= h)%nat ->
  PathToIndex (fullT h) (enc h q) = Some (pre_rank (fullT h) h q).
Proof.
  exact (fun h q Hh Hl => eq_trans (PathToIndex_full h q Hh Hl)
           (f_equal Some (eq_sym (enum_rank_full_rank h q Hl)))).
Qed.
Print Assumptions C05_full_index.

(** the steps of the proof route, each a statement about the code's own pieces:
    (a1) the idxToPath rows are the pure descent on the trees of height <= 3 *)
Theorem C05_table : forall (c : nat) (idx : Z), (c <= 3)%nat -> 0 <= idx < 2 ^ (Z.of_nat c + 1) - 1 ->
  idxToPath_at (Z.land (maskAt c) 15) idx = Some (enc c (node_at c idx)).
Proof. exact table_rows. Qed.
Print Assumptions C05_table.

(** (a2) the descent loop followed by the table, without the shortcut, is the pure descent *)
Theorem C05_loop_table : forall (h : nat) (idx : Z), (h <= 30)%nat -> 0 <= idx < 2 ^ (Z.of_nat h + 1) - 1 ->
  match descent_loop 64 0 idx (maskAt h) with
  | Some (p2, i, m) =>
      match idxToPath_at (Z.land m 15) i with
      | Some t => Z.lor (shr64 p2 1) t = enc h (node_at h idx)
      | None => False
      end
  | None => False
  end.
Proof. exact loop_table_only. Qed.
Print Assumptions C05_loop_table.

(** (c) the common-prefix shortcut leaves the state the pure descent reaches
    after walking the copied bits q0: p2 holds q0, the local index and the
    remaining height c are those of the subtree below q0 *)
Theorem C05_shortcut : forall (h : nat) (idx : Z), (h <= 30)%nat -> 0 <= idx < 2 ^ (Z.of_nat h + 1) - 1 ->
  exists c q0 idx', (c <= h)%nat /\ length q0 = (h - c)%nat /\
    0 <= idx' < 2 ^ (Z.of_nat c + 1) - 1 /\
    shortcut (Z.of_nat h) idx (maskAt h) = (p2At h c (val_msb q0), idx', maskAt c) /\
    node_at h idx = q0 ++ node_at c idx'.
Proof. exact shortcut_spec. Qed.
Print Assumptions C05_shortcut.

(** (b) the pure descent and the pre-order index are inverse to each other *)
Theorem C05_descent_index : forall (h : nat) (idx : Z), 0 <= idx < 2 ^ (Z.of_nat h + 1) - 1 ->
  (length (node_at h idx) <= h)%nat /\ full_rank h (node_at h idx) = idx.
Proof. exact (fun h idx Hi => conj (node_at_length h idx) (full_rank_node_at h idx Hi)). Qed.
Print Assumptions C05_descent_index.

Theorem C05_index_descent : forall (h : nat) (q : node), (length q <= h)%nat ->
  0 <= full_rank h q < 2 ^ (Z.of_nat h + 1) - 1 /\ node_at h (full_rank h q) = q.
Proof. exact (fun h q Hl => conj (full_rank_bound q h Hl) (node_at_full_rank q h Hl)). Qed.
Print Assumptions C05_index_descent.

(** the checker run by the correspondence accepts exactly the model's word (so
    it is neither stronger nor weaker than the theorems), on every height —
    the enumerated pre-order it uses for h <= 10 and the recursion above agree *)
Theorem C05_checker_exact : forall (h : nat) (idx w : Z), (h <= 30)%nat -> 0 <= idx < 2 ^ (Z.of_nat h + 1) - 1 ->
  check_index_to_path h idx w = true <-> IndexToPath (Z.of_nat h) idx = Some w.
Proof.
  exact (fun h idx w Hh Hi =>
    iff_trans (check_exact h idx w Hh Hi)
      (conj (fun E : w = enc h (node_at h idx) =>
               eq_trans (IndexToPath_node_at h idx Hh Hi) (f_equal Some (eq_sym E)))
            (fun E : IndexToPath (Z.of_nat h) idx = Some w =>
               match eq_trans (eq_sym E) (IndexToPath_node_at h idx Hh Hi) in _ = o
                 return match o with Some v => w = v | None => True end
               with eq_refl => eq_refl end))).
Qed.
Print Assumptions C05_checker_exact.

Theorem C05_enum_rank : forall (h : nat) (q : node), (length q <= h)%nat ->
  pre_rank (fullT h) h q = full_rank h q.
Proof. exact enum_rank_full_rank. Qed.
Print Assumptions C05_enum_rank.

(** non-vacuity: height 30 (int32 range), an index that takes the shortcut
    (index - 30 and index agree above bit 7: 23 levels are copied), the last index, and a node
    through the inverse direction; height 6 in the enumerated pre-order *)
Example C05_nonvacuous :
  (30 <= 30)%nat /\ 0 <= 1234567 < 2 ^ (Z.of_nat 30 + 1) - 1 /\
  IndexToPath 30 1234567 = Some 0x96b3a3fffffff /\
  PathToIndex (2 ^ 31 - 1) 0x96b3a3fffffff = Some 1234567 /\
  IndexToPath 30 (2 ^ 31 - 2) = Some (enc 30 (repeat true 30)) /\
  PathToIndex (2 ^ 31 - 1) (enc 30 [true; false; true]) = Some 1342177281 /\
  IndexToPath 30 1342177281 = Some (enc 30 [true; false; true]) /\
  IndexToPath 6 100 = Some (enc 6 (nth 100 (all_nodes 6) [])) /\
  pre_rank (fullT 6) 6 (nth 100 (all_nodes 6) []) = 100.
Proof. repeat apply conj; try (vm_compute; reflexivity); lia. Qed.

Example C05_shortcut_nonvacuous :
  (* the shortcut fixes 23 levels of the height-30 tree for this index and leaves a tree of height 7 *)
  shortcut 30 1234567 (maskAt 30) = (p2At 30 7 (val_msb (rev (bits 23 (1234567 / 2 ^ 8)))), 119, maskAt 7) /\
  node_at 30 1234567 = rev (bits 23 (1234567 / 2 ^ 8)) ++ node_at 7 119 /\
  (* the table row of height 3, index 11 is the node 101 *)
  idxToPath_at (Z.land (maskAt 3) 15) 11 = Some (enc 3 [true; false; true]).
Proof. repeat apply conj; vm_compute; reflexivity. Qed.

(** * widened: what IndexToPath is combined with *)

(** the numeric order of the results is the order of the indices (index order
    is pre-order), hence IndexToPath is injective *)
Theorem C05w_order : forall (h : nat) (i j wi wj : Z), (h <= 30)%nat ->
  0 <= i < 2 ^ (Z.of_nat h + 1) - 1 -> 0 <= j < 2 ^ (Z.of_nat h + 1) - 1 ->
  IndexToPath (Z.of_nat h) i = Some wi -> IndexToPath (Z.of_nat h) j = Some wj ->
  (wi ?= wj) = (i ?= j).
Proof. exact IndexToPath_compare. Qed.
Print Assumptions C05w_order.

Theorem C05w_injective : forall (h : nat) (i j w : Z), (h <= 30)%nat ->
  0 <= i < 2 ^ (Z.of_nat h + 1) - 1 -> 0 <= j < 2 ^ (Z.of_nat h + 1) - 1 ->
  IndexToPath (Z.of_nat h) i = Some w -> IndexToPath (Z.of_nat h) j = Some w -> i = j.
Proof. exact IndexToPath_injective. Qed.
Print Assumptions C05w_injective.

Theorem C05w_preorder_order : forall (h : nat) (i j : Z),
  0 <= i < 2 ^ (Z.of_nat h + 1) - 1 -> 0 <= j < 2 ^ (Z.of_nat h + 1) - 1 ->
  bits_cmp (node_at h i) (node_at h j) = (i ?= j).
Proof. exact node_at_cmp. Qed.
Print Assumptions C05w_preorder_order.

(** PathLen / PathHeight / PathBits / PathMask / PathStr of the result describe the idx-th node *)
Theorem C05w_fields : forall (h : nat) (idx : Z), (h <= 30)%nat -> 0 <= idx < 2 ^ (Z.of_nat h + 1) - 1 ->
  exists w, IndexToPath (Z.of_nat h) idx = Some w /\
    let q := node_at h idx in
    PathLen w = Z.of_nat (length q) /\
    (1 <= length q -> PathHeight w = Z.of_nat h)%nat /\
    (q = [] -> PathHeight w = 0) /\
    PathBits w = valL h q /\
    PathMask w = Mask (Z.of_nat (length q)) * 2 ^ (Z.of_nat h - Z.of_nat (length q)) /\
    PathStr w = node_str q.
Proof. exact IndexToPath_fields. Qed.
Print Assumptions C05w_fields.

(** the functional specification the correspondence run evaluates for the
    accessors op is the model's observation *)
Theorem C05w_fields_spec : forall (h : nat) (idx : Z), (h <= 30)%nat -> 0 <= idx < 2 ^ (Z.of_nat h + 1) - 1 ->
  exists w, IndexToPath (Z.of_nat h) idx = Some w /\
    spec_fields h idx = (PathLen w, PathHeight w, PathBits w, PathMask w, PathStr w).
Proof. exact spec_fields_model. Qed.
Print Assumptions C05w_fields_spec.

(** PathToIndexLoose on the full tree: the same index, and every level is stored *)
Theorem C05w_loose_full : forall (h : nat) (q : node), (h <= 30)%nat -> (length q <= h)%nat ->
  PathToIndexLoose (fullT h) (enc h q) = Some (full_rank h q, 1).
Proof. exact PathToIndexLoose_full. Qed.
Print Assumptions C05w_loose_full.

(** the height callers derive from the bitmap size of a full tree *)
Theorem C05w_height_full : forall h : nat, (h <= 30)%nat -> Height (2 ^ (Z.of_nat h + 1) - 1) = Z.of_nat h.
Proof. exact Height_full. Qed.
Print Assumptions C05w_height_full.

(** IndexToPath h 0, 1, …, T-1 are exactly the path words of the stored nodes of the full level
    mask T = 2^(h+1)-1, in pre-order — the list C04_allpaths proves AllPaths(T, 0, to) returns
    for every to >= 2^62, and Decode walks *)
Theorem C05w_enumerates : forall h : nat, (h <= 30)%nat ->
  map (fun i => IndexToPath (Z.of_nat h) (Z.of_nat i)) (seq 0 (Z.to_nat (fullT h)))
  = map (fun q => Some (enc h q)) (stored_nodes (fullT h) h).
Proof. exact IndexToPath_enumerates_stored. Qed.
Print Assumptions C05w_enumerates.

(** a session of calls on one height: every answer is the specification's word, independent of the
    calls before it (the history ops of the correspondence run check the code against this) *)
Theorem C05h_session : forall (h : nat) (l : list Z), (h <= 30)%nat ->
  Forall (fun i => 0 <= i < 2 ^ (Z.of_nat h + 1) - 1) l ->
  map (IndexToPath (Z.of_nat h)) l = map (fun i => Some (spec_index_to_path h i)) l.
Proof. exact IndexToPath_session. Qed.
Print Assumptions C05h_session.

Example C05w_nonvacuous :
  IndexToPath 30 1234567 = Some 0x96b3a3fffffff /\ IndexToPath 30 1234568 = Some 0x96b3b3fffffff /\
  (0x96b3a3fffffff ?= 0x96b3b3fffffff) = (1234567 ?= 1234568) /\
  PathLen 0x96b3a3fffffff = 30 /\ PathHeight 0x96b3a3fffffff = 30 /\
  PathStr 0x96b3a3fffffff = node_str (node_at 30 1234567) /\
  PathToIndexLoose (fullT 30) (enc 30 [true; false; true]) = Some (1342177281, 1) /\
  spec_loose_full 30 [true; false; true] = (1342177281, 1).
Proof. repeat apply conj; vm_compute; reflexivity. Qed.
