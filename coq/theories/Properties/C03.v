(** C03 — PathToIndex / PathToIndexLoose return the pre-order rank of a tree
    node among the stored nodes; bijection onto [0, T); the contracts of the
    [-tags debug] build never fire on a valid input.

    Only the property theorems (each closed by [exact]), their axiom audit and
    non-vacuity examples.  The statements are over the model of the Go code
    (Model/BmtreeIndex.v: the three cases of each function, shiftMulti with
    fuel, int32/uint64 wraps, the debug contracts) and the naive vocabulary of
    Spec/Bmtree.v ([all_nodes] by the textbook recursion, [stored_nodes] = its
    filter by the level mask, [pre_rank] = number of stored nodes that are
    [pre_lt] the node).  [1 <= T < 2^31] is Go's own range (int32 level mask,
    height <= 30); [Height T = h] names the height; nothing else is bounded. *)
From Coq Require Import ZArith List Bool Lia Sorting.Sorted.
From Low Require Import Lib.MachInt Lib.Bits Lib.BitSeq Lib.Lex Lib.Bytes Spec.Bmtree Spec.IndexSpec Spec.ContractSpec
  Spec.FromStr32Spec Model.BmtreePath Model.BmtreeIndex Model.FromStr32
  Proofs.BmtreeRankSpec Proofs.ShiftMultiProofs Proofs.BmtreeIndexProofs Proofs.BmtreeContractProofs
  Proofs.BmtreeDomainProofs Proofs.BmtreeSubtreeProofs Proofs.BmtreeKeyIndexProofs Proofs.BmtreeSessionProofs.
Import ListNotations.
Open Scope Z_scope.

(** the stored nodes of a tree with level mask T are exactly T many *)
Theorem C03_count : forall T h, 1 <= T < 2 ^ 31 -> Height T = Z.of_nat h ->
  Z.of_nat (length (stored_nodes T h)) = T.
Proof. exact stored_nodes_count_T. Qed.
Print Assumptions C03_count.

(** ... they are listed in strictly ascending pre-order (hence without duplicates), and they are
    exactly the nodes of depth <= h on a stored level *)
Theorem C03_sorted : forall T h, StronglySorted pre_lt (stored_nodes T h).
Proof. exact stored_nodes_sorted. Qed.
Print Assumptions C03_sorted.

Theorem C03_nodup : forall T h, NoDup (stored_nodes T h).
Proof. exact stored_nodes_NoDup. Qed.
Print Assumptions C03_nodup.

Theorem C03_members : forall T h q, In q (stored_nodes T h) <-> (length q <= h)%nat /\ stored T q = true.
Proof. exact stored_nodes_In. Qed.
Print Assumptions C03_members.

(** shiftMulti: the fuel of the model never runs out, and the result is the sum, over the set
    bits k of the second operand, of the first operand shifted right by (shift - k) *)
Theorem C03_shiftMulti : forall a b s, 0 <= s < 64 -> 0 <= b < 2 ^ (s + 1) ->
  shiftMulti a b s = Some (u64 (sumbits (Z.to_nat (s + 1)) a b s)).
Proof. exact shiftMulti_spec. Qed.
Print Assumptions C03_shiftMulti.

(** the same with the sum written out over the bit positions 0 .. shift *)
Theorem C03_shiftMulti_sum : forall a b s, 0 <= s < 64 -> 0 <= b < 2 ^ (s + 1) ->
  shiftMulti a b s =
  Some (u64 (zsum (map (fun k => if Z.testbit b (Z.of_nat k) then a / 2 ^ (s - Z.of_nat k) else 0)
                       (seq 0 (Z.to_nat (s + 1)))))).
Proof. exact shiftMulti_sum. Qed.
Print Assumptions C03_shiftMulti_sum.

(** PathToIndexLoose: (number of stored nodes before q in pre-order, is q's own level stored) —
    for EVERY node q of the tree, in all three branches (full, leaf-only, general) *)
Theorem C03_loose : forall T h q, 1 <= T < 2 ^ 31 -> Height T = Z.of_nat h -> (length q <= h)%nat ->
  PathToIndexLoose T (enc h q) =
  Some (Z.of_nat (length (filter (fun r => pre_ltb r q) (stored_nodes T h))), Z.b2z (stored T q)).
Proof. exact PathToIndexLoose_pre_rank. Qed.
Print Assumptions C03_loose.

(** PathToIndex: the same index (the model computes it for every node; the property claims it
    for nodes on a stored level, which is PathToIndex's contract — see C03_debug_level) *)
Theorem C03_strict : forall T h q, 1 <= T < 2 ^ 31 -> Height T = Z.of_nat h -> (length q <= h)%nat ->
  stored T q = true ->
  PathToIndex T (enc h q) = Some (Z.of_nat (length (filter (fun r => pre_ltb r q) (stored_nodes T h)))).
Proof. exact C03_strict_stmt. Qed.
Print Assumptions C03_strict.

(** the boolean [pre_ltb] used in the two statements above is the order [pre_lt] *)
Theorem C03_pre_ltb : forall q r, pre_ltb q r = true <-> pre_lt q r.
Proof. exact pre_ltb_iff'. Qed.
Print Assumptions C03_pre_ltb.

(** the enumerated rank equals the recursion on the path (what the correspondence checker
    evaluates on tall trees) *)
Theorem C03_rec_rank : forall h T q, (length q <= h)%nat -> 0 <= T < 2 ^ (Z.of_nat h + 1) ->
  pre_rank T h q = rec_rank T q.
Proof. exact rec_rank_pre_rank. Qed.
Print Assumptions C03_rec_rank.

(** bijection onto [0, T): the i-th stored node (in pre-order) has index i ... *)
Theorem C03_bijection : forall T h i, 1 <= T < 2 ^ 31 -> Height T = Z.of_nat h -> 0 <= i < T ->
  PathToIndex T (enc h (nth (Z.to_nat i) (stored_nodes T h) [])) = Some i.
Proof. exact PathToIndex_nth. Qed.
Print Assumptions C03_bijection.

(** ... every stored node has an index in [0, T) ... *)
Theorem C03_range : forall T h q, 1 <= T < 2 ^ 31 -> Height T = Z.of_nat h -> (length q <= h)%nat ->
  stored T q = true -> exists i, PathToIndex T (enc h q) = Some i /\ 0 <= i < T.
Proof. exact PathToIndex_range. Qed.
Print Assumptions C03_range.

(** ... distinct stored nodes have distinct indexes ... *)
Theorem C03_injective : forall T h q r, 1 <= T < 2 ^ 31 -> Height T = Z.of_nat h ->
  (length q <= h)%nat -> (length r <= h)%nat -> stored T q = true -> stored T r = true ->
  PathToIndex T (enc h q) = PathToIndex T (enc h r) -> q = r.
Proof. exact PathToIndex_inj. Qed.
Print Assumptions C03_injective.

(** ... and the index is strictly order-preserving w.r.t. pre-order *)
Theorem C03_monotone : forall T h q r i j, 1 <= T < 2 ^ 31 -> Height T = Z.of_nat h ->
  (length q <= h)%nat -> (length r <= h)%nat -> stored T q = true -> stored T r = true ->
  PathToIndex T (enc h q) = Some i -> PathToIndex T (enc h r) = Some j ->
  (i < j <-> pre_lt q r).
Proof. exact PathToIndex_mono. Qed.
Print Assumptions C03_monotone.

(** the same against the NUMERIC order of the path words (what AllPaths / Decode iterate over, C04):
    the words of the stored nodes are strictly ascending in enumeration order, PathToIndex is strictly
    monotone on them, and maps the ascending list of stored path words onto 0, 1, ..., T-1 *)
Theorem C03_words_sorted : forall T h, (h <= 32)%nat -> StronglySorted Z.lt (map (enc h) (stored_nodes T h)).
Proof. exact enc_stored_sorted. Qed.
Print Assumptions C03_words_sorted.

Theorem C03_monotone_word : forall T h q r i j, 1 <= T < 2 ^ 31 -> Height T = Z.of_nat h ->
  (length q <= h)%nat -> (length r <= h)%nat -> stored T q = true -> stored T r = true ->
  PathToIndex T (enc h q) = Some i -> PathToIndex T (enc h r) = Some j ->
  (i < j <-> enc h q < enc h r).
Proof. exact PathToIndex_mono_word. Qed.
Print Assumptions C03_monotone_word.

Theorem C03_enum : forall T h, 1 <= T < 2 ^ 31 -> Height T = Z.of_nat h ->
  map (PathToIndex T) (map (enc h) (stored_nodes T h)) =
  map (fun k => Some (Z.of_nat k)) (seq 0 (Z.to_nat T)).
Proof. exact PathToIndex_enum. Qed.
Print Assumptions C03_enum.

(** the two closed forms agree with what the general branch would compute *)
Theorem C03_closed_forms : forall T h q, 1 <= T < 2 ^ 31 -> Height T = Z.of_nat h -> (length q <= h)%nat ->
  (T = MaskUpto (Z.of_nat h) ->
     fullTreeIndex (enc h q) = turn_sum T q + popcount (Z.land T (Mask (Z.of_nat (length q))))) /\
  (T = Bit (Z.of_nat h) ->
     i32 (shr64 (enc h q) 32) = turn_sum T q + popcount (Z.land T (Mask (Z.of_nat (length q))))).
Proof. exact closed_forms_eq_general. Qed.
Print Assumptions C03_closed_forms.

(** the [-tags debug] build: no contract fires on a valid input, the results are those of the
    release build *)
Theorem C03_debug_loose : forall T h q, 1 <= T < 2 ^ 31 -> Height T = Z.of_nat h -> (length q <= h)%nat ->
  PathToIndexLoose_debug T (enc h q) = PathToIndexLoose T (enc h q).
Proof. exact PathToIndexLoose_debug_eq. Qed.
Print Assumptions C03_debug_loose.

Theorem C03_debug : forall T h q, 1 <= T < 2 ^ 31 -> Height T = Z.of_nat h -> (length q <= h)%nat ->
  stored T q = true -> PathToIndex_debug T (enc h q) = PathToIndex T (enc h q).
Proof. exact PathToIndex_debug_eq. Qed.
Print Assumptions C03_debug.

(** the level contract of PathToIndex is exactly the "stored" precondition *)
Theorem C03_debug_level : forall T h q, 1 <= T < 2 ^ 31 -> Height T = Z.of_nat h -> (length q <= h)%nat ->
  stored T q = false -> PathToIndex_debug T (enc h q) = None.
Proof. exact PathToIndex_debug_absent. Qed.
Print Assumptions C03_debug_level.

(** the correspondence run's own formulation (Run/C03.v): height computed from T, the word built
    by NewPath, the expected value computed by [spec_loose] / [spec_rank]; [dbg] selects the build.
    So the checker accepts the model's output on every in-domain case. *)
Theorem C03_checker_loose : forall T q (dbg : bool), 1 <= T < 2 ^ 31 ->
  (length q <= Z.to_nat (Height T))%nat ->
  (if dbg then PathToIndexLoose_debug else PathToIndexLoose) T
     (NewPath (valL (Z.to_nat (Height T)) q) (Z.of_nat (length q)) (Height T))
  = Some (spec_loose T (Z.to_nat (Height T)) q).
Proof. exact C03_checker_loose_stmt. Qed.
Print Assumptions C03_checker_loose.

Theorem C03_checker_strict : forall T q (dbg : bool), 1 <= T < 2 ^ 31 ->
  (length q <= Z.to_nat (Height T))%nat -> stored T q = true ->
  (if dbg then PathToIndex_debug else PathToIndex) T
     (NewPath (valL (Z.to_nat (Height T)) q) (Z.of_nat (length q)) (Height T))
  = Some (spec_rank T (Z.to_nat (Height T)) q).
Proof. exact C03_checker_strict_stmt. Qed.
Print Assumptions C03_checker_strict.

(** * widening: the index of a node and the indexes of its descendants (what a user who walks the tree
    with PathToIndexLoose relies on) *)

(** the subtree below q is a tree of height h - |q| with level mask T >> |q|: the index of a descendant
    q ++ r is the index of q plus the pre-order rank of r inside that subtree *)
Theorem C03_descendant : forall T h q r, 1 <= T < 2 ^ 31 -> Height T = Z.of_nat h ->
  (length (q ++ r) <= h)%nat ->
  PathToIndexLoose T (enc h (q ++ r)) =
  Some (pre_rank T h q + pre_rank (T / 2 ^ Z.of_nat (length q)) (h - length q) r,
        Z.b2z (stored (T / 2 ^ Z.of_nat (length q)) r)).
Proof. exact PathToIndexLoose_descendant. Qed.
Print Assumptions C03_descendant.

(** ... so the subtree occupies the contiguous index range [idx q, idx q + (T >> |q|)) *)
Theorem C03_subtree_range : forall T h q r, 1 <= T < 2 ^ 31 -> Height T = Z.of_nat h ->
  (length (q ++ r) <= h)%nat ->
  0 <= pre_rank (T / 2 ^ Z.of_nat (length q)) (h - length q) r <= T / 2 ^ Z.of_nat (length q) /\
  (stored (T / 2 ^ Z.of_nat (length q)) r = true ->
   pre_rank (T / 2 ^ Z.of_nat (length q)) (h - length q) r < T / 2 ^ Z.of_nat (length q)).
Proof. exact subtree_range. Qed.
Print Assumptions C03_subtree_range.

(** ... and nothing else does: a stored node r lies below q (or is q) iff its index is in that range *)
Theorem C03_subtree_exact : forall T h q r i s j, 1 <= T < 2 ^ 31 -> Height T = Z.of_nat h ->
  (length q <= h)%nat -> (length r <= h)%nat -> stored T r = true ->
  PathToIndexLoose T (enc h q) = Some (i, s) -> PathToIndex T (enc h r) = Some j ->
  ((exists r', r = q ++ r') <-> i <= j < i + T / 2 ^ Z.of_nat (length q)).
Proof. exact subtree_exact_idx. Qed.
Print Assumptions C03_subtree_exact.

(** the left child follows its parent immediately, the right child follows the whole left subtree *)
Theorem C03_child : forall T h q (b : bool) i s, 1 <= T < 2 ^ 31 -> Height T = Z.of_nat h ->
  (length q < h)%nat -> PathToIndexLoose T (enc h q) = Some (i, s) ->
  PathToIndexLoose T (enc h (q ++ [b])) =
  Some (i + s + (if b then T / 2 ^ (Z.of_nat (length q) + 1) else 0),
        Z.b2z (Z.testbit T (Z.of_nat (length q) + 1))).
Proof. exact PathToIndexLoose_child. Qed.
Print Assumptions C03_child.

(** the parent-and-child operation of the correspondence run (Run/C03.v [op_child]) in its own terms *)
Theorem C03_child_checker : forall T q (b dbg : bool), 1 <= T < 2 ^ 31 ->
  let h := Z.to_nat (Height T) in
  (length q < h)%nat ->
  let f := if dbg then PathToIndexLoose_debug else PathToIndexLoose in
  f T (enc h q) = Some (spec_rank T h q, Z.b2z (stored T q)) /\
  f T (enc h (q ++ [b])) =
    Some (spec_rank T h q + Z.b2z (stored T q) + (if b then T / 2 ^ (Z.of_nat (length q) + 1) else 0),
          Z.b2z (Z.testbit T (Z.of_nat (length q) + 1))).
Proof. exact child_checker. Qed.
Print Assumptions C03_child_checker.

(** * widening (with C11): from a key to its bitmap index.  PathOf(s, from, h) followed by
    PathToIndexLoose / PathToIndex ranks the node spelled by the key's bits from .. from+h, cut at the
    end of the key ([key_node]); [dbg] selects the build *)
Theorem C03_key_index : forall T h s from (dbg : bool), 1 <= T < 2 ^ 31 -> Height T = Z.of_nat h ->
  bytes_ok s -> 0 <= from -> from + Z.of_nat h + 7 < 2 ^ 31 -> 8 * zlen s < 2 ^ 31 ->
  exists p, PathOf s from (Z.of_nat h) = Some p /\
    (if dbg then PathToIndexLoose_debug else PathToIndexLoose) T p =
    Some (pre_rank T h (key_node s from h), Z.b2z (stored T (key_node s from h))).
Proof. exact C03_key_index_stmt. Qed.
Print Assumptions C03_key_index.

Theorem C03_key_index_strict : forall T h s from (dbg : bool), 1 <= T < 2 ^ 31 -> Height T = Z.of_nat h ->
  bytes_ok s -> 0 <= from -> from + Z.of_nat h + 7 < 2 ^ 31 -> 8 * zlen s < 2 ^ 31 ->
  stored T (key_node s from h) = true ->
  exists p, PathOf s from (Z.of_nat h) = Some p /\
    (if dbg then PathToIndex_debug else PathToIndex) T p = Some (pre_rank T h (key_node s from h)).
Proof. exact C03_key_index_strict_stmt. Qed.
Print Assumptions C03_key_index_strict.

(** the key operations of the correspondence run in their own terms (Run/C03.v [op_key_loose]) *)
Theorem C03_key_checker : forall T s from (dbg : bool), 1 <= T < 2 ^ 31 -> bytes_ok s -> 0 <= from ->
  from + Height T + 7 < 2 ^ 31 -> 8 * zlen s < 2 ^ 31 ->
  exists p, PathOf s from (Height T) = Some p /\
    (if dbg then PathToIndexLoose_debug else PathToIndexLoose) T p =
    Some (spec_loose T (Z.to_nat (Height T))
            (firstn (Z.to_nat (clamp (8 * zlen s - from) 0 (Height T))) (skipn (Z.to_nat from) (msb_bits s)))).
Proof. exact key_checker. Qed.
Print Assumptions C03_key_checker.

(** * sessions: any sequence of lookups on one level mask (PathToIndexLoose on any node, PathToIndex on
    nodes of a stored level), in either build, returns per step that step's own rank — nothing depends
    on what was asked before.  (Of the model this is the per-step theorem mapped over the sequence; the
    session operation of the correspondence run checks it of the implementation.) *)
Theorem C03_session : forall (dbg : bool) T h (steps : list look), 1 <= T < 2 ^ 31 -> Height T = Z.of_nat h ->
  Forall (look_ok T h) steps ->
  map (look_run dbg T h) steps = map (fun s => Some (look_spec T h s)) steps.
Proof. exact session_spec. Qed.
Print Assumptions C03_session.

(** two consecutive steps may legitimately return the SAME index: a node of an absent level and its
    left-most descendant on the next stored level (no stored level in between) *)
Theorem C03_absent_then_first_descendant : forall T h q (k : nat), 1 <= T < 2 ^ 31 -> Height T = Z.of_nat h ->
  (length q + k <= h)%nat ->
  (forall j, (j < k)%nat -> Z.testbit T (Z.of_nat (length q + j)) = false) ->
  pre_rank T h (q ++ repeat false k) = pre_rank T h q.
Proof. exact absent_then_first_descendant. Qed.
Print Assumptions C03_absent_then_first_descendant.

(** * widening: the contracts of the debug build on RAW arguments (any int32 level mask, any uint64 word) *)

(** the naive decoder of Spec/ContractSpec.v recognises exactly the path words *)
Theorem C03_decode_word : forall h w q, (h <= 32)%nat -> 0 <= w ->
  decode_word h w = Some q <-> (length q <= h)%nat /\ w = enc h q.
Proof. exact decode_word_iff. Qed.
Print Assumptions C03_decode_word.

(** the contracts of PathToIndexLoose hold exactly on: a level mask in [1, 2^31) together with a
    path word of its tree — or a word of the gap (empty mask half under non-zero search bits < 2^30) *)
Theorem C03_contracts_domain : forall T w, - 2 ^ 31 <= T < 2 ^ 31 -> 0 <= w < 2 ^ 64 ->
  contracts_PathToIndexLoose T w = true <->
  valid_mask T = true /\ (decode_word (Z.to_nat (Z.log2 T)) w <> None \/ gap_word w = true).
Proof. exact contracts_loose_domain. Qed.
Print Assumptions C03_contracts_domain.

(** PathToIndex adds the level contract *)
Theorem C03_contracts_strict : forall T w,
  contracts_PathToIndex T w = contracts_PathToIndexLoose T w && bitmapMustHaveLevel T (PathLen w).
Proof. exact contracts_strict_split. Qed.
Print Assumptions C03_contracts_strict.

(** the raw-argument operations of the correspondence run: on EVERY raw input the expectation
    (value inside the domain, panic outside, nothing claimed on the gap) accepts the model of the
    debug build *)
Theorem C03_raw_loose : forall T w (eqb : Z * Z -> Z * Z -> bool), - 2 ^ 31 <= T < 2 ^ 31 -> 0 <= w < 2 ^ 64 ->
  (forall a, eqb a a = true) ->
  expect_accepts eqb (raw_loose_expect T w) (PathToIndexLoose_debug T w) = true.
Proof. exact C03_raw_loose_stmt. Qed.
Print Assumptions C03_raw_loose.

Theorem C03_raw_strict : forall T w, - 2 ^ 31 <= T < 2 ^ 31 -> 0 <= w < 2 ^ 64 ->
  expect_accepts Z.eqb (raw_strict_expect T w) (PathToIndex_debug T w) = true.
Proof. exact raw_strict_accepts. Qed.
Print Assumptions C03_raw_strict.

(** the INTENDED contract — "a contract fires on every word that is not a path word of the tree" — is
    false of the code as it is (pathCheck returns before its "path bits must be shorter than mask" test
    when the mask half is 0).  Witness replayed on the implementation (-tags debug):
    PathToIndexLoose(0xf, 0x800000000) = (15, 1), no panic, and 15 is not an index of a 15-node tree.
    Reported to the lead as a finding; [gap_word] is exactly this family. *)
Theorem C03_contracts_exact_refuted :
  exists T w, - 2 ^ 31 <= T < 2 ^ 31 /\ 0 <= w < 2 ^ 64 /\
    contracts_PathToIndexLoose T w = true /\
    (forall q, (length q <= Z.to_nat (Height T))%nat -> w <> enc (Z.to_nat (Height T)) q) /\
    PathToIndexLoose_debug T w = Some (15, 1) /\ ~ (15 < T).
Proof. exact contracts_gap_witness. Qed.
Print Assumptions C03_contracts_exact_refuted.

(** * non-vacuity *)

(** a partial tree of height 6 (levels 1, 3, 4, 6 stored: T = 0b1011010 = 90), general branch *)
Example C03_general_nonvacuous :
  let T := 90 in let h := 6%nat in let q := [true; false; true; true] in
  1 <= T < 2 ^ 31 /\ Height T = Z.of_nat h /\ (length q <= h)%nat /\ stored T q = true /\
  Z.of_nat (length (stored_nodes T h)) = 90 /\
  pre_rank T h q = 63 /\
  PathToIndex T (enc h q) = Some 63 /\
  PathToIndexLoose T (enc h q) = Some (63, 1) /\
  PathToIndexLoose T (enc h [true; false; true]) = Some (57, 1) /\
  PathToIndexLoose T (enc h [true; false]) = Some (46, 0) /\
  PathToIndex_debug T (enc h q) = Some 63 /\
  PathToIndex_debug T (enc h [true; false]) = None /\
  nth 63 (stored_nodes T h) [] = q /\
  map (PathToIndex 5) (map (enc 2) (stored_nodes 5 2)) = [Some 0; Some 1; Some 2; Some 3; Some 4] /\
  map (enc 2) (stored_nodes 5 2) = [0; 3; 0x100000003; 0x200000003; 0x300000003].
Proof. cbv zeta. repeat apply conj; try (vm_compute; reflexivity); cbn [length]; lia. Qed.

(** full tree of height 30, right-most leaf: the inner int32 addition of the closed form
    overflows ("may overflow but ok") and the result is still the rank 2^31 - 2 *)
Example C03_full_nonvacuous :
  let T := 2 ^ 31 - 1 in let h := 30%nat in let q := repeat true 30 in
  1 <= T < 2 ^ 31 /\ Height T = Z.of_nat h /\ (length q <= h)%nat /\ stored T q = true /\
  T = MaskUpto (Z.of_nat h) /\
  2 ^ 31 <= sshl32 (i32 (shr64 (enc h q) 32)) 1 + i32 (popcount (Z.lxor (enc h q) 0xffffffff00000000)) /\
  PathToIndex T (enc h q) = Some (2 ^ 31 - 2) /\
  PathToIndex_debug T (enc h q) = Some (2 ^ 31 - 2) /\
  PathToIndexLoose_debug T (enc h q) = Some (2 ^ 31 - 2, 1).
Proof. cbv zeta. repeat apply conj; try (vm_compute; reflexivity); try (vm_compute; discriminate); cbn [length repeat]; lia. Qed.

(** leaf-only tree of height 30 and a general mask of height 30 *)
Example C03_leaf_nonvacuous :
  let T := 2 ^ 30 in let h := 30%nat in let q := repeat true 29 ++ [false] in
  1 <= T < 2 ^ 31 /\ Height T = Z.of_nat h /\ (length q <= h)%nat /\ stored T q = true /\
  T = Bit (Z.of_nat h) /\
  PathToIndex T (enc h q) = Some (2 ^ 30 - 2) /\
  PathToIndexLoose T (enc h [true]) = Some (2 ^ 29, 0) /\
  PathToIndex (2 ^ 30 + 2 ^ 15 + 1) (enc h q) = Some (1 + 2 ^ 15 + (2 ^ 30 - 2)).
Proof. cbv zeta. repeat apply conj; try (vm_compute; reflexivity); cbn [length repeat app]; lia. Qed.

(** shiftMulti on a 3-bit selector: 0b1011010 >> (6-1) + >> (6-3) + >> (6-4) = 2 + 11 + 22 *)
Example C03_shiftMulti_nonvacuous :
  0 <= 6 < 64 /\ 0 <= 26 < 2 ^ (6 + 1) /\ shiftMulti 90 26 6 = Some 35 /\
  sumbits (Z.to_nat (6 + 1)) 90 26 6 = 35.
Proof. repeat apply conj; try (vm_compute; reflexivity); lia. Qed.

(** raw arguments: a valid pair, a word of a taller tree, a negative level mask, a hole in the mask, the gap *)
Example C03_raw_nonvacuous :
  decode_word 6 (enc 6 [true; false; true; true]) = Some [true; false; true; true] /\
  raw_loose_expect 90 (enc 6 [true; false; true; true]) = ExpValue (63, 1) /\
  PathToIndexLoose_debug 90 (enc 6 [true; false; true; true]) = Some (63, 1) /\
  raw_loose_expect 90 (enc 7 [true; false; true; true]) = ExpPanic /\
  PathToIndexLoose_debug 90 (enc 7 [true; false; true; true]) = None /\
  raw_loose_expect (-90) (enc 6 [true]) = ExpPanic /\ PathToIndexLoose_debug (-90) (enc 6 [true]) = None /\
  raw_loose_expect 90 0x280000002c = ExpPanic /\ PathToIndexLoose_debug 90 0x280000002c = None /\
  raw_strict_expect 90 (enc 6 [true; false]) = ExpPanic /\ PathToIndex_debug 90 (enc 6 [true; false]) = None /\
  raw_loose_expect 0xf 0x800000000 = ExpAny /\ gap_word 0x800000000 = true /\
  contracts_PathToIndexLoose 0xf 0x800000000 = true.
Proof. repeat apply conj; vm_compute; reflexivity. Qed.

(** children in the partial tree T = 0b1011010: node 10 has index 46 and is not stored; its children 100 / 101 *)
Example C03_child_nonvacuous :
  PathToIndexLoose 90 (enc 6 [true; false]) = Some (46, 0) /\
  PathToIndexLoose 90 (enc 6 ([true; false] ++ [false])) = Some (46 + 0 + 0, 1) /\
  PathToIndexLoose 90 (enc 6 ([true; false] ++ [true])) = Some (46 + 0 + 90 / 2 ^ 3, 1) /\
  pre_rank 90 6 [true; false] + pre_rank (90 / 2 ^ 2) 4 [true; true] = 63 /\
  PathToIndexLoose 90 (enc 6 ([true; false] ++ [true; true])) = Some (63, 1).
Proof. repeat apply conj; vm_compute; reflexivity. Qed.

(** the key "\xa5\x80" from bit 3, tree 0b1011010 of height 6: node = bits 3..8 = 001011 *)
Example C03_key_nonvacuous :
  key_node [0xa5; 0x80] 3 6 = [false; false; true; false; true; true] /\
  PathOf [0xa5; 0x80] 3 6 = Some (enc 6 [false; false; true; false; true; true]) /\
  PathToIndexLoose 90 (enc 6 [false; false; true; false; true; true]) = Some (pre_rank 90 6 [false; false; true; false; true; true], 1) /\
  key_node [0xa5; 0x80] 12 6 = [false; false; false; false] /\
  PathOf [0xa5; 0x80] 12 6 = Some (enc 6 [false; false; false; false]).
Proof. repeat apply conj; vm_compute; reflexivity. Qed.

(** a session on T = 0b101: Loose of the absent-level node 0, then PathToIndex of its first stored descendant 00 *)
Example C03_session_nonvacuous :
  Forall (look_ok 5 2) [(false, [false]); (true, [false; false]); (true, []); (false, [true])] /\
  map (look_run true 5 2) [(false, [false]); (true, [false; false]); (true, []); (false, [true])] =
    [Some (inl (1, 0)); Some (inr 1); Some (inr 0); Some (inl (3, 0))] /\
  pre_rank 5 2 ([false] ++ repeat false 1) = pre_rank 5 2 [false].
Proof.
  split; [|split; vm_compute; reflexivity].
  repeat constructor; cbn [fst snd length]; try lia; try (intros _; vm_compute; reflexivity); try discriminate.
Qed.
