(** C10 — path words are self-consistent and their numeric order is pre-order.
    Only the property theorems (each closed by [exact]), their axiom audit and
    non-vacuity examples.  [h <= 32] is Go's own range: the uint64 word has 32
    bits for the search prefix and 32 for the mask. *)
From Coq Require Import ZArith List Bool Lia.
From Low Require Import Lib.MachInt Lib.Bits Lib.Lex Lib.Bytes Spec.Bmtree Spec.PathSpec Spec.ContractSpec Spec.PathWideSpec
  Model.BmtreePath Model.BmtreePathStr Model.BmtreePathWide Proofs.BmtreePathProofs
  Proofs.BmtreePathFamily Proofs.BmtreePathRawFields Proofs.BmtreeNewPathRaw Proofs.BmtreePathRebuild
  Model.BmtreeIndex Proofs.BmtreePathWideExtra Proofs.BmtreePathText Run.WideC10 Proofs.BmtreePathSession.
Import ListNotations.
Open Scope Z_scope.

(** NewPath(prefix left-aligned in h bits, l, h) is the word [enc h q] *)
Theorem C10_newpath : forall h q, (h <= 32)%nat -> (length q <= h)%nat ->
  NewPath (valL h q) (Z.of_nat (length q)) (Z.of_nat h) = enc h q.
Proof. exact NewPath_enc. Qed.
Print Assumptions C10_newpath.

Theorem C10_len : forall h q, (h <= 32)%nat -> (length q <= h)%nat ->
  PathLen (enc h q) = Z.of_nat (length q).
Proof. exact PathLen_enc. Qed.
Print Assumptions C10_len.

Theorem C10_height : forall h q, (h <= 32)%nat -> (1 <= length q <= h)%nat ->
  PathHeight (enc h q) = Z.of_nat h.
Proof. exact PathHeight_enc. Qed.
Print Assumptions C10_height.

(** PathBits / PathMask are the upper / lower half of any word … *)
Theorem C10_bits_half : forall w, PathBits w = w / 2 ^ 32.
Proof. exact PathBits_half. Qed.
Print Assumptions C10_bits_half.

Theorem C10_mask_half : forall w, PathMask w = w mod 2 ^ 32.
Proof. exact PathMask_half. Qed.
Print Assumptions C10_mask_half.

(** … and of a path word they are the left-aligned prefix and the left-aligned mask *)
Theorem C10_bits : forall h q, (h <= 32)%nat -> (length q <= h)%nat ->
  PathBits (enc h q) = valL h q.
Proof. exact PathBits_enc. Qed.
Print Assumptions C10_bits.

Theorem C10_mask : forall h q, (h <= 32)%nat -> (length q <= h)%nat ->
  PathMask (enc h q) = Mask (Z.of_nat (length q)) * 2 ^ (Z.of_nat h - Z.of_nat (length q)).
Proof. exact PathMask_enc. Qed.
Print Assumptions C10_mask.

(** PathStr renders exactly the prefix bits ("" for the root) *)
Theorem C10_str : forall h q, (h <= 32)%nat -> (length q <= h)%nat ->
  PathStr (enc h q) = node_str q.
Proof. exact PathStr_enc. Qed.
Print Assumptions C10_str.

(** numeric order of the words = pre-order of the nodes (three-way) *)
Theorem C10_compare : forall q1 h q2, (h <= 32)%nat -> (length q1 <= h)%nat -> (length q2 <= h)%nat ->
  (enc h q1 ?= enc h q2) = bits_cmp q1 q2.
Proof. exact enc_compare. Qed.
Print Assumptions C10_compare.

Theorem C10_order : forall h q1 q2, (h <= 32)%nat -> (length q1 <= h)%nat -> (length q2 <= h)%nat ->
  enc h q1 < enc h q2 <-> pre_lt q1 q2.
Proof. exact enc_lt_iff. Qed.
Print Assumptions C10_order.

Theorem C10_injective : forall h q1 q2, (h <= 32)%nat -> (length q1 <= h)%nat -> (length q2 <= h)%nat ->
  enc h q1 = enc h q2 -> q1 = q2.
Proof. exact enc_inj. Qed.
Print Assumptions C10_injective.

(** a node sorts before all its descendants, the left subtree before the right *)
Theorem C10_ancestor_first : forall q b r, pre_lt q (q ++ b :: r).
Proof. exact pre_lt_descendant. Qed.
Print Assumptions C10_ancestor_first.

Theorem C10_left_before_right : forall q r1 r2, pre_lt (q ++ false :: r1) (q ++ true :: r2).
Proof. exact pre_lt_left_right. Qed.
Print Assumptions C10_left_before_right.

(** the boolean checker run by the correspondence accepts the model's
    observation on every in-domain input (so the checker is not stronger than
    the theorems) *)
Theorem C10_checker_sound : forall h q, (h <= 32)%nat -> (length q <= h)%nat ->
  let w := NewPath (valL h q) (Z.of_nat (length q)) (Z.of_nat h) in
  fields_ok (Z.of_nat h) q w (PathLen w) (PathHeight w) (PathBits w) (PathMask w) (PathStr w) = true.
Proof. exact fields_ok_model. Qed.
Print Assumptions C10_checker_sound.

(** non-vacuity: height 32 (the mask fills the low half), a 3-bit node and one
    of its descendants / its right sibling subtree *)
Example C10_nonvacuous :
  (32 <= 32)%nat /\ (length [false; true; true] <= 32)%nat /\
  enc 32 [false; true; true] = 0x60000000e0000000 /\
  PathLen (enc 32 [false; true; true]) = 3 /\ PathHeight (enc 32 [false; true; true]) = 32 /\
  PathStr (enc 32 [false; true; true]) = [48; 49; 49] /\
  enc 32 [false; true; true] < enc 32 [false; true; true; false] /\
  enc 32 [false; true; true; true] < enc 32 [true] /\
  pre_lt [false; true; true; true] [true].
Proof. repeat apply conj; try (vm_compute; reflexivity); cbn [length]; lia. Qed.

(** * WIDENING ROUND *)

(** ** NewPath on arbitrary arguments (Model/BmtreePathWide.v: table lookup that
    panics, int32 difference, uint conversion of the shift count) *)

(** every uint64 search word and every int32 length / height: bit i of the result is
    bit i-32 of the search word as given, or a mask bit when h-l is a valid shift
    count; a length outside 0..64 panics *)
Theorem C10_newpath_raw : forall sb l h,
  0 <= sb < 2 ^ 64 -> - 2 ^ 31 <= l < 2 ^ 31 -> - 2 ^ 31 <= h < 2 ^ 31 ->
  NewPath_full sb l h = newpath_spec sb l h.
Proof. exact NewPath_full_spec. Qed.
Print Assumptions C10_newpath_raw.

Theorem C10_newpath_panics : forall sb l h, l < 0 \/ 64 < l -> NewPath_full sb l h = None.
Proof. exact NewPath_full_panics. Qed.
Print Assumptions C10_newpath_panics.

(** in the documented range, whatever the search word: its low 32 bits are kept
    as they are (bits beyond the length are NOT cleared), the mask is canonical *)
Theorem C10_newpath_range : forall sb l h, 0 <= l <= h -> h <= 32 ->
  NewPath_full sb l h = Some ((sb mod 2 ^ 32) * 2 ^ 32 + Mask l * 2 ^ (h - l)).
Proof. exact NewPath_full_range. Qed.
Print Assumptions C10_newpath_range.

Theorem C10_newpath_full_enc : forall h q, (h <= 32)%nat -> (length q <= h)%nat ->
  NewPath_full (valL h q) (Z.of_nat (length q)) (Z.of_nat h) = Some (enc h q).
Proof. exact NewPath_full_enc. Qed.
Print Assumptions C10_newpath_full_enc.

(** search bits below the prefix stay in the word (so the word is NOT the node's
    path word) but PathLen / PathHeight / PathStr do not see them *)
Theorem C10_noncanon_word : forall h q e, (h <= 32)%nat -> (length q <= h)%nat ->
  0 <= e < 2 ^ (Z.of_nat h - Z.of_nat (length q)) ->
  NewPath_full (valL h q + e) (Z.of_nat (length q)) (Z.of_nat h) = Some (enc h q + e * 2 ^ 32).
Proof. exact NewPath_full_noncanon. Qed.
Print Assumptions C10_noncanon_word.

Theorem C10_noncanon_len : forall h q e, (h <= 32)%nat -> (length q <= h)%nat ->
  PathLen (enc h q + e * 2 ^ 32) = Z.of_nat (length q).
Proof. exact PathLen_noncanon. Qed.
Print Assumptions C10_noncanon_len.

Theorem C10_noncanon_height : forall h q e, (h <= 32)%nat -> (1 <= length q <= h)%nat ->
  PathHeight (enc h q + e * 2 ^ 32) = Z.of_nat h.
Proof. exact PathHeight_noncanon. Qed.
Print Assumptions C10_noncanon_height.

Theorem C10_noncanon_str : forall h q e, (h <= 32)%nat -> (length q <= h)%nat ->
  0 <= e < 2 ^ (Z.of_nat h - Z.of_nat (length q)) ->
  PathStr (enc h q + e * 2 ^ 32) = node_str q.
Proof. exact PathStr_noncanon. Qed.
Print Assumptions C10_noncanon_str.

Theorem C10_noncanon_checker_sound : forall h q e, (h <= 32)%nat -> (length q <= h)%nat ->
  0 <= e < 2 ^ (Z.of_nat h - Z.of_nat (length q)) ->
  let w := enc h q + e * 2 ^ 32 in
  noncanon_ok (Z.of_nat h) q e w (PathLen w) (PathHeight w) (PathStr w) = true.
Proof. exact noncanon_ok_model. Qed.
Print Assumptions C10_noncanon_checker_sound.

(** ** the accessors on an arbitrary uint64 *)
Theorem C10_raw_len : forall w, PathLen w = len_spec w.
Proof. exact PathLen_raw. Qed.
Print Assumptions C10_raw_len.

Theorem C10_raw_height : forall w, height_ok w (PathHeight w) = true.
Proof. exact PathHeight_raw_ok. Qed.
Print Assumptions C10_raw_height.

Theorem C10_raw_height_unique : forall w h, height_ok w h = true -> h = PathHeight w.
Proof. exact height_ok_unique. Qed.
Print Assumptions C10_raw_height_unique.

(** PathStr of any word: "" for an empty mask, else the numeral of the word shifted
    right by 32 + height - length, zero-padded to at least length digits *)
Theorem C10_raw_str : forall w, 0 <= w < 2 ^ 64 -> PathStr w = str_spec w (PathLen w) (PathHeight w).
Proof. exact PathStr_raw. Qed.
Print Assumptions C10_raw_str.

(** the checker of bmtree.PathFields/raw accepts exactly the model's observation *)
Theorem C10_raw_checker_exact : forall w pl ph pb pm ps, 0 <= w < 2 ^ 64 ->
  rawfields_ok w pl ph pb pm ps = true <->
  pl = PathLen w /\ ph = PathHeight w /\ pb = PathBits w /\ pm = PathMask w /\ ps = PathStr w.
Proof. exact rawfields_ok_iff. Qed.
Print Assumptions C10_raw_checker_exact.

(** ** rebuilding a word from its fields; decoding *)
Theorem C10_rebuild : forall w, 0 <= w < 2 ^ 64 -> rebuild w = Some (rebuild_spec w (PathHeight w)).
Proof. exact rebuild_raw. Qed.
Print Assumptions C10_rebuild.

(** NewPath(PathBits w, PathLen w, PathHeight w) = w and no search bit outside the
    mask  <->  w decodes (height read from the word)  <->  w is the path word of a node *)
Theorem C10_rebuild_fix : forall w, 0 <= w < 2 ^ 64 ->
  (rebuild w = Some w /\ stray w = 0) <-> is_some (dec_word w (PathHeight w)) = true.
Proof. exact rebuild_fix_iff. Qed.
Print Assumptions C10_rebuild_fix.

Theorem C10_image : forall w, 0 <= w < 2 ^ 64 ->
  is_some (dec_word w (PathHeight w)) = true <->
  exists h q, (h <= 32)%nat /\ (length q <= h)%nat /\ w = enc h q.
Proof. exact decodes_iff_image. Qed.
Print Assumptions C10_image.

Theorem C10_dec_enc : forall h q, (h <= 32)%nat -> (length q <= h)%nat ->
  dec_word (enc h q) (PathHeight (enc h q)) = Some q.
Proof. exact dec_enc. Qed.
Print Assumptions C10_dec_enc.

Theorem C10_enc_dec : forall w q, 0 <= w < 2 ^ 64 -> dec_word w (PathHeight w) = Some q ->
  (length q <= Z.to_nat (PathHeight w))%nat /\ enc (Z.to_nat (PathHeight w)) q = w.
Proof. exact enc_dec. Qed.
Print Assumptions C10_enc_dec.

Theorem C10_rebuild_checker_sound : forall w r, 0 <= w < 2 ^ 64 -> rebuild w = Some r ->
  rebuild_ok w r (stray w) (PathHeight w) = true.
Proof. exact rebuild_ok_model. Qed.
Print Assumptions C10_rebuild_checker_sound.

(** ** family relations on words *)
Theorem C10_parent_child : forall h q b, (h <= 32)%nat -> (length q < h)%nat ->
  enc h q < enc h (q ++ [b]).
Proof. exact enc_parent_child. Qed.
Print Assumptions C10_parent_child.

Theorem C10_left_right_child : forall h q, (h <= 32)%nat -> (length q < h)%nat ->
  enc h (q ++ [false]) < enc h (q ++ [true]).
Proof. exact enc_left_right. Qed.
Print Assumptions C10_left_right_child.

(** the child's word computed from the parent's word *)
Theorem C10_child_word : forall h q b, (length q < h)%nat ->
  enc h (q ++ [b]) =
  enc h q + Z.b2z b * 2 ^ (32 + (Z.of_nat h - Z.of_nat (length q) - 1)) + 2 ^ (Z.of_nat h - Z.of_nat (length q) - 1).
Proof. exact enc_child_word. Qed.
Print Assumptions C10_child_word.

(** the sub-tree of q = the words in [enc q, enc (next_out q)) *)
Theorem C10_subtree_interval : forall h q r n, (h <= 32)%nat -> (length q <= h)%nat -> (length r <= h)%nat ->
  next_out q = Some n ->
  (enc h q <= enc h r < enc h n <-> is_prefix q r = true).
Proof. exact subtree_interval. Qed.
Print Assumptions C10_subtree_interval.

Theorem C10_subtree_interval_spine : forall h q r, (h <= 32)%nat -> (length q <= h)%nat -> (length r <= h)%nat ->
  next_out q = None ->
  (enc h q <= enc h r <-> is_prefix q r = true).
Proof. exact subtree_interval_spine. Qed.
Print Assumptions C10_subtree_interval_spine.

Theorem C10_children_between : forall h q b n, (h <= 32)%nat -> (length q < h)%nat -> next_out q = Some n ->
  enc h q < enc h (q ++ [b]) < enc h n.
Proof. exact children_between. Qed.
Print Assumptions C10_children_between.

Theorem C10_prefix_iff : forall q r, is_prefix q r = true <-> exists s, r = q ++ s.
Proof. exact is_prefix_iff. Qed.
Print Assumptions C10_prefix_iff.

Theorem C10_family_checker_sound : forall h q r, (h <= 32)%nat -> (length q <= h)%nat -> (length r <= h)%nat ->
  family_ok (Z.of_nat h) q r (enc h q)
    (if (length q <? h)%nat then Some (enc h (q ++ [false])) else None)
    (if (length q <? h)%nat then Some (enc h (q ++ [true])) else None)
    (option_map (enc h) (next_out q)) (enc h r) = true.
Proof. exact family_ok_model. Qed.
Print Assumptions C10_family_checker_sound.

(** ** NewPath with ANY search word in the documented range: what the accessors return *)
Theorem C10_fields_anybits : forall sb h l w, (h <= 32)%nat -> (l <= h)%nat ->
  NewPath_full sb (Z.of_nat l) (Z.of_nat h) = Some w ->
  PathLen w = Z.of_nat l /\ ((1 <= l)%nat -> PathHeight w = Z.of_nat h) /\
  PathBits w = sb mod 2 ^ 32 /\ PathMask w = Mask (Z.of_nat l) * 2 ^ (Z.of_nat h - Z.of_nat l).
Proof. exact fields_anybits. Qed.
Print Assumptions C10_fields_anybits.

(** ** siblings *)
Theorem C10_next_of_left_child : forall p, next_out (p ++ [false]) = Some (p ++ [true]).
Proof. exact next_out_app_false. Qed.
Print Assumptions C10_next_of_left_child.

Theorem C10_next_of_right_child : forall p, next_out (p ++ [true]) = next_out p.
Proof. exact next_out_app_true. Qed.
Print Assumptions C10_next_of_right_child.

Theorem C10_left_subtree_below_sibling : forall h p s, (h <= 32)%nat -> (length p + 1 + length s <= h)%nat ->
  enc h (p ++ [false] ++ s) < enc h (p ++ [true]).
Proof. exact left_subtree_below_sibling. Qed.
Print Assumptions C10_left_subtree_below_sibling.

(** ** the repo's own well-formedness test (pathcheck.go, debug build; model in
    Model/BmtreeIndex.v, correspondence through the debug operations of C03) against decoding *)
Theorem C10_pathCheck_decodes : forall w, 0 <= w < 2 ^ 64 -> u32 w <> 0 ->
  (pathCheck w = true <-> PathHeight w <= 30 /\ is_some (dec_word w (PathHeight w)) = true).
Proof. exact pathCheck_iff_decodes. Qed.
Print Assumptions C10_pathCheck_decodes.

(** with an empty mask half pathCheck accepts any search bits below 2^30, but only 0 is a path word *)
Theorem C10_pathCheck_empty_mask : forall w, 0 <= w < 2 ^ 64 -> u32 w = 0 ->
  (pathCheck w = true <-> w / 2 ^ 32 < 2 ^ 30).
Proof. exact pathCheck_empty_mask. Qed.
Print Assumptions C10_pathCheck_empty_mask.

Theorem C10_decodes_empty_mask : forall w, 0 <= w < 2 ^ 64 -> u32 w = 0 ->
  (is_some (dec_word w (PathHeight w)) = true <-> w = 0).
Proof. exact decodes_empty_mask. Qed.
Print Assumptions C10_decodes_empty_mask.

Example C10_wide2_nonvacuous :
  NewPath_full 0xfffffffff 2 5 = Some 0xffffffff00000018 /\
  PathLen 0xffffffff00000018 = 2 /\ PathHeight 0xffffffff00000018 = 5 /\
  next_out ([true] ++ [false]) = Some [true; true] /\
  pathCheck (enc 30 [true; false; true]) = true /\
  pathCheck 0x500000000 = true /\ is_some (dec_word 0x500000000 (PathHeight 0x500000000)) = false /\
  pathCheck (enc 31 [true]) = false /\ is_some (dec_word (enc 31 [true]) (PathHeight (enc 31 [true]))) = true.
Proof. repeat apply conj; vm_compute; reflexivity. Qed.

(** ** the text of a path *)
(** text order (strings.Compare of PathStr) = numeric order of the words = pre-order *)
Theorem C10_str_order : forall h q1 q2, (h <= 32)%nat -> (length q1 <= h)%nat -> (length q2 <= h)%nat ->
  bytes_cmp (PathStr (enc h q1)) (PathStr (enc h q2)) = (enc h q1 ?= enc h q2).
Proof. exact PathStr_order. Qed.
Print Assumptions C10_str_order.

Theorem C10_node_str_order : forall q1 q2, bytes_cmp (node_str q1) (node_str q2) = bits_cmp q1 q2.
Proof. exact node_str_cmp. Qed.
Print Assumptions C10_node_str_order.

(** word -> PathStr -> ParseUint base 2 -> NewPath gives the word back *)
Theorem C10_str_parse : forall h q, (h <= 32)%nat -> (length q <= h)%nat ->
  let s := PathStr (enc h q) in
  NewPath_full (shl64 (parse_bin s) (Z.of_nat h - BitSeq.zlen s)) (BitSeq.zlen s) (Z.of_nat h) = Some (enc h q).
Proof. exact PathStr_parse. Qed.
Print Assumptions C10_str_parse.

Theorem C10_str_order_checker_sound : forall h q1 q2, (h <= 32)%nat -> (length q1 <= h)%nat -> (length q2 <= h)%nat ->
  strorder_ok q1 q2 (cmp_sign (bytes_cmp (PathStr (enc h q1)) (PathStr (enc h q2))))
    (PathStr (enc h q1)) (PathStr (enc h q2)) = true.
Proof. exact strorder_ok_model. Qed.
Print Assumptions C10_str_order_checker_sound.

(** ** limits of the property: the root's word is 0 at every height (so PathHeight is
    claimed for |q| >= 1 only), and words of DIFFERENT heights do not compare in pre-order *)
Theorem C10_root_word : forall h, enc h [] = 0 /\ PathHeight (enc h []) = 0 /\ PathStr (enc h []) = [].
Proof. exact root_word. Qed.
Print Assumptions C10_root_word.

Theorem C10_mixed_heights_refuted :
  exists h1 h2 q1 q2, (h1 <= 32)%nat /\ (h2 <= 32)%nat /\ (length q1 <= h1)%nat /\ (length q2 <= h2)%nat /\
    pre_lt q1 q2 /\ enc h2 q2 < enc h1 q1.
Proof. exact mixed_heights_refuted. Qed.
Print Assumptions C10_mixed_heights_refuted.

Example C10_text_nonvacuous :
  PathStr (enc 6 [true; false; false]) = [49; 48; 48] /\ parse_bin [49; 48; 48] = 4 /\
  NewPath_full (shl64 4 (6 - 3)) 3 6 = Some (enc 6 [true; false; false]) /\
  bytes_cmp (PathStr (enc 6 [true; false; false])) (PathStr (enc 6 [true; false])) = Gt /\
  (enc 6 [true; false; false] ?= enc 6 [true; false]) = Gt.
Proof. repeat apply conj; vm_compute; reflexivity. Qed.

(** ** sessions: many PathStr calls in one process (operations bmtree.PathStr/seq, /bulk, /concurrent).
    The model's PathStr is a function of the word alone, so whatever the order, repetition, mix of
    heights or interleaving of the calls, every call returns the text of its own node; the operations
    check that the implementation behaves as that function (memo tables, bounded caches, lock-free
    "last result" words inside PathStr would not). *)
Theorem C10_session : forall l : list (nat * node),
  Forall (fun hq => (fst hq <= 32)%nat /\ (length (snd hq) <= fst hq)%nat) l ->
  map (fun hq => PathStr (enc (fst hq) (snd hq))) l = map (fun hq => node_str (snd hq)) l.
Proof. exact session_strs. Qed.
Print Assumptions C10_session.

(** the word of the l-bit prefix number x, as the bulk operation builds it *)
Theorem C10_seg_word : forall h l x, 0 <= h <= 32 -> 1 <= l <= h -> 0 <= x < 2 ^ l ->
  NewPath_full (x * 2 ^ (h - l)) l h = Some (enc (Z.to_nat h) (node_of (Z.to_nat l) x)).
Proof. exact seg_word. Qed.
Print Assumptions C10_seg_word.

(** the bulk operation's model (Run/WideC10.v: words through NewPath, texts through PathStr, digest,
    first K again) equals its specification (texts of the enumerated nodes), for any number of paths *)
Theorem C10_bulk_model_spec : forall segs K stride, 0 <= K -> 1 <= stride -> Forall seg_dom segs ->
  c10w_bulk segs K stride = Some (bulk_spec segs K stride).
Proof. exact bulk_model_spec. Qed.
Print Assumptions C10_bulk_model_spec.

Example C10_session_nonvacuous :
  seg_dom (8, 4, 10, 2) /\
  c10w_bulk [(8, 4, 10, 2); (9, 4, 5, 1)] 2 1 = Some (bulk_spec [(8, 4, 10, 2); (9, 4, 5, 1)] 2 1) /\
  snd (bulk_spec [(8, 4, 10, 2); (9, 4, 5, 1)] 2 1) = [[49; 48; 49; 48]; [49; 48; 49; 49]] /\
  bulk_nodes [(8, 4, 0, 16)] 5 = [node_of 4 0; node_of 4 5; node_of 4 10; node_of 4 15] /\
  PathBits (enc 8 [true; false; true; false]) = PathBits (enc 9 [false; true; false; true]) /\
  PathStr (enc 9 [false; true; false; true]) = [48; 49; 48; 49].
Proof. repeat apply conj; vm_compute; try reflexivity; try lia; congruence. Qed.

(** non-vacuity of the widening: a call outside the documented range (height 40: the
    mask reaches the upper half), a panic, a non-canonical search word, a word with a
    hole in its mask that does not decode, and a sub-tree interval *)
Example C10_wide_nonvacuous :
  NewPath_full 0x5 3 40 = Some 0xe500000000 /\ newpath_spec 0x5 3 40 = Some 0xe500000000 /\
  NewPath_full 0 65 3 = None /\
  NewPath_full 0x7 1 3 = Some (enc 3 [true] + 3 * 2 ^ 32) /\ PathStr (enc 3 [true] + 3 * 2 ^ 32) = [49] /\
  rebuild 0x500000005 = Some 0x500000006 /\ is_some (dec_word 0x500000005 (PathHeight 0x500000005)) = false /\
  rebuild (enc 5 [true; false]) = Some (enc 5 [true; false]) /\ stray (enc 5 [true; false]) = 0 /\
  dec_word (enc 5 [true; false]) (PathHeight (enc 5 [true; false])) = Some [true; false] /\
  next_out [false; true; true] = Some [true] /\
  enc 4 [false; true; true] <= enc 4 [false; true; true; true] < enc 4 [true] /\
  is_prefix [false; true; true] [false; true; true; true] = true /\
  PathStr 0x0000001200000005 = [49; 48; 48; 49].
Proof. repeat apply conj; vm_compute; try reflexivity; congruence. Qed.
