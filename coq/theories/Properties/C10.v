(** C10 — path words are self-consistent and their numeric order is pre-order.
    Only the property theorems (each closed by [exact]), their axiom audit and
    non-vacuity examples.  [h <= 32] is Go's own range: the uint64 word has 32
    bits for the search prefix and 32 for the mask. *)
From Coq Require Import ZArith List Bool Lia.
From Low Require Import Lib.Bits Lib.Lex Lib.Bytes Spec.Bmtree Spec.PathSpec
  Model.BmtreePath Model.BmtreePathStr Proofs.BmtreePathProofs.
Import ListNotations.
Open Scope Z_scope.

(** NewPath(prefix left-aligned in h bits, l, h) is the word [enc h q] *)
Theorem C10_newpath : forall h q, (h <= 32)%nat -> (length q <= h)%nat ->
  NewPath (valL h q) (Z.of_nat (length q)) (Z.of_nat h) = enc h q.
Proof. exact NewPath_enc. Qed.
Print Assumptions C10_newpath.

Theorem C10_len : forall h q, (h <= 32)%nat -> (length q <= h)%nat ->
  PathLen (enc h q) = Z.of_nat (length q).
Proof. exact PathLen_enc. Qed.
Print Assumptions C10_len.

Theorem C10_height : forall h q, (h <= 32)%nat -> (1 <= length q <= h)%nat ->
  PathHeight (enc h q) = Z.of_nat h.
Proof. exact PathHeight_enc. Qed.
Print Assumptions C10_height.

(** PathBits / PathMask are the upper / lower half of any word … *)
Theorem C10_bits_half : forall w, PathBits w = w / 2 ^ 32.
Proof. exact PathBits_half. Qed.
Print Assumptions C10_bits_half.

Theorem C10_mask_half : forall w, PathMask w = w mod 2 ^ 32.
Proof. exact PathMask_half. Qed.
Print Assumptions C10_mask_half.

(** … and of a path word they are the left-aligned prefix and the left-aligned mask *)
Theorem C10_bits : forall h q, (h <= 32)%nat -> (length q <= h)%nat ->
  PathBits (enc h q) = valL h q.
Proof. exact PathBits_enc. Qed.
Print Assumptions C10_bits.

Theorem C10_mask : forall h q, (h <= 32)%nat -> (length q <= h)%nat ->
  PathMask (enc h q) = Mask (Z.of_nat (length q)) * 2 ^ (Z.of_nat h - Z.of_nat (length q)).
Proof. exact PathMask_enc. Qed.
Print Assumptions C10_mask.

(** PathStr renders exactly the prefix bits ("" for the root) *)
Theorem C10_str : forall h q, (h <= 32)%nat -> (length q <= h)%nat ->
  PathStr (enc h q) = node_str q.
Proof. exact PathStr_enc. Qed.
Print Assumptions C10_str.

(** numeric order of the words = pre-order of the nodes (three-way) *)
Theorem C10_compare : forall q1 h q2, (h <= 32)%nat -> (length q1 <= h)%nat -> (length q2 <= h)%nat ->
  (enc h q1 ?= enc h q2) = bits_cmp q1 q2.
Proof. exact enc_compare. Qed.
Print Assumptions C10_compare.

Theorem C10_order : forall h q1 q2, (h <= 32)%nat -> (length q1 <= h)%nat -> (length q2 <= h)%nat ->
  enc h q1 < enc h q2 <-> pre_lt q1 q2.
Proof. exact enc_lt_iff. Qed.
Print Assumptions C10_order.

Theorem C10_injective : forall h q1 q2, (h <= 32)%nat -> (length q1 <= h)%nat -> (length q2 <= h)%nat ->
  enc h q1 = enc h q2 -> q1 = q2.
Proof. exact enc_inj. Qed.
Print Assumptions C10_injective.

(** a node sorts before all its descendants, the left subtree before the right *)
Theorem C10_ancestor_first : forall q b r, pre_lt q (q ++ b :: r).
Proof. exact pre_lt_descendant. Qed.
Print Assumptions C10_ancestor_first.

Theorem C10_left_before_right : forall q r1 r2, pre_lt (q ++ false :: r1) (q ++ true :: r2).
Proof. exact pre_lt_left_right. Qed.
Print Assumptions C10_left_before_right.

(** the boolean checker run by the correspondence accepts the model's
    observation on every in-domain input (so the checker is not stronger than
    the theorems) *)
Theorem C10_checker_sound : forall h q, (h <= 32)%nat -> (length q <= h)%nat ->
  let w := NewPath (valL h q) (Z.of_nat (length q)) (Z.of_nat h) in
  fields_ok (Z.of_nat h) q w (PathLen w) (PathHeight w) (PathBits w) (PathMask w) (PathStr w) = true.
Proof. exact fields_ok_model. Qed.
Print Assumptions C10_checker_sound.

(** non-vacuity: height 32 (the mask fills the low half), a 3-bit node and one
    of its descendants / its right sibling subtree *)
Example C10_nonvacuous :
  (32 <= 32)%nat /\ (length [false; true; true] <= 32)%nat /\
  enc 32 [false; true; true] = 0x60000000e0000000 /\
  PathLen (enc 32 [false; true; true]) = 3 /\ PathHeight (enc 32 [false; true; true]) = 32 /\
  PathStr (enc 32 [false; true; true]) = [48; 49; 49] /\
  enc 32 [false; true; true] < enc 32 [false; true; true; false] /\
  enc 32 [false; true; true; true] < enc 32 [true] /\
  pre_lt [false; true; true; true] [true].
Proof. repeat apply conj; try (vm_compute; reflexivity); cbn [length]; lia. Qed.
