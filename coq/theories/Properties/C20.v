(** C20 — size.Of is the structural sum of a value's parts; the first line of
    size.Stat reports the same number.

    Model: Model/Size.v ([sizeof] mirrors the two switches of size/sizeof.go,
    left-to-right running sums, panic = None).  Specification: Spec/SizeSpec.v
    ([spec_size] = sum of the widths of the flattened scalar leaves + sum of the
    headers of the flattened container nodes).  All statements are unbounded in
    the size and nesting depth of the value.  [supported v]: no chan / func /
    unsafe.Pointer node anywhere in [v] (the domain of the property). *)
From Coq Require Import ZArith List Bool.
From Low Require Import Model.Size Spec.SizeSpec Proofs.SizeProofs.
Import ListNotations.
Open Scope Z_scope.

(** sizeof never panics on a supported value and returns the structural sum *)
Theorem C20_sizeof_structural : forall v,
  supported v -> sizeof v = Some (spec_size v).
Proof. exact sizeof_structural. Qed.
Print Assumptions C20_sizeof_structural.

(** size.Of: a nil argument gives 0, any supported value its structural sum *)
Theorem C20_Of : forall data,
  match data with Some v => supported v | None => True end ->
  Of data = Some (spec_Of data).
Proof. exact Of_structural. Qed.
Print Assumptions C20_Of.

(** the structural sum is what the statement says, clause by clause: the width
    of a scalar; header + parts for strings (16), slices (24), maps (8),
    pointers (8), interfaces (16); the plain sum for arrays and structs; nil
    pointer / nil interface / nil slice = the header alone *)
Theorem C20_clauses :
  (forall k, spec_size (VScalar k) = width k) /\
  (forall bs, spec_size (VString bs) = 16 + Z.of_nat (length bs)) /\
  (spec_size (VSlice None) = 24) /\
  (forall l, spec_size (VSlice (Some l)) = 24 + sizes l) /\
  (forall kvs, spec_size (VMap kvs) = 8 + pair_sizes kvs) /\
  (spec_size (VPtr None) = 8) /\
  (forall x, spec_size (VPtr (Some x)) = 8 + spec_size x) /\
  (spec_size (VIface None) = 16) /\
  (forall x, spec_size (VIface (Some x)) = 16 + spec_size x) /\
  (forall l, spec_size (VArray l) = sizes l) /\
  (forall l, spec_size (VStruct l) = sizes l).
Proof. exact structural_sum_clauses. Qed.
Print Assumptions C20_clauses.

(** the first line of Stat: "<nil>" for nil, otherwise the structural sum,
    whatever depth and maxItem *)
Theorem C20_Stat_first_line : forall data depth maxItem,
  match data with Some v => supported v | None => True end ->
  StatFirst data depth maxItem = Some (spec_StatFirst data).
Proof. exact StatFirst_structural. Qed.
Print Assumptions C20_Stat_first_line.

(** ... which is the number Of returns for the same value *)
Theorem C20_Stat_agrees_Of : forall v depth maxItem n,
  Of (Some v) = Some n -> StatFirst (Some v) depth maxItem = Some (Some n).
Proof. exact StatFirst_agrees_Of. Qed.
Print Assumptions C20_Stat_agrees_Of.

(** the defect repaired by /repo commit 115a67f: with the scalar kind list as it
    was (no Uint, no Uintptr) the "never panics" part of C20_sizeof_structural
    is false — a struct with a uint field makes Of panic *)
Theorem C20_uint_refuted :
  exists v, supported v /\ legacy_Of (Some v) = None.
Proof. exact legacy_uint_panics. Qed.
Print Assumptions C20_uint_refuted.

(** non-vacuity: a slice of structs with a string-keyed map, a nil pointer, a
    non-nil interface holding a uint, an empty slice and a uintptr *)
Example C20_nonvacuous :
  let v := VSlice (Some [
             VStruct [VMap [(VString [97; 98; 99], VScalar KInt8)];
                      VPtr None;
                      VIface (Some (VScalar KUint));
                      VSlice (Some []);
                      VArray [VScalar KUintptr; VScalar KUintptr]];
             VStruct [VMap []; VPtr (Some (VScalar KComplex128)); VIface None; VSlice None; VArray []]]) in
  supported v /\ sizeof v = Some 196 /\ spec_size v = 196 /\
  StatFirst (Some v) 3 100 = Some (Some 196) /\ Of None = Some 0.
Proof. vm_compute. repeat split; reflexivity. Qed.
