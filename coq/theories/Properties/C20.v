(** C20 — size.Of is the structural sum of a value's parts; the first line of
    size.Stat reports the same number.

    Model: Model/Size.v ([sizeof] mirrors the two switches of size/sizeof.go,
    left-to-right running sums, panic = None).  Specification: Spec/SizeSpec.v
    ([spec_size] = sum of the widths of the flattened scalar leaves + sum of the
    headers of the flattened container nodes).  All statements are unbounded in
    the size and nesting depth of the value.  [supported v]: no chan / func /
    unsafe.Pointer node anywhere in [v] (the domain of the property). *)
From Coq Require Import ZArith List Bool.
From Low Require Import Model.Size Spec.SizeSpec Proofs.SizeProofs.
From Low Require Import Model.SizeFmt Model.SizeStat Spec.SizeStatSpec Proofs.SizeStatProofs.
From Coq Require Import Permutation.
From Low Require Import Proofs.SizeStatOrderProofs Proofs.SizeFmtProofs Spec.SizeStatOrderSpec Proofs.SizeStatOrderDeep.
From Low Require Import Model.TypeHelper Spec.TypeHelperSpec Proofs.TypeHelperProofs.
From Low Require Import Model.SizeGraph Spec.SizeGraphSpec Proofs.SizeGraphProofs.
Import ListNotations.
Open Scope Z_scope.

(** sizeof never panics on a supported value and returns the structural sum *)
Theorem C20_sizeof_structural : forall v,
  supported v -> sizeof v = Some (spec_size v).
Proof. exact sizeof_structural. Qed.
Print Assumptions C20_sizeof_structural.

(** size.Of: a nil argument gives 0, any supported value its structural sum *)
Theorem C20_Of : forall data,
  match data with Some v => supported v | None => True end ->
  Of data = Some (spec_Of data).
Proof. exact Of_structural. Qed.
Print Assumptions C20_Of.

(** the structural sum is what the statement says, clause by clause: the width
    of a scalar; header + parts for strings (16), slices (24), maps (8),
    pointers (8), interfaces (16); the plain sum for arrays and structs; nil
    pointer / nil interface / nil slice = the header alone *)
Theorem C20_clauses :
  (forall k, spec_size (VScalar k) = width k) /\
  (forall bs, spec_size (VString bs) = 16 + Z.of_nat (length bs)) /\
  (spec_size (VSlice None) = 24) /\
  (forall l, spec_size (VSlice (Some l)) = 24 + sizes l) /\
  (forall kvs, spec_size (VMap kvs) = 8 + pair_sizes kvs) /\
  (spec_size (VPtr None) = 8) /\
  (forall x, spec_size (VPtr (Some x)) = 8 + spec_size x) /\
  (spec_size (VIface None) = 16) /\
  (forall x, spec_size (VIface (Some x)) = 16 + spec_size x) /\
  (forall l, spec_size (VArray l) = sizes l) /\
  (forall l, spec_size (VStruct l) = sizes l).
Proof. exact structural_sum_clauses. Qed.
Print Assumptions C20_clauses.

(** the first line of Stat: "<nil>" for nil, otherwise the structural sum,
    whatever depth and maxItem *)
Theorem C20_Stat_first_line : forall data depth maxItem,
  match data with Some v => supported v | None => True end ->
  StatFirst data depth maxItem = Some (spec_StatFirst data).
Proof. exact StatFirst_structural. Qed.
Print Assumptions C20_Stat_first_line.

(** ... which is the number Of returns for the same value *)
Theorem C20_Stat_agrees_Of : forall v depth maxItem n,
  Of (Some v) = Some n -> StatFirst (Some v) depth maxItem = Some (Some n).
Proof. exact StatFirst_agrees_Of. Qed.
Print Assumptions C20_Stat_agrees_Of.

(** the defect repaired by /repo commit 115a67f: with the scalar kind list as it
    was (no Uint, no Uintptr) the "never panics" part of C20_sizeof_structural
    is false — a struct with a uint field makes Of panic *)
Theorem C20_uint_refuted :
  exists v, supported v /\ legacy_Of (Some v) = None.
Proof. exact legacy_uint_panics. Qed.
Print Assumptions C20_uint_refuted.

(** non-vacuity: a slice of structs with a string-keyed map, a nil pointer, a
    non-nil interface holding a uint, an empty slice and a uintptr *)
Example C20_nonvacuous :
  let v := VSlice (Some [
             VStruct [VMap [(VString [97; 98; 99], VScalar KInt8)];
                      VPtr None;
                      VIface (Some (VScalar KUint));
                      VSlice (Some []);
                      VArray [VScalar KUintptr; VScalar KUintptr]];
             VStruct [VMap []; VPtr (Some (VScalar KComplex128)); VIface None; VSlice None; VArray []]]) in
  supported v /\ sizeof v = Some 196 /\ spec_size v = 196 /\
  StatFirst (Some v) 3 100 = Some (Some 196) /\ Of None = Some 0.
Proof. vm_compute. repeat split; reflexivity. Qed.

(** ------------------------------------------------------------------------
    WIDENING 1: the whole report of size.Stat.

    Model: Model/SizeStat.v ([stat]: the recursion on [depth], the three loops
    with their [maxItem] exits, prefixes put on the first line of each
    sub-report, one more indentation of all but the first line at every level)
    over values LABELLED with the type texts, field names and map-key texts
    that Go's reflect / fmt supply.  Specification: Spec/SizeStatSpec.v (the
    complete pre-order [listing] of the nodes; an entry is [visible] when its
    level is <= depth and every item index on its path is < maxItem; each
    visible entry is [render]ed on its own from its level, label, type and
    STRUCTURAL SUM).  Unbounded in the size and nesting of the value, any
    [depth] and [maxItem] in Z (negative depth = no limit), any options.
    Map entries are listed in the order of [LMap] (Go: the random order of
    MapKeys; see Run/C20.v for what is compared). *)

(** the report is the rendering of the visible entries, line for line *)
Theorem C20_Stat_report : forall data depth maxItem o,
  match data with Some v => lsupported v | None => True end ->
  StatLines data depth maxItem o = Some (spec_lines data depth maxItem o).
Proof. exact Stat_report. Qed.
Print Assumptions C20_Stat_report.

(** ... and the returned string is these lines joined by newlines *)
Theorem C20_Stat_text : forall data depth maxItem o,
  match data with Some v => lsupported v | None => True end ->
  StatText data depth maxItem o = Some (spec_text data depth maxItem o).
Proof. exact StatText_report. Qed.
Print Assumptions C20_Stat_text.

(** the variadic options: only the first one counts; a first option that is not an Opt panics *)
Theorem C20_Stat_opts : forall data depth maxItem opts,
  match data with Some v => lsupported v | None => True end ->
  StatOpts data depth maxItem opts = spec_opts data depth maxItem opts.
Proof. exact StatOpts_report. Qed.
Print Assumptions C20_Stat_opts.

(** the first line is "<type>: <n>" with n the number [Of] returns for the same value *)
Theorem C20_Stat_first_line_text : forall v depth maxItem n,
  lsupported v -> Of (Some (erase v)) = Some n ->
  exists rest, StatLines (Some v) depth maxItem no_opt = Some ((ty_of v ++ s_colon ++ dec n) :: rest).
Proof. exact Stat_first_line_text. Qed.
Print Assumptions C20_Stat_first_line_text.

(** depth 0: one line *)
Theorem C20_Stat_depth0 : forall v maxItem o,
  lsupported v -> StatLines (Some v) 0 maxItem o = Some [hdr o v].
Proof. exact Stat_depth0. Qed.
Print Assumptions C20_Stat_depth0.

(** negative depth and maxItem above every item index: every node of the value has its line *)
Theorem C20_Stat_complete : forall v depth maxItem o,
  lsupported v -> depth < 0 ->
  (forall e, In e (listing v 0 [] []) -> forallb (fun i => i <? maxItem) (e_idxs e) = true) ->
  StatLines (Some v) depth maxItem o = Some (map (render o) (listing v 0 [] [])).
Proof. exact Stat_complete. Qed.
Print Assumptions C20_Stat_complete.

(** the order in which MapKeys() hands out the keys of a (completely listed) map only permutes
    the blocks of the report ... *)
Theorem C20_Stat_map_order : forall ty kvs kvs' depth maxItem o,
  Permutation kvs kvs' -> Z.of_nat (length kvs) <= maxItem ->
  Permutation (spec_lines (Some (LMap ty kvs)) depth maxItem o)
              (spec_lines (Some (LMap ty kvs')) depth maxItem o).
Proof. exact Stat_map_order. Qed.
Print Assumptions C20_Stat_map_order.

(** ... and the sorted lines (what size.Stat/sorted compares) do not depend on it.
    Stated for a map at the top; the blocks below it are arbitrary values. *)
Theorem C20_Stat_sorted_map_order : forall ty kvs kvs' depth maxItem o,
  Permutation kvs kvs' -> Z.of_nat (length kvs) <= maxItem ->
  sort_lines (spec_lines (Some (LMap ty kvs)) depth maxItem o) =
  sort_lines (spec_lines (Some (LMap ty kvs')) depth maxItem o).
Proof. exact Stat_sorted_map_order. Qed.
Print Assumptions C20_Stat_sorted_map_order.

(** the same for maps at ANY depth: [sim v v'] = the same labelled value up to the order of the
    entries of its maps; [maps_le maxItem v] = no map of v has more than maxItem entries *)
Theorem C20_Stat_map_order_deep : forall v v' depth maxItem o,
  sim v v' -> maps_le maxItem v = true ->
  Permutation (spec_lines (Some v) depth maxItem o) (spec_lines (Some v') depth maxItem o).
Proof. exact Stat_map_order_deep. Qed.
Print Assumptions C20_Stat_map_order_deep.

Theorem C20_Stat_sorted_map_order_deep : forall v v' depth maxItem o,
  sim v v' -> maps_le maxItem v = true ->
  sort_lines (spec_lines (Some v) depth maxItem o) = sort_lines (spec_lines (Some v') depth maxItem o).
Proof. exact Stat_sorted_map_order_deep. Qed.
Print Assumptions C20_Stat_sorted_map_order_deep.

Example C20_Stat_order_nonvacuous :
  let i8 := LScalar [105; 56] KInt8 in
  let ea := ([97], VString [97], i8) in
  let eb := ([98], VString [98], LString [115] [1; 2]) in
  let v := LStruct [84] [([102], LMap [77] [ea; eb])] in
  let v' := LStruct [84] [([102], LMap [77] [eb; ea])] in
  sim v v' /\ maps_le 2 v = true /\
  nth 2 (spec_lines (Some v) (-1) 2 no_opt) [] = [32; 32; 32; 32; 32; 32; 32; 32; 97; 58; 32; 105; 56; 58; 32; 49] /\
  nth 2 (spec_lines (Some v') (-1) 2 no_opt) [] = [32; 32; 32; 32; 32; 32; 32; 32; 98; 58; 32; 115; 58; 32; 49; 56] /\
  sort_lines (spec_lines (Some v) (-1) 2 no_opt) = sort_lines (spec_lines (Some v') (-1) 2 no_opt).
Proof.
  cbv zeta. split.
  - apply sim_struct. constructor; [|constructor]. split; [reflexivity|]. cbn [snd].
    eapply sim_map; [|apply perm_swap].
    constructor; [split; [reflexivity|apply sim_scalar]|].
    constructor; [split; [reflexivity|apply sim_string]|constructor].
  - vm_compute. repeat split; reflexivity.
Qed.

(** the average of a header line: with T the printed number in thousandths, s the size, n = AvgOf,
    unit = unit_num / unit_den = 2^k (1 when AvgUnit = 0) and x = s / (n * unit) the exact quotient,
        | T / 1000 - x |  <=  1/2000  +  x / 2^53
    i.e. right to half a unit of the third decimal, plus the rounding of the one float64 division
    (stated multiplied out by 2000 * 2^53 * n * unit_num; the model of the float arithmetic is exact for
    s, n < 2^53, which is where float64(s) and float64(n) are exact) *)
Theorem C20_Stat_avg_accuracy : forall s n k, 0 <= s -> 0 < n ->
  let T := avg_thousandths s n k in
  Z.abs (2 * 2 ^ 53 * T * n * unit_num k - 2000 * 2 ^ 53 * s * unit_den k)
  <= 2 ^ 53 * n * unit_num k + 2000 * s * unit_den k.
Proof. exact avg_accuracy. Qed.
Print Assumptions C20_Stat_avg_accuracy.

(** the digits printed for a size denote that size *)
Theorem C20_Stat_decimal : forall n, 0 <= n < 10 ^ 40 -> digits_value (dec n) = n.
Proof. exact dec_denotes. Qed.
Print Assumptions C20_Stat_decimal.

(** non-vacuity: struct{a []int32 (3 elements); p interface{} (nil); m map (1 entry)}, depth 2, maxItem 2:
    8 lines (10 without limits); the third element of the slice is cut by maxItem *)
Example C20_Stat_nonvacuous :
  let i32 := LScalar [105; 51; 50] KInt32 in
  let v := LStruct [84] [([97], LSlice [91; 93] (Some [i32; i32; i32]));
                         ([112], LIface [73] None);
                         ([109], LMap [77] [([107], VString [107], LPtr [42] (Some i32))])] in
  lsupported v /\
  StatLines (Some v) 2 2 no_opt = Some (spec_lines (Some v) 2 2 no_opt) /\
  length (spec_lines (Some v) 2 2 no_opt) = 8%nat /\
  length (spec_lines (Some v) (-1) 100 no_opt) = 10%nat /\
  nth 3 (spec_lines (Some v) 2 2 no_opt) [] = [32; 32; 32; 32; 32; 32; 32; 32; 49; 58; 32; 105; 51; 50; 58; 32; 52] /\
  StatText (Some i32) 5 5 {| avgOf := 3; avgUnit := Some (-3) |} =
    Some [105; 51; 50; 58; 32; 52; 32; 47; 110; 32; 61; 32; 49; 48; 46; 54; 54; 55] /\
  avg_thousandths 4 3 (Some (-3)) = 10667 /\ avg_thousandths 1 16 None = 62 /\ avg_thousandths 3 16 None = 188 /\
  dec 658 = [54; 53; 56].
Proof. vm_compute. repeat split; reflexivity. Qed.

(** ------------------------------------------------------------------------
    WIDENING 2: typehelper.ToSlice, the helper that turns any slice into a
    []interface{} (users size the elements one by one, or the boxed slice).
    Model: Model/TypeHelper.v (Kind test, make, index loop), generic in the
    element representation and in [box] = what [Index(i).Interface()] makes
    of an element.  Any length. *)

(** a slice gives one slot per element, in order, each holding the boxed element;
    anything else panics *)
Theorem C20_ToSlice : forall (A B : Type) (box : A -> B) (arg : targ A),
  ToSlice box arg = spec_ToSlice box arg.
Proof. exact ToSlice_spec. Qed.
Print Assumptions C20_ToSlice.

Theorem C20_ToSlice_nth : forall (A B : Type) (box : A -> B) s rst i x,
  ToSlice box (ArgSlice s) = Some rst -> nth_error s i = Some x ->
  length rst = length s /\ nth_error rst i = Some (Some (box x)).
Proof. exact ToSlice_length_nth. Qed.
Print Assumptions C20_ToSlice_nth.

(** size.Of of the result: slice header + per element an interface header and the element
    (an element that is an interface already is handed over as it is) *)
Theorem C20_ToSlice_size : forall l rst,
  Forall supported l ->
  ToSlice box_value (ArgSlice l) = Some rst ->
  sizeof (slots_value rst) = Some (spec_ToSlice_size l).
Proof. exact ToSlice_size. Qed.
Print Assumptions C20_ToSlice_size.

Theorem C20_ToSlice_size_plain : forall l,
  Forall (fun x => match x with VIface _ => False | _ => True end) l ->
  spec_ToSlice_size l = spec_size (VSlice (Some l)) + 16 * Z.of_nat (length l).
Proof. exact ToSlice_size_plain. Qed.
Print Assumptions C20_ToSlice_size_plain.

Example C20_ToSlice_nonvacuous :
  let l := [VString [97; 98]; VIface None; VIface (Some (VScalar KInt8)); VPtr (Some (VScalar KUint))] in
  ToSlice box_value (ArgSlice l) =
    Some [Some (VIface (Some (VString [97; 98]))); Some (VIface None); Some (VIface (Some (VScalar KInt8)));
          Some (VIface (Some (VPtr (Some (VScalar KUint)))))] /\
  spec_ToSlice_size l = 24 + (16 + 18) + 16 + 17 + (16 + 16) /\
  ToSlice box_value (targ_of (Some (VArray l))) = None /\
  ToSlice box_value (targ_of None) = None /\
  ToSlice box_value (targ_of (Some (VSlice None))) = Some [].
Proof. vm_compute. repeat split; reflexivity. Qed.

(** ------------------------------------------------------------------------
    WIDENING 3: values that SHARE pointers.  size.Of keeps no record of the
    pointers it has followed: it is a TREE sum over the unfolding of the value,
    and the same pointer reached twice is counted twice.  Model:
    Model/SizeGraph.v (values with references [GRef a] into a heap of cells;
    [gsizeof] = sizeof.go with [v.Elem()] of a reference reading the heap;
    fuel = nesting of calls).  Specification: Spec/SizeGraphSpec.v ([unfold]:
    every reference replaced by a pointer to a copy of the unfolded cell;
    [ordered]: cell a refers to cells below a only, i.e. the heap is acyclic).
    Any number of cells, references and nesting. *)

(** whatever the sharing: the result is the structural sum of the tree unfolding *)
Theorem C20_graph_tree_sum : forall h fuel v t,
  unfold h fuel v = Some t -> supported t -> gsizeof h fuel v = Some (spec_size t).
Proof. exact gsizeof_unfold. Qed.
Print Assumptions C20_graph_tree_sum.

(** the same pointer stored twice is counted twice: header and pointee, both times *)
Theorem C20_graph_shared_counted_twice : forall h fuel a cell t,
  nth_error h a = Some cell -> unfold h fuel cell = Some t -> supported t ->
  gsizeof h (S (S fuel)) (GStruct [GRef a; GRef a]) = Some (2 * (8 + spec_size t)).
Proof. exact shared_counted_twice. Qed.
Print Assumptions C20_graph_shared_counted_twice.

(** on an acyclic heap the recursion ends (within [enough_fuel] nested calls) with that sum *)
Theorem C20_graph_acyclic_terminates : forall h v,
  ordered h = true -> refs_below (length h) v = true ->
  exists t, unfold h (enough_fuel h v) v = Some t /\
            (supported t -> gsizeof h (enough_fuel h v) v = Some (spec_size t)).
Proof. exact gsizeof_ordered. Qed.
Print Assumptions C20_graph_acyclic_terminates.

(** an INTERIOR pointer — r := &ring{slots [n]E; cur *E} with r.cur = &r.slots[0], which has the
    address of r itself — is not a cycle: it costs its header and its pointee like any pointer
    (the value text repeats the part pointed to; harness/c20.go makes the real pointer interior) *)
Theorem C20_interior_pointer_counted : forall x l,
  supported x -> Forall supported l ->
  sizeof (VPtr (Some (VStruct [VArray (x :: l); VPtr (Some x)])))
  = Some ((8 + sizes (x :: l)) + (8 + spec_size x)).
Proof. exact interior_pointer_counted. Qed.
Print Assumptions C20_interior_pointer_counted.

(** outside the domain: on a cyclic value (a struct holding a pointer to itself) the recursion
    exhausts every fuel — the real code overflows its stack; C20 is about acyclic values *)
Theorem C20_graph_cycle_diverges : forall fuel, gsizeof [GStruct [GRef 0]] fuel (GRef 0) = None.
Proof. exact self_loop_diverges. Qed.
Print Assumptions C20_graph_cycle_diverges.

(** non-vacuity: a diamond (two struct cells sharing a string cell) reached twice = 4 copies of the string;
    a cell that points to itself is not ordered and exhausts any fuel *)
Example C20_graph_nonvacuous :
  let h := [GString [97; 98; 99]; GStruct [GRef 0; GScalar KInt8]; GStruct [GRef 0; GRef 1]] in
  let v := GSlice (Some [GRef 2; GRef 2]) in
  ordered h = true /\ refs_below (length h) v = true /\
  gsizeof h (enough_fuel h v) v = Some (24 + 2 * (8 + (8 + 19) + (8 + (8 + 19) + 1))) /\
  option_map spec_size (unfold h (enough_fuel h v) v) = Some 166 /\
  ordered [GStruct [GRef 0]] = false /\ gsizeof [GStruct [GRef 0]] 50 (GRef 0) = None.
Proof. vm_compute. repeat split; reflexivity. Qed.
