(** C07 — pbcmpl reports truncation, write failure and corrupt headers as errors, with
    the stated error and byte count, and never panics.

    Same model and specification as C06 (Model/Pbcmpl.v as repaired by /repo 815cf27,
    Spec/PbcmplSpec.v).  Readers are ANY finite list of chunks ([chunks_ok]: empty
    chunks = Reads returning (0, nil) allowed anywhere but at the very end) plus a terminal
    condition [t] (io.EOF or an injected read error, reported after the last chunk or
    together with it), so "a strict prefix of a frame, chunked anyhow, ending in
    io.EOF" and "a read error injected at offset k" are both instances.  Writers are
    scripts of responses (bytes accepted, fail?).  The body decoder [dec] is
    universally quantified and completely arbitrary here (no premise): none of these
    statements depends on what proto.Unmarshal does.  Unbounded in payload length and
    chunking; hypothesis "stream shorter than 2^63 bytes" = Go's int64 count.
    [fuel]: loop bound of the executable model, any value >= |stream| + number of chunks + 2. *)
From Coq Require Import ZArith List Bool.
From Low Require Import Lib.BitSeq Lib.Bytes Model.Pbcmpl Model.LegacyPbcmpl Spec.PbcmplSpec
  Proofs.PbcmplIO Proofs.PbcmplHeader Proofs.PbcmplProofs Proofs.PbcmplMarshal
  Proofs.PbcmplFrames Proofs.PbcmplStream Proofs.PbcmplHistory Proofs.PbcmplLegacy.
From Low Require Import Lib.Val Run.PbcmplOps Model.PbcmplEncErr Model.PbcmplWalk Spec.PbcmplWalkSpec Proofs.PbcmplWalk Run.PbcmplWalkOps Proofs.PbcmplOpsC07 Run.PbcmplSessionOps Proofs.PbcmplSessions.
Import ListNotations.
Open Scope Z_scope.

(** the exact behaviour: on ANY bytes, ANY chunking, ANY terminal condition the model's
    Unmarshal returns (never panics) exactly what the flat-stream specification says:
    count, version, error, message, and what is left in the reader *)
Theorem C07_unmarshal_exact : forall (Msg : Type) (dec : list Z -> option Msg) grow,
  (forall c, 0 < c -> c < grow c) ->
  forall cs t fuel,
  chunks_ok cs -> bytes_ok (concat cs) -> zlen (concat cs) < 2 ^ 63 ->
  (length cs + length (concat cs) + 2 <= fuel)%nat ->
  exists n ver err m cs',
    Unmarshal dec cread grow fuel (cs, t) = Some (n, ver, err, m, (cs', t))
    /\ chunks_ok cs'
    /\ spec_Unmarshal dec EEOF (concat cs) t = (n, ver, err, m, concat cs').
Proof. exact Unmarshal_spec. Qed.
Print Assumptions C07_unmarshal_exact.

(** every cut point k of every frame, every chunking of the prefix, every terminal
    condition: never a success, count = the k bytes that were available, nothing left *)
Theorem C07_cut : forall (Msg : Type) (enc : Msg -> list Z) (dec : list Z -> option Msg) grow,
  (forall c, 0 < c -> c < grow c) ->
  forall m ver k cs t fuel,
  zlen ver <= 16 -> no_trailing_nul ver = true ->
  bytes_ok ver -> bytes_ok (enc m) -> zlen (enc m) < 2 ^ 63 - 32 ->
  0 <= k < 32 + zlen (enc m) ->
  chunks_ok cs -> concat cs = firstn (Z.to_nat k) (frame ver (enc m)) ->
  (length cs + length (concat cs) + 2 <= fuel)%nat ->
  Unmarshal dec cread grow fuel (cs, t)
    = Some (k, (if k <? 32 then [] else ver),
            Some (if k <? 32 then end_err t k EEOF else end_err t (k - 32) EEOF), None, ([], t)).
Proof. exact Unmarshal_cut. Qed.
Print Assumptions C07_cut.

(** ... with a reader that ends in io.EOF: io.EOF exactly when nothing was available
    (k = 0) or the cut is exactly after the 32-byte header (k = 32), else
    io.ErrUnexpectedEOF.  (The property tolerates either error at k = 32; the code
    as it is reports io.EOF there.) *)
Theorem C07_cut_eof : forall (Msg : Type) (enc : Msg -> list Z) (dec : list Z -> option Msg) grow,
  (forall c, 0 < c -> c < grow c) ->
  forall m ver k cs t fuel,
  t_err t = EEOF ->
  zlen ver <= 16 -> no_trailing_nul ver = true ->
  bytes_ok ver -> bytes_ok (enc m) -> zlen (enc m) < 2 ^ 63 - 32 ->
  0 <= k < 32 + zlen (enc m) ->
  chunks_ok cs -> concat cs = firstn (Z.to_nat k) (frame ver (enc m)) ->
  (length cs + length (concat cs) + 2 <= fuel)%nat ->
  Unmarshal dec cread grow fuel (cs, t)
    = Some (k, (if k <? 32 then [] else ver),
            Some (if (k =? 0) || (k =? 32) then EEOF else EUnexpectedEOF), None, ([], t)).
Proof. exact Unmarshal_cut_eof. Qed.
Print Assumptions C07_cut_eof.

(** ... with a read error injected at offset k: that error, count k *)
Theorem C07_cut_readerr : forall (Msg : Type) (enc : Msg -> list Z) (dec : list Z -> option Msg) grow,
  (forall c, 0 < c -> c < grow c) ->
  forall m ver k cs t fuel,
  t_err t <> EEOF ->
  zlen ver <= 16 -> no_trailing_nul ver = true ->
  bytes_ok ver -> bytes_ok (enc m) -> zlen (enc m) < 2 ^ 63 - 32 ->
  0 <= k < 32 + zlen (enc m) ->
  chunks_ok cs -> concat cs = firstn (Z.to_nat k) (frame ver (enc m)) ->
  (length cs + length (concat cs) + 2 <= fuel)%nat ->
  Unmarshal dec cread grow fuel (cs, t)
    = Some (k, (if k <? 32 then [] else ver), Some (t_err t), None, ([], t)).
Proof. exact Unmarshal_cut_readerr. Qed.
Print Assumptions C07_cut_readerr.

(** a header whose recorded header size is not 32 (any uint64, any other bytes, any
    continuation): ErrInvalidHeaderSize after consuming exactly 32 bytes *)
Theorem C07_hsize : forall (Msg : Type) (dec : list Z -> option Msg) grow,
  (forall c, 0 < c -> c < grow c) ->
  forall cs t fuel,
  chunks_ok cs -> bytes_ok (concat cs) -> zlen (concat cs) < 2 ^ 63 ->
  32 <= zlen (concat cs) -> le_val (firstn 8 (skipn 16 (concat cs))) <> 32 ->
  (length cs + length (concat cs) + 2 <= fuel)%nat ->
  exists cs',
    Unmarshal dec cread grow fuel (cs, t)
      = Some (32, strip_nul (firstn 16 (concat cs)), Some EInvalidHeaderSize, None, (cs', t))
    /\ concat cs' = skipn 32 (concat cs).
Proof. exact Unmarshal_hsize. Qed.
Print Assumptions C07_hsize.

(** a body size field >= 2^63 (negative as int64): ErrInvalidBodySize after exactly 32
    bytes — the behaviour introduced by the repair *)
Theorem C07_bsize : forall (Msg : Type) (dec : list Z -> option Msg) grow,
  (forall c, 0 < c -> c < grow c) ->
  forall cs t fuel,
  chunks_ok cs -> bytes_ok (concat cs) -> zlen (concat cs) < 2 ^ 63 ->
  32 <= zlen (concat cs) -> le_val (firstn 8 (skipn 16 (concat cs))) = 32 ->
  2 ^ 63 <= le_val (firstn 8 (skipn 24 (concat cs))) ->
  (length cs + length (concat cs) + 2 <= fuel)%nat ->
  exists cs',
    Unmarshal dec cread grow fuel (cs, t)
      = Some (32, strip_nul (firstn 16 (concat cs)), Some EInvalidBodySize, None, (cs', t))
    /\ concat cs' = skipn 32 (concat cs).
Proof. exact Unmarshal_bsize. Qed.
Print Assumptions C07_bsize.

(** totality: for arbitrary input bytes, any chunking, a read error injected at any
    offset (= the stream cut there with an error terminal), Unmarshal returns normally
    (the model's [None] = panic never occurs), the count never exceeds what was
    available, there is no message without success, and success means that the stream
    starts with a complete well-formed frame: 32 header bytes with header size 32 and
    body size |body|, then [body], which the decoder accepts, then what is left *)
Theorem C07_total : forall (Msg : Type) (dec : list Z -> option Msg) grow,
  (forall c, 0 < c -> c < grow c) ->
  forall cs t fuel,
  chunks_ok cs -> bytes_ok (concat cs) -> zlen (concat cs) < 2 ^ 63 ->
  (length cs + length (concat cs) + 2 <= fuel)%nat ->
  exists n ver err m cs',
    Unmarshal dec cread grow fuel (cs, t) = Some (n, ver, err, m, (cs', t))
    /\ 0 <= n <= zlen (concat cs)
    /\ (err = None ->
        exists body msg, m = Some msg /\ dec body = Some msg /\ n = 32 + zlen body
          /\ starts_with_frame (concat cs) ver body (concat cs'))
    /\ (err <> None -> m = None).
Proof. exact Unmarshal_total. Qed.
Print Assumptions C07_total.

(** ReadHeader is total as well, and exact: on any bytes, any chunking, any terminal
    condition it returns what the specification says (count = min(32, available), the
    error of a short read, or the three header fields) *)
Theorem C07_readheader_total : forall cs t fuel,
  chunks_ok cs -> bytes_ok (concat cs) -> zlen (concat cs) < 2 ^ 63 -> (length cs + 2 <= fuel)%nat ->
  exists n ho err cs',
    ReadHeader cread fuel (cs, t) = Some (n, ho, err, (cs', t))
    /\ rh_view (n, ho, err, (cs', t)) = spec_ReadHeader (concat cs) t
    /\ concat cs' = skipn 32 (concat cs)
    /\ chunks_ok cs'.
Proof. exact ReadHeader_spec. Qed.
Print Assumptions C07_readheader_total.

(** Marshal against ANY well-behaved writer script = the specification: count,
    error, bytes that reached the writer (panic exactly for a version > 16 bytes) *)
Theorem C07_marshal_exact : forall (Msg : Type) (enc : Msg -> list Z) (m : Msg) ver script,
  zlen (enc m) < 2 ^ 63 - 32 ->
  script_ok script [32; zlen (enc m)] = true ->
  match spec_Marshal (enc m) ver script with
  | None => Marshal enc swrite (script, []) m ver = None
  | Some (n, err, out, sz, hsz) =>
      exists script', Marshal enc swrite (script, []) m ver = Some (n, err, (script', out))
  end.
Proof. exact Marshal_spec. Qed.
Print Assumptions C07_marshal_exact.

(** a writer that fails after accepting k bytes in all (on the header write, on the body
    write, with or without a partial write): Marshal returns that writer's error and
    the count k, and exactly the first k bytes of the frame were emitted *)
Theorem C07_writer : forall (Msg : Type) (enc : Msg -> list Z) (m : Msg) ver script k,
  zlen (ver_of ver) <= 16 -> zlen (enc m) < 2 ^ 63 - 32 ->
  script_ok script [32; zlen (enc m)] = true ->
  script_outcome script [32; zlen (enc m)] = (k, true) ->
  exists script',
    Marshal enc swrite (script, []) m ver
      = Some (k, Some EInjected, (script', firstn (Z.to_nat k) (frame (ver_of ver) (enc m))))
    /\ 0 <= k <= zlen (frame (ver_of ver) (enc m)).
Proof. exact Marshal_writer_fails. Qed.
Print Assumptions C07_writer.

(** ... and every failure point 0 <= k <= |frame| is covered by such a writer *)
Theorem C07_writer_every_point : forall (Msg : Type) (enc : Msg -> list Z) (m : Msg) ver k,
  zlen (ver_of ver) <= 16 -> zlen (enc m) < 2 ^ 63 - 32 ->
  0 <= k <= 32 + zlen (enc m) ->
  exists script',
    Marshal enc swrite (fail_script k, []) m ver
      = Some (k, Some EInjected, (script', firstn (Z.to_nat k) (frame (ver_of ver) (enc m)))).
Proof. exact Marshal_fails_at. Qed.
Print Assumptions C07_writer_every_point.

(** widening — whole histories on ARBITRARY bytes: calling Unmarshal again and again on
    one reader until the first error (the way a read-until-EOF loop uses the package)
    yields exactly the steps of the flat-stream specification and leaves exactly the
    bytes it says — for every chunking, every terminal condition, each of the three
    decoders of the harness (raw, BytesValue, picky raw), with NO premise on the bytes *)
Theorem C07_stream_exact : forall kind cs t,
  chunks_ok cs -> bytes_ok (concat cs) -> zlen (concat cs) < 2 ^ 63 ->
  exists steps cs',
    c_Stream kind (cs, t) = Some (steps, (cs', t))
    /\ chunks_ok cs'
    /\ spec_Stream (k_dec kind) EEOF payload_opt (concat cs) t = (steps, concat cs').
Proof. exact c_Stream_spec. Qed.
Print Assumptions C07_stream_exact.

(** the protocol's compact description of a chunking is a chunking into non-empty chunks *)
Theorem C07_chunks_of : forall pat s,
  all_pos pat = true -> concat (chunks_of pat s) = s /\ chunks_ok (chunks_of pat s).
Proof. exact chunks_of_ok. Qed.
Print Assumptions C07_chunks_of.

(** ... hence, for the three protocol operations of C07 exactly as Run/C07.v runs them:
    on every in-domain argument the value computed from the model IS the value
    computed from the specification (the verdict MODELBUG is impossible, and OK
    means the implementation returned the specification's value) *)
Theorem C07_op_stream : forall kind s pat t,
  bytes_ok s -> all_pos pat = true -> zlen s < 2 ^ 63 ->
  v_stream_model kind (chunks_of pat s, t) = v_stream_spec kind EEOF s t.
Proof. exact v_stream_model_spec. Qed.
Print Assumptions C07_op_stream.

Theorem C07_op_chunks : forall kind cs t,
  chunks_ok cs -> bytes_ok (concat cs) -> zlen (concat cs) < 2 ^ 63 ->
  v_stream_model kind (cs, t) = v_stream_spec kind EEOF (concat cs) t.
Proof. exact v_stream_model_chunks. Qed.
Print Assumptions C07_op_chunks.

(** non-vacuity of "empty chunks": a reader that returns (0, nil) before the first byte,
    twice at the header/body boundary and once inside the body; the frame comes back, and
    the same reader cut one byte short reports io.ErrUnexpectedEOF with n = 34 *)
Example C07_empty_chunks_nonvacuous :
  let eof := {| t_err := EEOF; t_with_last := true |} in
  let h := frame_header [49; 46; 48] 3 in
  chunks_ok [[]; h; []; []; [7]; []; [8; 9]]
  /\ c_Unmarshal 0 ([[]; h; []; []; [7]; []; [8; 9]], eof)
       = Some (35, [49; 46; 48], None, Some [7; 8; 9], ([], eof))
  /\ c_Unmarshal 0 ([[]; h; []; []; [7]; []; [8]], eof)
       = Some (34, [49; 46; 48], Some EUnexpectedEOF, None, ([], eof))
  /\ c_Stream 0 ([[]; h; []; []; [7]; []; [8; 9]], eof)
       = Some ([(35, [49; 46; 48], None, [7; 8; 9], 35); (0, [], Some EEOF, [], 35)], ([], eof)).
Proof. vm_compute. repeat split; try reflexivity. discriminate. Qed.

Theorem C07_op_readheader : forall s pat t,
  bytes_ok s -> all_pos pat = true -> zlen s < 2 ^ 63 ->
  v_readheader_model (chunks_of pat s, t) = v_readheader (spec_ReadHeader s t).
Proof. exact v_readheader_model_spec. Qed.
Print Assumptions C07_op_readheader.

Theorem C07_op_marshal : forall kind script m,
  zlen (k_enc kind (snd m)) < 2 ^ 63 - 32 ->
  script_ok script [32; zlen (k_enc kind (snd m))] = true ->
  v_marshal_model kind script m = v_marshal_spec kind script m.
Proof. exact v_marshal_model_spec. Qed.
Print Assumptions C07_op_marshal.

(** widening — ReadHeader combined with io.ReadFull by a user program (Model/PbcmplWalk.v)
    on ARBITRARY bytes, any chunking, any terminal condition: it returns (never
    panics) exactly the steps of the flat specification — short header, refusal of a
    header size <> 32 / a negative or > 64 KiB body size, truncated body with the
    error io.ReadFull owes (io.EOF when no body byte was there, io.ErrUnexpectedEOF,
    or the injected error), complete body — and leaves exactly the bytes it says *)
Theorem C07_walk_exact : forall cs t,
  chunks_ok cs -> bytes_ok (concat cs) -> zlen (concat cs) < 2 ^ 63 ->
  exists steps cs',
    c_Walk (cs, t) = Some (steps, (cs', t))
    /\ chunks_ok cs'
    /\ spec_Walk (concat cs) t = (steps, concat cs').
Proof. exact c_Walk_spec. Qed.
Print Assumptions C07_walk_exact.

Theorem C07_op_walk : forall s pat t,
  bytes_ok s -> all_pos pat = true -> zlen s < 2 ^ 63 ->
  v_walk_model (chunks_of pat s, t) = v_walk_spec s t.
Proof. exact v_walk_model_spec. Qed.
Print Assumptions C07_op_walk.

Example C07_walk_nonvacuous :
  let eof := {| t_err := EEOF; t_with_last := false |} in
  let inj := {| t_err := EInjected; t_with_last := true |} in
  let fr := frame [49; 46; 50; 46; 51] [7; 8; 9] in
  c_Walk (chunks_of [5] (fr ++ firstn 34 fr), inj)
    = Some ([(32, None, [49; 46; 50; 46; 51], 32, 3, [7; 8; 9], false);
             (32, Some EInjected, [49; 46; 50; 46; 51], 32, 3, [7; 8], false)], ([], inj))
  /\ c_Walk (chunks_of [5] (firstn 32 fr), eof)
    = Some ([(32, Some EEOF, [49; 46; 50; 46; 51], 32, 3, [], false)], ([], eof))
  /\ c_Walk (chunks_of [] (pad16 [97] ++ le64 32 ++ le64 (2 ^ 63) ++ [9; 9]), eof)
    = Some ([(32, None, [97], 32, - 2 ^ 63, [], true)], ([[9; 9]], eof))
  /\ spec_Walk (fr ++ firstn 34 fr) inj
    = ([(32, None, [49; 46; 50; 46; 51], 32, 3, [7; 8; 9], false);
        (32, Some EInjected, [49; 46; 50; 46; 51], 32, 3, [7; 8], false)], []).
Proof. vm_compute. repeat split; reflexivity. Qed.

(** widening — the error return of Marshal when proto.Marshal(msg) itself fails
    (Model/PbcmplEncErr.v): count 0, that error, the writer untouched, for every writer
    and every version (no panic even for a version longer than 16 bytes) *)
Theorem C07_marshal_encode_error : forall (Msg W : Type) (enc : Msg -> option (list Z))
    (write : W -> list Z -> Z * option perr * W) (w : W) (m : Msg) ver,
  enc m = None -> Marshal_opt enc write w m ver = Some (0, encode_errclass, w).
Proof. exact @Marshal_encode_error. Qed.
Print Assumptions C07_marshal_encode_error.

(** pbcmpl.Unmarshal/bufio: through a *bufio.Reader (transparent for the bytes, terminal
    error delivered alone) the calls report what the specification says *)
Theorem C07_op_bufio : forall kind s pat t,
  bytes_ok s -> all_pos pat = true -> zlen s < 2 ^ 63 ->
  v_bufstream_model kind (chunks_of pat s, t) = v_bufstream_spec kind EEOF s t.
Proof. exact v_bufstream_model_spec. Qed.
Print Assumptions C07_op_bufio.

(** histories (pbcmpl.Marshal/session): every Marshal call of a session reports what the
    specification says, whatever was marshalled before it (the model carries no state) *)
Theorem C07_op_marshal_session : forall kind (cs : list ((option (list Z) * list Z) * list (Z * bool))),
  Forall (fun c => zlen (k_enc kind (snd (fst c))) < 2 ^ 63 - 32
                   /\ script_ok (snd c) [32; zlen (k_enc kind (snd (fst c)))] = true) cs ->
  map (fun c => v_marshal_model kind (snd c) (fst c)) cs
    = map (fun c => v_marshal_spec kind (snd c) (fst c)) cs.
Proof. exact marshal_session_spec. Qed.
Print Assumptions C07_op_marshal_session.

(** the defect repaired by /repo commit 815cf27: against the pre-fix Unmarshal
    (Model/LegacyPbcmpl.v: make([]byte, int64(BodySize)) then io.ReadFull) the "never
    panics" part of C07_total is false — a 32-byte header with body size 2^63 panics;
    the repaired code returns ErrInvalidBodySize with n = 32 on the same input *)
Theorem C07_total_refuted :
  exists cs t,
    chunks_ok cs /\ bytes_ok (concat cs) /\
    legacy_c_Unmarshal 0 (cs, t) = None /\
    c_Unmarshal 0 (cs, t) = Some (32, default_ver, Some EInvalidBodySize, None, ([], t)).
Proof. exact legacy_total_refuted. Qed.
Print Assumptions C07_total_refuted.

(** non-vacuity.  A 37-byte frame (version "1.2.3", BytesValue body of 3 bytes) cut at
    k = 0, 1, 31, 32, 33, 36 and read 5 bytes at a time to io.EOF; the same cut at 34
    ending in an injected read error; a header with header size 33; a body size of
    2^64-1; garbage; a writer failing after 10 bytes (partial header write) and one
    failing after 35 bytes (partial body write). *)
Example C07_nonvacuous :
  let fr := frame [49; 46; 50; 46; 51] (k_enc 1 [1; 2; 3]) in
  let eof := {| t_err := EEOF; t_with_last := false |} in
  let inj := {| t_err := EInjected; t_with_last := true |} in
  let cut k t := c_Unmarshal 1 (chunks_of [5] (firstn k fr), t) in
  let res k e t := Some (Z.of_nat k, (if Nat.ltb k 32 then [] else [49; 46; 50; 46; 51]), Some e, None, ([], t)) in
  zlen fr = 37
  /\ cut 0%nat eof = res 0%nat EEOF eof
  /\ cut 1%nat eof = res 1%nat EUnexpectedEOF eof
  /\ cut 31%nat eof = res 31%nat EUnexpectedEOF eof
  /\ cut 32%nat eof = res 32%nat EEOF eof
  /\ cut 33%nat eof = res 33%nat EUnexpectedEOF eof
  /\ cut 36%nat eof = res 36%nat EUnexpectedEOF eof
  /\ cut 34%nat inj = res 34%nat EInjected inj
  /\ c_Unmarshal 0 (chunks_of [3] (frame_header [97] 0 ++ [9]), eof) <> None
  /\ c_Unmarshal 0 (chunks_of [3] (pad16 [97] ++ le64 33 ++ le64 0 ++ [9; 9]), eof)
       = Some (32, [97], Some EInvalidHeaderSize, None, ([[9]; [9]], eof))
  /\ c_Unmarshal 0 (chunks_of [] (pad16 [97] ++ le64 32 ++ le64 (2 ^ 64 - 1) ++ [9; 9]), eof)
       = Some (32, [97], Some EInvalidBodySize, None, ([[9; 9]], eof))
  /\ c_Unmarshal 2 (chunks_of [7] (frame [] [238; 1]), eof)
       = Some (34, [], Some EDecode, None, ([], eof))
  /\ s_Marshal 1 (fail_script 10) [1; 2; 3] (Some [49; 46; 50; 46; 51])
       = Some (10, Some EInjected, ([], firstn 10 fr))
  /\ s_Marshal 1 (fail_script 35) [1; 2; 3] (Some [49; 46; 50; 46; 51])
       = Some (35, Some EInjected, ([], firstn 35 fr))
  /\ s_Marshal 0 [] [] (Some (repeat 65 17)) = None.
Proof. vm_compute. repeat split; try reflexivity; discriminate. Qed.
