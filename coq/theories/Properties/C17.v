(** C17 — ShardByPrefix: bounded contiguous shards, exact LCP lengths, strictly
    ascending prefixes.  Only the property theorems (each closed by [exact]),
    their axiom audit and non-vacuity examples. *)
From Coq Require Import ZArith List Bool Lia.
From Low Require Import Lib.Bits Lib.BitSeq Lib.Lex Lib.Bytes Model.Sigbits Spec.SigbitsSpec Spec.ShardRouteSpec
  Spec.ShardSplitSpec Spec.ShardTotalSpec
  Proofs.SigbitsShardChecker Proofs.SigbitsLcpAll Proofs.SigbitsShard Proofs.SigbitsShardRoute
  Proofs.SigbitsShardDomain Model.Sharding32 Proofs.Sharding32Proofs Proofs.SigbitsShardTotal
  Run.C17 Proofs.C17RunProofs.
Import ListNotations.
Open Scope Z_scope.

(** The extracted boolean checker that judges the implementation's output accepts exactly
    the outputs described by the proposition [shard_spec] (the property's own words: boundaries
    0 = B[0] < ... < B[k] = len(keys), shard sizes <= maxSize, L[j] = length of the longest
    common prefix of shard j, shard prefixes strictly ascending) -- for every input, no
    domain restriction. *)
Theorem C17_checker_sound : forall keys maxSize L B,
  shard_ok keys maxSize L B = true -> shard_spec keys maxSize L B.
Proof. exact shard_ok_sound. Qed.
Print Assumptions C17_checker_sound.

Theorem C17_checker_complete : forall keys maxSize L B,
  shard_spec keys maxSize L B -> shard_ok keys maxSize L B = true.
Proof. exact shard_ok_complete. Qed.
Print Assumptions C17_checker_complete.

(** non-vacuity of the checker theorems: an accepted and a rejected sharding of the same keys
    (the rejected one claims a prefix length that is common but not the longest) *)
Example C17_checker_nonvacuous :
  shard_ok [[97]; [97; 98]; [97; 98; 99]; [98]] 2 [1; 3; 1] [0; 2; 3; 4] = true /\
  shard_spec [[97]; [97; 98]; [97; 98; 99]; [98]] 2 [1; 3; 1] [0; 2; 3; 4] /\
  shard_ok [[97]; [97; 98]; [97; 98; 99]; [98]] 2 [1; 2; 1] [0; 2; 3; 4] = false /\
  ~ shard_spec [[97]; [97; 98]; [97; 98; 99]; [98]] 2 [1; 2; 1] [0; 2; 3; 4].
Proof.
  split; [reflexivity|]. split; [apply shard_ok_sound; reflexivity|]. split; [reflexivity|].
  intros H. apply shard_ok_complete in H. discriminate H.
Qed.

(** The specification value [lcp_all ks] really is the longest common prefix of the keys [ks]
    (so "L[j] = zlen (lcp_all shard)" says what the property says): it is a prefix of every key,
    and every common prefix of all the keys is a prefix of it.  [is_prefix p x := firstn (length p) x = p]. *)
Theorem C17_spec_lcp_common : forall ks k, In k ks -> is_prefix (lcp_all ks) k.
Proof. exact lcp_all_common. Qed.
Print Assumptions C17_spec_lcp_common.

Theorem C17_spec_lcp_longest : forall ks p, ks <> [] -> (forall k, In k ks -> is_prefix p k) ->
  is_prefix p (lcp_all ks) /\ (length p <= length (lcp_all ks))%nat.
Proof. exact lcp_all_longest. Qed.
Print Assumptions C17_spec_lcp_longest.

(** The property.  For every non-empty, strictly ascending list of byte strings and every
    maxSize >= 1 -- any number of keys, any key lengths, any byte values -- the model of
    ShardByPrefix (recursive dfs with the mutable endsAt list, on fuel len(keys)+1) does not
    panic, does not run out of fuel, and returns (L, B) with
      len(B) = len(L)+1, B[0] = 0, B[k] = len(keys),
      B[j] < B[j+1] and B[j+1]-B[j] <= maxSize,
      L[j] = length of the longest common prefix of keys[B[j]:B[j+1]] (own length for one key),
      keys[B[j]][:L[j]] < keys[B[j+1]][:L[j+1]] in Go's string order.
    ([keys_ok]: the list elements are bytes, 0 <= b < 256 -- what a Go string is.
    Lengths and indices are unbounded [Z] in the model; Go's int32 agrees while
    8*len(key) < 2^31 and len(keys) < 2^31.) *)
Theorem C17_ShardByPrefix : forall keys maxSize,
  keys <> [] -> keys_ok keys -> strict_asc keys -> 1 <= maxSize ->
  exists L B, ShardByPrefix keys maxSize = Some (L, B) /\ shard_spec keys maxSize L B.
Proof. exact ShardByPrefix_correct. Qed.
Print Assumptions C17_ShardByPrefix.

(** the same in the form the correspondence run uses: the extracted checker accepts the
    model's output (so on the property's domain a SPECFAIL can only come from the implementation) *)
Theorem C17_ShardByPrefix_accepted : forall keys maxSize,
  keys <> [] -> keys_ok keys -> strict_asc keys -> 1 <= maxSize ->
  exists L B, ShardByPrefix keys maxSize = Some (L, B) /\ shard_ok keys maxSize L B = true.
Proof. exact ShardByPrefix_shard_ok. Qed.
Print Assumptions C17_ShardByPrefix_accepted.

(** "strictly ascending, hence pairwise distinct": any two shards of an accepted sharding have
    different prefixes, the earlier one the smaller *)
Theorem C17_prefixes_distinct : forall keys maxSize L B, shard_spec keys maxSize L B ->
  forall i j, (i < j < length L)%nat ->
  bytes_cmp (shard_prefix keys L B i) (shard_prefix keys L B j) = Lt /\
  shard_prefix keys L B i <> shard_prefix keys L B j.
Proof. exact shard_spec_prefixes_distinct. Qed.
Print Assumptions C17_prefixes_distinct.

(** non-vacuity: keys with NUL and >= 0x80 bytes, a key ("a") equal to the common prefix of its
    successors, a nine-byte shared prefix, maxSize = 2 (forces a split, a restart of the split
    list and recursion into a single-key range) *)
Example C17_nonvacuous :
  let keys := [[0]; [97]; [97; 0]; [97; 98; 99; 100; 101; 102; 103; 104; 105; 1];
               [97; 98; 99; 100; 101; 102; 103; 104; 105; 128]; [255]] in
  keys <> [] /\ keys_ok keys /\ strict_asc keys /\ 1 <= 2 /\
  ShardByPrefix keys 2 = Some ([1; 1; 2; 9; 1], [0; 1; 2; 3; 5; 6]) /\
  shard_spec keys 2 [1; 1; 2; 9; 1] [0; 1; 2; 3; 5; 6].
Proof.
  cbv zeta. split; [discriminate|]. split.
  { repeat constructor; unfold byte_ok; cbv; intuition congruence. }
  split.
  { intros p Hp. cbn in Hp. repeat (destruct Hp as [<-|Hp]; [reflexivity|]). contradiction. }
  split; [cbv; congruence|]. split; [vm_compute; reflexivity|].
  apply shard_ok_sound. vm_compute. reflexivity.
Qed.

(** Widening (beyond the stated property): the prefixes returned by ShardByPrefix are a routing
    table for the keys.  Key i is at or above (Go string order) the prefix of shard j exactly when
    i >= B[j]; hence an upper-bound search for keys[i] over the sorted prefixes finds the shard
    that holds keys[i].  This does NOT follow from [shard_spec] alone (shards {a,abc},{abd,abe}
    with prefixes "a","ab" satisfy [shard_spec] for maxSize 2, yet "abc" > "ab"); it is a property
    of the recursive split. *)
Theorem C17_route : forall keys maxSize,
  keys <> [] -> keys_ok keys -> strict_asc keys -> 1 <= maxSize ->
  exists L B, ShardByPrefix keys maxSize = Some (L, B) /\ shard_spec keys maxSize L B /\ route_spec keys L B.
Proof. exact ShardByPrefix_route. Qed.
Print Assumptions C17_route.

(** non-vacuity of the routing theorem, and the counterexample of the comment above: an accepted
    sharding that is not a routing table (so [route_spec] is not implied by [shard_spec]) *)
Example C17_route_nonvacuous :
  let keys := [[97]; [97; 98; 99]; [97; 98; 100]; [97; 98; 101]] in
  ShardByPrefix keys 2 = Some ([1; 3; 3; 3], [0; 1; 2; 3; 4]) /\
  map (route (shard_prefixes keys [1; 3; 3; 3] [0; 1; 2; 3; 4])) keys = [0; 1; 2; 3] /\
  route_okb 4 [0; 1; 2; 3; 4] [0; 1; 2; 3] = true /\
  shard_ok keys 2 [1; 2] [0; 2; 4] = true /\
  ~ route_spec keys [1; 2] [0; 2; 4].
Proof.
  cbv zeta. repeat (split; [vm_compute; reflexivity|]).
  intros H. specialize (H 1%nat 1%nat ltac:(cbn; auto with arith) ltac:(cbn; auto with arith)).
  destruct H as [H _]. assert (X : (2 <= 1)%Z) by (apply H; vm_compute; discriminate).
  apply X. reflexivity.
Qed.

(** with such a sharding (both conclusions of [C17_route]) the lookup "last prefix that is not
    above the key" sends every key to the shard [r] that holds it, [B[r] <= i < B[r+1]] -- the
    judgement the op [sigbits.ShardByPrefix/route] makes on the implementation's output always
    accepts the model's *)
Theorem C17_route_lookup : forall keys maxSize L B,
  shard_spec keys maxSize L B -> route_spec keys L B ->
  route_okb (zlen keys) B (map (route (shard_prefixes keys L B)) keys) = true.
Proof. exact route_lookup. Qed.
Print Assumptions C17_route_lookup.

(** Widening: the edges of the domain.  When all keys fit into one shard the result is that one
    shard (no order hypothesis needed); for maxSize = 1 the relation [shard_spec] is a function --
    every key is its own shard with the whole key as prefix -- so there the checker accepts exactly
    one output. *)
Theorem C17_one_shard : forall keys maxSize,
  keys <> [] -> keys_ok keys -> zlen keys <= maxSize ->
  ShardByPrefix keys maxSize = Some ([zlen (lcp_all keys)], [0; zlen keys]).
Proof. exact ShardByPrefix_one_shard. Qed.
Print Assumptions C17_one_shard.

Theorem C17_maxSize_1 : forall keys L B, shard_spec keys 1 L B ->
  B = map Z.of_nat (seq 0 (S (length keys))) /\ L = map zlen keys.
Proof. exact shard_spec_maxSize_1. Qed.
Print Assumptions C17_maxSize_1.

(** Outside the domain (model facts, not judged on the implementation): an empty key list panics
    in FirstDiffBits ([make([]int32, -1)]); with maxSize <= 0 the recursion never ends -- [dfs]
    returns [None] for EVERY amount of fuel, on every range (in Go: `fatal error: stack overflow`,
    which no [recover] can catch; confirmed on the real code with ShardByPrefix({"a","b"}, 0)). *)
Theorem C17_empty_panics : forall maxSize, ShardByPrefix [] maxSize = None.
Proof. exact ShardByPrefix_empty. Qed.
Print Assumptions C17_empty_panics.

Theorem C17_nonpositive_maxSize_diverges : forall keys fd maxSize, maxSize <= 0 ->
  forall fuel s e st, s < e -> dfs keys fd maxSize fuel s e st = None.
Proof. exact dfs_nonpositive_maxSize. Qed.
Print Assumptions C17_nonpositive_maxSize_diverges.

Example C17_edges_nonvacuous :
  ShardByPrefix [[97; 98]; [97; 98; 99]; [97; 100]] 3 = Some ([1], [0; 3]) /\
  zlen (lcp_all [[97; 98]; [97; 98; 99]; [97; 100]]) = 1 /\
  ShardByPrefix [[97; 98]; [97; 98; 99]; [97; 100]] 1 = Some ([2; 3; 2], [0; 1; 2; 3]) /\
  shard_spec [[97; 98]; [97; 98; 99]; [97; 100]] 1 [2; 3; 2] [0; 1; 2; 3] /\
  ShardByPrefix [[97]; [98]] 0 = None /\
  dfs [[97]; [98]] [0] 0 1000 0 2 ([], [0]) = None.
Proof.
  repeat (split; [vm_compute; reflexivity|]). split; [apply shard_ok_sound; vm_compute; reflexivity|].
  split; vm_compute; reflexivity.
Qed.

(** Widening: Go's int32 arithmetic made explicit (Model/Sharding32.v: [int32(len(..))], [e-s],
    [e-1], [i+1] wrap).  When the number of keys and every key length fit into int32 the
    int32-explicit model is the unbounded one -- over any FirstDiffBits implementation [FDB] that
    agrees with the modelled one on the keys (so C16's int32-explicit FirstDiffBits can be plugged
    in) -- hence the property holds of it, with the size hypotheses now explicit premises. *)
Theorem C17_int32_model_agrees : forall FDB keys maxSize,
  FDB keys = FirstDiffBits keys ->
  zlen keys <= max32 -> Forall (fun k => zlen k <= max32) keys ->
  ShardByPrefix32_with FDB keys maxSize = ShardByPrefix keys maxSize.
Proof. exact ShardByPrefix32_eq. Qed.
Print Assumptions C17_int32_model_agrees.

Theorem C17_ShardByPrefix_int32 : forall keys maxSize,
  keys <> [] -> keys_ok keys -> strict_asc keys -> 1 <= maxSize ->
  zlen keys <= max32 -> Forall (fun k => zlen k <= max32) keys ->
  exists L B, ShardByPrefix32_with FirstDiffBits keys maxSize = Some (L, B) /\
              shard_spec keys maxSize L B /\ route_spec keys L B.
Proof. exact ShardByPrefix32_correct. Qed.
Print Assumptions C17_ShardByPrefix_int32.

(** non-vacuity: the same output on an in-range input; and the wraps are really modelled -- for an
    (impossible) range end beyond int32 the loop bound [e-1] wraps to 0 and the int32 loop is empty *)
Example C17_int32_nonvacuous :
  ShardByPrefix32_with FirstDiffBits [[97]; [97; 98; 99]; [97; 98; 100]; [97; 98; 101]] 2
    = Some ([1; 3; 3; 3], [0; 1; 2; 3; 4]) /\
  idx_range32 0 4294967297 = [] /\ idx_range32 0 4 = idx_range 0 4 /\ idx_range 0 4 = [0; 1; 2].
Proof. repeat split; vm_compute; reflexivity. Qed.

(** Widening: the relation made a function.  On the property's domain ShardByPrefix returns
    exactly what the naive recursive description [spec_ShardByPrefix] (Spec/ShardSplitSpec.v) says:
    a key list larger than maxSize is cut into the maximal runs of keys that agree on the byte right
    after the list's longest common prefix (a key ending there is a run of its own), and every run
    is treated the same way; L is [zlen (lcp_all shard)], B the running key count.  The naive split
    loses no key (its nesting-depth fuel [len(keys)+1] suffices).  With the theorems above, the
    naive split therefore satisfies [shard_spec] and [route_spec]. *)
Theorem C17_exact : forall keys maxSize,
  keys <> [] -> keys_ok keys -> strict_asc keys -> 1 <= maxSize ->
  ShardByPrefix keys maxSize = Some (spec_ShardByPrefix keys maxSize) /\
  concat (split_spec (S (length keys)) maxSize keys) = keys.
Proof. exact ShardByPrefix_exact. Qed.
Print Assumptions C17_exact.

Example C17_exact_nonvacuous :
  let keys := [[0]; [97]; [97; 0]; [97; 98; 99; 100; 101; 102; 103; 104; 105; 1];
               [97; 98; 99; 100; 101; 102; 103; 104; 105; 128]; [255]] in
  runs 0 keys = [[[0]]; [[97]; [97; 0]; [97; 98; 99; 100; 101; 102; 103; 104; 105; 1];
                          [97; 98; 99; 100; 101; 102; 103; 104; 105; 128]]; [[255]]] /\
  split_spec 7 2 keys = [[[0]]; [[97]]; [[97; 0]];
                         [[97; 98; 99; 100; 101; 102; 103; 104; 105; 1];
                          [97; 98; 99; 100; 101; 102; 103; 104; 105; 128]]; [[255]]] /\
  spec_ShardByPrefix keys 2 = ([1; 1; 2; 9; 1], [0; 1; 2; 3; 5; 6]).
Proof. cbv zeta. repeat split; vm_compute; reflexivity. Qed.

(** Widening: totality, without any order hypothesis (model fact; the correspondence run stays on
    the property's domain).  For EVERY non-empty list of byte strings -- unsorted, repeated keys --
    and maxSize >= 1, ShardByPrefix neither panics nor recurses forever and returns contiguous
    shards of at most maxSize keys with their exact common-prefix lengths ([shard_spec] without
    its last clause).  Only the order of the prefixes needs strictly ascending keys: with a
    repeated key and maxSize = 1 two shards get the same prefix. *)
Theorem C17_total_any_order : forall keys maxSize,
  keys <> [] -> keys_ok keys -> 1 <= maxSize ->
  exists L B, ShardByPrefix keys maxSize = Some (L, B) /\ shard_spec_unordered keys maxSize L B.
Proof. exact ShardByPrefix_total. Qed.
Print Assumptions C17_total_any_order.

Example C17_total_nonvacuous :
  ShardByPrefix [[98]; [97]; [97]; [97; 99]] 2 = Some ([1; 1; 1; 2], [0; 1; 2; 3; 4]) /\
  shard_ok [[98]; [97]; [97]; [97; 99]] 2 [1; 1; 1; 2] [0; 1; 2; 3; 4] = false /\
  ~ strict_asc [[98]; [97]; [97]; [97; 99]].
Proof.
  split; [vm_compute; reflexivity|]. split; [vm_compute; reflexivity|].
  intros H. specialize (H ([98], [97]) (or_introl eq_refl)). discriminate H.
Qed.

(** What the correspondence run evaluates as "the model's output": for key sets with a key longer
    than 9000 bytes [Run.C17.c17_run] evaluates [spec_ShardByPrefix] (the faithful model is
    quadratic in the length of a shared prefix); by [C17_exact] that is the model's output on the
    whole domain of the ops. *)
Theorem C17_run_is_model : forall keys maxSize, Run.C17.c17_dom keys maxSize = true ->
  Run.C17.c17_run keys maxSize = ShardByPrefix keys maxSize.
Proof. exact c17_run_is_model. Qed.
Print Assumptions C17_run_is_model.
