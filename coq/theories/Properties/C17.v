(** C17 — ShardByPrefix: bounded contiguous shards, exact LCP lengths, strictly
    ascending prefixes.  Only the property theorems (each closed by [exact]),
    their axiom audit and non-vacuity examples. *)
From Coq Require Import ZArith List Bool.
From Low Require Import Lib.Bits Lib.BitSeq Lib.Lex Lib.Bytes Model.Sigbits Spec.SigbitsSpec
  Proofs.SigbitsShardChecker.
Import ListNotations.
Open Scope Z_scope.

(** The extracted boolean checker that judges the implementation's output accepts exactly
    the outputs described by the proposition [shard_spec] (the property's own words: boundaries
    0 = B[0] < ... < B[k] = len(keys), shard sizes <= maxSize, L[j] = length of the longest
    common prefix of shard j, shard prefixes strictly ascending) -- for every input, no
    domain restriction. *)
Theorem C17_checker_sound : forall keys maxSize L B,
  shard_ok keys maxSize L B = true -> shard_spec keys maxSize L B.
Proof. exact shard_ok_sound. Qed.
Print Assumptions C17_checker_sound.

Theorem C17_checker_complete : forall keys maxSize L B,
  shard_spec keys maxSize L B -> shard_ok keys maxSize L B = true.
Proof. exact shard_ok_complete. Qed.
Print Assumptions C17_checker_complete.

(** non-vacuity of the checker theorems: an accepted and a rejected sharding of the same keys
    (the rejected one claims a prefix length that is common but not the longest) *)
Example C17_checker_nonvacuous :
  shard_ok [[97]; [97; 98]; [97; 98; 99]; [98]] 2 [1; 3; 1] [0; 2; 3; 4] = true /\
  shard_spec [[97]; [97; 98]; [97; 98; 99]; [98]] 2 [1; 3; 1] [0; 2; 3; 4] /\
  shard_ok [[97]; [97; 98]; [97; 98; 99]; [98]] 2 [1; 2; 1] [0; 2; 3; 4] = false /\
  ~ shard_spec [[97]; [97; 98]; [97; 98; 99]; [98]] 2 [1; 2; 1] [0; 2; 3; 4].
Proof.
  split; [reflexivity|]. split; [apply shard_ok_sound; reflexivity|]. split; [reflexivity|].
  intros H. apply shard_ok_complete in H. discriminate H.
Qed.
