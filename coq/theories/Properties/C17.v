(** C17 — ShardByPrefix: bounded contiguous shards, exact LCP lengths, strictly
    ascending prefixes.  Only the property theorems (each closed by [exact]),
    their axiom audit and non-vacuity examples. *)
From Coq Require Import ZArith List Bool.
From Low Require Import Lib.Bits Lib.BitSeq Lib.Lex Lib.Bytes Model.Sigbits Spec.SigbitsSpec
  Proofs.SigbitsShardChecker Proofs.SigbitsShard.
Import ListNotations.
Open Scope Z_scope.

(** The extracted boolean checker that judges the implementation's output accepts exactly
    the outputs described by the proposition [shard_spec] (the property's own words: boundaries
    0 = B[0] < ... < B[k] = len(keys), shard sizes <= maxSize, L[j] = length of the longest
    common prefix of shard j, shard prefixes strictly ascending) -- for every input, no
    domain restriction. *)
Theorem C17_checker_sound : forall keys maxSize L B,
  shard_ok keys maxSize L B = true -> shard_spec keys maxSize L B.
Proof. exact shard_ok_sound. Qed.
Print Assumptions C17_checker_sound.

Theorem C17_checker_complete : forall keys maxSize L B,
  shard_spec keys maxSize L B -> shard_ok keys maxSize L B = true.
Proof. exact shard_ok_complete. Qed.
Print Assumptions C17_checker_complete.

(** non-vacuity of the checker theorems: an accepted and a rejected sharding of the same keys
    (the rejected one claims a prefix length that is common but not the longest) *)
Example C17_checker_nonvacuous :
  shard_ok [[97]; [97; 98]; [97; 98; 99]; [98]] 2 [1; 3; 1] [0; 2; 3; 4] = true /\
  shard_spec [[97]; [97; 98]; [97; 98; 99]; [98]] 2 [1; 3; 1] [0; 2; 3; 4] /\
  shard_ok [[97]; [97; 98]; [97; 98; 99]; [98]] 2 [1; 2; 1] [0; 2; 3; 4] = false /\
  ~ shard_spec [[97]; [97; 98]; [97; 98; 99]; [98]] 2 [1; 2; 1] [0; 2; 3; 4].
Proof.
  split; [reflexivity|]. split; [apply shard_ok_sound; reflexivity|]. split; [reflexivity|].
  intros H. apply shard_ok_complete in H. discriminate H.
Qed.

(** The property.  For every non-empty, strictly ascending list of byte strings and every
    maxSize >= 1 -- any number of keys, any key lengths, any byte values -- the model of
    ShardByPrefix (recursive dfs with the mutable endsAt list, on fuel len(keys)+1) does not
    panic, does not run out of fuel, and returns (L, B) with
      len(B) = len(L)+1, B[0] = 0, B[k] = len(keys),
      B[j] < B[j+1] and B[j+1]-B[j] <= maxSize,
      L[j] = length of the longest common prefix of keys[B[j]:B[j+1]] (own length for one key),
      keys[B[j]][:L[j]] < keys[B[j+1]][:L[j+1]] in Go's string order.
    ([keys_ok]: the list elements are bytes, 0 <= b < 256 -- what a Go string is.
    Lengths and indices are unbounded [Z] in the model; Go's int32 agrees while
    8*len(key) < 2^31 and len(keys) < 2^31.) *)
Theorem C17_ShardByPrefix : forall keys maxSize,
  keys <> [] -> keys_ok keys -> strict_asc keys -> 1 <= maxSize ->
  exists L B, ShardByPrefix keys maxSize = Some (L, B) /\ shard_spec keys maxSize L B.
Proof. exact ShardByPrefix_correct. Qed.
Print Assumptions C17_ShardByPrefix.

(** the same in the form the correspondence run uses: the extracted checker accepts the
    model's output (so on the property's domain a SPECFAIL can only come from the implementation) *)
Theorem C17_ShardByPrefix_accepted : forall keys maxSize,
  keys <> [] -> keys_ok keys -> strict_asc keys -> 1 <= maxSize ->
  exists L B, ShardByPrefix keys maxSize = Some (L, B) /\ shard_ok keys maxSize L B = true.
Proof. exact ShardByPrefix_shard_ok. Qed.
Print Assumptions C17_ShardByPrefix_accepted.

(** "strictly ascending, hence pairwise distinct": any two shards of an accepted sharding have
    different prefixes, the earlier one the smaller *)
Theorem C17_prefixes_distinct : forall keys maxSize L B, shard_spec keys maxSize L B ->
  forall i j, (i < j < length L)%nat ->
  bytes_cmp (shard_prefix keys L B i) (shard_prefix keys L B j) = Lt /\
  shard_prefix keys L B i <> shard_prefix keys L B j.
Proof. exact shard_spec_prefixes_distinct. Qed.
Print Assumptions C17_prefixes_distinct.

(** non-vacuity: keys with NUL and >= 0x80 bytes, a key ("a") equal to the common prefix of its
    successors, a nine-byte shared prefix, maxSize = 2 (forces a split, a restart of the split
    list and recursion into a single-key range) *)
Example C17_nonvacuous :
  let keys := [[0]; [97]; [97; 0]; [97; 98; 99; 100; 101; 102; 103; 104; 105; 1];
               [97; 98; 99; 100; 101; 102; 103; 104; 105; 128]; [255]] in
  keys <> [] /\ keys_ok keys /\ strict_asc keys /\ 1 <= 2 /\
  ShardByPrefix keys 2 = Some ([1; 1; 2; 9; 1], [0; 1; 2; 3; 5; 6]) /\
  shard_spec keys 2 [1; 1; 2; 9; 1] [0; 1; 2; 3; 5; 6].
Proof.
  cbv zeta. split; [discriminate|]. split.
  { repeat constructor; unfold byte_ok; cbv; intuition congruence. }
  split.
  { intros p Hp. cbn in Hp. repeat (destruct Hp as [<-|Hp]; [reflexivity|]). contradiction. }
  split; [cbv; congruence|]. split; [vm_compute; reflexivity|].
  apply shard_ok_sound. vm_compute. reflexivity.
Qed.
