(** C17 — ShardByPrefix: bounded contiguous shards, exact LCP lengths, strictly
    ascending prefixes.  Only the property theorems (each closed by [exact]),
    their axiom audit and non-vacuity examples. *)
From Coq Require Import ZArith List Bool Lia.
From Low Require Import Lib.Bits Lib.BitSeq Lib.Lex Lib.Bytes Model.Sigbits Spec.SigbitsSpec Spec.ShardRouteSpec
  Proofs.SigbitsShardChecker Proofs.SigbitsLcpAll Proofs.SigbitsShard.
Import ListNotations.
Open Scope Z_scope.

(** The extracted boolean checker that judges the implementation's output accepts exactly
    the outputs described by the proposition [shard_spec] (the property's own words: boundaries
    0 = B[0] < ... < B[k] = len(keys), shard sizes <= maxSize, L[j] = length of the longest
    common prefix of shard j, shard prefixes strictly ascending) -- for every input, no
    domain restriction. *)
Theorem C17_checker_sound : forall keys maxSize L B,
  shard_ok keys maxSize L B = true -> shard_spec keys maxSize L B.
Proof. exact shard_ok_sound. Qed.
Print Assumptions C17_checker_sound.

Theorem C17_checker_complete : forall keys maxSize L B,
  shard_spec keys maxSize L B -> shard_ok keys maxSize L B = true.
Proof. exact shard_ok_complete. Qed.
Print Assumptions C17_checker_complete.

(** non-vacuity of the checker theorems: an accepted and a rejected sharding of the same keys
    (the rejected one claims a prefix length that is common but not the longest) *)
Example C17_checker_nonvacuous :
  shard_ok [[97]; [97; 98]; [97; 98; 99]; [98]] 2 [1; 3; 1] [0; 2; 3; 4] = true /\
  shard_spec [[97]; [97; 98]; [97; 98; 99]; [98]] 2 [1; 3; 1] [0; 2; 3; 4] /\
  shard_ok [[97]; [97; 98]; [97; 98; 99]; [98]] 2 [1; 2; 1] [0; 2; 3; 4] = false /\
  ~ shard_spec [[97]; [97; 98]; [97; 98; 99]; [98]] 2 [1; 2; 1] [0; 2; 3; 4].
Proof.
  split; [reflexivity|]. split; [apply shard_ok_sound; reflexivity|]. split; [reflexivity|].
  intros H. apply shard_ok_complete in H. discriminate H.
Qed.

(** The specification value [lcp_all ks] really is the longest common prefix of the keys [ks]
    (so "L[j] = zlen (lcp_all shard)" says what the property says): it is a prefix of every key,
    and every common prefix of all the keys is a prefix of it.  [is_prefix p x := firstn (length p) x = p]. *)
Theorem C17_spec_lcp_common : forall ks k, In k ks -> is_prefix (lcp_all ks) k.
Proof. exact lcp_all_common. Qed.
Print Assumptions C17_spec_lcp_common.

Theorem C17_spec_lcp_longest : forall ks p, ks <> [] -> (forall k, In k ks -> is_prefix p k) ->
  is_prefix p (lcp_all ks) /\ (length p <= length (lcp_all ks))%nat.
Proof. exact lcp_all_longest. Qed.
Print Assumptions C17_spec_lcp_longest.

(** The property.  For every non-empty, strictly ascending list of byte strings and every
    maxSize >= 1 -- any number of keys, any key lengths, any byte values -- the model of
    ShardByPrefix (recursive dfs with the mutable endsAt list, on fuel len(keys)+1) does not
    panic, does not run out of fuel, and returns (L, B) with
      len(B) = len(L)+1, B[0] = 0, B[k] = len(keys),
      B[j] < B[j+1] and B[j+1]-B[j] <= maxSize,
      L[j] = length of the longest common prefix of keys[B[j]:B[j+1]] (own length for one key),
      keys[B[j]][:L[j]] < keys[B[j+1]][:L[j+1]] in Go's string order.
    ([keys_ok]: the list elements are bytes, 0 <= b < 256 -- what a Go string is.
    Lengths and indices are unbounded [Z] in the model; Go's int32 agrees while
    8*len(key) < 2^31 and len(keys) < 2^31.) *)
Theorem C17_ShardByPrefix : forall keys maxSize,
  keys <> [] -> keys_ok keys -> strict_asc keys -> 1 <= maxSize ->
  exists L B, ShardByPrefix keys maxSize = Some (L, B) /\ shard_spec keys maxSize L B.
Proof. exact ShardByPrefix_correct. Qed.
Print Assumptions C17_ShardByPrefix.

(** the same in the form the correspondence run uses: the extracted checker accepts the
    model's output (so on the property's domain a SPECFAIL can only come from the implementation) *)
Theorem C17_ShardByPrefix_accepted : forall keys maxSize,
  keys <> [] -> keys_ok keys -> strict_asc keys -> 1 <= maxSize ->
  exists L B, ShardByPrefix keys maxSize = Some (L, B) /\ shard_ok keys maxSize L B = true.
Proof. exact ShardByPrefix_shard_ok. Qed.
Print Assumptions C17_ShardByPrefix_accepted.

(** "strictly ascending, hence pairwise distinct": any two shards of an accepted sharding have
    different prefixes, the earlier one the smaller *)
Theorem C17_prefixes_distinct : forall keys maxSize L B, shard_spec keys maxSize L B ->
  forall i j, (i < j < length L)%nat ->
  bytes_cmp (shard_prefix keys L B i) (shard_prefix keys L B j) = Lt /\
  shard_prefix keys L B i <> shard_prefix keys L B j.
Proof. exact shard_spec_prefixes_distinct. Qed.
Print Assumptions C17_prefixes_distinct.

(** non-vacuity: keys with NUL and >= 0x80 bytes, a key ("a") equal to the common prefix of its
    successors, a nine-byte shared prefix, maxSize = 2 (forces a split, a restart of the split
    list and recursion into a single-key range) *)
Example C17_nonvacuous :
  let keys := [[0]; [97]; [97; 0]; [97; 98; 99; 100; 101; 102; 103; 104; 105; 1];
               [97; 98; 99; 100; 101; 102; 103; 104; 105; 128]; [255]] in
  keys <> [] /\ keys_ok keys /\ strict_asc keys /\ 1 <= 2 /\
  ShardByPrefix keys 2 = Some ([1; 1; 2; 9; 1], [0; 1; 2; 3; 5; 6]) /\
  shard_spec keys 2 [1; 1; 2; 9; 1] [0; 1; 2; 3; 5; 6].
Proof.
  cbv zeta. split; [discriminate|]. split.
  { repeat constructor; unfold byte_ok; cbv; intuition congruence. }
  split.
  { intros p Hp. cbn in Hp. repeat (destruct Hp as [<-|Hp]; [reflexivity|]). contradiction. }
  split; [cbv; congruence|]. split; [vm_compute; reflexivity|].
  apply shard_ok_sound. vm_compute. reflexivity.
Qed.

(** Widening (beyond the stated property): the prefixes returned by ShardByPrefix are a routing
    table for the keys.  Key i is at or above (Go string order) the prefix of shard j exactly when
    i >= B[j]; hence an upper-bound search for keys[i] over the sorted prefixes finds the shard
    that holds keys[i].  This does NOT follow from [shard_spec] alone (shards {a,abc},{abd,abe}
    with prefixes "a","ab" satisfy [shard_spec] for maxSize 2, yet "abc" > "ab"); it is a property
    of the recursive split. *)
Theorem C17_route : forall keys maxSize,
  keys <> [] -> keys_ok keys -> strict_asc keys -> 1 <= maxSize ->
  exists L B, ShardByPrefix keys maxSize = Some (L, B) /\ shard_spec keys maxSize L B /\ route_spec keys L B.
Proof. exact ShardByPrefix_route. Qed.
Print Assumptions C17_route.

(** non-vacuity of the routing theorem, and the counterexample of the comment above: an accepted
    sharding that is not a routing table (so [route_spec] is not implied by [shard_spec]) *)
Example C17_route_nonvacuous :
  let keys := [[97]; [97; 98; 99]; [97; 98; 100]; [97; 98; 101]] in
  ShardByPrefix keys 2 = Some ([1; 3; 3; 3], [0; 1; 2; 3; 4]) /\
  map (route (shard_prefixes keys [1; 3; 3; 3] [0; 1; 2; 3; 4])) keys = [0; 1; 2; 3] /\
  route_okb 4 [0; 1; 2; 3; 4] [0; 1; 2; 3] = true /\
  shard_ok keys 2 [1; 2] [0; 2; 4] = true /\
  ~ route_spec keys [1; 2] [0; 2; 4].
Proof.
  cbv zeta. repeat (split; [vm_compute; reflexivity|]).
  intros H. specialize (H 1%nat 1%nat ltac:(cbn; auto with arith) ltac:(cbn; auto with arith)).
  destruct H as [H _]. assert (X : (2 <= 1)%Z) by (apply H; vm_compute; discriminate).
  apply X. reflexivity.
Qed.
