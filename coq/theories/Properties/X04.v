(** X04 (extra check, not a record of properties.jsonl) — mathext/util: Min<K>, Max<K>, Clap<K> for the ten
    integer kinds are the minimum, the maximum and the clamp into an interval.
    Only the theorems (each closed by [exact]), their axiom audit and non-vacuity examples.
    [MinK k] / [MaxK k] / [ClapK k] select the model of the Go function of kind [k]
    (Model/MathUtil.v: one definition per Go function, with the body of the Go function). *)
From Coq Require Import ZArith List Bool Lia.
From Low Require Import Model.MathUtil Spec.MathUtilSpec Proofs.MathUtilProofs.
Import ListNotations.
Open Scope Z_scope.

(** Min<K>(a,b) is the minimum: a lower bound of both that is one of them — and there is only one such value *)
Theorem X04_Min_is_min : forall k a b, is_min a b (MinK k a b).
Proof. exact MinK_is_min. Qed.
Print Assumptions X04_Min_is_min.

Theorem X04_Max_is_max : forall k a b, is_max a b (MaxK k a b).
Proof. exact MaxK_is_max. Qed.
Print Assumptions X04_Max_is_max.

Theorem X04_min_max_unique : forall a b r,
  (is_min a b r -> r = spec_min a b) /\ (is_max a b r -> r = spec_max a b).
Proof. exact (fun a b r => conj (is_min_unique a b r) (is_max_unique a b r)). Qed.
Print Assumptions X04_min_max_unique.

(** the executable forms used by the correspondence check *)
Theorem X04_MinMax_exact : forall k a b, MinK k a b = spec_min a b /\ MaxK k a b = spec_max a b.
Proof. exact (fun k a b => conj (MinK_exact k a b) (MaxK_exact k a b)). Qed.
Print Assumptions X04_MinMax_exact.

(** Clap<K>(n,min,max) with min <= max is the point of [min,max] nearest to n — and there is only one *)
Theorem X04_Clap_is_clamp : forall k n lo hi, lo <= hi -> is_clamp n lo hi (ClapK k n lo hi).
Proof. exact ClapK_is_clamp. Qed.
Print Assumptions X04_Clap_is_clamp.

Theorem X04_clamp_unique : forall n lo hi r, lo <= hi -> is_clamp n lo hi r -> r = spec_clamp n lo hi.
Proof. exact is_clamp_unique. Qed.
Print Assumptions X04_clamp_unique.

Theorem X04_Clap_exact : forall k n lo hi, ClapK k n lo hi = spec_clamp n lo hi.
Proof. exact ClapK_exact. Qed.
Print Assumptions X04_Clap_exact.

(** the three regions of a non-empty interval; fixed points are exactly the interval *)
Theorem X04_Clap_regions : forall k n lo hi, lo <= hi ->
  (n <= lo -> ClapK k n lo hi = lo) /\ (hi <= n -> ClapK k n lo hi = hi) /\
  (ClapK k n lo hi = n <-> lo <= n <= hi).
Proof.
  exact (fun k n lo hi H => conj (ClapK_below k n lo hi H) (conj (ClapK_above k n lo hi H) (ClapK_fixed_iff k n lo hi H))).
Qed.
Print Assumptions X04_Clap_regions.

(** idempotent, monotone and 1-Lipschitz in n, for every interval (inverted ones included) *)
Theorem X04_Clap_idem_mono : forall k n m lo hi,
  ClapK k (ClapK k n lo hi) lo hi = ClapK k n lo hi /\
  (n <= m -> ClapK k n lo hi <= ClapK k m lo hi) /\
  Z.abs (ClapK k n lo hi - ClapK k m lo hi) <= Z.abs (n - m).
Proof.
  exact (fun k n m lo hi => conj (ClapK_idem k n lo hi) (conj (ClapK_mono k n m lo hi) (ClapK_lipschitz k n m lo hi))).
Qed.
Print Assumptions X04_Clap_idem_mono.

(** Clap is Max-of-Min and Min-of-Max on a non-empty interval *)
Theorem X04_Clap_as_MinMax : forall k n lo hi, lo <= hi ->
  ClapK k n lo hi = MaxK k (MinK k n hi) lo /\ ClapK k n lo hi = MinK k (MaxK k n lo) hi.
Proof. exact ClapK_minmax. Qed.
Print Assumptions X04_Clap_as_MinMax.

(** what the code does on an inverted interval (max < min), recorded as it is: it returns max *)
Theorem X04_Clap_inverted : forall k n lo hi, hi < lo -> ClapK k n lo hi = hi.
Proof. exact ClapK_inverted. Qed.
Print Assumptions X04_Clap_inverted.

(** lattice laws *)
Theorem X04_lattice : forall k a b c,
  MinK k a b = MinK k b a /\ MaxK k a b = MaxK k b a /\
  MinK k a (MinK k b c) = MinK k (MinK k a b) c /\ MaxK k a (MaxK k b c) = MaxK k (MaxK k a b) c /\
  MinK k a a = a /\ MaxK k a a = a /\
  MinK k a (MaxK k a b) = a /\ MaxK k a (MinK k a b) = a /\
  MinK k a (MaxK k b c) = MaxK k (MinK k a b) (MinK k a c).
Proof.
  exact (fun k a b c => conj (MinK_comm k a b) (conj (MaxK_comm k a b) (conj (MinK_assoc k a b c) (conj (MaxK_assoc k a b c)
    (conj (MinK_idem k a) (conj (MaxK_idem k a) (conj (proj1 (MinMax_absorb k a b)) (conj (proj2 (MinMax_absorb k a b))
    (MinK_distr_max k a b c))))))))).
Qed.
Print Assumptions X04_lattice.

Theorem X04_MinMax_sum_order : forall k a b,
  MinK k a b + MaxK k a b = a + b /\ MinK k a b <= MaxK k a b.
Proof. exact (fun k a b => conj (MinMax_sum k a b) (MinMax_le k a b)). Qed.
Print Assumptions X04_MinMax_sum_order.

Theorem X04_glb_lub : forall k a b c,
  (c <= a -> c <= b -> c <= MinK k a b) /\ (a <= c -> b <= c -> MaxK k a b <= c).
Proof. exact (fun k a b c => conj (MinK_glb k a b c) (MaxK_lub k a b c)). Qed.
Print Assumptions X04_glb_lub.

(** type closure: on arguments of the Go type of kind k every result is of that type (it is one of the arguments),
    so the typed Go function returns the mathematical value — the model needs no wrap *)
Theorem X04_closed : forall k a b c, in_kind k a -> in_kind k b -> in_kind k c ->
  in_kind k (MinK k a b) /\ in_kind k (MaxK k a b) /\ in_kind k (ClapK k a b c).
Proof.
  exact (fun k a b c Ha Hb Hc => conj (MinK_closed k a b Ha Hb) (conj (MaxK_closed k a b Ha Hb) (ClapK_closed k a b c Ha Hb Hc))).
Qed.
Print Assumptions X04_closed.

Theorem X04_select : forall k a b c,
  (MinK k a b = a \/ MinK k a b = b) /\ (MaxK k a b = a \/ MaxK k a b = b) /\
  (ClapK k a b c = a \/ ClapK k a b c = b \/ ClapK k a b c = c).
Proof. exact (fun k a b c => conj (MinK_select k a b) (conj (MaxK_select k a b) (ClapK_select k a b c))). Qed.
Print Assumptions X04_select.

(** non-vacuity: extreme values of the widest and narrowest kinds, values that differ only above bit 31 /
    in the sign bit of a uint64, all three regions of an interval, an inverted interval *)
Example X04_MinMax_nonvacuous :
  in_kind KI64 (- 2^63) /\ in_kind KI64 (2^63 - 1) /\ in_kind KU64 (2^63) /\ in_kind KU64 (2^63 - 1) /\
  MinK KI64 (- 2^63) (2^63 - 1) = - 2^63 /\ MaxK KI64 (- 2^63) (2^63 - 1) = 2^63 - 1 /\
  MinK KU64 (2^63) (2^63 - 1) = 2^63 - 1 /\ MaxK KU64 (2^63) (2^63 - 1) = 2^63 /\
  MinK KI (2^32) 1 = 1 /\ MaxK KU8 255 0 = 255 /\ MinK KI8 (-128) 127 = -128 /\
  is_min 3 5 3 /\ is_max 3 5 5 /\ ~ is_min 3 5 5 /\ ~ is_min 3 5 2.
Proof.
  unfold in_kind, is_min, is_max.
  repeat split; try reflexivity; try (vm_compute; congruence); try lia.
Qed.

Example X04_Clap_nonvacuous :
  ClapK KI8 (-128) (-3) 7 = -3 /\ ClapK KI8 127 (-3) 7 = 7 /\ ClapK KI8 5 (-3) 7 = 5 /\
  ClapK KU64 (2^64 - 1) 0 (2^63) = 2^63 /\ ClapK KI16 0 5 5 = 5 /\
  ClapK KI32 0 7 (-3) = -3 /\ ClapK KI32 100 7 (-3) = -3 /\
  is_clamp 9 (-3) 7 7 /\ ~ is_clamp 9 (-3) 7 6.
Proof.
  repeat split; try reflexivity; try lia.
  intros [_ H]. specialize (H 7). lia.
Qed.
