(** placeholder, replaced below in the same commit series *)
From Coq Require Import ZArith.
From Low Require Import Model.TypeHelper.
Theorem X03_placeholder_partial : ToSlice GNil = None.
Proof. exact eq_refl. Qed.
Print Assumptions X03_placeholder_partial.
