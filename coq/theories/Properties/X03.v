(** X03 (extra check, not a record of properties.jsonl) — typehelper.ToSlice returns the elements of a slice,
    in order, and panics exactly on values that are not of kind slice.
    Only the theorems (each closed by [exact]), their axiom audit and non-vacuity examples.
    Model: Model/ToSliceValues.v (the reflect calls and the index loop of toslice.go); vocabulary: Spec/ToSliceValuesSpec.v. *)
From Coq Require Import ZArith List Bool.
From Low Require Import Lib.BitSeq Model.ToSliceValues Spec.ToSliceValuesSpec Proofs.ToSliceValuesProofs.
Import ListNotations.
Open Scope Z_scope.

(** on every slice value — any element type, nil or not, named or not, any length — the result is the list of elements *)
Theorem X03_ToSlice_slice : forall t fl el, ToSlice (GSlice t fl el) = Some el.
Proof. exact ToSlice_slice. Qed.
Print Assumptions X03_ToSlice_slice.

(** every result is element-for-element the argument's elements (stated with the naive relation), and only that list is *)
Theorem X03_ToSlice_elems : forall arg r, ToSlice arg = Some r -> is_elems_of arg r.
Proof. exact ToSlice_elems. Qed.
Print Assumptions X03_ToSlice_elems.

Theorem X03_elems_unique : forall arg r, is_elems_of arg r -> r = slice_elems arg.
Proof. exact is_elems_of_unique. Qed.
Print Assumptions X03_elems_unique.

(** it panics exactly when the argument is not of kind slice (nil interface, scalars, strings, arrays, pointers — to slices too —, maps ...) *)
Theorem X03_ToSlice_panics_iff : forall arg, wf arg = true -> (ToSlice arg = None <-> kind_of arg <> K_Slice).
Proof. exact ToSlice_panics_iff. Qed.
Print Assumptions X03_ToSlice_panics_iff.

(** model = executable specification on every well-formed value *)
Theorem X03_ToSlice_exact : forall arg, wf arg = true -> ToSlice arg = spec_ToSlice arg.
Proof. exact ToSlice_exact. Qed.
Print Assumptions X03_ToSlice_exact.

(** length is preserved; a nil slice gives an empty result, not a panic *)
Theorem X03_ToSlice_length : forall arg r, ToSlice arg = Some r -> zlen r = zlen (slice_elems arg).
Proof. exact ToSlice_length. Qed.
Print Assumptions X03_ToSlice_length.

Theorem X03_ToSlice_nil_slice : forall t fl, ToSlice (GSlice t fl []) = Some [].
Proof. exact ToSlice_nil_slice. Qed.
Print Assumptions X03_ToSlice_nil_slice.

(** the elements of a well-formed slice come back with the slice's element type (any value for []interface{}) *)
Theorem X03_ToSlice_typed : forall t fl el r, wf (GSlice t fl el) = true -> ToSlice (GSlice t fl el) = Some r ->
  Forall (fun e => has_type t e = true /\ wf e = true) r.
Proof. exact ToSlice_typed. Qed.
Print Assumptions X03_ToSlice_typed.

(** converting the result again changes nothing *)
Theorem X03_ToSlice_idem : forall arg r, ToSlice arg = Some r -> ToSlice (GSlice TIface 0 r) = Some r.
Proof. exact ToSlice_idem. Qed.
Print Assumptions X03_ToSlice_idem.

(** the copy loop, for any amount of fuel that covers the remaining iterations, started from any iteration i *)
Theorem X03_loop : forall el fuel i, (i <= length el)%nat -> (length el - i < fuel)%nat ->
  toSlice_loop fuel el (Z.of_nat i) (zlen el) (partial_rst el i) = Some el.
Proof. exact toSlice_loop_spec. Qed.
Print Assumptions X03_loop.

(** non-vacuity: a []interface{} holding a nil interface, an int, a nil []int and a string; a named []int;
    a pointer to a slice, an array and the nil interface (all three panic) *)
Example X03_nonvacuous :
  let s := GSlice TIface 0 [GNil; GScalar 2 7; GSlice (TScalar 2) 1 []; GString [97]] in
  wf s = true /\ ToSlice s = Some [GNil; GScalar 2 7; GSlice (TScalar 2) 1 []; GString [97]] /\
  ToSlice (GSlice (TScalar 2) 2 [GScalar 2 1; GScalar 2 2]) = Some [GScalar 2 1; GScalar 2 2] /\
  wf (GPtr (GSlice (TScalar 2) 0 [GScalar 2 1])) = true /\ ToSlice (GPtr (GSlice (TScalar 2) 0 [GScalar 2 1])) = None /\
  ToSlice (GArray (TScalar 2) [GScalar 2 1]) = None /\ ToSlice GNil = None /\
  kind_of (GPtr (GSlice (TScalar 2) 0 [GScalar 2 1])) <> K_Slice /\
  wf (GSlice (TScalar 2) 0 [GString [97]]) = false.
Proof. vm_compute. intuition congruence. Qed.
