(** C16 — sigbits: first-difference bits and prefix counts match the keys' bit strings.
    Only the property theorems (each closed by [exact]), their axiom audit and
    non-vacuity examples.  [first_diff_bit a b] is the length of the longest
    common prefix of the two keys' bit strings ([msb_bits]: most significant bit
    of each byte first). *)
From Coq Require Import ZArith List Bool.
From Low Require Import Lib.Bits Lib.BitSeq Lib.Lex Lib.Bytes Model.Sigbits Spec.SigbitsSpec
  Proofs.SigbitsFirstDiff.
Import ListNotations.
Open Scope Z_scope.

(** FirstDiffBits(keys), keys non-empty = for each adjacent pair the length of the
    longest common prefix of their bit strings; it never panics.  Unbounded in the
    number and the lengths of the keys (the model's ints are [Z]; Go's int32 agrees
    while 8*len(key) < 2^31). *)
Theorem C16_FirstDiffBits : forall keys,
  keys <> [] -> keys_ok keys -> FirstDiffBits keys = Some (spec_FirstDiffBits keys).
Proof. exact FirstDiffBits_exact. Qed.
Print Assumptions C16_FirstDiffBits.

(** non-vacuity: a shared prefix of 9 bytes (crosses the 8-byte chunking), a key followed by
    itself + NUL, the empty key *)
Example C16_FirstDiffBits_nonvacuous :
  let keys := [[]; [97;97;97;97;97;97;97;97;97]; [97;97;97;97;97;97;97;97;97;0]; [97;97;97;97;97;97;97;97;97;1]] in
  keys <> [] /\ keys_okb keys = true /\
  FirstDiffBits keys = Some [0; 72; 79] /\ spec_FirstDiffBits keys = [0; 72; 79].
Proof. split; [discriminate|]. vm_compute. intuition congruence. Qed.
