(** C16 — sigbits: first-difference bits and prefix counts match the keys' bit strings.
    Only the property theorems (each closed by [exact]), their axiom audit and
    non-vacuity examples.  [first_diff_bit a b] is the length of the longest
    common prefix of the two keys' bit strings ([msb_bits]: most significant bit
    of each byte first). *)
From Coq Require Import ZArith List Bool.
From Low Require Import Lib.Bits Lib.BitSeq Lib.Lex Lib.Bytes Lib.LexExtra_sig Model.Sigbits Model.Sigbits32 Model.SigbitsQueries Spec.SigbitsSpec
  Spec.SigbitsSpec16x Proofs.SigbitsFirstDiff Proofs.SigbitsCountPrefixes Proofs.SigbitsMeaning Proofs.SigbitsCounters Proofs.SigbitsOrder Proofs.Sigbits32Proofs Proofs.SigbitsQueriesProofs Proofs.SigbitsCounterKeys Proofs.SigbitsSessionProofs.
Import ListNotations.
Open Scope Z_scope.

(** FirstDiffBits(keys), keys non-empty = for each adjacent pair the length of the
    longest common prefix of their bit strings; it never panics.  Unbounded in the
    number and the lengths of the keys (the model's ints are [Z]; Go's int32 agrees
    while 8*len(key) < 2^31). *)
Theorem C16_FirstDiffBits : forall keys,
  keys <> [] -> keys_ok keys -> FirstDiffBits keys = Some (spec_FirstDiffBits keys).
Proof. exact FirstDiffBits_exact. Qed.
Print Assumptions C16_FirstDiffBits.

(** the specification value in the words of the property: the bits before position d agree and bit d
    is the first at which the keys differ, unless a key ends there (d = 8*min(len)) *)
Theorem C16_spec_first_diff_bit_meaning : forall a b,
  let d := first_diff_bit a b in
  0 <= d <= 8 * Z.min (zlen a) (zlen b) /\
  firstn (Z.to_nat d) (msb_bits a) = firstn (Z.to_nat d) (msb_bits b) /\
  (d < 8 * Z.min (zlen a) (zlen b) ->
   nth (Z.to_nat d) (msb_bits a) false <> nth (Z.to_nat d) (msb_bits b) false).
Proof. exact first_diff_bit_meaning. Qed.
Print Assumptions C16_spec_first_diff_bit_meaning.

(** ... and it is 8*min(len) exactly when one key is a byte-prefix of the other *)
Theorem C16_spec_first_diff_bit_prefix : forall a b, bytes_ok a -> bytes_ok b ->
  first_diff_bit a b = 8 * Z.min (zlen a) (zlen b) <->
  (firstn (length a) b = a \/ firstn (length b) a = b).
Proof. exact first_diff_bit_prefix. Qed.
Print Assumptions C16_spec_first_diff_bit_prefix.

(** non-vacuity: a shared prefix of 9 bytes (crosses the 8-byte chunking), a key followed by
    itself + NUL, the empty key *)
Example C16_FirstDiffBits_nonvacuous :
  let keys := [[]; [97;97;97;97;97;97;97;97;97]; [97;97;97;97;97;97;97;97;97;0]; [97;97;97;97;97;97;97;97;97;1]] in
  keys <> [] /\ keys_okb keys = true /\
  FirstDiffBits keys = Some [0; 72; 79] /\ spec_FirstDiffBits keys = [0; 72; 79].
Proof. split; [discriminate|]. vm_compute. intuition congruence. Qed.

(** New(keys).CountPrefixes(s, e, m) for strictly ascending keys (Go string order), a range of at
    least two keys and m >= 1: it does not panic and returns [spec_CountPrefixes keys s e m] =
    (the smallest first-difference bit m0 within keys[s:e], the m counters whose i-th is the number
    of distinct (m0+i)-bit truncations of the bit strings of keys[s:e], a shorter key counting as
    itself).  Unbounded in the number and lengths of keys, in the range and in m; [keys_i32] is Go's
    own int32 range for bit positions (8*len(key) <= 2^31-1). *)
Theorem C16_CountPrefixes : forall keys s e m,
  keys_ok keys -> strict_asc keys -> keys_i32 keys ->
  0 <= s -> s + 2 <= e -> e <= zlen keys -> 1 <= m ->
  exists sb, New keys = Some sb /\ sb_keys sb = keys /\ sb_sigbits sb = spec_FirstDiffBits keys /\
             CountPrefixes sb s e m = Some (spec_CountPrefixes keys s e m).
Proof. exact CountPrefixes_exact. Qed.
Print Assumptions C16_CountPrefixes.

(** the unexported worker on the first differences of any sub-range *)
Theorem C16_countPrefixes_sub : forall keys s e m,
  keys_ok keys -> strict_asc keys -> keys_i32 keys ->
  0 <= s -> s + 2 <= e -> e <= zlen keys -> 1 <= m ->
  countPrefixes (spec_FirstDiffBits (sub_keys keys s e)) m = Some (spec_CountPrefixes keys s e m).
Proof. exact countPrefixes_sub_exact. Qed.
Print Assumptions C16_countPrefixes_sub.

(** the specification value read clause by clause, in the words of the property: m0 is the minimum of
    the first-difference bits of keys[s:e]; there are m counters; the i-th is the number of distinct
    (m0+i)-bit truncations ([nodup] = distinct values, [firstn] keeps a shorter bit string whole) *)
Theorem C16_spec_CountPrefixes_meaning : forall keys s e m, 0 <= m ->
  let ks := sub_keys keys s e in
  let m0 := fst (spec_CountPrefixes keys s e m) in
  let cs := snd (spec_CountPrefixes keys s e m) in
  m0 = list_min (spec_FirstDiffBits ks) /\
  zlen cs = m /\
  forall i, (i < Z.to_nat m)%nat ->
    nth i cs 0 = zlen (nodup bits_eq_dec (map (fun k => firstn (Z.to_nat (m0 + Z.of_nat i)) (msb_bits k)) ks)).
Proof. exact spec_CountPrefixes_meaning. Qed.
Print Assumptions C16_spec_CountPrefixes_meaning.

(** [list_min] of a non-empty list is its least element *)
Theorem C16_spec_min_meaning : forall ds, ds <> [] ->
  In (list_min ds) ds /\ forall d, In d ds -> list_min ds <= d.
Proof. exact list_min_meaning. Qed.
Print Assumptions C16_spec_min_meaning.

(** non-vacuity: 5 ascending keys incl. the empty key, a key followed by itself + NUL and a shared
    prefix of 9 bytes; a sub-range not starting at 0; m = 9 counters *)
Example C16_CountPrefixes_nonvacuous :
  let keys := [[]; [97]; [97;0]; [97;97;97;97;97;97;97;97;97;0]; [97;97;97;97;97;97;97;97;97;1]; [98]] in
  keys_ok keys /\ strict_asc keys /\ keys_i32 keys /\ (0 <= 1 /\ 1 + 2 <= 6 /\ 6 <= zlen keys /\ 1 <= 9) /\
  (exists sb, New keys = Some sb /\ CountPrefixes sb 1 6 9 = Some (6, [1; 2; 2; 3; 4; 4; 4; 4; 4])) /\
  spec_CountPrefixes keys 1 6 9 = (6, [1; 2; 2; 3; 4; 4; 4; 4; 4]).
Proof.
  cbv zeta.
  split; [apply keys_okb_ok; reflexivity|].
  split; [apply strict_ascb_ok; reflexivity|].
  split; [repeat constructor; vm_compute; discriminate|].
  split; [vm_compute; intuition congruence|].
  split; [eexists; split; [vm_compute; reflexivity|vm_compute; reflexivity]|].
  vm_compute. reflexivity.
Qed.

(** * Widening: the unexported helpers on their own, what users of the counters rely on,
      the single-key range *)

(** sFirstDiffBit(a, b) = length of the common prefix of the two bit strings (any two byte strings) *)
Theorem C16_sFirstDiffBit : forall a b, bytes_ok a -> bytes_ok b ->
  sFirstDiffBit a b = Some (first_diff_bit a b).
Proof. exact sFirstDiffBit_exact. Qed.
Print Assumptions C16_sFirstDiffBit.

(** get64Bits(s): a 64-bit word whose bits, most significant first, are the first 64 bits of the
    key's bit string, padded with zeros ([window false 64]) *)
Theorem C16_get64Bits : forall s, bytes_ok s ->
  0 <= get64Bits s < 2 ^ 64 /\ msbn 64 (get64Bits s) = window false 64 (msb_bits s).
Proof. exact get64Bits_exact. Qed.
Print Assumptions C16_get64Bits.

(** m0 is the length of the common bit prefix of ALL keys of the range (the doc comment of
    CountPrefixes): every two keys agree on their first m0 bits, some adjacent pair has its first
    difference exactly at bit m0, and m0 is the first-difference bit of the first and the last key *)
Theorem C16_spec_m0_common_prefix : forall keys s e m,
  keys_ok keys -> strict_asc keys -> 0 <= s -> s + 2 <= e -> e <= zlen keys ->
  let ks := sub_keys keys s e in
  let m0 := fst (spec_CountPrefixes keys s e m) in
  (forall a b, In a ks -> In b ks ->
     firstn (Z.to_nat m0) (msb_bits a) = firstn (Z.to_nat m0) (msb_bits b)) /\
  (exists p, In p (adj_pairs ks) /\ first_diff_bit (fst p) (snd p) = m0) /\
  m0 = first_diff_bit (hd [] ks) (last ks []).
Proof. exact m0_common_prefix. Qed.
Print Assumptions C16_spec_m0_common_prefix.

(** the counters: start at 1, the second is at least 2, never decrease, lie in [1, e-s], reach e-s
    as soon as the width passes every first difference, and one more bit of width adds exactly the
    adjacent pairs whose first difference is that bit *)
Theorem C16_counters_shape : forall keys s e m,
  keys_ok keys -> strict_asc keys -> 0 <= s -> s + 2 <= e -> e <= zlen keys ->
  let ds := spec_FirstDiffBits (sub_keys keys s e) in
  let m0 := fst (spec_CountPrefixes keys s e m) in
  let cs := snd (spec_CountPrefixes keys s e m) in
  (1 <= m -> nth 0 cs 0 = 1) /\
  (2 <= m -> 2 <= nth 1 cs 0) /\
  (forall i j, (i <= j)%nat -> (j < Z.to_nat m)%nat -> nth i cs 0 <= nth j cs 0) /\
  (forall i, (i < Z.to_nat m)%nat -> 1 <= nth i cs 0 <= e - s) /\
  (forall i, (i < Z.to_nat m)%nat -> (forall d, In d ds -> d < m0 + Z.of_nat i) -> nth i cs 0 = e - s) /\
  (forall i, (S i < Z.to_nat m)%nat ->
     nth (S i) cs 0 - nth i cs 0 = count_if (fun d => d =? m0 + Z.of_nat i) ds).
Proof.
  exact (fun keys s e m Hok Hasc Hs He Hl =>
    conj (counters_first keys s e m Hok Hasc Hs He Hl)
   (conj (counters_second keys s e m Hok Hasc Hs He Hl)
   (conj (counters_mono keys s e m Hok Hasc Hs He Hl)
   (conj (counters_bounds keys s e m Hok Hasc Hs He Hl)
   (conj (counters_saturate keys s e m Hok Hasc Hs He Hl)
         (counters_step keys s e m Hok Hasc Hs He Hl)))))).
Qed.
Print Assumptions C16_counters_shape.

(** a range of one key (keys in any order): no panic, m0 = the largest int32 (the minimum over no
    pair), and m counters equal to 1 -- one key has one truncation at every width *)
Theorem C16_CountPrefixes_single : forall keys s m,
  keys_ok keys -> 0 <= s -> s < zlen keys -> 1 <= m ->
  exists sb, New keys = Some sb /\ CountPrefixes sb s (s + 1) m = Some (spec_CountPrefixes_single m).
Proof. exact CountPrefixes_single. Qed.
Print Assumptions C16_CountPrefixes_single.

Theorem C16_spec_single_meaning : forall k b, count_trunc k [b] = 1.
Proof. exact count_trunc_single. Qed.
Print Assumptions C16_spec_single_meaning.

(** under the size hypothesis every first-difference bit is a non-negative int32 (so the model's
    unbounded integers and Go's int32 agree on FirstDiffBits and on everything computed from it;
    the counters lie in [1, e-s] by [C16_counters_shape]) *)
Theorem C16_FirstDiffBits_fit_int32 : forall keys, keys_i32 keys ->
  Forall (fun d => 0 <= d <= 2147483647) (spec_FirstDiffBits keys).
Proof. exact FirstDiffBits_fit_int32. Qed.
Print Assumptions C16_FirstDiffBits_fit_int32.

(** for a < b (Go string order) the first-difference bit lies inside b, and unless a ends there it
    is 0 in a and 1 in b -- the bit a trie built from these numbers branches on *)
Theorem C16_spec_first_diff_bit_order : forall a b, bytes_ok a -> bytes_ok b -> bytes_cmp a b = Lt ->
  let d := first_diff_bit a b in
  d < 8 * zlen b /\
  (d = 8 * zlen a \/
   (nth (Z.to_nat d) (msb_bits a) false = false /\ nth (Z.to_nat d) (msb_bits b) false = true)).
Proof. exact first_diff_bit_order. Qed.
Print Assumptions C16_spec_first_diff_bit_order.

Example C16_widening_nonvacuous :
  let keys := [[98]; []; [97; 0]] in
  keys_ok keys /\ (0 <= 1 /\ 1 < zlen keys /\ 1 <= 3) /\
  (exists sb, New keys = Some sb /\ CountPrefixes sb 1 2 3 = Some (2147483647, [1; 1; 1])) /\
  spec_CountPrefixes_single 3 = (2147483647, [1; 1; 1]) /\
  sFirstDiffBit [97;97;97;97;97;97;97;97;97] [97;97;97;97;97;97;97;97;97;0] = Some 72 /\
  get64Bits [1; 2] = 0x0102000000000000.
Proof.
  cbv zeta. split; [apply keys_okb_ok; reflexivity|].
  split; [vm_compute; intuition congruence|].
  split; [eexists; split; [vm_compute; reflexivity|vm_compute; reflexivity]|].
  vm_compute. intuition congruence.
Qed.

(** * The same functions with Go's int32 arithmetic explicit (Model/Sigbits32.v: an [i32] wrap at
      [int32(first)], [int32(minl)], [maxitem-1], [d -= min], [counts[d]++], [rst[i]+counts[i]],
      [keyEnd-1]): under Go's own limits (bit positions, number of keys and m are int32 values)
      nothing wraps and the two C16 statements hold of that model as well *)
Theorem C16_FirstDiffBits_int32 : forall keys,
  keys <> [] -> keys_ok keys -> keys_i32 keys -> FirstDiffBits32 keys = Some (spec_FirstDiffBits keys).
Proof. exact FirstDiffBits32_exact. Qed.
Print Assumptions C16_FirstDiffBits_int32.

Theorem C16_CountPrefixes_int32 : forall keys s e m,
  keys_ok keys -> strict_asc keys -> keys_i32 keys -> zlen keys <= 2147483647 ->
  0 <= s -> s + 2 <= e -> e <= zlen keys -> 1 <= m <= 2147483647 ->
  exists sb, New32 keys = Some sb /\ CountPrefixes32 sb s e m = Some (spec_CountPrefixes keys s e m).
Proof. exact CountPrefixes32_exact. Qed.
Print Assumptions C16_CountPrefixes_int32.

Example C16_int32_nonvacuous :
  let keys := [[]; [97]; [97;0]; [97;97;97;97;97;97;97;97;97;0]; [97;97;97;97;97;97;97;97;97;1]; [98]] in
  keys_ok keys /\ strict_asc keys /\ keys_i32 keys /\
  FirstDiffBits32 keys = Some [0; 8; 9; 79; 6] /\
  (exists sb, New32 keys = Some sb /\ CountPrefixes32 sb 1 6 9 = Some (6, [1; 2; 2; 3; 4; 4; 4; 4; 4])).
Proof.
  cbv zeta.
  split; [apply keys_okb_ok; reflexivity|].
  split; [apply strict_ascb_ok; reflexivity|].
  split; [repeat constructor; vm_compute; discriminate|].
  split; [vm_compute; reflexivity|].
  eexists; split; [vm_compute; reflexivity|vm_compute; reflexivity].
Qed.

(** * One SigBits object, any sequence of queries (Model/SigbitsQueries.v): repeated, overlapping or
      nested ranges in any order -- every answer is the specification's, i.e. the one a fresh
      object would give; unbounded in the number of queries *)
Theorem C16_queries : forall keys qs,
  keys <> [] -> keys_ok keys -> strict_asc keys -> keys_i32 keys -> Forall (query_ok keys) qs ->
  exists sb, New keys = Some sb /\ run_queries sb qs = Some (spec_queries keys qs).
Proof. exact queries_exact. Qed.
Print Assumptions C16_queries.

(** the linear oracle used for key sets of more than a thousand keys (op
    sigbits.CountPrefixes/counter-big) is the naive specification on the property's domain *)
Theorem C16_spec_fast_agrees : forall keys s e m,
  keys_ok keys -> strict_asc keys -> 0 <= s -> s + 1 <= e -> e <= zlen keys ->
  spec_CountPrefixes_fast keys s e m = spec_CountPrefixes keys s e m.
Proof. exact spec_CountPrefixes_fast_agrees. Qed.
Print Assumptions C16_spec_fast_agrees.

(** the key family of the large-set operations (prefix + w-byte big-endian counter c0 .. c0+n-1)
    lies in the domain of [C16_CountPrefixes] for every size n: the hypotheses of that theorem are
    satisfiable by key sets of any length *)
Theorem C16_counter_keys_domain : forall p w c0 n,
  bytes_ok p -> 0 <= w -> 0 <= c0 -> 0 <= n -> c0 + n <= 256 ^ w ->
  keys_ok (counter_keys p w c0 n) /\ strict_asc (counter_keys p w c0 n) /\ zlen (counter_keys p w c0 n) = n.
Proof. exact counter_keys_domain. Qed.
Print Assumptions C16_counter_keys_domain.

Example C16_queries_nonvacuous :
  let keys := [[107;0;254]; [107;0;255]; [107;1;0]; [107;1;1]; [107;1;2]] in
  counter_keys [107] 2 254 5 = keys /\
  keys <> [] /\ keys_ok keys /\ strict_asc keys /\ keys_i32 keys /\
  Forall (query_ok keys) [(1, 4, 3); (1, 4, 3); (0, 5, 11); (2, 5, 2)] /\
  (exists sb, New keys = Some sb /\
     run_queries sb [(1, 4, 3); (1, 4, 3); (0, 5, 11); (2, 5, 2)] =
     Some [(15, [1; 2; 2]); (15, [1; 2; 2]); (15, [1; 2; 2; 2; 2; 2; 2; 2; 3; 5; 5]); (22, [1; 2])]) /\
  spec_CountPrefixes_fast keys 0 5 11 = (15, [1; 2; 2; 2; 2; 2; 2; 2; 3; 5; 5]).
Proof.
  cbv zeta.
  split; [vm_compute; reflexivity|].
  split; [discriminate|].
  split; [apply keys_okb_ok; reflexivity|].
  split; [apply strict_ascb_ok; reflexivity|].
  split; [repeat constructor; vm_compute; discriminate|].
  split; [repeat (apply Forall_cons || apply Forall_nil); vm_compute; intuition discriminate|].
  split; [eexists; split; [vm_compute; reflexivity|vm_compute; reflexivity]|].
  vm_compute. reflexivity.
Qed.

(** * A cross-function session on ONE key slice and ONE SigBits built from it (Model/SigbitsQueries.v):
      CountPrefixes queries interleaved with ShardByPrefix(keys, maxSize) and FirstDiffBits(keys), any
      number of steps in any order: no step panics, every CountPrefixes answer is the specification's and
      FirstDiffBits still returns the adjacent common prefixes (what ShardByPrefix returns is C17) *)
Theorem C16_session : forall keys steps,
  keys <> [] -> keys_ok keys -> strict_asc keys -> keys_i32 keys -> Forall (step_ok keys) steps ->
  exists sb, New keys = Some sb /\
             run_session keys sb steps = Some (spec_session keys (map spec_of_step steps)).
Proof. exact session_exact. Qed.
Print Assumptions C16_session.

(** the model is pure, so the literal loop "ask the same question n+1 times, keep the last answer"
    ([repeat_last]) is one call: this is why a repeated block [QRepeat n s e m] of a session is
    evaluated once, for any n (65536, 2^17, ...) *)
Theorem C16_repeat_once : forall n sb s e m, repeat_last n sb s e m = CountPrefixes sb s e m.
Proof. exact repeat_last_once. Qed.
Print Assumptions C16_repeat_once.

Example C16_session_nonvacuous :
  let keys := [[97]; [97;98;97]; [98;128]] in
  let steps := [QCount 0 3 9; QShard 1; QFdb; QRepeat 65536 0 2 1; QCount 0 3 9] in
  keys <> [] /\ keys_ok keys /\ strict_asc keys /\ keys_i32 keys /\ Forall (step_ok keys) steps /\
  (exists sb, New keys = Some sb /\
     run_session keys sb steps =
     Some [(6, [1;2;2;3;3;3;3;3;3]); (0, []); (0, [8; 6]); (8, [1]); (6, [1;2;2;3;3;3;3;3;3])]).
Proof.
  cbv zeta.
  split; [discriminate|].
  split; [apply keys_okb_ok; reflexivity|].
  split; [apply strict_ascb_ok; reflexivity|].
  split; [repeat constructor; vm_compute; discriminate|].
  split; [repeat (apply Forall_cons || apply Forall_nil); vm_compute; intuition discriminate|].
  eexists; split; [vm_compute; reflexivity|vm_compute; reflexivity].
Qed.
