(** C16 — sigbits: first-difference bits and prefix counts match the keys' bit strings.
    Only the property theorems (each closed by [exact]), their axiom audit and
    non-vacuity examples.  [first_diff_bit a b] is the length of the longest
    common prefix of the two keys' bit strings ([msb_bits]: most significant bit
    of each byte first). *)
From Coq Require Import ZArith List Bool.
From Low Require Import Lib.Bits Lib.BitSeq Lib.Lex Lib.Bytes Model.Sigbits Spec.SigbitsSpec
  Proofs.SigbitsFirstDiff Proofs.SigbitsCountPrefixes Proofs.SigbitsMeaning.
Import ListNotations.
Open Scope Z_scope.

(** FirstDiffBits(keys), keys non-empty = for each adjacent pair the length of the
    longest common prefix of their bit strings; it never panics.  Unbounded in the
    number and the lengths of the keys (the model's ints are [Z]; Go's int32 agrees
    while 8*len(key) < 2^31). *)
Theorem C16_FirstDiffBits : forall keys,
  keys <> [] -> keys_ok keys -> FirstDiffBits keys = Some (spec_FirstDiffBits keys).
Proof. exact FirstDiffBits_exact. Qed.
Print Assumptions C16_FirstDiffBits.

(** the specification value in the words of the property: the bits before position d agree and bit d
    is the first at which the keys differ, unless a key ends there (d = 8*min(len)) *)
Theorem C16_spec_first_diff_bit_meaning : forall a b,
  let d := first_diff_bit a b in
  0 <= d <= 8 * Z.min (zlen a) (zlen b) /\
  firstn (Z.to_nat d) (msb_bits a) = firstn (Z.to_nat d) (msb_bits b) /\
  (d < 8 * Z.min (zlen a) (zlen b) ->
   nth (Z.to_nat d) (msb_bits a) false <> nth (Z.to_nat d) (msb_bits b) false).
Proof. exact first_diff_bit_meaning. Qed.
Print Assumptions C16_spec_first_diff_bit_meaning.

(** ... and it is 8*min(len) exactly when one key is a byte-prefix of the other *)
Theorem C16_spec_first_diff_bit_prefix : forall a b, bytes_ok a -> bytes_ok b ->
  first_diff_bit a b = 8 * Z.min (zlen a) (zlen b) <->
  (firstn (length a) b = a \/ firstn (length b) a = b).
Proof. exact first_diff_bit_prefix. Qed.
Print Assumptions C16_spec_first_diff_bit_prefix.

(** non-vacuity: a shared prefix of 9 bytes (crosses the 8-byte chunking), a key followed by
    itself + NUL, the empty key *)
Example C16_FirstDiffBits_nonvacuous :
  let keys := [[]; [97;97;97;97;97;97;97;97;97]; [97;97;97;97;97;97;97;97;97;0]; [97;97;97;97;97;97;97;97;97;1]] in
  keys <> [] /\ keys_okb keys = true /\
  FirstDiffBits keys = Some [0; 72; 79] /\ spec_FirstDiffBits keys = [0; 72; 79].
Proof. split; [discriminate|]. vm_compute. intuition congruence. Qed.

(** New(keys).CountPrefixes(s, e, m) for strictly ascending keys (Go string order), a range of at
    least two keys and m >= 1: it does not panic and returns [spec_CountPrefixes keys s e m] =
    (the smallest first-difference bit m0 within keys[s:e], the m counters whose i-th is the number
    of distinct (m0+i)-bit truncations of the bit strings of keys[s:e], a shorter key counting as
    itself).  Unbounded in the number and lengths of keys, in the range and in m; [keys_i32] is Go's
    own int32 range for bit positions (8*len(key) <= 2^31-1). *)
Theorem C16_CountPrefixes : forall keys s e m,
  keys_ok keys -> strict_asc keys -> keys_i32 keys ->
  0 <= s -> s + 2 <= e -> e <= zlen keys -> 1 <= m ->
  exists sb, New keys = Some sb /\ sb_keys sb = keys /\ sb_sigbits sb = spec_FirstDiffBits keys /\
             CountPrefixes sb s e m = Some (spec_CountPrefixes keys s e m).
Proof. exact CountPrefixes_exact. Qed.
Print Assumptions C16_CountPrefixes.

(** the unexported worker on the first differences of any sub-range *)
Theorem C16_countPrefixes_sub : forall keys s e m,
  keys_ok keys -> strict_asc keys -> keys_i32 keys ->
  0 <= s -> s + 2 <= e -> e <= zlen keys -> 1 <= m ->
  countPrefixes (spec_FirstDiffBits (sub_keys keys s e)) m = Some (spec_CountPrefixes keys s e m).
Proof. exact countPrefixes_sub_exact. Qed.
Print Assumptions C16_countPrefixes_sub.

(** the specification value read clause by clause, in the words of the property: m0 is the minimum of
    the first-difference bits of keys[s:e]; there are m counters; the i-th is the number of distinct
    (m0+i)-bit truncations ([nodup] = distinct values, [firstn] keeps a shorter bit string whole) *)
Theorem C16_spec_CountPrefixes_meaning : forall keys s e m, 0 <= m ->
  let ks := sub_keys keys s e in
  let m0 := fst (spec_CountPrefixes keys s e m) in
  let cs := snd (spec_CountPrefixes keys s e m) in
  m0 = list_min (spec_FirstDiffBits ks) /\
  zlen cs = m /\
  forall i, (i < Z.to_nat m)%nat ->
    nth i cs 0 = zlen (nodup bits_eq_dec (map (fun k => firstn (Z.to_nat (m0 + Z.of_nat i)) (msb_bits k)) ks)).
Proof. exact spec_CountPrefixes_meaning. Qed.
Print Assumptions C16_spec_CountPrefixes_meaning.

(** [list_min] of a non-empty list is its least element *)
Theorem C16_spec_min_meaning : forall ds, ds <> [] ->
  In (list_min ds) ds /\ forall d, In d ds -> list_min ds <= d.
Proof. exact list_min_meaning. Qed.
Print Assumptions C16_spec_min_meaning.

(** non-vacuity: 5 ascending keys incl. the empty key, a key followed by itself + NUL and a shared
    prefix of 9 bytes; a sub-range not starting at 0; m = 9 counters *)
Example C16_CountPrefixes_nonvacuous :
  let keys := [[]; [97]; [97;0]; [97;97;97;97;97;97;97;97;97;0]; [97;97;97;97;97;97;97;97;97;1]; [98]] in
  keys_ok keys /\ strict_asc keys /\ keys_i32 keys /\ (0 <= 1 /\ 1 + 2 <= 6 /\ 6 <= zlen keys /\ 1 <= 9) /\
  (exists sb, New keys = Some sb /\ CountPrefixes sb 1 6 9 = Some (6, [1; 2; 2; 3; 4; 4; 4; 4; 4])) /\
  spec_CountPrefixes keys 1 6 9 = (6, [1; 2; 2; 3; 4; 4; 4; 4; 4]).
Proof.
  cbv zeta.
  split; [apply keys_okb_ok; reflexivity|].
  split; [apply strict_ascb_ok; reflexivity|].
  split; [repeat constructor; vm_compute; discriminate|].
  split; [vm_compute; intuition congruence|].
  split; [eexists; split; vm_compute; reflexivity|].
  vm_compute. reflexivity.
Qed.
