(** C04 — AllPaths and Decode enumerate exactly the stored nodes, in order.
    Only the property theorems (each closed by [exact]), their axiom audit and
    non-vacuity examples.  [1 <= T < 2^31] is the int32 range of bitmapSize
    (height <= 30), [from], [to] range over all of uint64. *)
From Coq Require Import ZArith List Bool Lia Sorting.Sorted.
From Low Require Import Lib.Bits Lib.BitSeq Lib.Val Lib.SortedZ_tree4 Spec.Bmtree Spec.AllPathsSpec Spec.OfSpec
  Spec.FromStr32Spec Model.BmtreePath Model.BmtreeIndex Model.BmtreeAllPaths Model.BitmapOf Model.FromStr32 Lib.Lex Lib.Bytes
  Proofs.BmtreeAllPathsProofs Proofs.BmtreeDecodeProofs Proofs.BmtreeWinProofs Proofs.BmtreeAllPathsLaws Proofs.BmtreeDecodeDebugProofs Proofs.BmtreeC04Checkers Proofs.BmtreeKeysRoundTrip Proofs.BmtreeSubtree_c04 Proofs.BmtreeDecodeFast Run.C04.
Import ListNotations.
Open Scope Z_scope.

(** AllPaths(T, from, to) = the path words of the stored nodes, in pre-order, with from <= w < to
    (no bound on the window: the loops of the model are followed for any number of search values) *)
Theorem C04_allpaths : forall T from to, 1 <= T < 2 ^ 31 -> 0 <= from < 2 ^ 64 -> 0 <= to < 2 ^ 64 ->
  AllPaths T from to =
  Some (filter (fun w => (from <=? w) && (w <? to)) (map (enc (Z.to_nat (Height T))) (stored_nodes T (Z.to_nat (Height T))))).
Proof. exact allpaths_correct. Qed.
Print Assumptions C04_allpaths.

(** exact membership: the well-formed words of nodes on stored levels inside the window *)
Theorem C04_allpaths_members : forall T from to l, 1 <= T < 2 ^ 31 -> 0 <= from < 2 ^ 64 -> 0 <= to < 2 ^ 64 ->
  AllPaths T from to = Some l ->
  forall w, In w l <->
    from <= w < to /\
    exists q, (length q <= Z.to_nat (Height T))%nat /\ stored T q = true /\ w = enc (Z.to_nat (Height T)) q.
Proof. exact allpaths_members. Qed.
Print Assumptions C04_allpaths_members.

(** strictly ascending, hence duplicate-free *)
Theorem C04_allpaths_ascending : forall T from to l, 1 <= T < 2 ^ 31 -> 0 <= from < 2 ^ 64 -> 0 <= to < 2 ^ 64 ->
  AllPaths T from to = Some l -> sasc l /\ NoDup l.
Proof. exact allpaths_ascending. Qed.
Print Assumptions C04_allpaths_ascending.

(** T = 0b1110010 (levels 1, 4, 5, 6 of a tree of height 6), a window that starts off a path
    (the word 0x2000000020 of level 1 is skipped) and ends before 0x240000003c (early exit): 7 words *)
Example C04_allpaths_nonvacuous :
  AllPaths 114 0x2000000021 0x2400000030 =
  Some [0x200000003c; 0x200000003e; 0x200000003f; 0x210000003f; 0x220000003e; 0x220000003f; 0x230000003f]
  /\ (1 <= 114 < 2 ^ 31).
Proof. split; [vm_compute; reflexivity|lia]. Qed.

(** Decode(T, bm) = the stored words, in pre-order, whose PathToIndex bit is 1 in bm; a word index
    beyond len(bm) reads as 0 ([nth _ _ false]); bitmaps shorter or longer than T bits.
    [zlen bm < 2^31] is Go's own range of [int32(len(bm))]. *)
Theorem C04_decode : forall T bm, 1 <= T < 2 ^ 31 -> zlen bm < 2 ^ 31 ->
  Decode T bm =
  Some (filter (fun w => match PathToIndex T w with
                         | Some idx => nth (Z.to_nat idx) (flat bm) false
                         | None => false end)
               (map (enc (Z.to_nat (Height T))) (stored_nodes T (Z.to_nat (Height T))))).
Proof. exact decode_by_index. Qed.
Print Assumptions C04_decode.

(** the same by position: the k-th stored node in pre-order is returned iff bit k of bm is 1 (with C03) *)
Theorem C04_decode_positions : forall T bm, 1 <= T < 2 ^ 31 -> zlen bm < 2 ^ 31 ->
  Decode T bm =
  Some (select_by (flat bm) 0 (map (enc (Z.to_nat (Height T))) (stored_nodes T (Z.to_nat (Height T))))).
Proof. exact decode_correct. Qed.
Print Assumptions C04_decode_positions.

(** bits at or beyond T are ignored *)
Theorem C04_decode_ignores_beyond : forall T bm, 1 <= T < 2 ^ 31 -> zlen bm < 2 ^ 31 ->
  Decode T bm =
  Some (select_by (firstn (Z.to_nat T) (flat bm)) 0
          (map (enc (Z.to_nat (Height T))) (stored_nodes T (Z.to_nat (Height T))))).
Proof. exact decode_ignores_beyond. Qed.
Print Assumptions C04_decode_ignores_beyond.

(** round trip: for every sub-list ss of the stored nodes (in pre-order), every PathToIndex is defined,
    Of(indices) does not panic and Decode returns exactly the words of ss *)
Theorem C04_roundtrip : forall T ss, 1 <= T < 2 ^ 31 ->
  StronglySorted pre_lt ss /\ (forall q, In q ss -> (length q <= Z.to_nat (Height T))%nat /\ stored T q = true) ->
  exists idxs bm,
    map (fun q => PathToIndex T (enc (Z.to_nat (Height T)) q)) ss = map Some idxs /\
    Of idxs None = Some bm /\
    Decode T bm = Some (map (enc (Z.to_nat (Height T))) ss).
Proof. exact roundtrip_total. Qed.
Print Assumptions C04_roundtrip.

(** ... in particular for every subset of the stored nodes, given as a filter *)
Theorem C04_roundtrip_subset : forall T (f : node -> bool), 1 <= T < 2 ^ 31 ->
  let h := Z.to_nat (Height T) in
  let ss := filter f (stored_nodes T h) in
  exists idxs bm,
    map (fun q => PathToIndex T (enc h q)) ss = map Some idxs /\
    Of idxs None = Some bm /\ Decode T bm = Some (map (enc h) ss).
Proof. exact roundtrip_filter. Qed.
Print Assumptions C04_roundtrip_subset.

(** T = 0b1110010: 114 stored nodes; a 3-word bitmap (one more word than needed) with bits 0, 1, 113
    and bits beyond T: three words come back *)
Example C04_decode_nonvacuous :
  Decode 114 [3; 2 ^ 49 + 2 ^ 50; 1] = Some [0x20; 0x3c; 0x3f0000003f]
  /\ (1 <= 114 < 2 ^ 31) /\ zlen [3; 2 ^ 49 + 2 ^ 50; 1] < 2 ^ 31.
Proof. split; [vm_compute; reflexivity|]. split; [lia|reflexivity]. Qed.

(** T = 7 (full tree of height 2), ss = root, 01, 1 *)
Example C04_roundtrip_nonvacuous :
  let ss := [[]; [false; true]; [true]] in
  map (fun q => PathToIndex 7 (enc 2 q)) ss = map Some [0; 3; 4] /\
  Of [0; 3; 4] None = Some [25] /\
  Decode 7 [25] = Some (map (enc 2) ss) /\ map (enc 2) ss = [0; 0x100000003; 0x200000002] /\
  ss = filter (fun q => match q with [] | [true] | [false; true] => true | _ => false end) (stored_nodes 7 2).
Proof. vm_compute. repeat split; reflexivity. Qed.

(** * the checker of the correspondence run is the specification
    (on heights > 10 ./check evaluates the pruned enumeration [spec_allpaths_win]) *)
Theorem C04_checker : forall T h from to, (h <= 32)%nat ->
  check_allpaths T h from to =
  filter (fun w => (from <=? w) && (w <? to)) (map (enc h) (stored_nodes T h)).
Proof. exact check_allpaths_eq. Qed.
Print Assumptions C04_checker.

(** * widening: laws of AllPaths / PathToIndex / Decode / Of that users combine *)

(** adjacent windows concatenate (sharding a key range by path words loses and duplicates nothing) *)
Theorem C04_windows_concat : forall T a b c l1 l2, 1 <= T < 2 ^ 31 -> 0 <= a -> a <= b <= c -> c < 2 ^ 64 ->
  AllPaths T a b = Some l1 -> AllPaths T b c = Some l2 -> AllPaths T a c = Some (l1 ++ l2).
Proof. exact allpaths_split. Qed.
Print Assumptions C04_windows_concat.

(** the PathToIndex values of the words of any window are consecutive integers, starting at the
    number of stored words below [from] *)
Theorem C04_index_run : forall T from to l, 1 <= T < 2 ^ 31 -> 0 <= from < 2 ^ 64 -> 0 <= to < 2 ^ 64 ->
  AllPaths T from to = Some l ->
  map (PathToIndex T) l =
  map (fun k => Some (Z.of_nat k))
      (seq (length (filter (fun w => w <? from)
                      (map (enc (Z.to_nat (Height T))) (stored_nodes T (Z.to_nat (Height T))))))
           (length l)).
Proof. exact allpaths_index_exact. Qed.
Print Assumptions C04_index_run.

(** the whole range (Decode's own call uses to = 1<<63) enumerates the indices 0 .. T-1 *)
Theorem C04_index_all : forall T to, 1 <= T < 2 ^ 31 -> 2 ^ 63 <= to < 2 ^ 64 ->
  exists l, AllPaths T 0 to = Some l /\
            map (PathToIndex T) l = map (fun k => Some (Z.of_nat k)) (seq 0 (Z.to_nat T)).
Proof. exact allpaths_index_all. Qed.
Print Assumptions C04_index_all.

(** Decode, then re-encode: the indices of the decoded words are the 1-bits of bm below T, Of of them
    does not panic and has exactly those 1-bits *)
Theorem C04_decode_reencode : forall T bm, 1 <= T < 2 ^ 31 -> zlen bm < 2 ^ 31 ->
  exists l idxs r,
    Decode T bm = Some l /\
    map (PathToIndex T) l = map Some idxs /\
    idxs = filter (fun p => p <? T) (ones (flat bm)) /\
    Of idxs None = Some r /\ ones (flat r) = idxs /\ zlen r = words_for (of_bits idxs None).
Proof. exact decode_reencode. Qed.
Print Assumptions C04_decode_reencode.

Example C04_windows_nonvacuous :
  AllPaths 114 0x2000000021 0x210000003f = Some [0x200000003c; 0x200000003e; 0x200000003f] /\
  AllPaths 114 0x210000003f 0x2400000030 = Some [0x210000003f; 0x220000003e; 0x220000003f; 0x230000003f] /\
  map (PathToIndex 114) [0x200000003c; 0x200000003e; 0x200000003f] = map Some [58; 59; 60].
Proof. vm_compute. repeat split; reflexivity. Qed.

Example C04_reencode_nonvacuous :
  Decode 114 [3; 2 ^ 49 + 2 ^ 50; 1] = Some [0x20; 0x3c; 0x3f0000003f] /\
  map (PathToIndex 114) [0x20; 0x3c; 0x3f0000003f] = map Some [0; 1; 113] /\
  Of [0; 1; 113] None = Some [3; 2 ^ 49].
Proof. vm_compute. repeat split; reflexivity. Qed.

(** * the [-tags debug] build (github.com/openacid/must active) *)

(** no contract of PathToIndex fires on a word returned by AllPaths ... *)
Theorem C04_debug_words : forall T from to l w, 1 <= T < 2 ^ 31 -> 0 <= from < 2 ^ 64 -> 0 <= to < 2 ^ 64 ->
  AllPaths T from to = Some l -> In w l -> PathToIndex_debug T w = PathToIndex T w.
Proof. exact allpaths_words_debug. Qed.
Print Assumptions C04_debug_words.

(** ... so Decode behaves exactly as in the release build, for every bitmap *)
Theorem C04_decode_debug : forall T bm, 1 <= T < 2 ^ 31 -> Decode_debug T bm = Decode T bm.
Proof. exact decode_debug_eq. Qed.
Print Assumptions C04_decode_debug.

Example C04_debug_nonvacuous :
  Decode_debug 114 [3; 2 ^ 49 + 2 ^ 50; 1] = Some [0x20; 0x3c; 0x3f0000003f] /\
  PathToIndex_debug 114 0x3f0000003f = Some 113 /\ PathToIndex_debug 114 0x3f0000003e = None.
Proof. vm_compute. repeat split; reflexivity. Qed.

(** enumerating a sub-tree: the window from the word of q to the word of the right-most leaf below q
    (inclusive) holds exactly the stored nodes that have q as a prefix, in pre-order *)
Theorem C04_subtree : forall T q, 1 <= T < 2 ^ 31 -> (length q <= Z.to_nat (Height T))%nat ->
  let h := Z.to_nat (Height T) in
  AllPaths T (enc h q) (enc h (q ++ repeat true (h - length q)) + 1) =
  Some (map (enc h) (filter (stored T) (map (app q) (all_nodes (h - length q))))).
Proof. exact allpaths_subtree. Qed.
Print Assumptions C04_subtree.

Example C04_subtree_nonvacuous :
  AllPaths 114 (enc 6 [true; false]) (enc 6 [true; false; true; true; true; true] + 1) =
  Some (map (enc 6) (filter (stored 114) (map (app [true; false]) (all_nodes 4)))) /\
  length (filter (stored 114) (map (app [true; false]) (all_nodes 4))) = 28%nat.
Proof. vm_compute. split; reflexivity. Qed.

(** * across C11, C03, C12: a trie node written and read back.
    keys --PathsOf(dedup)--> path words --PathToIndex--> bit positions --Of--> bitmap --Decode--> the same
    path words, for keys in Go's string order that share their first [from] bits and whose path
    lengths clamp(8|s| - from, 0, h) are stored levels of T; nothing panics on the way *)
Theorem C04_keys_roundtrip : forall T keys from p, 1 <= T < 2 ^ 31 ->
  Forall (fun s => bytes_ok s /\ 8 * zlen s < 2 ^ 31) keys ->
  0 <= from -> from + Height T + 7 < 2 ^ 31 ->
  Forall (fun s => firstn (Z.to_nat from) (msb_bits s) = p) keys ->
  Sorted (fun a b => bytes_cmp a b <> Gt) keys ->
  (forall s, In s keys -> Z.testbit T (clamp (8 * zlen s - from) 0 (Height T)) = true) ->
  exists ps idxs bm,
    PathsOf keys from (Height T) true = Some ps /\
    map (PathToIndex T) ps = map Some idxs /\
    Of idxs None = Some bm /\
    Decode T bm = Some ps.
Proof. exact keys_roundtrip. Qed.
Print Assumptions C04_keys_roundtrip.

(** keys "a", "ab", "ab", "b" (0x61, 0x6162, 0x62) from bit 3, height 6 with levels 5 and 6 stored:
    "a" and "b" end on level 5, "ab" reaches the leaf level; the duplicate is dropped *)
Example C04_keys_nonvacuous :
  PathsOf [[0x61]; [0x61; 0x62]; [0x61; 0x62]; [0x62]] 3 6 true = Some [0x20000003e; 0x20000003f; 0x40000003e] /\
  map (PathToIndex 96) [0x20000003e; 0x20000003f; 0x40000003e] = map Some [3; 4; 6] /\
  Of [3; 4; 6] None = Some [88] /\ Decode 96 [88] = Some [0x20000003e; 0x20000003f; 0x40000003e] /\ Height 96 = 6.
Proof. vm_compute. repeat split; reflexivity. Qed.

(** * the linear-time evaluator used by the correspondence run on trees higher than 10
    (one word per 1-bit of the bitmap, found by descending the tree) is the model, in both builds,
    and the Decode checker is the specification *)
Theorem C04_decode_fast : forall T bm, 1 <= T < 2 ^ 31 -> zlen bm < 2 ^ 31 ->
  Decode T bm = Some (fast_decode T (Z.to_nat (Height T)) bm) /\
  Decode_debug T bm = Some (fast_decode T (Z.to_nat (Height T)) bm).
Proof. exact (fun T bm HT Hl => conj (decode_fast T bm HT Hl) (decode_debug_fast T bm HT Hl)). Qed.
Print Assumptions C04_decode_fast.

Theorem C04_nth_word : forall h T k, 0 <= T < 2 ^ (Z.of_nat h + 1) -> 0 <= k < T ->
  nth (Z.to_nat k) (map (enc h) (stored_nodes T h)) 0 = nth_word h T k.
Proof. exact nth_word_spec. Qed.
Print Assumptions C04_nth_word.

Theorem C04_checker_decode : forall T bm, 1 <= T < 2 ^ 31 ->
  check_decode T (Z.to_nat (Height T)) bm =
  select_by (flat bm) 0 (map (enc (Z.to_nat (Height T))) (stored_nodes T (Z.to_nat (Height T)))).
Proof. exact check_decode_eq. Qed.
Print Assumptions C04_checker_decode.

Example C04_decode_fast_nonvacuous :
  fast_decode 114 6 [3; 2 ^ 49 + 2 ^ 50; 1] = [0x20; 0x3c; 0x3f0000003f] /\
  Decode 114 [3; 2 ^ 49 + 2 ^ 50; 1] = Some [0x20; 0x3c; 0x3f0000003f] /\ Height 114 = 6.
Proof. vm_compute. repeat split; reflexivity. Qed.

(** * the correspondence run's own formulation (Run/C04.v): on every in-domain case the model side of
    an operation equals its specification side, so a disagreement of the implementation with the model
    is a disagreement with the specification *)
Theorem C04_op_allpaths : forall T f t, c04_T_ok T = true -> c04_u64 f = true -> c04_u64 t = true ->
  c04_win_ok T f t = true ->
  c04_run_allpaths [VZ T; VZ f; VZ t] = c04_spec_allpaths [VZ T; VZ f; VZ t].
Proof. exact c04_op_allpaths. Qed.
Print Assumptions C04_op_allpaths.

Theorem C04_op_decode : forall (dbg : bool) T bm, c04_T_ok T = true -> c04_dec_ok T = true ->
  words_okb bm = true -> zlen bm < 2 ^ 31 ->
  c04_run_decode_b dbg [VZ T; vzs bm] = c04_spec_decode [VZ T; vzs bm].
Proof. exact c04_op_decode. Qed.
Print Assumptions C04_op_decode.

(** the domain check of the round-trip operation is the hypothesis of C04_roundtrip, and its model
    returns the words of the sub-list *)
Theorem C04_op_roundtrip : forall T ss, 1 <= T < 2 ^ 31 -> c04_sub_ok T ss = true ->
  c04_roundtrip false T ss = Some (map (enc (c04_h T)) ss).
Proof. exact c04_roundtrip_model. Qed.
Print Assumptions C04_op_roundtrip.
