(** C04 — AllPaths and Decode enumerate exactly the stored nodes, in order.
    Only the property theorems (each closed by [exact]), their axiom audit and
    non-vacuity examples.  [1 <= T < 2^31] is the int32 range of bitmapSize
    (height <= 30), [from], [to] range over all of uint64. *)
From Coq Require Import ZArith List Bool Lia.
From Low Require Import Lib.Bits Lib.BitSeq Lib.SortedZ_tree4 Spec.Bmtree Spec.AllPathsSpec
  Model.BmtreePath Model.BmtreeIndex Model.BmtreeAllPaths Proofs.BmtreeAllPathsProofs.
Import ListNotations.
Open Scope Z_scope.

(** AllPaths(T, from, to) = the path words of the stored nodes, in pre-order, with from <= w < to
    (no bound on the window: the loops of the model are followed for any number of search values) *)
Theorem C04_allpaths : forall T from to, 1 <= T < 2 ^ 31 -> 0 <= from < 2 ^ 64 -> 0 <= to < 2 ^ 64 ->
  AllPaths T from to =
  Some (filter (fun w => (from <=? w) && (w <? to)) (map (enc (Z.to_nat (Height T))) (stored_nodes T (Z.to_nat (Height T))))).
Proof. exact allpaths_correct. Qed.
Print Assumptions C04_allpaths.

(** exact membership: the well-formed words of nodes on stored levels inside the window *)
Theorem C04_allpaths_members : forall T from to l, 1 <= T < 2 ^ 31 -> 0 <= from < 2 ^ 64 -> 0 <= to < 2 ^ 64 ->
  AllPaths T from to = Some l ->
  forall w, In w l <->
    from <= w < to /\
    exists q, (length q <= Z.to_nat (Height T))%nat /\ stored T q = true /\ w = enc (Z.to_nat (Height T)) q.
Proof. exact allpaths_members. Qed.
Print Assumptions C04_allpaths_members.

(** strictly ascending, hence duplicate-free *)
Theorem C04_allpaths_ascending : forall T from to l, 1 <= T < 2 ^ 31 -> 0 <= from < 2 ^ 64 -> 0 <= to < 2 ^ 64 ->
  AllPaths T from to = Some l -> sasc l /\ NoDup l.
Proof. exact allpaths_ascending. Qed.
Print Assumptions C04_allpaths_ascending.

(** T = 0b1110010 (levels 1, 4, 5, 6 of a tree of height 6), a window that starts off a path
    (the word 0x2000000020 of level 1 is skipped) and ends before 0x240000003c (early exit): 7 words *)
Example C04_allpaths_nonvacuous :
  AllPaths 114 0x2000000021 0x2400000030 =
  Some [0x200000003c; 0x200000003e; 0x200000003f; 0x210000003f; 0x220000003e; 0x220000003f; 0x230000003f]
  /\ (1 <= 114 < 2 ^ 31).
Proof. split; [vm_compute; reflexivity|lia]. Qed.
