(** Extra Lib-level lemmas used by the C02 (select) proofs: list surgery with
    [skipn]/[nth_error], the list of 1-positions [ones_from] under splitting,
    skipping and masking, "rank of the k-th 1 is k", trailing zeros as the head
    of [ones], clearing the low bits of a word. *)
From Coq Require Import ZArith List Lia Bool.
From Low Require Import Lib.MachInt Lib.Bits Lib.BitSeq.
Import ListNotations.
Open Scope Z_scope.

(** * lists *)
Lemma skipn_nth_cons {A} (l : list A) k x :
  nth_error l k = Some x -> skipn k l = x :: skipn (S k) l.
Proof.
  revert l. induction k as [|k IH]; intros [|y l] H; try discriminate.
  - cbn in H. injection H as ->. reflexivity.
  - cbn [nth_error] in H. rewrite !skipn_cons. apply IH. exact H.
Qed.

Lemma skipn_add {A} a b (l : list A) : skipn a (skipn b l) = skipn (b + a) l.
Proof.
  revert l. induction b as [|b IH]; intros l; [reflexivity|].
  destruct l as [|x l]; [now rewrite !skipn_nil|].
  cbn [Nat.add]. rewrite !skipn_cons. apply IH.
Qed.

Lemma skipn_app_r {A} n (l1 l2 : list A) :
  (length l1 <= n)%nat -> skipn n (l1 ++ l2) = skipn (n - length l1) l2.
Proof. intros H. rewrite skipn_app. rewrite (skipn_all2 l1) by exact H. reflexivity. Qed.

Lemma skipn_app_l {A} n (l1 l2 : list A) :
  (n <= length l1)%nat -> skipn n (l1 ++ l2) = skipn n l1 ++ l2.
Proof.
  intros H. rewrite skipn_app. replace (n - length l1)%nat with 0%nat by lia. reflexivity.
Qed.

Lemma skipn_nonnil_lt {A} n (l : list A) : skipn n l <> [] -> (n < length l)%nat.
Proof.
  intros H. destruct (Nat.lt_ge_cases n (length l)) as [|Hge]; [assumption|].
  exfalso. apply H. now apply skipn_all2.
Qed.

Lemma nth_error_skipn_hd {A} n (l : list A) : nth_error l n = hd_error (skipn n l).
Proof.
  revert l. induction n as [|n IH]; intros [|x l]; try reflexivity.
  cbn [nth_error]. rewrite skipn_cons. apply IH.
Qed.

Lemma nth_error_exists {A} (l : list A) n : (n < length l)%nat -> exists x, nth_error l n = Some x.
Proof.
  intros H. destruct (nth_error l n) eqn:E; [eauto|]. apply nth_error_None in E. lia.
Qed.

Lemma map_all_false {A} (f : A -> bool) l :
  (forall x, In x l -> f x = false) -> map f l = repeat false (length l).
Proof.
  induction l as [|x l IH]; intros H; [reflexivity|].
  cbn [map length repeat]. rewrite H by (now left). f_equal. apply IH. intros y Hy. apply H. now right.
Qed.

(** * ones_from *)
Lemma ones_from_repeat_false q : forall b l,
  ones_from b (repeat false q ++ l) = ones_from (b + Z.of_nat q) l.
Proof.
  induction q as [|q IH]; intros b l.
  - cbn [repeat app]. f_equal. lia.
  - cbn [repeat app ones_from]. rewrite IH. f_equal. lia.
Qed.

Lemma ones_from_all_false q b : ones_from b (repeat false q) = [].
Proof.
  rewrite <- (app_nil_r (repeat false q)). rewrite ones_from_repeat_false. reflexivity.
Qed.

Lemma ones_from_length_nat b l : length (ones_from b l) = Z.to_nat (count_true l).
Proof. rewrite <- (ones_from_length b l). now rewrite Nat2Z.id. Qed.

Lemma ones_from_length_indep b b' l : length (ones_from b l) = length (ones_from b' l).
Proof. now rewrite !ones_from_length_nat. Qed.

(** dropping the 1s of the first [q] bits *)
Lemma ones_from_skipn b q l :
  (q <= length l)%nat ->
  skipn (length (ones_from b (firstn q l))) (ones_from b l) = ones_from (b + Z.of_nat q) (skipn q l).
Proof.
  intros Hq. rewrite <- (firstn_skipn q l) at 2. rewrite ones_from_app.
  rewrite skipn_app_r by lia. rewrite Nat.sub_diag. cbn [skipn].
  rewrite firstn_length_le by exact Hq. reflexivity.
Qed.

(** the [c]-th 1 is at [p]: exactly [c] 1s before [p], and bit [p] is set *)
Lemma ones_from_nth_rank : forall l b c p,
  nth_error (ones_from b l) c = Some p ->
  b <= p /\ length (ones_from b (firstn (Z.to_nat (p - b)) l)) = c /\
  nth_error l (Z.to_nat (p - b)) = Some true.
Proof.
  induction l as [|x l IH]; intros b c p H.
  - cbn [ones_from] in H. destruct c; discriminate.
  - cbn [ones_from] in H. destruct x.
    + destruct c as [|c].
      * cbn in H. injection H as <-. rewrite Z.sub_diag. cbn. repeat split; lia.
      * cbn [nth_error] in H. apply IH in H. destruct H as (Hle & Hc & Hn).
        replace (Z.to_nat (p - b)) with (S (Z.to_nat (p - (b + 1)))) by lia.
        cbn [firstn ones_from length nth_error]. repeat split; [lia| |exact Hn].
        f_equal. exact Hc.
    + apply IH in H. destruct H as (Hle & Hc & Hn).
      replace (Z.to_nat (p - b)) with (S (Z.to_nat (p - (b + 1)))) by lia.
      cbn [firstn ones_from length nth_error]. repeat split; [lia|exact Hc|exact Hn].
Qed.

(** one more bit: the prefix up to and including a set bit has one more 1 *)
Lemma ones_from_firstn_succ b l q :
  nth_error l q = Some true ->
  length (ones_from b (firstn (S q) l)) = S (length (ones_from b (firstn q l))).
Proof.
  intros H. rewrite (firstn_succ_nth q l true H). rewrite ones_from_app, app_length.
  cbn [ones_from length]. lia.
Qed.

(** * clearing the low [q] bits of a word: [w & ^Mask[q]] *)
Definition clear_below (q : Z) (w : Z) : Z := Z.land w (not64 (Mask q)).

Lemma not64_Mask_shiftl q : 0 <= q <= 64 -> not64 (Mask q) = Z.shiftl (Z.ones (64 - q)) q.
Proof.
  intros Hq. unfold not64, Mask. rewrite Z.shiftl_mul_pow2, Z.ones_equiv by lia.
  replace (2 ^ 64) with (2 ^ (64 - q) * 2 ^ q).
  2:{ rewrite <- Z.pow_add_r by lia. f_equal. lia. }
  lia.
Qed.

Lemma testbit_not64_Mask q t : 0 <= q <= 64 -> 0 <= t < 64 ->
  Z.testbit (not64 (Mask q)) t = (q <=? t).
Proof.
  intros Hq Ht. rewrite not64_Mask_shiftl by exact Hq.
  rewrite Z.shiftl_spec by lia. rewrite Z.testbit_ones by lia.
  destruct (Z.leb_spec q t), (Z.leb_spec 0 (t - q)), (Z.ltb_spec (t - q) (64 - q)); cbn; lia.
Qed.

Lemma clear_below_word q w : 0 <= w < 2 ^ 64 -> 0 <= clear_below q w < 2 ^ 64.
Proof.
  intros Hw. unfold clear_below.
  replace (Z.land w (not64 (Mask q))) with (Z.land (Z.land w (not64 (Mask q))) (Z.ones 64)).
  - rewrite Z.land_ones by lia. apply Z.mod_pos_bound. lia.
  - rewrite <- Z.land_assoc, (Z.land_comm (not64 (Mask q))), Z.land_assoc.
    rewrite (Z.land_ones w) by lia. rewrite Z.mod_small by exact Hw. reflexivity.
Qed.

Lemma bits_clear_below (q : nat) w : (q <= 64)%nat ->
  bits 64 (clear_below (Z.of_nat q) w) = repeat false q ++ skipn q (bits 64 w).
Proof.
  intros Hq. unfold bits at 1 2. rewrite skipn_map, skipn_seq.
  replace (seq 0 64) with (seq 0 q ++ seq (0 + q) (64 - q)).
  2:{ rewrite <- seq_app. f_equal. lia. }
  rewrite map_app. f_equal.
  - rewrite map_all_false; [now rewrite seq_length|].
    intros t Ht. apply in_seq in Ht. unfold clear_below.
    rewrite Z.land_spec, testbit_not64_Mask by lia.
    destruct (Z.leb_spec (Z.of_nat q) (Z.of_nat t)); [lia|]. apply andb_false_r.
  - apply map_ext_in. intros t Ht. apply in_seq in Ht. unfold clear_below.
    rewrite Z.land_spec, testbit_not64_Mask by lia.
    destruct (Z.leb_spec (Z.of_nat q) (Z.of_nat t)); [|lia]. apply andb_true_r.
Qed.

(** the 1s of the cleared word are the 1s of the word from bit [q] on *)
Lemma ones_from_clear_below b (q : nat) w : (q <= 64)%nat ->
  ones_from b (bits 64 (clear_below (Z.of_nat q) w)) =
  skipn (length (ones_from b (firstn q (bits 64 w)))) (ones_from b (bits 64 w)).
Proof.
  intros Hq. rewrite bits_clear_below by exact Hq. rewrite ones_from_repeat_false.
  rewrite ones_from_skipn by (rewrite bits_length; exact Hq). reflexivity.
Qed.

Lemma not64_MaskUpto j : not64 (MaskUpto j) = not64 (Mask (j + 1)).
Proof. reflexivity. Qed.

Lemma RMaskUpto_not64 j : RMaskUpto j = not64 (Mask (j + 1)).
Proof. unfold RMaskUpto, not64, Mask. lia. Qed.

(** * bits of 0, trailing zeros as the first 1 *)
Lemma bits_zero n : bits n 0 = repeat false n.
Proof.
  unfold bits. rewrite map_all_false; [now rewrite seq_length|].
  intros; apply Z.bits_0.
Qed.

Lemma ones_from_tz b w : 0 < w < 2 ^ 64 ->
  exists r, ones_from b (bits 64 w) = (b + tz64 w) :: r.
Proof.
  intros Hw. unfold tz64.
  destruct (tz_spec 64 w) as (H0 & H1 & H2); [lia|].
  assert (Hlt : tz 64 w < 64) by (apply tz_lt; lia).
  set (t := Z.to_nat (tz 64 w)).
  assert (Et : tz 64 w = Z.of_nat t) by (unfold t; lia).
  replace 64%nat with (t + S (63 - t))%nat by lia.
  rewrite bits_app, bits_S.
  assert (E1 : bits t w = repeat false t).
  { unfold bits. rewrite map_all_false; [now rewrite seq_length|].
    intros x Hx. apply in_seq in Hx. apply H2. lia. }
  rewrite E1, ones_from_repeat_false.
  assert (E2 : Z.odd (w / 2 ^ Z.of_nat t) = true).
  { rewrite <- Z.bit0_odd, <- Z.shiftr_div_pow2, Z.shiftr_spec by lia.
    rewrite <- Et in *. replace (0 + tz 64 w) with (tz 64 w) by lia. exact H1. }
  rewrite E2. cbn [ones_from]. rewrite <- Et. eauto.
Qed.
