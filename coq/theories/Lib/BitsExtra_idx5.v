(** Bit-level lemmas used by the C05 proofs (IndexToPath): bitwise operations on
    a 64-bit word seen as two 32-bit halves, the bits of [2^e - 2^d], bounds
    from bits, the common-prefix fact behind the shortcut. *)
From Coq Require Import ZArith List Lia Bool.
From Low Require Import Lib.MachInt Lib.Bits Lib.BitsExtra_tree.
Import ListNotations.
Open Scope Z_scope.

(** * bounds from bits *)
Lemma lt_pow2_of_bits x n : 0 <= n -> 0 <= x ->
  (forall m, n <= m -> Z.testbit x m = false) -> x < 2 ^ n.
Proof.
  intros Hn Hx H.
  assert (E : x = x mod 2 ^ n).
  { apply Z.bits_inj'. intros m Hm. destruct (Z.lt_ge_cases m n).
    - now rewrite Z.mod_pow2_bits_low by lia.
    - rewrite Z.mod_pow2_bits_high by lia. now apply H. }
  rewrite E. apply Z.mod_pos_bound. now apply pow2_pos.
Qed.

Lemma lor_bound a b n : 0 <= n -> 0 <= a < 2 ^ n -> 0 <= b < 2 ^ n -> 0 <= Z.lor a b < 2 ^ n.
Proof.
  intros Hn Ha Hb. split; [apply Z.lor_nonneg; lia|].
  apply lt_pow2_of_bits; [lia|apply Z.lor_nonneg; lia|].
  intros m Hm. rewrite Z.lor_spec, (testbit_small a n m), (testbit_small b n m) by lia. reflexivity.
Qed.

Lemma land_bound a b n : 0 <= n -> 0 <= a < 2 ^ n -> 0 <= b -> 0 <= Z.land a b < 2 ^ n.
Proof.
  intros Hn Ha Hb. split; [apply Z.land_nonneg; lia|].
  apply lt_pow2_of_bits; [lia|apply Z.land_nonneg; lia|].
  intros m Hm. rewrite Z.land_spec, (testbit_small a n m) by lia. reflexivity.
Qed.

Lemma lxor_bound a b n : 0 <= n -> 0 <= a < 2 ^ n -> 0 <= b < 2 ^ n -> 0 <= Z.lxor a b < 2 ^ n.
Proof.
  intros Hn Ha Hb. assert (0 <= Z.lxor a b) by (apply Z.lxor_nonneg; lia). split; [assumption|].
  apply lt_pow2_of_bits; [lia|assumption|].
  intros m Hm. rewrite Z.lxor_spec, (testbit_small a n m), (testbit_small b n m) by lia. reflexivity.
Qed.

(** * a word as two halves [hi * 2^k + lo] *)
Lemma lor_halves k h1 l1 h2 l2 : 0 <= k -> 0 <= l1 < 2 ^ k -> 0 <= l2 < 2 ^ k ->
  Z.lor (h1 * 2 ^ k + l1) (h2 * 2 ^ k + l2) = Z.lor h1 h2 * 2 ^ k + Z.lor l1 l2.
Proof.
  intros Hk H1 H2. pose proof (lor_bound l1 l2 k Hk H1 H2).
  apply Z.bits_inj'. intros n Hn.
  rewrite Z.lor_spec, !testbit_hi_lo by lia.
  destruct (n <? k); now rewrite Z.lor_spec.
Qed.

Lemma land_halves k h1 l1 h2 l2 : 0 <= k -> 0 <= l1 < 2 ^ k -> 0 <= l2 < 2 ^ k ->
  Z.land (h1 * 2 ^ k + l1) (h2 * 2 ^ k + l2) = Z.land h1 h2 * 2 ^ k + Z.land l1 l2.
Proof.
  intros Hk H1 H2. assert (0 <= Z.land l1 l2 < 2 ^ k) by (apply land_bound; lia).
  apply Z.bits_inj'. intros n Hn.
  rewrite Z.land_spec, !testbit_hi_lo by lia.
  destruct (n <? k); now rewrite Z.land_spec.
Qed.

Lemma lxor_halves k h1 l1 h2 l2 : 0 <= k -> 0 <= l1 < 2 ^ k -> 0 <= l2 < 2 ^ k ->
  Z.lxor (h1 * 2 ^ k + l1) (h2 * 2 ^ k + l2) = Z.lxor h1 h2 * 2 ^ k + Z.lxor l1 l2.
Proof.
  intros Hk H1 H2. pose proof (lxor_bound l1 l2 k Hk H1 H2).
  apply Z.bits_inj'. intros n Hn.
  rewrite Z.lxor_spec, !testbit_hi_lo by lia.
  destruct (n <? k); now rewrite Z.lxor_spec.
Qed.

(** * the bits of 2^e - 2^d: exactly the positions d .. e-1 *)
Lemma testbit_pow2_diff d e n : 0 <= d <= e -> 0 <= n ->
  Z.testbit (2 ^ e - 2 ^ d) n = (d <=? n) && (n <? e).
Proof.
  intros Hde Hn.
  replace (2 ^ e - 2 ^ d) with (Z.ones (e - d) * 2 ^ d + 0).
  2:{ rewrite Z.ones_equiv, (pow2_split e d) by lia. lia. }
  rewrite testbit_hi_lo by (try lia; pose proof (pow2_pos d); lia).
  destruct (Z.ltb_spec n d), (Z.leb_spec d n); try lia.
  - apply Z.bits_0.
  - rewrite Z.testbit_ones_nonneg by lia. cbn [andb].
    destruct (Z.ltb_spec (n - d) (e - d)), (Z.ltb_spec n e); try lia; reflexivity.
Qed.

(** keeping the bits d .. e-1 of x < 2^e *)
Lemma land_pow2_diff x d e : 0 <= d <= e -> 0 <= x < 2 ^ e ->
  Z.land x (2 ^ e - 2 ^ d) = x / 2 ^ d * 2 ^ d.
Proof.
  intros Hde Hx. pose proof (pow2_pos d).
  apply Z.bits_inj'. intros n Hn.
  rewrite Z.land_spec, testbit_pow2_diff by lia.
  replace (x / 2 ^ d * 2 ^ d) with (x / 2 ^ d * 2 ^ d + 0) by lia.
  rewrite testbit_hi_lo by lia.
  destruct (Z.ltb_spec n d), (Z.leb_spec d n); try lia; cbn [andb].
  - rewrite Z.bits_0. apply andb_false_r.
  - rewrite Z.div_pow2_bits by lia. replace (n - d + d) with n by lia.
    destruct (Z.ltb_spec n e); [apply andb_true_r|].
    rewrite (testbit_small x e n) by lia. reflexivity.
Qed.

(** dropping the bits d .. e-1 of x < 2^e, with the complement written as -1 - m *)
Lemma land_compl_pow2_diff x d e : 0 <= d <= e -> 0 <= x < 2 ^ e ->
  Z.land x (-1 - (2 ^ e - 2 ^ d)) = x mod 2 ^ d.
Proof.
  intros Hde Hx.
  replace (-1 - (2 ^ e - 2 ^ d)) with (Z.lnot (2 ^ e - 2 ^ d)) by (unfold Z.lnot; lia).
  apply Z.bits_inj'. intros n Hn.
  rewrite Z.land_spec, Z.lnot_spec, testbit_pow2_diff by lia.
  destruct (Z.ltb_spec n d), (Z.leb_spec d n); try lia; cbn [andb negb].
  - rewrite Z.mod_pow2_bits_low by lia. apply andb_true_r.
  - rewrite Z.mod_pow2_bits_high by lia.
    destruct (Z.ltb_spec n e); cbn [negb]; [apply andb_false_r|].
    rewrite (testbit_small x e n) by lia. reflexivity.
Qed.

(** one bit of x < 2^(c+1) *)
Lemma testbit_top x c : 0 <= c -> 0 <= x < 2 ^ (c + 1) -> Z.testbit x c = (2 ^ c <=? x).
Proof.
  intros Hc Hx. rewrite pow2_succ in Hx by lia. pose proof (pow2_pos c Hc).
  destruct (Z.leb_spec (2 ^ c) x).
  - replace x with (1 * 2 ^ c + (x - 2 ^ c)) by lia.
    rewrite testbit_hi_lo by lia. rewrite Z.ltb_irrefl, Z.sub_diag. reflexivity.
  - apply testbit_small with c; lia.
Qed.

(** * i32 of the upper half of the uint32 range *)
Lemma i32_hi x : 2 ^ 31 <= x < 2 ^ 32 -> i32 x = x - 2 ^ 32.
Proof.
  intros H. unfold i32.
  replace (x + 2 ^ 31) with ((x - 2 ^ 31) + 1 * 2 ^ 32) by lia.
  rewrite Z.mod_add by lia. rewrite Z.mod_small by lia. lia.
Qed.

(** * the common prefix of a and b: if the xor is below 2^d they agree above bit d *)
Lemma lxor_small_same_high a b d : 0 <= d -> 0 <= a -> 0 <= b ->
  Z.lxor a b < 2 ^ d -> a / 2 ^ d = b / 2 ^ d.
Proof.
  intros Hd Ha Hb Hx.
  assert (Hx0 : 0 <= Z.lxor a b) by (apply Z.lxor_nonneg; lia).
  apply Z.lxor_eq. rewrite <- !Z.shiftr_div_pow2 by lia. rewrite <- Z.shiftr_lxor.
  rewrite Z.shiftr_div_pow2 by lia. apply Z.div_small. lia.
Qed.

(** bitlen as a strict bound *)
Lemma lt_pow2_bitlen w : 0 <= w -> w < 2 ^ bitlen w.
Proof.
  intros Hw. destruct w as [|p|p]; [reflexivity| |lia].
  cbn [bitlen]. apply Z.log2_spec. lia.
Qed.

Lemma bitlen_pos w : 0 < w -> 1 <= bitlen w.
Proof. intros Hw. destruct w as [|p|p]; try lia. cbn [bitlen]. pose proof (Z.log2_nonneg (Z.pos p)). lia. Qed.

(** val_msb of a concatenation, and of the reversed LSB-first digits *)
From Low Require Import Lib.Bytes.

Lemma val_msb_app a b : val_msb (a ++ b) = val_msb a * 2 ^ Z.of_nat (length b) + val_msb b.
Proof.
  induction a as [|x a IH]; [rewrite val_msb_nil; cbn [app]; lia|].
  cbn [app]. rewrite !val_msb_cons, IH, app_length, Nat2Z.inj_add, Z.pow_add_r by lia. lia.
Qed.

Lemma val_msb_rev_bits (k : nat) : forall a, 0 <= a < 2 ^ Z.of_nat k -> val_msb (rev (bits k a)) = a.
Proof.
  induction k as [|k IH]; intros a Ha.
  - change (2 ^ Z.of_nat 0) with 1 in Ha. rewrite bits_0. cbn [rev]. rewrite val_msb_nil. lia.
  - rewrite bits_S. cbn [rev]. rewrite val_msb_snoc. rewrite pow2_S in Ha.
    rewrite Z.div2_div. rewrite IH by (apply half_bound; lia).
    pose proof (div2_decomp a). lia.
Qed.

(** complement inside n bits as an xor with all-ones *)
Lemma lxor_ones_compl v n : 0 <= n -> 0 <= v < 2 ^ n -> Z.lxor v (2 ^ n - 1) = 2 ^ n - 1 - v.
Proof.
  intros Hn Hv.
  replace (2 ^ n - 1 - v) with (Z.lnot v mod 2 ^ n).
  2:{ unfold Z.lnot. replace (Z.pred (- v)) with ((2 ^ n - 1 - v) + (-1) * 2 ^ n) by lia.
      rewrite Z.mod_add by lia. apply Z.mod_small. lia. }
  replace (2 ^ n - 1) with (Z.ones n) by (rewrite Z.ones_equiv; lia).
  apply Z.bits_inj'. intros m Hm. rewrite Z.lxor_spec, Z.testbit_ones_nonneg by lia.
  destruct (Z.ltb_spec m n).
  - rewrite Z.mod_pow2_bits_low, Z.lnot_spec by lia. apply xorb_true_r.
  - rewrite Z.mod_pow2_bits_high by lia. rewrite (testbit_small v n m) by lia. reflexivity.
Qed.

(** an inner int32 wrap is absorbed by the outer one *)
Lemma i32_add_l x c : i32 (i32 x + c) = i32 (x + c).
Proof.
  apply i32_congr. unfold i32.
  pose proof (Z.div_mod (x + 2 ^ 31) (2 ^ 32) ltac:(lia)) as E.
  replace ((x + 2 ^ 31) mod 2 ^ 32 - 2 ^ 31 + c - (x + c))
    with ((- ((x + 2 ^ 31) / 2 ^ 32)) * 2 ^ 32) by lia.
  apply Z_mod_mult.
Qed.
