(** Shared naive vocabulary of C08 (bitword) and C09 (bitstr): cutting a bit
    list into fixed-size chunks, MSB-first words, zero padding to whole bytes,
    packing a bit list into bytes.  Definitions only; the lemmas about them are
    in Lib/PackLemmas_bw.v. *)
From Coq Require Import ZArith List Bool.
From Low Require Import Lib.Bits Lib.Bytes.
Import ListNotations.
Open Scope Z_scope.

(** [0; 1; ...; n-1] as [Z] (empty when n <= 0): the index range of a Go
    [for i := 0; i < n; i++] loop *)
Definition zrange (n : Z) : list Z := map Z.of_nat (seq 0 (Z.to_nat n)).

(** the k-th chunk of n elements: elements [k*n, (k+1)*n) *)
Definition chunk {A} (n : nat) (l : list A) (k : nat) : list A :=
  firstn n (skipn (k * n)%nat l).

(** all complete chunks, in order *)
Definition chunks {A} (n : nat) (l : list A) : list (list A) :=
  map (chunk n l) (seq 0 (length l / n)%nat).

(** the n low bits of w, most significant first *)
Definition to_bits (n : nat) (w : Z) : list bool := rev (bits n w).

(** number of zero bits needed to reach a whole number of bytes *)
Definition padn (len : nat) : nat := ((8 - len mod 8) mod 8)%nat.

Definition pad8 (l : list bool) : list bool := l ++ repeat false (padn (length l)).

(** a bit string packed into bytes, MSB first, last byte zero-padded *)
Definition pack (l : list bool) : list Z := map val_msb (chunks 8 (pad8 l)).
