(** Go's fixed-width integers, written as explicit range functions on [Z].
    Nothing here is about the repo's code: this file is the model of Go's
    integer semantics (part of the trusted base, exercised by every
    correspondence run). *)
From Coq Require Import ZArith Lia Bool.
Open Scope Z_scope.

Definition u8  (x : Z) : Z := x mod 2^8.
Definition u16 (x : Z) : Z := x mod 2^16.
Definition u32 (x : Z) : Z := x mod 2^32.
Definition u64 (x : Z) : Z := x mod 2^64.
Definition i32 (x : Z) : Z := (x + 2^31) mod 2^32 - 2^31.
Definition i64 (x : Z) : Z := (x + 2^63) mod 2^64 - 2^63.

(** Go shifts: a count >= the width gives 0 (unsigned / left) or the sign fill
    (signed right).  [x] is assumed to be in the range of its type. *)
Definition shl64 (x n : Z) : Z := if n <? 64 then u64 (x * 2^n) else 0.
Definition shr64 (x n : Z) : Z := if n <? 64 then x / 2^n else 0.
Definition shl32 (x n : Z) : Z := if n <? 32 then u32 (x * 2^n) else 0.
Definition shr32 (x n : Z) : Z := if n <? 32 then x / 2^n else 0.
(** signed 32-bit: [<<] wraps, [>>] is arithmetic (floor) *)
Definition sshl32 (x n : Z) : Z := if n <? 32 then i32 (x * 2^n) else 0.
Definition sar32 (x n : Z) : Z := if n <? 32 then x / 2^n else (if x <? 0 then -1 else 0).
Definition sar64 (x n : Z) : Z := if n <? 64 then x / 2^n else (if x <? 0 then -1 else 0).

(** bitwise complement inside the type *)
Definition not64 (x : Z) : Z := 2^64 - 1 - x.
Definition not32 (x : Z) : Z := 2^32 - 1 - x.
Definition not8  (x : Z) : Z := 2^8 - 1 - x.

Definition in_u64 (x : Z) : Prop := 0 <= x < 2^64.
Definition in_u32 (x : Z) : Prop := 0 <= x < 2^32.
Definition in_i32 (x : Z) : Prop := - 2^31 <= x < 2^31.
Definition in_i64 (x : Z) : Prop := - 2^63 <= x < 2^63.

Lemma u8_id  x : 0 <= x < 2^8  -> u8 x = x.  Proof. intros; unfold u8;  apply Z.mod_small; lia. Qed.
Lemma u16_id x : 0 <= x < 2^16 -> u16 x = x. Proof. intros; unfold u16; apply Z.mod_small; lia. Qed.
Lemma u32_id x : 0 <= x < 2^32 -> u32 x = x. Proof. intros; unfold u32; apply Z.mod_small; lia. Qed.
Lemma u64_id x : 0 <= x < 2^64 -> u64 x = x. Proof. intros; unfold u64; apply Z.mod_small; lia. Qed.
Lemma i32_id x : - 2^31 <= x < 2^31 -> i32 x = x.
Proof. intros; unfold i32; rewrite Z.mod_small; lia. Qed.
Lemma i64_id x : - 2^63 <= x < 2^63 -> i64 x = x.
Proof. intros; unfold i64; rewrite Z.mod_small; lia. Qed.

Lemma u8_range  x : 0 <= u8 x < 2^8.   Proof. unfold u8;  apply Z.mod_pos_bound; lia. Qed.
Lemma u32_range x : 0 <= u32 x < 2^32. Proof. unfold u32; apply Z.mod_pos_bound; lia. Qed.
Lemma u64_range x : 0 <= u64 x < 2^64. Proof. unfold u64; apply Z.mod_pos_bound; lia. Qed.
Lemma i32_range x : - 2^31 <= i32 x < 2^31.
Proof. unfold i32; pose proof (Z.mod_pos_bound (x + 2^31) (2^32)); lia. Qed.
Lemma i64_range x : - 2^63 <= i64 x < 2^63.
Proof. unfold i64; pose proof (Z.mod_pos_bound (x + 2^63) (2^64)); lia. Qed.

Lemma i32_u32 x : i32 (u32 x) = i32 x.
Proof.
  unfold i32, u32.
  rewrite <- (Zplus_mod_idemp_l x). reflexivity.
Qed.

Lemma u32_i32 x : u32 (i32 x) = u32 x.
Proof.
  unfold i32, u32.
  replace ((x + 2^31) mod 2^32 - 2^31) with ((x + 2^31) mod 2^32 + (- 2^31)) by lia.
  rewrite Zplus_mod_idemp_l. f_equal. lia.
Qed.

Lemma i32_congr x y : (x - y) mod 2^32 = 0 -> i32 x = i32 y.
Proof.
  intros H. unfold i32. f_equal.
  apply Z.mod_divide in H; [|lia]. destruct H as [k Hk].
  replace (x + 2^31) with ((y + 2^31) + k * 2^32) by lia.
  apply Z_mod_plus_full.
Qed.

Lemma shr64_div x n : 0 <= n < 64 -> shr64 x n = x / 2^n.
Proof. intros; unfold shr64. destruct (Z.ltb_spec n 64); lia. Qed.

Lemma shl64_small x n : 0 <= n < 64 -> 0 <= x * 2^n < 2^64 -> shl64 x n = x * 2^n.
Proof. intros; unfold shl64. destruct (Z.ltb_spec n 64); [apply u64_id|]; lia. Qed.
