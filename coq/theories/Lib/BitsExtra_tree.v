(** Additional word-level lemmas used by the bmtree proofs (C03, C04, C10):
    popcount of concatenated / complemented words, bit tests of hi*2^k+lo,
    [val_msb], trailing zeros of 2^k*odd. *)
From Coq Require Import ZArith List Lia Bool.
From Low Require Import Lib.MachInt Lib.Bits Lib.Bytes.
Import ListNotations.
Open Scope Z_scope.

Lemma pow2_pos n : 0 <= n -> 0 < 2 ^ n.
Proof. intros. apply Z.pow_pos_nonneg; lia. Qed.

Lemma pow2_succ n : 0 <= n -> 2 ^ (n + 1) = 2 * 2 ^ n.
Proof. intros. rewrite Z.pow_add_r by lia. lia. Qed.

Lemma pow2_S (n : nat) : 2 ^ Z.of_nat (S n) = 2 * 2 ^ Z.of_nat n.
Proof. rewrite Nat2Z.inj_succ, Z.pow_succ_r by lia. reflexivity. Qed.

Lemma pow2_split a b : 0 <= b <= a -> 2 ^ a = 2 ^ (a - b) * 2 ^ b.
Proof. intros. rewrite <- Z.pow_add_r by lia. f_equal. lia. Qed.

Lemma pow2_le a b : 0 <= a <= b -> 2 ^ a <= 2 ^ b.
Proof. intros. apply Z.pow_le_mono_r; lia. Qed.

Lemma pow2_lt a b : 0 <= a < b -> 2 ^ a < 2 ^ b.
Proof. intros. apply Z.pow_lt_mono_r; lia. Qed.

(** * popcount *)

Lemma popcount_b2z b : popcount (Z.b2z b) = Z.b2z b.
Proof. now destruct b. Qed.

Lemma popcount_0 : popcount 0 = 0.
Proof. reflexivity. Qed.

Lemma div2_decomp b : b = 2 * (b / 2) + Z.b2z (Z.odd b).
Proof. rewrite <- Z.div2_div. apply Z.div2_odd. Qed.

Lemma half_bound b m : 0 <= b < 2 * m -> 0 <= b / 2 < m.
Proof. intros H. split; [apply Z.div_pos; lia|apply Z.div_lt_upper_bound; lia]. Qed.

Lemma popcount_concat (n : nat) : forall a b,
  0 <= a -> 0 <= b < 2 ^ Z.of_nat n -> popcount (a * 2 ^ Z.of_nat n + b) = popcount a + popcount b.
Proof.
  induction n as [|n IH]; intros a b Ha Hb.
  - change (2 ^ Z.of_nat 0) with 1 in *. replace b with 0 by lia. rewrite popcount_0, !Z.add_0_r, Z.mul_1_r. reflexivity.
  - rewrite pow2_S in *.
    assert (0 <= b / 2 < 2 ^ Z.of_nat n) by (apply half_bound; lia).
    pose proof (div2_decomp b) as Hd.
    replace (a * (2 * 2 ^ Z.of_nat n) + b) with (2 * (a * 2 ^ Z.of_nat n + b / 2) + Z.b2z (Z.odd b)) by lia.
    rewrite popcount_double_plus by nia.
    rewrite IH by lia.
    rewrite Hd at 3. rewrite popcount_double_plus by lia. lia.
Qed.

Lemma popcount_mul_pow2 (n : nat) a : 0 <= a -> popcount (a * 2 ^ Z.of_nat n) = popcount a.
Proof.
  intros Ha. replace (a * 2 ^ Z.of_nat n) with (a * 2 ^ Z.of_nat n + 0) by lia.
  rewrite popcount_concat; [rewrite popcount_0; lia|lia|].
  pose proof (pow2_pos (Z.of_nat n)). lia.
Qed.

Lemma popcount_ones (n : nat) : popcount (2 ^ Z.of_nat n - 1) = Z.of_nat n.
Proof.
  induction n as [|n IH]; [reflexivity|].
  rewrite pow2_S. pose proof (pow2_pos (Z.of_nat n)).
  replace (2 * 2 ^ Z.of_nat n - 1) with (2 * (2 ^ Z.of_nat n - 1) + Z.b2z true) by (cbn [Z.b2z]; lia).
  rewrite popcount_double_plus by lia. rewrite IH. cbn [Z.b2z]. lia.
Qed.

Lemma popcount_compl (n : nat) : forall x,
  0 <= x < 2 ^ Z.of_nat n -> popcount (2 ^ Z.of_nat n - 1 - x) = Z.of_nat n - popcount x.
Proof.
  induction n as [|n IH]; intros x Hx.
  - change (2 ^ Z.of_nat 0) with 1 in *. replace x with 0 by lia. reflexivity.
  - rewrite pow2_S in *.
    assert (0 <= x / 2 < 2 ^ Z.of_nat n) by (apply half_bound; lia).
    pose proof (div2_decomp x) as Hd.
    replace (2 * 2 ^ Z.of_nat n - 1 - x) with (2 * (2 ^ Z.of_nat n - 1 - x / 2) + Z.b2z (negb (Z.odd x)))
      by (destruct (Z.odd x); cbn [Z.b2z negb] in *; lia).
    rewrite popcount_double_plus by lia. rewrite IH by lia.
    rewrite Hd at 3. rewrite popcount_double_plus by lia.
    destruct (Z.odd x); cbn [Z.b2z negb]; lia.
Qed.

Lemma popcount_bound (n : nat) x : 0 <= x < 2 ^ Z.of_nat n -> 0 <= popcount x <= Z.of_nat n.
Proof.
  intros Hx. rewrite (popcount_bits n) by exact Hx.
  pose proof (count_true_le_length (bits n x)). pose proof (count_true_nonneg (bits n x)).
  rewrite bits_length in *. lia.
Qed.

(** * bits of hi * 2^k + lo *)

Lemma div_hi_lo hi lo k : 0 <= k -> 0 <= lo < 2 ^ k -> (hi * 2 ^ k + lo) / 2 ^ k = hi.
Proof.
  intros Hk Hlo. pose proof (pow2_pos k Hk).
  rewrite Z.add_comm, Z.div_add by lia. rewrite Z.div_small by lia. lia.
Qed.

Lemma mod_hi_lo hi lo k : 0 <= k -> 0 <= lo < 2 ^ k -> (hi * 2 ^ k + lo) mod 2 ^ k = lo.
Proof.
  intros Hk Hlo. rewrite Z.add_comm, Z.mod_add by (pose proof (pow2_pos k Hk); lia).
  apply Z.mod_small; lia.
Qed.

Lemma testbit_hi_lo hi lo k n : 0 <= k -> 0 <= lo < 2 ^ k -> 0 <= n ->
  Z.testbit (hi * 2 ^ k + lo) n = if n <? k then Z.testbit lo n else Z.testbit hi (n - k).
Proof.
  intros Hk Hlo Hn. destruct (Z.ltb_spec n k).
  - rewrite <- (Z.mod_pow2_bits_low (hi * 2 ^ k + lo) k n) by lia. now rewrite mod_hi_lo.
  - replace n with ((n - k) + k) at 1 by lia. rewrite <- Z.div_pow2_bits by lia. now rewrite div_hi_lo.
Qed.

Lemma testbit_small lo k n : 0 <= lo < 2 ^ k -> k <= n -> Z.testbit lo n = false.
Proof.
  intros Hlo Hn. destruct (Z.eq_dec lo 0) as [->|]; [apply Z.bits_0|].
  assert (0 <= k). { destruct (Z.lt_ge_cases k 0); [|lia]. rewrite Z.pow_neg_r in Hlo; lia. }
  apply Z.bits_above_log2; [lia|]. apply Z.lt_le_trans with k; [|lia]. apply Z.log2_lt_pow2; lia.
Qed.

Lemma lor_hi_lo hi lo k : 0 <= k -> 0 <= lo < 2 ^ k -> Z.lor (hi * 2 ^ k) lo = hi * 2 ^ k + lo.
Proof.
  intros Hk Hlo. apply Z.bits_inj'. intros n Hn.
  rewrite Z.lor_spec, testbit_hi_lo by lia.
  destruct (Z.ltb_spec n k).
  - rewrite Z.mul_pow2_bits_low by lia. reflexivity.
  - rewrite Z.mul_pow2_bits by lia. rewrite (testbit_small lo k n) by lia. apply orb_false_r.
Qed.

(** * val_msb *)

Lemma val_msb_acc_spec l : forall acc,
  val_msb_acc acc l = acc * 2 ^ Z.of_nat (length l) + val_msb l.
Proof.
  unfold val_msb. induction l as [|b l IH]; intros acc.
  - cbn [val_msb_acc length]. change (2 ^ Z.of_nat 0) with 1. lia.
  - cbn [val_msb_acc length]. rewrite IH, (IH (2 * 0 + Z.b2z b)). rewrite pow2_S. lia.
Qed.

Lemma val_msb_nil : val_msb [] = 0.
Proof. reflexivity. Qed.

Lemma val_msb_cons b l : val_msb (b :: l) = Z.b2z b * 2 ^ Z.of_nat (length l) + val_msb l.
Proof. unfold val_msb at 1. cbn [val_msb_acc]. rewrite val_msb_acc_spec. lia. Qed.

Lemma val_msb_snoc l b : val_msb (l ++ [b]) = 2 * val_msb l + Z.b2z b.
Proof.
  induction l as [|c l IH].
  - cbn [app]. rewrite val_msb_cons, val_msb_nil. cbn [length]. change (2 ^ Z.of_nat 0) with 1. lia.
  - cbn [app]. rewrite !val_msb_cons, IH, app_length. cbn [length].
    replace (length l + 1)%nat with (S (length l)) by lia. rewrite pow2_S. lia.
Qed.

Lemma val_msb_bound l : 0 <= val_msb l < 2 ^ Z.of_nat (length l).
Proof.
  induction l as [|b l IH].
  - rewrite val_msb_nil. cbn. lia.
  - rewrite val_msb_cons. cbn [length]. rewrite pow2_S. destruct b; cbn [Z.b2z]; lia.
Qed.

Lemma bits_val_msb l : bits (length l) (val_msb l) = rev l.
Proof.
  induction l as [|b l IH] using rev_ind; [reflexivity|].
  rewrite app_length, rev_app_distr. cbn [length rev app].
  replace (length l + 1)%nat with (S (length l)) by lia.
  rewrite bits_S, val_msb_snoc.
  rewrite Z.add_comm, Z.odd_add_mul_2. rewrite Z.div2_div.
  replace (Z.b2z b + 2 * val_msb l) with (val_msb l * 2 + Z.b2z b) by lia.
  rewrite Z.div_add_l by lia. rewrite (Z.div_small (Z.b2z b)) by (destruct b; cbn; lia).
  rewrite Z.add_0_r, IH. f_equal. now destruct b.
Qed.

Lemma popcount_val_msb l : popcount (val_msb l) = count_true l.
Proof.
  rewrite (popcount_bits (length l)) by apply val_msb_bound.
  rewrite bits_val_msb. induction l as [|b l IH]; [reflexivity|].
  cbn [rev]. rewrite count_true_app, IH. cbn [count_true]. lia.
Qed.

(** * trailing zeros *)

Lemma pos_tz_decomp p : exists y, 0 <= y /\ Z.pos p = 2 ^ pos_tz p * (2 * y + 1).
Proof.
  induction p as [p _|p IH|].
  - exists (Z.pos p). cbn [pos_tz]. change (2 ^ 0) with 1. lia.
  - destruct IH as (y & Hy & E). exists y. split; [exact Hy|]. cbn [pos_tz].
    pose proof (pos_tz_nonneg p). rewrite Z.pow_add_r by lia. change (2 ^ 1) with 2.
    change (Z.pos p~0) with (2 * Z.pos p). lia.
  - exists 0. cbn [pos_tz]. split; [lia|reflexivity].
Qed.

Lemma tz_decomp width w : 0 < w -> exists y, 0 <= y /\ 0 <= tz width w /\ w = 2 ^ tz width w * (2 * y + 1).
Proof.
  intros Hw. destruct w as [|p|p]; try lia. cbn [tz].
  destruct (pos_tz_decomp p) as (y & Hy & E). exists y. pose proof (pos_tz_nonneg p). auto.
Qed.

Lemma tz_unique width k y : 0 <= k -> 0 <= y -> tz width (2 ^ k * (2 * y + 1)) = k.
Proof.
  intros Hk Hy. set (w := 2 ^ k * (2 * y + 1)).
  assert (Hw : 0 < w) by (pose proof (pow2_pos k Hk); unfold w; nia).
  destruct (tz_decomp width w Hw) as (y' & Hy' & Ht & E). fold w. set (t := tz width w) in *.
  destruct (Z.lt_trichotomy t k) as [Hlt|[Heq|Hgt]]; [exfalso| exact Heq |exfalso].
  - unfold w in E. rewrite (pow2_split k t) in E by lia.
    pose proof (pow2_pos t Ht).
    assert (E' : 2 ^ (k - t) * (2 * y + 1) = 2 * y' + 1) by nia.
    replace (k - t) with ((k - t - 1) + 1) in E' by lia. rewrite pow2_succ in E' by lia. lia.
  - unfold w in E. rewrite (pow2_split t k) in E by lia.
    pose proof (pow2_pos k Hk).
    assert (E' : 2 * y + 1 = 2 ^ (t - k) * (2 * y' + 1)) by nia.
    replace (t - k) with ((t - k - 1) + 1) in E' by lia. rewrite pow2_succ in E' by lia. lia.
Qed.

Lemma tz_zero width : tz width 0 = width.
Proof. reflexivity. Qed.
