(** Byte strings as [list Z]; their bits, most significant bit of each byte first. *)
From Coq Require Import ZArith List Lia Bool.
From Low Require Import Lib.Bits Lib.Lex.
Import ListNotations.
Open Scope Z_scope.

Definition byte_ok (b : Z) : Prop := 0 <= b < 256.
Definition bytes_ok (s : list Z) : Prop := Forall byte_ok s.
Definition byte_okb (b : Z) : bool := (0 <=? b) && (b <? 256).
Definition bytes_okb (s : list Z) : bool := forallb byte_okb s.

Lemma bytes_okb_ok s : bytes_okb s = true -> bytes_ok s.
Proof.
  unfold bytes_okb, bytes_ok. rewrite forallb_forall, Forall_forall.
  intros H b Hb. specialize (H b Hb). unfold byte_okb in H. unfold byte_ok. lia.
Qed.

(** bits of one byte, most significant first *)
Definition byte_bits (b : Z) : list bool := rev (bits 8 b).
(** the bit string of a byte string *)
Definition msb_bits (s : list Z) : list bool := flat_map byte_bits s.

(** value of a bit list read as a binary numeral, first element most significant *)
Fixpoint val_msb_acc (acc : Z) (l : list bool) : Z :=
  match l with [] => acc | b :: t => val_msb_acc (2 * acc + Z.b2z b) t end.
Definition val_msb (l : list bool) : Z := val_msb_acc 0 l.

Lemma byte_bits_length b : length (byte_bits b) = 8%nat.
Proof. unfold byte_bits. now rewrite rev_length, bits_length. Qed.

Lemma msb_bits_length s : length (msb_bits s) = (8 * length s)%nat.
Proof.
  induction s as [|b s IH]; [reflexivity|].
  cbn [msb_bits flat_map]. rewrite app_length, byte_bits_length. fold (msb_bits s). rewrite IH. cbn [length]. lia.
Qed.

Lemma msb_bits_app a b : msb_bits (a ++ b) = msb_bits a ++ msb_bits b.
Proof. unfold msb_bits. apply flat_map_app. Qed.
