(** Generic lemmas for C09 (bitstr): comparing zero-padded bit strings,
    the shape of [pack] on a non-empty bit string, the mask byte. *)
From Coq Require Import ZArith List Bool Lia PeanoNat.
From Low Require Import Lib.Bits Lib.BitSeq Lib.Bytes Lib.Lex Lib.Pack_bw Lib.PackLemmas_bw Lib.LexLemmas_bw.
Import ListNotations.
Open Scope Z_scope.

(** * zeros against a list that is at least as long: never greater *)
Lemma zeros_not_gt p : forall l, (p <= length l)%nat -> bits_cmp (repeat false p) l <> Gt.
Proof.
  induction p as [|p IH]; intros [|x l] H; cbn in H; try lia; cbn [repeat]; unfold bits_cmp; cbn [lex_cmp];
    try discriminate.
  destruct x; cbn [bool_cmp]; [discriminate|]. apply IH. lia.
Qed.

Lemma not_lt_zeros p l : (p <= length l)%nat -> bits_cmp l (repeat false p) <> Lt.
Proof.
  intros H E. apply (zeros_not_gt p l H). rewrite bits_cmp_antisym, E. reflexivity.
Qed.

Lemma bits_cmp_cons x y a b :
  bits_cmp (x :: a) (y :: b) = match bool_cmp x y with Eq => bits_cmp a b | c => c end.
Proof. reflexivity. Qed.

(** * padding both sides to the same total length: the padded comparison decides,
      and a tie is broken by the real lengths *)
Lemma pad_cmp_same_total b1 : forall b2 p1 p2,
  (length b1 + p1 = length b2 + p2)%nat ->
  match bits_cmp (b1 ++ repeat false p1) (b2 ++ repeat false p2) with
  | Eq => Nat.compare (length b1) (length b2)
  | c => c
  end = bits_cmp b1 b2.
Proof.
  induction b1 as [|x b1 IH]; intros [|y b2] p1 p2 H; cbn [length] in H.
  - replace p2 with p1 by lia. cbn [app]. now rewrite bits_cmp_refl.
  - cbn [app length]. change (y :: b2 ++ repeat false p2) with ((y :: b2) ++ repeat false p2).
    pose proof (zeros_not_gt p1 ((y :: b2) ++ repeat false p2)) as NG.
    rewrite app_length, repeat_length in NG. cbn [length] in NG. specialize (NG ltac:(lia)).
    destruct (bits_cmp (repeat false p1) ((y :: b2) ++ repeat false p2)); try reflexivity. congruence.
  - cbn [app length]. change (x :: b1 ++ repeat false p1) with ((x :: b1) ++ repeat false p1).
    pose proof (not_lt_zeros p2 ((x :: b1) ++ repeat false p1)) as NL.
    rewrite app_length, repeat_length in NL. cbn [length] in NL. specialize (NL ltac:(lia)).
    destruct (bits_cmp ((x :: b1) ++ repeat false p1) (repeat false p2)); try reflexivity. congruence.
  - cbn [app length]. rewrite !bits_cmp_cons. change (Nat.compare (S (length b1)) (S (length b2))) with (Nat.compare (length b1) (length b2)).
    destruct (bool_cmp x y); try reflexivity. apply IH. lia.
Qed.

(** * the left side, even padded, ends before the right side: padding is invisible *)
Lemma pad_cmp_shorter b1 : forall b2 p1,
  (length b1 + p1 < length b2)%nat ->
  bits_cmp (b1 ++ repeat false p1) b2 = bits_cmp b1 b2.
Proof.
  induction b1 as [|x b1 IH]; intros [|y b2] p1 H; cbn [length] in H; try lia.
  - cbn [app]. now rewrite zeros_lt by (cbn [length]; lia).
  - cbn [app]. rewrite !bits_cmp_cons. destruct (bool_cmp x y); try reflexivity. apply IH. lia.
Qed.

Lemma pad_cmp_shorter2 b1 b2 p1 p2 :
  (length b1 + p1 < length b2)%nat ->
  bits_cmp (b1 ++ repeat false p1) (b2 ++ repeat false p2) = bits_cmp b1 b2.
Proof.
  intros H. unfold bits_cmp. rewrite lex_cmp_shorter_app by (rewrite app_length, repeat_length; lia).
  now apply pad_cmp_shorter.
Qed.

(** * length of a packing *)
Lemma pack_length8 b : (8 * length (pack b) = length b + padn (length b))%nat.
Proof. now rewrite <- pad8_length, pad8_length'. Qed.

Lemma padn_cases n : (n mod 8 = 0 /\ padn n = 0)%nat \/ (0 < n mod 8 < 8 /\ padn n = 8 - n mod 8)%nat.
Proof.
  unfold padn. pose proof (Nat.mod_upper_bound n 8 ltac:(lia)) as U.
  destruct (Nat.eq_dec (n mod 8) 0) as [E|E].
  - left. rewrite E. split; reflexivity.
  - right. split; [lia|]. apply Nat.mod_small. lia.
Qed.

(** * the trailing mask byte *)
Lemma last_bits_padn n : (if Z.of_nat n mod 8 =? 0 then 8 else Z.of_nat n mod 8) = 8 - Z.of_nat (padn n).
Proof.
  change 8 with (Z.of_nat 8) at 1 3. rewrite <- Nat2Z.inj_mod.
  destruct (padn_cases n) as [[E P]|[E P]]; rewrite P.
  - rewrite E. reflexivity.
  - destruct (Z.eqb_spec (Z.of_nat (n mod 8)) 0) as [Z0|Z0]; lia.
Qed.

Lemma pow2_compare p q : 0 <= p -> 0 <= q -> (2 ^ p ?= 2 ^ q) = (p ?= q).
Proof.
  intros Hp Hq. destruct (Z.compare_spec p q) as [E|E|E].
  - subst. apply Z.compare_refl.
  - apply Z.compare_lt_iff. apply Z.pow_lt_mono_r; lia.
  - apply Z.compare_gt_iff. apply Z.pow_lt_mono_r; lia.
Qed.

(** * shape of a non-empty bit string and of its packing: whole bytes [p], then 1..8 bits [c] *)
Lemma pack_decomp b : b <> [] -> exists p c,
  bytes_ok p /\ (0 < length c <= 8)%nat /\ b = msb_bits p ++ c /\
  pack b = p ++ [val_msb (c ++ repeat false (8 - length c))] /\
  padn (length b) = (8 - length c)%nat.
Proof.
  induction b as [|c Hc|c l Hc Hl IH] using bits_ind8; intros Hne.
  - congruence.
  - exists [], c. repeat split; try lia; try constructor.
    + now rewrite pack_short.
    + now apply padn_small.
  - destruct (IH Hl) as (p & c' & Hp & Hc' & El & Ep & Epad).
    exists (val_msb c :: p), c'. repeat split; try lia.
    + constructor; [now apply val_msb8_byte_ok|exact Hp].
    + rewrite msb_bits_cons, byte_bits_val_msb by exact Hc. rewrite <- app_assoc. now f_equal.
    + rewrite pack_block by exact Hc. rewrite Ep. reflexivity.
    + rewrite app_length, Hc, padn_add8. exact Epad.
Qed.

(** * one byte masked to its k high bits *)
Lemma land_high_mask x k : byte_ok x -> (0 < k <= 8)%nat ->
  Z.land x (256 - 2 ^ (8 - Z.of_nat k)) = val_msb (firstn k (byte_bits x) ++ repeat false (8 - k)).
Proof.
  intros Hx Hk.
  assert (T : forallb (fun k => forallb (fun x =>
      Z.land x (256 - 2 ^ (8 - k)) =? val_msb (firstn (Z.to_nat k) (byte_bits x) ++ repeat false (8 - Z.to_nat k)))
      (zrange 256)) (zrange 9) = true) by (vm_compute; reflexivity).
  pose proof (forall_zrange _ _ (forall_zrange _ _ T (Z.of_nat k) ltac:(lia)) x Hx) as E.
  cbv beta in E. rewrite Nat2Z.id in E. now apply Z.eqb_eq.
Qed.

Lemma popcount_high_mask q : 0 <= q < 8 -> popcount (256 - 2 ^ q) = 8 - q.
Proof.
  intros H.
  assert (T : forallb (fun q => popcount (256 - 2 ^ q) =? 8 - q) (zrange 8) = true) by (vm_compute; reflexivity).
  apply Z.eqb_eq. apply (forall_zrange _ _ T q H).
Qed.
