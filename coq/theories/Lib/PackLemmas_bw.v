(** Lemmas about the packing vocabulary of Lib/Pack_bw.v. *)
From Coq Require Import ZArith List Bool Lia PeanoNat.
From Low Require Import Lib.Bits Lib.BitSeq Lib.Bytes Lib.Lex Lib.Pack_bw.
Import ListNotations.
Open Scope Z_scope.

(** * zrange *)
Lemma zrange_length n : length (zrange n) = Z.to_nat n.
Proof. unfold zrange. now rewrite map_length, seq_length. Qed.

Lemma in_zrange n x : In x (zrange n) <-> 0 <= x < n.
Proof.
  unfold zrange. rewrite in_map_iff. split.
  - intros (k & <- & Hk). apply in_seq in Hk. lia.
  - intros H. exists (Z.to_nat x). split; [lia|]. apply in_seq. lia.
Qed.

Lemma zrange_S k : zrange (Z.of_nat (S k)) = zrange (Z.of_nat k) ++ [Z.of_nat k].
Proof.
  unfold zrange. rewrite !Nat2Z.id. rewrite seq_S, map_app. reflexivity.
Qed.

Lemma zrange_nonpos n : n <= 0 -> zrange n = [].
Proof. intros H. unfold zrange. replace (Z.to_nat n) with 0%nat by lia. reflexivity. Qed.

(** a boolean check over [0, n) is a proof for every element of the range *)
Lemma forall_zrange (P : Z -> bool) n :
  forallb P (zrange n) = true -> forall x, 0 <= x < n -> P x = true.
Proof. intros H x Hx. rewrite forallb_forall in H. apply H. now apply in_zrange. Qed.

(** * chunks *)
Lemma chunks_short {A} n (l : list A) : (length l < n)%nat -> chunks n l = [].
Proof. intros H. unfold chunks. now rewrite Nat.div_small. Qed.

Lemma chunks_length {A} n (l : list A) : length (chunks n l) = (length l / n)%nat.
Proof. unfold chunks. now rewrite map_length, seq_length. Qed.

Lemma chunks_app_block {A} n (c l : list A) :
  (0 < n)%nat -> length c = n -> chunks n (c ++ l) = c :: chunks n l.
Proof.
  intros Hn Hc. unfold chunks. rewrite app_length, Hc.
  replace (n + length l)%nat with (length l + 1 * n)%nat by lia.
  rewrite Nat.div_add by lia. rewrite Nat.add_1_r. cbn [seq map]. f_equal.
  - unfold chunk. cbn [Nat.mul skipn]. rewrite firstn_app, Hc, Nat.sub_diag, firstn_O, app_nil_r.
    apply firstn_all2. lia.
  - rewrite <- seq_shift, map_map. apply map_ext. intros k. unfold chunk.
    f_equal. replace (S k * n)%nat with (length c + k * n)%nat by (cbn [Nat.mul]; lia).
    rewrite skipn_app. rewrite skipn_all2 by lia. cbn [app]. f_equal. lia.
Qed.

Lemma chunks_one {A} n (c : list A) : (0 < n)%nat -> length c = n -> chunks n c = [c].
Proof.
  intros Hn Hc. rewrite <- (app_nil_r c) at 1. rewrite chunks_app_block by assumption.
  f_equal. apply chunks_short. cbn [length]. lia.
Qed.

Lemma chunks_app_mult {A} n q : (0 < n)%nat -> forall (c l : list A),
  length c = (q * n)%nat -> chunks n (c ++ l) = chunks n c ++ chunks n l.
Proof.
  intros Hn. induction q as [|q IH]; intros c l Hc.
  - destruct c; [|discriminate Hc]. cbn [app]. rewrite (chunks_short n []) by (cbn; lia). reflexivity.
  - assert (L1 : length (firstn n c) = n) by (rewrite firstn_length; cbn [Nat.mul] in Hc; lia).
    assert (L2 : length (skipn n c) = (q * n)%nat) by (rewrite skipn_length; cbn [Nat.mul] in Hc; lia).
    rewrite <- (firstn_skipn n c). generalize dependent (firstn n c). generalize dependent (skipn n c).
    intros c2 L2 c1 L1. rewrite <- app_assoc.
    rewrite (chunks_app_block n c1 (c2 ++ l)) by assumption.
    rewrite (chunks_app_block n c1 c2) by assumption.
    cbn [app]. f_equal. now apply IH.
Qed.

(** * val_msb *)
Lemma val_msb_acc_eq l : forall acc,
  val_msb_acc acc l = acc * 2 ^ Z.of_nat (length l) + val_msb_acc 0 l.
Proof.
  induction l as [|b l IH]; intros acc.
  - cbn [val_msb_acc length]. change (2 ^ Z.of_nat 0) with 1. lia.
  - cbn [val_msb_acc length]. rewrite IH. rewrite (IH (2 * 0 + Z.b2z b)).
    rewrite Nat2Z.inj_succ, Z.pow_succ_r by lia. ring.
Qed.

Lemma val_msb_cons b l : val_msb (b :: l) = Z.b2z b * 2 ^ Z.of_nat (length l) + val_msb l.
Proof. unfold val_msb. cbn [val_msb_acc]. rewrite val_msb_acc_eq. f_equal. Qed.

Lemma val_msb_range l : 0 <= val_msb l < 2 ^ Z.of_nat (length l).
Proof.
  induction l as [|b l IH].
  - cbn. lia.
  - rewrite val_msb_cons. cbn [length]. rewrite Nat2Z.inj_succ, Z.pow_succ_r by lia.
    destruct b; cbn [Z.b2z]; lia.
Qed.

Lemma val_msb_app a b : val_msb (a ++ b) = val_msb a * 2 ^ Z.of_nat (length b) + val_msb b.
Proof.
  induction a as [|x a IH].
  - cbn [app]. unfold val_msb at 2. cbn [val_msb_acc]. lia.
  - cbn [app]. rewrite !val_msb_cons, IH, app_length, Nat2Z.inj_add, Z.pow_add_r by lia. ring.
Qed.

Lemma val_msb_zeros k : val_msb (repeat false k) = 0.
Proof.
  induction k as [|k IH]; [reflexivity|]. cbn [repeat]. rewrite val_msb_cons, IH. cbn [Z.b2z]. lia.
Qed.

(** * bytes and their 8 bits *)
Definition comparison_eqb (a b : comparison) : bool :=
  match a, b with Eq, Eq | Lt, Lt | Gt, Gt => true | _, _ => false end.
Lemma comparison_eqb_eq a b : comparison_eqb a b = true -> a = b.
Proof. destruct a, b; cbn; congruence. Qed.

Fixpoint list_bool_eqb (a b : list bool) : bool :=
  match a, b with
  | [], [] => true
  | x :: a', y :: b' => Bool.eqb x y && list_bool_eqb a' b'
  | _, _ => false
  end.
Lemma list_bool_eqb_eq a : forall b, list_bool_eqb a b = true -> a = b.
Proof.
  induction a as [|x a IH]; intros [|y b]; cbn; try congruence.
  intros H. apply andb_prop in H as [H1 H2]. apply eqb_prop in H1. subst. f_equal. auto.
Qed.

Lemma val_msb_byte_bits b : byte_ok b -> val_msb (byte_bits b) = b.
Proof.
  intros H.
  assert (T : forallb (fun x => val_msb (byte_bits x) =? x) (zrange 256) = true) by (vm_compute; reflexivity).
  apply Z.eqb_eq. apply (forall_zrange _ _ T). exact H.
Qed.

Lemma byte_bits_val_msb c : length c = 8%nat -> byte_bits (val_msb c) = c.
Proof.
  intros H.
  do 9 (destruct c as [|? c]; try discriminate H).
  clear H. repeat match goal with b : bool |- _ => destruct b end; vm_compute; reflexivity.
Qed.

Lemma val_msb8_byte_ok c : length c = 8%nat -> byte_ok (val_msb c).
Proof. intros H. pose proof (val_msb_range c) as R. rewrite H in R. unfold byte_ok. change (2 ^ Z.of_nat 8) with 256 in R. lia. Qed.

Lemma byte_bits_inj x y : byte_ok x -> byte_ok y -> byte_bits x = byte_bits y -> x = y.
Proof. intros Hx Hy H. rewrite <- (val_msb_byte_bits x Hx), <- (val_msb_byte_bits y Hy). now f_equal. Qed.

Lemma msb_bits_cons b s : msb_bits (b :: s) = byte_bits b ++ msb_bits s.
Proof. reflexivity. Qed.

(** * padn, pad8, pack *)
Lemma padn_lt n : (padn n < 8)%nat.
Proof. unfold padn. apply Nat.mod_upper_bound. lia. Qed.

Lemma padn_add8 n : padn (8 + n) = padn n.
Proof.
  unfold padn. replace (8 + n)%nat with (n + 1 * 8)%nat by lia. now rewrite Nat.mod_add by lia.
Qed.

Lemma padn_small n : (0 < n <= 8)%nat -> padn n = (8 - n)%nat.
Proof.
  intros H. unfold padn. destruct (Nat.eq_dec n 8) as [->|Hne]; [reflexivity|].
  rewrite (Nat.mod_small n) by lia. apply Nat.mod_small. lia.
Qed.

Lemma padn_mult n : ((n + padn n) mod 8 = 0)%nat.
Proof.
  unfold padn.
  pose proof (Nat.div_mod n 8 ltac:(lia)) as E. pose proof (Nat.mod_upper_bound n 8 ltac:(lia)) as U.
  destruct (Nat.eq_dec (n mod 8) 0) as [Hz|Hnz].
  - rewrite Hz. cbn. now rewrite Nat.add_0_r.
  - rewrite (Nat.mod_small (8 - n mod 8)) by lia.
    replace (n + (8 - n mod 8))%nat with (0 + (n / 8 + 1) * 8)%nat by lia.
    now rewrite Nat.mod_add by lia.
Qed.

Lemma pad8_block c l : length c = 8%nat -> pad8 (c ++ l) = c ++ pad8 l.
Proof. intros H. unfold pad8. now rewrite app_length, H, padn_add8, app_assoc. Qed.

Lemma pack_nil : pack [] = [].
Proof. reflexivity. Qed.

Lemma pack_block c l : length c = 8%nat -> pack (c ++ l) = val_msb c :: pack l.
Proof.
  intros H. unfold pack. rewrite pad8_block by exact H.
  rewrite chunks_app_block by (lia || exact H). reflexivity.
Qed.

Lemma pack_short c : (0 < length c <= 8)%nat ->
  pack c = [val_msb (c ++ repeat false (8 - length c))].
Proof.
  intros H. unfold pack, pad8. rewrite padn_small by exact H.
  rewrite chunks_one; [reflexivity|lia|]. rewrite app_length, repeat_length. lia.
Qed.

(** induction over a list by blocks of m: empty / a last group of 1..m elements /
    a full block followed by a non-empty rest *)
Lemma list_ind_block {A} (m : nat) (P : list A -> Prop) :
  (0 < m)%nat ->
  P [] ->
  (forall c, (0 < length c <= m)%nat -> P c) ->
  (forall c l, length c = m -> l <> [] -> P l -> P (c ++ l)) ->
  forall l, P l.
Proof.
  intros Hm H0 H1 H2 l.
  remember (length l) as n eqn:En. revert l En.
  induction n as [n IH] using lt_wf_ind. intros l En.
  destruct (Nat.eq_dec n 0) as [Hz|Hnz].
  - destruct l; [exact H0|cbn in En; lia].
  - destruct (le_lt_dec n m) as [Hle|Hgt].
    + apply H1. lia.
    + rewrite <- (firstn_skipn m l). apply H2.
      * rewrite firstn_length. lia.
      * intros E. apply (f_equal (@length A)) in E. rewrite skipn_length in E. cbn in E. lia.
      * apply (IH (n - m)%nat); [lia|]. rewrite skipn_length. lia.
Qed.

Lemma bits_ind8 (P : list bool -> Prop) :
  P [] ->
  (forall c, (0 < length c <= 8)%nat -> P c) ->
  (forall c l, length c = 8%nat -> l <> [] -> P l -> P (c ++ l)) ->
  forall l, P l.
Proof. apply list_ind_block. lia. Qed.

Lemma pack_msb_bits_app s c : bytes_ok s -> pack (msb_bits s ++ c) = s ++ pack c.
Proof.
  intros Hs. induction Hs as [|b s Hb Hs IH]; [reflexivity|].
  rewrite msb_bits_cons, <- app_assoc, pack_block by apply byte_bits_length.
  rewrite val_msb_byte_bits by exact Hb. cbn [app]. f_equal. exact IH.
Qed.

Lemma pack_msb_bits s : bytes_ok s -> pack (msb_bits s) = s.
Proof. intros Hs. rewrite <- (app_nil_r (msb_bits s)), pack_msb_bits_app by exact Hs. now rewrite pack_nil, app_nil_r. Qed.

Lemma msb_bits_pack b : msb_bits (pack b) = pad8 b.
Proof.
  induction b as [|c Hc|c l Hc Hl IH] using bits_ind8.
  - reflexivity.
  - rewrite pack_short by exact Hc. cbn [msb_bits flat_map]. rewrite app_nil_r.
    rewrite byte_bits_val_msb by (rewrite app_length, repeat_length; lia).
    unfold pad8. now rewrite padn_small by exact Hc.
  - rewrite pack_block, msb_bits_cons, IH, byte_bits_val_msb, pad8_block by exact Hc. reflexivity.
Qed.

Lemma pack_bytes_ok b : bytes_ok (pack b).
Proof.
  induction b as [|c Hc|c l Hc Hl IH] using bits_ind8.
  - constructor.
  - rewrite pack_short by exact Hc. constructor; [|constructor].
    apply val_msb8_byte_ok. rewrite app_length, repeat_length. lia.
  - rewrite pack_block by exact Hc. constructor; [now apply val_msb8_byte_ok|exact IH].
Qed.

Lemma pad8_length b : length (pad8 b) = (8 * length (pack b))%nat.
Proof. rewrite <- msb_bits_pack. apply msb_bits_length. Qed.

Lemma pad8_length' b : length (pad8 b) = (length b + padn (length b))%nat.
Proof. unfold pad8. now rewrite app_length, repeat_length. Qed.

Lemma pack_nonempty b : b <> [] -> pack b <> [].
Proof.
  intros Hb E. pose proof (pad8_length b) as H. rewrite E, pad8_length' in H. cbn in H.
  destruct b; [congruence|cbn in H; lia].
Qed.
