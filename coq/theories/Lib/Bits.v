(** Words as [Z], bits as [list bool] (LSB first), popcount / trailing zeros /
    bit length defined in the simplest possible way.  These definitions are the
    model of Go's [math/bits] (trusted base; exercised by the correspondence). *)
From Coq Require Import ZArith List Lia Bool.
Import ListNotations.
Open Scope Z_scope.

(** * popcount *)
Fixpoint pos_pop (p : positive) : Z :=
  match p with xH => 1 | xO q => pos_pop q | xI q => 1 + pos_pop q end.
Definition popcount (z : Z) : Z := match z with Zpos p => pos_pop p | _ => 0 end.

(** * bits of a word, least significant first *)
Definition bits (n : nat) (z : Z) : list bool :=
  map (fun i => Z.testbit z (Z.of_nat i)) (seq 0 n).

Fixpoint count_true (l : list bool) : Z :=
  match l with [] => 0 | b :: t => Z.b2z b + count_true t end.

(** * trailing zeros / bit length (Go: TrailingZeros64(0) = 64, Len64(0) = 0) *)
Fixpoint pos_tz (p : positive) : Z :=
  match p with xO q => 1 + pos_tz q | _ => 0 end.
Definition tz (width : Z) (z : Z) : Z :=
  match z with Zpos p => pos_tz p | _ => width end.
Definition tz64 := tz 64.
Definition tz8 := tz 8.
Definition bitlen (z : Z) : Z := match z with Zpos _ => Z.log2 z + 1 | _ => 0 end.
Definition lz64 (z : Z) : Z := 64 - bitlen z.
Definition lz32 (z : Z) : Z := 32 - bitlen z.

(** * masks *)
Definition Mask (j : Z) : Z := 2 ^ j - 1.
Definition RMask (j : Z) : Z := 2 ^ 64 - 2 ^ j.
Definition MaskUpto (j : Z) : Z := 2 ^ (j + 1) - 1.
Definition RMaskUpto (j : Z) : Z := 2 ^ 64 - 2 ^ (j + 1).
Definition Bit (j : Z) : Z := 2 ^ j.
Definition RBit (j : Z) : Z := 2 ^ 64 - 1 - 2 ^ j.

(** * lemmas *)

Lemma count_true_app l r : count_true (l ++ r) = count_true l + count_true r.
Proof. induction l as [|b l IH]; cbn [count_true app]; lia. Qed.

Lemma count_true_nonneg l : 0 <= count_true l.
Proof. induction l as [|b l IH]; cbn [count_true]; [lia|]. destruct b; cbn [Z.b2z]; lia. Qed.

Lemma count_true_le_length l : count_true l <= Z.of_nat (length l).
Proof.
  induction l as [|b l IH]; cbn [count_true length]; [lia|].
  destruct b; cbn [Z.b2z]; lia.
Qed.

Lemma count_true_firstn_le l n : count_true (firstn n l) <= count_true l.
Proof.
  rewrite <- (firstn_skipn n l) at 2. rewrite count_true_app.
  pose proof (count_true_nonneg (skipn n l)). lia.
Qed.

Lemma popcount_nonneg z : 0 <= popcount z.
Proof.
  destruct z as [|p|p]; cbn [popcount]; try lia.
  induction p; cbn [pos_pop]; lia.
Qed.

Lemma popcount_double_plus a b :
  0 <= a -> popcount (2 * a + Z.b2z b) = popcount a + Z.b2z b.
Proof.
  intros Ha. destruct a as [|p|p]; [| |lia].
  - destruct b; reflexivity.
  - destruct b; cbn [Z.b2z].
    + change (2 * Z.pos p + 1) with (Z.pos p~1). cbn [popcount pos_pop]. lia.
    + change (2 * Z.pos p + 0) with (Z.pos p~0). cbn [popcount pos_pop]. lia.
Qed.

Lemma bits_length n z : length (bits n z) = n.
Proof. unfold bits. now rewrite map_length, seq_length. Qed.

Lemma bits_S n z : bits (S n) z = Z.odd z :: bits n (Z.div2 z).
Proof.
  unfold bits. cbn [seq map]. rewrite Z.bit0_odd. f_equal.
  rewrite <- seq_shift, map_map. apply map_ext. intros i.
  rewrite Nat2Z.inj_succ, Z.div2_spec, Z.shiftr_spec by lia. reflexivity.
Qed.

Lemma bits_0 z : bits 0 z = [].
Proof. reflexivity. Qed.

Lemma popcount_bits n : forall z, 0 <= z < 2 ^ Z.of_nat n -> popcount z = count_true (bits n z).
Proof.
  induction n as [|n IH]; intros z Hz.
  - assert (z = 0) by (change (2 ^ Z.of_nat 0) with 1 in Hz; lia). subst. reflexivity.
  - rewrite bits_S. cbn [count_true].
    rewrite (Z.div2_odd z) at 1.
    assert (Hd : 0 <= Z.div2 z < 2 ^ Z.of_nat n).
    { rewrite Z.div2_div. rewrite Nat2Z.inj_succ, Z.pow_succ_r in Hz by lia.
      split; [apply Z.div_pos; lia|apply Z.div_lt_upper_bound; lia]. }
    rewrite popcount_double_plus by lia. rewrite IH by exact Hd. lia.
Qed.

Lemma seq_nth_error start len i : (i < len)%nat -> nth_error (seq start len) i = Some (start + i)%nat.
Proof.
  revert start i. induction len as [|len IH]; intros start i Hi; [lia|].
  destruct i as [|i]; cbn [seq nth_error]; [f_equal; lia|].
  rewrite IH by lia. f_equal. lia.
Qed.

Lemma nth_error_bits n z i :
  (i < n)%nat -> nth_error (bits n z) i = Some (Z.testbit z (Z.of_nat i)).
Proof.
  intros Hi. unfold bits.
  rewrite nth_error_map, seq_nth_error by exact Hi. reflexivity.
Qed.

Lemma firstn_seq k : forall s n, (k <= n)%nat -> firstn k (seq s n) = seq s k.
Proof.
  induction k as [|k IH]; intros s n Hk; [reflexivity|].
  destruct n as [|n]; [lia|]. cbn [seq firstn]. f_equal. apply IH. lia.
Qed.

Lemma skipn_seq k : forall s n, skipn k (seq s n) = seq (s + k) (n - k).
Proof.
  induction k as [|k IH]; intros s n.
  - cbn [skipn]. f_equal; lia.
  - destruct n as [|n]; [reflexivity|]. cbn [seq skipn]. rewrite IH. f_equal; lia.
Qed.

Lemma bits_firstn n k z : (k <= n)%nat -> firstn k (bits n z) = bits k z.
Proof. intros Hk. unfold bits. rewrite firstn_map, firstn_seq by exact Hk. reflexivity. Qed.

Lemma bits_ext n z z' :
  (forall i, 0 <= i < Z.of_nat n -> Z.testbit z i = Z.testbit z' i) -> bits n z = bits n z'.
Proof.
  intros H. unfold bits. apply map_ext_in. intros i Hi. apply in_seq in Hi. apply H. lia.
Qed.

Lemma bits_mod k z : bits k (z mod 2 ^ Z.of_nat k) = bits k z.
Proof. apply bits_ext. intros i Hi. apply Z.mod_pow2_bits_low. lia. Qed.

Lemma seq_add_map n m : forall s, seq (s + n) m = map (fun i => (i + n)%nat) (seq s m).
Proof.
  induction m as [|m IH]; intros s; [reflexivity|].
  cbn [seq map]. f_equal. apply (IH (S s)).
Qed.

Lemma bits_app n m z : bits (n + m) z = bits n z ++ bits m (z / 2 ^ Z.of_nat n).
Proof.
  unfold bits. rewrite seq_app, map_app. f_equal.
  rewrite seq_add_map, map_map. apply map_ext. intros i.
  rewrite <- Z.shiftr_div_pow2 by lia. rewrite Z.shiftr_spec by lia.
  f_equal. lia.
Qed.

Lemma skipn_bits n k z : (k <= n)%nat -> skipn k (bits n z) = bits (n - k) (z / 2 ^ Z.of_nat k).
Proof.
  intros Hk. replace n with (k + (n - k))%nat at 1 by lia.
  rewrite bits_app. rewrite skipn_app, bits_length, Nat.sub_diag.
  rewrite skipn_all2 by (rewrite bits_length; lia). reflexivity.
Qed.

Lemma land_mask z j : 0 <= j -> Z.land z (Mask j) = z mod 2 ^ j.
Proof. intros Hj. unfold Mask. rewrite <- Z.land_ones by lia. rewrite Z.ones_equiv. f_equal; lia. Qed.

Lemma popcount_land_mask z (j : nat) :
  0 <= z -> (j <= 64)%nat ->
  popcount (Z.land z (Mask (Z.of_nat j))) = count_true (firstn j (bits 64 z)).
Proof.
  intros Hz Hj. rewrite land_mask by lia.
  rewrite bits_firstn by exact Hj.
  rewrite (popcount_bits j) by (apply Z.mod_pos_bound; lia).
  now rewrite bits_mod.
Qed.

Lemma popcount_bits64 z : 0 <= z < 2^64 -> popcount z = count_true (bits 64 z).
Proof. intros H. apply (popcount_bits 64). exact H. Qed.

Lemma popcount_le_64 z : 0 <= z < 2^64 -> popcount z <= 64.
Proof.
  intros H. rewrite popcount_bits64 by exact H.
  pose proof (count_true_le_length (bits 64 z)). rewrite bits_length in *. lia.
Qed.

(** testing one bit by shift-and-mask, the idiom the Go code uses *)
Lemma shiftr_land_1 w j : 0 <= j -> Z.land (Z.shiftr w j) 1 = Z.b2z (Z.testbit w j).
Proof.
  intros Hj. change 1 with (Z.ones 1). rewrite Z.land_ones by lia.
  change (2 ^ 1) with 2. rewrite <- Z.bit0_mod. rewrite Z.shiftr_spec by lia. f_equal.
Qed.

Lemma div_pow2_land_1 w j : 0 <= j -> Z.land (w / 2 ^ j) 1 = Z.b2z (Z.testbit w j).
Proof. intros Hj. rewrite <- Z.shiftr_div_pow2 by lia. now apply shiftr_land_1. Qed.

Lemma land_bit_testbit w j : 0 <= j -> Z.land w (2 ^ j) = if Z.testbit w j then 2 ^ j else 0.
Proof.
  intros Hj. apply Z.bits_inj'. intros n Hn. rewrite Z.land_spec.
  destruct (Z.eq_dec n j) as [->|Hne].
  - rewrite Z.pow2_bits_true by lia. rewrite andb_true_r.
    destruct (Z.testbit w j); [now rewrite Z.pow2_bits_true by lia|now rewrite Z.bits_0].
  - rewrite Z.pow2_bits_false by lia. rewrite andb_false_r.
    destruct (Z.testbit w j); [now rewrite Z.pow2_bits_false by lia|now rewrite Z.bits_0].
Qed.

(** trailing zeros *)
Lemma pos_tz_nonneg p : 0 <= pos_tz p.
Proof. induction p; cbn [pos_tz]; lia. Qed.

Lemma pos_tz_spec p :
  Z.testbit (Zpos p) (pos_tz p) = true /\ forall j, 0 <= j < pos_tz p -> Z.testbit (Zpos p) j = false.
Proof.
  induction p as [p IH|p IH|]; cbn [pos_tz].
  - split; [reflexivity|intros; lia].
  - destruct IH as [IH1 IH2]. pose proof (pos_tz_nonneg p). split.
    + change (Z.pos p~0) with (2 * Z.pos p). replace (1 + pos_tz p) with (Z.succ (pos_tz p)) by lia.
      rewrite Z.testbit_even_succ by lia. exact IH1.
    + intros j Hj. change (Z.pos p~0) with (2 * Z.pos p).
      destruct (Z.eq_dec j 0) as [->|Hne]; [apply Z.testbit_even_0|].
      replace j with (Z.succ (j - 1)) by lia. rewrite Z.testbit_even_succ by lia. apply IH2. lia.
  - split; [reflexivity|intros; lia].
Qed.

Lemma tz_spec width w : 0 < w ->
  0 <= tz width w /\ Z.testbit w (tz width w) = true /\ forall j, 0 <= j < tz width w -> Z.testbit w j = false.
Proof.
  intros Hw. destruct w as [|p|p]; try lia. cbn [tz].
  pose proof (pos_tz_spec p) as [H1 H2]. pose proof (pos_tz_nonneg p). auto.
Qed.

Lemma tz_lt width w n : 0 < w < 2 ^ n -> 0 <= n -> tz width w < n.
Proof.
  intros Hw Hn. destruct (tz_spec width w) as (H0 & H1 & _); [lia|].
  destruct (Z.lt_ge_cases (tz width w) n) as [|Hge]; [assumption|].
  rewrite Z.bits_above_log2 in H1; [discriminate|lia|].
  apply Z.log2_lt_pow2; [lia|]. eapply Z.lt_le_trans; [apply Hw|]. apply Z.pow_le_mono_r; lia.
Qed.

(** bit length *)
Lemma bitlen_spec w : 0 < w ->
  Z.testbit w (bitlen w - 1) = true /\ forall j, bitlen w <= j -> Z.testbit w j = false.
Proof.
  intros Hw. destruct w as [|p|p]; try lia. cbn [bitlen].
  replace (Z.log2 (Z.pos p) + 1 - 1) with (Z.log2 (Z.pos p)) by lia. split.
  - apply Z.bit_log2. lia.
  - intros j Hj. apply Z.bits_above_log2; lia.
Qed.

Lemma bitlen_nonneg w : 0 <= bitlen w.
Proof. destruct w; cbn [bitlen]; try lia. pose proof (Z.log2_nonneg (Z.pos p)). lia. Qed.

Lemma bitlen_le w n : 0 <= n -> 0 <= w < 2 ^ n -> bitlen w <= n.
Proof.
  intros Hn Hw. destruct w as [|p|p]; cbn [bitlen]; try lia.
  assert (Z.log2 (Z.pos p) < n) by (apply Z.log2_lt_pow2; lia). lia.
Qed.
