(** Decimal rendering and parsing of integers as ASCII byte lists (Go's strconv / fmt "%d"), used by the
    extra checks X01 (vers) and X02 (tree).  Definitions only; lemmas are in Proofs/DecimalProofs_xpk.v.
    strconv and fmt are Go's library: these are their definitional models (trusted, exercised by every
    correspondence run). *)
From Coq Require Import ZArith List Bool.
Import ListNotations.
Open Scope Z_scope.

(** decimal digits of n >= 0, least significant first; fuel >= number of digits *)
Fixpoint dec_digits_rev (fuel : nat) (n : Z) : list Z :=
  match fuel with
  | O => []
  | S f => if n <? 10 then [48 + n] else (48 + n mod 10) :: dec_digits_rev f (n / 10)
  end.

(** strconv.FormatUint(n, 10) / Itoa for n >= 0: no leading zeros, "0" for 0 *)
Definition dec_nonneg (n : Z) : list Z :=
  rev (dec_digits_rev (S (Z.to_nat (Z.log2 n))) n).

(** strconv.Itoa / fmt "%d": a '-' (45) in front of the digits of |n| for n < 0 *)
Definition dec_of_Z (n : Z) : list Z :=
  if n <? 0 then 45 :: dec_nonneg (- n) else dec_nonneg n.

Definition is_digit (c : Z) : bool := (48 <=? c) && (c <=? 57).

(** value of a string of decimal digits (most significant first), accumulator style as strconv does;
    [None] when a byte is not a digit.  The empty string gives [Some acc]: callers reject it themselves. *)
Fixpoint parse_digits (acc : Z) (s : list Z) : option Z :=
  match s with
  | [] => Some acc
  | c :: t => if is_digit c then parse_digits (acc * 10 + (c - 48)) t else None
  end.
