(** Word-level lemmas for the C02 widening (indexSelectU64 / selectU64Indexed): a 64-bit word as a
    little-endian list of bytes in Horner form, bitwise operations and shifts-then-masks byte by byte,
    prefix sums, exhaustive facts about bytes. *)
From Coq Require Import ZArith List Lia Bool.
From Low Require Import Lib.MachInt Lib.Bits Lib.BitSeq Lib.BitsExtra_tree Lib.BitsExtra_idx5.
Import ListNotations.
Open Scope Z_scope.

(** * bytes *)
Definition byte (b : Z) : Prop := 0 <= b < 2 ^ 8.

(** a fact checked on all 256 byte values is a fact about every byte *)
Lemma byte_forall (P : Z -> bool) :
  forallb (fun i => P (Z.of_nat i)) (seq 0 256) = true -> forall b, byte b -> P b = true.
Proof.
  intros H b Hb. rewrite forallb_forall in H. unfold byte in Hb. change (2 ^ 8) with 256 in Hb.
  specialize (H (Z.to_nat b) ltac:(apply in_seq; lia)). now rewrite Z2Nat.id in H by lia.
Qed.

(** * Horner form, least significant byte first *)
Definition H (l : list Z) : Z := fold_right (fun b acc => acc * 2 ^ 8 + b) 0 l.

Lemma H_nil : H [] = 0. Proof. reflexivity. Qed.
Lemma H_cons b l : H (b :: l) = H l * 2 ^ 8 + b. Proof. reflexivity. Qed.

Lemma H_range l : Forall byte l -> 0 <= H l < 2 ^ (8 * Z.of_nat (length l)).
Proof.
  induction 1 as [|b l Hb _ IH].
  - cbn. lia.
  - rewrite H_cons. cbn [length]. rewrite Nat2Z.inj_succ.
    replace (8 * Z.succ (Z.of_nat (length l))) with (8 * Z.of_nat (length l) + 8) by lia.
    rewrite Z.pow_add_r by lia. unfold byte in Hb. nia.
Qed.

Lemma H_nonneg l : Forall byte l -> 0 <= H l.
Proof. intros Hl. apply H_range in Hl. lia. Qed.

Fixpoint bytes_of (n : nat) (w : Z) : list Z :=
  match n with O => [] | S n' => w mod 2 ^ 8 :: bytes_of n' (w / 2 ^ 8) end.

Lemma bytes_of_length n : forall w, length (bytes_of n w) = n.
Proof. induction n as [|n IH]; intros w; cbn [bytes_of length]; [reflexivity|now rewrite IH]. Qed.

Lemma bytes_of_byte n : forall w, Forall byte (bytes_of n w).
Proof.
  induction n as [|n IH]; intros w; cbn [bytes_of]; constructor; [|apply IH].
  unfold byte. apply Z.mod_pos_bound. lia.
Qed.

Lemma H_bytes_of n : forall w, 0 <= w < 2 ^ (8 * Z.of_nat n) -> H (bytes_of n w) = w.
Proof.
  induction n as [|n IH]; intros w Hw.
  - cbn in *. lia.
  - cbn [bytes_of]. rewrite H_cons, IH.
    + pose proof (Z.div_mod w (2 ^ 8) ltac:(lia)). lia.
    + rewrite Nat2Z.inj_succ in Hw.
      replace (8 * Z.succ (Z.of_nat n)) with (8 * Z.of_nat n + 8) in Hw by lia.
      rewrite Z.pow_add_r in Hw by lia.
      split; [apply Z.div_pos; lia|apply Z.div_lt_upper_bound; lia].
Qed.

(** byte [j] of a Horner form *)
Lemma H_nth : forall (j : nat) l, Forall byte l -> (H l / 2 ^ (8 * Z.of_nat j)) mod 2 ^ 8 = nth j l 0.
Proof.
  induction j as [|j IH]; intros l Hl.
  - change (2 ^ (8 * Z.of_nat 0)) with 1. rewrite Z.div_1_r. destruct Hl as [|b l Hb Hl]; [reflexivity|].
    rewrite H_cons. cbn [nth]. now apply mod_hi_lo.
  - destruct Hl as [|b l Hb Hl].
    + cbn [H fold_right nth]. now rewrite Z.div_0_l, Z.mod_0_l by (apply Z.pow_nonzero; lia).
    + cbn [nth]. rewrite <- (IH l Hl). rewrite H_cons. f_equal.
      rewrite Nat2Z.inj_succ. replace (8 * Z.succ (Z.of_nat j)) with (8 + 8 * Z.of_nat j) by lia.
      rewrite Z.pow_add_r by lia. rewrite <- Z.div_div by (try apply Z.pow_pos_nonneg; lia).
      now rewrite div_hi_lo by (exact Hb || lia).
Qed.

(** linear operations *)
Lemma H_map_add (f g : Z -> Z) l : H (map f l) + H (map g l) = H (map (fun b => f b + g b) l).
Proof. induction l as [|b l IH]; cbn [map]; rewrite ?H_cons, ?H_nil; [reflexivity|]. rewrite <- IH. ring. Qed.

Lemma H_map_sub (f g : Z -> Z) l : H (map f l) - H (map g l) = H (map (fun b => f b - g b) l).
Proof. induction l as [|b l IH]; cbn [map]; rewrite ?H_cons, ?H_nil; [reflexivity|]. rewrite <- IH. ring. Qed.

Lemma H_map_scale c (f : Z -> Z) l : c * H (map f l) = H (map (fun b => c * f b) l).
Proof. induction l as [|b l IH]; cbn [map]; rewrite ?H_cons, ?H_nil; [ring|]. rewrite <- IH. ring. Qed.

Lemma H_repeat_map {A} m (l : list A) : H (repeat m (length l)) = H (map (fun _ => m) l).
Proof. induction l as [|b l IH]; cbn [length repeat map]; rewrite ?H_cons; [reflexivity|]. now rewrite IH. Qed.

Lemma Forall_map_byte (f : Z -> Z) l : (forall b, byte b -> byte (f b)) -> Forall byte l -> Forall byte (map f l).
Proof. intros Hf. induction 1; cbn [map]; constructor; auto. Qed.

(** * bitwise operations byte by byte *)

(** a shift right by [s < 8] followed by a mask whose bytes are below [2^(8-s)] does not mix bytes *)
Lemma shr_land_halves W b s R m : 0 <= b < 2 ^ 8 -> 0 <= s < 8 -> 0 <= m < 2 ^ (8 - s) ->
  Z.land (Z.shiftr (W * 2 ^ 8 + b) s) (R * 2 ^ 8 + m) = Z.land (Z.shiftr W s) R * 2 ^ 8 + Z.land (Z.shiftr b s) m.
Proof.
  intros Hb Hs Hm.
  assert (Hm8 : 0 <= m < 2 ^ 8).
  { split; [lia|]. eapply Z.lt_le_trans; [apply Hm|]. apply Z.pow_le_mono_r; lia. }
  assert (Hl : 0 <= Z.land (Z.shiftr b s) m < 2 ^ 8).
  { rewrite Z.land_comm. apply land_bound; try lia. apply Z.shiftr_nonneg. lia. }
  apply Z.bits_inj'. intros n Hn.
  rewrite Z.land_spec, Z.shiftr_spec by lia.
  rewrite !testbit_hi_lo by lia.
  destruct (Z.ltb_spec n 8) as [Hn8|Hn8].
  - rewrite Z.land_spec, Z.shiftr_spec by lia.
    destruct (Z.ltb_spec (n + s) 8) as [|Hge]; [reflexivity|].
    rewrite (testbit_small m (8 - s) n) by lia. now rewrite !andb_false_r.
  - destruct (Z.ltb_spec (n + s) 8) as [|_]; [lia|].
    rewrite Z.land_spec, Z.shiftr_spec by lia. do 2 f_equal. lia.
Qed.

Lemma H_shr_land s m l : 0 <= s < 8 -> 0 <= m < 2 ^ (8 - s) -> Forall byte l ->
  Z.land (Z.shiftr (H l) s) (H (repeat m (length l))) = H (map (fun b => Z.land (Z.shiftr b s) m) l).
Proof.
  intros Hs Hm. induction 1 as [|b l Hb _ IH].
  - cbn. now rewrite Z.shiftr_0_l.
  - cbn [length repeat map]. rewrite !H_cons, shr_land_halves by assumption. now rewrite IH.
Qed.

Lemma H_land m l : 0 <= m < 2 ^ 8 -> Forall byte l ->
  Z.land (H l) (H (repeat m (length l))) = H (map (fun b => Z.land b m) l).
Proof.
  intros Hm. induction 1 as [|b l Hb _ IH].
  - reflexivity.
  - cbn [length repeat map]. rewrite !H_cons, land_halves by (assumption || lia). now rewrite IH.
Qed.

Lemma H_lor m l : 0 <= m < 2 ^ 8 -> Forall byte l ->
  Z.lor (H l) (H (repeat m (length l))) = H (map (fun b => Z.lor b m) l).
Proof.
  intros Hm. induction 1 as [|b l Hb _ IH].
  - reflexivity.
  - cbn [length repeat map]. rewrite !H_cons, lor_halves by (assumption || lia). now rewrite IH.
Qed.

(** * prefix sums *)
Fixpoint psum (acc : Z) (l : list Z) : list Z :=
  match l with [] => [] | x :: t => (acc + x) :: psum (acc + x) t end.

Lemma psum_length l : forall acc, length (psum acc l) = length l.
Proof. induction l as [|x l IH]; intros acc; cbn [psum length]; [reflexivity|now rewrite IH]. Qed.

(** the bytes of a word, the popcounts of its low [8(j+1)] bits *)
Lemma popcount_low_bytes w (m : nat) : 0 <= w ->
  popcount (w mod 2 ^ (8 + Z.of_nat m)) = popcount (w mod 2 ^ 8) + popcount ((w / 2 ^ 8) mod 2 ^ Z.of_nat m).
Proof.
  intros Hw. rewrite Z.pow_add_r by lia.
  rewrite Z.rem_mul_r by (try apply Z.pow_pos_nonneg; lia).
  replace (w mod 2 ^ 8 + 2 ^ 8 * ((w / 2 ^ 8) mod 2 ^ Z.of_nat m))
    with (((w / 2 ^ 8) mod 2 ^ Z.of_nat m) * 2 ^ Z.of_nat 8 + w mod 2 ^ 8) by (change (Z.of_nat 8) with 8; ring).
  rewrite popcount_concat.
  - lia.
  - apply Z.mod_pos_bound. apply Z.pow_pos_nonneg; lia.
  - change (Z.of_nat 8) with 8. apply Z.mod_pos_bound. lia.
Qed.

Lemma psum_popcount_bytes : forall n (j : nat) w acc, 0 <= w -> (j < n)%nat ->
  nth j (psum acc (map popcount (bytes_of n w))) 0 = acc + popcount (w mod 2 ^ (8 * (Z.of_nat j + 1))).
Proof.
  induction n as [|n IH]; intros j w acc Hw Hj; [lia|].
  cbn [bytes_of map psum]. destruct j as [|j].
  - cbn [nth]. reflexivity.
  - cbn [nth]. rewrite IH by (try apply Z.div_pos; lia).
    replace (8 * (Z.of_nat (S j) + 1)) with (8 + Z.of_nat (8 * (j + 1))) by lia.
    rewrite popcount_low_bytes by exact Hw.
    replace (Z.of_nat (8 * (j + 1))) with (8 * (Z.of_nat j + 1)) by lia. lia.
Qed.

(** [rank1] of the bits of a word = popcount of its low bits *)
Lemma rank1_bits64 w (n : nat) : 0 <= w -> (n <= 64)%nat ->
  rank1 (bits 64 w) n = popcount (w mod 2 ^ Z.of_nat n).
Proof.
  intros Hw Hn. unfold rank1. rewrite bits_firstn by exact Hn.
  rewrite (popcount_bits n) by (apply Z.mod_pos_bound; apply Z.pow_pos_nonneg; lia).
  now rewrite bits_mod.
Qed.
