(** int32 wrap arithmetic: [i32] is a ring homomorphism modulo 2^32 (builder w01, used by Proofs/Rank32Proofs.v). *)
From Coq Require Import ZArith Lia.
From Low Require Import Lib.MachInt.
Open Scope Z_scope.

Lemma i32_diff x : exists k, i32 x = x + 2^32 * k.
Proof.
  exists (- ((x + 2^31) / 2^32)). unfold i32.
  pose proof (Z.div_mod (x + 2^31) (2^32) ltac:(lia)). lia.
Qed.

Lemma i32_shift x k : i32 (x + 2^32 * k) = i32 x.
Proof. apply i32_congr. replace (x + 2^32 * k - x) with (k * 2^32) by ring. apply Z.mod_mul. lia. Qed.

Lemma i32_idem x : i32 (i32 x) = i32 x.
Proof. apply i32_id, i32_range. Qed.

Lemma i32_add_r a b : i32 (a + i32 b) = i32 (a + b).
Proof.
  destruct (i32_diff b) as [k ->]. replace (a + (b + 2^32 * k)) with (a + b + 2^32 * k) by ring.
  apply i32_shift.
Qed.

Lemma i32_add_l a b : i32 (i32 a + b) = i32 (a + b).
Proof. rewrite Z.add_comm, i32_add_r. f_equal. ring. Qed.

Lemma i32_sub_r a b : i32 (a - i32 b) = i32 (a - b).
Proof.
  destruct (i32_diff b) as [k ->]. replace (a - (b + 2^32 * k)) with (a - b + 2^32 * (- k)) by ring.
  apply i32_shift.
Qed.

Lemma i32_sub_l a b : i32 (i32 a - b) = i32 (a - b).
Proof.
  destruct (i32_diff a) as [k ->]. replace (a + 2^32 * k - b) with (a - b + 2^32 * k) by ring.
  apply i32_shift.
Qed.

Lemma i32_mul_r a b : i32 (a * i32 b) = i32 (a * b).
Proof.
  destruct (i32_diff b) as [k ->]. replace (a * (b + 2^32 * k)) with (a * b + 2^32 * (a * k)) by ring.
  apply i32_shift.
Qed.

Lemma i32_0 : i32 0 = 0. Proof. reflexivity. Qed.

(** the low bit survives the truncation to 32 bits *)
Lemma land1_i32 x : Z.land (i32 x) 1 = Z.land x 1.
Proof.
  destruct (i32_diff x) as [k ->]. change 1 with (Z.ones 1). rewrite !Z.land_ones by lia.
  change (2 ^ 1) with 2. replace (x + 2^32 * k) with (x + (2^31 * k) * 2) by ring.
  apply Z.mod_add. lia.
Qed.

(** [i >> n] on a non-negative int32 is the logical shift; on a negative one it stays negative *)
Lemma sar32_shiftr x n : 0 <= n < 32 -> sar32 x n = Z.shiftr x n.
Proof.
  intros H. unfold sar32. destruct (Z.ltb_spec n 32); [|lia].
  now rewrite Z.shiftr_div_pow2 by lia.
Qed.

Lemma sar32_neg x n : 0 <= n < 32 -> x < 0 -> sar32 x n < 0.
Proof.
  intros H Hx. unfold sar32. destruct (Z.ltb_spec n 32); [|lia].
  apply Z.div_lt_upper_bound; [apply Z.pow_pos_nonneg; lia|lia].
Qed.

Lemma shiftr_neg x n : 0 <= n -> x < 0 -> Z.shiftr x n < 0.
Proof. intros. now apply Z.shiftr_neg. Qed.

Lemma u32_land63 i : u32 (Z.land i 63) = Z.land i 63.
Proof.
  apply u32_id. change 63 with (Z.ones 6). rewrite Z.land_ones by lia.
  pose proof (Z.mod_pos_bound i (2^6) ltac:(lia)). lia.
Qed.

Lemma land63_range i : 0 <= Z.land i 63 < 64.
Proof.
  change 63 with (Z.ones 6). rewrite Z.land_ones by lia.
  pose proof (Z.mod_pos_bound i (2^6) ltac:(lia)). lia.
Qed.
