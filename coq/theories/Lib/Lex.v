(** Lexicographic comparison of lists, proper prefix first: Go's order on
    strings / bytes.Compare, and the order on bit strings. *)
From Coq Require Import ZArith List Lia Bool.
Import ListNotations.
Open Scope Z_scope.

Section Lex.
  Context {A : Type} (cmp : A -> A -> comparison).

  Fixpoint lex_cmp (a b : list A) : comparison :=
    match a, b with
    | [], [] => Eq
    | [], _ :: _ => Lt
    | _ :: _, [] => Gt
    | x :: a', y :: b' =>
        match cmp x y with Eq => lex_cmp a' b' | c => c end
    end.
End Lex.

Definition bool_cmp (a b : bool) : comparison :=
  match a, b with
  | false, true => Lt
  | true, false => Gt
  | _, _ => Eq
  end.

Definition bytes_cmp : list Z -> list Z -> comparison := lex_cmp Z.compare.
Definition bits_cmp : list bool -> list bool -> comparison := lex_cmp bool_cmp.

(** the sign Go functions return: -1, 0, 1 *)
Definition cmp_sign (c : comparison) : Z := match c with Lt => -1 | Eq => 0 | Gt => 1 end.

(** longest common prefix *)
Section Lcp.
  Context {A : Type} (eqb : A -> A -> bool).
  Fixpoint lcp (a b : list A) : list A :=
    match a, b with
    | x :: a', y :: b' => if eqb x y then x :: lcp a' b' else []
    | _, _ => []
    end.
End Lcp.

Definition lcp_bits := lcp Bool.eqb.
Definition lcp_bytes := lcp Z.eqb.

Lemma bool_cmp_refl b : bool_cmp b b = Eq.
Proof. now destruct b. Qed.

Lemma bool_cmp_eq a b : bool_cmp a b = Eq <-> a = b.
Proof. destruct a, b; cbn; split; congruence. Qed.

Lemma lex_cmp_refl {A} (cmp : A -> A -> comparison) :
  (forall x, cmp x x = Eq) -> forall l, lex_cmp cmp l l = Eq.
Proof. intros H l. induction l as [|x l IH]; cbn; [reflexivity|]. now rewrite H. Qed.

Lemma lex_cmp_eq {A} (cmp : A -> A -> comparison) :
  (forall x y, cmp x y = Eq <-> x = y) -> forall a b, lex_cmp cmp a b = Eq <-> a = b.
Proof.
  intros H a. induction a as [|x a IH]; intros [|y b]; cbn; try (split; congruence).
  destruct (cmp x y) eqn:E.
  - apply H in E. subst. rewrite IH. split; congruence.
  - split; [discriminate|]. intros Heq. injection Heq as -> ->.
    rewrite (proj2 (H y y) eq_refl) in E. discriminate.
  - split; [discriminate|]. intros Heq. injection Heq as -> ->.
    rewrite (proj2 (H y y) eq_refl) in E. discriminate.
Qed.

Lemma lex_cmp_antisym {A} (cmp : A -> A -> comparison) :
  (forall x y, cmp y x = CompOpp (cmp x y)) ->
  forall a b, lex_cmp cmp b a = CompOpp (lex_cmp cmp a b).
Proof.
  intros H a. induction a as [|x a IH]; intros [|y b]; cbn; try reflexivity.
  rewrite (H x y). destruct (cmp x y); cbn; auto.
Qed.
