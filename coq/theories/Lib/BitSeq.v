(** A bitmap *is* its sequence of bits.  The shared specification vocabulary:
    [flat], [rank1], [ones]. *)
From Coq Require Import ZArith List Lia Bool Sorted.
From Low Require Import Lib.MachInt Lib.Bits.
Import ListNotations.
Open Scope Z_scope.

Definition word_ok (w : Z) : Prop := 0 <= w < 2^64.
Definition words_ok (ws : list Z) : Prop := Forall word_ok ws.

Definition word_okb (w : Z) : bool := (0 <=? w) && (w <? 2^64).
Definition words_okb (ws : list Z) : bool := forallb word_okb ws.

Lemma words_okb_ok ws : words_okb ws = true -> words_ok ws.
Proof.
  unfold words_okb, words_ok. rewrite forallb_forall, Forall_forall.
  intros H w Hw. specialize (H w Hw). unfold word_okb in H. unfold word_ok. lia.
Qed.

Definition flat (ws : list Z) : list bool := flat_map (bits 64) ws.

(** number of 1-bits at positions < i *)
Definition rank1 (bs : list bool) (i : nat) : Z := count_true (firstn i bs).
Definition rank1z (bs : list bool) (i : Z) : Z := rank1 bs (Z.to_nat i).
Definition bitz (bs : list bool) (i : Z) : bool := nth (Z.to_nat i) bs false.

(** ascending positions of the 1-bits *)
Fixpoint ones_from (base : Z) (bs : list bool) : list Z :=
  match bs with
  | [] => []
  | b :: t => if b then base :: ones_from (base + 1) t else ones_from (base + 1) t
  end.
Definition ones (bs : list bool) : list Z := ones_from 0 bs.

(** [nth] on [Z] indices, [None] outside: the model of a Go slice read *)
Definition nthZ {A} (l : list A) (i : Z) : option A :=
  if i <? 0 then None else nth_error l (Z.to_nat i).

Definition zlen {A} (l : list A) : Z := Z.of_nat (length l).

(** * flat *)
Lemma flat_length ws : length (flat ws) = (64 * length ws)%nat.
Proof.
  unfold flat. induction ws as [|w ws IH]; [reflexivity|].
  cbn [flat_map]. rewrite app_length, bits_length, IH. cbn [length]. lia.
Qed.

Lemma flat_app a b : flat (a ++ b) = flat a ++ flat b.
Proof. unfold flat. apply flat_map_app. Qed.

Lemma flat_cons w ws : flat (w :: ws) = bits 64 w ++ flat ws.
Proof. reflexivity. Qed.

Lemma firstn_flat_words k ws : firstn (64 * k) (flat ws) = flat (firstn k ws).
Proof.
  revert ws. induction k as [|k IH]; intros ws.
  - reflexivity.
  - destruct ws as [|w ws]; [now rewrite !firstn_nil|].
    cbn [firstn]. rewrite !flat_cons.
    replace (64 * S k)%nat with (64 + 64 * k)%nat by lia.
    rewrite firstn_app, bits_length.
    rewrite (firstn_all2 (n:=64 + 64 * k) (bits 64 w)) by (rewrite bits_length; lia).
    f_equal. replace (64 + 64 * k - 64)%nat with (64 * k)%nat by lia. apply IH.
Qed.

Lemma skipn_flat_words k ws : skipn (64 * k) (flat ws) = flat (skipn k ws).
Proof.
  revert ws. induction k as [|k IH]; intros ws.
  - reflexivity.
  - destruct ws as [|w ws]; [now rewrite !skipn_nil|].
    cbn [skipn]. rewrite flat_cons.
    replace (64 * S k)%nat with (64 + 64 * k)%nat by lia.
    rewrite skipn_app, bits_length.
    rewrite (skipn_all2 (n:=64 + 64 * k) (bits 64 w)) by (rewrite bits_length; lia).
    cbn [app]. replace (64 + 64 * k - 64)%nat with (64 * k)%nat by lia. apply IH.
Qed.

Lemma flat_split k ws w :
  nth_error ws k = Some w ->
  flat ws = flat (firstn k ws) ++ bits 64 w ++ flat (skipn (S k) ws).
Proof.
  intros H. apply nth_error_split in H. destruct H as (l1 & l2 & -> & <-).
  rewrite firstn_app, Nat.sub_diag, firstn_all, firstn_O, app_nil_r.
  replace (skipn (S (length l1)) (l1 ++ w :: l2)) with l2.
  2:{ rewrite skipn_app. rewrite skipn_all2 by lia.
      replace (S (length l1) - length l1)%nat with 1%nat by lia. reflexivity. }
  rewrite flat_app, flat_cons. reflexivity.
Qed.

Lemma nth_error_flat ws k w j :
  nth_error ws k = Some w -> (j < 64)%nat ->
  nth_error (flat ws) (64 * k + j) = Some (Z.testbit w (Z.of_nat j)).
Proof.
  intros H Hj. rewrite (flat_split k ws w H).
  assert (Hk : length (flat (firstn k ws)) = (64 * k)%nat).
  { rewrite flat_length, firstn_length_le; [reflexivity|].
    apply Nat.lt_le_incl. apply nth_error_Some. congruence. }
  rewrite nth_error_app2 by lia. rewrite Hk.
  replace (64 * k + j - 64 * k)%nat with j by lia.
  rewrite nth_error_app1 by (rewrite bits_length; lia).
  now apply nth_error_bits.
Qed.

(** rank at [64k + j] = rank at [64k] + count inside word k *)
Lemma rank1_flat ws k w j :
  nth_error ws k = Some w -> (j <= 64)%nat ->
  rank1 (flat ws) (64 * k + j) = rank1 (flat ws) (64 * k) + count_true (firstn j (bits 64 w)).
Proof.
  intros H Hj. unfold rank1. rewrite (flat_split k ws w H).
  assert (Hk : length (flat (firstn k ws)) = (64 * k)%nat).
  { rewrite flat_length, firstn_length_le; [reflexivity|].
    apply Nat.lt_le_incl. apply nth_error_Some. congruence. }
  rewrite !firstn_app, Hk.
  rewrite (firstn_all2 (n:=64 * k + j)) by lia.
  replace (64 * k + j - 64 * k)%nat with j by lia.
  rewrite Nat.sub_diag, firstn_O, app_nil_r.
  rewrite (firstn_all2 (n:=64 * k)) by lia.
  rewrite bits_length. replace (j - 64)%nat with 0%nat by lia. rewrite firstn_O, app_nil_r.
  now rewrite count_true_app.
Qed.

Lemma rank1_flat_words ws k : rank1 (flat ws) (64 * k) = count_true (flat (firstn k ws)).
Proof. unfold rank1. now rewrite firstn_flat_words. Qed.

Lemma count_true_flat_snoc ws w :
  count_true (flat (ws ++ [w])) = count_true (flat ws) + count_true (bits 64 w).
Proof. rewrite flat_app, count_true_app. cbn [flat flat_map]. now rewrite app_nil_r. Qed.

Lemma firstn_succ_nth {A} k (l : list A) x :
  nth_error l k = Some x -> firstn (S k) l = firstn k l ++ [x].
Proof.
  revert l. induction k as [|k IH]; intros [|y l] H; try discriminate.
  - cbn in H. injection H as ->. reflexivity.
  - cbn [nth_error] in H. rewrite !firstn_cons. rewrite (IH l H). reflexivity.
Qed.

(** * ones *)
Lemma ones_from_app b l r :
  ones_from b (l ++ r) = ones_from b l ++ ones_from (b + Z.of_nat (length l)) r.
Proof.
  revert b. induction l as [|x l IH]; intros b.
  - cbn [app length ones_from]. f_equal. lia.
  - cbn [app length ones_from]. rewrite IH.
    replace (b + 1 + Z.of_nat (length l)) with (b + Z.of_nat (S (length l))) by lia.
    destruct x; reflexivity.
Qed.

Lemma ones_from_length b l : Z.of_nat (length (ones_from b l)) = count_true l.
Proof.
  revert b. induction l as [|x l IH]; intros b; [reflexivity|].
  cbn [ones_from count_true]. destruct x; cbn [length Z.b2z]; rewrite <- (IH (b + 1)); lia.
Qed.

Lemma ones_from_shift b l : ones_from b l = map (Z.add b) (ones_from 0 l).
Proof.
  revert b. induction l as [|x l IH]; intros b; [reflexivity|].
  cbn [ones_from]. rewrite (IH (b + 1)), (IH (0 + 1)).
  destruct x; cbn [map]; rewrite map_map; [f_equal; [lia|]|]; apply map_ext; intros; lia.
Qed.

Lemma ones_from_In b l p :
  In p (ones_from b l) <-> b <= p /\ nth_error l (Z.to_nat (p - b)) = Some true.
Proof.
  revert b. induction l as [|x l IH]; intros b.
  - cbn [ones_from In]. split; [tauto|]. intros [_ H]. destruct (Z.to_nat (p - b)); discriminate.
  - cbn [ones_from].
    assert (Hstep : forall q, b + 1 <= q -> nth_error (x :: l) (Z.to_nat (q - b)) = nth_error l (Z.to_nat (q - (b + 1)))).
    { intros q Hq. replace (Z.to_nat (q - b)) with (S (Z.to_nat (q - (b + 1)))) by lia. reflexivity. }
    destruct x.
    + cbn [In]. rewrite IH. split.
      * intros [<-|[Hle Hn]]; [split; [lia|]; now rewrite Z.sub_diag|].
        split; [lia|]. now rewrite Hstep by lia.
      * intros [Hle Hn]. destruct (Z.eq_dec b p) as [|Hne]; [now left|right].
        split; [lia|]. now rewrite <- Hstep by lia.
    + rewrite IH. split.
      * intros [Hle Hn]. split; [lia|]. now rewrite Hstep by lia.
      * intros [Hle Hn]. destruct (Z.eq_dec b p) as [->|Hne].
        { rewrite Z.sub_diag in Hn. discriminate. }
        split; [lia|]. now rewrite <- Hstep by lia.
Qed.

Lemma ones_In bs p : In p (ones bs) <-> 0 <= p /\ nth_error bs (Z.to_nat p) = Some true.
Proof. unfold ones. rewrite ones_from_In. now rewrite Z.sub_0_r. Qed.

Lemma ones_from_lb b l p : In p (ones_from b l) -> b <= p < b + Z.of_nat (length l).
Proof.
  intros H. apply ones_from_In in H. destruct H as [Hle Hn]. split; [exact Hle|].
  assert (Z.to_nat (p - b) < length l)%nat by (apply nth_error_Some; congruence). lia.
Qed.

Lemma ones_from_sorted b l : StronglySorted Z.lt (ones_from b l).
Proof.
  revert b. induction l as [|x l IH]; intros b; [constructor|].
  cbn [ones_from]. destruct x; [|apply IH].
  constructor; [apply IH|]. apply Forall_forall. intros p Hp. apply ones_from_lb in Hp. lia.
Qed.

Lemma ones_sorted bs : StronglySorted Z.lt (ones bs).
Proof. apply ones_from_sorted. Qed.

Lemma ones_length bs : Z.of_nat (length (ones bs)) = count_true bs.
Proof. apply ones_from_length. Qed.

(** * nthZ *)
Lemma nthZ_Some {A} (l : list A) i x :
  nthZ l i = Some x <-> 0 <= i /\ nth_error l (Z.to_nat i) = Some x.
Proof.
  unfold nthZ. destruct (Z.ltb_spec i 0); split.
  - discriminate.
  - intros [? ?]; lia.
  - intros; split; [lia|assumption].
  - intros [? ?]; assumption.
Qed.

Lemma nthZ_of_nat {A} (l : list A) k : nthZ l (Z.of_nat k) = nth_error l k.
Proof. unfold nthZ. destruct (Z.ltb_spec (Z.of_nat k) 0); [lia|]. now rewrite Nat2Z.id. Qed.

Lemma nthZ_in_range {A} (l : list A) i : 0 <= i < zlen l -> exists x, nthZ l i = Some x.
Proof.
  intros Hi. unfold nthZ, zlen in *. destruct (Z.ltb_spec i 0); [lia|].
  destruct (nth_error l (Z.to_nat i)) eqn:E; [eauto|].
  apply nth_error_None in E. lia.
Qed.
