(** Lemmas for the proofs of C14 (Join / Getw / Slice): one bit of a bitmap
    addressed by its position ([tb]), lists compared position by position,
    [set_nth] / [or_at], the bits of a shifted masked value. *)
From Coq Require Import ZArith List Lia Bool.
From Low Require Import Lib.MachInt Lib.Bits Lib.BitSeq Lib.BitsExtra_bm2 Model.BitmapUtil.
Import ListNotations.
Open Scope Z_scope.

(** * bit [p] of a bitmap: bit [p mod 64] of word [p / 64] ([false] outside) *)
Definition tb (ws : list Z) (p : Z) : bool :=
  Z.testbit (nth (Z.to_nat (p / 64)) ws 0) (p mod 64).

Lemma nth_flat_tb ws n : nth n (flat ws) false = tb ws (Z.of_nat n).
Proof.
  unfold tb.
  assert (Hk : Z.to_nat (Z.of_nat n / 64) = (n / 64)%nat).
  { change 64 with (Z.of_nat 64). rewrite <- Nat2Z.inj_div. apply Nat2Z.id. }
  assert (Hj : Z.of_nat n mod 64 = Z.of_nat (n mod 64)).
  { change 64 with (Z.of_nat 64). now rewrite <- Nat2Z.inj_mod. }
  rewrite Hk, Hj.
  pose proof (Nat.div_mod_eq n 64) as E.
  assert (Hm : (n mod 64 < 64)%nat) by (apply Nat.mod_upper_bound; lia).
  destruct (nth_error ws (n / 64)) as [w|] eqn:Ew.
  - rewrite (nth_error_nth _ _ 0 Ew).
    rewrite E at 1. erewrite nth_error_nth; [reflexivity|]. apply nth_error_flat; assumption.
  - apply nth_error_None in Ew. rewrite (nth_overflow ws) by lia. rewrite Z.bits_0.
    apply nth_overflow. rewrite flat_length. lia.
Qed.

Lemma flat_eq_by_tb r (l : list bool) :
  length l = (64 * length r)%nat ->
  (forall n, (n < length l)%nat -> tb r (Z.of_nat n) = nth n l false) -> flat r = l.
Proof.
  intros Hl H. apply (nth_ext _ _ false false).
  - rewrite flat_length. lia.
  - intros n Hn. rewrite nth_flat_tb. apply H. rewrite flat_length in Hn. lia.
Qed.

Lemma tb_repeat0 n p : tb (repeat 0 n) p = false.
Proof.
  unfold tb. destruct (Nat.lt_ge_cases (Z.to_nat (p / 64)) n) as [H|H].
  - rewrite nth_repeat. (* nth_repeat: nth n (repeat a m) a = a *)
    apply Z.bits_0.
  - rewrite nth_overflow by (rewrite repeat_length; lia). apply Z.bits_0.
Qed.

(** * [nth] of [firstn] / [skipn] / [repeat] *)
Lemma nth_skipn {A} (l : list A) k n d : nth n (skipn k l) d = nth (k + n) l d.
Proof.
  revert l. induction k as [|k IH]; intros l; [reflexivity|].
  destruct l as [|a l]; [destruct n; reflexivity|]. cbn [skipn Nat.add nth]. apply IH.
Qed.

Lemma nth_firstn_lt {A} (l : list A) k n d : (n < k)%nat -> nth n (firstn k l) d = nth n l d.
Proof.
  revert l n. induction k as [|k IH]; intros l n Hn; [lia|].
  destruct l as [|a l]; [reflexivity|]. rewrite firstn_cons.
  destruct n as [|n]; [reflexivity|]. cbn [nth]. apply IH. lia.
Qed.

Lemma nth_repeat_false n m : nth n (repeat false m) false = false.
Proof.
  destruct (Nat.lt_ge_cases n m).
  - apply nth_repeat.
  - apply nth_overflow. rewrite repeat_length. lia.
Qed.

Lemma nth_bits n z i : (i < n)%nat -> nth i (bits n z) false = Z.testbit z (Z.of_nat i).
Proof. intros H. apply nth_error_nth. now apply nth_error_bits. Qed.

(** * [set_nth] / [or_at] *)
Lemma set_nth_length {A} (l : list A) n x : length (set_nth l n x) = length l.
Proof.
  revert n. induction l as [|a l IH]; intros n; [reflexivity|].
  destruct n; cbn [set_nth length]; [reflexivity|]. now rewrite IH.
Qed.

Lemma nth_set_nth {A} (l : list A) n x d m :
  (n < length l)%nat -> nth m (set_nth l n x) d = if Nat.eqb m n then x else nth m l d.
Proof.
  revert n m. induction l as [|a l IH]; intros n m Hn; cbn [length] in Hn; [lia|].
  destruct n as [|n]; cbn [set_nth].
  - destruct m; reflexivity.
  - destruct m as [|m]; [reflexivity|]. cbn [nth Nat.eqb]. apply IH. lia.
Qed.

Lemma set_nth_Forall {A} (P : A -> Prop) l n x : Forall P l -> P x -> Forall P (set_nth l n x).
Proof.
  intros Hl Hx. revert n. induction Hl as [|a l Ha Hl IH]; intros n; [constructor|].
  destruct n; cbn [set_nth]; constructor; auto.
Qed.

Lemma lor_u64 a b : 0 <= a < 2^64 -> 0 <= b < 2^64 -> 0 <= Z.lor a b < 2^64.
Proof.
  intros Ha Hb.
  assert (H0 : 0 <= Z.lor a b) by (apply Z.lor_nonneg; lia).
  split; [exact H0|].
  destruct (Z.eq_dec (Z.lor a b) 0) as [E|Hne]; [rewrite E; lia|].
  apply Z.log2_lt_pow2; [lia|]. rewrite Z.log2_lor by lia.
  apply Z.max_lub_lt.
  - destruct (Z.eq_dec a 0) as [->|]; [cbn; lia|apply Z.log2_lt_pow2; lia].
  - destruct (Z.eq_dec b 0) as [->|]; [cbn; lia|apply Z.log2_lt_pow2; lia].
Qed.

Lemma or_at_spec r k v :
  words_ok r -> 0 <= v < 2^64 -> 0 <= k < zlen r ->
  exists r', or_at r k v = Some r' /\ length r' = length r /\ words_ok r' /\
    forall p, 0 <= p -> tb r' p = tb r p || ((p / 64 =? k) && Z.testbit v (p mod 64)).
Proof.
  intros Hr Hv Hk. unfold or_at.
  destruct (nthZ_in_range r k Hk) as [old Hold]. rewrite Hold.
  apply nthZ_Some in Hold. destruct Hold as [_ Hold].
  assert (Hlt : (Z.to_nat k < length r)%nat) by (unfold zlen in Hk; lia).
  eexists. split; [reflexivity|]. split; [apply set_nth_length|]. split.
  - apply set_nth_Forall; [exact Hr|]. apply lor_u64; [|exact Hv].
    eapply words_ok_nth_error; eauto.
  - intros p Hp. unfold tb. rewrite nth_set_nth by exact Hlt.
    assert (0 <= p / 64) by (apply Z.div_pos; lia).
    destruct (Z.eqb_spec (p / 64) k) as [E|E].
    + subst k. rewrite Nat.eqb_refl. rewrite (nth_error_nth _ _ 0 Hold).
      rewrite Z.lor_spec. reflexivity.
    + destruct (Nat.eqb_spec (Z.to_nat (p / 64)) (Z.to_nat k)) as [E'|E']; [lia|].
      cbn [andb]. now rewrite orb_false_r.
Qed.

(** * widths: the divisors of 64 *)
Lemma width_cases (P : Z -> Prop) w :
  In w [1; 2; 4; 8; 16; 32; 64] -> P 1 -> P 2 -> P 4 -> P 8 -> P 16 -> P 32 -> P 64 -> P w.
Proof.
  intros H. cbn [In] in H.
  destruct H as [<-|[<-|[<-|[<-|[<-|[<-|[<-|[]]]]]]]]; auto.
Qed.

Lemma width_fits w i : In w [1; 2; 4; 8; 16; 32; 64] -> 0 < w <= 64 /\ (i * w) mod 64 + w <= 64.
Proof.
  intros H. pattern w. apply (width_cases _ w H); (split; [lia|]).
  all: pose proof (Z.div_mod (i * 1) 64); pose proof (Z.mod_pos_bound (i * 1) 64);
       pose proof (Z.div_mod (i * 2) 64); pose proof (Z.mod_pos_bound (i * 2) 64);
       pose proof (Z.div_mod (i * 4) 64); pose proof (Z.mod_pos_bound (i * 4) 64);
       pose proof (Z.div_mod (i * 8) 64); pose proof (Z.mod_pos_bound (i * 8) 64);
       pose proof (Z.div_mod (i * 16) 64); pose proof (Z.mod_pos_bound (i * 16) 64);
       pose proof (Z.div_mod (i * 32) 64); pose proof (Z.mod_pos_bound (i * 32) 64);
       pose proof (Z.div_mod (i * 64) 64); pose proof (Z.mod_pos_bound (i * 64) 64);
       lia.
Qed.

(** * the bits of [(e & Mask[w]) << s] when it fits a word *)
Lemma shl_mask_range e w s : 0 <= w -> 0 <= s -> s + w <= 64 ->
  shl64 (Z.land e (Mask w)) s = (e mod 2 ^ w) * 2 ^ s /\ 0 <= (e mod 2 ^ w) * 2 ^ s < 2 ^ 64.
Proof.
  intros Hw Hs Hsw. rewrite land_mask by lia.
  assert (Hm : 0 <= e mod 2 ^ w < 2 ^ w) by (apply Z.mod_pos_bound; lia).
  assert (Hb : 0 <= e mod 2 ^ w * 2 ^ s < 2 ^ 64).
  { split; [nia|]. apply Z.lt_le_trans with (2 ^ w * 2 ^ s); [nia|].
    rewrite <- Z.pow_add_r by lia. apply Z.pow_le_mono_r; lia. }
  split; [|exact Hb].
  destruct (Z.eq_dec s 64) as [->|Hne].
  - assert (w = 0) by lia. subst w. change (2 ^ 0) with 1. rewrite Z.mod_1_r. reflexivity.
  - apply shl64_small; [lia|exact Hb].
Qed.

Lemma testbit_shl_mask e w s t : 0 <= w -> 0 <= s -> 0 <= t ->
  Z.testbit ((e mod 2 ^ w) * 2 ^ s) t = (s <=? t) && (t <? s + w) && Z.testbit e (t - s).
Proof.
  intros Hw Hs Ht. rewrite Z.mul_pow2_bits by lia.
  destruct (Z.leb_spec s t) as [H|H].
  - destruct (Z.ltb_spec t (s + w)) as [H'|H']; cbn [andb].
    + apply Z.mod_pow2_bits_low. lia.
    + apply Z.mod_pow2_bits_high. lia.
  - cbn [andb]. apply Z.testbit_neg_r. lia.
Qed.

(** position arithmetic *)
Lemma pos_eq_split q j : (q / 64 =? j / 64) && (q mod 64 =? j mod 64) = (q =? j).
Proof.
  pose proof (Z.div_mod q 64). pose proof (Z.div_mod j 64).
  destruct (Z.eqb_spec (q / 64) (j / 64)), (Z.eqb_spec (q mod 64) (j mod 64)), (Z.eqb_spec q j);
    cbn [andb]; try reflexivity; try lia; subst; congruence.
Qed.
