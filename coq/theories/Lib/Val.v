(** Universal value type of the correspondence protocol.

    Every case line written by the Go harness is  [op  args  obs  key]  where
    [args] and [obs] are values of this type.  The per-property [Run/Cxx.v]
    files unpack [args], call the model function and the specification
    function, and pack the results again; the OCaml driver only parses and
    prints [val] and calls [Run.All.judge].  The same [judge] is evaluated by
    [vm_compute] inside Coq in the thorough tier (cross-check of extraction
    and of the driver's parser). *)
From Coq Require Import ZArith List Bool String.
Import ListNotations.
Open Scope Z_scope.

Inductive val : Type :=
| VZ (z : Z)           (* every integer, bools as 0/1 *)
| VL (l : list val)    (* lists, tuples, byte strings (list of VZ) *)
| VPanic               (* the implementation panicked / the model returned None *)
| VBad.                (* protocol error: malformed arguments for this op *)

Fixpoint val_eqb (a b : val) {struct a} : bool :=
  match a, b with
  | VZ x, VZ y => x =? y
  | VL l, VL m =>
      (fix go (l : list val) (m : list val) {struct l} : bool :=
         match l, m with
         | [], [] => true
         | x :: l', y :: m' => val_eqb x y && go l' m'
         | _, _ => false
         end) l m
  | VPanic, VPanic => true
  | VBad, VBad => true
  | _, _ => false
  end.

Definition vbool (b : bool) : val := VZ (Z.b2z b).
Definition vzs (l : list Z) : val := VL (map VZ l).
Definition vzss (l : list (list Z)) : val := VL (map vzs l).
Definition vpair (a b : val) : val := VL [a; b].
Definition vopt (o : option val) : val := match o with Some v => v | None => VPanic end.

Definition as_z (v : val) : option Z := match v with VZ z => Some z | _ => None end.
Definition as_bool (v : val) : option bool := match v with VZ z => Some (negb (z =? 0)) | _ => None end.
Definition as_list (v : val) : option (list val) := match v with VL l => Some l | _ => None end.

Fixpoint opt_all {A} (l : list (option A)) : option (list A) :=
  match l with
  | [] => Some []
  | Some x :: t => match opt_all t with Some r => Some (x :: r) | None => None end
  | None :: _ => None
  end.

Definition as_zs (v : val) : option (list Z) :=
  match v with VL l => opt_all (map as_z l) | _ => None end.
Definition as_zss (v : val) : option (list (list Z)) :=
  match v with VL l => opt_all (map as_zs l) | _ => None end.

(** one protocol operation: the model and the specification side *)
Record opdef := {
  op_name : string;
  (** model: what the Gallina re-statement of the Go function returns *)
  op_run  : list val -> val;
  (** specification: does the property accept [obs] as the result for [args]?
      For functional properties this is [val_eqb (spec args) obs] with [spec]
      the naive definition the theorems are stated against. *)
  op_spec : list val -> val -> bool;
}.

Definition fun_spec (f : list val -> val) : list val -> val -> bool :=
  fun args obs => val_eqb (f args) obs.

(** verdict codes of [judge] *)
Definition J_OK       : Z := 0.  (* obs = model output and the spec accepts obs *)
Definition J_MISMATCH : Z := 1.  (* obs <> model output, spec still accepts obs (correspondence only) *)
Definition J_SPECFAIL : Z := 2.  (* the spec rejects the implementation's output: failing input *)
Definition J_BAD      : Z := 3.  (* protocol error / unknown op *)
Definition J_MODELBUG : Z := 4.  (* the spec rejects the MODEL's output but accepts obs: tool error *)

Definition judge_op (d : opdef) (args : list val) (obs : val) : Z * val :=
  let m := op_run d args in
  match m with
  | VBad => (J_BAD, m)
  | _ =>
    let ok_obs := op_spec d args obs in
    if negb ok_obs then (J_SPECFAIL, m)
    else if val_eqb m obs then (J_OK, m)
    else if op_spec d args m then (J_MISMATCH, m)
    else (J_MODELBUG, m)
  end.

Fixpoint find_op (ops : list opdef) (name : string) : option opdef :=
  match ops with
  | [] => None
  | d :: t => if String.eqb (op_name d) name then Some d else find_op t name
  end.

Definition judge_in (ops : list opdef) (name : string) (args : val) (obs : val) : Z * val :=
  match find_op ops name, args with
  | Some d, VL a => judge_op d a obs
  | _, _ => (J_BAD, VBad)
  end.
