(** Strictly ascending lists of integers: two such lists with the same members
    are equal; windows of ascending lists; integer ranges.  Used by C04. *)
From Coq Require Import ZArith List Lia Bool.
Import ListNotations.
Open Scope Z_scope.

(** strictly ascending *)
Fixpoint sasc (l : list Z) : Prop :=
  match l with
  | [] => True
  | a :: t => Forall (fun x => a < x) t /\ sasc t
  end.

Lemma Forall_lt_In a l y : Forall (fun x => a < x) l -> In y l -> a < y.
Proof. intros F H. exact (proj1 (Forall_forall _ _) F y H). Qed.
Lemma Forall_le_In a l y : Forall (fun x => a <= x) l -> In y l -> a <= y.
Proof. intros F H. exact (proj1 (Forall_forall _ _) F y H). Qed.

Lemma sasc_nil : sasc [].
Proof. exact I. Qed.

Lemma sasc_single a : sasc [a].
Proof. split; [constructor|exact I]. Qed.

Lemma sasc_app a b : sasc (a ++ b) <-> sasc a /\ sasc b /\ (forall x y, In x a -> In y b -> x < y).
Proof.
  induction a as [|x a IH]; cbn [app sasc].
  - split; [intros H; repeat split; [exact H|intros ? ? []]|intros (_ & H & _); exact H].
  - rewrite Forall_app, IH. split.
    + intros ((Fa & Fb) & Sa & Sb & Hab). repeat split; try assumption.
      intros u v [<-|Hu] Hv; [exact (Forall_lt_In _ _ _ Fb Hv)|now apply Hab].
    + intros ((Fa & Sa) & Sb & Hab). repeat split; try assumption.
      * apply Forall_forall. intros v Hv. apply Hab; [now left|exact Hv].
      * intros u v Hu Hv. apply Hab; [now right|exact Hv].
Qed.

Lemma sasc_filter f l : sasc l -> sasc (filter f l).
Proof.
  induction l as [|a l IH]; cbn [filter sasc]; [trivial|].
  intros (F & S). destruct (f a); cbn [sasc]; [split|]; auto.
  apply Forall_forall. intros x Hx. apply filter_In in Hx.
  exact (Forall_lt_In _ _ _ F (proj1 Hx)).
Qed.

Lemma sasc_map g l : (forall x y, x < y -> g x < g y) -> sasc l -> sasc (map g l).
Proof.
  intros Hg. induction l as [|a l IH]; cbn [map sasc]; [trivial|].
  intros (F & S). split; [|auto].
  apply Forall_forall. intros y Hy. apply in_map_iff in Hy. destruct Hy as (x & <- & Hx).
  apply Hg. exact (Forall_lt_In _ _ _ F Hx).
Qed.

Lemma sasc_NoDup l : sasc l -> NoDup l.
Proof.
  induction l as [|a l IH]; cbn [sasc]; [constructor|].
  intros (F & S). constructor; [|auto].
  intros Hin. pose proof (Forall_lt_In _ _ _ F Hin). lia.
Qed.

(** extensionality: same members => same list *)
Lemma sasc_ext : forall a b, sasc a -> sasc b -> (forall x, In x a <-> In x b) -> a = b.
Proof.
  induction a as [|x a IH]; intros [|y b] Sa Sb H.
  - reflexivity.
  - exfalso. apply (proj2 (H y)). now left.
  - exfalso. apply (proj1 (H x)). now left.
  - cbn [sasc] in Sa, Sb. destruct Sa as (Fa & Sa), Sb as (Fb & Sb).
    assert (x = y).
    { destruct (proj1 (H x) (or_introl eq_refl)) as [E|Hx]; [now symmetry|].
      destruct (proj2 (H y) (or_introl eq_refl)) as [E|Hy]; [exact E|].
      pose proof (Forall_lt_In _ _ _ Fb Hx).
      pose proof (Forall_lt_In _ _ _ Fa Hy). lia. }
    subst y. f_equal. apply IH; try assumption.
    intros z. split; intros Hz.
    + destruct (proj1 (H z) (or_intror Hz)) as [E|Hz']; [|exact Hz'].
      subst z. pose proof (Forall_lt_In _ _ _ Fa Hz). lia.
    + destruct (proj2 (H z) (or_intror Hz)) as [E|Hz']; [|exact Hz'].
      subst z. pose proof (Forall_lt_In _ _ _ Fb Hz). lia.
Qed.

(** concatenation of ascending blocks indexed by an ascending list *)
Lemma sasc_flat_map (f : Z -> list Z) : forall js,
  sasc js -> (forall j, In j js -> sasc (f j)) ->
  (forall j j' x y, In j js -> In j' js -> j < j' -> In x (f j) -> In y (f j') -> x < y) ->
  sasc (flat_map f js).
Proof.
  induction js as [|j js IH]; cbn [flat_map sasc]; [trivial|].
  intros (F & S) Hb Hx. apply sasc_app. split; [apply Hb; now left|]. split.
  - apply IH; [exact S|intros; apply Hb; now right|].
    intros j1 j2 x y H1 H2. apply Hx; now right.
  - intros x y Hxj Hy. apply in_flat_map in Hy. destruct Hy as (j' & Hj' & Hy).
    apply (Hx j j' x y); [now left|now right| |exact Hxj|exact Hy].
    exact (Forall_lt_In _ _ _ F Hj').
Qed.

(** * integer ranges [i, i+n) *)
Fixpoint zrange (i : Z) (n : nat) : list Z :=
  match n with O => [] | S n' => i :: zrange (i + 1) n' end.

Lemma zrange_In : forall n i x, In x (zrange i n) <-> i <= x < i + Z.of_nat n.
Proof.
  induction n as [|n IH]; intros i x; cbn [zrange In].
  - lia.
  - rewrite IH. lia.
Qed.

Lemma zrange_sasc : forall n i, sasc (zrange i n).
Proof.
  induction n as [|n IH]; intros i; cbn [zrange sasc]; [trivial|].
  split; [|apply IH]. apply Forall_forall. intros x Hx. apply zrange_In in Hx. lia.
Qed.

Lemma zrange_length : forall n i, length (zrange i n) = n.
Proof. induction n as [|n IH]; intros i; cbn [zrange length]; [reflexivity|now rewrite IH]. Qed.

(** * the loop "skip what is below [from], stop at the first element >= [to]" *)
Definition in_win (from to w : Z) : bool := (from <=? w) && (w <? to).

Fixpoint scan (from to : Z) (l : list Z) : list Z * bool :=
  match l with
  | [] => ([], false)
  | p :: r =>
      if p <? from then scan from to r
      else if to <=? p then ([], true)
      else let (r', s) := scan from to r in (p :: r', s)
  end.

Lemma scan_app from to a b :
  scan from to (a ++ b) =
  (let (ra, sa) := scan from to a in
   if sa then (ra, true) else let (rb, sb) := scan from to b in (ra ++ rb, sb)).
Proof.
  induction a as [|p a IH]; cbn [app scan].
  - destruct (scan from to b); reflexivity.
  - destruct (p <? from); [exact IH|]. destruct (to <=? p); [reflexivity|].
    rewrite IH. destruct (scan from to a) as [ra sa]. destruct sa; [reflexivity|].
    destruct (scan from to b); reflexivity.
Qed.

(** on a (weakly) ascending list the loop returns the window *)
Fixpoint wasc (l : list Z) : Prop :=
  match l with
  | [] => True
  | a :: t => Forall (fun x => a <= x) t /\ wasc t
  end.

Lemma sasc_wasc l : sasc l -> wasc l.
Proof.
  induction l as [|a l IH]; cbn [sasc wasc]; [trivial|]. intros (F & S). split; [|auto].
  eapply Forall_impl; [|exact F]. cbn. intros; lia.
Qed.

Lemma filter_none {A} (f : A -> bool) l : (forall x, In x l -> f x = false) -> filter f l = [].
Proof.
  induction l as [|a l IH]; cbn [filter]; [reflexivity|]. intros H.
  rewrite (H a (or_introl eq_refl)). apply IH. intros x Hx. apply H. now right.
Qed.

Lemma scan_fst_window from to l : wasc l -> fst (scan from to l) = filter (in_win from to) l.
Proof.
  induction l as [|p l IH]; cbn [scan filter wasc]; [reflexivity|]. intros (F & S).
  unfold in_win at 1.
  destruct (p <? from) eqn:E1.
  - replace (from <=? p) with false by (symmetry; apply Z.leb_gt; apply Z.ltb_lt in E1; lia).
    cbn [andb]. auto.
  - replace (from <=? p) with true by (symmetry; apply Z.leb_le; apply Z.ltb_ge in E1; lia).
    cbn [andb]. destruct (to <=? p) eqn:E2.
    + replace (p <? to) with false by (symmetry; apply Z.ltb_ge; apply Z.leb_le in E2; lia).
      cbn [fst]. symmetry. apply filter_none. intros x Hx.
      pose proof (Forall_le_In _ _ _ F Hx). apply Z.leb_le in E2.
      unfold in_win. replace (x <? to) with false by (symmetry; apply Z.ltb_ge; lia).
      apply andb_false_r.
    + replace (p <? to) with true by (symmetry; apply Z.ltb_lt; apply Z.leb_gt in E2; lia).
      specialize (IH S). destruct (scan from to l) as [r' s]. cbn [fst] in *. now rewrite IH.
Qed.
