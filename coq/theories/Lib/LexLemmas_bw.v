(** Lemmas about lexicographic comparison (Lib/Lex.v) used by C08/C09:
    appending, zero padding, byte order = bit order. *)
From Coq Require Import ZArith List Bool Lia PeanoNat.
From Low Require Import Lib.Bits Lib.BitSeq Lib.Bytes Lib.Lex Lib.Pack_bw Lib.PackLemmas_bw.
Import ListNotations.
Open Scope Z_scope.

Lemma lex_cmp_app_eqlen {A} (cmp : A -> A -> comparison) (a1 : list A) :
  forall b1 a2 b2, length a1 = length b1 ->
  lex_cmp cmp (a1 ++ a2) (b1 ++ b2) =
  match lex_cmp cmp a1 b1 with Eq => lex_cmp cmp a2 b2 | c => c end.
Proof.
  induction a1 as [|x a1 IH]; intros [|y b1] a2 b2 H; try discriminate H.
  - reflexivity.
  - cbn [app lex_cmp]. destruct (cmp x y); try reflexivity. apply IH. cbn in H. lia.
Qed.

Lemma lex_cmp_app_same {A} (cmp : A -> A -> comparison) :
  (forall x, cmp x x = Eq) ->
  forall p a b, lex_cmp cmp (p ++ a) (p ++ b) = lex_cmp cmp a b.
Proof.
  intros R p a b. rewrite lex_cmp_app_eqlen by reflexivity. now rewrite lex_cmp_refl.
Qed.

(** a strictly shorter left side does not see what follows the right side *)
Lemma lex_cmp_shorter_app {A} (cmp : A -> A -> comparison) (a : list A) :
  forall b z, (length a < length b)%nat -> lex_cmp cmp a (b ++ z) = lex_cmp cmp a b.
Proof.
  induction a as [|x a IH]; intros [|y b] z H; cbn in H; try lia.
  - reflexivity.
  - cbn [app lex_cmp]. destruct (cmp x y); try reflexivity. apply IH. lia.
Qed.

Lemma bool_cmp_antisym x y : bool_cmp y x = CompOpp (bool_cmp x y).
Proof. destruct x, y; reflexivity. Qed.

Lemma bits_cmp_antisym a b : bits_cmp b a = CompOpp (bits_cmp a b).
Proof. apply lex_cmp_antisym. apply bool_cmp_antisym. Qed.

Lemma bits_cmp_refl a : bits_cmp a a = Eq.
Proof. apply lex_cmp_refl. apply bool_cmp_refl. Qed.

Lemma bits_cmp_eq a b : bits_cmp a b = Eq <-> a = b.
Proof. apply lex_cmp_eq. apply bool_cmp_eq. Qed.

Lemma bytes_cmp_antisym a b : bytes_cmp b a = CompOpp (bytes_cmp a b).
Proof. apply lex_cmp_antisym. intros x y. apply Z.compare_antisym. Qed.

Lemma cmp_sign_opp c : cmp_sign (CompOpp c) = - cmp_sign c.
Proof. destruct c; reflexivity. Qed.

(** zeros against anything longer: smaller (a proper prefix, or a 0 against a 1) *)
Lemma zeros_lt p : forall l, (p < length l)%nat -> bits_cmp (repeat false p) l = Lt.
Proof.
  induction p as [|p IH]; intros [|x l] H; cbn in H; try lia.
  - reflexivity.
  - cbn [repeat]. unfold bits_cmp. cbn [lex_cmp]. destruct x; cbn [bool_cmp]; [reflexivity|].
    apply IH. lia.
Qed.

(** one byte: numeric order = order of its 8 bits *)
Lemma byte_cmp_bits x y : byte_ok x -> byte_ok y -> (x ?= y) = bits_cmp (byte_bits x) (byte_bits y).
Proof.
  intros Hx Hy.
  assert (T : forallb (fun x => forallb (fun y =>
                comparison_eqb (x ?= y) (bits_cmp (byte_bits x) (byte_bits y))) (zrange 256)) (zrange 256) = true)
    by (vm_compute; reflexivity).
  apply comparison_eqb_eq.
  apply (forall_zrange _ _ (forall_zrange _ _ T x Hx) y Hy).
Qed.

(** Go's byte-string order is the bit-string order of the MSB-first bits *)
Lemma bytes_cmp_msb_bits x : forall y, bytes_ok x -> bytes_ok y ->
  bytes_cmp x y = bits_cmp (msb_bits x) (msb_bits y).
Proof.
  induction x as [|a x IH]; intros [|b y] Hx Hy.
  - reflexivity.
  - rewrite msb_bits_cons. pose proof (byte_bits_length b) as L.
    destruct (byte_bits b) as [|? ?]; [discriminate L|reflexivity].
  - rewrite msb_bits_cons. pose proof (byte_bits_length a) as L.
    destruct (byte_bits a) as [|? ?]; [discriminate L|reflexivity].
  - inversion Hx as [|? ? Ha Hx']; inversion Hy as [|? ? Hb Hy']; subst.
    rewrite !msb_bits_cons. unfold bits_cmp. rewrite lex_cmp_app_eqlen by (now rewrite !byte_bits_length).
    fold bits_cmp. rewrite <- byte_cmp_bits by assumption.
    unfold bytes_cmp. cbn [lex_cmp]. fold bytes_cmp. destruct (a ?= b); try reflexivity.
    now apply IH.
Qed.
