(** Lemmas shared by the proofs of C12, C13, C14 (bitmap construction,
    NextOne/PrevOne, Join/Getw/Slice): single bits of a flattened bitmap,
    masks by [testbit], first/last element of a filtered sorted list. *)
From Coq Require Import ZArith List Lia Bool Sorted.
From Low Require Import Lib.MachInt Lib.Bits Lib.BitSeq.
Import ListNotations.
Open Scope Z_scope.

(** * [nth] with default [false] *)
Lemma nth_true_iff (l : list bool) n : nth n l false = true <-> nth_error l n = Some true.
Proof.
  revert n. induction l as [|b l IH]; intros [|n]; cbn [nth nth_error]; try (split; discriminate).
  - split; [intros ->; reflexivity|intros H; now injection H].
  - apply IH.
Qed.

Lemma ones_In_bitz bs p : In p (ones bs) <-> 0 <= p /\ bitz bs p = true.
Proof. rewrite ones_In. unfold bitz. now rewrite nth_true_iff. Qed.

Lemma bitz_true_lt bs p : 0 <= p -> bitz bs p = true -> p < Z.of_nat (length bs).
Proof.
  intros Hp H. unfold bitz in H. apply nth_true_iff in H.
  assert (Z.to_nat p < length bs)%nat by (apply nth_error_Some; congruence). lia.
Qed.

(** * one bit of a flattened bitmap *)
Lemma words_ok_nth_error ws k w : words_ok ws -> nth_error ws k = Some w -> 0 <= w < 2^64.
Proof. intros H Hn. eapply Forall_forall in H; [exact H|]. eapply nth_error_In; eauto. Qed.

Lemma bitz_flat ws k w j :
  nth_error ws k = Some w -> 0 <= j < 64 ->
  bitz (flat ws) (64 * Z.of_nat k + j) = Z.testbit w j.
Proof.
  intros H Hj. unfold bitz.
  replace (Z.to_nat (64 * Z.of_nat k + j)) with (64 * k + Z.to_nat j)%nat by lia.
  erewrite nth_error_nth; [reflexivity|].
  rewrite (nth_error_flat ws k w (Z.to_nat j) H) by lia. f_equal. f_equal. lia.
Qed.

Lemma shiftr6 p : Z.shiftr p 6 = p / 64.
Proof. now rewrite Z.shiftr_div_pow2 by lia. Qed.

Lemma land63 p : Z.land p 63 = p mod 64.
Proof. change 63 with (Z.ones 6). now rewrite Z.land_ones by lia. Qed.

Lemma shiftl6 p : Z.shiftl p 6 = 64 * p.
Proof. rewrite Z.shiftl_mul_pow2 by lia. change (2 ^ 6) with 64. lia. Qed.

(** [x & ^63] on a signed integer *)
Lemma land_m64 x : Z.land x (-64) = 64 * (x / 64).
Proof.
  change (-64) with (Z.lnot (Z.ones 6)). rewrite <- Z.ldiff_land, Z.ldiff_ones_r by lia.
  rewrite Z.shiftl_mul_pow2, Z.shiftr_div_pow2 by lia. change (2 ^ 6) with 64. lia.
Qed.

(** the word holding position [p], and its bits *)
Lemma word_at ws p :
  words_ok ws -> 0 <= p < 64 * zlen ws ->
  exists w, nthZ ws (p / 64) = Some w /\ nth_error ws (Z.to_nat (p / 64)) = Some w /\ 0 <= w < 2^64.
Proof.
  intros Hok Hp. unfold zlen in Hp.
  assert (Hk : 0 <= p / 64 < Z.of_nat (length ws)).
  { split; [apply Z.div_pos; lia|apply Z.div_lt_upper_bound; lia]. }
  destruct (nth_error ws (Z.to_nat (p / 64))) as [w|] eqn:E.
  - exists w. split; [|split; [reflexivity|eapply words_ok_nth_error; eauto]].
    apply nthZ_Some. split; [lia|exact E].
  - apply nth_error_None in E. lia.
Qed.

(** * masks, bit by bit *)
Lemma RMask_shiftl j : 0 <= j <= 64 -> RMask j = Z.shiftl (Z.ones (64 - j)) j.
Proof.
  intros Hj. unfold RMask. rewrite Z.shiftl_mul_pow2, Z.ones_equiv by lia.
  rewrite <- Z.sub_1_r, Z.mul_sub_distr_r, <- Z.pow_add_r by lia.
  replace (64 - j + j) with 64 by lia. lia.
Qed.

Lemma testbit_land_RMask w j t : 0 <= j <= 64 -> 0 <= t ->
  Z.testbit (Z.land w (RMask j)) t = Z.testbit w t && ((j <=? t) && (t <? 64)).
Proof.
  intros Hj Ht. rewrite Z.land_spec, RMask_shiftl by exact Hj. f_equal.
  rewrite Z.shiftl_spec by lia.
  destruct (Z.leb_spec j t).
  - rewrite Z.testbit_ones by lia. destruct (Z.leb_spec 0 (t - j)); [|lia]. cbn [andb].
    destruct (Z.ltb_spec (t - j) (64 - j)), (Z.ltb_spec t 64); try reflexivity; lia.
  - now rewrite Z.testbit_neg_r by lia.
Qed.

Lemma testbit_land_MaskUpto w j t : 0 <= j -> 0 <= t ->
  Z.testbit (Z.land w (MaskUpto j)) t = Z.testbit w t && (t <=? j).
Proof.
  intros Hj Ht. unfold MaskUpto. rewrite Z.land_spec. f_equal.
  replace (2 ^ (j + 1) - 1) with (Z.ones (j + 1)) by (rewrite Z.ones_equiv; lia).
  rewrite Z.testbit_ones by lia.
  destruct (Z.leb_spec 0 t); [|lia]. cbn [andb].
  destruct (Z.ltb_spec t (j + 1)), (Z.leb_spec t j); try reflexivity; lia.
Qed.

Lemma testbit_land_Mask w j t : 0 <= j -> 0 <= t ->
  Z.testbit (Z.land w (Mask j)) t = Z.testbit w t && (t <? j).
Proof.
  intros Hj Ht. unfold Mask. rewrite Z.land_spec. f_equal.
  replace (2 ^ j - 1) with (Z.ones j) by (rewrite Z.ones_equiv; lia).
  rewrite Z.testbit_ones by lia.
  destruct (Z.leb_spec 0 t); [|lia]. reflexivity.
Qed.

Lemma zero_bits w : w = 0 -> forall t, Z.testbit w t = false.
Proof. intros -> t. apply Z.bits_0. Qed.

Lemma bitlen_pos w : 0 < w -> 1 <= bitlen w.
Proof. intros H. destruct w; try lia. cbn [bitlen]. pose proof (Z.log2_nonneg (Z.pos p)). lia. Qed.

(** * first / last element of a filtered strictly ascending list *)
Lemma filter_none {A} (f : A -> bool) l : (forall q, In q l -> f q = false) -> filter f l = [].
Proof.
  induction l as [|a l IH]; intros H; [reflexivity|].
  cbn [filter]. rewrite (H a (or_introl eq_refl)). apply IH. intros q Hq. apply H. now right.
Qed.

Lemma hd_filter_first (f : Z -> bool) l r d :
  StronglySorted Z.lt l -> In r l -> f r = true ->
  (forall q, In q l -> q < r -> f q = false) -> hd d (filter f l) = r.
Proof.
  induction 1 as [|a l Hs IH Ha]; intros Hin Hr Hlow; [destruct Hin|].
  cbn [filter]. destruct Hin as [->|Hin].
  - now rewrite Hr.
  - assert (a < r) by (eapply Forall_forall in Ha; eauto).
    rewrite (Hlow a (or_introl eq_refl)) by assumption.
    apply IH; auto. intros q Hq. apply Hlow. now right.
Qed.

Lemma last_cons_ne {A} (a : A) l d : l <> [] -> last (a :: l) d = last l d.
Proof. destruct l; [congruence|reflexivity]. Qed.

Lemma last_filter_last (f : Z -> bool) l r d :
  StronglySorted Z.lt l -> In r l -> f r = true ->
  (forall q, In q l -> r < q -> f q = false) -> last (filter f l) d = r.
Proof.
  induction 1 as [|a l Hs IH Ha]; intros Hin Hr Hhigh; [destruct Hin|].
  cbn [filter]. destruct Hin as [->|Hin].
  - rewrite Hr. rewrite (filter_none f l); [reflexivity|].
    intros q Hq. apply Hhigh; [now right|]. eapply Forall_forall in Ha; eauto.
  - assert (Hl : last (filter f l) d = r).
    { apply IH; auto. intros q Hq. apply Hhigh. now right. }
    destruct (f a); [|exact Hl].
    rewrite last_cons_ne; [exact Hl|].
    intros E. assert (In r (filter f l)) by (apply filter_In; auto). rewrite E in *. contradiction.
Qed.
