(** Additional lemmas on [lex_cmp] and [lcp] (Lib/Lex.v), generic in the
    element type, instantiated for bits ([bool_cmp]/[Bool.eqb]) and bytes
    ([Z.compare]/[Z.eqb]).  Used by the sigbits proofs (C16, C17). *)
From Coq Require Import ZArith List Lia Bool.
From Low Require Import Lib.Lex.
Import ListNotations.

Section Gen.
  Context {A : Type} (cmp : A -> A -> comparison) (eqb : A -> A -> bool).
  Hypothesis eqb_spec : forall x y, eqb x y = true <-> x = y.
  Hypothesis cmp_eq : forall x y, cmp x y = Eq <-> x = y.
  Hypothesis cmp_lt_trans : forall x y z, cmp x y = Lt -> cmp y z = Lt -> cmp x z = Lt.

  Local Notation lcp := (lcp eqb).
  Local Notation lex := (lex_cmp cmp).

  Lemma eqb_refl x : eqb x x = true.
  Proof. now apply eqb_spec. Qed.

  Lemma eqb_neq x y : x <> y -> eqb x y = false.
  Proof. intros H. destruct (eqb x y) eqn:E; [|reflexivity]. apply eqb_spec in E. contradiction. Qed.

  Lemma cmp_refl x : cmp x x = Eq.
  Proof. now apply cmp_eq. Qed.

  Lemma cmp_lt_neq x y : cmp x y = Lt -> x <> y.
  Proof. intros H ->. rewrite cmp_refl in H. discriminate. Qed.

  (** ** lcp *)
  Lemma lcp_nil_r a : lcp a [] = [].
  Proof. now destruct a. Qed.

  Lemma lcp_refl a : lcp a a = a.
  Proof. induction a as [|x a IH]; cbn; [reflexivity|]. now rewrite eqb_refl, IH. Qed.

  Lemma lcp_length_l a : forall b, (length (lcp a b) <= length a)%nat.
  Proof.
    induction a as [|x a IH]; intros [|y b]; cbn; try lia.
    destruct (eqb x y); cbn; [specialize (IH b)|]; lia.
  Qed.

  Lemma lcp_length_r a : forall b, (length (lcp a b) <= length b)%nat.
  Proof.
    induction a as [|x a IH]; intros [|y b]; cbn; try lia.
    destruct (eqb x y); cbn; [specialize (IH b)|]; lia.
  Qed.

  Lemma lcp_firstn_l a : forall b, firstn (length (lcp a b)) a = lcp a b.
  Proof.
    induction a as [|x a IH]; intros [|y b]; cbn; try reflexivity.
    destruct (eqb x y); cbn; [now rewrite IH|reflexivity].
  Qed.

  Lemma lcp_firstn_r a : forall b, firstn (length (lcp a b)) b = lcp a b.
  Proof.
    induction a as [|x a IH]; intros [|y b]; cbn; try reflexivity.
    destruct (eqb x y) eqn:E; cbn; [|reflexivity].
    apply eqb_spec in E. subst. now rewrite IH.
  Qed.

  Lemma lcp_app_same p a b : lcp (p ++ a) (p ++ b) = p ++ lcp a b.
  Proof. induction p as [|x p IH]; cbn; [reflexivity|]. now rewrite eqb_refl, IH. Qed.

  (** the common prefix of a prefix [c] of [y] with [z] *)
  Lemma lcp_of_prefix c : forall r z,
    length (lcp c z) = Nat.min (length c) (length (lcp (c ++ r) z)).
  Proof.
    induction c as [|x c IH]; intros r [|z0 z]; cbn; try reflexivity.
    destruct (eqb x z0); cbn; [now rewrite (IH r z)|reflexivity].
  Qed.

  Lemma lcp_ge_trunc_eq k : forall x y, (k <= length (lcp x y))%nat -> firstn k x = firstn k y.
  Proof.
    induction k as [|k IH]; intros x y H; [reflexivity|].
    destruct x as [|a x], y as [|b y]; cbn in H; try lia.
    destruct (eqb a b) eqn:E; cbn in H; [|lia].
    apply eqb_spec in E. subst. cbn. f_equal. apply IH. lia.
  Qed.

  Lemma trunc_eq_lcp k : forall x y, firstn k x = firstn k y -> x <> y -> (k <= length (lcp x y))%nat.
  Proof.
    induction k as [|k IH]; intros x y H Hne; [lia|].
    destruct x as [|a x], y as [|b y]; cbn in H; try congruence.
    injection H as -> H. cbn. rewrite eqb_refl. cbn.
    assert (x <> y) by congruence. specialize (IH x y H H0). lia.
  Qed.

  (** ** windows: both lists padded with [d] and cut to [n] elements *)
  Definition window (d : A) (n : nat) (u : list A) : list A := firstn n (u ++ repeat d n).

  Lemma window_length d n u : length (window d n u) = n.
  Proof. unfold window. rewrite firstn_length, app_length, repeat_length. lia. Qed.

  Lemma window_nil d n : window d n [] = repeat d n.
  Proof. unfold window. cbn. rewrite firstn_all2; [reflexivity|rewrite repeat_length; lia]. Qed.

  Lemma window_cons d n x u : window d (S n) (x :: u) = x :: window d n u.
  Proof.
    unfold window. cbn [app firstn]. f_equal.
    replace (repeat d (S n)) with (repeat d n ++ [d]).
    - rewrite app_assoc. rewrite firstn_app.
      replace (n - length (u ++ repeat d n))%nat with 0%nat by (rewrite app_length, repeat_length; lia).
      cbn. now rewrite app_nil_r.
    - change [d] with (repeat d 1). rewrite <- repeat_app. f_equal. lia.
  Qed.

  (** the windows differ inside: the real common prefix is the windows' one, clipped *)
  Lemma lcp_window_lt d n : forall u v,
    (length (lcp (window d n u) (window d n v)) < n)%nat ->
    length (lcp u v) = Nat.min (length (lcp (window d n u) (window d n v))) (Nat.min (length u) (length v)).
  Proof.
    induction n as [|n IH]; intros u v H; [lia|].
    destruct u as [|x u]; [cbn; lia|].
    destruct v as [|y v]; [rewrite lcp_nil_r; cbn; lia|].
    rewrite !window_cons in *. cbn in *.
    destruct (eqb x y); cbn in *; [|reflexivity].
    rewrite (IH u v) by lia. lia.
  Qed.

  (** the windows are equal and both lists go on: skip [n] elements *)
  Lemma lcp_window_eq_long d n : forall u v,
    length (lcp (window d n u) (window d n v)) = n ->
    (n <= length u)%nat -> (n <= length v)%nat ->
    length (lcp u v) = (n + length (lcp (skipn n u) (skipn n v)))%nat.
  Proof.
    induction n as [|n IH]; intros u v H Hu Hv; [reflexivity|].
    destruct u as [|x u]; [cbn in Hu; lia|].
    destruct v as [|y v]; [cbn in Hv; lia|].
    rewrite !window_cons in H. cbn in *.
    destruct (eqb x y); cbn in *; [|lia].
    rewrite (IH u v) by lia. lia.
  Qed.

  (** the windows are equal and one list ends inside: it is a prefix of the other *)
  Lemma lcp_window_eq_short d n : forall u v,
    length (lcp (window d n u) (window d n v)) = n ->
    (length u <= n)%nat \/ (length v <= n)%nat ->
    length (lcp u v) = Nat.min (length u) (length v).
  Proof.
    induction n as [|n IH]; intros u v H Hs.
    - destruct u; [reflexivity|]. destruct v; [now rewrite lcp_nil_r|]. cbn in Hs. lia.
    - destruct u as [|x u]; [reflexivity|].
      destruct v as [|y v]; [now rewrite lcp_nil_r|].
      rewrite !window_cons in H. cbn in *.
      destruct (eqb x y); cbn in *; [|lia].
      rewrite (IH u v) by lia. lia.
  Qed.

  (** ** the order *)
  Lemma lex_refl a : lex a a = Eq.
  Proof. apply lex_cmp_refl. exact cmp_refl. Qed.

  Lemma lex_lt_neq a b : lex a b = Lt -> a <> b.
  Proof. intros H ->. rewrite lex_refl in H. discriminate. Qed.

  Lemma lex_lt_trans a : forall b c, lex a b = Lt -> lex b c = Lt -> lex a c = Lt.
  Proof.
    induction a as [|x a IH]; intros [|y b] [|z c]; cbn; try congruence.
    destruct (cmp x y) eqn:Exy; try discriminate; destruct (cmp y z) eqn:Eyz; try discriminate.
    - apply cmp_eq in Exy, Eyz. subst. rewrite cmp_refl. apply IH.
    - apply cmp_eq in Exy. subst. now rewrite Eyz.
    - apply cmp_eq in Eyz. subst. now rewrite Exy.
    - now rewrite (cmp_lt_trans _ _ _ Exy Eyz).
  Qed.

  (** the larger of two ordered lists goes beyond their common prefix *)
  Lemma lex_lt_length a : forall b, lex a b = Lt -> (length (lcp a b) < length b)%nat.
  Proof.
    induction a as [|x a IH]; intros [|y b]; cbn; try congruence; try lia.
    destruct (cmp x y) eqn:E; try discriminate; intros H.
    - apply cmp_eq in E. subst. rewrite eqb_refl. cbn. specialize (IH b H). lia.
    - rewrite eqb_neq by (now apply cmp_lt_neq). cbn. lia.
  Qed.

  (** three ordered lists: the outer common prefix is the shorter of the inner ones *)
  Lemma lcp_sorted3 a : forall b c, lex a b = Lt -> lex b c = Lt ->
    length (lcp a c) = Nat.min (length (lcp a b)) (length (lcp b c)).
  Proof.
    induction a as [|x a IH]; intros [|y b] [|z c]; cbn; try congruence; try reflexivity.
    destruct (cmp x y) eqn:Exy; try discriminate; destruct (cmp y z) eqn:Eyz; try discriminate; intros H1 H2.
    - apply cmp_eq in Exy, Eyz. subst. rewrite eqb_refl. cbn. now rewrite (IH b c).
    - apply cmp_eq in Exy. subst. rewrite eqb_refl, (eqb_neq y z) by (now apply cmp_lt_neq). cbn. lia.
    - apply cmp_eq in Eyz. subst. rewrite (eqb_neq x z) by (now apply cmp_lt_neq). reflexivity.
    - pose proof (cmp_lt_trans _ _ _ Exy Eyz) as Exz.
      rewrite (eqb_neq x z), (eqb_neq x y) by (now apply cmp_lt_neq). reflexivity.
  Qed.

  (** truncations beyond the common prefix keep the order *)
  Lemma lex_trunc_lt k1 : forall k2 a b,
    lex k1 k2 = Lt ->
    (length (lcp k1 k2) < a \/ length k1 <= a)%nat -> (length (lcp k1 k2) < b)%nat ->
    lex (firstn a k1) (firstn b k2) = Lt.
  Proof.
    induction k1 as [|x k1 IH]; intros [|y k2] a b; cbn; try congruence.
    - intros _ _ Hb. destruct b; [lia|]. rewrite firstn_nil. reflexivity.
    - destruct (cmp x y) eqn:E; try discriminate; intros H Ha Hb.
      + apply cmp_eq in E. subst. rewrite eqb_refl in *. cbn in *.
        destruct a as [|a]; [lia|]. destruct b as [|b]; [lia|]. cbn. rewrite cmp_refl.
        apply IH; [exact H|lia|lia].
      + destruct a as [|a]; [lia|]. destruct b as [|b]; [lia|]. cbn. now rewrite E.
  Qed.

  (** equal-length heads decide first *)
  Lemma lex_app p : forall q u v, length p = length q ->
    lex (p ++ u) (q ++ v) = match lex p q with Eq => lex u v | c => c end.
  Proof.
    induction p as [|x p IH]; intros [|y q] u v Hl; cbn in *; try lia; [reflexivity|].
    destruct (cmp x y); [apply IH; lia|reflexivity|reflexivity].
  Qed.
End Gen.

(** * instances *)
Lemma bool_eqb_spec x y : Bool.eqb x y = true <-> x = y.
Proof. destruct x, y; cbn; split; congruence. Qed.

Lemma bool_cmp_lt_trans x y z : bool_cmp x y = Lt -> bool_cmp y z = Lt -> bool_cmp x z = Lt.
Proof. destruct x, y, z; cbn; congruence. Qed.

Lemma Z_eqb_spec x y : Z.eqb x y = true <-> x = y.
Proof. apply Z.eqb_eq. Qed.

Lemma Z_cmp_lt_trans x y z : Z.compare x y = Lt -> Z.compare y z = Lt -> Z.compare x z = Lt.
Proof. rewrite !Z.compare_lt_iff. lia. Qed.
